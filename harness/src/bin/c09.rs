//! C09 — serialized objects parse back to the same value.
//!
//! Requests
//!   `obj d <tree tokens>`   the tree is put under key `V` of `Annotation::properties` (a public
//!                           `Dictionary` merged verbatim into the written annotation object), the
//!                           document is written uncompressed by the real `PdfWriter`
//!                           (`write_object_value`), the bytes of the value are cut out of the file,
//!                           and `value ++ "\n>>\nendobj\n"` is parsed by the real `PdfObject::parse`.
//!   `obj o <tree tokens>`   same with `use_object_streams + use_xref_streams`
//!                           (`write_object_value_to_buffer`); the value is cut out of the inflated
//!                           object stream.
//!   `lex <hex>`             `PdfObject::parse` on arbitrary bytes, then the next two tokens
//!   `tok <hex>`             the token stream of `Lexer::next_token` (≤ 64 tokens)
//!   `img d|o <w> <hex>`     a raw DeviceGray image `w` x `len/w` with these samples is added to a
//!                           page (`Image::from_gray_data`, stored unfiltered: `compress_streams =
//!                           false`), the document is written, the image XObject's stream object is
//!                           cut out of the file (by its own /Length), `body ++ "\nendobj\n"` goes
//!                           through the real `PdfObject::parse`, and the whole file through the real
//!                           `PdfReader` (`raw_data` of the image stream)
//!   `stm <hex>`             `PdfObject::parse` on arbitrary bytes shaped like a stream object
//! Answers
//!   obj: `<hex of the value's bytes>|<canonical parsed value or err:class>|<next two tokens>`
//!   lex: `<canonical parsed value or err:class>|<next two tokens>`
//!   tok: `<token>,<token>,…`
//!   img: `<hex of the stream object's bytes>|<stm answer for them>|reader:<hex raw_data>`
//!   stm: `S <dict canon> <hex data>|<next two tokens>` / `O <canon>|<tokens>` / `err:class|-`
#[path = "../b0930_common.rs"]
mod common;
use common::*;
use oxidize_pdf::annotations::{Annotation, AnnotationType};
use oxidize_pdf::geometry::{Point, Rectangle};
use oxidize_pdf::parser::lexer::Lexer;
use oxidize_pdf::writer::WriterConfig;
use oxidize_pdf::{Document, Page};
use oxiharness::*;
use std::io::Cursor;

const TRAILER: &[u8] = b"\n>>\nendobj\n";

fn find(h: &[u8], n: &[u8], from: usize) -> Option<usize> {
    if n.is_empty() || h.len() < n.len() {
        return None;
    }
    (from..=h.len() - n.len()).find(|&i| &h[i..i + n.len()] == n)
}

fn rfind(h: &[u8], n: &[u8]) -> Option<usize> {
    if n.is_empty() || h.len() < n.len() {
        return None;
    }
    (0..=h.len() - n.len()).rev().find(|&i| &h[i..i + n.len()] == n)
}

fn write_doc(tree: &T, cfg: WriterConfig) -> Result<Vec<u8>, String> {
    let mut doc = Document::new();
    let mut page = Page::a4();
    let mut a = Annotation::new(
        AnnotationType::Text,
        Rectangle::new(Point::new(0.0, 0.0), Point::new(0.0, 0.0)),
    );
    a.properties.set("V", tree.to_object());
    page.add_annotation(a);
    doc.add_page(page);
    doc.to_bytes_with_config(cfg).map_err(|e| format!("write-error:{}", e))
}

/// bytes of the value of `/V` in the annotation object, direct-object configuration
fn value_bytes_direct(tree: &T) -> Result<Vec<u8>, String> {
    let cfg = WriterConfig { compress_streams: false, ..WriterConfig::default() };
    let pdf = write_doc(tree, cfg)?;
    // object boundaries from the classic xref table
    let sx = rfind(&pdf, b"startxref\n").ok_or("no-startxref")?;
    let num: String = pdf[sx + 10..].iter().take_while(|b| b.is_ascii_digit()).map(|&b| b as char).collect();
    let xref: usize = num.parse().map_err(|_| "bad-startxref")?;
    if !pdf[xref..].starts_with(b"xref\n") {
        return Err("no-xref-table".into());
    }
    let mut p = xref + 5;
    let line_end = find(&pdf, b"\n", p).ok_or("xref-header")?;
    let hdr = String::from_utf8_lossy(&pdf[p..line_end]).to_string();
    let n: usize = hdr.split(' ').nth(1).and_then(|s| s.parse().ok()).ok_or("xref-header")?;
    p = line_end + 1;
    let mut offs = vec![xref];
    for i in 0..n {
        let l = &pdf[p + 20 * i..p + 20 * i + 20];
        if l[17] == b'n' {
            let o: usize = String::from_utf8_lossy(&l[..10]).parse().map_err(|_| "xref-entry")?;
            offs.push(o);
        }
    }
    offs.sort();
    // the annotation object: keys are written sorted — P, Rect, Subtype, Type, V
    let marker = b"\n/Type /Annot\n/V ";
    let m = find(&pdf, marker, 0).ok_or("no-annot")?;
    let vstart = m + marker.len();
    let end = *offs.iter().find(|&&o| o > m).ok_or("no-next-object")?;
    if end < vstart + TRAILER.len() || &pdf[end - TRAILER.len()..end] != TRAILER {
        return Err("annot-object-does-not-end-with-trailer".into());
    }
    Ok(pdf[vstart..end - TRAILER.len()].to_vec())
}

/// object-stream configuration: find the object stream that holds the annotation, inflate it,
/// cut the annotation object by the stream's own offset table
fn value_bytes_objstm(tree: &T) -> Result<Vec<u8>, String> {
    use std::io::Read;
    let cfg = WriterConfig {
        use_xref_streams: true,
        use_object_streams: true,
        pdf_version: "1.5".into(),
        compress_streams: true,
        incremental_update: false,
    };
    let pdf = write_doc(tree, cfg)?;
    if let Ok(p) = std::env::var("C09_DUMP") {
        let _ = std::fs::write(p, &pdf);
    }
    let mut from = 0;
    while let Some(p) = find(&pdf, b"/Type /ObjStm", from) {
        from = p + 1;
        // dictionary start: the `obj\n<<` before p ; stream data after `stream\n`
        let dstart = match rfind(&pdf[..p], b" obj\n<<") {
            Some(x) => x,
            None => continue,
        };
        let dict = &pdf[dstart..];
        let s = match find(dict, b"\nstream\n", 0) {
            Some(x) => x,
            None => continue,
        };
        let dtxt = String::from_utf8_lossy(&dict[..s]).to_string();
        let geti = |k: &str| -> Option<usize> {
            let i = dtxt.find(k)? + k.len();
            dtxt[i..].trim_start().split(|c: char| !c.is_ascii_digit()).next()?.parse().ok()
        };
        let (len, first, nobj) = match (geti("/Length"), geti("/First"), geti("/N")) {
            (Some(a), Some(b), Some(c)) => (a, b, c),
            _ => continue,
        };
        let data = &dict[s + 8..s + 8 + len];
        let mut inflated = vec![];
        if dtxt.contains("/FlateDecode") {
            if flate2::read::ZlibDecoder::new(data).read_to_end(&mut inflated).is_err() {
                continue;
            }
        } else {
            inflated = data.to_vec();
        }
        let header = String::from_utf8_lossy(&inflated[..first.min(inflated.len())]).to_string();
        let nums: Vec<usize> = header.split_ascii_whitespace().filter_map(|x| x.parse().ok()).collect();
        if nums.len() < 2 * nobj {
            continue;
        }
        let mut bounds: Vec<usize> = (0..nobj).map(|i| first + nums[2 * i + 1]).collect();
        bounds.push(inflated.len());
        for i in 0..nobj {
            let body = &inflated[bounds[i]..bounds[i + 1]];
            let marker: &[u8] = b"<<\n/F 4\n/Rect [0 0 0 0]\n/Subtype /Text\n/Type /Annot\n/V ";
            if body.starts_with(marker) {
                {
                    let m = 0;
                    // the object body ends with "\n>>" (+ a separator byte before the next object)
                    let mut e = body.len();
                    while e > 0 && (body[e - 1] == b'\n' || body[e - 1] == b' ') && !body[..e].ends_with(b"\n>>") {
                        e -= 1;
                    }
                    if !body[..e].ends_with(b"\n>>") {
                        return Err("objstm-annot-does-not-end-with->>".into());
                    }
                    return Ok(body[m + marker.len()..e - 3].to_vec());
                }
            }
        }
    }
    Err("annot-not-found-in-object-streams".into())
}

/// `PdfObject::parse` with streams shown in full
fn parse_stream_and_next(bytes: &[u8]) -> String {
    use oxidize_pdf::parser::objects::PdfObject;
    let mut lexer = Lexer::new(Cursor::new(bytes.to_vec()));
    match PdfObject::parse(&mut lexer) {
        Ok(PdfObject::Stream(st)) => {
            let d = PdfObject::Dictionary(st.dict.clone());
            format!("S {} {}|{}", canon_obj_str(&d), hex(st.raw_data()), token_stream(&mut lexer, 2))
        }
        Ok(o) => format!("O {}|{}", canon_obj_str(&o), token_stream(&mut lexer, 2)),
        Err(e) => format!("{}|-", err_class(&e)),
    }
}

fn image_doc(samples: &[u8], w: u32, modern: bool) -> Result<Vec<u8>, String> {
    use oxidize_pdf::graphics::Image;
    if w == 0 || samples.len() % (w as usize) != 0 {
        return Err("bad-geometry".into());
    }
    let h = (samples.len() / w as usize) as u32;
    let image = Image::from_gray_data(samples.to_vec(), w, h).map_err(|e| format!("image-rejected:{}", e))?;
    let mut doc = Document::new();
    let mut page = Page::a4();
    page.add_image("Im1", image);
    page.draw_image("Im1", 100.0, 100.0, 50.0, 50.0).map_err(|e| format!("draw:{}", e))?;
    doc.add_page(page);
    let cfg = if modern {
        WriterConfig { use_xref_streams: true, use_object_streams: true, pdf_version: "1.5".into(), compress_streams: true, incremental_update: false }
    } else {
        WriterConfig { compress_streams: false, ..WriterConfig::default() }
    };
    doc.to_bytes_with_config(cfg).map_err(|e| format!("write-error:{}", e))
}

/// the bytes `<< … >>\nstream\n…\nendstream` of the image XObject, cut by the object's own /Length
fn image_stream_body(pdf: &[u8]) -> Result<Vec<u8>, String> {
    let mut from = 0;
    while let Some(m) = find(pdf, b"/Subtype /Image", from) {
        from = m + 1;
        let Some(ostart) = rfind(&pdf[..m], b" obj\n<<") else { continue };
        let dstart = ostart + 5;
        let Some(srel) = find(&pdf[dstart..], b"\n>>\nstream\n", 0) else { continue };
        let dict_end = dstart + srel + 3;
        let dtxt = String::from_utf8_lossy(&pdf[dstart..dict_end]).to_string();
        let Some(li) = dtxt.find("/Length ") else { continue };
        let len: usize = match dtxt[li + 8..].split(|c: char| !c.is_ascii_digit()).next().and_then(|x| x.parse().ok()) {
            Some(x) => x,
            None => continue,
        };
        let data_start = dict_end + 8;
        let end = data_start + len;
        let tail: &[u8] = b"\nendstream\nendobj\n";
        if end + tail.len() > pdf.len() || &pdf[end..end + tail.len()] != tail {
            return Err("image-object-does-not-end-with-endstream-endobj".into());
        }
        return Ok(pdf[dstart..end + 10].to_vec());
    }
    Err("image-object-not-found".into())
}

fn reader_image_data(pdf: Vec<u8>) -> String {
    use oxidize_pdf::parser::objects::PdfObject;
    use oxidize_pdf::parser::PdfReader;
    let mut reader = match PdfReader::new(Cursor::new(pdf)) {
        Ok(r) => r,
        Err(_) => return "reader-open-failed".into(),
    };
    let size = match reader.trailer().size() {
        Ok(s) => s,
        Err(_) => return "no-size".into(),
    };
    for num in 1..size {
        let obj = match reader.get_object(num, 0) {
            Ok(o) => o.clone(),
            Err(_) => continue,
        };
        if let PdfObject::Stream(st) = obj {
            let is_image = st.dict.get("Subtype").and_then(|o| o.as_name()).map(|n| n.as_str() == "Image").unwrap_or(false);
            if is_image {
                return hex(st.raw_data());
            }
        }
    }
    "image-not-found".into()
}

fn run(req: &str) -> String {
    let parts: Vec<&str> = req.split(' ').collect();
    match parts.first().copied() {
        Some("obj") if parts.len() >= 3 => {
            let Some(tree) = parse_tree(&parts[2..]) else { return "bad-request".into() };
            let vb = match parts[1] {
                "d" => value_bytes_direct(&tree),
                "o" => value_bytes_objstm(&tree),
                _ => return "bad-request".into(),
            };
            match vb {
                Err(e) => format!("cut-failed:{}", e),
                Ok(v) => {
                    let mut inp = v.clone();
                    inp.extend_from_slice(TRAILER);
                    format!("{}|{}", hex(&v), parse_and_next(&inp))
                }
            }
        }
        Some("lex") if parts.len() == 2 => match unhex(parts[1]) {
            Some(b) => parse_and_next(&b),
            None => "bad-request".into(),
        },
        Some("stm") if parts.len() == 2 => match unhex(parts[1]) {
            Some(b) => parse_stream_and_next(&b),
            None => "bad-request".into(),
        },
        Some("img") if parts.len() == 4 => {
            let (Ok(w), Some(samples)) = (parts[2].parse::<u32>(), unhex(parts[3])) else { return "bad-request".into() };
            let pdf = match image_doc(&samples, w, parts[1] == "o") {
                Ok(p) => p,
                Err(e) => return format!("write-failed:{}", e),
            };
            match image_stream_body(&pdf) {
                Err(e) => format!("cut-failed:{}", e),
                Ok(body) => {
                    let mut inp = body.clone();
                    inp.extend_from_slice(b"\nendobj\n");
                    // `PdfReader` on an object-stream file costs 6–10 s in this unoptimised build
                    // (a timeout under load): the whole-file reader runs on the classic layout only
                    let rd = if parts[1] == "o" { "n/a".to_string() } else { reader_image_data(pdf) };
                    format!("{}|{}|reader:{}", hex(&body), parse_stream_and_next(&inp), rd)
                }
            }
        }
        Some("tok") if parts.len() == 2 => match unhex(parts[1]) {
            Some(b) => token_stream(&mut Lexer::new(Cursor::new(b)), 64),
            None => "bad-request".into(),
        },
        _ => "bad-request".into(),
    }
}

// ---------------------------------------------------------------------------------------------
// generator

#[derive(Clone, Copy)]
struct Mix {
    /// 1/n of names get special characters *including non-ASCII ones* (0 = never; then one name in
    /// three still gets ASCII specials — white space, delimiters, `#`, controls — which the writer
    /// escapes and both readers must give back)
    odd_names: u64,
    cr_strings: bool,
    ref_like: bool,
    big_reals: bool,
    nonfinite: bool,
    far_refs: bool,
}

const SAFE: Mix = Mix { odd_names: 0, cr_strings: false, ref_like: false, big_reals: false, nonfinite: false, far_refs: false };

fn gen_name(rng: &mut Rng, mix: Mix) -> String {
    if mix.odd_names > 0 && rng.chance(1, mix.odd_names) {
        let k = 1 + rng.below(2) as usize;
        text(rng, 5, k)
    } else if rng.chance(1, 3) {
        // ASCII only: every non-ASCII char becomes one of the bytes the writer must escape
        let k = 1 + rng.below(3) as usize;
        let s: String = text(rng, 5, k)
            .chars()
            .map(|c| if c.is_ascii() { c } else { *rng.pick(&['#', ' ', '/', '\x00', '(', '{', '\x7f', '%', '~', '!']) })
            .collect();
        if s == "R" && !mix.ref_like { "R#".into() } else { s }
    } else {
        let s = plain_ident(rng, 6);
        // a plain name that is exactly "R" is the reference look-alike; only on request
        if s == "R" && !mix.ref_like { "Rr".into() } else { s }
    }
}

fn gen_string(rng: &mut Rng, mix: Mix) -> String {
    let k = rng.below(4) as usize;
    let s = text(rng, 8, k);
    // CR (alone, before LF, doubled) is inside the proved fragment since it is written `\r`
    let _ = mix.cr_strings;
    s
}

fn gen_real(rng: &mut Rng, mix: Mix) -> f64 {
    loop {
        let f = match rng.below(6) {
            0 | 1 => *rng.pick(REAL_EDGES),
            2 => rng.range(-100000, 100000) as f64 / 100.0,
            3 => f64::from_bits(rng.next()),
            4 => (rng.next() as f64) / (1u64 << 20) as f64 * if rng.chance(1, 2) { -1.0 } else { 1.0 },
            _ => rng.range(-999, 999) as f64 + rng.below(1000000) as f64 / 1e6,
        };
        if !f.is_finite() {
            if mix.nonfinite { return f; } else { continue; }
        }
        if f.abs() >= 9.2e18 && !mix.big_reals {
            continue;
        }
        if mix.nonfinite && rng.chance(1, 3) {
            return *rng.pick(NONFINITE);
        }
        return f;
    }
}

fn gen_tree(rng: &mut Rng, depth: u32, mix: Mix) -> T {
    let leaf = depth == 0 || rng.chance(3, 5);
    if leaf {
        match rng.below(10) {
            0 => T::Null,
            1 => T::Bool(rng.chance(1, 2)),
            2 => T::Int(if rng.chance(1, 2) { *rng.pick(INT_EDGES) } else { rng.range(-70000, 70000) }),
            3 => T::Real(gen_real(rng, mix)),
            4 | 5 => T::Str(gen_string(rng, mix)),
            6 => {
                let n = rng.below(6) as usize;
                T::Hex(rng.bytes(n))
            }
            7 | 8 => T::Name(gen_name(rng, mix)),
            _ => T::Ref(
                // object numbers beyond the old look-ahead window (9 999 999) are ordinary now
                if mix.far_refs { *rng.pick(&[9999999u32, 10000000, u32::MAX]) } else { *rng.pick(&[0u32, 1, 7, 1000000, 9999999, 10000000, u32::MAX - 1, u32::MAX]) },
                *rng.pick(&[0u16, 1, 65535]),
            ),
        }
    } else if rng.chance(1, 2) {
        let n = rng.below(5) as usize;
        let mut xs: Vec<T> = (0..n).map(|_| gen_tree(rng, depth - 1, mix)).collect();
        if !mix.ref_like {
            // never [int int /R] by accident
            for i in 2..xs.len() {
                if matches!(&xs[i], T::Name(s) if s == "R") {
                    xs[i] = T::Name("Rx".into());
                }
            }
        } else if rng.chance(1, 2) {
            let at = rng.below(xs.len() as u64 + 1) as usize;
            let a = *rng.pick(&[0i64, 1, 12, 9999999, 10000000, -1]);
            let b = *rng.pick(&[0i64, 0, 5, 65535, 65536, -1]);
            xs.splice(at..at, [T::Int(a), T::Int(b), T::Name("R".into())]);
        }
        T::Arr(xs)
    } else {
        let n = rng.below(4) as usize;
        T::Dict((0..n).map(|_| (gen_name(rng, mix), gen_tree(rng, depth - 1, mix))).collect())
    }
}

fn has_nt(t: &T) -> bool {
    match t {
        T::Str(s) => s.bytes().any(|b| b"()\\\r\n".contains(&b) || b >= 0x80),
        T::Name(n) => n.bytes().any(|b| !(b.is_ascii_alphanumeric())),
        T::Real(_) | T::Hex(_) => true,
        T::Int(i) => !(0..=9).contains(i),
        T::Arr(xs) => xs.len() > 1 || xs.iter().any(has_nt),
        T::Dict(kvs) => !kvs.is_empty(),
        _ => false,
    }
}

/// keep arbitrary lexer inputs inside the class where a real token's canonical form is a purely
/// syntactic function of the token (see docs/C09.md): no exponent part, at most 9 characters in a
/// run of digits/periods that contains a period, no `stream` keyword (stream bodies unmodelled)
fn sanitize_numbers(b: &mut Vec<u8>) {
    let mut run = 0usize;
    let mut dot = false;
    for i in 0..b.len() {
        let c = b[i];
        if (c == b'e' || c == b'E') && i > 0 && (b[i - 1].is_ascii_digit() || b[i - 1] == b'.') {
            b[i] = b'x';
        }
        if b[i].is_ascii_digit() || b[i] == b'.' {
            run += 1;
            dot |= b[i] == b'.';
            if run > 9 && (dot || true) {
                // break the run
                b[i] = b' ';
                run = 0;
                dot = false;
            }
        } else {
            run = 0;
            dot = false;
        }
    }
    while let Some(p) = find(b, b"stream", 0) {
        b[p] = b'S';
    }
}

const FRAGS: &[&[u8]] = &[
    b"<<", b">>", b"[", b"]", b"/Name", b"/A#20B", b"/A#2", b"/#", b"/A#+5", b"/#zz", b"/", b"/R", b"#", b"(str)",
    b"(a\\)b)", b"(a(b)c)", b"(\\101\\7\\18\\777x)", b"(\\", b"(\\\n)", b"(\r\n)", b"(un", b"\\", b"<48 65>", b"<4>", b"<>",
    b"<4G>", b"<41", b"12", b"0", b"7", b"-3.5", b"+.5", b"1.", b".", b"-", b"+", b"+-1", b"1.2.3", b"00012", b"-0", b"0.0",
    b"-0.0", b"9999999", b"10000000", b"65535", b"65536", b"9223372036854775807", b"9223372036854775808",
    b"-9223372036854775808", b"0 0 R", b"1 0 R", b"R", b"Rx", b"true", b"false", b"null", b"nul", b"truex", b"trailer", b"obj",
    b"endobj", b"endstream", b"startxref", b"xref", b"%comment\n", b"%c\r", b"%", b";", b";;;", b"\x00", b"\x01", b"\x07",
    b"\x85", b"\x9f", b"\xa0", b"\xff", b"{", b"}", b")", b"!", b"_", b" ", b"\n", b"\r", b"\t", b"\x0c", b"  ",
];

fn gen_soup(rng: &mut Rng) -> Vec<u8> {
    let n = 1 + rng.below(10) as usize;
    let mut out = vec![];
    for _ in 0..n {
        let f: &[u8] = *rng.pick(FRAGS);
        out.extend_from_slice(f);
        if rng.chance(2, 3) {
            out.push(*rng.pick(b" \n\r\t "));
        }
    }
    out
}

/// the model serializer is not available here; a plain, well-formed rendering is enough as a seed
fn render(t: &T, out: &mut Vec<u8>) {
    match t {
        T::Null => out.extend_from_slice(b"null"),
        T::Bool(b) => out.extend_from_slice(if *b { b"true" } else { b"false" }),
        T::Int(i) => out.extend_from_slice(i.to_string().as_bytes()),
        T::Real(f) => out.extend_from_slice(format!("{:.3}", f).as_bytes()),
        T::Str(s) => {
            out.push(b'(');
            for b in s.bytes() {
                if b"()\\".contains(&b) {
                    out.push(b'\\');
                }
                out.push(b);
            }
            out.push(b')');
        }
        T::Hex(h) => {
            out.push(b'<');
            out.extend_from_slice(hex(h).replace('-', "").as_bytes());
            out.push(b'>');
        }
        T::Name(n) => {
            out.push(b'/');
            out.extend_from_slice(n.as_bytes());
        }
        T::Arr(xs) => {
            out.push(b'[');
            for (i, x) in xs.iter().enumerate() {
                if i > 0 {
                    out.push(b' ');
                }
                render(x, out);
            }
            out.push(b']');
        }
        T::Dict(kvs) => {
            out.extend_from_slice(b"<<");
            for (k, v) in kvs {
                out.extend_from_slice(b"\n/");
                out.extend_from_slice(k.as_bytes());
                out.push(b' ');
                render(v, out);
            }
            out.extend_from_slice(b"\n>>");
        }
        T::Ref(n, g) => out.extend_from_slice(format!("{} {} R", n, g).as_bytes()),
    }
}

fn mutate(rng: &mut Rng, b: &mut Vec<u8>) {
    let k = 1 + rng.below(3);
    for _ in 0..k {
        if b.is_empty() {
            b.push(b' ');
        }
        let at = rng.below(b.len() as u64) as usize;
        match rng.below(4) {
            0 => b[at] = *rng.pick(b"()<>[]{}/%# \n\r\t\x00\\;R+-.0123456789abfnrtz\x01\x85\xa0"),
            1 => {
                b.remove(at);
            }
            2 => b.insert(at, *rng.pick(b"()<>[]{}/%# \n\r\\;R+-.019\x00\x9f")),
            _ => b.truncate(at),
        }
    }
}

fn gen(rng: &mut Rng, tier: Tier) -> Vec<Case> {
    let scale = if tier == Tier::Quick { 1 } else { 8 };
    let mut cases = vec![];
    let push_obj = |cases: &mut Vec<Case>, mode: &str, t: &T, kind: &str| {
        let nt = if has_nt(t) { " nt" } else { "" };
        cases.push(Case::new(format!("obj {} {}", mode, t.to_req()), format!("obj-{} {}{}", mode, kind, nt)));
    };
    // 1. trees inside the safe fragment (both halves of the property must hold)
    for _ in 0..260 * scale {
        let d = 1 + rng.below(3) as u32;
        let t = gen_tree(rng, d, SAFE);
        push_obj(&mut cases, "d", &t, "safe");
    }
    // 2. trees with one defect class switched on each
    let classes: [(&str, Mix); 6] = [
        ("far-refs", Mix { far_refs: true, ..SAFE }),
        ("odd-names", Mix { odd_names: 2, ..SAFE }),
        ("cr-strings", Mix { cr_strings: true, ..SAFE }),
        ("ref-like", Mix { ref_like: true, ..SAFE }),
        ("big-reals", Mix { big_reals: true, ..SAFE }),
        ("nonfinite", Mix { nonfinite: true, ..SAFE }),
    ];
    for (kind, mix) in classes {
        for _ in 0..40 * scale {
            let d = 1 + rng.below(3) as u32;
            let mut t = gen_tree(rng, d, mix);
            // make sure the class's feature is present in most cases
            if rng.chance(3, 4) {
                let feature = match kind {
                    "cr-strings" => Some(T::Str(format!("{}\r{}", plain_ident(rng, 3), if rng.chance(1, 2) { "\n" } else { "x" }))),
                    "big-reals" => Some(T::Real(*rng.pick(&[9.3e18, 1e19, -1e19, 1e22, 1e300, f64::MAX, f64::MIN, 9223372036854775807.0]))),
                    "nonfinite" => Some(T::Real(*rng.pick(NONFINITE))),
                    "odd-names" => Some(T::Name(text(rng, 4, 1))),
                    _ => None,
                };
                if let Some(f) = feature {
                    t = if rng.chance(1, 2) {
                        T::Arr(vec![t, f])
                    } else {
                        T::Dict(vec![("A".into(), f), ("B".into(), t)])
                    };
                }
            }
            push_obj(&mut cases, "d", &t, kind);
        }
    }
    // 3. everything at once
    let all = Mix { odd_names: 4, cr_strings: true, ref_like: true, big_reals: true, nonfinite: false, far_refs: true };
    for _ in 0..60 * scale {
        let t = gen_tree(rng, 3, all);
        push_obj(&mut cases, "d", &t, "mixed");
    }
    // 4. single leaves over the edge tables, directly and inside an array / a dictionary
    for &i in INT_EDGES {
        push_obj(&mut cases, "d", &T::Int(i), "edge-int");
        push_obj(&mut cases, "d", &T::Arr(vec![T::Int(i), T::Int(0), T::Name("S".into())]), "edge-int");
    }
    for &f in REAL_EDGES {
        push_obj(&mut cases, "d", &T::Real(f), "edge-real");
        push_obj(&mut cases, "d", &T::Dict(vec![("K".into(), T::Real(-f)), ("L".into(), T::Int(1))]), "edge-real");
    }
    for &c in SPECIAL_CHARS {
        push_obj(&mut cases, "d", &T::Name(format!("A{}B", c)), "edge-name");
        push_obj(&mut cases, "d", &T::Str(format!("a{}b", c)), "edge-str");
        push_obj(&mut cases, "d", &T::Dict(vec![(format!("{}k", c), T::Int(1))]), "edge-key");
    }
    // 4b. every ASCII byte inside a name and inside a key (the escape table of
    //     `escape_pdf_name_bytes`, boundaries 0x20/0x21 and 0x7e/0x7f included), 16 per tree
    for base in (0u8..128).step_by(16) {
        let names: Vec<T> = (base..base + 16).map(|b| T::Name(format!("A{}b", b as char))).collect();
        push_obj(&mut cases, "d", &T::Arr(names), "name-bytes");
        let keys: Vec<(String, T)> = (base..base + 16).map(|b| (format!("{}", b as char), T::Int(b as i64))).collect();
        push_obj(&mut cases, if base == 32 { "o" } else { "d" }, &T::Dict(keys), "key-bytes");
    }
    // 5. the object-stream path (few: every write is a multi-megabyte file)
    for _ in 0..(if tier == Tier::Quick { 6 } else { 60 }) {
        let t = gen_tree(rng, 2, SAFE);
        push_obj(&mut cases, "o", &t, "safe");
    }
    for _ in 0..(if tier == Tier::Quick { 4 } else { 40 }) {
        let t = gen_tree(rng, 2, all);
        push_obj(&mut cases, "o", &t, "mixed");
    }
    // 6. lexer / parser on arbitrary input: token soup and mutated well-formed objects
    for i in 0..700 * scale {
        let mut b = if i % 2 == 0 {
            gen_soup(rng)
        } else {
            let mut v = vec![];
            render(&gen_tree(rng, 2, all), &mut v);
            mutate(rng, &mut v);
            v
        };
        sanitize_numbers(&mut b);
        let kind = if i % 2 == 0 { "soup" } else { "mutated" };
        let op = if i % 4 < 2 { "lex" } else { "tok" };
        cases.push(Case::new(format!("{} {}", op, hex(&b)), format!("{} {} nt", op, kind)));
    }
    for f in FRAGS {
        let mut b = f.to_vec();
        sanitize_numbers(&mut b);
        cases.push(Case::new(format!("tok {}", hex(&b)), "tok frag"));
        cases.push(Case::new(format!("lex {}", hex(&b)), "lex frag"));
    }
    // 7. stream objects: raw image payloads through the public API, boundary first/last bytes
    let edges: &[&[u8]] = &[
        b"\n", b"\r", b"\r\n", b"\n\n", b"\n\r", b" ", b"\x00", b"\t", b"\x0c", b"e", b"endstream", b"endobj", b"\nendstream",
        b"\nendstream\nendobj\n", b"stream\n", b">>", b"%", b"x",
    ];
    let mut payloads: Vec<Vec<u8>> = vec![];
    for a in edges {
        payloads.push(a.to_vec());
        for b in edges {
            let mut v = a.to_vec();
            v.extend_from_slice(b"012");
            v.extend_from_slice(b);
            payloads.push(v);
        }
    }
    let n_img = if tier == Tier::Quick { 90 } else { payloads.len() };
    // deterministic spread: always the LF / CR / CRLF first-byte cases, then a sample of the rest
    let mut chosen: Vec<Vec<u8>> = payloads.iter().filter(|p| p.len() <= 2).cloned().collect();
    while chosen.len() < n_img {
        chosen.push(rng.pick(&payloads).clone());
    }
    for (i, p) in chosen.iter().enumerate() {
        let mut p = p.clone();
        if rng.chance(1, 4) {
            let k = rng.below(6) as usize;
            p.extend(rng.bytes(k));
        }
        let divs: Vec<usize> = (1..=p.len()).filter(|d| p.len() % d == 0).collect();
        let w = *rng.pick(&divs);
        let mode = if i % 6 == 5 { "o" } else { "d" };
        cases.push(Case::new(format!("img {} {} {}", mode, w, hex(&p)), format!("img-{} nt", mode)));
    }
    // 8. hand-shaped stream objects through `PdfObject::parse`: every EOL variant after `stream`,
    //    right / wrong / missing / odd /Length, payload edges, endstream variants
    let eols: &[&[u8]] = &[b"\n", b"\r\n", b"\r", b" ", b"", b"\n\n", b"\r\r", b" \n", b"\t\n"];
    let ends: &[&[u8]] = &[b"\nendstream", b"endstream", b"\r\nendstream", b"\rendstream", b" endstream", b"\nendstrea", b"\nendobj", b"", b"\n\nendstream", b"%c\nendstream"];
    let n_stm = if tier == Tier::Quick { 260 } else { 2600 };
    for i in 0..n_stm {
        let data: Vec<u8> = if i % 3 == 0 { rng.pick(&payloads).clone() } else { let k = rng.below(5) as usize; let mut v = rng.pick(edges).to_vec(); v.extend(rng.bytes(k)); if rng.chance(1,3) { v.clear(); } v };
        let len: i64 = match rng.below(12) {
            0 => data.len() as i64 + 1,
            1 => data.len() as i64 - 1,
            2 => -2,
            3 => 0,
            _ => data.len() as i64,
        };
        // an explicit -1 is the code's private "missing length" marker (endstream search): not modelled
        let len = if len == -1 { -2 } else { len };
        let len_txt = match rng.below(14) {
            0 => String::new(),
            1 => "/Length 3 0 R".to_string(),
            2 => "/Length /X".to_string(),
            3 => format!("/Length 1 /Length {}", len),
            4 => format!("/Length {}.0", len),
            _ => format!("/Length {}", len),
        };
        let extra = *rng.pick(&["", "/Type /XObject ", "/A [1 2] ", "/K (s) ", "%c\n"]);
        let mut b = format!("<< {}{} >>", extra, len_txt).into_bytes();
        b.extend_from_slice(*rng.pick(&[&b"\n"[..], b" ", b"", b"%c\n", b"\r\n"]));
        b.extend_from_slice(b"stream");
        b.extend_from_slice(if rng.chance(3, 5) { b"\n" } else { *rng.pick(eols) });
        b.extend_from_slice(&data);
        b.extend_from_slice(if rng.chance(3, 5) { b"\nendstream" } else { *rng.pick(ends) });
        b.extend_from_slice(*rng.pick(&[&b"\nendobj\n"[..], b"", b" 1", b"\n"]));
        cases.push(Case::new(format!("stm {}", hex(&b)), "stm nt"));
    }
    cases
}

fn main() {
    harness_main(gen, run, Limits::default());
}
