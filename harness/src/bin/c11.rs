//! C11 — text extraction conserves every drawn character.
//!
//! `run` builds a one-page PDF from the request with the independent reference writer
//! (`shared_b11/refpdf.rs`), opens it with the real parser and runs the REAL
//! `TextExtractor::extract_from_page` under the requested `ExtractionOptions`, three times
//! (fresh extractor, same extractor again, another fresh extractor) for determinism.
//!
//! Answer: `ok t<truncated> b<len-within-budget> d<deterministic> x<hex> f<hex>`
//!   x = UTF-8 hex of the non-white-space characters of `.text`, in order
//!   f = the same for the concatenation of `.fragments[*].text` (`-` when there is none)
use oxiharness::*;
use oxidize_pdf::parser::{PdfDocument, PdfReader};
use oxidize_pdf::text::{CarriageReturnHandling, ExtractionOptions, TextExtractor};
use std::io::Cursor;

#[path = "../shared_b11/refpdf.rs"]
mod refpdf;
use refpdf::*;

fn options(o: &Opts) -> ExtractionOptions {
    let mut e = ExtractionOptions::default();
    e.preserve_layout = o.pl;
    e.sort_by_position = o.sp;
    e.detect_columns = o.dc;
    e.merge_hyphenated = o.mh;
    e.reconstruct_paragraphs = o.rp;
    e.include_artifacts = o.ia;
    e.reorder_columns = o.rc;
    e.max_extracted_bytes = o.max;
    match o.thr {
        1 => {
            e.newline_threshold = 2.0;
            e.column_threshold = 15.0;
            e.space_threshold = 0.1;
            e.tj_space_threshold = 0.05;
        }
        2 => {
            e.newline_threshold = 30.0;
            e.column_threshold = 100.0;
            e.space_threshold = 0.6;
            e.tj_space_threshold = 0.5;
        }
        _ => {}
    }
    e
}

fn extractor(o: &Opts) -> TextExtractor {
    let cr = match o.cr {
        1 => CarriageReturnHandling::ReplaceWithSpace,
        2 => CarriageReturnHandling::NormalizeLineEnding,
        _ => CarriageReturnHandling::Remove,
    };
    TextExtractor::with_options(options(o)).with_reading_order(o.ro).with_carriage_return_handling(cr)
}

/// Everything observable of one extraction, floats as bit patterns.
fn fingerprint(t: &oxidize_pdf::text::ExtractedText) -> String {
    let mut s = format!("{}|{}|", t.truncated, t.text);
    for f in &t.fragments {
        s.push_str(&format!(
            "[{}|{:x}|{:x}|{:x}|{:x}|{:x}|{:?}|{}|{}|{:?}|{:?}]",
            f.text,
            f.x.to_bits(),
            f.y.to_bits(),
            f.width.to_bits(),
            f.height.to_bits(),
            f.font_size.to_bits(),
            f.font_name,
            f.is_bold,
            f.is_italic,
            f.mcid,
            f.struct_tag
        ));
    }
    s
}

fn non_ws_hex(s: &str) -> String {
    let t: String = s.chars().filter(|c| !c.is_whitespace()).collect();
    hex(t.as_bytes())
}

fn run(req: &str) -> String {
    let t0 = std::time::Instant::now();
    let Some(p) = parse_request(req) else { return "bad-request".into() };
    let bytes = build_pdf(&p);
    let t1 = t0.elapsed();
    let reader = match PdfReader::new(Cursor::new(bytes)) {
        Ok(r) => r,
        Err(_) => return "err:open".into(),
    };
    let doc = PdfDocument::new(reader);
    let t2 = t0.elapsed();
    let mut ex1 = extractor(&p.opts);
    let r1 = match ex1.extract_from_page(&doc, 0) {
        Ok(t) => t,
        Err(_) => return "err:extract".into(),
    };
    let fp1 = fingerprint(&r1);
    if std::env::var("C11_TIME").is_ok() { eprintln!("build {:?} open {:?} extract1 {:?}", t1, t2, t0.elapsed()); }
    let same_again = ex1.extract_from_page(&doc, 0).map(|t| fingerprint(&t) == fp1).unwrap_or(false);
    let fresh = extractor(&p.opts).extract_from_page(&doc, 0).map(|t| fingerprint(&t) == fp1).unwrap_or(false);
    let within = p.opts.max.map(|m| r1.text.len() <= m).unwrap_or(true);
    let frag_text: String = r1.fragments.iter().map(|f| f.text.as_str()).collect();
    format!(
        "ok t{} b{} d{} x{} f{}",
        r1.truncated as u8,
        within as u8,
        (same_again && fresh) as u8,
        non_ws_hex(&r1.text),
        non_ws_hex(&frag_text)
    )
}

// =================================================================================================
// generator
// =================================================================================================

/// WinAnsi codes whose Annex D character is unambiguous and not white space
/// (0x20, 0xA0 are spaces; 0xAD is the second `hyphen`; 0x7F,0x81,0x8D,0x8F,0x90,0x9D are undefined).
fn simple_alphabet() -> Vec<u8> {
    let mut v: Vec<u8> = (0x21..=0x7Eu8).collect();
    v.extend(0xA1..=0xACu8);
    v.extend(0xAE..=0xFFu8);
    for b in 0x80..=0x9Fu8 {
        if ![0x81, 0x8D, 0x8F, 0x90, 0x9D, 0x93, 0x94].contains(&b) {
            v.push(b);
        }
    }
    v
}

struct FontGen {
    spec: FontSpec,
    /// codes that may be shown (bytes for simple fonts, 2-byte codes for Type0)
    codes: Vec<u16>,
    hyphen: Option<u16>,
    space: Option<u16>,
}

fn fmt_font(f: &FontSpec) -> String {
    match f {
        FontSpec::Simple(k) => format!("s{}", k),
        FontSpec::Type0 { base, n, extras } => {
            let ex = if extras.is_empty() {
                "-".to_string()
            } else {
                extras
                    .iter()
                    .map(|(c, u)| format!("{:04x}={}", c, u.iter().map(|x| format!("{:04x}", x)).collect::<String>()))
                    .collect::<Vec<_>>()
                    .join("+")
            };
            format!("t{:x}.{}.{}", base, n, ex)
        }
    }
}

fn gen_font(rng: &mut Rng, simple: bool) -> FontGen {
    if simple {
        let k = rng.below(14) as usize;
        let codes: Vec<u16> = simple_alphabet().into_iter().map(|b| b as u16).collect();
        FontGen { spec: FontSpec::Simple(k), codes, hyphen: Some(0x2D), space: Some(0x20) }
    } else {
        // bases: Latin letters, Greek, Cyrillic, CJK, Hangul, a block straddling a byte carry
        let base = *rng.pick(&[0x41u32, 0x61, 0x391, 0x410, 0x4E00, 0xAC00, 0x30, 0x21, 0x00F0, 0x20F0]);
        let n = *rng.pick(&[5u32, 26, 26, 60, 94, 300]);
        let mut extras: Vec<(u16, Vec<u16>)> = vec![];
        // codes whose character is a control code have no place in a conservation statement
        let mut codes: Vec<u16> = (1..=n as u16)
            .filter(|c| {
                let u = (base + (*c as u32) - 1) & 0xFFFF;
                !(u < 0x20 || (0x7F..=0x9F).contains(&u) || (0xD800..0xE000).contains(&u))
            })
            .collect();
        let mut next = (n as u16).max(0x0200) + 1;
        let mut hyphen = None;
        let mut space = None;
        if rng.chance(3, 4) {
            extras.push((next, vec![0x2D]));
            hyphen = Some(next);
            codes.push(next);
            next += 1;
        }
        if rng.chance(3, 4) {
            extras.push((next, vec![0x20]));
            space = Some(next);
            next += 1;
        }
        if rng.chance(1, 2) {
            // ligature: one code, several characters
            extras.push((next, vec![0x66, 0x66, 0x69]));
            codes.push(next);
            next += 1;
        }
        if rng.chance(1, 3) {
            // astral character through a surrogate pair
            extras.push((next, vec![0xD83D, 0xDE00]));
            codes.push(next);
            next += 1;
        }
        if rng.chance(1, 4) {
            // an explicit bfchar overriding a code inside the bfrange
            let c = 1 + rng.below(n as u64) as u16;
            extras.push((c, vec![0x2603]));
        }
        let _ = next;
        FontGen { spec: FontSpec::Type0 { base, n, extras }, codes, hyphen, space }
    }
}

fn enc(code: u16, simple: bool, out: &mut Vec<u8>) {
    if simple {
        out.push(code as u8);
    } else {
        out.extend_from_slice(&code.to_be_bytes());
    }
}

fn word(rng: &mut Rng, f: &FontGen, len: usize, hyphen_end: bool, inner_space: bool) -> Vec<u8> {
    let simple = matches!(f.spec, FontSpec::Simple(_));
    let mut out = vec![];
    for i in 0..len {
        if inner_space && i > 0 && rng.chance(1, 6) {
            if let Some(s) = f.space {
                enc(s, simple, &mut out);
            }
        }
        let c = if rng.chance(1, 25) {
            f.hyphen.unwrap_or(f.codes[0])
        } else if simple && rng.chance(1, 2500) {
            // the two typographic double quotes of WinAnsi (known finding C11-F2)
            0x93 + rng.below(2) as u16
        } else {
            *rng.pick(&f.codes)
        };
        enc(c, simple, &mut out);
    }
    if hyphen_end {
        if let Some(h) = f.hyphen {
            enc(h, simple, &mut out);
            // "--" at the end of a run: chained hyphen fusion behind empty appends
            if rng.chance(1, 5) {
                enc(h, simple, &mut out);
            }
        }
    }
    // rare: bytes the reference semantics gives no character to (the oracle answers `na`, the
    // model must still agree): control codes and CR/LF runs for the sanitiser, undefined WinAnsi
    // codes, a stray byte that throws a 2-byte code string out of step
    if rng.chance(1, 30) {
        let junk: &[u8] = if simple {
            *rng.pick(&[
                &[0x00u8][..],
                &[0x00, 0x03],
                &[0x03],
                &[0x09],
                &[0x0A],
                &[0x0D],
                &[0x0D, 0x0A],
                &[0x0D, 0x01, 0x0A],
                &[0x0D, 0x0D],
                &[0x1F],
                &[0x7F],
                &[0x20, 0x20, 0x20],
                &[0x09, 0x20],
            ])
        } else {
            *rng.pick(&[&[0x41u8][..], &[0x00], &[0x7F], &[0x01, 0x01, 0x01], &[0x00, 0x00]])
        };
        // only ASCII bytes may reach the name-based fallback of `decode_text` (`from_utf8_lossy` on
        // other bytes is outside the model): a piece of a `TJ` array can consist of the junk alone
        let junk: &[u8] = if out.iter().all(|b| *b < 0x80) { junk } else { &[] };
        let unit = if simple { 1 } else { 2 };
        let slots = out.len() / unit + 1;
        let at = unit * rng.below(slots as u64) as usize;
        let tail = out.split_off(at);
        out.extend_from_slice(junk);
        out.extend_from_slice(&tail);
    }
    out
}

fn n1(x: f64) -> String {
    // at most one decimal, never exponent notation
    let r = (x * 10.0).round() / 10.0;
    if r == r.trunc() {
        format!("{}", r as i64)
    } else {
        format!("{:.1}", r)
    }
}

struct Ctx<'a> {
    rng: &'a mut Rng,
    fonts: &'a [FontGen],
    /// resource name -> global font index for the stream being generated
    fmap: Vec<usize>,
    hyph: u64, // chance (of 100) that a run ends with a hyphen
}

impl<'a> Ctx<'a> {
    fn font_name(&mut self) -> usize {
        self.rng.below(self.fmap.len() as u64) as usize
    }
    fn show(&mut self, name: usize, ops: &mut Vec<String>, kind: u64, len: usize) -> usize {
        let f = &self.fonts[self.fmap[name]];
        let hy = self.rng.below(100) < self.hyph;
        let w = word(self.rng, f, len, hy, true);
        let glyphs = if matches!(f.spec, FontSpec::Simple(_)) { w.len() } else { w.len() / 2 };
        match kind {
            0 => ops.push(format!("Tj:{}", hex(&w))),
            1 => {
                // TJ: split into pieces with kerns (small ones, word-gap sized ones, backward ones)
                let unit = if matches!(f.spec, FontSpec::Simple(_)) { 1 } else { 2 };
                let mut items = vec![];
                let mut i = 0;
                if self.rng.chance(1, 5) {
                    items.push(format!("n{}", self.rng.range(-400, 100)));
                }
                while i < w.len() {
                    let take = (unit * (1 + self.rng.below(4) as usize)).min(w.len() - i);
                    items.push(format!("h{}", hex(&w[i..i + take])));
                    i += take;
                    if i < w.len() || self.rng.chance(1, 6) {
                        let k = match self.rng.below(4) {
                            0 => self.rng.range(-60, 60),
                            1 => self.rng.range(-600, -210),
                            2 => self.rng.range(100, 900),
                            _ => self.rng.range(-250, -150),
                        };
                        items.push(format!("n{}", k));
                    }
                }
                ops.push(format!("TJ:{}", items.join(";")));
            }
            2 => ops.push(format!("Tq:{}", hex(&w))),
            _ => ops.push(format!("Tqq:{}:{}:{}", n1(self.rng.range(0, 30) as f64 / 10.0), n1(self.rng.range(0, 10) as f64 / 10.0), hex(&w))),
        }
        glyphs
    }
}

fn opts_string(rng: &mut Rng, force_max: Option<usize>) -> String {
    // every combination of the eight switches is reachable; defaults are over-represented
    let mut bits = [false, true, false, true, false, false, false, false];
    match rng.below(10) {
        0 | 1 => {}
        2 => bits[0] = true,
        3 => {
            bits[0] = true;
            bits[4] = true;
        }
        4 => bits[6] = true,
        5 => bits[7] = true,
        _ => {
            for b in bits.iter_mut() {
                *b = rng.chance(1, 2);
            }
        }
    }
    let cr = if rng.chance(1, 4) { rng.below(3) } else { 0 };
    let thr = if rng.chance(1, 3) { rng.below(3) } else { 0 };
    let max = match force_max {
        Some(m) => m.to_string(),
        None => "-".to_string(),
    };
    format!("o:{}:{}:{}:{}", bits.iter().map(|b| if *b { '1' } else { '0' }).collect::<String>(), cr, thr, max)
}

/// One generated document.  `style` selects the geometry family.
fn gen_doc(rng: &mut Rng, style: u64, big: bool) -> (String, String) {
    // fonts
    let nf = 1 + rng.below(4) as usize;
    let mut fonts: Vec<FontGen> = vec![];
    for i in 0..nf {
        let simple = if i == 0 { rng.chance(2, 3) } else { rng.chance(1, 2) };
        fonts.push(gen_font(rng, simple));
    }
    let nforms = match style {
        5 => 1 + rng.below(4) as usize,
        _ => {
            if rng.chance(1, 5) {
                1 + rng.below(2) as usize
            } else {
                0
            }
        }
    };
    let nstreams = 1 + nforms;
    let mut tags: Vec<&str> = vec![match style {
        0 => "lines",
        1 => "overlap",
        2 => "reversed",
        3 => "rotated",
        4 => "columns",
        5 => "forms",
        6 => "marked",
        _ => "hyphen",
    }];
    let mut streams: Vec<String> = vec![];
    let mut total_glyphs = 0usize;
    for j in 0..nstreams {
        // resource maps: a permutation-with-repetition of the global fonts, so that the same
        // resource name means different fonts in different streams
        let nm = 1 + rng.below(nf as u64 + 1) as usize;
        let mut fmap: Vec<usize> = (0..nm).map(|_| rng.below(nf as u64) as usize).collect();
        if j > 0 && rng.chance(1, 2) {
            // forms frequently agree with the page on the names they share
            fmap = (0..nf).collect();
        }
        if j == 0 && rng.chance(1, 2) {
            fmap = (0..nf).collect();
        }
        // forms may only call later forms (acyclic), most of the time
        let mut xmap: Vec<usize> = vec![];
        for t in (j + 1)..nstreams {
            if rng.chance(2, 3) {
                xmap.push(t);
            }
        }
        let matrix = if j > 0 && rng.chance(1, 2) {
            Some(match rng.below(3) {
                0 => format!("1_0_0_1_{}_{}", rng.range(-50, 200), rng.range(-300, 100)),
                1 => format!("0.5_0_0_0.5_{}_{}", rng.range(0, 300), rng.range(0, 300)),
                _ => format!("0_1_-1_0_{}_{}", rng.range(200, 500), rng.range(0, 200)),
            })
        } else {
            None
        };
        let mut ops: Vec<String> = vec![];
        let hyph = if style == 7 { 45 } else { 6 };
        let mut cx = Ctx { rng, fonts: &fonts, fmap: fmap.clone(), hyph };
        let lines = if big { 4 + cx.rng.below(10) as usize } else { 1 + cx.rng.below(5) as usize };
        // zero and negative sizes are legal operands of Tf: every size-relative threshold collapses
        let size = if cx.rng.chance(1, 30) { *cx.rng.pick(&[0i64, -12, 1]) } else { *cx.rng.pick(&[8i64, 10, 12, 12, 14, 24]) };
        let lead = match style {
            1 => cx.rng.range(0, 6),
            _ => size + cx.rng.range(1, 8),
        };
        let mut cur_font = cx.font_name();
        let x0 = cx.rng.range(36, 90);
        let y0 = cx.rng.range(500, 740);
        if cx.rng.chance(1, 6) {
            ops.push("q".into());
            ops.push(format!("cm:1_0_0_1_{}_{}", cx.rng.range(-10, 10), cx.rng.range(-10, 10)));
        }
        if style == 3 {
            ops.push("q".into());
            ops.push(match cx.rng.below(3) {
                0 => "cm:0_1_-1_0_600_0".to_string(),
                1 => "cm:0.7_0.7_-0.7_0.7_300_0".to_string(),
                _ => "cm:-1_0_0_1_600_0".to_string(),
            });
        }
        // marked-content scopes opened in this stream (closed before the stream ends, mostly)
        let mut open_mc = 0usize;
        let mut mcid_next = 0u32;
        // forms painted from inside the text of this stream (bounded: nesting multiplies the work)
        let mut dos = 0usize;
        ops.push("BT".into());
        ops.push(format!("Tf:{}:{}", cur_font, size));
        if cx.rng.chance(1, 2) {
            ops.push(format!("TL:{}", lead));
        }
        match style {
            3 if cx.rng.chance(1, 2) => ops.push(format!("Tm:0.9_0.4_-0.4_0.9_{}_{}", x0, y0)),
            _ => ops.push(format!("Td:{}:{}", x0, y0)),
        }
        let ncols = if style == 4 { 2 + cx.rng.below(2) as i64 } else { 1 };
        let colw = 70 + cx.rng.range(60, 120);
        let column_major = style == 4 && cx.rng.chance(1, 2);
        let order: Vec<(usize, i64)> = {
            let mut v = vec![];
            if column_major {
                for c in 0..ncols {
                    for l in 0..lines {
                        v.push((l, c));
                    }
                }
            } else {
                for l in 0..lines {
                    for c in 0..ncols {
                        v.push((l, c));
                    }
                }
            }
            if style == 2 {
                v.reverse();
            }
            v
        };
        for (li, (l, c)) in order.iter().enumerate() {
            // position of the cell
            let cx_x = x0 + c * colw;
            let cy = y0 - (*l as i64) * lead;
            if li > 0 || style == 4 {
                match cx.rng.below(if ncols > 1 || style == 2 { 2 } else { 6 }) {
                    0 => ops.push(format!("Tm:1_0_0_1_{}_{}", cx_x, cy)),
                    1 => {
                        // fresh text object, absolute position
                        ops.push("ET".into());
                        ops.push("BT".into());
                        ops.push(format!("Td:{}:{}", cx_x, cy));
                    }
                    2 => ops.push(format!("Td:0:{}", -lead)),
                    3 => ops.push(format!("TD:0:{}", -lead)),
                    4 => ops.push("T*".into()),
                    _ => {} // the next show uses ' or "
                }
            }
            let last_was_noop = matches!(ops.last().map(|s| s.as_str()), Some(s) if s.starts_with("Tj") || s.starts_with("TJ") || s.starts_with("Tq"));
            let runs = if ncols > 1 { 1 + cx.rng.below(2) } else { 1 + cx.rng.below(4) };
            for r in 0..runs {
                // state changes between runs
                match cx.rng.below(14) {
                    0 => {
                        cur_font = cx.font_name();
                        ops.push(format!("Tf:{}:{}", cur_font, size));
                    }
                    1 => {
                        let saved = cur_font;
                        ops.push("q".into());
                        cur_font = cx.font_name();
                        ops.push(format!("Tf:{}:{}", cur_font, size));
                        let l0 = 1 + cx.rng.below(5) as usize;
                        let g = cx.show(cur_font, &mut ops, 0, l0);
                        total_glyphs += g;
                        ops.push("Q".into());
                        // the font in force is the one before `q` again (no Tf is emitted)
                        cur_font = saved;
                    }
                    2 => ops.push(format!("Tc:{}", n1(cx.rng.range(-5, 20) as f64 / 10.0))),
                    3 => ops.push(format!("Tw:{}", n1(cx.rng.range(0, 40) as f64 / 10.0))),
                    4 => ops.push(format!("Tz:{}", cx.rng.range(50, 150))),
                    5 => ops.push(format!("Ts:{}", cx.rng.range(-4, 6))),
                    6 => ops.push(format!("Tr:{}", cx.rng.below(8))),
                    7 if style == 1 || style == 2 => {
                        // overlapping / backward repositioning on the same line
                        ops.push(format!("Td:{}:{}", cx.rng.range(-120, 40), cx.rng.range(-3, 3)));
                    }
                    _ => {}
                }
                // marked content
                if style == 6 || cx.rng.chance(1, 12) {
                    match cx.rng.below(8) {
                        0 => {
                            ops.push("BMC:Artifact".into());
                            open_mc += 1;
                        }
                        1 => {
                            let at: String = (0..cx.rng.below(5))
                                .map(|_| format!("{:04x}", *cx.rng.pick(&[0x41u32, 0x62, 0x2D, 0x20, 0xE9, 0x4E2D, 0x3A9])))
                                .collect();
                            let at = if at.is_empty() { "e".to_string() } else { at };
                            let kind = if cx.rng.chance(1, 3) { "BDR" } else { "BDC" };
                            let mcid = if cx.rng.chance(1, 2) {
                                mcid_next += 1;
                                (mcid_next - 1).to_string()
                            } else {
                                "-".to_string()
                            };
                            ops.push(format!("{}:Span:{}:{}", kind, mcid, at));
                            open_mc += 1;
                        }
                        2 => {
                            mcid_next += 1;
                            ops.push(format!("BDC:P:{}:-", mcid_next - 1));
                            open_mc += 1;
                        }
                        3 => {
                            ops.push("BDC:Artifact:-:-".into());
                            open_mc += 1;
                        }
                        4 | 5 if open_mc > 0 => {
                            ops.push("EMC".into());
                            open_mc -= 1;
                        }
                        _ => {}
                    }
                }
                let kind = if r == 0 && li > 0 && !last_was_noop && matches!(ops.last().map(|s| s.as_str()), Some(s) if !(s.starts_with("Tm") || s.starts_with("Td") || s.starts_with("TD") || s == "T*" || s == "BT")) {
                    2 + cx.rng.below(2)
                } else {
                    match cx.rng.below(10) {
                        0..=4 => 0,
                        5..=7 => 1,
                        8 => 2,
                        _ => 3,
                    }
                };
                let len = 1 + cx.rng.below(if ncols > 1 { 5 } else { 9 }) as usize;
                let g = cx.show(cur_font, &mut ops, kind, len);
                total_glyphs += g;
                // gap to the next run on the same line: none, word gap, wide (column-like) gap
                if r + 1 < runs {
                    match cx.rng.below(5) {
                        0 => {}
                        1 | 2 => ops.push(format!("Td:{}:0", n1(size as f64 * (0.5 * g as f64 + 0.4)))),
                        3 => ops.push(format!("Td:{}:0", n1(size as f64 * 0.5 * g as f64 + 70.0))),
                        _ => ops.push(format!("Td:{}:0", n1(size as f64 * 0.5 * g as f64 - 3.0))),
                    }
                }
                // paint a form in the middle of the text
                if !xmap.is_empty() && dos < 2 && cx.rng.chance(1, 4) {
                    dos += 1;
                    let inside_bt = cx.rng.chance(1, 12);
                    if !inside_bt {
                        ops.push("ET".into());
                    }
                    ops.push(format!("Do:{}", cx.rng.below(xmap.len() as u64)));
                    if !inside_bt {
                        ops.push("BT".into());
                        ops.push(format!("Td:{}:{}", cx_x, cy - 3));
                    }
                }
            }
        }
        while open_mc > 0 {
            if cx.rng.chance(49, 50) {
                ops.push("EMC".into());
            }
            open_mc -= 1;
        }
        ops.push("ET".into());
        if !xmap.is_empty() {
            // every declared form is painted at least once from somewhere, usually
            for k in 0..xmap.len() {
                if dos < 3 && cx.rng.chance(2, 3) {
                    dos += 1;
                    ops.push(format!("Do:{}", k));
                }
            }
        }
        let fm = if fmap.is_empty() { "-".to_string() } else { fmap.iter().map(|x| x.to_string()).collect::<Vec<_>>().join(".") };
        let xm = if xmap.is_empty() { "-".to_string() } else { xmap.iter().map(|x| x.to_string()).collect::<Vec<_>>().join(".") };
        streams.push(format!("{}/{}/{}/{}", fm, xm, matrix.unwrap_or_else(|| "-".into()), ops.join(",")));
    }
    let fonts_s = fonts.iter().map(|f| fmt_font(&f.spec)).collect::<Vec<_>>().join(";");
    if total_glyphs >= 8 {
        tags.push("nt");
    }
    if fonts.iter().any(|f| matches!(f.spec, FontSpec::Type0 { .. })) {
        tags.push("type0");
    }
    (format!("{} {}", fonts_s, streams.join(" ")), tags.join(" "))
}

/// A chain of `depth` nested forms, each drawing one letter before and after painting the next.
fn gen_chain(depth: usize, opts: &str) -> String {
    let mut streams = vec![];
    for j in 0..=depth {
        let letter = 0x41 + (j % 26) as u8;
        let xm = if j < depth { format!("{}", j + 1) } else { "-".to_string() };
        let doop = if j < depth { ",Do:0" } else { "" };
        streams.push(format!(
            "0/{}/-/BT,Tf:0:12,Td:{}:{},Tj:{:02x},ET{},BT,Td:{}:{},Tj:{:02x},ET",
            xm,
            40 + 10 * j,
            700 - 20 * j,
            letter,
            doop,
            300 + 10 * j,
            700 - 20 * j,
            letter + 0x20
        ));
    }
    format!("c11 {} s0 {}", opts, streams.join(" "))
}

/// `n` nested `q`, a font change inside, `n` `Q`, then a show: the font must be the outer one.
fn gen_qnest(n: usize, opts: &str) -> String {
    let mut ops = vec!["BT".to_string(), "Tf:0:12".into(), "Td:50:700".into()];
    for _ in 0..n {
        ops.push("q".into());
    }
    ops.push("Tf:1:12".into());
    ops.push("Tj:0001".into());
    for _ in 0..n {
        ops.push("Q".into());
    }
    ops.push("Td:40:0".into());
    ops.push("Tj:0001".into());
    ops.push("ET".into());
    format!("c11 {} t41.26.-;t391.26.- 0.1/-/-/{}", opts, ops.join(","))
}

fn gen_malformed(rng: &mut Rng) -> (String, String) {
    let body = match rng.below(14) {
        0 => "s0 0/-/-/Tf:0:12,Tj:414243,BT,Td:50:700,Tj:444546,ET,Tj:47".to_string(), // shows outside BT
        1 => "s0 0/-/-/BT,Tf:0:12,Td:50:700,Q,Q,Tj:4142,ET,ET,EMC,BT,Td:50:600,Tj:43,ET".to_string(),
        2 => "s0 0/-/-/BT,Td:50:700,Tj:414243,ET".to_string(), // no font selected
        3 => "s0;s4 0/-/-/BT,Tf:1:12,Td:50:700,Tj:414243,ET".to_string(), // font name not in resources
        4 => "s0 0/1/-/BT,Tf:0:12,Td:50:700,Tj:41,ET,Do:0,Do:1,BT,Td:50:600,Tj:42,ET 0/1/-/BT,Tf:0:10,Td:10:10,Tj:43,ET,Do:0".to_string(), // self-recursive form, unknown Do name
        5 => "s0 0/-/-/BT,Tf:0:12,Td:50:700,BMC:Artifact,Tj:4142,ET".to_string(), // scope never closed
        6 => "t41.5.- 0/-/-/BT,Tf:0:12,Td:50:700,Tj:00010002000000070001,ET".to_string(), // unmapped codes
        7 => "s0 0/-/-/BT,Tf:0:12,Td:50:700,Tj:-,TJ:,Tq:-,Tj:41,TJ:n-300;n200,ET".to_string(), // empty strings/arrays
        9 => "s0 0/-/-/BT,Tf:0:12,Td:50:700,Tj:41,BT,Tj:42,ET,Tj:43,ET,BT,Td:50:600,Tj:44,ET".to_string(), // BT inside BT
        10 => "s0 0/1/-/BT,Tf:0:12,Td:50:700,BDC:Span:-:0058,Tj:41,ET,Do:0,BT,Td:50:600,Tj:44,ET 0/-/-/BT,Tf:0:12,Td:50:650,Tj:42,ET,EMC,BT,Td:50:640,Tj:43,ET".to_string(), // a form closes its caller's /ActualText scope
        11 => "s0;s4 0.1/1/-/q,q,BT,Tf:1:12,Td:50:700,Tj:41,ET,Do:0,Q,BT,Td:50:600,Tj:42,ET,Q,Q,Q,BT,Td:50:500,Tj:43,ET 1.0/-/-/Q,Q,BT,Td:10:650,Tj:44,Tf:0:9,Tj:45,ET,q,q,q".to_string(), // a form pops more than it pushed, leaves saves open
        12 => "s0 0/1/-/BMC:Artifact,Do:0,EMC,BT,Tf:0:12,Td:50:600,Tj:42,ET 0/-/-/BT,Tf:0:12,Td:50:650,Tj:41,ET".to_string(), // a form painted inside an artifact
        13 => "t41.5.0201=+0202=0020 0/-/-/BT,Tf:0:12,Td:50:700,Tj:000102010002,Tj:0201,Tj:02020202,ET".to_string(), // bfchar with an empty destination, an all-space run
        _ => "t41.5.- 0/-/-/BT,Tf:0:12,Td:50:700,Tj:000100,Tj:0002,ET".to_string(), // odd-length code string
    };
    (format!("c11 {} {}", opts_string(rng, None), body), "malformed".to_string())
}

fn gen(rng: &mut Rng, tier: Tier) -> Vec<Case> {
    let mut out = vec![];
    let n = if tier == Tier::Quick { 1500 } else { 25000 };
    // boundaries first: form nesting around the depth guard, q nesting around the stack cap
    for d in [1usize, 2, 11, 12, 13, 14] {
        for o in ["o:01010000:0:0:-", "o:11010000:0:0:-", "o:01010001:0:0:-"] {
            out.push(Case::new(gen_chain(d, o), format!("chain depth{} nt", d)));
        }
    }
    for q in [1usize, 2, 1023, 1024, 1025, 1030] {
        out.push(Case::new(gen_qnest(q, "o:01010000:0:0:-"), format!("qnest q{} nt", q)));
        out.push(Case::new(gen_qnest(q, "o:11000000:0:0:-"), format!("qnest q{} nt", q)));
    }
    for i in 0..n {
        if i % 25 == 24 {
            let (r, t) = gen_malformed(rng);
            out.push(Case::new(r, t));
            continue;
        }
        let style = rng.below(8);
        let big = rng.chance(1, 4);
        let (body, tags) = gen_doc(rng, style, big);
        // the same document under several option sets (conservation must hold under each)
        let reps = 1 + rng.below(3);
        for _ in 0..reps {
            let max = if rng.chance(1, 8) { Some(rng.below(60) as usize) } else { None };
            let o = opts_string(rng, max);
            let mut t = tags.clone();
            if max.is_some() {
                t.push_str(" budget");
            }
            out.push(Case::new(format!("c11 {} {}", o, body), t));
        }
    }
    out
}

fn main() {
    harness_main(gen, run, Limits::default());
}
