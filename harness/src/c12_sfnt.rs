//! Independent sfnt (TrueType / OpenType container) reader and a tiny TrueType *writer* for
//! generated test fonts.  Written from the OpenType specification (tables: directory, head,
//! maxp, hhea, hmtx, loca, glyf, cmap formats 0/4/6/12); it shares no code with
//! oxidize-pdf's `text/fonts/truetype.rs`.  Used by the C12 and C13 harness binaries
//! (`#[path = "../c12_sfnt.rs"] mod sfnt;`).
//!
//! The reader is strict: every access is bounds-checked against the table it belongs to and a
//! malformed structure is reported as `Err(reason)` / `GlyphDesc::Bad`.
#![allow(dead_code)]

use sha2::{Digest, Sha256};
use std::collections::BTreeMap;

pub fn be16(d: &[u8], o: usize) -> Option<u16> {
    if o + 2 <= d.len() {
        Some(u16::from_be_bytes([d[o], d[o + 1]]))
    } else {
        None
    }
}
pub fn be32(d: &[u8], o: usize) -> Option<u32> {
    if o + 4 <= d.len() {
        Some(u32::from_be_bytes([d[o], d[o + 1], d[o + 2], d[o + 3]]))
    } else {
        None
    }
}
fn bei16(d: &[u8], o: usize) -> Option<i16> {
    be16(d, o).map(|v| v as i16)
}

pub fn fp64(parts: &[&[u8]]) -> u64 {
    let mut h = Sha256::new();
    for p in parts {
        h.update((p.len() as u32).to_be_bytes());
        h.update(p);
    }
    let r = h.finalize();
    // 52 bits: stays exactly representable everywhere, still collision-free in practice
    u64::from_be_bytes([r[0], r[1], r[2], r[3], r[4], r[5], r[6], r[7]]) >> 12
}

#[derive(Clone, Debug)]
pub struct TableRec {
    pub tag: [u8; 4],
    pub checksum: u32,
    pub offset: u32,
    pub length: u32,
}

/// Table checksum per the OpenType spec: sum of big-endian u32 words, table zero-padded.
pub fn table_checksum(d: &[u8]) -> u32 {
    let mut s: u32 = 0;
    let mut i = 0;
    while i < d.len() {
        let mut w = [0u8; 4];
        for k in 0..4 {
            if i + k < d.len() {
                w[k] = d[i + k];
            }
        }
        s = s.wrapping_add(u32::from_be_bytes(w));
        i += 4;
    }
    s
}

#[derive(Clone, Debug, PartialEq)]
pub enum GlyphDesc {
    /// zero-length glyph (no outline)
    Empty,
    /// simple glyph: fingerprint of (contour count, bbox, endPts, decoded points)
    Simple(u64),
    /// composite: fingerprint of the bbox, then (child gid, fingerprint of flags-without-
    /// WE_HAVE_INSTRUCTIONS + arguments + transform) per component
    Composite(u64, Vec<(u16, u64)>),
    Bad(String),
}

impl GlyphDesc {
    pub fn show(&self) -> String {
        match self {
            GlyphDesc::Empty => "E".into(),
            GlyphDesc::Simple(f) => format!("S{}", f),
            GlyphDesc::Composite(h, cs) => {
                let mut s = format!("C{}", h);
                for (g, r) in cs {
                    s.push_str(&format!("/{}.{}", g, r));
                }
                s
            }
            GlyphDesc::Bad(_) => "B".into(),
        }
    }
    pub fn children(&self) -> Vec<u16> {
        match self {
            GlyphDesc::Composite(_, cs) => cs.iter().map(|c| c.0).collect(),
            _ => vec![],
        }
    }
}

pub struct Sfnt<'a> {
    pub data: &'a [u8],
    pub version: u32,
    pub tables: Vec<TableRec>,
}

impl<'a> Sfnt<'a> {
    pub fn parse(data: &'a [u8]) -> Result<Sfnt<'a>, String> {
        let version = be32(data, 0).ok_or("short header")?;
        if version != 0x0001_0000 && version != 0x4F54_544F && version != 0x7472_7565 {
            return Err(format!("bad sfnt version {:08x}", version));
        }
        let n = be16(data, 4).ok_or("short header")? as usize;
        if 12 + n * 16 > data.len() {
            return Err("directory truncated".into());
        }
        let mut tables = Vec::new();
        for i in 0..n {
            let b = 12 + i * 16;
            let rec = TableRec {
                tag: [data[b], data[b + 1], data[b + 2], data[b + 3]],
                checksum: be32(data, b + 4).unwrap(),
                offset: be32(data, b + 8).unwrap(),
                length: be32(data, b + 12).unwrap(),
            };
            tables.push(rec);
        }
        Ok(Sfnt { data, version, tables })
    }

    pub fn rec(&self, tag: &[u8; 4]) -> Option<&TableRec> {
        self.tables.iter().find(|t| &t.tag == tag)
    }

    pub fn table(&self, tag: &[u8; 4]) -> Result<&'a [u8], String> {
        let t = self.rec(tag).ok_or_else(|| format!("no {} table", String::from_utf8_lossy(tag)))?;
        let (o, l) = (t.offset as usize, t.length as usize);
        if o.checked_add(l).map(|e| e <= self.data.len()) != Some(true) {
            return Err(format!("{} table out of file", String::from_utf8_lossy(tag)));
        }
        Ok(&self.data[o..o + l])
    }

    pub fn units_per_em(&self) -> Result<u16, String> {
        be16(self.table(b"head")?, 18).ok_or_else(|| "head short".into())
    }
    pub fn loca_format(&self) -> Result<i16, String> {
        bei16(self.table(b"head")?, 50).ok_or_else(|| "head short".into())
    }
    pub fn num_glyphs(&self) -> Result<u16, String> {
        be16(self.table(b"maxp")?, 4).ok_or_else(|| "maxp short".into())
    }
    pub fn num_h_metrics(&self) -> Result<u16, String> {
        be16(self.table(b"hhea")?, 34).ok_or_else(|| "hhea short".into())
    }

    /// (advanceWidth, lsb) of a glyph per the hmtx rules (strict: entries must exist)
    pub fn hmetrics(&self, gid: u16) -> Result<(u16, i16), String> {
        let hm = self.table(b"hmtx")?;
        let nh = self.num_h_metrics()?;
        if nh == 0 {
            return Err("numberOfHMetrics = 0".into());
        }
        if gid < nh {
            let o = gid as usize * 4;
            Ok((be16(hm, o).ok_or("hmtx short")?, bei16(hm, o + 2).ok_or("hmtx short")?))
        } else {
            let adv = be16(hm, (nh as usize - 1) * 4).ok_or("hmtx short")?;
            let o = nh as usize * 4 + (gid - nh) as usize * 2;
            Ok((adv, bei16(hm, o).ok_or("hmtx lsb array short")?))
        }
    }

    /// all loca offsets (byte offsets into glyf)
    pub fn loca(&self) -> Result<Vec<u32>, String> {
        let lo = self.table(b"loca")?;
        let n = self.num_glyphs()? as usize + 1;
        let mut v = Vec::with_capacity(n);
        match self.loca_format()? {
            0 => {
                for i in 0..n {
                    v.push(be16(lo, i * 2).ok_or("loca short")? as u32 * 2);
                }
            }
            1 => {
                for i in 0..n {
                    v.push(be32(lo, i * 4).ok_or("loca short")?);
                }
            }
            f => return Err(format!("indexToLocFormat {}", f)),
        }
        Ok(v)
    }

    pub fn glyph_bytes(&self, gid: u16) -> Result<&'a [u8], String> {
        let lo = self.table(b"loca")?;
        // glyf clamped to the end of the file: a truncated file invalidates only the glyphs
        // that really lie beyond it (`problems()` reports the table itself)
        let glyf = {
            let t = self.rec(b"glyf").ok_or("no glyf table")?;
            let o = (t.offset as usize).min(self.data.len());
            let e = (t.offset as usize).saturating_add(t.length as usize).min(self.data.len());
            &self.data[o..e]
        };
        if gid >= self.num_glyphs()? {
            return Err("gid >= numGlyphs".into());
        }
        let (s, e) = match self.loca_format()? {
            0 => (
                be16(lo, gid as usize * 2).ok_or("loca short")? as usize * 2,
                be16(lo, gid as usize * 2 + 2).ok_or("loca short")? as usize * 2,
            ),
            1 => (
                be32(lo, gid as usize * 4).ok_or("loca short")? as usize,
                be32(lo, gid as usize * 4 + 4).ok_or("loca short")? as usize,
            ),
            f => return Err(format!("indexToLocFormat {}", f)),
        };
        if s > e {
            return Err("loca decreasing".into());
        }
        if e > glyf.len() {
            return Err("glyph beyond glyf".into());
        }
        Ok(&glyf[s..e])
    }

    pub fn glyph_desc(&self, gid: u16) -> GlyphDesc {
        match self.glyph_bytes(gid) {
            Err(e) => GlyphDesc::Bad(e),
            Ok(g) => describe_glyph(g),
        }
    }

    // --------------------------------------------------------------------------------------
    // The "loca-trusting" reading.  A reader that trusts `loca`/`hhea` alone (no check against
    // `maxp.numGlyphs` or the declared length of `glyf`/`hmtx`, only against the end of the
    // FILE) sees a font slightly differently from the strict reader above on damaged or
    // boundary fonts.  oxidize-pdf's `TrueTypeFont::get_glyph_data` / `get_glyph_metrics` read
    // this way; the C12 model is fed these facts (what the subsetter really sees), while the
    // oracle uses the strict reading and is silent where the two differ.
    //   glyph:   index entry pair outside the loca TABLE            -> empty glyph
    //            entry pair inside the table but beyond the file    -> failure
    //            start >= end                                       -> empty glyph
    //            glyf.offset + end beyond the file                  -> failure
    //            otherwise the bytes glyf.offset+start .. +end of the FILE
    //   metrics: gid < numberOfHMetrics: the long record (failure when beyond the file);
    //            else last advance (failure when beyond the file) and the lsb-array entry read
    //            from the FILE (0 when beyond it)
    // --------------------------------------------------------------------------------------

    /// `None` = the read fails; `Some(&[])` = empty glyph
    pub fn glyph_bytes_lenient(&self, gid: u16) -> Option<&'a [u8]> {
        let lo = self.rec(b"loca")?;
        let gl = self.rec(b"glyf")?;
        let short = self.loca_format_raw()? == 0;
        let esz = if short { 2 } else { 4 };
        let idx = gid as usize * esz;
        if idx + 2 * esz > lo.length as usize {
            return Some(&[]);
        }
        let base = lo.offset as usize + idx;
        let (s, e) = if short {
            (be16(self.data, base)? as usize * 2, be16(self.data, base + 2)? as usize * 2)
        } else {
            (be32(self.data, base)? as usize, be32(self.data, base + 4)? as usize)
        };
        if s >= e {
            return Some(&[]);
        }
        let (gs, ge) = (gl.offset as usize + s, gl.offset as usize + e);
        if ge > self.data.len() {
            return None;
        }
        Some(&self.data[gs..ge])
    }

    /// head.indexToLocFormat read at the table's offset in the FILE (head's length not consulted)
    pub fn loca_format_raw(&self) -> Option<u16> {
        let h = self.rec(b"head")?;
        be16(self.data, h.offset as usize + 50)
    }

    pub fn glyph_desc_lenient(&self, gid: u16) -> Option<GlyphDesc> {
        self.glyph_bytes_lenient(gid).map(describe_glyph)
    }

    /// `None` = the read fails
    pub fn hmetrics_lenient(&self, gid: u16) -> Option<(u16, i16)> {
        let hh = self.rec(b"hhea")?;
        let hm = self.rec(b"hmtx")?;
        if hh.offset as usize + 36 > self.data.len() {
            return None;
        }
        let nh = be16(self.data, hh.offset as usize + 34)?;
        let hmo = hm.offset as usize;
        if gid < nh {
            let o = hmo + gid as usize * 4;
            Some((be16(self.data, o)?, bei16(self.data, o + 2)?))
        } else {
            if nh == 0 {
                return None;
            }
            let adv = be16(self.data, hmo + (nh as usize - 1) * 4)?;
            let lo = hmo + nh as usize * 4 + (gid - nh) as usize * 2;
            Some((adv, bei16(self.data, lo).unwrap_or(0)))
        }
    }

    /// `cmap_unicode` without the "glyph id < numGlyphs" filter on formats 0/4/6 (a reader that
    /// does not cross-check the cmap against maxp keeps such entries); format 12 keeps the filter.
    pub fn cmap_unicode_lenient(&self) -> Result<BTreeMap<u32, u16>, String> {
        self.cmap_unicode_with(false)
    }

    /// Unicode cmap: the full-repertoire subtable when there is one, else the BMP one.
    /// Preference (3,10) > (0,6) > (0,4) > (3,1) > (0,3) > (0,x); formats 0, 4, 6, 12.
    pub fn cmap_unicode(&self) -> Result<BTreeMap<u32, u16>, String> {
        self.cmap_unicode_with(true)
    }

    fn cmap_unicode_with(&self, strict: bool) -> Result<BTreeMap<u32, u16>, String> {
        let cm = self.table(b"cmap")?;
        let n = be16(cm, 2).ok_or("cmap short")? as usize;
        let mut best: Option<(u8, usize)> = None;
        for i in 0..n {
            let b = 4 + i * 8;
            let p = be16(cm, b).ok_or("cmap dir short")?;
            let e = be16(cm, b + 2).ok_or("cmap dir short")?;
            let off = be32(cm, b + 4).ok_or("cmap dir short")? as usize;
            let fmt = match be16(cm, off) {
                Some(f) => f,
                None => continue,
            };
            if ![0u16, 4, 6, 12].contains(&fmt) {
                continue;
            }
            let pr = match (p, e) {
                (3, 10) => 9,
                (0, 6) => 8,
                (0, 4) => 7,
                (3, 1) => 6,
                (0, 3) => 5,
                (0, _) => 4,
                _ => 0,
            };
            if pr > 0 && best.map(|b| pr > b.0).unwrap_or(true) {
                best = Some((pr, off));
            }
        }
        let (_, off) = best.ok_or("no unicode cmap subtable")?;
        let ng = self.num_glyphs()? as u32;
        let mut m = BTreeMap::new();
        let fmt = be16(cm, off).unwrap();
        let filter = strict || fmt == 12;
        let mut put = |c: u32, g: u32| {
            if g != 0 && (!filter || g < ng.max(1)) && g <= 0xFFFF {
                m.insert(c, g as u16);
            }
        };
        match fmt {
            0 => {
                for c in 0..256usize {
                    put(c as u32, *cm.get(off + 6 + c).ok_or("cmap0 short")? as u32);
                }
            }
            4 => {
                let segx2 = be16(cm, off + 6).ok_or("cmap4 short")? as usize;
                let seg = segx2 / 2;
                let endo = off + 14;
                let starto = endo + segx2 + 2;
                let deltao = starto + segx2;
                let rangeo = deltao + segx2;
                for i in 0..seg {
                    let end = be16(cm, endo + 2 * i).ok_or("cmap4 short")? as u32;
                    let start = be16(cm, starto + 2 * i).ok_or("cmap4 short")? as u32;
                    let delta = be16(cm, deltao + 2 * i).ok_or("cmap4 short")? as u32;
                    let ro = be16(cm, rangeo + 2 * i).ok_or("cmap4 short")? as usize;
                    if start > end {
                        continue;
                    }
                    for c in start..=end {
                        if c == 0xFFFF {
                            continue;
                        }
                        if ro == 0 {
                            put(c, (c + delta) & 0xFFFF);
                        } else {
                            let p = rangeo + 2 * i + ro + 2 * (c - start) as usize;
                            if let Some(g) = be16(cm, p) {
                                if g != 0 {
                                    put(c, (g as u32 + delta) & 0xFFFF);
                                }
                            }
                        }
                    }
                }
            }
            6 => {
                let first = be16(cm, off + 6).ok_or("cmap6 short")? as u32;
                let cnt = be16(cm, off + 8).ok_or("cmap6 short")? as usize;
                for i in 0..cnt {
                    put(first + i as u32, be16(cm, off + 10 + 2 * i).ok_or("cmap6 short")? as u32);
                }
            }
            12 => {
                let ngr = be32(cm, off + 12).ok_or("cmap12 short")? as usize;
                for i in 0..ngr {
                    let b = off + 16 + 12 * i;
                    let s = be32(cm, b).ok_or("cmap12 short")?;
                    let e = be32(cm, b + 4).ok_or("cmap12 short")?;
                    let g = be32(cm, b + 8).ok_or("cmap12 short")?;
                    if s > e || e > 0x10FFFF {
                        continue;
                    }
                    for c in s..=e {
                        put(c, g + (c - s));
                    }
                }
            }
            _ => unreachable!(),
        }
        Ok(m)
    }

    /// Structural well-formedness of a TrueType-flavoured sfnt; returns the list of problems
    /// (empty = well-formed).  `minor` problems (head checksum conventions) are prefixed `m:`.
    pub fn problems(&self) -> Vec<String> {
        let mut p = Vec::new();
        let d = self.data;
        // directory: sorted by tag, no duplicates, search fields
        for w in self.tables.windows(2) {
            if w[0].tag >= w[1].tag {
                p.push("dir-not-sorted".to_string());
                break;
            }
        }
        let n = self.tables.len() as u16;
        if n > 0 {
            let es = 15 - n.leading_zeros() as u16; // floor(log2 n)
            let sr = (1u16 << es) * 16;
            if be16(d, 6) != Some(sr) || be16(d, 8) != Some(es) || be16(d, 10) != Some(n * 16 - sr) {
                p.push("dir-search-fields".into());
            }
        }
        let dir_end = 12 + self.tables.len() * 16;
        let mut spans: Vec<(usize, usize)> = Vec::new();
        for t in &self.tables {
            let tag = String::from_utf8_lossy(&t.tag).to_string();
            let (o, l) = (t.offset as usize, t.length as usize);
            if o % 4 != 0 {
                p.push(format!("align:{}", tag));
            }
            if o < dir_end || o + l > d.len() {
                p.push(format!("bounds:{}", tag));
                continue;
            }
            spans.push((o, o + l));
            let body = &d[o..o + l];
            if &t.tag == b"head" {
                // spec: head's checksum is computed with checkSumAdjustment taken as 0
                if l >= 12 {
                    let mut h = body.to_vec();
                    h[8..12].copy_from_slice(&[0; 4]);
                    if table_checksum(&h) != t.checksum {
                        if table_checksum(body) == t.checksum {
                            p.push("m:head-checksum-includes-adjustment".into());
                        } else {
                            p.push("checksum:head".into());
                        }
                    }
                }
            } else if table_checksum(body) != t.checksum {
                p.push(format!("checksum:{}", tag));
            }
        }
        spans.sort();
        for w in spans.windows(2) {
            if w[0].1 > w[1].0 {
                p.push("tables-overlap".into());
                break;
            }
        }
        for req in [b"head", b"hhea", b"hmtx", b"maxp", b"loca", b"glyf"] {
            if self.rec(req).is_none() {
                p.push(format!("missing:{}", String::from_utf8_lossy(req)));
            }
        }
        if !p.iter().any(|x| x.starts_with("missing") || x.starts_with("bounds")) {
            if let Ok(h) = self.table(b"head") {
                if h.len() < 54 {
                    p.push("head-short".into());
                } else {
                    if be32(h, 12) != Some(0x5F0F3CF5) {
                        p.push("head-magic".into());
                    }
                    let whole = table_checksum(d);
                    // whole-file checksum must be 0xB1B0AFBA (adjustment included)
                    if whole != 0xB1B0AFBA {
                        p.push("m:head-checkSumAdjustment-stale".into());
                    }
                }
            }
            match (self.num_glyphs(), self.loca(), self.table(b"glyf")) {
                (Ok(ng), Ok(lo), Ok(glyf)) => {
                    let lt = self.table(b"loca").unwrap();
                    let esz = if self.loca_format() == Ok(0) { 2 } else { 4 };
                    if lt.len() != (ng as usize + 1) * esz {
                        p.push("loca-length".into());
                    }
                    if lo.windows(2).any(|w| w[0] > w[1]) {
                        p.push("loca-not-monotone".into());
                    }
                    if lo.last().map(|&e| e as usize > glyf.len()).unwrap_or(true) {
                        p.push("loca-beyond-glyf".into());
                    }
                    if let (Ok(nh), Ok(hm)) = (self.num_h_metrics(), self.table(b"hmtx")) {
                        if nh == 0 || nh > ng {
                            p.push("numberOfHMetrics-range".into());
                        } else if hm.len() < nh as usize * 4 + (ng - nh) as usize * 2 {
                            p.push("hmtx-short".into());
                        }
                    }
                    if let Ok(mx) = self.table(b"maxp") {
                        let v = be32(mx, 0).unwrap_or(0);
                        if (v == 0x00010000 && mx.len() < 32) || (v == 0x00005000 && mx.len() < 6) {
                            p.push("maxp-short".into());
                        }
                    }
                    for g in 0..ng {
                        match self.glyph_desc(g) {
                            GlyphDesc::Bad(e) => {
                                p.push(format!("glyph-{}:{}", g, e.replace(' ', "_")));
                                break;
                            }
                            GlyphDesc::Composite(_, cs) => {
                                if cs.iter().any(|c| c.0 >= ng) {
                                    p.push(format!("glyph-{}:component-out-of-range", g));
                                    break;
                                }
                            }
                            _ => {}
                        }
                    }
                }
                (a, b, c) => {
                    p.push(format!(
                        "unreadable:{}",
                        a.err().or(b.err()).or(c.err()).unwrap_or_default().replace(' ', "_")
                    ));
                }
            }
        }
        p
    }
}

/// Decode one glyf entry into its outline fingerprint / component list.
pub fn describe_glyph(g: &[u8]) -> GlyphDesc {
    if g.is_empty() {
        return GlyphDesc::Empty;
    }
    if g.len() < 10 {
        return GlyphDesc::Bad("glyph header short".into());
    }
    let nc = bei16(g, 0).unwrap();
    let bbox = &g[2..10];
    if nc >= 0 {
        let nc = nc as usize;
        let mut o = 10;
        if o + 2 * nc + 2 > g.len() {
            return GlyphDesc::Bad("endPts short".into());
        }
        let endpts = &g[o..o + 2 * nc];
        let mut last: i32 = -1;
        for i in 0..nc {
            let e = be16(g, o + 2 * i).unwrap() as i32;
            if e <= last {
                return GlyphDesc::Bad("endPts not increasing".into());
            }
            last = e;
        }
        o += 2 * nc;
        let il = be16(g, o).unwrap() as usize;
        o += 2 + il;
        if o > g.len() {
            return GlyphDesc::Bad("instructions beyond glyph".into());
        }
        let npts = if nc == 0 { 0 } else { (last + 1) as usize };
        let mut flags = Vec::with_capacity(npts);
        while flags.len() < npts {
            let Some(&f) = g.get(o) else { return GlyphDesc::Bad("flags short".into()) };
            o += 1;
            flags.push(f);
            if f & 8 != 0 {
                let Some(&r) = g.get(o) else { return GlyphDesc::Bad("flags short".into()) };
                o += 1;
                for _ in 0..r {
                    flags.push(f);
                }
            }
        }
        if flags.len() != npts {
            return GlyphDesc::Bad("flag repeat overruns".into());
        }
        let mut pts: Vec<u8> = Vec::with_capacity(npts * 5);
        let mut xs = Vec::with_capacity(npts);
        let mut x: i32 = 0;
        for &f in &flags {
            if f & 2 != 0 {
                let Some(&b) = g.get(o) else { return GlyphDesc::Bad("x short".into()) };
                o += 1;
                x += if f & 0x10 != 0 { b as i32 } else { -(b as i32) };
            } else if f & 0x10 == 0 {
                let Some(v) = bei16(g, o) else { return GlyphDesc::Bad("x short".into()) };
                o += 2;
                x += v as i32;
            }
            xs.push(x);
        }
        let mut y: i32 = 0;
        for (i, &f) in flags.iter().enumerate() {
            if f & 4 != 0 {
                let Some(&b) = g.get(o) else { return GlyphDesc::Bad("y short".into()) };
                o += 1;
                y += if f & 0x20 != 0 { b as i32 } else { -(b as i32) };
            } else if f & 0x20 == 0 {
                let Some(v) = bei16(g, o) else { return GlyphDesc::Bad("y short".into()) };
                o += 2;
                y += v as i32;
            }
            pts.push(f & 1);
            pts.extend_from_slice(&xs[i].to_be_bytes());
            pts.extend_from_slice(&y.to_be_bytes());
        }
        GlyphDesc::Simple(fp64(&[b"S", &(nc as u16).to_be_bytes(), bbox, endpts, &pts]))
    } else {
        let mut o = 10;
        let mut comps = Vec::new();
        loop {
            let (Some(flags), Some(gid)) = (be16(g, o), be16(g, o + 2)) else {
                return GlyphDesc::Bad("component short".into());
            };
            o += 4;
            let alen = if flags & 1 != 0 { 4 } else { 2 };
            let tlen = if flags & 0x80 != 0 {
                8
            } else if flags & 0x40 != 0 {
                4
            } else if flags & 0x08 != 0 {
                2
            } else {
                0
            };
            if o + alen + tlen > g.len() {
                return GlyphDesc::Bad("component args short".into());
            }
            let rec = fp64(&[b"c", &(flags & !0x0100).to_be_bytes(), &g[o..o + alen + tlen]]);
            o += alen + tlen;
            comps.push((gid, rec));
            if flags & 0x20 == 0 {
                if flags & 0x0100 != 0 {
                    let Some(n) = be16(g, o) else { return GlyphDesc::Bad("numInstr short".into()) };
                    if o + 2 + n as usize > g.len() {
                        return GlyphDesc::Bad("composite instructions beyond glyph".into());
                    }
                }
                break;
            }
            if comps.len() > 4096 {
                return GlyphDesc::Bad("too many components".into());
            }
        }
        GlyphDesc::Composite(fp64(&[b"C", bbox]), comps)
    }
}


/// Length of a glyf entry once hinting instructions are removed the way a PDF subsetter may do
/// it: simple glyph — instruction bytes dropped, `instructionLength` kept as 0; composite with
/// WE_HAVE_INSTRUCTIONS — cut after the last component record.  Used only to *diagnose*
/// loca problems (odd offsets in the short format).
pub fn stripped_len(g: &[u8]) -> usize {
    if g.len() < 12 {
        return g.len();
    }
    let nc = bei16(g, 0).unwrap();
    if nc >= 0 {
        let o = 10 + 2 * nc as usize;
        match be16(g, o) {
            Some(il) if o + 2 + il as usize <= g.len() => g.len() - il as usize,
            _ => g.len(),
        }
    } else {
        let mut o = 10;
        loop {
            let Some(flags) = be16(g, o) else { return g.len() };
            o += 4;
            o += if flags & 1 != 0 { 4 } else { 2 };
            o += if flags & 0x80 != 0 {
                8
            } else if flags & 0x40 != 0 {
                4
            } else if flags & 0x08 != 0 {
                2
            } else {
                0
            };
            if o > g.len() {
                return g.len();
            }
            if flags & 0x20 == 0 {
                return if flags & 0x0100 != 0 { o } else { g.len() };
            }
        }
    }
}

// ------------------------------------------------------------------------------------------
// A small TrueType writer for generated fonts
// ------------------------------------------------------------------------------------------

#[derive(Clone, Debug)]
pub struct GenComp {
    pub gid: u16,
    /// 0: byte args, no transform; 1: word args; 2: scale; 3: x/y scale; 4: 2x2; 5: word args + 2x2
    pub style: u8,
    pub dx: i16,
    pub dy: i16,
}

#[derive(Clone, Debug)]
pub enum GenGlyph {
    Empty,
    /// contours as lists of (x, y, on_curve); `instr` = hinting instruction bytes
    Simple { contours: Vec<Vec<(i16, i16, bool)>>, instr: Vec<u8>, pad: usize },
    Composite { comps: Vec<GenComp>, instr: Vec<u8>, pad: usize },
}

#[derive(Clone, Debug)]
pub struct GenFont {
    pub glyphs: Vec<GenGlyph>,
    pub adv: Vec<u16>,
    pub lsb: Vec<i16>,
    /// numberOfHMetrics (1..=glyphs.len()); glyphs past it share the last advance
    pub nhm: u16,
    pub long_loca: bool,
    pub cmap: Vec<(u32, u16)>,
    /// cmap subtable format to emit: 4 or 12 (12 is emitted as (3,10) plus a (3,1) format 4)
    pub cmap_fmt: u8,
    /// size of an extra `zpad` table (0 = none) used to steer the file size
    pub pad_table: usize,
    /// chop this many bytes off the end of glyf (placed last in the file) — malformed stream
    pub truncate_glyf: usize,
    pub upem: u16,
}

pub fn encode_glyph(g: &GenGlyph, align: usize) -> Vec<u8> {
    let mut out = Vec::new();
    match g {
        GenGlyph::Empty => {}
        GenGlyph::Simple { contours, instr, pad } => {
            let pts: Vec<(i16, i16, bool)> = contours.iter().flatten().cloned().collect();
            let (mut x0, mut y0, mut x1, mut y1) = (0i16, 0i16, 0i16, 0i16);
            if let Some(p) = pts.first() {
                x0 = p.0;
                x1 = p.0;
                y0 = p.1;
                y1 = p.1;
            }
            for p in &pts {
                x0 = x0.min(p.0);
                x1 = x1.max(p.0);
                y0 = y0.min(p.1);
                y1 = y1.max(p.1);
            }
            out.extend_from_slice(&(contours.len() as i16).to_be_bytes());
            for v in [x0, y0, x1, y1] {
                out.extend_from_slice(&v.to_be_bytes());
            }
            let mut e = 0usize;
            for c in contours {
                e += c.len();
                out.extend_from_slice(&((e - 1) as u16).to_be_bytes());
            }
            out.extend_from_slice(&(instr.len() as u16).to_be_bytes());
            out.extend_from_slice(instr);
            // flags: always long coordinates (bits 1,2 clear; 4,5 clear), on-curve bit 0
            for p in &pts {
                out.push(if p.2 { 1 } else { 0 });
            }
            let mut px = 0i16;
            for p in &pts {
                out.extend_from_slice(&(p.0.wrapping_sub(px)).to_be_bytes());
                px = p.0;
            }
            let mut py = 0i16;
            for p in &pts {
                out.extend_from_slice(&(p.1.wrapping_sub(py)).to_be_bytes());
                py = p.1;
            }
            out.extend(std::iter::repeat(0).take(*pad));
        }
        GenGlyph::Composite { comps, instr, pad } => {
            out.extend_from_slice(&(-1i16).to_be_bytes());
            for v in [0i16, 0, 500, 500] {
                out.extend_from_slice(&v.to_be_bytes());
            }
            for (i, c) in comps.iter().enumerate() {
                let mut flags: u16 = 0x0002; // ARGS_ARE_XY_VALUES
                if matches!(c.style, 1 | 5) {
                    flags |= 0x0001;
                }
                match c.style {
                    2 => flags |= 0x0008,
                    3 => flags |= 0x0040,
                    4 | 5 => flags |= 0x0080,
                    _ => {}
                }
                if i + 1 < comps.len() {
                    flags |= 0x0020;
                } else if !instr.is_empty() {
                    flags |= 0x0100;
                }
                out.extend_from_slice(&flags.to_be_bytes());
                out.extend_from_slice(&c.gid.to_be_bytes());
                if flags & 1 != 0 {
                    out.extend_from_slice(&c.dx.to_be_bytes());
                    out.extend_from_slice(&c.dy.to_be_bytes());
                } else {
                    out.push(c.dx as i8 as u8);
                    out.push(c.dy as i8 as u8);
                }
                match c.style {
                    2 => out.extend_from_slice(&0x4000u16.to_be_bytes()),
                    3 => {
                        out.extend_from_slice(&0x4000u16.to_be_bytes());
                        out.extend_from_slice(&0x2000u16.to_be_bytes());
                    }
                    4 | 5 => {
                        for v in [0x4000u16, 0x0100, 0xFF00, 0x4000] {
                            out.extend_from_slice(&v.to_be_bytes());
                        }
                    }
                    _ => {}
                }
            }
            if !instr.is_empty() {
                out.extend_from_slice(&(instr.len() as u16).to_be_bytes());
                out.extend_from_slice(instr);
            }
            out.extend(std::iter::repeat(0).take(*pad));
        }
    }
    while align > 1 && out.len() % align != 0 {
        out.push(0);
    }
    out
}

fn cmap4(pairs: &[(u32, u16)]) -> Vec<u8> {
    // one segment per run of consecutive (code, gid) pairs; idRangeOffset = 0
    let mut ps: Vec<(u32, u16)> = pairs.iter().cloned().filter(|p| p.0 < 0xFFFF).collect();
    ps.sort();
    ps.dedup_by_key(|p| p.0);
    let mut segs: Vec<(u16, u16, u16)> = Vec::new(); // start, end, delta
    let mut i = 0;
    while i < ps.len() {
        let mut j = i;
        while j + 1 < ps.len() && ps[j + 1].0 == ps[j].0 + 1 && ps[j + 1].1 == ps[j].1.wrapping_add(1) {
            j += 1;
        }
        segs.push((ps[i].0 as u16, ps[j].0 as u16, ps[i].1.wrapping_sub(ps[i].0 as u16)));
        i = j + 1;
    }
    segs.push((0xFFFF, 0xFFFF, 1));
    let n = segs.len() as u16;
    let es = 15 - n.leading_zeros() as u16;
    let sr = (1u16 << es) * 2;
    let mut t = Vec::new();
    t.extend_from_slice(&4u16.to_be_bytes());
    t.extend_from_slice(&((16 + 8 * n as usize) as u16).to_be_bytes());
    t.extend_from_slice(&0u16.to_be_bytes());
    t.extend_from_slice(&(n * 2).to_be_bytes());
    t.extend_from_slice(&sr.to_be_bytes());
    t.extend_from_slice(&es.to_be_bytes());
    t.extend_from_slice(&(n * 2 - sr).to_be_bytes());
    for s in &segs {
        t.extend_from_slice(&s.1.to_be_bytes());
    }
    t.extend_from_slice(&0u16.to_be_bytes());
    for s in &segs {
        t.extend_from_slice(&s.0.to_be_bytes());
    }
    for s in &segs {
        t.extend_from_slice(&s.2.to_be_bytes());
    }
    for _ in &segs {
        t.extend_from_slice(&0u16.to_be_bytes());
    }
    t
}

fn cmap12(pairs: &[(u32, u16)]) -> Vec<u8> {
    let mut ps: Vec<(u32, u16)> = pairs.to_vec();
    ps.sort();
    ps.dedup_by_key(|p| p.0);
    let mut groups: Vec<(u32, u32, u32)> = Vec::new();
    let mut i = 0;
    while i < ps.len() {
        let mut j = i;
        while j + 1 < ps.len() && ps[j + 1].0 == ps[j].0 + 1 && ps[j + 1].1 as u32 == ps[j].1 as u32 + 1 {
            j += 1;
        }
        groups.push((ps[i].0, ps[j].0, ps[i].1 as u32));
        i = j + 1;
    }
    let mut t = Vec::new();
    t.extend_from_slice(&12u16.to_be_bytes());
    t.extend_from_slice(&0u16.to_be_bytes());
    t.extend_from_slice(&((16 + 12 * groups.len()) as u32).to_be_bytes());
    t.extend_from_slice(&0u32.to_be_bytes());
    t.extend_from_slice(&(groups.len() as u32).to_be_bytes());
    for g in &groups {
        t.extend_from_slice(&g.0.to_be_bytes());
        t.extend_from_slice(&g.1.to_be_bytes());
        t.extend_from_slice(&g.2.to_be_bytes());
    }
    t
}

pub fn build_font(f: &GenFont) -> Vec<u8> {
    let ng = f.glyphs.len();
    let align = if f.long_loca { 1 } else { 2 };
    let mut glyf = Vec::new();
    let mut offs = vec![0u32];
    for g in &f.glyphs {
        glyf.extend_from_slice(&encode_glyph(g, align));
        offs.push(glyf.len() as u32);
    }
    let mut loca = Vec::new();
    for o in &offs {
        if f.long_loca {
            loca.extend_from_slice(&o.to_be_bytes());
        } else {
            loca.extend_from_slice(&((o / 2) as u16).to_be_bytes());
        }
    }
    let mut head = vec![0u8; 54];
    head[0..4].copy_from_slice(&0x00010000u32.to_be_bytes());
    head[12..16].copy_from_slice(&0x5F0F3CF5u32.to_be_bytes());
    head[18..20].copy_from_slice(&f.upem.to_be_bytes());
    head[36..44].copy_from_slice(&[0, 0, 0, 0, 0x03, 0xE8, 0x03, 0xE8]);
    head[50..52].copy_from_slice(&(f.long_loca as u16).to_be_bytes());
    let mut hhea = vec![0u8; 36];
    hhea[0..4].copy_from_slice(&0x00010000u32.to_be_bytes());
    hhea[4..6].copy_from_slice(&800i16.to_be_bytes());
    hhea[6..8].copy_from_slice(&(-200i16).to_be_bytes());
    hhea[34..36].copy_from_slice(&f.nhm.to_be_bytes());
    let mut hmtx = Vec::new();
    for i in 0..ng {
        if (i as u16) < f.nhm {
            hmtx.extend_from_slice(&f.adv[i].to_be_bytes());
        }
        hmtx.extend_from_slice(&f.lsb[i].to_be_bytes());
    }
    let mut maxp = vec![0u8; 32];
    maxp[0..4].copy_from_slice(&0x00010000u32.to_be_bytes());
    maxp[4..6].copy_from_slice(&(ng as u16).to_be_bytes());
    let mut post = vec![0u8; 32];
    post[0..4].copy_from_slice(&0x00030000u32.to_be_bytes());
    let mut cmap = Vec::new();
    cmap.extend_from_slice(&0u16.to_be_bytes());
    if f.cmap_fmt == 12 {
        let c4 = cmap4(&f.cmap);
        let c12 = cmap12(&f.cmap);
        cmap.extend_from_slice(&2u16.to_be_bytes());
        cmap.extend_from_slice(&[0, 3, 0, 1]);
        cmap.extend_from_slice(&20u32.to_be_bytes());
        cmap.extend_from_slice(&[0, 3, 0, 10]);
        cmap.extend_from_slice(&((20 + c4.len()) as u32).to_be_bytes());
        cmap.extend_from_slice(&c4);
        cmap.extend_from_slice(&c12);
    } else {
        let c4 = cmap4(&f.cmap);
        cmap.extend_from_slice(&1u16.to_be_bytes());
        cmap.extend_from_slice(&[0, 3, 0, 1]);
        cmap.extend_from_slice(&12u32.to_be_bytes());
        cmap.extend_from_slice(&c4);
    }
    let mut tables: Vec<([u8; 4], Vec<u8>)> = vec![
        (*b"cmap", cmap),
        (*b"glyf", glyf),
        (*b"head", head),
        (*b"hhea", hhea),
        (*b"hmtx", hmtx),
        (*b"loca", loca),
        (*b"maxp", maxp),
        (*b"post", post),
    ];
    if f.pad_table > 0 {
        tables.push((*b"zpad", vec![0x5A; f.pad_table]));
    }
    tables.sort_by(|a, b| a.0.cmp(&b.0));
    // physical order: everything in tag order except glyf, which goes last (so that it can be
    // truncated for the malformed stream)
    let n = tables.len() as u16;
    let es = 15 - n.leading_zeros() as u16;
    let sr = (1u16 << es) * 16;
    let mut out = Vec::new();
    out.extend_from_slice(&0x00010000u32.to_be_bytes());
    out.extend_from_slice(&n.to_be_bytes());
    out.extend_from_slice(&sr.to_be_bytes());
    out.extend_from_slice(&es.to_be_bytes());
    out.extend_from_slice(&(n * 16 - sr).to_be_bytes());
    let mut order: Vec<usize> = (0..tables.len()).filter(|&i| &tables[i].0 != b"glyf").collect();
    order.push(tables.iter().position(|t| &t.0 == b"glyf").unwrap());
    let mut off = 12 + 16 * tables.len();
    let mut offsets = vec![0usize; tables.len()];
    for &i in &order {
        off = (off + 3) & !3;
        offsets[i] = off;
        off += tables[i].1.len();
    }
    for (i, t) in tables.iter().enumerate() {
        out.extend_from_slice(&t.0);
        out.extend_from_slice(&table_checksum(&t.1).to_be_bytes());
        out.extend_from_slice(&(offsets[i] as u32).to_be_bytes());
        out.extend_from_slice(&(t.1.len() as u32).to_be_bytes());
    }
    for &i in &order {
        while out.len() % 4 != 0 {
            out.push(0);
        }
        out.extend_from_slice(&tables[i].1);
    }
    let cut = f.truncate_glyf.min(out.len());
    out.truncate(out.len() - cut);
    out
}
