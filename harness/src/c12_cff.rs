//! Independent CFF reader (INDEX / DICT / charset / FDSelect / Type 2 charstring flattening).
#![allow(dead_code)]
use super::sfnt::Sfnt;
use std::collections::BTreeMap;

pub fn make_cf(id: &str, used: &[u32], bytes: &[u8], _s: &Sfnt, mapped: &[(u32, u16)], ng: u16) -> Option<String> {
    let j = |v: Vec<String>| if v.is_empty() { "-".to_string() } else { v.join(",") };
    Some(format!(
        "cf font={} used={} size={} ng={} cmap={}",
        id,
        j(used.iter().map(|c| c.to_string()).collect()),
        bytes.len(),
        ng,
        j(mapped.iter().map(|(c, g)| format!("{}:{}", c, g)).collect())
    ))
}

pub fn cff_facts(_data: &[u8], _map: &BTreeMap<u32, u16>) -> String {
    "n=0".into()
}
