//! Independent CFF reader (Adobe TN #5176 / #5177): header, INDEX, DICT, charset, FDSelect,
//! FDArray / Private DICTs and a Type 2 charstring *flattener* (subroutine calls inlined, the
//! operand/operator token stream fingerprinted, the width operand resolved against
//! defaultWidthX / nominalWidthX).  No outline interpreter: two charstrings are "the same" when
//! their flattened token streams are identical.  Shares no code with oxidize-pdf.
#![allow(dead_code)]
use super::sfnt::{be16, fp64, Sfnt};
use std::collections::BTreeMap;

#[derive(Clone, Debug, Default)]
pub struct Index {
    pub items: Vec<(usize, usize)>, // absolute [start, end) in the CFF data
    pub end: usize,
}

pub fn parse_index(d: &[u8], o: usize) -> Result<Index, String> {
    let count = be16(d, o).ok_or("INDEX count")? as usize;
    if count == 0 {
        return Ok(Index { items: vec![], end: o + 2 });
    }
    let osz = *d.get(o + 2).ok_or("INDEX offSize")? as usize;
    if !(1..=4).contains(&osz) {
        return Err(format!("INDEX offSize {}", osz));
    }
    let arr = o + 3;
    let base = arr + (count + 1) * osz - 1;
    let rd = |i: usize| -> Result<usize, String> {
        let p = arr + i * osz;
        if p + osz > d.len() {
            return Err("INDEX offsets short".into());
        }
        Ok(d[p..p + osz].iter().fold(0usize, |a, b| (a << 8) | *b as usize))
    };
    let mut items = Vec::with_capacity(count);
    let mut prev = rd(0)?;
    if prev != 1 {
        return Err("INDEX first offset != 1".into());
    }
    for i in 1..=count {
        let cur = rd(i)?;
        if cur < prev || base + cur > d.len() {
            return Err("INDEX offsets not monotone / out of data".into());
        }
        items.push((base + prev, base + cur));
        prev = cur;
    }
    Ok(Index { items, end: base + prev })
}

#[derive(Clone, Debug, PartialEq)]
pub enum Num {
    Int(i64),
    Real(String),
}

/// DICT → operator (two-byte operators as 1200 + b) ↦ operands
pub fn parse_dict(d: &[u8]) -> Result<BTreeMap<u16, Vec<Num>>, String> {
    let mut m = BTreeMap::new();
    let mut st: Vec<Num> = vec![];
    let mut i = 0;
    while i < d.len() {
        let b = d[i];
        match b {
            0..=21 => {
                let op = if b == 12 {
                    i += 1;
                    1200 + *d.get(i).ok_or("DICT escape short")? as u16
                } else {
                    b as u16
                };
                i += 1;
                m.insert(op, std::mem::take(&mut st));
            }
            28 => {
                st.push(Num::Int(be16(d, i + 1).ok_or("DICT short")? as i16 as i64));
                i += 3;
            }
            29 => {
                if i + 5 > d.len() {
                    return Err("DICT short".into());
                }
                st.push(Num::Int(i32::from_be_bytes([d[i + 1], d[i + 2], d[i + 3], d[i + 4]]) as i64));
                i += 5;
            }
            30 => {
                let mut s = String::new();
                i += 1;
                'r: loop {
                    let x = *d.get(i).ok_or("DICT real short")?;
                    i += 1;
                    for n in [x >> 4, x & 15] {
                        match n {
                            0..=9 => s.push((b'0' + n) as char),
                            10 => s.push('.'),
                            11 => s.push('E'),
                            12 => s.push_str("E-"),
                            14 => s.push('-'),
                            15 => break 'r,
                            _ => return Err("DICT real nibble".into()),
                        }
                    }
                }
                st.push(Num::Real(s));
            }
            32..=246 => {
                st.push(Num::Int(b as i64 - 139));
                i += 1;
            }
            247..=250 => {
                st.push(Num::Int((b as i64 - 247) * 256 + *d.get(i + 1).ok_or("DICT short")? as i64 + 108));
                i += 2;
            }
            251..=254 => {
                st.push(Num::Int(-(b as i64 - 251) * 256 - *d.get(i + 1).ok_or("DICT short")? as i64 - 108));
                i += 2;
            }
            _ => return Err(format!("DICT byte {}", b)),
        }
    }
    Ok(m)
}

fn int_of(m: &BTreeMap<u16, Vec<Num>>, op: u16, k: usize) -> Option<i64> {
    match m.get(&op)?.get(k)? {
        Num::Int(v) => Some(*v),
        Num::Real(_) => None,
    }
}
fn num_str(m: &BTreeMap<u16, Vec<Num>>, op: u16, default: &str) -> String {
    match m.get(&op).and_then(|v| v.first()) {
        Some(Num::Int(v)) => v.to_string(),
        Some(Num::Real(s)) => s.clone(),
        None => default.to_string(),
    }
}

pub struct Private {
    pub default_w: String,
    pub nominal_w: String,
    pub subrs: Index,
}

pub struct Cff<'a> {
    pub d: &'a [u8],
    pub top: BTreeMap<u16, Vec<Num>>,
    pub gsubrs: Index,
    pub charstrings: Index,
    pub is_cid: bool,
    pub fdselect: Vec<u8>,
    pub privates: Vec<Private>,
    /// gid → SID/CID (gid 0 = 0)
    pub charset: Vec<u16>,
    pub string_count: usize,
}

fn parse_private(d: &[u8], size: i64, off: i64) -> Result<Private, String> {
    if size < 0 || off < 0 || (off + size) as usize > d.len() {
        return Err("Private DICT out of data".into());
    }
    let pd = parse_dict(&d[off as usize..(off + size) as usize])?;
    let subrs = match int_of(&pd, 19, 0) {
        Some(rel) => parse_index(d, (off + rel) as usize)?,
        None => Index::default(),
    };
    Ok(Private { default_w: num_str(&pd, 20, "0"), nominal_w: num_str(&pd, 21, "0"), subrs })
}

impl<'a> Cff<'a> {
    pub fn parse(d: &'a [u8]) -> Result<Cff<'a>, String> {
        if d.len() < 4 || d[0] != 1 {
            return Err("CFF header".into());
        }
        let name = parse_index(d, d[2] as usize)?;
        let topi = parse_index(d, name.end)?;
        if name.items.len() != 1 || topi.items.len() != 1 {
            return Err("not exactly one font in the CFF".into());
        }
        let strings = parse_index(d, topi.end)?;
        let gsubrs = parse_index(d, strings.end)?;
        let top = parse_dict(&d[topi.items[0].0..topi.items[0].1])?;
        let cso = int_of(&top, 17, 0).ok_or("no CharStrings")? as usize;
        let charstrings = parse_index(d, cso)?;
        let n = charstrings.items.len();
        let is_cid = top.contains_key(&1230);
        let mut privates = vec![];
        let mut fdselect = vec![0u8; n];
        if let Some(fda) = int_of(&top, 1236, 0) {
            let fdi = parse_index(d, fda as usize)?;
            for it in &fdi.items {
                let fd = parse_dict(&d[it.0..it.1])?;
                let (sz, off) = (int_of(&fd, 18, 0).ok_or("FD without Private")?, int_of(&fd, 18, 1).ok_or("FD Private")?);
                privates.push(parse_private(d, sz, off)?);
            }
            let fso = int_of(&top, 1237, 0).ok_or("FDArray without FDSelect")? as usize;
            match *d.get(fso).ok_or("FDSelect")? {
                0 => {
                    for g in 0..n {
                        fdselect[g] = *d.get(fso + 1 + g).ok_or("FDSelect0 short")?;
                    }
                }
                3 => {
                    let nr = be16(d, fso + 1).ok_or("FDSelect3")? as usize;
                    for r in 0..nr {
                        let first = be16(d, fso + 3 + 3 * r).ok_or("FDSelect3")? as usize;
                        let fd = *d.get(fso + 5 + 3 * r).ok_or("FDSelect3")?;
                        let next = be16(d, fso + 6 + 3 * r).ok_or("FDSelect3")? as usize;
                        for g in first..next.min(n) {
                            fdselect[g] = fd;
                        }
                    }
                }
                f => return Err(format!("FDSelect format {}", f)),
            }
            if fdselect.iter().any(|f| *f as usize >= privates.len()) {
                return Err("FDSelect names a missing FD".into());
            }
        } else {
            let (sz, off) = (int_of(&top, 18, 0).unwrap_or(0), int_of(&top, 18, 1).unwrap_or(0));
            privates.push(parse_private(d, sz, off)?);
        }
        let mut charset = vec![0u16; n];
        match int_of(&top, 15, 0).unwrap_or(0) {
            0 | 1 | 2 if !top.contains_key(&15) || int_of(&top, 15, 0).unwrap() <= 2 => {
                for g in 0..n {
                    charset[g] = g as u16; // predefined charsets: not needed for the comparison
                }
            }
            o => {
                let o = o as usize;
                let fmt = *d.get(o).ok_or("charset")?;
                let mut g = 1;
                let mut p = o + 1;
                while g < n {
                    match fmt {
                        0 => {
                            charset[g] = be16(d, p).ok_or("charset0 short")?;
                            p += 2;
                            g += 1;
                        }
                        1 | 2 => {
                            let first = be16(d, p).ok_or("charset short")?;
                            let left = if fmt == 1 {
                                p += 3;
                                *d.get(p - 1).ok_or("charset short")? as usize
                            } else {
                                p += 4;
                                be16(d, p - 2).ok_or("charset short")? as usize
                            };
                            for k in 0..=left {
                                if g < n {
                                    charset[g] = first.wrapping_add(k as u16);
                                    g += 1;
                                }
                            }
                        }
                        f => return Err(format!("charset format {}", f)),
                    }
                }
            }
        }
        Ok(Cff { d, top, gsubrs, charstrings, is_cid, fdselect, privates, charset, string_count: strings.items.len() })
    }

    /// (advance width as a decimal token, fingerprint of the flattened charstring without the
    /// width operand)
    pub fn glyph(&self, gid: usize) -> Result<(String, u64), String> {
        let it = *self.charstrings.items.get(gid).ok_or("gid beyond CharStrings")?;
        let pr = &self.privates[self.fdselect[gid] as usize];
        let mut fl = Flat { toks: vec![], stack: vec![], hints: 0, width: None, seen_clear: false, ended: false };
        fl.run(self.d, it, &self.gsubrs, &pr.subrs, 0)?;
        let w = match &fl.width {
            None => pr.default_w.clone(),
            Some(w) => add_dec(&pr.nominal_w, w),
        };
        Ok((w, fp64(&[b"T2", &fl.toks])))
    }
}

/// nominalWidthX + w, exact for integers; otherwise a symbolic sum (compared as a token)
fn add_dec(a: &str, b: &str) -> String {
    match (a.parse::<i64>(), b.parse::<i64>()) {
        (Ok(x), Ok(y)) => (x + y).to_string(),
        _ => format!("{}+{}", a, b),
    }
}

struct Flat {
    toks: Vec<u8>,
    stack: Vec<String>,
    hints: usize,
    width: Option<String>,
    seen_clear: bool,
    ended: bool,
}

fn bias(n: usize) -> i64 {
    if n < 1240 {
        107
    } else if n < 33900 {
        1131
    } else {
        32768
    }
}

impl Flat {
    fn take_width(&mut self, expect_even: bool, min_extra: usize) {
        if self.seen_clear {
            return;
        }
        self.seen_clear = true;
        let n = self.stack.len();
        let has = if expect_even { n % 2 == 1 } else { n > min_extra };
        if has && n > 0 {
            self.width = Some(self.stack.remove(0));
        }
    }
    fn flush(&mut self, op: &[u8]) {
        for s in self.stack.drain(..) {
            self.toks.extend_from_slice(s.as_bytes());
            self.toks.push(b' ');
        }
        self.toks.push(b'#');
        self.toks.extend_from_slice(op);
        self.toks.push(b' ');
    }
    fn run(&mut self, d: &[u8], span: (usize, usize), g: &Index, l: &Index, depth: usize) -> Result<(), String> {
        if depth > 10 {
            return Err("subr nesting > 10".into());
        }
        let mut i = span.0;
        while i < span.1 && !self.ended {
            let b = d[i];
            match b {
                28 => {
                    self.stack.push((be16(d, i + 1).ok_or("cs short")? as i16).to_string());
                    i += 3;
                }
                32..=246 => {
                    self.stack.push((b as i64 - 139).to_string());
                    i += 1;
                }
                247..=250 => {
                    self.stack.push(((b as i64 - 247) * 256 + *d.get(i + 1).ok_or("cs short")? as i64 + 108).to_string());
                    i += 2;
                }
                251..=254 => {
                    self.stack.push((-(b as i64 - 251) * 256 - *d.get(i + 1).ok_or("cs short")? as i64 - 108).to_string());
                    i += 2;
                }
                255 => {
                    if i + 5 > span.1 {
                        return Err("cs short".into());
                    }
                    let v = i32::from_be_bytes([d[i + 1], d[i + 2], d[i + 3], d[i + 4]]);
                    self.stack.push(format!("f{}", v));
                    i += 5;
                }
                10 | 29 => {
                    let idx = self.stack.pop().ok_or("callsubr on empty stack")?;
                    let idx: i64 = idx.parse().map_err(|_| "subr index not an integer")?;
                    let tab = if b == 10 { l } else { g };
                    let k = idx + bias(tab.items.len());
                    let it = *tab.items.get(k as usize).ok_or("subr index out of range")?;
                    if k < 0 {
                        return Err("subr index negative".into());
                    }
                    self.run(d, it, g, l, depth + 1)?;
                    i += 1;
                }
                11 => return Ok(()),
                14 => {
                    self.take_width(false, if self.stack.len() >= 4 { 4 } else { 0 });
                    self.flush(&[14]);
                    self.ended = true;
                    i += 1;
                }
                1 | 3 | 18 | 23 => {
                    self.take_width(true, 0);
                    self.hints += self.stack.len() / 2;
                    self.flush(&[b]);
                    i += 1;
                }
                19 | 20 => {
                    self.take_width(true, 0);
                    self.hints += self.stack.len() / 2;
                    let nb = (self.hints + 7) / 8;
                    if i + 1 + nb > span.1 {
                        return Err("hintmask short".into());
                    }
                    let mut op = vec![b];
                    op.extend_from_slice(&d[i + 1..i + 1 + nb]);
                    self.flush(&op);
                    i += 1 + nb;
                }
                21 => {
                    self.take_width(false, 2);
                    self.flush(&[b]);
                    i += 1;
                }
                4 | 22 => {
                    self.take_width(false, 1);
                    self.flush(&[b]);
                    i += 1;
                }
                12 => {
                    let b2 = *d.get(i + 1).ok_or("cs escape short")?;
                    self.flush(&[12, b2]);
                    i += 2;
                }
                _ => {
                    self.flush(&[b]);
                    i += 1;
                }
            }
        }
        Ok(())
    }
}

fn j(v: Vec<String>, sep: &str) -> String {
    if v.is_empty() {
        "-".to_string()
    } else {
        v.join(sep)
    }
}

/// request line for a CFF-flavoured font: facts of the requested glyphs from the ORIGINAL font
pub fn make_cf(id: &str, used: &[u32], bytes: &[u8], s: &Sfnt, mapped: &[(u32, u16)], ng: u16) -> Option<String> {
    let cff = Cff::parse(s.table(b"CFF ").ok()?).ok()?;
    let mut need: Vec<u16> = mapped.iter().map(|p| p.1).collect();
    need.push(0);
    need.sort();
    need.dedup();
    let facts: Vec<String> = need
        .iter()
        .map(|g| match cff.glyph(*g as usize) {
            Ok((w, fp)) => format!("{}:{}:{}", g, w, fp),
            Err(_) => format!("{}:?:0", g),
        })
        .collect();
    Some(format!(
        "cf font={} used={} size={} ng={} cid={} cmap={} g={}",
        id,
        j(used.iter().map(|c| c.to_string()).collect(), ","),
        bytes.len(),
        ng,
        cff.is_cid as u8,
        j(mapped.iter().map(|(c, g)| format!("{}:{}", c, g)).collect(), ","),
        j(facts, ";")
    ))
}

/// facts of a raw-CFF subset: `n=<glyphs> wf=<ok|problem> cs=<gid:cid,…> g=<gid:width:fp;…>`
pub fn cff_facts(data: &[u8], _map: &BTreeMap<u32, u16>) -> String {
    let cff = match Cff::parse(data) {
        Ok(c) => c,
        Err(e) => return format!("n=0 wf=unreadable:{} cs=- g=-", e.replace(' ', "_")),
    };
    let n = cff.charstrings.items.len();
    let mut probs: Vec<String> = vec![];
    if !cff.is_cid {
        probs.push("not-cid-keyed".into());
    }
    if cff.gsubrs.items.len() != 0 || cff.privates.iter().any(|p| !p.subrs.items.is_empty()) {
        probs.push("m:subrs-left".into());
    }
    let mut facts = vec![];
    for g in 0..n {
        match cff.glyph(g) {
            Ok((w, fp)) => facts.push(format!("{}:{}:{}", g, w, fp)),
            Err(e) => {
                probs.push(format!("glyph-{}:{}", g, e.replace(' ', "_")));
                facts.push(format!("{}:?:0", g));
            }
        }
    }
    let cs: Vec<String> = (0..n).map(|g| format!("{}:{}", g, cff.charset[g])).collect();
    format!(
        "n={} wf={} cs={} g={}",
        n,
        if probs.is_empty() { "ok".to_string() } else { probs.join(",") },
        j(cs, ","),
        j(facts, ";")
    )
}
