//! Reference PDF *file-structure* writer used by the C04 / C17 / C19 harness binaries
//! (builder b0417).  Test-input generation only: independent of the library's own writer.
//! It writes exactly what the plan says (header, indirect objects, object streams, classic
//! cross-reference sections or cross-reference streams, trailers with /Prev, startxref) and
//! reports the byte offset of everything it wrote.
#![allow(dead_code)]

use std::io::Write;

/// Body of a physical (top-level, `N G obj … endobj`) object.
#[derive(Clone, Debug)]
pub enum Body {
    /// value object: a dictionary carrying `/V <v>` (catalog / pages shaped for numbers 1 / 2)
    Val(i64),
    /// object stream holding value objects `(num, v)`
    ObjStm { items: Vec<(u32, i64)>, flate: bool },
    /// object stream holding arbitrary (non-stream) objects given as text
    ObjStmRaw { items: Vec<(u32, Vec<u8>)>, flate: bool },
    /// verbatim body bytes (between `N G obj\n` and `\nendobj\n`)
    Raw(Vec<u8>),
    /// stream object: extra dictionary text (without /Length) + data
    Stream { dict: String, data: Vec<u8> },
}

#[derive(Clone, Debug)]
pub struct Phys {
    pub num: u32,
    pub gen: u16,
    pub body: Body,
}

#[derive(Clone, Debug)]
pub enum Ent {
    Free { next: u32, gen: u16 },
    /// in use, at the offset of physical object number `phys` (global 0-based index in file order,
    /// cross-reference stream objects count as physical objects)
    At { phys: usize, gen: u16 },
    /// in use, explicit byte offset
    Off { off: u64, gen: u16 },
    Comp { stm: u32, idx: u32 },
}

#[derive(Clone, Debug)]
pub enum XKind {
    Classic,
    Stream { num: u32, flate: bool },
}

#[derive(Clone, Debug)]
pub struct Rev {
    pub objs: Vec<Phys>,
    pub xk: XKind,
    /// entries in the order they are written; runs of consecutive numbers form one subsection
    pub ents: Vec<(u32, Ent)>,
    pub root: u32,
    /// extra trailer text, e.g. "/Info 5 0 R"
    pub trailer_extra: String,
    /// override of /Size (None = highest number mentioned so far + 1)
    pub size_override: Option<u32>,
}

#[derive(Clone, Debug, Default)]
pub struct Built {
    pub bytes: Vec<u8>,
    /// offset of the header line of every physical object, file order
    pub phys_off: Vec<u64>,
    pub phys_num: Vec<(u32, u16)>,
    /// offset of the cross-reference section of every revision
    pub xref_off: Vec<u64>,
    /// byte position of every `startxref` keyword
    pub startxref_pos: Vec<usize>,
    /// for every revision: (start of xref section, end of file after that revision)
    pub rev_span: Vec<(usize, usize)>,
    /// for every revision: position where the trailer keyword (classic) starts, if any
    pub trailer_pos: Vec<Option<usize>>,
}

pub fn value_dict(num: u32, v: i64) -> String {
    match num {
        1 => format!("<< /Type /Catalog /Pages 2 0 R /V {} >>", v),
        2 => format!("<< /Type /Pages /Kids [] /Count 0 /V {} >>", v),
        _ => format!("<< /V {} >>", v),
    }
}

pub fn deflate(data: &[u8]) -> Vec<u8> {
    let mut e = flate2::write::ZlibEncoder::new(Vec::new(), flate2::Compression::default());
    e.write_all(data).unwrap();
    e.finish().unwrap()
}

pub fn objstm_payload(items: &[(u32, i64)]) -> (usize, Vec<u8>) {
    let mut bodies = String::new();
    let mut head = String::new();
    for (n, v) in items {
        head.push_str(&format!("{} {} ", n, bodies.len()));
        bodies.push_str(&value_dict(*n, *v));
        bodies.push('\n');
    }
    let first = head.len();
    let mut out = head.into_bytes();
    out.extend_from_slice(bodies.as_bytes());
    (first, out)
}

fn write_stream(buf: &mut Vec<u8>, dict: &str, data: &[u8]) {
    buf.extend_from_slice(format!("<< {} /Length {} >>\nstream\n", dict, data.len()).as_bytes());
    buf.extend_from_slice(data);
    buf.extend_from_slice(b"\nendstream");
}

pub fn write_phys(buf: &mut Vec<u8>, p: &Phys) -> u64 {
    let off = buf.len() as u64;
    buf.extend_from_slice(format!("{} {} obj\n", p.num, p.gen).as_bytes());
    match &p.body {
        Body::Val(v) => buf.extend_from_slice(value_dict(p.num, *v).as_bytes()),
        Body::Raw(b) => buf.extend_from_slice(b),
        Body::Stream { dict, data } => write_stream(buf, dict, data),
        Body::ObjStmRaw { items, flate } => {
            let mut bodies: Vec<u8> = vec![];
            let mut head = String::new();
            for (n, b) in items {
                head.push_str(&format!("{} {} ", n, bodies.len()));
                bodies.extend_from_slice(b);
                bodies.push(b'\n');
            }
            let first = head.len();
            let mut payload = head.into_bytes();
            payload.extend_from_slice(&bodies);
            if *flate {
                let z = deflate(&payload);
                write_stream(
                    buf,
                    &format!("/Type /ObjStm /N {} /First {} /Filter /FlateDecode", items.len(), first),
                    &z,
                );
            } else {
                write_stream(buf, &format!("/Type /ObjStm /N {} /First {}", items.len(), first), &payload);
            }
        }
        Body::ObjStm { items, flate } => {
            let (first, payload) = objstm_payload(items);
            if *flate {
                let z = deflate(&payload);
                write_stream(
                    buf,
                    &format!("/Type /ObjStm /N {} /First {} /Filter /FlateDecode", items.len(), first),
                    &z,
                );
            } else {
                write_stream(buf, &format!("/Type /ObjStm /N {} /First {}", items.len(), first), &payload);
            }
        }
    }
    buf.extend_from_slice(b"\nendobj\n");
    off
}

/// maximal runs of consecutive numbers, in the given order
pub fn subsections(nums: &[u32]) -> Vec<(u32, u32)> {
    let mut out: Vec<(u32, u32)> = vec![];
    for &n in nums {
        if let Some(last) = out.last_mut() {
            if last.0 + last.1 == n {
                last.1 += 1;
                continue;
            }
        }
        out.push((n, 1));
    }
    out
}

pub const HEADER: &[u8] = b"%PDF-1.5\n%\xE2\xE3\xCF\xD3\n";

/// per-revision options of `build_with` (all default = what `build` does)
#[derive(Clone, Debug, Default)]
pub struct RevOpt {
    /// /Prev: None = the previous revision's section (no /Prev for the first revision);
    /// Some(None) = no /Prev entry at all; Some(Some(k)) = the section of revision k (k may be the
    /// revision itself or a later one: a loop)
    pub prev: Option<Option<usize>>,
    /// hybrid-reference revision (ISO 32000-1 §7.5.8.4), classic `xk` only: a cross-reference
    /// stream object (number, Flate?, entries) written after the revision's objects and named by
    /// /XRefStm in the trailer; it counts as a physical object like any cross-reference stream
    pub hybrid: Option<(u32, bool, Vec<(u32, Ent)>)>,
}

pub fn build(revs: &[Rev]) -> Built {
    build_with(revs, &[])
}

/// `build` with per-revision options.  /Prev targets that lie later in the file are resolved by
/// re-running the layout until the section offsets are stable.
pub fn build_with(revs: &[Rev], opts: &[RevOpt]) -> Built {
    let mut targets: Vec<u64> = vec![0; revs.len()];
    let mut last = build_pass(revs, opts, &targets);
    for _ in 0..8 {
        if last.xref_off == targets {
            break;
        }
        targets = last.xref_off.clone();
        last = build_pass(revs, opts, &targets);
    }
    last
}

fn xref_stream_data(ents: &[(u32, Ent)], phys_off: &[u64], self_off: u64) -> Vec<u8> {
    let mut data = vec![];
    for (_, e) in ents {
        let (t, f2, f3) = resolve_ent(e, phys_off, self_off);
        data.push(t);
        data.extend_from_slice(&(f2 as u32).to_be_bytes());
        data.extend_from_slice(&(f3 as u16).to_be_bytes());
    }
    data
}

fn index_text(ents: &[(u32, Ent)]) -> String {
    let nums: Vec<u32> = ents.iter().map(|(n, _)| *n).collect();
    let mut t = String::from(" /Index [");
    for (i, (f, c)) in subsections(&nums).iter().enumerate() {
        if i > 0 {
            t.push(' ');
        }
        t.push_str(&format!("{} {}", f, c));
    }
    t.push(']');
    t
}

/// (type, field 2, field 3); a physical index equal to the number of objects written so far means
/// "the cross-reference stream being written" (`self_off`)
fn resolve_ent(e: &Ent, phys_off: &[u64], self_off: u64) -> (u8, u64, u64) {
    match e {
        Ent::Free { next, gen } => (0, *next as u64, *gen as u64),
        Ent::At { phys, gen } => {
            let off = if *phys < phys_off.len() {
                phys_off[*phys]
            } else if *phys == phys_off.len() {
                self_off
            } else {
                0
            };
            (1, off, *gen as u64)
        }
        Ent::Off { off, gen } => (1, *off, *gen as u64),
        Ent::Comp { stm, idx } => (2, *stm as u64, *idx as u64),
    }
}

fn build_pass(revs: &[Rev], opts: &[RevOpt], targets: &[u64]) -> Built {
    let mut b = Built::default();
    b.bytes.extend_from_slice(HEADER);
    let mut max_num: u32 = 0;
    let mut prev: Option<u64> = None;
    for (ri, rev) in revs.iter().enumerate() {
        let opt = opts.get(ri).cloned().unwrap_or_default();
        for p in &rev.objs {
            let off = write_phys(&mut b.bytes, p);
            b.phys_off.push(off);
            b.phys_num.push((p.num, p.gen));
            max_num = max_num.max(p.num);
        }
        for (n, _) in &rev.ents {
            max_num = max_num.max(*n);
        }
        if let XKind::Stream { num, .. } = &rev.xk {
            max_num = max_num.max(*num);
        }
        if let Some((num, _, hents)) = &opt.hybrid {
            max_num = max_num.max(*num);
            for (n, _) in hents {
                max_num = max_num.max(*n);
            }
        }
        let size = rev.size_override.unwrap_or(max_num + 1);
        let this_prev: Option<u64> = match opt.prev {
            None => prev,
            Some(None) => None,
            Some(Some(k)) => Some(targets.get(k).copied().unwrap_or(0)),
        };
        // hybrid-reference: the /XRefStm stream comes before the classic section
        let mut xrefstm_off: Option<u64> = None;
        if let (XKind::Classic, Some((num, flate, hents))) = (&rev.xk, &opt.hybrid) {
            let hoff = b.bytes.len() as u64;
            let mut data = xref_stream_data(hents, &b.phys_off, hoff);
            let mut dict = format!("/Type /XRef /Size {} /W [1 4 2]", size);
            dict.push_str(&index_text(hents));
            if *flate {
                dict.push_str(" /Filter /FlateDecode");
                data = deflate(&data);
            }
            b.phys_off.push(hoff);
            b.phys_num.push((*num, 0));
            b.bytes.extend_from_slice(format!("{} 0 obj\n", num).as_bytes());
            write_stream(&mut b.bytes, &dict, &data);
            b.bytes.extend_from_slice(b"\nendobj\n");
            xrefstm_off = Some(hoff);
        }
        let xoff = b.bytes.len() as u64;
        let nums: Vec<u32> = rev.ents.iter().map(|(n, _)| *n).collect();
        let subs = subsections(&nums);
        let mut trailer_pos = None;
        match &rev.xk {
            XKind::Classic => {
                b.bytes.extend_from_slice(b"xref\n");
                let mut k = 0usize;
                for (first, count) in &subs {
                    b.bytes.extend_from_slice(format!("{} {}\n", first, count).as_bytes());
                    for _ in 0..*count {
                        let (t, f2, f3) = resolve_ent(&rev.ents[k].1, &b.phys_off, xoff);
                        k += 1;
                        // a compressed entry cannot be expressed in a classic table: written as free
                        let flag = if t == 1 { 'n' } else { 'f' };
                        b.bytes
                            .extend_from_slice(format!("{:010} {:05} {} \n", f2, f3 % 100000, flag).as_bytes());
                    }
                }
                trailer_pos = Some(b.bytes.len());
                let mut t = format!("trailer\n<< /Size {} /Root {} 0 R", size, rev.root);
                if let Some(p) = this_prev {
                    t.push_str(&format!(" /Prev {}", p));
                }
                if let Some(h) = xrefstm_off {
                    t.push_str(&format!(" /XRefStm {}", h));
                }
                if !rev.trailer_extra.is_empty() {
                    t.push(' ');
                    t.push_str(&rev.trailer_extra);
                }
                t.push_str(" >>\n");
                b.bytes.extend_from_slice(t.as_bytes());
            }
            XKind::Stream { num, flate } => {
                let mut data = xref_stream_data(&rev.ents, &b.phys_off, xoff);
                let mut dict = format!("/Type /XRef /Size {} /Root {} 0 R /W [1 4 2]", size, rev.root);
                dict.push_str(&index_text(&rev.ents));
                if let Some(p) = this_prev {
                    dict.push_str(&format!(" /Prev {}", p));
                }
                if !rev.trailer_extra.is_empty() {
                    dict.push(' ');
                    dict.push_str(&rev.trailer_extra);
                }
                if *flate {
                    dict.push_str(" /Filter /FlateDecode");
                    data = deflate(&data);
                }
                b.phys_off.push(xoff);
                b.phys_num.push((*num, 0));
                b.bytes.extend_from_slice(format!("{} 0 obj\n", num).as_bytes());
                write_stream(&mut b.bytes, &dict, &data);
                b.bytes.extend_from_slice(b"\nendobj\n");
            }
        }
        b.startxref_pos.push(b.bytes.len());
        b.bytes.extend_from_slice(format!("startxref\n{}\n%%EOF\n", xoff).as_bytes());
        b.xref_off.push(xoff);
        b.trailer_pos.push(trailer_pos);
        b.rev_span.push((xoff as usize, b.bytes.len()));
        prev = Some(xoff);
    }
    b
}

/// canonical error class of a ParseError
pub fn err_class(e: &oxidize_pdf::parser::ParseError) -> &'static str {
    use oxidize_pdf::parser::ParseError as P;
    match e {
        P::InvalidReference(..) => "ref",
        P::SyntaxError { .. } => "syn",
        P::MissingKey(_) => "key",
        P::InvalidXRef => "xref",
        P::InvalidHeader => "hdr",
        P::InvalidTrailer => "trailer",
        P::Io(_) => "io",
        P::StreamDecodeError(_) => "decode",
        P::UnexpectedToken { .. } => "tok",
        _ => "other",
    }
}
