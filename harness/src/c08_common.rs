//! Shared by `bin/c08.rs` and `bin/c07.rs` (included via `#[path]`): request tokens ↔ the real
//! `PdfStream`, canonical answers, and the inflate table (`ztab`) that carries the results of the
//! external zlib decoder into the request.
#![allow(dead_code)]

use oxidize_pdf::parser::objects::{PdfArray, PdfDictionary, PdfName, PdfObject, PdfStream};
use oxidize_pdf::parser::{ParseError, ParseOptions};
use oxiharness::{hex, unhex};
use std::io::Read;

pub fn real_name(f: &str) -> Option<&'static str> {
    Some(match f {
        "Hex" => "ASCIIHexDecode",
        "A85" => "ASCII85Decode",
        "Lzw" => "LZWDecode",
        "Fl" => "FlateDecode",
        "Rl" => "RunLengthDecode",
        "Ccf" => "CCITTFaxDecode",
        "Jb2" => "JBIG2Decode",
        "Dct" => "DCTDecode",
        "Jpx" => "JPXDecode",
        "Crypt" => "Crypt",
        "Bogus" => "BogusDecode",
        _ => return None,
    })
}

fn name_obj(f: &str) -> Option<PdfObject> {
    real_name(f).map(|n| PdfObject::Name(PdfName::new(n.to_string())))
}

fn parse_dict(s: &str) -> Option<PdfDictionary> {
    let mut d = PdfDictionary::new();
    if s == "e" {
        return Some(d);
    }
    for item in s.split(';') {
        let (k, v) = item.split_at(1);
        let key = match k {
            "P" => "Predictor",
            "C" => "Columns",
            "K" => "Colors",
            "B" => "BitsPerComponent",
            "E" => "EarlyChange",
            _ => return None,
        };
        let val = if v == "r" { PdfObject::Real(12.5) } else { PdfObject::Integer(v.parse::<i64>().ok()?) };
        d.insert(key.to_string(), val);
    }
    Some(d)
}

/// Build the stream dictionary from the `filters` and `parms` tokens.
pub fn build_dict(filters: &str, parms: &str) -> Option<PdfDictionary> {
    let mut dict = PdfDictionary::new();
    match filters {
        "-" => {}
        "x" => dict.insert("Filter".into(), PdfObject::Integer(7)),
        _ => {
            let (k, rest) = filters.split_once(':')?;
            match k {
                "n" => dict.insert("Filter".into(), name_obj(rest)?),
                "a" => {
                    let mut v = vec![];
                    if !rest.is_empty() {
                        for t in rest.split(',') {
                            v.push(if t == "#" { PdfObject::Integer(3) } else { name_obj(t)? });
                        }
                    }
                    dict.insert("Filter".into(), PdfObject::Array(PdfArray(v)));
                }
                _ => return None,
            }
        }
    }
    match parms {
        "-" => {}
        "x" => dict.insert("DecodeParms".into(), PdfObject::Integer(1)),
        _ => {
            let (k, rest) = parms.split_once(':')?;
            match k {
                "d" => dict.insert("DecodeParms".into(), PdfObject::Dictionary(parse_dict(rest)?)),
                "a" => {
                    let mut v = vec![];
                    for t in rest.split('|') {
                        v.push(if t == "0" { PdfObject::Null } else { PdfObject::Dictionary(parse_dict(t)?) });
                    }
                    dict.insert("DecodeParms".into(), PdfObject::Array(PdfArray(v)));
                }
                _ => return None,
            }
        }
    }
    Some(dict)
}

pub enum Out {
    Ok(Vec<u8>),
    Err(String),
    Panic(String),
}

fn classify_err(e: &ParseError) -> String {
    match e {
        ParseError::StreamDecodeError(_) => "err:decode".into(),
        ParseError::SyntaxError { .. } => "err:syntax".into(),
        other => format!("err:other:{:?}", other).replace(' ', "_"),
    }
}

fn classify_panic(e: Box<dyn std::any::Any + Send>) -> String {
    let msg = if let Some(s) = e.downcast_ref::<&str>() {
        s.to_string()
    } else if let Some(s) = e.downcast_ref::<String>() {
        s.clone()
    } else {
        "?".into()
    };
    if msg.contains("multiply with overflow") {
        "panic:mul".into()
    } else if msg.contains("add with overflow") {
        "panic:add".into()
    } else {
        format!("panic:other:{}", msg.replace([' ', '=', ':'], "_"))
    }
}

/// `PdfStream::decode` (limit = None) or `PdfStream::decode_with_limit`
pub fn call(stream: &PdfStream, limit: Option<usize>) -> Out {
    let opts = ParseOptions::default();
    let r = std::panic::catch_unwind(std::panic::AssertUnwindSafe(|| match limit {
        None => stream.decode(&opts),
        Some(l) => stream.decode_with_limit(&opts, l),
    }));
    match r {
        Ok(Ok(v)) => Out::Ok(v),
        Ok(Err(e)) => Out::Err(classify_err(&e)),
        Err(p) => Out::Panic(classify_panic(p)),
    }
}

pub fn fnv1a64(bs: &[u8]) -> u64 {
    let mut h: u64 = 14695981039346656037;
    for &b in bs {
        h = (h ^ b as u64).wrapping_mul(1099511628211);
    }
    h
}

pub fn show_full(o: &Out) -> String {
    match o {
        Out::Ok(v) => format!("ok:{}", hex(v)),
        Out::Err(s) | Out::Panic(s) => s.clone(),
    }
}

pub fn show_short(o: &Out) -> String {
    match o {
        Out::Ok(v) => format!("ok:{}:{:016x}", v.len(), fnv1a64(v)),
        Out::Err(s) | Out::Panic(s) => s.clone(),
    }
}

/// Result of reading a `flate2::read::ZlibDecoder` over `x` to the end — the external function
/// `Ext.zlib` of the model.  Called directly on flate2, not through the library under test.
pub fn zlib_ref(x: &[u8]) -> Option<Vec<u8>> {
    let mut out = Vec::new();
    let mut d = flate2::read::ZlibDecoder::new(x);
    match d.read_to_end(&mut out) {
        Ok(_) => Some(out),
        Err(_) => None,
    }
}

fn names_of(filters: &str) -> Vec<String> {
    match filters.split_once(':') {
        Some(("n", f)) => vec![f.to_string()],
        Some(("a", l)) if !l.is_empty() => l.split(',').map(|s| s.to_string()).collect(),
        _ => vec![],
    }
}

fn prefix_parms(parms: &str, k: usize) -> String {
    match parms.split_once(':') {
        Some(("a", l)) => {
            let els: Vec<&str> = l.split('|').take(k).collect();
            if els.is_empty() {
                "-".into()
            } else {
                format!("a:{}", els.join("|"))
            }
        }
        _ => parms.to_string(),
    }
}

/// The inflate table for a request: for every Flate stage the bytes that reach it (obtained by
/// running the chain prefix through the public API, both paths) with the result of `zlib_ref`;
/// when zlib fails, additionally the library's own `decode_flate` answer on that input (recovery
/// strategies 2–8 are outside the model).
pub fn build_ztab(filters: &str, parms: &str, data: &[u8]) -> String {
    let names = names_of(filters);
    if names.iter().any(|n| n == "#") {
        return "-".into();
    }
    let mut inputs: Vec<Vec<u8>> = vec![];
    for (k, n) in names.iter().enumerate() {
        if n != "Fl" {
            continue;
        }
        if k == 0 {
            inputs.push(data.to_vec());
            continue;
        }
        let pf = format!("a:{}", names[..k].join(","));
        let pp = prefix_parms(parms, k);
        if let Some(dict) = build_dict(&pf, &pp) {
            let st = PdfStream { dict, data: data.to_vec() };
            for lim in [None, Some(usize::MAX)] {
                if let Out::Ok(v) = call(&st, lim) {
                    inputs.push(v);
                }
            }
        }
    }
    inputs.sort();
    inputs.dedup();
    let mut entries = vec![];
    for x in &inputs {
        let key = if x == data { "@".to_string() } else { hex(x) };
        match zlib_ref(x) {
            Some(p) => entries.push(format!("z{}={}", key, hex(&p))),
            None => {
                entries.push(format!("z{}=!", key));
                let st = PdfStream { dict: build_dict("n:Fl", "-").unwrap(), data: x.clone() };
                if let Out::Ok(v) = call(&st, None) {
                    entries.push(format!("r{}={}", key, hex(&v)));
                }
            }
        }
    }
    if entries.is_empty() {
        "-".into()
    } else {
        entries.join(",")
    }
}

pub fn parse_stream(filters: &str, parms: &str, data: &str) -> Option<PdfStream> {
    Some(PdfStream { dict: build_dict(filters, parms)?, data: unhex(data)? })
}
