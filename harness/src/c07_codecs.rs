//! Reference ENCODERS written from ISO 32000-1 §7.4 / PNG §9 / TIFF 6.0 §14, independent of the
//! library under test.  Included by `bin/c07.rs` and `bin/c08.rs` via `#[path]`.
//! Every encoder here has a twin in `lean/OxiVerif/Spec/C07Codecs.lean`; the C07 driver checks on
//! every case that both produce the same bytes.
#![allow(dead_code)]

use std::collections::HashMap;

// ---------------------------------------------------------------- ASCIIHex
pub fn hex_encode(data: &[u8], upper: bool) -> Vec<u8> {
    let digits: &[u8; 16] = if upper { b"0123456789ABCDEF" } else { b"0123456789abcdef" };
    let mut out = Vec::with_capacity(data.len() * 2 + 1);
    for &b in data {
        out.push(digits[(b >> 4) as usize]);
        out.push(digits[(b & 15) as usize]);
    }
    out.push(b'>');
    out
}

// ---------------------------------------------------------------- ASCII85
/// `z` for an all-zero full group, partial final group of n bytes → n+1 digits, `~>` at the end.
pub fn a85_encode(data: &[u8]) -> Vec<u8> {
    let mut out = Vec::new();
    for chunk in data.chunks(4) {
        let mut v: u32 = 0;
        for i in 0..4 {
            v = (v << 8) | (*chunk.get(i).unwrap_or(&0) as u32);
        }
        if chunk.len() == 4 && v == 0 {
            out.push(b'z');
            continue;
        }
        let mut d = [0u8; 5];
        let mut x = v;
        for i in (0..5).rev() {
            d[i] = (x % 85) as u8 + b'!';
            x /= 85;
        }
        out.extend_from_slice(&d[..chunk.len() + 1]);
    }
    out.extend_from_slice(b"~>");
    out
}

// ---------------------------------------------------------------- RunLength
/// One packet of a RunLength stream.
#[derive(Clone, Debug)]
pub enum Packet {
    Lit(Vec<u8>),   // 1..=128 bytes
    Run(usize, u8), // 2..=128 copies
}

pub fn rl_serialize(ps: &[Packet]) -> Vec<u8> {
    let mut out = Vec::new();
    for p in ps {
        match p {
            Packet::Lit(bs) => {
                out.push((bs.len() - 1) as u8);
                out.extend_from_slice(bs);
            }
            Packet::Run(n, b) => {
                out.push((257 - n) as u8);
                out.push(*b);
            }
        }
    }
    out.push(128);
    out
}

/// Greedy packetiser: runs of ≥ `min_run` equal bytes become Run packets (split at 128), the rest
/// literal packets of at most `max_lit` bytes.
pub fn rl_packets(data: &[u8], min_run: usize, max_lit: usize) -> Vec<Packet> {
    let mut ps = Vec::new();
    let mut lit: Vec<u8> = Vec::new();
    let mut i = 0;
    let flush = |lit: &mut Vec<u8>, ps: &mut Vec<Packet>| {
        for c in lit.chunks(max_lit) {
            ps.push(Packet::Lit(c.to_vec()));
        }
        lit.clear();
    };
    while i < data.len() {
        let mut j = i;
        while j < data.len() && data[j] == data[i] && j - i < 128 {
            j += 1;
        }
        let run = j - i;
        if run >= min_run.max(2) {
            flush(&mut lit, &mut ps);
            ps.push(Packet::Run(run, data[i]));
        } else {
            lit.extend_from_slice(&data[i..j]);
        }
        i = j;
    }
    flush(&mut lit, &mut ps);
    ps
}

pub fn rl_encode(data: &[u8], min_run: usize, max_lit: usize) -> Vec<u8> {
    rl_serialize(&rl_packets(data, min_run, max_lit))
}

// ---------------------------------------------------------------- LZW
pub struct BitWriter {
    pub out: Vec<u8>,
    acc: u32,
    nbits: u32,
}

impl BitWriter {
    pub fn new() -> Self {
        BitWriter { out: vec![], acc: 0, nbits: 0 }
    }
    /// MSB first
    pub fn put(&mut self, code: u32, width: u32) {
        self.acc = (self.acc << width) | (code & ((1 << width) - 1));
        self.nbits += width;
        while self.nbits >= 8 {
            self.out.push((self.acc >> (self.nbits - 8)) as u8);
            self.nbits -= 8;
            self.acc &= (1 << self.nbits) - 1;
        }
    }
    pub fn finish(mut self) -> Vec<u8> {
        if self.nbits > 0 {
            self.out.push((self.acc << (8 - self.nbits)) as u8);
        }
        self.out
    }
}

/// The code sequence of the reference LZW encoder (ISO 32000-1 §7.4.4): Clear first, greedy
/// longest match, new entry after every emitted code, Clear again as soon as the next free code
/// reaches `clear_at` (258 < clear_at ≤ 4096; 0 = never clear: the table simply stays full),
/// EOD last.  Each code is paired with the width it is written in; `early` = /EarlyChange 1.
pub fn lzw_codes(data: &[u8], early: bool, clear_at: usize) -> Vec<(u32, u32)> {
    let ec = if early { 1usize } else { 0 };
    let mut codes = vec![(256u32, 9u32)];
    let mut table: HashMap<Vec<u8>, u32> = HashMap::new();
    let mut nx: usize = 258;
    let mut w: u32 = 9;
    let mut cur: Vec<u8> = vec![];
    let code_of = |s: &Vec<u8>, table: &HashMap<Vec<u8>, u32>| -> u32 {
        if s.len() == 1 {
            s[0] as u32
        } else {
            table[s]
        }
    };
    for &c in data {
        if cur.is_empty() {
            cur.push(c);
            continue;
        }
        let mut ext = cur.clone();
        ext.push(c);
        if table.contains_key(&ext) {
            cur = ext;
            continue;
        }
        codes.push((code_of(&cur, &table), w));
        if nx >= (1usize << w) - ec && w < 12 {
            w += 1;
        }
        if nx < 4096 {
            table.insert(ext, nx as u32);
            nx += 1;
        }
        cur = vec![c];
        if clear_at != 0 && nx >= clear_at {
            codes.push((256, w));
            table.clear();
            nx = 258;
            w = 9;
        }
    }
    if !cur.is_empty() {
        codes.push((code_of(&cur, &table), w));
        if nx >= (1usize << w) - ec && w < 12 {
            w += 1;
        }
    }
    codes.push((257, w));
    codes
}

pub fn lzw_pack(codes: &[(u32, u32)]) -> Vec<u8> {
    let mut bw = BitWriter::new();
    for &(c, w) in codes {
        bw.put(c, w);
    }
    bw.finish()
}

pub fn lzw_encode(data: &[u8], early: bool, clear_at: usize) -> Vec<u8> {
    lzw_pack(&lzw_codes(data, early, clear_at))
}

// ---------------------------------------------------------------- predictors
pub fn row_bytes(columns: usize, colors: usize, bpc: usize) -> usize {
    (columns * colors * bpc + 7) / 8
}

pub fn png_bpp(colors: usize, bpc: usize) -> usize {
    ((colors * bpc + 7) / 8).max(1)
}

pub fn paeth(a: u8, b: u8, c: u8) -> u8 {
    let p = a as i32 + b as i32 - c as i32;
    let pa = (p - a as i32).abs();
    let pb = (p - b as i32).abs();
    let pc = (p - c as i32).abs();
    if pa <= pb && pa <= pc {
        a
    } else if pb <= pc {
        b
    } else {
        c
    }
}

/// PNG §9.2 filter `t` of one raw row against the previous raw row.
pub fn png_filter_row(t: u8, bpp: usize, prev: &[u8], row: &[u8]) -> Vec<u8> {
    let mut out = Vec::with_capacity(row.len());
    for i in 0..row.len() {
        let a = if i >= bpp { row[i - bpp] } else { 0 };
        let b = *prev.get(i).unwrap_or(&0);
        let c = if i >= bpp { *prev.get(i - bpp).unwrap_or(&0) } else { 0 };
        let pred = match t {
            0 => 0,
            1 => a,
            2 => b,
            3 => ((a as u16 + b as u16) / 2) as u8,
            _ => paeth(a, b, c),
        };
        out.push(row[i].wrapping_sub(pred));
    }
    out
}

/// `data.len()` must be a multiple of `rb`; `types[r % types.len()]` is the filter of row r.
pub fn png_encode(data: &[u8], rb: usize, bpp: usize, types: &[u8]) -> Vec<u8> {
    let mut out = Vec::new();
    if rb == 0 {
        return out;
    }
    let mut prev: Vec<u8> = vec![];
    for (r, row) in data.chunks(rb).enumerate() {
        let t = types[r % types.len()];
        out.push(t);
        out.extend(png_filter_row(t, bpp, &prev, row));
        prev = row.to_vec();
    }
    out
}

fn get_sample(row: &[u8], j: usize, bpc: usize) -> u32 {
    match bpc {
        8 => row[j] as u32,
        16 => ((row[2 * j] as u32) << 8) | row[2 * j + 1] as u32,
        _ => {
            let bit = j * bpc;
            let byte = row[bit / 8] as u32;
            (byte >> (8 - bpc - bit % 8)) & ((1 << bpc) - 1)
        }
    }
}

fn put_sample(row: &mut [u8], j: usize, bpc: usize, v: u32) {
    match bpc {
        8 => row[j] = v as u8,
        16 => {
            row[2 * j] = (v >> 8) as u8;
            row[2 * j + 1] = v as u8;
        }
        _ => {
            let bit = j * bpc;
            let sh = 8 - bpc - bit % 8;
            let mask = (((1u32 << bpc) - 1) << sh) as u8;
            row[bit / 8] = (row[bit / 8] & !mask) | (((v << sh) as u8) & mask);
        }
    }
}

/// TIFF 6.0 §14 horizontal differencing (Predictor 2), per row, per colour component.
pub fn tiff2_encode(data: &[u8], columns: usize, colors: usize, bpc: usize) -> Vec<u8> {
    let rb = row_bytes(columns, colors, bpc);
    let mut out = data.to_vec();
    if rb == 0 {
        return out;
    }
    let modulus = 1u32 << bpc;
    for (r, row) in data.chunks(rb).enumerate() {
        if row.len() < rb {
            break;
        }
        let orow = &mut out[r * rb..(r + 1) * rb];
        for j in (colors..columns * colors).rev() {
            let v = (get_sample(row, j, bpc) + modulus - get_sample(row, j - colors, bpc)) % modulus;
            put_sample(orow, j, bpc, v);
        }
    }
    out
}

// ---------------------------------------------------------------- zlib, stored blocks only
pub fn adler32(data: &[u8]) -> u32 {
    let (mut a, mut b) = (1u32, 0u32);
    for &x in data {
        a = (a + x as u32) % 65521;
        b = (b + a) % 65521;
    }
    (b << 16) | a
}

/// RFC 1950 wrapper around RFC 1951 stored (BTYPE=00) blocks of at most `block` bytes.
pub fn zlib_stored(data: &[u8], block: usize) -> Vec<u8> {
    let block = block.clamp(1, 65535);
    let mut out = vec![0x78, 0x01];
    let chunks: Vec<&[u8]> = if data.is_empty() { vec![&data[..]] } else { data.chunks(block).collect() };
    for (i, c) in chunks.iter().enumerate() {
        out.push(if i + 1 == chunks.len() { 1 } else { 0 });
        let n = c.len() as u16;
        out.extend_from_slice(&n.to_le_bytes());
        out.extend_from_slice(&(!n).to_le_bytes());
        out.extend_from_slice(c);
    }
    out.extend_from_slice(&adler32(data).to_be_bytes());
    out
}

// ---------------------------------------------------------------- zlib, one fixed-Huffman block of literals
/// RFC 1951 3.2.6: BFINAL=1, BTYPE=01, every byte as a literal with the fixed code (8 bits for
/// 0..=143, 9 bits for 144..=255, most significant code bit first), end-of-block 0000000; bits are
/// packed starting at the least significant bit of each byte.  Twin of `Codec.zlibFixed`.
pub fn zlib_fixed(data: &[u8]) -> Vec<u8> {
    let mut bits: Vec<bool> = vec![true, true, false];
    for &b in data {
        let (code, len) = if b < 144 { (48 + b as u32, 8) } else { (256 + b as u32, 9) };
        for i in (0..len).rev() {
            bits.push((code >> i) & 1 == 1);
        }
    }
    bits.extend([false; 7]);
    let mut out = vec![0x78, 0x01];
    for chunk in bits.chunks(8) {
        let mut byte = 0u8;
        for (i, &bit) in chunk.iter().enumerate() {
            if bit {
                byte |= 1 << i;
            }
        }
        out.push(byte);
    }
    out.extend_from_slice(&adler32(data).to_be_bytes());
    out
}

// ---------------------------------------------------------------- white space
pub const PDF_WS: &[u8] = &[0, 9, 10, 12, 13, 32];
pub const ASCII_WS: &[u8] = &[9, 10, 12, 13, 32];

/// insert `ws[(i / every) % ws.len()]` before the byte with index `i` whenever
/// `i % every == every - 1`; `every == 0` inserts nothing (twin of `Codec.sprinkle`)
pub fn sprinkle(every: usize, ws: &[u8], bs: &[u8]) -> Vec<u8> {
    let mut out = Vec::with_capacity(bs.len() + bs.len() / every.max(1) + 1);
    for (i, &b) in bs.iter().enumerate() {
        if every != 0 && i % every == every - 1 {
            out.push(ws[(i / every) % ws.len()]);
        }
        out.push(b);
    }
    out
}
