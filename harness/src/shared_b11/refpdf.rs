//! Independent reference writer for C11: minimal one-page PDFs around generated content streams.
//!
//! Nothing of oxidize-pdf's writer is used.  The file layout is the plainest legal one
//! (ISO 32000-1 §7.5): header, numbered objects, classic cross-reference table, trailer.
//!
//! A *program* is the parsed form of a C11 request line (see `lean/OxiVerif/Drv/C11.lean` for the
//! grammar): extraction options, a list of font objects, and a list of streams (stream 0 = the
//! page content, streams 1.. = form XObjects), each with its own resource maps.
#![allow(dead_code)]

use std::io::Write as _;

#[derive(Clone, Debug)]
pub struct Opts {
    pub pl: bool,
    pub sp: bool,
    pub dc: bool,
    pub mh: bool,
    pub rp: bool,
    pub ia: bool,
    pub rc: bool,
    pub ro: bool,
    pub cr: u8,
    pub thr: u8,
    pub max: Option<usize>,
}

#[derive(Clone, Debug)]
pub enum FontSpec {
    /// one of the 14 standard fonts, `/Encoding /WinAnsiEncoding`
    Simple(usize),
    /// Type0 / Identity-H with a ToUnicode CMap: `bfrange <0001> <n> <base>` + `bfchar` extras
    Type0 { base: u32, n: u32, extras: Vec<(u16, Vec<u16>)> },
}

pub const STD14: [&str; 14] = [
    "Helvetica",
    "Helvetica-Bold",
    "Helvetica-Oblique",
    "Helvetica-BoldOblique",
    "Times-Roman",
    "Times-Bold",
    "Times-Italic",
    "Times-BoldItalic",
    "Courier",
    "Courier-Bold",
    "Courier-Oblique",
    "Courier-BoldOblique",
    "Symbol",
    "ZapfDingbats",
];

#[derive(Clone, Debug)]
pub enum TjItem {
    Str(Vec<u8>),
    Num(String),
}

#[derive(Clone, Debug)]
pub enum Op {
    BT,
    ET,
    Q_,
    Qq,
    TStar,
    Tf(usize, String),
    Td(String, String),
    TD(String, String),
    Tm([String; 6]),
    Cm([String; 6]),
    Num1(&'static str, String), // Tc Tw Tz TL Ts Tr
    Tj(Vec<u8>),
    Quote(Vec<u8>),
    DQuote(String, String, Vec<u8>),
    TJ(Vec<TjItem>),
    Do(usize),
    BMC(String),
    /// tag, mcid, ActualText (UTF-16BE code units, no BOM)
    BDC(String, Option<u32>, Option<Vec<u16>>),
    /// same, but through a `/Properties` resource entry
    BDR(String, Option<u32>, Option<Vec<u16>>),
    EMC,
}

#[derive(Clone, Debug)]
pub struct Stream {
    pub fmap: Vec<usize>,
    pub xmap: Vec<usize>,
    pub matrix: Option<[String; 6]>,
    pub ops: Vec<Op>,
}

#[derive(Clone, Debug)]
pub struct Program {
    pub opts: Opts,
    pub fonts: Vec<FontSpec>,
    pub streams: Vec<Stream>,
}

// ---------------------------------------------------------------------------------------------
// request parsing
// ---------------------------------------------------------------------------------------------

fn is_num(s: &str) -> bool {
    let b = s.as_bytes();
    let mut i = 0;
    if i < b.len() && b[i] == b'-' {
        i += 1;
    }
    let d0 = i;
    while i < b.len() && b[i].is_ascii_digit() {
        i += 1;
    }
    if i == d0 {
        return false;
    }
    if i < b.len() && b[i] == b'.' {
        i += 1;
        let d1 = i;
        while i < b.len() && b[i].is_ascii_digit() {
            i += 1;
        }
        if i == d1 {
            return false;
        }
    }
    i == b.len()
}

fn num(s: &str) -> Option<String> {
    if is_num(s) {
        Some(s.to_string())
    } else {
        None
    }
}

fn unhex(s: &str) -> Option<Vec<u8>> {
    if s == "-" {
        return Some(vec![]);
    }
    if s.len() % 2 != 0 {
        return None;
    }
    (0..s.len() / 2).map(|i| u8::from_str_radix(s.get(2 * i..2 * i + 2)?, 16).ok()).collect()
}

fn units(s: &str) -> Option<Vec<u16>> {
    let b = unhex(s)?;
    if b.len() % 2 != 0 {
        return None;
    }
    Some(b.chunks(2).map(|c| u16::from_be_bytes([c[0], c[1]])).collect())
}

fn six(s: &str) -> Option<[String; 6]> {
    let v: Vec<&str> = s.split('_').collect();
    if v.len() != 6 {
        return None;
    }
    let mut out: [String; 6] = Default::default();
    for (i, t) in v.iter().enumerate() {
        out[i] = num(t)?;
    }
    Some(out)
}

fn idx_list(s: &str) -> Option<Vec<usize>> {
    if s == "-" {
        return Some(vec![]);
    }
    s.split('.').map(|t| t.parse().ok()).collect()
}

fn tag_ok(t: &str) -> bool {
    !t.is_empty() && t.bytes().all(|b| b.is_ascii_alphanumeric())
}

fn at_field(s: &str) -> Option<Option<Vec<u16>>> {
    match s {
        "-" => Some(None),
        "e" => Some(Some(vec![])),
        _ => units(s).map(Some),
    }
}

fn parse_op(t: &str) -> Option<Op> {
    let p: Vec<&str> = t.split(':').collect();
    Some(match p.as_slice() {
        ["BT"] => Op::BT,
        ["ET"] => Op::ET,
        ["q"] => Op::Q_,
        ["Q"] => Op::Qq,
        ["T*"] => Op::TStar,
        ["EMC"] => Op::EMC,
        ["Tf", f, s] => Op::Tf(f.parse().ok()?, num(s)?),
        ["Td", x, y] => Op::Td(num(x)?, num(y)?),
        ["TD", x, y] => Op::TD(num(x)?, num(y)?),
        ["Tm", m] => Op::Tm(six(m)?),
        ["cm", m] => Op::Cm(six(m)?),
        ["Tc", n] => Op::Num1("Tc", num(n)?),
        ["Tw", n] => Op::Num1("Tw", num(n)?),
        ["Tz", n] => Op::Num1("Tz", num(n)?),
        ["TL", n] => Op::Num1("TL", num(n)?),
        ["Ts", n] => Op::Num1("Ts", num(n)?),
        ["Tr", n] => {
            let _: u8 = n.parse().ok()?;
            Op::Num1("Tr", n.to_string())
        }
        ["Tj", h] => Op::Tj(unhex(h)?),
        ["Tq", h] => Op::Quote(unhex(h)?),
        ["Tqq", aw, ac, h] => Op::DQuote(num(aw)?, num(ac)?, unhex(h)?),
        ["TJ", items] => {
            let mut v = vec![];
            if !items.is_empty() {
                for it in items.split(';') {
                    if let Some(h) = it.strip_prefix('h') {
                        v.push(TjItem::Str(unhex(h)?));
                    } else if let Some(n) = it.strip_prefix('n') {
                        v.push(TjItem::Num(num(n)?));
                    } else {
                        return None;
                    }
                }
            }
            Op::TJ(v)
        }
        ["Do", x] => Op::Do(x.parse().ok()?),
        ["BMC", tag] if tag_ok(tag) => Op::BMC(tag.to_string()),
        ["BDC", tag, mcid, at] | ["BDR", tag, mcid, at] if tag_ok(tag) => {
            let m = if *mcid == "-" { None } else { Some(mcid.parse::<u32>().ok()?) };
            let a = at_field(at)?;
            if p[0] == "BDC" {
                Op::BDC(tag.to_string(), m, a)
            } else {
                Op::BDR(tag.to_string(), m, a)
            }
        }
        _ => return None,
    })
}

fn parse_font(t: &str) -> Option<FontSpec> {
    if let Some(k) = t.strip_prefix('s') {
        let k: usize = k.parse().ok()?;
        if k >= 14 {
            return None;
        }
        return Some(FontSpec::Simple(k));
    }
    let r = t.strip_prefix('t')?;
    let p: Vec<&str> = r.split('.').collect();
    if p.len() != 3 {
        return None;
    }
    let base = u32::from_str_radix(p[0], 16).ok()?;
    let n: u32 = p[1].parse().ok()?;
    if base > 0xFFFF || n > 0xFFFF {
        return None;
    }
    let mut extras = vec![];
    if p[2] != "-" {
        for e in p[2].split('+') {
            let (c, u) = e.split_once('=')?;
            let c = u16::from_str_radix(c, 16).ok()?;
            extras.push((c, units(u)?));
        }
    }
    Some(FontSpec::Type0 { base, n, extras })
}

fn parse_stream(t: &str) -> Option<Stream> {
    let p: Vec<&str> = t.splitn(4, '/').collect();
    if p.len() != 4 {
        return None;
    }
    let matrix = if p[2] == "-" { None } else { Some(six(p[2])?) };
    let ops = if p[3] == "-" {
        vec![]
    } else {
        p[3].split(',').map(parse_op).collect::<Option<Vec<_>>>()?
    };
    Some(Stream { fmap: idx_list(p[0])?, xmap: idx_list(p[1])?, matrix, ops })
}

pub fn parse_request(req: &str) -> Option<Program> {
    let f: Vec<&str> = req.split(' ').collect();
    if f.len() < 4 || f[0] != "c11" {
        return None;
    }
    let o: Vec<&str> = f[1].split(':').collect();
    if o.len() != 5 || o[0] != "o" || o[1].len() != 8 {
        return None;
    }
    let bits: Vec<bool> = o[1].bytes().map(|b| b == b'1').collect();
    if !o[1].bytes().all(|b| b == b'0' || b == b'1') {
        return None;
    }
    let opts = Opts {
        pl: bits[0],
        sp: bits[1],
        dc: bits[2],
        mh: bits[3],
        rp: bits[4],
        ia: bits[5],
        rc: bits[6],
        ro: bits[7],
        cr: o[2].parse().ok().filter(|c| *c <= 2)?,
        thr: o[3].parse().ok().filter(|c| *c <= 2)?,
        max: if o[4] == "-" { None } else { Some(o[4].parse().ok()?) },
    };
    let fonts = if f[2] == "-" {
        vec![]
    } else {
        f[2].split(';').map(parse_font).collect::<Option<Vec<_>>>()?
    };
    let streams = f[3..].iter().map(|s| parse_stream(s)).collect::<Option<Vec<_>>>()?;
    // every index must be in range (the Lean side rejects the same way)
    for s in &streams {
        if s.fmap.iter().any(|&g| g >= fonts.len()) {
            return None;
        }
        if s.xmap.iter().any(|&x| x == 0 || x >= streams.len()) {
            return None;
        }
    }
    Some(Program { opts, fonts, streams })
}

// ---------------------------------------------------------------------------------------------
// content streams
// ---------------------------------------------------------------------------------------------

/// A string operand: literal `( … )` with escapes when the length is odd, hex `< … >` otherwise —
/// a fixed function of the bytes so that a request always yields the same file.
fn write_string(out: &mut Vec<u8>, s: &[u8]) {
    if s.len() % 2 == 1 {
        out.push(b'(');
        for &b in s {
            match b {
                b'(' | b')' | b'\\' => {
                    out.push(b'\\');
                    out.push(b);
                }
                b'\n' => out.extend_from_slice(b"\\n"),
                b'\r' => out.extend_from_slice(b"\\r"),
                b'\t' => out.extend_from_slice(b"\\t"),
                0x08 => out.extend_from_slice(b"\\b"),
                0x0C => out.extend_from_slice(b"\\f"),
                0x20..=0x7E => out.push(b),
                _ => out.extend_from_slice(format!("\\{:03o}", b).as_bytes()),
            }
        }
        out.push(b')');
    } else {
        out.push(b'<');
        for &b in s {
            out.extend_from_slice(format!("{:02X}", b).as_bytes());
        }
        out.push(b'>');
    }
}

fn utf16_hex_with_bom(u: &[u16]) -> String {
    let mut s = String::from("<FEFF");
    for x in u {
        s.push_str(&format!("{:04X}", x));
    }
    s.push('>');
    s
}

fn props_dict(mcid: &Option<u32>, at: &Option<Vec<u16>>) -> String {
    let mut d = String::from("<<");
    if let Some(m) = mcid {
        d.push_str(&format!(" /MCID {}", m));
    }
    if let Some(a) = at {
        d.push_str(&format!(" /ActualText {}", utf16_hex_with_bom(a)));
    }
    d.push_str(" >>");
    d
}

/// Returns the content bytes and the `/Properties` entries the stream needs.
pub fn content_bytes(ops: &[Op]) -> (Vec<u8>, Vec<String>) {
    let mut o: Vec<u8> = Vec::new();
    let mut props: Vec<String> = Vec::new();
    for op in ops {
        match op {
            Op::BT => o.extend_from_slice(b"BT"),
            Op::ET => o.extend_from_slice(b"ET"),
            Op::Q_ => o.extend_from_slice(b"q"),
            Op::Qq => o.extend_from_slice(b"Q"),
            Op::TStar => o.extend_from_slice(b"T*"),
            Op::EMC => o.extend_from_slice(b"EMC"),
            Op::Tf(f, s) => o.extend_from_slice(format!("/F{} {} Tf", f, s).as_bytes()),
            Op::Td(x, y) => o.extend_from_slice(format!("{} {} Td", x, y).as_bytes()),
            Op::TD(x, y) => o.extend_from_slice(format!("{} {} TD", x, y).as_bytes()),
            Op::Tm(m) => o.extend_from_slice(format!("{} Tm", m.join(" ")).as_bytes()),
            Op::Cm(m) => o.extend_from_slice(format!("{} cm", m.join(" ")).as_bytes()),
            Op::Num1(name, n) => o.extend_from_slice(format!("{} {}", n, name).as_bytes()),
            Op::Tj(s) => {
                write_string(&mut o, s);
                o.extend_from_slice(b" Tj");
            }
            Op::Quote(s) => {
                write_string(&mut o, s);
                o.extend_from_slice(b" '");
            }
            Op::DQuote(aw, ac, s) => {
                o.extend_from_slice(format!("{} {} ", aw, ac).as_bytes());
                write_string(&mut o, s);
                o.extend_from_slice(b" \"");
            }
            Op::TJ(items) => {
                o.push(b'[');
                for (i, it) in items.iter().enumerate() {
                    if i > 0 {
                        o.push(b' ');
                    }
                    match it {
                        TjItem::Str(s) => write_string(&mut o, s),
                        TjItem::Num(n) => o.extend_from_slice(n.as_bytes()),
                    }
                }
                o.extend_from_slice(b"] TJ");
            }
            Op::Do(x) => o.extend_from_slice(format!("/X{} Do", x).as_bytes()),
            Op::BMC(tag) => o.extend_from_slice(format!("/{} BMC", tag).as_bytes()),
            Op::BDC(tag, mcid, at) => {
                o.extend_from_slice(format!("/{} {} BDC", tag, props_dict(mcid, at)).as_bytes())
            }
            Op::BDR(tag, mcid, at) => {
                let k = props.len();
                props.push(props_dict(mcid, at));
                o.extend_from_slice(format!("/{} /MC{} BDC", tag, k).as_bytes());
            }
        }
        o.push(b'\n');
    }
    (o, props)
}

// ---------------------------------------------------------------------------------------------
// file
// ---------------------------------------------------------------------------------------------

fn tounicode_cmap(base: u32, n: u32, extras: &[(u16, Vec<u16>)]) -> Vec<u8> {
    let mut s = String::new();
    s.push_str("/CIDInit /ProcSet findresource begin\n12 dict begin\nbegincmap\n");
    s.push_str("/CIDSystemInfo << /Registry (Adobe) /Ordering (UCS) /Supplement 0 >> def\n");
    s.push_str("/CMapName /Adobe-Identity-UCS def\n/CMapType 2 def\n");
    s.push_str("1 begincodespacerange\n<0000> <FFFF>\nendcodespacerange\n");
    if n >= 1 {
        // bfrange sources must not cross a high-byte boundary (ISO 32000-1 §9.10.3): split
        let mut lo: u32 = 1;
        let mut parts: Vec<(u32, u32)> = vec![];
        while lo <= n {
            let hi = n.min(lo | 0xFF);
            parts.push((lo, hi));
            lo = hi + 1;
        }
        s.push_str(&format!("{} beginbfrange\n", parts.len()));
        for (a, b) in parts {
            s.push_str(&format!("<{:04X}> <{:04X}> <{:04X}>\n", a, b, (base + (a - 1)) & 0xFFFF));
        }
        s.push_str("endbfrange\n");
    }
    if !extras.is_empty() {
        s.push_str(&format!("{} beginbfchar\n", extras.len()));
        for (c, u) in extras {
            let mut d = String::new();
            for x in u {
                d.push_str(&format!("{:04X}", x));
            }
            s.push_str(&format!("<{:04X}> <{}>\n", c, d));
        }
        s.push_str("endbfchar\n");
    }
    s.push_str("endcmap\nCMapName currentdict /CMap defineresource pop\nend\nend\n");
    s.into_bytes()
}

fn stream_obj(dict_extra: &str, data: &[u8], compress: bool) -> Vec<u8> {
    let mut o: Vec<u8> = Vec::new();
    if compress {
        // stored blocks for long data: the deflate encoder is very slow in the unoptimised profile
        let level = if data.len() <= 200 { flate2::Compression::fast() } else { flate2::Compression::none() };
        let mut e = flate2::write::ZlibEncoder::new(Vec::new(), level);
        e.write_all(data).unwrap();
        let z = e.finish().unwrap();
        o.extend_from_slice(format!("<< {} /Filter /FlateDecode /Length {} >>\nstream\n", dict_extra, z.len()).as_bytes());
        o.extend_from_slice(&z);
    } else {
        o.extend_from_slice(format!("<< {} /Length {} >>\nstream\n", dict_extra, data.len()).as_bytes());
        o.extend_from_slice(data);
    }
    o.extend_from_slice(b"\nendstream");
    o
}

/// Build the PDF.  Object numbering: 1 catalog, 2 pages, 3 page, 4 page resources, 5 page content,
/// then per font (1–3 objects), then one object per form.
pub fn build_pdf(p: &Program) -> Vec<u8> {
    let mut objs: Vec<Vec<u8>> = Vec::new(); // objs[i] = body of object i+1
    for _ in 0..5 {
        objs.push(Vec::new());
    }
    // fonts
    let mut font_obj: Vec<usize> = Vec::new();
    for (i, f) in p.fonts.iter().enumerate() {
        match f {
            FontSpec::Simple(k) => {
                objs.push(
                    format!(
                        "<< /Type /Font /Subtype /Type1 /BaseFont /{} /Encoding /WinAnsiEncoding >>",
                        STD14[*k]
                    )
                    .into_bytes(),
                );
                font_obj.push(objs.len());
            }
            FontSpec::Type0 { base, n, extras } => {
                let t0 = objs.len() + 1;
                let name = format!("VERIF{}+Gen", (b'A' + (i % 26) as u8) as char);
                objs.push(
                    format!(
                        "<< /Type /Font /Subtype /Type0 /BaseFont /{} /Encoding /Identity-H /DescendantFonts [ {} 0 R ] /ToUnicode {} 0 R >>",
                        name, t0 + 1, t0 + 2
                    )
                    .into_bytes(),
                );
                objs.push(
                    format!(
                        "<< /Type /Font /Subtype /CIDFontType2 /BaseFont /{} /CIDSystemInfo << /Registry (Adobe) /Ordering (Identity) /Supplement 0 >> /DW 500 /CIDToGIDMap /Identity >>",
                        name
                    )
                    .into_bytes(),
                );
                objs.push(stream_obj("", &tounicode_cmap(*base, *n, extras), i % 2 == 1));
                font_obj.push(t0);
            }
        }
    }
    // forms
    let first_form = objs.len() + 1;
    let stream_obj_no = |j: usize| -> usize { if j == 0 { 5 } else { first_form + (j - 1) } };
    let resources = |s: &Stream, props: &[String]| -> String {
        let mut r = String::from("<<");
        if !s.fmap.is_empty() {
            r.push_str(" /Font <<");
            for (name, g) in s.fmap.iter().enumerate() {
                r.push_str(&format!(" /F{} {} 0 R", name, font_obj[*g]));
            }
            r.push_str(" >>");
        }
        if !s.xmap.is_empty() {
            r.push_str(" /XObject <<");
            for (name, x) in s.xmap.iter().enumerate() {
                r.push_str(&format!(" /X{} {} 0 R", name, stream_obj_no(*x)));
            }
            r.push_str(" >>");
        }
        if !props.is_empty() {
            r.push_str(" /Properties <<");
            for (k, d) in props.iter().enumerate() {
                r.push_str(&format!(" /MC{} {}", k, d));
            }
            r.push_str(" >>");
        }
        r.push_str(" >>");
        r
    };
    for (j, s) in p.streams.iter().enumerate().skip(1) {
        let (data, props) = content_bytes(&s.ops);
        let mut d = String::from("/Type /XObject /Subtype /Form /BBox [ 0 0 612 792 ]");
        if let Some(m) = &s.matrix {
            d.push_str(&format!(" /Matrix [ {} ]", m.join(" ")));
        }
        d.push_str(&format!(" /Resources {}", resources(s, &props)));
        objs.push(stream_obj(&d, &data, j % 2 == 0));
    }
    // page
    let (data0, props0) = content_bytes(&p.streams[0].ops);
    let res0 = resources(&p.streams[0], &props0);
    objs[0] = b"<< /Type /Catalog /Pages 2 0 R >>".to_vec();
    objs[1] = b"<< /Type /Pages /Kids [ 3 0 R ] /Count 1 >>".to_vec();
    // the resources are indirect when the number of fonts is even, direct otherwise
    let indirect_res = p.fonts.len() % 2 == 0;
    objs[2] = format!(
        "<< /Type /Page /Parent 2 0 R /MediaBox [ 0 0 612 792 ] /Resources {} /Contents 5 0 R >>",
        if indirect_res { "4 0 R".to_string() } else { res0.clone() }
    )
    .into_bytes();
    objs[3] = res0.into_bytes();
    objs[4] = stream_obj("", &data0, p.streams.len() % 2 == 0);

    let mut out: Vec<u8> = Vec::new();
    out.extend_from_slice(b"%PDF-1.7\n%\xE2\xE3\xCF\xD3\n");
    let mut offsets = Vec::with_capacity(objs.len());
    for (i, body) in objs.iter().enumerate() {
        offsets.push(out.len());
        out.extend_from_slice(format!("{} 0 obj\n", i + 1).as_bytes());
        out.extend_from_slice(body);
        out.extend_from_slice(b"\nendobj\n");
    }
    let xref = out.len();
    out.extend_from_slice(format!("xref\n0 {}\n", objs.len() + 1).as_bytes());
    out.extend_from_slice(b"0000000000 65535 f \n");
    for off in offsets {
        out.extend_from_slice(format!("{:010} 00000 n \n", off).as_bytes());
    }
    out.extend_from_slice(
        format!("trailer\n<< /Size {} /Root 1 0 R >>\nstartxref\n{}\n%%EOF\n", objs.len() + 1, xref).as_bytes(),
    );
    out
}
