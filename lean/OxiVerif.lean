-- Root of the `OxiVerif` library. The library target uses the glob `OxiVerif.+`,
-- so every module under OxiVerif/ is built by `lake build`.
import OxiVerif.Base.Driver
