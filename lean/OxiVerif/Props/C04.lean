import OxiVerif.Lemmas.C04
set_option linter.unusedSimpArgs false
/-!
# C04 — the newest revision of an object always wins

`chain` is the list of cross-reference sections as the reader walks them: newest first (the
section `startxref` points at, then its `/Prev`, …).  `newest chain n` is ISO 32000-1 §7.5.6: the
entry for `n` in the first section that mentions `n`.  `(merge chain).lookup n` is what the
reader dispatches on (`parse_with_incremental_updates_options` + the order of the two look-ups in
`load_object_from_disk`).  All statements hold for every chain (any length, any mix of classic and
stream sections, any numbers) — there is no bound.

/- FULL (the property as stated; FALSE of the current code, see `C04_witness_*`):

   theorem C04_newest_wins (chain : List Sect) (n : Nat) :
       (merge chain).lookup n = newest chain n

   theorem C04_load_agrees_with_spec (chain : List Sect) (ph : List Phys) (fuel n g : Nat) :
       Agree (load (merge chain) ph fuel n g) (specResolve chain ph fuel n g)
-/
-/
namespace OxiVerif.C04

/-- Exact behaviour of the code, for every chain: a compressed entry for `n` in ANY section (the
    newest such) wins over everything; only without one does the newest mention decide. -/
theorem C04_lookup_exact (chain : List Sect) (n : Nat) :
    (merge chain).lookup n =
      match firstComp chain n with
      | some (a, b) => some (.comp a b)
      | none => newest chain n := by
  unfold Table.lookup
  rw [merge_ext, merge_entries]
  cases hc : firstComp chain n with
  | some c => rfl
  | none =>
    simp only
    -- without a compressed entry anywhere, the newest mention is not compressed
    have hnc : ∀ a b, newest chain n ≠ some (.comp a b) := by
      intro a b
      induction chain with
      | nil => simp [newest]
      | cons s r ih =>
        simp only [firstComp] at hc
        simp only [newest]
        cases hl : lastOf s n with
        | some e =>
          cases e with
          | comp x y => rw [lastComp_of_lastOf_comp s n x y hl] at hc; simp at hc
          | free x y => simp
          | inuse x y => simp
        | none =>
          rw [lastComp_none_of_lastOf_none s n hl] at hc
          exact ih hc
    cases hn : newest chain n with
    | none => rfl
    | some e =>
      cases e with
      | free x y => simp [toBasic]
      | inuse x y => simp [toBasic]
      | comp x y => exact absurd hn (hnc x y)

example : (merge [[(5, .inuse 9 0)], [(5, .comp 7 0), (7, .inuse 1 0)]]).lookup 5 = some (.comp 7 0) := by
  decide

/-- **Newest wins (partial).**  For every chain and number without a kind flip (no section at or
    below the newest plain mention of `n` holds a compressed entry for `n`), the reader dispatches
    on exactly the entry §7.5.6 prescribes.  What is missing w.r.t. FULL: chains where an older
    section stored `n` in an object stream and a newer one redefines or frees it as a plain entry. -/
theorem C04_newest_wins_partial (chain : List Sect) (n : Nat) (h : NoKindFlip chain n) :
    (merge chain).lookup n = newest chain n := by
  rw [C04_lookup_exact]; exact firstComp_of_noKindFlip chain n h

-- non-vacuity: three revisions, object 5 redefined twice (plain), object 6 moved INTO an object
-- stream by the newest revision, object 4 freed
example : NoKindFlip [[(6, .comp 9 0), (9, .inuse 40 0), (4, .free 0 1)], [(5, .inuse 30 0)],
    [(4, .inuse 10 0), (5, .inuse 20 0), (6, .inuse 25 0)]] 6 := by decide
example : (merge [[(6, .comp 9 0), (9, .inuse 40 0), (4, .free 0 1)], [(5, .inuse 30 0)],
    [(4, .inuse 10 0), (5, .inuse 20 0), (6, .inuse 25 0)]]).lookup 4 = some (.free 0 1) := by decide

/-- The FULL statement is false of the code: base stores object 5 in object stream 7, an appended
    revision redefines 5 as a plain object — the reader still dispatches to the compressed copy. -/
theorem C04_witness_stale_compressed :
    ¬ (∀ (chain : List Sect) (n : Nat), (merge chain).lookup n = newest chain n) := by
  intro h
  have := h [[(5, .inuse 9 0)], [(5, .comp 7 0), (7, .inuse 1 0)]] 5
  revert this
  decide

/-- … and an object freed by the appended revision still resolves to the compressed copy. -/
theorem C04_witness_freed_still_resolves :
    (merge [[(5, .free 0 1)], [(5, .comp 7 0), (7, .inuse 1 0)]]).lookup 5 = some (.comp 7 0) ∧
    newest [[(5, .free 0 1)], [(5, .comp 7 0), (7, .inuse 1 0)]] 5 = some (.free 0 1) := by
  decide

/-- **History form.**  Appending a revision `rev` to a history `h`: a number the revision
    mentions resolves to the revision's entry, every other number resolves as before. -/
theorem C04_append_revision_partial (rev : Sect) (h : List Sect) (n : Nat)
    (hk : NoKindFlip (rev :: h) n) :
    (merge (rev :: h)).lookup n =
      match lastOf rev n with
      | some e => some e
      | none => (merge h).lookup n := by
  rw [C04_newest_wins_partial _ _ hk]
  simp only [newest]
  cases hl : lastOf rev n with
  | some e => rfl
  | none =>
    simp only
    unfold NoKindFlip at hk
    rw [hl] at hk
    exact (C04_newest_wins_partial h n hk).symm

example : NoKindFlip ([(3, .free 0 1)] :: [[(3, .inuse 4 0), (2, .inuse 1 0)]]) 2 := by decide

/-- Histories that never use object streams satisfy the hypothesis for every number:
    for them the FULL statement holds. -/
theorem C04_newest_wins_without_object_streams (chain : List Sect) (n : Nat)
    (hc : ∀ s ∈ chain, ∀ p ∈ s, ∀ a b, p.2 ≠ Ent.comp a b) :
    (merge chain).lookup n = newest chain n := by
  rw [C04_lookup_exact]
  have : firstComp chain n = none := by
    induction chain with
    | nil => rfl
    | cons s r ih =>
      have hs : lastComp s n = none := by
        have hs' := hc s (List.mem_cons_self ..)
        clear ih hc
        induction s with
        | nil => rfl
        | cons p q ihq =>
          obtain ⟨k, e⟩ := p
          have hq := ihq (fun p hp => hs' p (List.mem_cons_of_mem _ hp))
          have he := hs' (k, e) (List.mem_cons_self ..)
          simp only [lastComp, hq]
          cases e with
          | comp a b => exact absurd rfl (he a b)
          | free a b => simp
          | inuse a b => simp
      simp only [firstComp, hs]
      exact ih (fun s hs => hc s (List.mem_cons_of_mem _ hs))
  rw [this]

example : ∀ s ∈ [[(3, Ent.free 0 1)], [(3, Ent.inuse 4 0)]], ∀ p ∈ s, ∀ a b, p.2 ≠ Ent.comp a b := by
  intro s hs p hp a b
  simp only [List.mem_cons, List.not_mem_nil, or_false] at hs
  rcases hs with rfl | rfl <;> simp only [List.mem_cons, List.not_mem_nil, or_false] at hp <;>
    subst hp <;> simp

/-! ### recovery scan: the latest header wins -/

/-- `add_headers_latest_wins` on an empty table (`parse_with_recovery_options`): object `n`
    resolves to the LAST scanned header with number `n`. -/
theorem C04_recovery_latest_wins (hs : List Header) (n : Nat) (ce : Bool) :
    (addHeadersLatestWins Table.empty hs ce).entries n =
      ((hs.filter (fun h => h.num = n)).getLast?).map (fun h => ⟨h.off, h.gen, true⟩) := by
  simp only [addHeadersLatestWins, latestOf_eq, Table.empty, Map.empty]
  cases (hs.filter (fun h => h.num = n)).getLast? <;> simp

/-- … hence after appending a revision's objects `new` to the scanned `old` ones, a number
    defined in `new` resolves to its last definition there, any other number as before. -/
theorem C04_recovery_append (old new : List Header) (n : Nat) (ce : Bool) :
    (addHeadersLatestWins Table.empty (old ++ new) ce).entries n =
      match (addHeadersLatestWins Table.empty new ce).entries n with
      | some b => some b
      | none => (addHeadersLatestWins Table.empty old ce).entries n := by
  simp only [C04_recovery_latest_wins, List.filter_append]
  cases hn : new.filter (fun h => h.num = n) with
  | nil => simp
  | cons a l =>
    have : (List.filter (fun h => decide (h.num = n)) old ++ a :: l).getLast? = (a :: l).getLast? := by
      rw [List.getLast?_append]
      simp [List.getLast?_cons]
    rw [this]
    simp [List.getLast?_cons]

example : (addHeadersLatestWins Table.empty [⟨3, 0, 10⟩, ⟨4, 0, 20⟩, ⟨3, 0, 30⟩] false).entries 3
    = some ⟨30, 0, true⟩ := by decide

/-- a table already resolved from a valid xref is never overridden by scanned headers
    (`scan_and_fill_missing_objects`, `check_extended = true`) -/
theorem C04_fill_preserves_resolved (t : Table) (hs : List Header) (n : Nat)
    (h : (t.entries n).isSome ∨ (t.ext n).isSome) :
    (addHeadersLatestWins t hs true).lookup n = t.lookup n := by
  unfold Table.lookup addHeadersLatestWins
  simp only
  cases he : t.ext n with
  | some c => rfl
  | none =>
    simp only [he, Option.isSome_none, Bool.and_false, Bool.or_false] at h ⊢
    have h' : (t.entries n).isSome = true := by simpa using h
    cases latestOf hs n <;> simp [h']

example : ((fun _ => some ⟨1, 0, true⟩ : Map Basic) 3).isSome ∨ ((Map.empty : Map (Nat × Nat)) 3).isSome := by
  simp

/-! ### from the dispatch to the resolved value -/

/-- the implementation's answer meets the specification's (the specification is silent on
    numbers no section mentions, on references with a stale generation and on ill-formed plans) -/
def Agree : Res → SRes → Prop
  | r, .null => r = .null
  | r, .val v => r = .val v
  | r, .stream it => r = .stream it
  | _, .absent => True
  | _, .genMismatch => True
  | _, .illformed => True

/-- **Resolution (partial).**  If no number has a kind flip, `load` on the merged table returns,
    for every object and every nesting depth, the value the newest definition prescribes:
    Null for a freed object, the plain object at the entry's offset, or the slot of the object
    stream the newest compressed entry names. -/
theorem C04_load_agrees_with_spec_partial (chain : List Sect) (ph : List Phys)
    (hk : ∀ m, NoKindFlip chain m) (fuel n g : Nat) :
    Agree (load (merge chain) ph fuel n g) (specResolve chain ph fuel n g) := by
  induction fuel generalizing n g with
  | zero => simp [specResolve, Agree]
  | succ f ih =>
    have hl := C04_newest_wins_partial chain n (hk n)
    unfold Table.lookup at hl
    unfold load specResolve
    cases hn : newest chain n with
    | none =>
      simp [Agree]
    | some e =>
      rw [hn] at hl
      cases e with
      | free a b =>
        cases he : (merge chain).ext n with
        | some c => obtain ⟨c1, c2⟩ := c; simp [he] at hl
        | none =>
          simp only [he] at hl
          cases hb : (merge chain).entries n with
          | none => simp [hb] at hl
          | some bs =>
            simp only [hb, Option.some.injEq] at hl
            have : bs.inUse = false := by
              cases hi : bs.inUse
              · rfl
              · simp [hi] at hl
            simp [this, Agree]
      | inuse a b =>
        cases he : (merge chain).ext n with
        | some c => obtain ⟨c1, c2⟩ := c; simp [he] at hl
        | none =>
          simp only [he] at hl
          cases hb : (merge chain).entries n with
          | none => simp [hb] at hl
          | some bs =>
            simp only [hb, Option.some.injEq] at hl
            have hu : bs.inUse = true ∧ bs.off = a ∧ bs.gen = b := by
              cases hi : bs.inUse
              · simp [hi] at hl
              · simpa [hi] using hl
            obtain ⟨hu1, hu2, hu3⟩ := hu
            simp only [hu1, hu2, hu3, Bool.not_true, Bool.false_eq_true, if_false]
            by_cases hg : b = g
            · simp only [hg, ne_eq, not_true_eq_false, if_false]
              cases hp : ph[a]? with
              | none => simp [Agree]
              | some p =>
                by_cases hnum : p.num = n
                · simp only [hnum, ne_eq, not_true_eq_false, if_false]
                  cases hbody : p.body <;> simp [bodyRes, Agree]
                · simp [hnum, Agree]
            · simp [hg, Agree]
      | comp a b =>
        cases he : (merge chain).ext n with
        | none =>
          simp only [he] at hl
          cases hb : (merge chain).entries n with
          | none => simp [hb] at hl
          | some bs => simp only [hb, Option.some.injEq] at hl; split at hl <;> simp at hl
        | some c =>
          obtain ⟨c1, c2⟩ := c
          simp only [he, Option.some.injEq, Ent.comp.injEq] at hl
          obtain ⟨h1, h2⟩ := hl
          subst h1; subst h2
          simp only
          have ih' := ih c1 0
          cases hs : specResolve chain ph f c1 0 with
          | stream it =>
            rw [hs] at ih'
            simp only [Agree] at ih'
            rw [ih']
            cases it with
            | none => simp [Agree]
            | some items =>
              simp only
              cases hi : items[c2]? with
              | none => simp [Agree]
              | some mv =>
                obtain ⟨m, v⟩ := mv
                simp only
                by_cases hc : m = n ∧ lookupLast items n = some v
                · simp [hc, Agree]
                · simp [hc, Agree]
          | null => simp [Agree]
          | val v => simp [Agree]
          | absent => simp [Agree]
          | genMismatch => simp [Agree]
          | illformed => simp [Agree]

-- non-vacuity: a two-revision history with an object stream in the base, the appended revision
-- redefines the plain object 3 and adds 6; every number satisfies the hypothesis and the
-- theorem's conclusion is a real equation
example :
    let chain : List Sect := [[(3, .inuse 3 0), (6, .inuse 4 0)],
                              [(1, .comp 5 0), (2, .comp 5 1), (3, .inuse 0 0), (5, .inuse 1 0)]]
    (∀ m, m < 8 → NoKindFlip chain m) ∧
    specResolve chain [⟨3, 0, .val 10⟩, ⟨5, 0, .objstm [(1, 11), (2, 12)]⟩, ⟨9, 0, .xrefstm⟩,
      ⟨3, 0, .val 13⟩, ⟨6, 0, .val 14⟩] 4 2 0 = .val 12 := by
  decide

end OxiVerif.C04
