import OxiVerif.Lemmas.C04
set_option linter.unusedSimpArgs false
/-!
# C04 — the newest revision of an object always wins

`chain` is the list of cross-reference sections as the reader walks them: newest first (the
section `startxref` points at, then its `/Prev`, …).  `newest chain n` is ISO 32000-1 §7.5.6: the
entry for `n` in the first section that mentions `n`.  `(merge chain).lookup n` is what the
reader dispatches on (`parse_with_incremental_updates_options` + the order of the two look-ups in
`load_object_from_disk`).  All statements hold for every chain (any length, any mix of classic and
stream sections, any numbers, objects inside object streams or not) — there is no bound.

The only hypothesis left is about the FILE, not about where objects live: a section lists a
number at most once (`ListedOnce`, ISO 32000-1 §7.5.4).  `mergeOld` is the merge before /repo's
`fix:` commit for C04-F1; the `…_old` witnesses state the regression the check must catch.
-/
namespace OxiVerif.C04

/-- what one section's own table dispatches on (`parse_primary_with_options` + the look-up order):
    its last compressed entry for `n` if it has one, else its last entry for `n` -/
theorem secTable_lookup (s : Sect) (n : Nat) :
    (secTable s).lookup n =
      match lastComp s n with
      | some (a, b) => some (.comp a b)
      | none => lastOf s n := by
  unfold Table.lookup
  rw [secTable_ext, secTable_entries]
  cases hc : lastComp s n with
  | some c => rfl
  | none =>
    cases hl : lastOf s n with
    | none => rfl
    | some e =>
      cases e with
      | free x y => simp [toBasic]
      | inuse x y => simp [toBasic]
      | comp x y => rw [lastComp_of_lastOf_comp s n x y hl] at hc; simp at hc

/-- Exact behaviour of the code, for EVERY chain (valid or not): the merged table dispatches on
    object `n` exactly like the table of the newest section that mentions `n` — no older section
    has any influence, whatever kind of entry it holds. -/
theorem C04_lookup_exact (chain : List Sect) (n : Nat) :
    (merge chain).lookup n =
      match newestSect chain n with
      | some s => (secTable s).lookup n
      | none => none := by
  have key : ∀ chain : List Sect, (merge chain).lookup n =
      match extOf chain n with
      | some (a, b) => some (.comp a b)
      | none => newest chain n := by
    intro chain
    unfold Table.lookup
    rw [merge_ext, merge_entries]
    cases hc : extOf chain n with
    | some c => rfl
    | none =>
      simp only
      cases hn : newest chain n with
      | none => rfl
      | some e =>
        cases e with
        | free x y => simp [toBasic]
        | inuse x y => simp [toBasic]
        | comp x y =>
          -- the newest mention is compressed: then `extOf` is not `none`
          exfalso
          induction chain with
          | nil => simp [newest] at hn
          | cons s r ih =>
            simp only [extOf] at hc
            simp only [newest] at hn
            cases hl : lastOf s n with
            | some e =>
              rw [hl] at hn hc
              simp only [Option.some.injEq] at hn
              subst hn
              rw [lastComp_of_lastOf_comp s n x y hl] at hc
              simp at hc
            | none =>
              rw [hl] at hn hc
              exact ih hc hn
  rw [key]
  induction chain with
  | nil => rfl
  | cons s r ih =>
    simp only [extOf, newest, newestSect]
    cases hl : lastOf s n with
    | none => simpa using ih
    | some e =>
      simp only [secTable_lookup]
      cases hc : lastComp s n with
      | some c => rfl
      | none => simp [hl]

example : (merge [[(5, .inuse 9 0)], [(5, .comp 7 0), (7, .inuse 1 0)]]).lookup 5 = some (.inuse 9 0) := by
  decide

/-- **Newest wins.**  For every chain of sections and every number listed at most once per
    section, the reader dispatches on exactly the entry §7.5.6 prescribes — whether the older or
    the newer definition lives in an object stream, whether the newer revision redefines or
    frees. -/
theorem C04_newest_wins (chain : List Sect) (n : Nat) (hd : ∀ s ∈ chain, ListedOnce s n) :
    (merge chain).lookup n = newest chain n := by
  unfold Table.lookup
  rw [merge_ext, merge_entries, extOf_of_listedOnce chain n hd]
  cases hn : newest chain n with
  | none => rfl
  | some e => cases e <;> simp [toBasic]

-- non-vacuity: three revisions; object 5 stored in object stream 9 by the base, redefined plain
-- by revision 1; object 6 moved INTO an object stream by the newest revision; object 4 compressed
-- in the base and freed by the newest revision
example :
    let chain : List Sect :=
      [[(6, .comp 12 0), (12, .inuse 40 0), (4, .free 0 1)], [(5, .inuse 30 0)],
       [(4, .comp 9 0), (5, .comp 9 1), (6, .inuse 25 0), (9, .inuse 1 0)]]
    (∀ s ∈ chain, ∀ m, ListedOnce s m) ∧
    (merge chain).lookup 4 = some (.free 0 1) ∧ (merge chain).lookup 5 = some (.inuse 30 0) ∧
    (merge chain).lookup 6 = some (.comp 12 0) := by
  refine ⟨?_, by decide, by decide, by decide⟩
  intro s hs m
  exact listedOnce_of_nodup s (by
    simp only [List.mem_cons, List.not_mem_nil, or_false] at hs
    rcases hs with rfl | rfl | rfl <;> decide) m

/-- **Regression (the merge before the repair).**  With both maps merged independently the
    statement is false: base stores object 5 in object stream 7, an appended revision redefines 5
    as a plain object — the old reader still dispatched to the compressed copy. -/
theorem C04_witness_stale_compressed_old :
    ¬ (∀ (chain : List Sect) (n : Nat), (∀ s ∈ chain, ListedOnce s n) →
        (mergeOld chain).lookup n = newest chain n) := by
  intro h
  have := h [[(5, .inuse 9 0)], [(5, .comp 7 0), (7, .inuse 1 0)]] 5 (by decide)
  revert this
  decide

/-- … and an object freed by the appended revision still resolved to the compressed copy;
    the repaired merge gives the free entry. -/
theorem C04_witness_freed_still_resolves_old :
    (mergeOld [[(5, .free 0 1)], [(5, .comp 7 0), (7, .inuse 1 0)]]).lookup 5 = some (.comp 7 0) ∧
    (merge [[(5, .free 0 1)], [(5, .comp 7 0), (7, .inuse 1 0)]]).lookup 5 = some (.free 0 1) ∧
    newest [[(5, .free 0 1)], [(5, .comp 7 0), (7, .inuse 1 0)]] 5 = some (.free 0 1) := by
  decide

/-- closed form of the OLD merge (what the regression looks like in general): a compressed entry
    for `n` in ANY section won over everything -/
theorem C04_lookup_exact_old (chain : List Sect) (n : Nat) :
    (mergeOld chain).lookup n =
      match firstComp chain n with
      | some (a, b) => some (.comp a b)
      | none => (newest chain n).map (fun e => match e with
          | .comp _ _ => .inuse 0 0
          | e => e) := by
  unfold Table.lookup
  rw [mergeOld_ext, mergeOld_entries]
  cases hc : firstComp chain n with
  | some c => rfl
  | none =>
    cases hn : newest chain n with
    | none => rfl
    | some e => cases e <;> simp [toBasic]

/-- a section that lists a number twice is outside the property (and outside `C04_newest_wins`):
    its own table already prefers the compressed entry to a later plain one -/
theorem C04_witness_duplicate_in_section :
    (merge [[(5, .comp 7 0), (5, .inuse 9 0)]]).lookup 5 = some (.comp 7 0) ∧
    newest [[(5, .comp 7 0), (5, .inuse 9 0)]] 5 = some (.inuse 9 0) ∧
    ¬ ListedOnce [(5, .comp 7 0), (5, .inuse 9 0)] 5 := by
  decide

/-- **History form.**  Appending a revision `rev` to a history `h`: a number the revision
    mentions resolves to the revision's entry, every other number resolves as before. -/
theorem C04_append_revision (rev : Sect) (h : List Sect) (n : Nat)
    (hd : ∀ s ∈ rev :: h, ListedOnce s n) :
    (merge (rev :: h)).lookup n =
      match lastOf rev n with
      | some e => some e
      | none => (merge h).lookup n := by
  rw [C04_newest_wins _ _ hd]
  simp only [newest]
  cases hl : lastOf rev n with
  | some e => rfl
  | none =>
    simp only
    exact (C04_newest_wins h n (fun s hs => hd s (List.mem_cons_of_mem _ hs))).symm

example : (merge ([(3, .free 0 1)] :: [[(3, .comp 4 0), (4, .inuse 1 0), (2, .inuse 1 0)]])).lookup 3
    = some (.free 0 1) := by decide

/-- **K-step history.**  `revs` = the appended revisions, newest first.  After any number of
    appended revisions, `n` resolves to the entry of the NEWEST revision that mentions it; if none
    does, as in the base history. -/
theorem C04_history (revs : List Sect) (base : List Sect) (n : Nat)
    (hd : ∀ s ∈ revs ++ base, ListedOnce s n) :
    (merge (revs ++ base)).lookup n =
      match (revs.filterMap (fun r => lastOf r n)).head? with
      | some e => some e
      | none => (merge base).lookup n := by
  rw [C04_newest_wins _ _ hd,
    C04_newest_wins base n (fun s hs => hd s (List.mem_append_right _ hs))]
  clear hd
  induction revs with
  | nil => simp
  | cons r rs ih =>
    simp only [List.cons_append, newest, List.filterMap_cons]
    cases hl : lastOf r n with
    | some e => simp
    | none => simpa using ih

example : (merge ([[(6, .inuse 2 0)], [(5, .free 0 1)], [(5, .inuse 1 0)]] ++
    [[(5, .comp 7 0), (7, .inuse 0 0)]])).lookup 5 = some (.free 0 1) := by decide

/-! ### hybrid-reference revisions (`/XRefStm`, ISO 32000-1 §7.5.8.4) -/

/-- **Hybrid revision.**  What the code makes of a classic table `tab` plus the stream `stm` its
    trailer names: an in-use entry of the table decides; otherwise the stream's entry for the
    number; otherwise what the table says (free / nothing).  Any table, any stream. -/
theorem C04_hybrid_section (tab stm : Sect) (n : Nat) :
    lastOf (hybridSectImpl tab stm) n =
      match lastOf tab n with
      | some (.inuse o g) => some (.inuse o g)
      | t =>
        match lastOf stm n with
        | some e => some e
        | none => t := by
  unfold hybridSectImpl
  rw [lastOf_append, lastOf_filter_key stm (notInuseIn tab) n]
  unfold notInuseIn
  cases ht : lastOf tab n with
  | none => cases lastOf stm n <;> simp
  | some e =>
    cases e with
    | inuse o g => simp
    | free a b => cases lastOf stm n <;> simp
    | comp a b => cases lastOf stm n <;> simp

-- table lists 2 and 3 as free (hidden objects) and 1, 4 in use; the stream holds 2 (compressed),
-- 3 (plain) and a DIFFERENT entry for 1 that must not win
example :
    let tab : Sect := [(0, .free 0 65535), (1, .inuse 0 0), (2, .free 0 65535), (3, .free 0 65535), (4, .inuse 2 0)]
    let stm : Sect := [(1, .inuse 9 0), (2, .comp 3 0), (3, .inuse 1 0)]
    (merge [hybridSectImpl tab stm]).lookup 2 = some (.comp 3 0) ∧
    (merge [hybridSectImpl tab stm]).lookup 3 = some (.inuse 1 0) ∧
    (merge [hybridSectImpl tab stm]).lookup 1 = some (.inuse 0 0) ∧
    newest [hybridSect tab stm] 2 = some (.comp 3 0) := by decide

/-- **Regression (before the `/XRefStm` repair).**  The stream was never read: hidden objects
    resolved as free. -/
theorem C04_witness_xrefstm_ignored_old :
    let tab : Sect := [(0, .free 0 65535), (1, .inuse 0 0), (2, .free 0 65535)]
    let stm : Sect := [(2, .comp 3 0), (3, .inuse 1 0)]
    (merge [hybridSectImplOld tab stm]).lookup 2 = some (.free 0 65535) ∧
    newest [hybridSect tab stm] 2 = some (.comp 3 0) := by decide

/-! ### recovery scan: the latest header wins -/

/-- `add_headers_latest_wins` on an empty table (`parse_with_recovery_options`): object `n`
    resolves to the LAST scanned header with number `n`. -/
theorem C04_recovery_latest_wins (hs : List Header) (n : Nat) (ce : Bool) :
    (addHeadersLatestWins Table.empty hs ce).entries n =
      ((hs.filter (fun h => h.num = n)).getLast?).map (fun h => ⟨h.off, h.gen, true⟩) := by
  simp only [addHeadersLatestWins, latestOf_eq, Table.empty, Map.empty]
  cases (hs.filter (fun h => h.num = n)).getLast? <;> simp

/-- … hence after appending a revision's objects `new` to the scanned `old` ones, a number
    defined in `new` resolves to its last definition there, any other number as before. -/
theorem C04_recovery_append (old new : List Header) (n : Nat) (ce : Bool) :
    (addHeadersLatestWins Table.empty (old ++ new) ce).entries n =
      match (addHeadersLatestWins Table.empty new ce).entries n with
      | some b => some b
      | none => (addHeadersLatestWins Table.empty old ce).entries n := by
  simp only [C04_recovery_latest_wins, List.filter_append]
  cases hn : new.filter (fun h => h.num = n) with
  | nil => simp
  | cons a l =>
    have : (List.filter (fun h => decide (h.num = n)) old ++ a :: l).getLast? = (a :: l).getLast? := by
      rw [List.getLast?_append]
      simp [List.getLast?_cons]
    rw [this]
    simp [List.getLast?_cons]

example : (addHeadersLatestWins Table.empty [⟨3, 0, 10⟩, ⟨4, 0, 20⟩, ⟨3, 0, 30⟩] false).entries 3
    = some ⟨30, 0, true⟩ := by decide

/-- a table already resolved from a valid xref is never overridden by scanned headers
    (`scan_and_fill_missing_objects`, `check_extended = true`) -/
theorem C04_fill_preserves_resolved (t : Table) (hs : List Header) (n : Nat)
    (h : (t.entries n).isSome ∨ (t.ext n).isSome) :
    (addHeadersLatestWins t hs true).lookup n = t.lookup n := by
  unfold Table.lookup addHeadersLatestWins
  simp only
  cases he : t.ext n with
  | some c => rfl
  | none =>
    simp only [he, Option.isSome_none, Bool.and_false, Bool.or_false] at h ⊢
    have h' : (t.entries n).isSome = true := by simpa using h
    cases latestOf hs n <;> simp [h']

example : ((fun _ => some ⟨1, 0, true⟩ : Map Basic) 3).isSome ∨ ((Map.empty : Map (Nat × Nat)) 3).isSome := by
  simp

/-! ### from the dispatch to the resolved value -/

/-- the implementation's answer meets the specification's (the specification is silent on
    numbers no section mentions, on references with a stale generation and on ill-formed plans) -/
def Agree : Res → SRes → Prop
  | r, .null => r = .null
  | r, .val v => r = .val v
  | r, .stream it => r = .stream it
  | _, .absent => True
  | _, .genMismatch => True
  | _, .illformed => True

/-- **Resolution.**  For every chain of valid sections, `load` on the merged table returns, for
    every object and every nesting depth, the value the newest definition prescribes: Null for a
    freed object, the plain object at the entry's offset, or the slot of the object stream the
    newest compressed entry names. -/
theorem C04_load_agrees_with_spec (chain : List Sect) (ph : List Phys)
    (hk : SectionsValid chain) (fuel n g : Nat) :
    Agree (load (merge chain) ph fuel n g) (specResolve chain ph fuel n g) := by
  induction fuel generalizing n g with
  | zero => simp [specResolve, Agree]
  | succ f ih =>
    have hl := C04_newest_wins chain n (fun s hs => hk s hs n)
    unfold Table.lookup at hl
    unfold load specResolve
    cases hn : newest chain n with
    | none =>
      simp [Agree]
    | some e =>
      rw [hn] at hl
      cases e with
      | free a b =>
        cases he : (merge chain).ext n with
        | some c => obtain ⟨c1, c2⟩ := c; simp [he] at hl
        | none =>
          simp only [he] at hl
          cases hb : (merge chain).entries n with
          | none => simp [hb] at hl
          | some bs =>
            simp only [hb, Option.some.injEq] at hl
            have : bs.inUse = false := by
              cases hi : bs.inUse
              · rfl
              · simp [hi] at hl
            simp [this, Agree]
      | inuse a b =>
        cases he : (merge chain).ext n with
        | some c => obtain ⟨c1, c2⟩ := c; simp [he] at hl
        | none =>
          simp only [he] at hl
          cases hb : (merge chain).entries n with
          | none => simp [hb] at hl
          | some bs =>
            simp only [hb, Option.some.injEq] at hl
            have hu : bs.inUse = true ∧ bs.off = a ∧ bs.gen = b := by
              cases hi : bs.inUse
              · simp [hi] at hl
              · simpa [hi] using hl
            obtain ⟨hu1, hu2, hu3⟩ := hu
            simp only [hu1, hu2, hu3, Bool.not_true, Bool.false_eq_true, if_false]
            by_cases hg : b = g
            · simp only [hg, ne_eq, not_true_eq_false, if_false]
              cases hp : ph[a]? with
              | none => simp [Agree]
              | some p =>
                by_cases hnum : p.num = n
                · simp only [hnum, ne_eq, not_true_eq_false, if_false]
                  cases hbody : p.body <;> simp [bodyRes, Agree]
                · simp [hnum, Agree]
            · simp [hg, Agree]
      | comp a b =>
        cases he : (merge chain).ext n with
        | none =>
          simp only [he] at hl
          cases hb : (merge chain).entries n with
          | none => simp [hb] at hl
          | some bs => simp only [hb, Option.some.injEq] at hl; split at hl <;> simp at hl
        | some c =>
          obtain ⟨c1, c2⟩ := c
          simp only [he, Option.some.injEq, Ent.comp.injEq] at hl
          obtain ⟨h1, h2⟩ := hl
          subst h1; subst h2
          simp only
          have ih' := ih c1 0
          cases hs : specResolve chain ph f c1 0 with
          | stream it =>
            rw [hs] at ih'
            simp only [Agree] at ih'
            rw [ih']
            cases it with
            | none => simp [Agree]
            | some items =>
              simp only
              cases hi : items[c2]? with
              | none => simp [Agree]
              | some mv =>
                obtain ⟨m, v⟩ := mv
                simp only
                by_cases hc : m = n ∧ lookupLast items n = some v
                · simp [hc, Agree]
                · simp [hc, Agree]
          | null => simp [Agree]
          | val v => simp [Agree]
          | absent => simp [Agree]
          | genMismatch => simp [Agree]
          | illformed => simp [Agree]

-- non-vacuity: a two-revision history with an object stream in the base; the appended revision
-- redefines object 2 (stored in the object stream by the base) as a plain object and frees
-- object 1 (also stored there): the theorem's conclusion is a real equation for both
example :
    let chain : List Sect := [[(1, .free 0 1), (2, .inuse 3 0), (6, .inuse 4 0)],
                              [(1, .comp 5 0), (2, .comp 5 1), (3, .inuse 0 0), (5, .inuse 1 0)]]
    let ph : List Phys := [⟨3, 0, .val 10⟩, ⟨5, 0, .objstm [(1, 11), (2, 12)]⟩, ⟨9, 0, .xrefstm⟩,
      ⟨2, 0, .val 13⟩, ⟨6, 0, .val 14⟩]
    specResolve chain ph 4 2 0 = .val 13 ∧ load (merge chain) ph 4 2 0 = .val 13 ∧
    specResolve chain ph 4 1 0 = .null ∧ load (merge chain) ph 4 1 0 = .null ∧
    load (mergeOld chain) ph 4 2 0 = .val 12 := by
  decide

end OxiVerif.C04
