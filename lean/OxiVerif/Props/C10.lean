import OxiVerif.Model.C10
import OxiVerif.Lemmas.C25
import OxiVerif.Lemmas.C09Lib
import OxiVerif.Lemmas.C09Tree
set_option linter.unusedSimpArgs false
/-
C10 — text given through the API reads back unchanged.

Sites and their carriers are listed in `Model/C10.lean`.  The two readers are the library
(`Model.Lexer.next` + `decode_text_string`) and an independent one (`Spec.Syntax.readObj` +
§7.9.2.2 / Annex D).  Everything below is for texts of ARBITRARY length over the stated alphabet.

/- FULL: for every carrier `k` and every list `s` of Unicode scalar values
     `libRoundtrip k s = some s ∧ specRoundtrip k s = some s`. -/
True as stated for the `hex16` carrier (text notes) — `C10_note_site_roundtrip`.
False of the code for `lit8` (Info fields, outline titles, annotation contents, field values of a whole
write) and `hex8` (incremental form fill): the UTF-8 bytes of the Rust string are written and read
through a single-byte table.  Proved instead: the `_partial` theorems for the alphabets on which the
code is right, kernel-checked witnesses for what it gets wrong, and — for the proposed repair
`Object::text_string` (carriers `txt`, `txtHex`) — the FULL statement for both readers and every
text (`C10_text_string_roundtrip`); the sites move to it one repair at a time (see `Drv/C10.lean`).
-/
namespace OxiVerif.C10
open OxiVerif.AnnexD (Enc)
open OxiVerif.Model
open OxiVerif.Spec
open OxiVerif.C09 (allB allB_cons NoCR)

def IsScalar (c : Nat) : Prop := c < 0x110000 ∧ ¬ (0xD800 ≤ c ∧ c ≤ 0xDFFF)

/-! ## UTF-16 -/

/-- UTF-16: decoding the encoding of any sequence of scalar values gives it back. -/
theorem C10_utf16_roundtrip (s : List Nat) (h : ∀ c ∈ s, IsScalar c) :
    utf16Dec (s.flatMap utf16Enc) = s := by
  induction s with
  | nil => rfl
  | cons c r ih =>
    have hc := h c (by simp)
    have hr : ∀ x ∈ r, IsScalar x := fun x hx => h x (by simp [hx])
    have ih' := ih hr
    simp only [List.flatMap_cons]
    unfold IsScalar at hc
    by_cases hb : c < 0x10000
    · simp only [utf16Enc, hb, if_true, List.singleton_append]
      cases hrest : r.flatMap utf16Enc with
      | nil =>
        rw [hrest] at ih'
        simp only [utf16Dec]
        rw [if_neg (by omega)]
        rw [← ih']; rfl
      | cons l t =>
        rw [hrest] at ih'
        simp only [utf16Dec]
        rw [if_neg (by omega), if_neg (by omega), ih']
    · simp only [utf16Enc, hb, if_false, List.cons_append, List.nil_append]
      simp only [utf16Dec]
      rw [if_pos (by omega), ih']
      have e : 65536 + (55296 + (c - 65536) / 1024 - 55296) * 1024 + (56320 + (c - 65536) % 1024 - 56320) = c := by
        omega
      rw [e]

example : utf16Dec ([0x41, 0x1F600, 0xFFFD].flatMap utf16Enc) = [0x41, 0x1F600, 0xFFFD] := by decide

theorem units_unitBytes (us : List Nat) : units (unitBytes us) = us := by
  induction us with
  | nil => rfl
  | cons u r ih =>
    simp only [unitBytes, List.flatMap_cons, List.cons_append, List.nil_append, units] at ih ⊢
    rw [ih]
    congr 1
    have := Nat.div_add_mod u 256
    omega

theorem libDecode_bom16 (s : List Nat) (h : ∀ c ∈ s, IsScalar c) : libDecode (bom16 s) = s := by
  simp only [bom16, libDecode, units_unitBytes, C10_utf16_roundtrip s h]

theorem specDecode_bom16 (s : List Nat) (h : ∀ c ∈ s, IsScalar c) : specDecode (bom16 s) = s := by
  simp only [bom16, specDecode, units_unitBytes, C10_utf16_roundtrip s h]

/-! ## every byte the writers produce is a byte -/

theorem allB_flatMap (p : Nat → Bool) (f : Nat → List Nat) (s : List Nat)
    (h : ∀ c ∈ s, allB p (f c) = true) : allB p (s.flatMap f) = true := by
  induction s with
  | nil => rfl
  | cons c r ih =>
    simp only [List.flatMap_cons, C09.allB_append]
    exact ⟨h c (by simp), ih fun x hx => h x (by simp [hx])⟩

theorem utf8_bytes (s : List Nat) (h : ∀ c ∈ s, IsScalar c) : allB (fun b => b < 256) (utf8 s) = true := by
  apply allB_flatMap
  intro c hc
  have := (h c hc).1
  unfold C25.utf8Enc
  split
  · simp [allB]; omega
  · split
    · simp [allB]; omega
    · split
      · simp [allB]; omega
      · simp [allB]; omega

theorem bom16_bytes (s : List Nat) (h : ∀ c ∈ s, IsScalar c) : allB (fun b => b < 256) (bom16 s) = true := by
  unfold bom16
  simp only [allB_cons, decide_eq_true_eq, Bool.and_eq_true]
  refine ⟨by omega, by omega, ?_⟩
  unfold unitBytes
  apply allB_flatMap
  intro u hu
  rw [List.mem_flatMap] at hu
  obtain ⟨c, hc, hu⟩ := hu
  have hlt := (h c hc).1
  have hu' : u < 65536 := by
    unfold utf16Enc at hu
    split at hu
    · simp only [List.mem_singleton] at hu; omega
    · simp only [List.mem_cons, List.not_mem_nil, or_false] at hu
      rcases hu with hu | hu <;> omega
  simp only [allB, Bool.and_true, Bool.and_eq_true, decide_eq_true_eq]
  constructor <;> omega

/-! ## the two lexers on what the writers emit -/

theorem libRead_lit (bs rest : List Nat) : libRead (ser (.str bs)) rest = some (libDecode bs) := by
  unfold libRead
  have e : ser (.str bs) = 40 :: (escapePdfString bs ++ [41]) := rfl
  rw [e, C09.lib_next_str bs rest]

theorem libRead_hex (bs rest : List Nat) (hb : allB (fun b => b < 256) bs = true) :
    libRead (incWriteString bs) rest = some (libDecode bs) := by
  unfold libRead incWriteString
  rw [C09.lib_next_hexstr bs rest hb]

theorem specRead_lit (bs rest : List Nat) :
    specRead (ser (.str bs)) rest = some (specDecode bs) := by
  unfold specRead
  have := C09.spec_obj_roundtrip (.str bs) rest 1 (by simp [C09.SafeSpec]) (by simp [C09.need])
  have e : ser (.str bs) = serRaw (.str bs) := rfl
  rw [e, this]
  rfl

theorem specRead_hex (bs rest : List Nat) (hb : allB (fun b => b < 256) bs = true) :
    specRead (incWriteString bs) rest = some (specDecode bs) := by
  unfold specRead
  have := C09.spec_obj_roundtrip (.hexstr bs) rest 1 (by simpa [C09.SafeSpec] using hb) (by simp [C09.need])
  have e : incWriteString bs = serRaw (.hexstr bs) := rfl
  rw [e, this]
  rfl

/-! ## T1 — the site that is right: text notes (BOM + UTF-16BE in a hexadecimal string) -/

/-- FULL property at the `hex16` site: every text (any length, any scalar values — astral, NUL,
CR, LF, delimiters, U+FEFF, "þÿ…") is read back unchanged by the library and by an independent reader. -/
theorem C10_note_site_roundtrip (s : List Nat) (h : ∀ c ∈ s, IsScalar c) :
    libRoundtrip .hex16 s = some s ∧ specRoundtrip .hex16 s = some s := by
  simp only [libRoundtrip, specRoundtrip, token]
  rw [libRead_hex _ _ (bom16_bytes s h), specRead_hex _ _ (bom16_bytes s h),
    libDecode_bom16 s h, specDecode_bom16 s h]
  exact ⟨rfl, rfl⟩

example : libRoundtrip .hex16 [0x41, 0xD, 0xA, 0x28, 0x5C, 0, 0xFE, 0xFF, 0xFEFF, 0x1F600] =
    some [0x41, 0xD, 0xA, 0x28, 0x5C, 0, 0xFE, 0xFF, 0xFEFF, 0x1F600] := by decide +kernel

/-! ## T2 — `_partial` for the sites that write UTF-8 bytes -/

theorem utf8_ascii (s : List Nat) (h : ∀ c ∈ s, c < 0x80) : utf8 s = s := by
  induction s with
  | nil => rfl
  | cons c r ih =>
    have hc := h c (by simp)
    simp only [utf8, List.flatMap_cons, C25.utf8Enc, hc, if_true, List.singleton_append] at ih ⊢
    rw [ih fun x hx => h x (by simp [hx])]

theorem ascii_noBom (s : List Nat) (h : ∀ c ∈ s, c < 0x80) : startsBom s = false := by
  match s, h with
  | [], _ => rfl
  | [a], _ => unfold startsBom; split <;> simp_all
  | a :: b :: r, h =>
    have := h a (by simp)
    unfold startsBom; split
    · rename_i heq; simp at heq; omega
    · rfl

theorem libDecode_noBom (bs : List Nat) (h : startsBom bs = false) :
    libDecode bs = bs.map fun b => (C25.winansiDecodeChar b).getD b := by
  unfold libDecode
  split
  · simp [startsBom] at h
  · rfl

theorem specDecode_noBom (bs : List Nat) (h : startsBom bs = false) :
    specDecode bs = bs.map fun b => (AnnexD.dec .pdfDoc b).getD 0xFFFD := by
  unfold specDecode
  split
  · simp [startsBom] at h
  · rfl

/-- `winansi_decode_char` is the identity below 0x80 (generated table, all 128 slots) -/
theorem winansi_ascii (b : Nat) (h : b < 0x80) : (C25.winansiDecodeChar b).getD b = b := by
  have key : ∀ i : Fin 128, (C25.winansiDecodeChar i.val).getD i.val = i.val := by decide +kernel
  exact key ⟨b, h⟩

/-- the code points PDFDocEncoding reads as the byte of the same number, among ASCII -/
def PdfDocAscii (c : Nat) : Prop := c = 9 ∨ c = 10 ∨ c = 13 ∨ (0x20 ≤ c ∧ c ≤ 0x7E)

theorem pdfdoc_ascii (b : Nat) (h : PdfDocAscii b) : (AnnexD.dec .pdfDoc b).getD 0xFFFD = b := by
  have key : ∀ i : Fin 128, (i.val = 9 ∨ i.val = 10 ∨ i.val = 13 ∨ (0x20 ≤ i.val ∧ i.val ≤ 0x7E)) →
      (AnnexD.dec .pdfDoc i.val).getD 0xFFFD = i.val := by decide +kernel
  have hb : b < 128 := by unfold PdfDocAscii at h; omega
  exact key ⟨b, hb⟩ h

theorem map_id_of (f : Nat → Nat) (s : List Nat) (h : ∀ c ∈ s, f c = c) : s.map f = s := by
  induction s with
  | nil => rfl
  | cons c r ih => simp [h c (by simp), ih fun x hx => h x (by simp [hx])]

theorem ascii_scalar (s : List Nat) (h : ∀ c ∈ s, c < 0x80) : ∀ c ∈ s, IsScalar c :=
  fun c hc => by have := h c hc; unfold IsScalar; omega

theorem noCR_of (s : List Nat) (h : ∀ c ∈ s, c ≠ 13) : NoCR s = true := by
  induction s with
  | nil => rfl
  | cons c r ih =>
    unfold NoCR at ih ⊢
    rw [allB_cons]
    simp only [Bool.and_eq_true, bne_iff_ne, ne_eq]
    exact ⟨h c (by simp), ih fun x hx => h x (by simp [hx])⟩

/-- Partial, library reader, every `Object::String` site and the incremental fill: an ASCII text of
any length (all 128 code points: NUL, CR, LF, `(`, `)`, `\`, DEL …) is read back unchanged. -/
theorem C10_ascii_lib_partial (s : List Nat) (h : ∀ c ∈ s, c < 0x80) :
    libRoundtrip .lit8 s = some s ∧ libRoundtrip .hex8 s = some s := by
  have hb : allB (fun b => b < 256) (utf8 s) = true := utf8_bytes s (ascii_scalar s h)
  simp only [libRoundtrip, token]
  rw [libRead_lit, libRead_hex _ _ hb, utf8_ascii s h, libDecode_noBom s (ascii_noBom s h),
    map_id_of _ s fun c hc => winansi_ascii c (h c hc)]
  exact ⟨rfl, rfl⟩

example : libRoundtrip .lit8 [0x28, 0x29, 0x5C, 0x0D, 0x0A, 0, 0x7F] = some [0x28, 0x29, 0x5C, 0x0D, 0x0A, 0, 0x7F] := by
  decide +kernel

/-- Partial, independent reader, (old) `Object::String` carrier: HT, LF, CR and printable ASCII (CR since
the writer escapes it as `\\r`; before that repair see `C10_witness_cr`). -/
theorem C10_ascii_spec_literal_partial (s : List Nat) (h : ∀ c ∈ s, PdfDocAscii c) :
    specRoundtrip .lit8 s = some s := by
  have ha : ∀ c ∈ s, c < 0x80 := fun c hc => by have := h c hc; unfold PdfDocAscii at this; omega
  simp only [specRoundtrip, token]
  rw [utf8_ascii s ha, specRead_lit, specDecode_noBom s (ascii_noBom s ha),
    map_id_of _ s fun c hc => pdfdoc_ascii c (h c hc)]

example : specRoundtrip .lit8 [0x28, 0x29, 0x5C, 0x0A, 0x0D, 0x09, 0x7E] = some [0x28, 0x29, 0x5C, 0x0A, 0x0D, 0x09, 0x7E] := by
  decide +kernel

/-- Partial, independent reader, incremental fill (hexadecimal string: CR survives). -/
theorem C10_ascii_spec_fill_partial (s : List Nat) (h : ∀ c ∈ s, PdfDocAscii c) :
    specRoundtrip .hex8 s = some s := by
  have ha : ∀ c ∈ s, c < 0x80 := fun c hc => by have := h c hc; unfold PdfDocAscii at this; omega
  have hb : allB (fun b => b < 256) (utf8 s) = true := utf8_bytes s (ascii_scalar s ha)
  simp only [specRoundtrip, token]
  rw [specRead_hex _ _ hb, utf8_ascii s ha, specDecode_noBom s (ascii_noBom s ha),
    map_id_of _ s fun c hc => pdfdoc_ascii c (h c hc)]

example : specRoundtrip .hex8 [0x41, 0x0D, 0x0A, 0x28] = some [0x41, 0x0D, 0x0A, 0x28] := by decide +kernel

/-! ## witnesses: what the code gets wrong -/

/-- "Año ✓" through every `Object::String` site and through the incremental fill: written as UTF-8
bytes, read by the library as "AÃ±o âœ“", by a PDFDocEncoding reader as garbage too. -/
theorem C10_witness_mojibake :
    libRoundtrip .lit8 [0x41, 0xF1, 0x6F, 0x20, 0x2713] = some [0x41, 0xC3, 0xB1, 0x6F, 0x20, 0xE2, 0x153, 0x201C] ∧
    libRoundtrip .hex8 [0x41, 0xF1, 0x6F] = some [0x41, 0xC3, 0xB1, 0x6F] ∧
    specRoundtrip .lit8 [0x41, 0xF1, 0x6F] = some [0x41, 0xC3, 0xB1, 0x6F] ∧
    specRoundtrip .hex8 [0x41, 0xF1, 0x6F] = some [0x41, 0xC3, 0xB1, 0x6F] := by
  decide +kernel

/-- the FULL statement is false for `lit8` and `hex8` -/
theorem C10_witness_full_false :
    ¬ (∀ k s, (∀ c ∈ s, IsScalar c) → libRoundtrip k s = some s ∧ specRoundtrip k s = some s) := by
  intro h
  have h1 := (h .lit8 [0xF1] (by intro c hc; simp at hc; subst hc; unfold IsScalar; omega)).1
  revert h1
  decide +kernel

/-- Regression (before the CR repair): a carriage return written raw into the literal is read as a
line feed by an independent reader (§7.3.4.2); with the repaired `escape_pdf_string_bytes` it survives. -/
theorem C10_witness_cr :
    tokenRawCR [0x41, 0x0D, 0x42] = [0x28, 0x41, 0x0D, 0x42, 0x29] ∧
    specRead (tokenRawCR [0x41, 0x0D, 0x42]) [10] = some [0x41, 0x0A, 0x42] ∧
    specRead (tokenRawCR [0x41, 0x0D, 0x0A, 0x42]) [10] = some [0x41, 0x0A, 0x42] ∧
    token .lit8 [0x41, 0x0D, 0x42] = [0x28, 0x41, 0x5C, 0x72, 0x42, 0x29] ∧
    specRoundtrip .lit8 [0x41, 0x0D, 0x42] = some [0x41, 0x0D, 0x42] := by
  decide +kernel

/-- U+0018 … U+001F are written as the bytes 18 … 1F, which PDFDocEncoding assigns to the accents
U+02D8 …: an independent reader gets a breve for U+0018. -/
theorem C10_witness_control :
    specRoundtrip .lit8 [0x18] = some [0x2D8] ∧ specRoundtrip .hex8 [0x1F] = some [0x2DC] ∧
    libRoundtrip .lit8 [0x18] = some [0x18] := by
  decide +kernel

/-- both fill paths build the appearance with `WinAnsiEncoding.encode_strict` first: "✓" is refused,
"Añ€" is accepted (and then stored as UTF-8 bytes) -/
theorem C10_witness_fill_refuses :
    fillAccepts [0x2713] = false ∧ fillAccepts [0x416] = false ∧ fillAccepts [0x1F600] = false ∧
    fillAccepts [0x41, 0xF1, 0x20AC] = true := by
  decide +kernel

/-! ## T3 — `Object::text_string` / `text_string_bytes`: right for every text -/

theorem safe_props (s : List Nat) (h : s.all safeAscii = true) :
    (∀ c ∈ s, c < 0x80) ∧ (∀ c ∈ s, PdfDocAscii c) := by
  rw [List.all_eq_true] at h
  constructor <;> intro c hc <;> have := h c hc <;>
    simp only [safeAscii, Bool.or_eq_true, Bool.and_eq_true, beq_iff_eq, decide_eq_true_eq] at this <;>
    (try unfold PdfDocAscii) <;> omega

/-- FULL property for every site that writes through `text_string` (document writer) or
`text_string_bytes` (incremental fill): for EVERY text (any length, all scalar values — CR, NUL, the
accent slots, unbalanced parentheses, backslashes, a leading "þÿ" or U+FEFF, astral characters) the
library and an independent reader both read back exactly the text. -/
theorem C10_text_string_roundtrip (s : List Nat) (h : ∀ c ∈ s, IsScalar c) :
    (libRoundtrip .txt s = some s ∧ specRoundtrip .txt s = some s) ∧
    (libRoundtrip .txtHex s = some s ∧ specRoundtrip .txtHex s = some s) := by
  simp only [libRoundtrip, specRoundtrip, token, textPayload]
  by_cases hs : s.all safeAscii = true
  · obtain ⟨ha, hp⟩ := safe_props s hs
    have hb : allB (fun b => b < 256) (utf8 s) = true := utf8_bytes s h
    simp only [hs, if_true]
    rw [libRead_lit, specRead_lit, libRead_hex _ _ hb, specRead_hex _ _ hb, utf8_ascii s ha,
      libDecode_noBom s (ascii_noBom s ha), specDecode_noBom s (ascii_noBom s ha),
      map_id_of _ s fun c hc => winansi_ascii c (ha c hc), map_id_of _ s fun c hc => pdfdoc_ascii c (hp c hc)]
    exact ⟨⟨rfl, rfl⟩, rfl, rfl⟩
  · simp only [hs, if_false, Bool.false_eq_true]
    have e : ser (.hexstr (bom16 s)) = incWriteString (bom16 s) := rfl
    rw [e, libRead_hex _ _ (bom16_bytes s h), specRead_hex _ _ (bom16_bytes s h),
      libDecode_bom16 s h, specDecode_bom16 s h]
    exact ⟨⟨rfl, rfl⟩, rfl, rfl⟩

/-- both branches are inhabited -/
example : token .txt [0x41, 0x28, 0x0A] = [0x28, 0x41, 0x5C, 0x28, 0x0A, 0x29] ∧
    token .txt [0x41, 0x0D] = [0x3C, 0x46, 0x45, 0x46, 0x46, 0x30, 0x30, 0x34, 0x31, 0x30, 0x30, 0x30, 0x44, 0x3E] := by
  decide +kernel
example : libRoundtrip .txt [0xFE, 0xFF, 0x41, 0x1F600, 0x18, 0x0D] = some [0xFE, 0xFF, 0x41, 0x1F600, 0x18, 0x0D] := by
  decide +kernel

/-- without the guard the bytes FE FF of "þÿA" would be taken for a byte-order mark -/
theorem C10_witness_bom_prefix : libDecode [0xFE, 0xFF, 0x41] ≠ [0xFE, 0xFF, 0x41] ∧
    specDecode [0xFE, 0xFF, 0x00, 0x41] = [0x41] := by decide +kernel

/-- Regression (before the CR repair): BOM + UTF-16BE inside a LITERAL string written with a raw CR
is wrong for an independent reader whenever a byte 0D occurs (U+000D, U+0D41, U+410D …). -/
theorem C10_witness_utf16_in_literal_needs_cr_escape :
    specRead (serStrRawCR (bom16 [0x0D41])) [10] = some [0x0A41] ∧
    specRead (ser (.str (bom16 [0x0D41]))) [10] = some [0x0D41] := by decide +kernel

end OxiVerif.C10
