import OxiVerif.Model.C10
import OxiVerif.Lemmas.C25
import OxiVerif.Lemmas.C09Lib
import OxiVerif.Lemmas.C09Tree
set_option linter.unusedSimpArgs false
/-
C10 — text given through the API reads back unchanged.

Sites and their carriers are listed in `Model/C10.lean`.  The two readers are the library
(`Model.Lexer.next` + `decode_text_string`) and an independent one (`Spec.Syntax.readObj` +
§7.9.2.2 / Annex D).  Everything below is for texts of ARBITRARY length over the stated alphabet.

/- FULL: for every carrier `k` and every list `s` of Unicode scalar values
     `libRoundtrip k s = some s ∧ specRoundtrip k s = some s`. -/
True as stated for the `hex16` carrier (text notes) — `C10_note_site_roundtrip`.
False of the code for `lit8` (Info fields, outline titles, annotation contents, field values of a whole
write) and `hex8` (incremental form fill): the UTF-8 bytes of the Rust string are written and read
through a single-byte table.  Proved instead: the `_partial` theorems for the alphabets on which the
code is right, kernel-checked witnesses for what it gets wrong, and — for the proposed repair
(`fixToken`) — the FULL statement for both readers and every text (`C10_fix_roundtrip`).
-/
namespace OxiVerif.C10
open OxiVerif.AnnexD (Enc)
open OxiVerif.Model
open OxiVerif.Spec
open OxiVerif.C09 (allB allB_cons NoCR)

def IsScalar (c : Nat) : Prop := c < 0x110000 ∧ ¬ (0xD800 ≤ c ∧ c ≤ 0xDFFF)

/-! ## UTF-16 -/

/-- UTF-16: decoding the encoding of any sequence of scalar values gives it back. -/
theorem C10_utf16_roundtrip (s : List Nat) (h : ∀ c ∈ s, IsScalar c) :
    utf16Dec (s.flatMap utf16Enc) = s := by
  induction s with
  | nil => rfl
  | cons c r ih =>
    have hc := h c (by simp)
    have hr : ∀ x ∈ r, IsScalar x := fun x hx => h x (by simp [hx])
    have ih' := ih hr
    simp only [List.flatMap_cons]
    unfold IsScalar at hc
    by_cases hb : c < 0x10000
    · simp only [utf16Enc, hb, if_true, List.singleton_append]
      cases hrest : r.flatMap utf16Enc with
      | nil =>
        rw [hrest] at ih'
        simp only [utf16Dec]
        rw [if_neg (by omega)]
        rw [← ih']; rfl
      | cons l t =>
        rw [hrest] at ih'
        simp only [utf16Dec]
        rw [if_neg (by omega), if_neg (by omega), ih']
    · simp only [utf16Enc, hb, if_false, List.cons_append, List.nil_append]
      simp only [utf16Dec]
      rw [if_pos (by omega), ih']
      have e : 65536 + (55296 + (c - 65536) / 1024 - 55296) * 1024 + (56320 + (c - 65536) % 1024 - 56320) = c := by
        omega
      rw [e]

example : utf16Dec ([0x41, 0x1F600, 0xFFFD].flatMap utf16Enc) = [0x41, 0x1F600, 0xFFFD] := by decide

theorem units_unitBytes (us : List Nat) : units (unitBytes us) = us := by
  induction us with
  | nil => rfl
  | cons u r ih =>
    simp only [unitBytes, List.flatMap_cons, List.cons_append, List.nil_append, units] at ih ⊢
    rw [ih]
    congr 1
    have := Nat.div_add_mod u 256
    omega

theorem libDecode_bom16 (s : List Nat) (h : ∀ c ∈ s, IsScalar c) : libDecode (bom16 s) = s := by
  simp only [bom16, libDecode, units_unitBytes, C10_utf16_roundtrip s h]

theorem specDecode_bom16 (s : List Nat) (h : ∀ c ∈ s, IsScalar c) : specDecode (bom16 s) = s := by
  simp only [bom16, specDecode, units_unitBytes, C10_utf16_roundtrip s h]

/-! ## every byte the writers produce is a byte -/

theorem allB_flatMap (p : Nat → Bool) (f : Nat → List Nat) (s : List Nat)
    (h : ∀ c ∈ s, allB p (f c) = true) : allB p (s.flatMap f) = true := by
  induction s with
  | nil => rfl
  | cons c r ih =>
    simp only [List.flatMap_cons, C09.allB_append]
    exact ⟨h c (by simp), ih fun x hx => h x (by simp [hx])⟩

theorem utf8_bytes (s : List Nat) (h : ∀ c ∈ s, IsScalar c) : allB (fun b => b < 256) (utf8 s) = true := by
  apply allB_flatMap
  intro c hc
  have := (h c hc).1
  unfold C25.utf8Enc
  split
  · simp [allB]; omega
  · split
    · simp [allB]; omega
    · split
      · simp [allB]; omega
      · simp [allB]; omega

theorem bom16_bytes (s : List Nat) (h : ∀ c ∈ s, IsScalar c) : allB (fun b => b < 256) (bom16 s) = true := by
  unfold bom16
  simp only [allB_cons, decide_eq_true_eq, Bool.and_eq_true]
  refine ⟨by omega, by omega, ?_⟩
  unfold unitBytes
  apply allB_flatMap
  intro u hu
  rw [List.mem_flatMap] at hu
  obtain ⟨c, hc, hu⟩ := hu
  have hlt := (h c hc).1
  have hu' : u < 65536 := by
    unfold utf16Enc at hu
    split at hu
    · simp only [List.mem_singleton] at hu; omega
    · simp only [List.mem_cons, List.not_mem_nil, or_false] at hu
      rcases hu with hu | hu <;> omega
  simp only [allB, Bool.and_true, Bool.and_eq_true, decide_eq_true_eq]
  constructor <;> omega

/-! ## the two lexers on what the writers emit -/

theorem libRead_lit (bs rest : List Nat) : libRead (ser (.str bs)) rest = some (libDecode bs) := by
  unfold libRead
  have e : ser (.str bs) = 40 :: (escapePdfString bs ++ [41]) := rfl
  rw [e, C09.lib_next_str bs rest]

theorem libRead_hex (bs rest : List Nat) (hb : allB (fun b => b < 256) bs = true) :
    libRead (incWriteString bs) rest = some (libDecode bs) := by
  unfold libRead incWriteString
  rw [C09.lib_next_hexstr bs rest hb]

theorem specRead_lit (bs rest : List Nat) (hs : NoCR bs = true) :
    specRead (ser (.str bs)) rest = some (specDecode bs) := by
  unfold specRead
  have := C09.spec_obj_roundtrip (.str bs) rest 1 (by simpa [C09.SafeSpec] using hs) (by simp [C09.need])
  have e : ser (.str bs) = serRaw (.str bs) := rfl
  rw [e, this]
  rfl

theorem specRead_hex (bs rest : List Nat) (hb : allB (fun b => b < 256) bs = true) :
    specRead (incWriteString bs) rest = some (specDecode bs) := by
  unfold specRead
  have := C09.spec_obj_roundtrip (.hexstr bs) rest 1 (by simpa [C09.SafeSpec] using hb) (by simp [C09.need])
  have e : incWriteString bs = serRaw (.hexstr bs) := rfl
  rw [e, this]
  rfl

/-! ## T1 — the site that is right: text notes (BOM + UTF-16BE in a hexadecimal string) -/

/-- FULL property at the `hex16` site: every text (any length, any scalar values — astral, NUL,
CR, LF, delimiters, U+FEFF, "þÿ…") is read back unchanged by the library and by an independent reader. -/
theorem C10_note_site_roundtrip (s : List Nat) (h : ∀ c ∈ s, IsScalar c) :
    libRoundtrip .hex16 s = some s ∧ specRoundtrip .hex16 s = some s := by
  simp only [libRoundtrip, specRoundtrip, token]
  rw [libRead_hex _ _ (bom16_bytes s h), specRead_hex _ _ (bom16_bytes s h),
    libDecode_bom16 s h, specDecode_bom16 s h]
  exact ⟨rfl, rfl⟩

example : libRoundtrip .hex16 [0x41, 0xD, 0xA, 0x28, 0x5C, 0, 0xFE, 0xFF, 0xFEFF, 0x1F600] =
    some [0x41, 0xD, 0xA, 0x28, 0x5C, 0, 0xFE, 0xFF, 0xFEFF, 0x1F600] := by decide +kernel

/-! ## T2 — `_partial` for the sites that write UTF-8 bytes -/

theorem utf8_ascii (s : List Nat) (h : ∀ c ∈ s, c < 0x80) : utf8 s = s := by
  induction s with
  | nil => rfl
  | cons c r ih =>
    have hc := h c (by simp)
    simp only [utf8, List.flatMap_cons, C25.utf8Enc, hc, if_true, List.singleton_append] at ih ⊢
    rw [ih fun x hx => h x (by simp [hx])]

theorem ascii_noBom (s : List Nat) (h : ∀ c ∈ s, c < 0x80) : startsBom s = false := by
  match s, h with
  | [], _ => rfl
  | [a], _ => unfold startsBom; split <;> simp_all
  | a :: b :: r, h =>
    have := h a (by simp)
    unfold startsBom; split
    · rename_i heq; simp at heq; omega
    · rfl

theorem libDecode_noBom (bs : List Nat) (h : startsBom bs = false) :
    libDecode bs = bs.map fun b => (C25.winansiDecodeChar b).getD b := by
  unfold libDecode
  split
  · simp [startsBom] at h
  · rfl

theorem specDecode_noBom (bs : List Nat) (h : startsBom bs = false) :
    specDecode bs = bs.map fun b => (AnnexD.dec .pdfDoc b).getD 0xFFFD := by
  unfold specDecode
  split
  · simp [startsBom] at h
  · rfl

/-- `winansi_decode_char` is the identity below 0x80 (generated table, all 128 slots) -/
theorem winansi_ascii (b : Nat) (h : b < 0x80) : (C25.winansiDecodeChar b).getD b = b := by
  have key : ∀ i : Fin 128, (C25.winansiDecodeChar i.val).getD i.val = i.val := by decide +kernel
  exact key ⟨b, h⟩

/-- the code points PDFDocEncoding reads as the byte of the same number, among ASCII -/
def PdfDocAscii (c : Nat) : Prop := c = 9 ∨ c = 10 ∨ c = 13 ∨ (0x20 ≤ c ∧ c ≤ 0x7E)

theorem pdfdoc_ascii (b : Nat) (h : PdfDocAscii b) : (AnnexD.dec .pdfDoc b).getD 0xFFFD = b := by
  have key : ∀ i : Fin 128, (i.val = 9 ∨ i.val = 10 ∨ i.val = 13 ∨ (0x20 ≤ i.val ∧ i.val ≤ 0x7E)) →
      (AnnexD.dec .pdfDoc i.val).getD 0xFFFD = i.val := by decide +kernel
  have hb : b < 128 := by unfold PdfDocAscii at h; omega
  exact key ⟨b, hb⟩ h

theorem map_id_of (f : Nat → Nat) (s : List Nat) (h : ∀ c ∈ s, f c = c) : s.map f = s := by
  induction s with
  | nil => rfl
  | cons c r ih => simp [h c (by simp), ih fun x hx => h x (by simp [hx])]

theorem ascii_scalar (s : List Nat) (h : ∀ c ∈ s, c < 0x80) : ∀ c ∈ s, IsScalar c :=
  fun c hc => by have := h c hc; unfold IsScalar; omega

theorem noCR_of (s : List Nat) (h : ∀ c ∈ s, c ≠ 13) : NoCR s = true := by
  induction s with
  | nil => rfl
  | cons c r ih =>
    unfold NoCR at ih ⊢
    rw [allB_cons]
    simp only [Bool.and_eq_true, bne_iff_ne, ne_eq]
    exact ⟨h c (by simp), ih fun x hx => h x (by simp [hx])⟩

/-- Partial, library reader, every `Object::String` site and the incremental fill: an ASCII text of
any length (all 128 code points: NUL, CR, LF, `(`, `)`, `\`, DEL …) is read back unchanged. -/
theorem C10_ascii_lib_partial (s : List Nat) (h : ∀ c ∈ s, c < 0x80) :
    libRoundtrip .lit8 s = some s ∧ libRoundtrip .hex8 s = some s := by
  have hb : allB (fun b => b < 256) (utf8 s) = true := utf8_bytes s (ascii_scalar s h)
  simp only [libRoundtrip, token]
  rw [libRead_lit, libRead_hex _ _ hb, utf8_ascii s h, libDecode_noBom s (ascii_noBom s h),
    map_id_of _ s fun c hc => winansi_ascii c (h c hc)]
  exact ⟨rfl, rfl⟩

example : libRoundtrip .lit8 [0x28, 0x29, 0x5C, 0x0D, 0x0A, 0, 0x7F] = some [0x28, 0x29, 0x5C, 0x0D, 0x0A, 0, 0x7F] := by
  decide +kernel

/-- Partial, independent reader, `Object::String` sites: HT, LF and printable ASCII (CR excluded —
see `C10_witness_cr`). -/
theorem C10_ascii_spec_literal_partial (s : List Nat) (h : ∀ c ∈ s, PdfDocAscii c ∧ c ≠ 13) :
    specRoundtrip .lit8 s = some s := by
  have ha : ∀ c ∈ s, c < 0x80 := fun c hc => by have := (h c hc).1; unfold PdfDocAscii at this; omega
  simp only [specRoundtrip, token]
  rw [utf8_ascii s ha, specRead_lit _ _ (noCR_of s fun c hc => (h c hc).2),
    specDecode_noBom s (ascii_noBom s ha), map_id_of _ s fun c hc => pdfdoc_ascii c (h c hc).1]

example : specRoundtrip .lit8 [0x28, 0x29, 0x5C, 0x0A, 0x09, 0x7E] = some [0x28, 0x29, 0x5C, 0x0A, 0x09, 0x7E] := by
  decide +kernel

/-- Partial, independent reader, incremental fill (hexadecimal string: CR survives). -/
theorem C10_ascii_spec_fill_partial (s : List Nat) (h : ∀ c ∈ s, PdfDocAscii c) :
    specRoundtrip .hex8 s = some s := by
  have ha : ∀ c ∈ s, c < 0x80 := fun c hc => by have := h c hc; unfold PdfDocAscii at this; omega
  have hb : allB (fun b => b < 256) (utf8 s) = true := utf8_bytes s (ascii_scalar s ha)
  simp only [specRoundtrip, token]
  rw [specRead_hex _ _ hb, utf8_ascii s ha, specDecode_noBom s (ascii_noBom s ha),
    map_id_of _ s fun c hc => pdfdoc_ascii c (h c hc)]

example : specRoundtrip .hex8 [0x41, 0x0D, 0x0A, 0x28] = some [0x41, 0x0D, 0x0A, 0x28] := by decide +kernel

/-! ## witnesses: what the code gets wrong -/

/-- "Año ✓" through every `Object::String` site and through the incremental fill: written as UTF-8
bytes, read by the library as "AÃ±o âœ“", by a PDFDocEncoding reader as garbage too. -/
theorem C10_witness_mojibake :
    libRoundtrip .lit8 [0x41, 0xF1, 0x6F, 0x20, 0x2713] = some [0x41, 0xC3, 0xB1, 0x6F, 0x20, 0xE2, 0x153, 0x201C] ∧
    libRoundtrip .hex8 [0x41, 0xF1, 0x6F] = some [0x41, 0xC3, 0xB1, 0x6F] ∧
    specRoundtrip .lit8 [0x41, 0xF1, 0x6F] = some [0x41, 0xC3, 0xB1, 0x6F] ∧
    specRoundtrip .hex8 [0x41, 0xF1, 0x6F] = some [0x41, 0xC3, 0xB1, 0x6F] := by
  decide +kernel

/-- the FULL statement is false for `lit8` and `hex8` -/
theorem C10_witness_full_false :
    ¬ (∀ k s, (∀ c ∈ s, IsScalar c) → libRoundtrip k s = some s ∧ specRoundtrip k s = some s) := by
  intro h
  have h1 := (h .lit8 [0xF1] (by intro c hc; simp at hc; subst hc; unfold IsScalar; omega)).1
  revert h1
  decide +kernel

/-- a carriage return is written raw into the literal; §7.3.4.2 makes an independent reader see a line
feed (the library's own lexer does not normalise, so only third-party readers disagree).  Not so in
the hexadecimal string of the incremental fill. -/
theorem C10_witness_cr :
    token .lit8 [0x41, 0x0D, 0x42] = [0x28, 0x41, 0x0D, 0x42, 0x29] ∧
    libRoundtrip .lit8 [0x41, 0x0D, 0x42] = some [0x41, 0x0D, 0x42] ∧
    specRoundtrip .lit8 [0x41, 0x0D, 0x42] = some [0x41, 0x0A, 0x42] ∧
    specRoundtrip .lit8 [0x41, 0x0D, 0x0A, 0x42] = some [0x41, 0x0A, 0x42] := by
  decide +kernel

/-- U+0018 … U+001F are written as the bytes 18 … 1F, which PDFDocEncoding assigns to the accents
U+02D8 …: an independent reader gets a breve for U+0018. -/
theorem C10_witness_control :
    specRoundtrip .lit8 [0x18] = some [0x2D8] ∧ specRoundtrip .hex8 [0x1F] = some [0x2DC] ∧
    libRoundtrip .lit8 [0x18] = some [0x18] := by
  decide +kernel

/-- both fill paths build the appearance with `WinAnsiEncoding.encode_strict` first: "✓" is refused,
"Añ€" is accepted (and then stored as UTF-8 bytes) -/
theorem C10_witness_fill_refuses :
    fillAccepts [0x2713] = false ∧ fillAccepts [0x416] = false ∧ fillAccepts [0x1F600] = false ∧
    fillAccepts [0x41, 0xF1, 0x20AC] = true := by
  decide +kernel

/-! ## T3 — the repair is right for every text -/

theorem fix_lib_readLit (s rest : List Nat) :
    Lexer.readLit 0 .normal (fixEscape s ++ 41 :: rest) = .ok (s, rest) := by
  induction s with
  | nil => simp [fixEscape, Lexer.readLit]
  | cons x xs ih =>
    by_cases h92 : x = 92
    · subst h92; simp [fixEscape, Lexer.readLit, Lexer.consOut, Lexer.isOctal, ih]
    · by_cases h40 : x = 40
      · subst h40; simp [fixEscape, Lexer.readLit, Lexer.consOut, Lexer.isOctal, ih]
      · by_cases h41 : x = 41
        · subst h41; simp [fixEscape, Lexer.readLit, Lexer.consOut, Lexer.isOctal, ih]
        · by_cases h13 : x = 13
          · subst h13; simp [fixEscape, Lexer.readLit, Lexer.consOut, Lexer.isOctal, ih]
          · simp [fixEscape, Lexer.readLit, Lexer.consOut, h92, h40, h41, h13, ih]

theorem fix_spec_readLit (s rest : List Nat) :
    Syntax.readLit 0 .normal (fixEscape s ++ 41 :: rest) = some (s, rest) := by
  induction s with
  | nil => simp [fixEscape, Syntax.readLit]
  | cons x xs ih =>
    by_cases h92 : x = 92
    · subst h92; simp [fixEscape, Syntax.readLit, Syntax.consOut, Syntax.isOctal, ih]
    · by_cases h40 : x = 40
      · subst h40; simp [fixEscape, Syntax.readLit, Syntax.consOut, Syntax.isOctal, ih]
      · by_cases h41 : x = 41
        · subst h41; simp [fixEscape, Syntax.readLit, Syntax.consOut, Syntax.isOctal, ih]
        · by_cases h13 : x = 13
          · subst h13; simp [fixEscape, Syntax.readLit, Syntax.consOut, Syntax.isOctal, ih]
          · simp [fixEscape, Syntax.readLit, Syntax.consOut, h92, h40, h41, h13, ih]

theorem fix_libRead_lit (s rest : List Nat) :
    libRead (40 :: (fixEscape s ++ [41])) rest = some (libDecode s) := by
  unfold libRead
  have := fix_lib_readLit s rest
  simp [Lexer.next, Lexer.nextToken, Lexer.isAsciiWs, this]

theorem fix_specRead_lit (s rest : List Nat) :
    specRead (40 :: (fixEscape s ++ [41])) rest = some (specDecode s) := by
  unfold specRead
  have := fix_spec_readLit s rest
  simp [Syntax.readObj, Syntax.skip, Syntax.isWhite, this]

/-- on the `single` alphabet both single-byte tables are the identity (all 256 slots checked) -/
theorem single_tables (b : Nat) (h : single b = true) :
    (C25.winansiDecodeChar b).getD b = b ∧ (AnnexD.dec .pdfDoc b).getD 0xFFFD = b := by
  have key : ∀ i : Fin 256, single i.val = true →
      (C25.winansiDecodeChar i.val).getD i.val = i.val ∧ (AnnexD.dec .pdfDoc i.val).getD 0xFFFD = i.val := by
    decide +kernel
  have hb : b < 256 := by
    simp only [single, Bool.or_eq_true, Bool.and_eq_true, beq_iff_eq, decide_eq_true_eq, bne_iff_ne] at h
    omega
  exact key ⟨b, hb⟩ h

/-- FULL property for the repaired writer: for EVERY text (any length, all scalar values) the
library and an independent reader both read back exactly the text — including texts with CR, NUL,
unbalanced parentheses, backslashes, a leading "þÿ" or U+FEFF, and astral characters. -/
theorem C10_fix_roundtrip (s rest : List Nat) (h : ∀ c ∈ s, IsScalar c) :
    libRead (fixToken s) rest = some s ∧ specRead (fixToken s) rest = some s := by
  unfold fixToken
  by_cases hu : fixUsesBytes s = true
  · rw [if_pos hu]
    simp only [fixUsesBytes, Bool.and_eq_true, List.all_eq_true, Bool.not_eq_true'] at hu
    rw [fix_libRead_lit, fix_specRead_lit, libDecode_noBom s hu.2, specDecode_noBom s hu.2,
      map_id_of _ s fun c hc => (single_tables c (hu.1 c hc)).1,
      map_id_of _ s fun c hc => (single_tables c (hu.1 c hc)).2]
    exact ⟨rfl, rfl⟩
  · rw [if_neg hu, libRead_hex _ _ (bom16_bytes s h), specRead_hex _ _ (bom16_bytes s h),
      libDecode_bom16 s h, specDecode_bom16 s h]
    exact ⟨rfl, rfl⟩

/-- both branches are inhabited; "þÿ" takes the UTF-16 branch although both characters are `single` -/
example : fixUsesBytes [0x41, 0x0D, 0x28, 0xF1] = true ∧ fixUsesBytes [0xFE, 0xFF, 0x41] = false ∧
    fixUsesBytes [0x2713] = false ∧ fixToken [0x0D, 0x29] = [40, 92, 114, 92, 41, 41] := by decide
example : libRead (fixToken [0xFE, 0xFF, 0x41, 0x1F600]) [10] = some [0xFE, 0xFF, 0x41, 0x1F600] := by decide +kernel

/-- without the guard the bytes FE FF of "þÿA" would be taken for a byte-order mark -/
theorem C10_witness_bom_prefix : libDecode [0xFE, 0xFF, 0x41] ≠ [0xFE, 0xFF, 0x41] ∧
    specDecode [0xFE, 0xFF, 0x00, 0x41] = [0x41] := by decide +kernel

/-- BOM + UTF-16BE inside a LITERAL string written with today's `escape_pdf_string_bytes` would
still be wrong for an independent reader whenever a byte 0D occurs (U+000D, U+0D41, U+410D …): the
reason the repair escapes CR / uses a hexadecimal string. -/
theorem C10_witness_utf16_in_literal_needs_cr_escape :
    specRead (ser (.str (bom16 [0x0D41]))) [10] = some [0x0A41] := by decide +kernel

end OxiVerif.C10
