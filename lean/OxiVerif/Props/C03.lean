/-
C03 — written files are structurally valid PDF: theorems about the layout model
(`Model/C03.lean`, a transcription of `write_object` / `write_bytes` / `write_xref` /
`write_xref_stream` / `XRefStreamWriter` / `flush_object_streams` / `ObjectStream` /
`write_trailer` / the Stream arm).  Builder b0320.

/- FULL (DESIGN §7 C03):
     ∀ d cfg z perm, FileWF (layout cfg z perm d)
   with FileWF = header ∧ every cross-reference entry is the first byte of `N 0 obj` ∧
   `startxref` = offset of the last cross-reference section ∧ /Size = max id + 1 ∧
   every stream's /Length = data length ∧ every compressed entry (stm, idx) names the idx-th
   object of stm ∧ the cross-reference stream decodes ∧ every object is reachable.
   The statement is FALSE of the current code for two families of configurations, shown by
   `C03_witness_filter_over_raw_xref_data` (use_xref_streams ∧ ¬compress_streams: /Filter
   /FlateDecode is declared over uncompressed data, for EVERY document) and
   `C03_witness_classic_objstm_unreachable` (use_object_streams ∧ ¬use_xref_streams: buffered
   objects get no cross-reference entry, for every document with a compressible object).
   What is proved instead: each conjunct separately, for all documents, with the configuration
   hypothesis it needs (`_partial` where a hypothesis excludes configurations). -/

Object values are opaque byte strings here; token validity is C09/C30's subject.
-/
import OxiVerif.Lemmas.C03
namespace OxiVerif.C03

/-! ## 1. the invariant of the byte accounting -/

/-- After any sequence of `write_object` calls (and the object-stream flush), under every
configuration: `current_position` is exactly the number of bytes written and every recorded
cross-reference position is the first byte of that object's `N 0 obj` header. -/
theorem C03_writer_invariant (cfg : Cfg) (z : List Nat → List Nat) (d : Doc) :
    Inv (bodyState cfg z d).1 := bodyState_inv cfg z d

example : Inv (bodyState ⟨false, false, true⟩ id
    { version := [49, 46, 55], objs := [⟨2, .plain [60, 60, 62, 62]⟩, ⟨5, .stream [] [1, 2, 3]⟩], nextId := 6 }).1 :=
  C03_writer_invariant _ _ _

/-- the invariant is preserved by ONE `write_object`, whatever the state (induction step) -/
theorem C03_write_object_preserves_inv (cfg : Cfg) (s : WState) (o : Obj) (h : Inv s) :
    Inv (writeObject cfg s o) := writeObject_inv cfg o h

example : Inv (writeObject ⟨true, true, false⟩ WState.init ⟨1, .null⟩) :=
  C03_write_object_preserves_inv _ _ _ Inv.init

/-! ## 2. every in-use cross-reference entry points at its object -/

theorem xrefStreamTail_shape (cfg : Cfg) (z : List Nat → List Nat) (perm : List DictE → List DictE)
    (es : List Entry) (root info sid pos : Nat) :
    ∃ sect, xrefStreamTail cfg z perm es root info sid pos = sect ++ kStartxref ++ dec pos ++ kEof ∧
      objHeader sid <+: sect := by
  refine ⟨objHeader sid ++ emitDict (perm (xrefStreamDictCfg cfg.compress es.length root info (widths es)
      (xrefStreamData cfg z es).length)) ++ [10] ++ kStream.drop 1 ++ xrefStreamData cfg z es ++ kEndstream ++
      [10] ++ kEndobjNl.drop 1, ?_, ?_⟩
  · simp only [xrefStreamTail, List.append_assoc]
  · simp only [List.append_assoc]
    exact List.prefix_append _ _

/-- classic table: entry `n` in use at `off` ⇒ the FILE has `n 0 obj\n` at byte `off` -/
theorem C03_classic_entries_point_at_objects (cfg : Cfg) (z : List Nat → List Nat)
    (perm : List DictE → List DictE) (d : Doc) (hx : cfg.xrefStreams = false) (n off g : Nat)
    (h : (classicEntries (bodyState cfg z d).1.xref)[n]? = some (.inUse off g)) :
    headerAt (layout cfg z perm d) off n ∧ g = 0 := by
  obtain ⟨hm, hg⟩ := classicEntries_inUse h
  have hi := (bodyState_inv cfg z d).2 _ hm
  refine ⟨?_, hg⟩
  unfold layout
  simp only [hx]
  rw [List.append_assoc]
  exact headerAt_append _ hi

/-- cross-reference stream: entry `n` in use at `off` ⇒ `n 0 obj\n` is at byte `off`
(including the entry of the cross-reference stream itself) -/
theorem C03_xref_stream_entries_point_at_objects (cfg : Cfg) (z : List Nat → List Nat)
    (perm : List DictE → List DictE) (d : Doc) (hx : cfg.xrefStreams = true) (n off g : Nat)
    (h : (xrefStreamEntries (bodyState cfg z d).1.xref (bodyState cfg z d).2 d.nextId
            (bodyState cfg z d).1.pos)[n]? = some (.inUse off g)) :
    headerAt (layout cfg z perm d) off n ∧ g = 0 := by
  obtain ⟨hm, hg⟩ := xrefStreamEntries_inUse h
  have hinv := bodyState_inv cfg z d
  refine ⟨?_, hg⟩
  unfold layout
  simp only [hx, ↓reduceIte]
  rcases hm with ⟨rfl, rfl⟩ | hm
  · obtain ⟨sect, hs, hp⟩ := xrefStreamTail_shape cfg z perm
      (xrefStreamEntries (bodyState cfg z d).1.xref (bodyState cfg z d).2 d.nextId (bodyState cfg z d).1.pos)
      d.root d.info d.nextId (bodyState cfg z d).1.pos
    show objHeader d.nextId <+: _
    rw [hs, hinv.1, List.drop_left]
    simp only [List.append_assoc]
    exact List.IsPrefix.trans hp (List.prefix_append _ _)
  · exact headerAt_append _ (hinv.2 _ hm)

example : (classicEntries [(2, 15), (1, 40)])[2]? = some (.inUse 15 0) := by decide

/-! ## 3. `startxref` -/

/-- the file is `body ++ section ++ "\nstartxref\n" ++ dec |body| ++ "\n%%EOF\n"` and the
section begins with `xref\n` (classic) or with the header of the cross-reference stream object:
the number after `startxref` is the byte offset of the last cross-reference section. -/
theorem C03_startxref_is_xref_offset (cfg : Cfg) (z : List Nat → List Nat)
    (perm : List DictE → List DictE) (d : Doc) :
    ∃ body sect, layout cfg z perm d = body ++ sect ++ kStartxref ++ dec body.length ++ kEof ∧
      (if cfg.xrefStreams then objHeader d.nextId <+: sect else kXref <+: sect) := by
  have hinv := bodyState_inv cfg z d
  refine ⟨(bodyState cfg z d).1.out, ?_⟩
  unfold layout
  cases hx : cfg.xrefStreams with
  | true =>
    simp only [↓reduceIte]
    obtain ⟨sect, hs, hp⟩ := xrefStreamTail_shape cfg z perm
      (xrefStreamEntries (bodyState cfg z d).1.xref (bodyState cfg z d).2 d.nextId (bodyState cfg z d).1.pos)
      d.root d.info d.nextId (bodyState cfg z d).1.pos
    refine ⟨sect, ?_, hp⟩
    rw [hs, hinv.1]
    simp only [List.append_assoc]
  | false =>
    simp only [Bool.false_eq_true, ↓reduceIte]
    refine ⟨classicXrefBytes (classicEntries (bodyState cfg z d).1.xref) ++ kTrailer ++
      emitDict [(kInfo, refBytes d.info), (kRoot, refBytes d.root), (kSize, dec (maxId (bodyState cfg z d).1.xref + 1))], ?_, ?_⟩
    · simp only [trailerBytes, List.append_assoc, hinv.1]
    · simp only [classicXrefBytes, List.append_assoc]
      exact List.prefix_append _ _

example : ∃ body sect, layout ⟨false, false, true⟩ id id { version := [49, 46, 52], objs := [], nextId := 4 }
    = body ++ sect ++ kStartxref ++ dec body.length ++ kEof ∧ kXref <+: sect := by
  simpa using C03_startxref_is_xref_offset ⟨false, false, true⟩ id id { version := [49, 46, 52], objs := [], nextId := 4 }

/-! ## 4. /Size -/

/-- classic: `/Size` (= `max_obj_num + 1`) is the number of entries of the table and exceeds
every recorded object number -/
theorem C03_classic_size (x : List (Nat × Nat)) :
    (classicEntries x).length = maxId x + 1 ∧ ∀ e ∈ x, e.1 < maxId x + 1 :=
  ⟨classicEntries_length x, fun _ he => Nat.lt_succ_of_le (le_maxId he)⟩

/-- stream: `/Size` (= `entries.len()`) is `max(max id, xref stream id) + 1` -/
theorem C03_xref_stream_size (x : List (Nat × Nat)) (cmap : List (Nat × Nat × Nat)) (sid pos : Nat) :
    (xrefStreamEntries x cmap sid pos).length = max (maxId x) sid + 1 ∧
    (∀ e ∈ x, e.1 < max (maxId x) sid + 1) ∧ sid < max (maxId x) sid + 1 :=
  ⟨xrefStreamEntries_length x cmap sid pos,
   fun _ he => by have := le_maxId he; omega, by omega⟩

example : (classicEntries [(7, 100), (2, 15)]).length = 8 := by decide

/-! ## 5. the Stream arm: /Length is the data length -/

/-- `write_object_value(Stream(dict, data))` = dictionary ++ `\nstream\n` ++ data ++ `\nendstream`
where the dictionary's only `/Length` is `data.len()` whatever the caller had put there, and the
`data.len()` bytes after `stream\n` are the data, followed by `\nendstream`. -/
theorem C03_stream_length (dict : List DictE) (data : List Nat) :
    ∃ db, streamBody dict data = db ++ kStream ++ data ++ kEndstream ∧
      (∀ v, (kLength, v) ∈ sortEntries (setKey dict kLength (dec data.length)) ↔ v = dec data.length) ∧
      ((streamBody dict data).drop (db.length + kStream.length)).take data.length = data ∧
      (streamBody dict data).drop (db.length + kStream.length + data.length) = kEndstream := by
  refine ⟨emitDict (sortEntries (setKey dict kLength (dec data.length))), rfl, ?_, ?_, ?_⟩
  · intro v
    rw [mem_sortEntries]
    constructor
    · exact setKey_lookup _ _ _ _
    · rintro rfl
      simp [setKey]
  · unfold streamBody
    rw [← List.length_append, List.append_assoc (_ ++ _), List.drop_left]
    simp
  · unfold streamBody
    rw [← List.length_append, ← List.length_append, List.drop_left]

example : ∃ db, streamBody [(kLength, [57, 57])] [1, 2, 3] = db ++ kStream ++ [1, 2, 3] ++ kEndstream :=
  ⟨_, (C03_stream_length _ _).choose_spec.1⟩

/-! ## 6. cross-reference stream encoding round-trips -/

/-- `bytes_needed v = w → v < 256^w` -/
theorem C03_bytes_needed (v : Nat) : v < 256 ^ bytesNeeded v := bytesNeeded_spec v

/-- the widths `/W` the writer declares are wide enough for every field of every entry it
can add (`free` entries never widen: they must carry `next < 2^24`, which the document writer
guarantees by only adding `(0, 65535)` and `(0, 0)`), so the §7.5.8 decoder gets the entries back -/
theorem C03_xrefStream_roundtrip (es : List Entry) (h : ∀ e ∈ es, WriterEntry e) :
    decodeEntries (widths es) es.length (encodeEntries (widths es) es) = some es := by
  obtain ⟨h1, h2, h3, h4⟩ := widths_foldl es (1, 3, 2)
  exact decode_encode_entries (widths es) es h1 h2 h3 h4 h

example : decodeEntries (widths [.free 0 65535, .inUse 70000000 0, .compressed 1000000 300])
    3 (encodeEntries (widths [.free 0 65535, .inUse 70000000 0, .compressed 1000000 300])
      [.free 0 65535, .inUse 70000000 0, .compressed 1000000 300])
    = some [.free 0 65535, .inUse 70000000 0, .compressed 1000000 300] :=
  C03_xrefStream_roundtrip _ (by intro e he; simp at he; rcases he with rfl | rfl | rfl <;> simp [WriterEntry])

/-- every entry `write_xref_stream` builds is a `WriterEntry` -/
theorem xrefStreamEntries_writer (x : List (Nat × Nat)) (cmap : List (Nat × Nat × Nat)) (sid pos : Nat) :
    ∀ e ∈ xrefStreamEntries x cmap sid pos, WriterEntry e := by
  intro e he
  simp only [xrefStreamEntries, List.mem_cons, List.mem_map] at he
  rcases he with rfl | ⟨n, _, rfl⟩
  · simp [WriterEntry]
  · split
    · simp [WriterEntry]
    · split
      · simp [WriterEntry]
      · split <;> simp [WriterEntry]

/-- the data of the cross-reference stream the document writer emits decodes, with the /W and
/Size it declares, to exactly the entries it meant -/
theorem C03_written_xref_stream_decodes (x : List (Nat × Nat)) (cmap : List (Nat × Nat × Nat)) (sid pos : Nat) :
    decodeEntries (widths (xrefStreamEntries x cmap sid pos)) (xrefStreamEntries x cmap sid pos).length
      (encodeEntries (widths (xrefStreamEntries x cmap sid pos)) (xrefStreamEntries x cmap sid pos))
      = some (xrefStreamEntries x cmap sid pos) :=
  C03_xrefStream_roundtrip _ (xrefStreamEntries_writer x cmap sid pos)

/-! ## 7. object streams -/

/-- `generate_stream_data`: the index is `number SP offset SP` for every member in order, /First
is its length, and the member numbered by the `i`-th pair lies at `First + offset`, followed by
a SPACE -/
theorem C03_objstm_members (ms : List (Nat × List Nat)) (i id : Nat) (data : List Nat)
    (h : ms[i]? = some (id, data)) :
    (genStreamData 0 ms).1 = indexBytes (memberOffsets 0 (lensOf ms)) ∧
    ∃ off, (memberOffsets 0 (lensOf ms))[i]? = some (id, off) ∧
      (((genStreamData 0 ms).1 ++ (genStreamData 0 ms).2).drop ((genStreamData 0 ms).1.length + off)).take data.length = data ∧
      (((genStreamData 0 ms).1 ++ (genStreamData 0 ms).2).drop ((genStreamData 0 ms).1.length + off + data.length)).head? = some 32 := by
  refine ⟨genStreamData_index ms 0, ?_⟩
  obtain ⟨off, h1, _, h3, h4⟩ := genStreamData_member ms 0 i id data h
  refine ⟨off, h1, ?_, ?_⟩
  · rw [← List.drop_drop, List.drop_left]; simpa using h3
  · rw [Nat.add_assoc, ← List.drop_drop, List.drop_left]; simpa using h4

example : (genStreamData 0 [(4, [60, 62]), (9, [91, 93])]).2 = [60, 62, 32, 91, 93, 32] := by
  simp [genStreamData]

/-- every `compressed_object_map` entry `(n ↦ stm, idx)` names the `idx`-th member of `stm` -/
theorem cmapFrom_names (stm : Nat) (ms : List (Nat × List Nat)) (i : Nat) :
    ∀ e ∈ cmapFrom stm i ms, e.2.1 = stm ∧ i ≤ e.2.2 ∧ ∃ dat, ms[e.2.2 - i]? = some (e.1, dat) := by
  induction ms generalizing i with
  | nil => simp [cmapFrom]
  | cons m r ih =>
    intro e he
    simp only [cmapFrom, List.mem_cons] at he
    rcases he with rfl | he
    · exact ⟨rfl, Nat.le_refl _, m.2, by simp⟩
    · obtain ⟨h1, h2, dat, h3⟩ := ih (i + 1) e he
      refine ⟨h1, by omega, dat, ?_⟩
      have : e.2.2 - i = (e.2.2 - (i + 1)) + 1 := by omega
      rw [this]
      simpa using h3

theorem C03_compressed_entry_names_member (sts : List ObjStm) :
    ∀ e ∈ sts.flatMap cmapOf, ∃ st ∈ sts, st.id = e.2.1 ∧ ∃ dat, st.members[e.2.2]? = some (e.1, dat) := by
  intro e he
  simp only [List.mem_flatMap] at he
  obtain ⟨st, hst, hm⟩ := he
  obtain ⟨h1, _, dat, h3⟩ := cmapFrom_names st.id st.members 0 e hm
  exact ⟨st, hst, h1.symm, dat, by simpa using h3⟩

example : cmapOf ⟨1000000, [(4, [1]), (9, [2])]⟩ = [(4, 1000000, 0), (9, 1000000, 1)] := by
  simp [cmapOf, cmapFrom]

/-! ## 8. the sizes-only plan used by the correspondence driver agrees with the byte writer -/

def sizeOf (o : Obj) : Nat × Nat := (o.id, (serBody o.body).length)

theorem writeObjectNow_plan (s : WState) (id : Nat) (body : List Nat) :
    (writeObjectNow s id body).xref = (id, s.pos) :: s.xref ∧
    (writeObjectNow s id body).pos = s.pos + objTotal id body.length := by
  simp [writeObjectNow, writeBytes, objTotal, objHeader, kObj, kEndobjNl]
  omega

/-- without object streams: the recorded positions are exactly the planned offsets (computed
from the object numbers and body LENGTHS only) and the final position is the planned end -/
theorem C03_plan_agrees (cfg : Cfg) (h : cfg.objStreams = false) (os : List Obj) (s : WState) :
    (writeObjects cfg s os).xref = (planOffsets s.pos (os.map sizeOf)).reverse ++ s.xref ∧
    (writeObjects cfg s os).pos = planEnd s.pos (os.map sizeOf) := by
  induction os generalizing s with
  | nil => simp [writeObjects, planOffsets, planEnd]
  | cons o r ih =>
    have hw : writeObject cfg s o = writeObjectNow s o.id (serBody o.body) := by
      simp [writeObject, h]
    obtain ⟨hx, hp⟩ := writeObjectNow_plan s o.id (serBody o.body)
    have := ih (writeObject cfg s o)
    simp only [writeObjects, List.foldl_cons] at this ⊢
    rw [hw] at this ⊢
    simp only [List.map_cons, sizeOf, planOffsets, planEnd, List.reverse_cons, List.append_assoc]
    rw [this.1, this.2, hx, hp]
    simp

example : planOffsets 15 [(2, 4), (5, 30)] = [(2, 15), (5, 35)] := by
  simp [planOffsets, objTotal, dec]

/-! ## 9. where the FULL statement fails on the current code -/

theorem widths_fst (es : List Entry) : (widths es).1 = 1 := (widths_foldl es (1, 3, 2)).1

theorem encodeEntries_head_zero (w : Nat × Nat × Nat) (hw : w.1 = 1) (a g : Nat) (r : List Entry) :
    ∃ t, encodeEntries w (.free a g :: r) = 0 :: t :=
  ⟨writeField a w.2.1 ++ (writeField g w.2.2 ++ List.flatMap (encodeEntry w) r),
    by simp [encodeEntries, encodeEntry, hw, writeField]⟩

theorem zlibHeaderOk_zero (t : List Nat) : zlibHeaderOk (0 :: t) = false := by
  cases t <;> simp [zlibHeaderOk]

/-- REGRESSION WITNESS (a) — about the dictionary as it was before repair 67304722
(`xrefStreamDict` under both settings), for EVERY document: with `use_xref_streams` and
`compress_streams = false` the cross-reference stream dictionary declared `/Filter /FlateDecode` (`create_dictionary`,
xref_stream_writer.rs:210) while the data is the raw entry table, whose first byte is 0 (type
of the free entry of object 0) — not a zlib stream (RFC 1950: CM must be 8).  No reader that
honours /Filter can decode the cross-reference data. -/
theorem C03_witness_filter_over_raw_xref_data (cfg : Cfg) (hc : cfg.compress = false)
    (z : List Nat → List Nat) (x : List (Nat × Nat)) (cmap : List (Nat × Nat × Nat)) (sid pos root info : Nat) :
    let es := xrefStreamEntries x cmap sid pos
    let data := xrefStreamData cfg z es
    (kFilter, kFlate) ∈ xrefStreamDict es.length root info (widths es) data.length ∧
    zlibHeaderOk data = false := by
  intro es data
  refine ⟨by simp [xrefStreamDict], ?_⟩
  have hd : data = encodeEntries (widths es) es := by
    simp [data, xrefStreamData, hc]
  obtain ⟨tl, htl⟩ : ∃ tl, es = .free 0 65535 :: tl := ⟨_, rfl⟩
  rw [hd, htl]
  obtain ⟨t, ht⟩ := encodeEntries_head_zero (widths (.free 0 65535 :: tl)) (widths_fst _) 0 65535 tl
  rw [ht]
  exact zlibHeaderOk_zero t

/-- since repair 67304722: without compression NO filter is declared (and the data is the raw entry
table, which `C03_written_xref_stream_decodes` reads back) -/
theorem C03_no_filter_when_uncompressed (n root info : Nat) (w : Nat × Nat × Nat) (len : Nat) :
    ∀ e ∈ xrefStreamDictCfg false n root info w len, e.1 ≠ kFilter := by
  intro e he
  simp only [xrefStreamDictCfg, Bool.false_eq_true, if_false, List.mem_filter] at he
  simpa using he.2

/-- …and nothing else is lost: every other entry of `create_dictionary` + /Length is still there -/
theorem C03_uncompressed_dict_keeps_rest (n root info : Nat) (w : Nat × Nat × Nat) (len : Nat) :
    xrefStreamDictCfg false n root info w len =
      [(kType, kXRefName), (kSize, dec n), (kRoot, refBytes root), (kInfo, refBytes info),
       (kW, arr3 w.1 w.2.1 w.2.2), (kIndex, arr2 0 n), (kLength, dec len)] := by
  simp [xrefStreamDictCfg, xrefStreamDict, kType, kSize, kRoot, kInfo, kW, kIndex, kFilter, kLength]

example : (kFilter, kFlate) ∈ xrefStreamDictCfg true 3 1 2 (1, 1, 1) 9 := by
  simp [xrefStreamDictCfg, xrefStreamDict]

/-- the same defect does not exist when compressing, PROVIDED the compressor emits a zlib stream -/
theorem C03_xref_filter_ok_partial (cfg : Cfg) (hc : cfg.compress = true) (z : List Nat → List Nat)
    (hz : ∀ b, zlibHeaderOk (z b) = true) (es : List Entry) :
    zlibHeaderOk (xrefStreamData cfg z es) = true := by
  simp [xrefStreamData, hc, hz]

example : zlibHeaderOk [0x78, 0x9C, 1, 2] = true := by decide

/-- buffering branch of `write_object`: nothing is recorded in `xref_positions` -/
theorem writeObjects_xref_ids (cfg : Cfg) (os : List Obj) (s : WState) :
    ∀ e ∈ (writeObjects cfg s os).xref,
      e ∈ s.xref ∨ ∃ o ∈ os, (cfg.objStreams && canCompress o.body) = false ∧ o.id = e.1 := by
  induction os generalizing s with
  | nil => intro e he; exact Or.inl he
  | cons o r ih =>
    intro e he
    simp only [writeObjects, List.foldl_cons] at he
    rcases ih (writeObject cfg s o) e he with h | ⟨o', ho', h1, h2⟩
    · unfold writeObject at h
      split at h
      · exact Or.inl h
      · rename_i hn
        simp only [writeObjectNow, writeBytes, List.mem_cons] at h
        rcases h with rfl | h
        · exact Or.inr ⟨o, List.mem_cons_self, by simpa using hn, rfl⟩
        · exact Or.inl h
    · exact Or.inr ⟨o', List.mem_cons_of_mem _ ho', h1, h2⟩

theorem numberFrom_ids (k : Nat) (cs : List (List (Nat × List Nat))) :
    ∀ st ∈ numberFrom k cs, k ≤ st.id := by
  induction cs generalizing k with
  | nil => simp [numberFrom]
  | cons c r ih =>
    intro st hst
    simp only [numberFrom, List.mem_cons] at hst
    rcases hst with rfl | h
    · exact Nat.le_refl _
    · have := ih (k + 1) st h; omega

theorem foldl_writeObjectNow_xref_ids (z : List Nat → List Nat) (sts : List ObjStm) (s : WState) :
    ∀ e ∈ (sts.foldl (fun s st => writeObjectNow s st.id (objStmBody z st)) s).xref,
      e ∈ s.xref ∨ ∃ st ∈ sts, st.id = e.1 := by
  induction sts generalizing s with
  | nil => intro e he; exact Or.inl he
  | cons st r ih =>
    intro e he
    simp only [List.foldl_cons] at he
    rcases ih _ e he with h | ⟨st', h1, h2⟩
    · simp only [writeObjectNow, writeBytes, List.mem_cons] at h
      rcases h with rfl | h
      · exact Or.inr ⟨st, List.mem_cons_self, rfl⟩
      · exact Or.inl h
    · exact Or.inr ⟨st', List.mem_cons_of_mem _ h1, h2⟩

/-- since repair 4d9cdfbe the writer reads the EFFECTIVE flag (`object_streams_enabled`): object
streams never occur together with a classic table, so the hypothesis of witness (c) below
(`objStreams = true` with `xrefStreams = false`) is unreachable from any user configuration -/
theorem C03_effective_objstm_implies_xref_stream (user : Cfg) :
    (Cfg.effective user).objStreams = true → (Cfg.effective user).xrefStreams = true := by
  cases user with
  | mk x o c => cases x <;> cases o <;> simp [Cfg.effective]

/-- the effective configuration changes nothing else, and nothing at all when xref streams are on -/
theorem C03_effective_id_with_xref_streams (user : Cfg) (h : user.xrefStreams = true) :
    Cfg.effective user = user := by
  cases user with
  | mk x o c => simp_all [Cfg.effective]

example : Cfg.effective ⟨false, true, true⟩ = ⟨false, false, true⟩ := by decide

/-- REGRESSION WITNESS (c) — about the writer reading the RAW flag, as it did before repair
4d9cdfbe — for every document: with `use_object_streams` a compressible object whose number
is not reused by a stream object gets NO recorded position; with a classic table
(`use_xref_streams = false`) `write_xref` therefore writes a FREE entry for it (or none at
all): the object, although referenced (catalog, page tree, pages, info … are all compressible),
cannot be reached by any reader. -/
theorem C03_witness_classic_objstm_unreachable (cfg : Cfg) (ho : cfg.objStreams = true)
    (z : List Nat → List Nat) (d : Doc) (o : Obj) (_hmem : o ∈ d.objs) (_hc : canCompress o.body = true)
    (hlt : o.id < kFirstStreamId)
    (huniq : ∀ o' ∈ d.objs, canCompress o'.body = false → o'.id ≠ o.id) :
    lookupOff (bodyState cfg z d).1.xref o.id = none ∧
    ∀ n, (classicEntries (bodyState cfg z d).1.xref)[o.id]? ≠ some (.inUse n 0) := by
  have hnone : ∀ p, (o.id, p) ∉ (bodyState cfg z d).1.xref := by
    intro p hp
    unfold bodyState at hp
    simp only [ho, if_true, flushObjectStreams] at hp
    rcases foldl_writeObjectNow_xref_ids z _ _ _ hp with h | ⟨st, hst, hid⟩
    · rcases writeObjects_xref_ids cfg d.objs _ _ h with h | ⟨o', ho', h1, h2⟩
      · simp [writeBytes, WState.init] at h
      · simp only [ho, Bool.true_and] at h1
        exact huniq o' ho' h1 h2
    · have := numberFrom_ids _ _ st hst
      simp only at hid
      omega
  constructor
  · cases hl : lookupOff (bodyState cfg z d).1.xref o.id with
    | none => rfl
    | some p => exact absurd (lookupOff_mem hl) (hnone p)
  · intro n hn
    exact hnone n (classicEntries_inUse hn).1

example : ∀ n, (classicEntries (bodyState ⟨false, true, true⟩ id
    { version := [49, 46, 53], objs := [⟨1, .plain [60, 60, 62, 62]⟩, ⟨4, .stream [] [7]⟩], nextId := 5 }).1.xref)[1]?
      ≠ some (.inUse n 0) :=
  (C03_witness_classic_objstm_unreachable ⟨false, true, true⟩ rfl id _ ⟨1, .plain [60, 60, 62, 62]⟩
    (by simp) rfl (by decide) (by intro o' ho' hc; simp at ho'; rcases ho' with rfl | rfl <;> simp_all [canCompress])).2

/-- WITNESS (API level, not reachable from `write_document`): `add_free_entry` never widens /W, so
a free entry whose `next` needs more than 3 bytes is silently truncated by `write_field` -/
theorem C03_witness_free_entry_not_widened :
    decodeEntries (widths [.free 16777216 0]) 1 (encodeEntries (widths [.free 16777216 0]) [.free 16777216 0])
      = some [.free 0 0] := by
  decide

end OxiVerif.C03
