import OxiVerif.Lemmas.C22
import OxiVerif.Model.C22Old
/-!
# C22 — batch processing reports every job exactly once under any schedule

Theorems about the transition system `OxiVerif.C22.step` (Model/C22.lean, a transcription of
`batch/worker.rs`, `batch/mod.rs`, `batch/progress.rs`), for ANY job list, ANY number of workers,
ANY outcome vector (success, error, panic, custom and non-custom jobs) and ANY interleaving
(`Reachable` = any finite sequence of atomic actions): no bound anywhere.

The FULL statement of the property is proved (`C22_quiescent`, `C22_stop_on_error`,
`C22_execute_returns`, `C22_every_step_decreases`):
   ∀ cfg s, 0 < cfg.workers → Reachable cfg s → quiescent s →
        (summary cfg s).map Prod.fst = List.range cfg.jobs.length          -- one result per job, in order
      ∧ s.completed = countKind .success (summary cfg s)                   -- progress consistent
      ∧ s.failed = countKind .failed (summary cfg s) ∧ s.running = 0
      ∧ s.completed + s.failed + countKind .cancelled (summary cfg s) = cfg.jobs.length
   ∀ cfg s, Reachable cfg s → cfg.soe → s.ranLateF = []   -- nothing that started after a recorded failure ran
   and `execute` always returns (no deadlock before quiescence, every run is finite).
It was FALSE of the code before the repairs of C22-F1/F1b/F2/F3; the counter-witnesses at the end
of this file are kernel-checked statements about the PRE-repair transition relation
`OxiVerif.C22Old.step` (Model/C22Old.lean) — the regressions the check must catch.
-/
namespace OxiVerif.C22

/-- Every index is reported at most once, and only indices of submitted jobs are reported. -/
theorem C22_results_unique {cfg : Cfg} {s : St} (h : Reachable cfg s) :
    (s.sent.map Prod.fst).Nodup ∧ ∀ m ∈ s.sent, m.1 < cfg.jobs.length := by
  have inv := inv_reachable h
  constructor
  · rw [List.nodup_iff_count]
    intro k
    have := inv.tok k
    unfold tok at this
    split at this <;> omega
  · intro m hm
    have hpos : 0 < (s.sent.map Prod.fst).count m.1 :=
      List.count_pos_iff.mpr (List.mem_map.mpr ⟨m, hm, rfl⟩)
    have ht := inv.tok m.1
    unfold tok at ht
    have := inv.dnext_le
    split at ht <;> omega

theorem reachable_runActs {cfg : Cfg} {as : List Act} {s s' : St} (h : Reachable cfg s)
    (hr : runActs cfg s as = some s') : Reachable cfg s' := by
  induction as generalizing s with
  | nil => simp [runActs] at hr; exact hr ▸ h
  | cons a as ih =>
    simp only [runActs] at hr
    split at hr
    · rename_i s1 hs1; exact ih (.step h hs1) hr
    · cases hr

/-- run `as` from the initial state and test the final state -/
def check (cfg : Cfg) (as : List Act) (p : St → Bool) : Bool :=
  match runActs cfg (init cfg) as with
  | some s => p s
  | none => false

theorem check_sound {cfg : Cfg} {as : List Act} {p : St → Bool} (h : check cfg as p = true) :
    ∃ s, Reachable cfg s ∧ p s = true := by
  unfold check at h
  split at h
  · rename_i s hs; exact ⟨s, reachable_runActs .init hs, h⟩
  · cases h

/-- two jobs, two workers, both jobs reported, processing returned -/
def cfgEx : Cfg := ⟨[⟨true, .ok, false⟩, ⟨false, .err, false⟩], 2, false, false, false, false⟩
def actsEx : List Act :=
  [.dLoad, .dEnq, .deq false, .dLoad, .dEnq, .deq false, .w 1, .w 0, .w 0, .w 1, .w 1, .w 0, .w 0, .w 1,
   .w 0, .w 1, .w 0, .w 1, .w 1, .dClose]

example : ∃ s, Reachable cfgEx s ∧ (quiescent s && decide (s.sent = [(0, .success), (1, .failed)])) = true :=
  check_sound (as := actsEx) (by decide)

/-- Progress counters at every moment of every execution:
`running = started − finished` (no wrap-around of the `usize`), `running` = jobs between
`start_job` and `fetch_sub`, `completed`/`failed` = Success/Failed results already sent plus the
jobs between the counter increment and their `send`; every worker thread is idle or holds one job. -/
theorem C22_progress_invariant {cfg : Cfg} {s : St} (h : Reachable cfg s) :
    s.startedN = s.finishedN + s.running
    ∧ s.running = s.inflight.countP isRun
    ∧ s.completed = countKind .success s.sent + s.inflight.countP (isCnt true)
    ∧ s.failed = countKind .failed s.sent + s.inflight.countP (isCnt false)
    ∧ s.idleK + s.idleN + s.inflight.length = cfg.workers := by
  have inv := inv_reachable h
  exact ⟨inv.ghost, inv.running, inv.completed, inv.failed, inv.workers⟩

/-! ### quiescence -/

theorem lookupSent_some_mem {i : Nat} {kd : Kind} {l : List (Nat × Kind)} (h : lookupSent i l = some kd) :
    (i, kd) ∈ l := by
  unfold lookupSent at h
  cases hf : l.find? (fun m => m.1 == i) with
  | none => simp [hf] at h
  | some m =>
    simp only [hf, Option.map_some, Option.some.injEq] at h
    have h1 := List.find?_some hf
    have h2 := List.mem_of_find?_eq_some hf
    have : m = (i, kd) := by
      cases m; simp at h1 h; simp [h1, h]
    exact this ▸ h2

theorem lookupSent_of_mem {i : Nat} {kd : Kind} {l : List (Nat × Kind)} (hn : (l.map Prod.fst).Nodup)
    (h : (i, kd) ∈ l) : lookupSent i l = some kd := by
  induction l with
  | nil => simp at h
  | cons a l ih =>
    simp only [List.map_cons, List.nodup_cons] at hn
    rcases List.mem_cons.mp h with h | h
    · subst h; simp [lookupSent]
    · have hne : a.1 ≠ i := by
        intro e; apply hn.1; rw [e]; exact List.mem_map.mpr ⟨(i, kd), h, rfl⟩
      have := ih hn.2 h
      unfold lookupSent at this ⊢
      have hb : (a.1 == i) = false := by simpa using hne
      simp only [List.find?_cons, hb]
      exact this

theorem fst_filterMap_lookup (g : Nat → Option Kind) (l : List Nat) :
    (l.filterMap (fun i => (g i).map (fun k => (i, k)))).map Prod.fst = l.filter (fun i => (g i).isSome) := by
  induction l with
  | nil => rfl
  | cons a l ih =>
    cases hg : g a <;> simp [List.filterMap_cons, List.filter_cons, hg, ih]

theorem nodup_of_map {α β} (f : α → β) {l : List α} (h : (l.map f).Nodup) : l.Nodup := by
  induction l with
  | nil => exact List.nodup_nil
  | cons a l ih =>
    simp only [List.map_cons, List.nodup_cons] at h ⊢
    exact ⟨fun hm => h.1 (List.mem_map.mpr ⟨a, hm, rfl⟩), ih h.2⟩

theorem summary_perm_sent {cfg : Cfg} {s : St} (hn : (s.sent.map Prod.fst).Nodup)
    (hb : ∀ m ∈ s.sent, m.1 < cfg.jobs.length) : (summary cfg s).Perm s.sent := by
  have hfst := fst_filterMap_lookup (fun i => lookupSent i s.sent) (List.range cfg.jobs.length)
  apply (List.perm_ext_iff_of_nodup ?_ (nodup_of_map Prod.fst hn)).mpr
  · intro m
    unfold summary
    simp only [List.mem_filterMap, List.mem_range, Option.map_eq_some_iff]
    constructor
    · rintro ⟨i, _, kd, hk, rfl⟩; exact lookupSent_some_mem hk
    · intro hm
      exact ⟨m.1, hb m hm, m.2, lookupSent_of_mem hn hm, rfl⟩
  · apply nodup_of_map Prod.fst
    unfold summary
    rw [hfst]
    exact (List.nodup_range).filter _


/-- `Success`, `Failed` and `Cancelled` partition any list of results
(`BatchResult::{success_count, failure_count, cancelled_count}` add up to the number of results). -/
theorem C22_summary_partition (l : List (Nat × Kind)) :
    countKind .success l + countKind .failed l + countKind .cancelled l = l.length := by
  induction l with
  | nil => rfl
  | cons m l ih =>
    obtain ⟨i, k⟩ := m
    cases k <;> simp [countKind, List.filter_cons] at ih ⊢ <;> omega

example : resultCounts [(0, .success), (1, .cancelled), (2, .failed), (3, .success)] = (2, 1, 1) := by decide

/-- `BatchProcessor::execute`'s counting loop computes exactly the Success / Failed counts. -/
theorem C22_tally_counts (l : List (Nat × Kind)) :
    tally l = (countKind .success l, countKind .failed l) := by
  induction l with
  | nil => rfl
  | cons m l ih =>
    obtain ⟨i, k⟩ := m
    cases k <;> simp [tally, ih, countKind, List.filter_cons]

example : tally [(0, .success), (1, .cancelled), (2, .failed)] = (1, 1) := by decide

/-- `all_successful` iff the success count is the number of results -/
theorem C22_all_successful_iff (l : List (Nat × Kind)) :
    allSuccessful l = true ↔ countKind .success l = l.length := by
  induction l with
  | nil => simp [allSuccessful, countKind]
  | cons m l ih =>
    obtain ⟨i, k⟩ := m
    have hle : countKind .success l ≤ l.length := by unfold countKind; exact List.length_filter_le _ _
    cases k
    · have e1 : allSuccessful ((i, Kind.success) :: l) = allSuccessful l := by simp [allSuccessful]
      have e2 : countKind .success ((i, Kind.success) :: l) = countKind .success l + 1 := by simp [countKind]
      rw [e1, e2, ih]; simp
    · have e1 : allSuccessful ((i, Kind.failed) :: l) = false := by simp [allSuccessful]
      have e2 : countKind .success ((i, Kind.failed) :: l) = countKind .success l := by simp [countKind]
      rw [e1, e2]; simp; omega
    · have e1 : allSuccessful ((i, Kind.cancelled) :: l) = false := by simp [allSuccessful]
      have e2 : countKind .success ((i, Kind.cancelled) :: l) = countKind .success l := by simp [countKind]
      rw [e1, e2]; simp; omega

/-- what is known when `process_jobs` has returned -/
structure DoneFacts (cfg : Cfg) (s : St) : Prop where
  order : (summary cfg s).map Prod.fst = List.range cfg.jobs.length
  perm : (summary cfg s).Perm s.sent
  completed : s.completed = countKind .success s.sent
  failed : s.failed = countKind .failed s.sent
  running : s.running = 0

theorem done_facts {cfg : Cfg} {s : St} (h : Reachable cfg s) (hd : workersDone s = true)
    (hw : 0 < cfg.workers) : DoneFacts cfg s := by
  have inv := inv_reachable h
  obtain ⟨hnodup, hbound⟩ := C22_results_unique h
  simp only [workersDone, Bool.and_eq_true, beq_iff_eq, List.isEmpty_iff, Bool.or_eq_true] at hd
  obtain ⟨⟨hcl, hin⟩, hqe⟩ := hd
  have hidle : s.idleK + s.idleN = cfg.workers := by
    have := inv.workers; simp [hin] at this; exact this
  have hqueue : s.queue = [] := by
    rcases hqe with h1 | h1
    · exact h1
    · have : s.idleK + s.idleN = 0 := by simpa using h1
      omega
  have hdn : s.dnext = cfg.jobs.length := by
    rcases inv.closed hcl with h1 | h1
    · exact h1
    · omega
  have hperm := summary_perm_sent hnodup hbound
  refine ⟨?_, hperm, ?_, ?_, ?_⟩
  · unfold summary
    rw [fst_filterMap_lookup (fun i => lookupSent i s.sent)]
    apply List.filter_eq_self.mpr
    intro i hi
    have hi' : i < s.dnext := by rw [hdn]; simpa using hi
    have ht := inv.tok i
    simp only [tok, hqueue, hin, idxs, hi', ↓reduceIte, List.map_nil, List.count_nil, Nat.add_zero] at ht
    have hmem : i ∈ s.sent.map Prod.fst := List.count_pos_iff.mp (by omega)
    obtain ⟨m, hm, rfl⟩ := List.mem_map.mp hmem
    have := lookupSent_of_mem (kd := m.2) hnodup (by simpa using hm)
    simp [this]
  · have := inv.completed
    simpa only [hin, List.countP_nil, Nat.add_zero] using this
  · have := inv.failed
    simpa only [hin, List.countP_nil, Nat.add_zero] using this
  · have := inv.running
    simpa [hin] using this

theorem countKind_perm {k : Kind} {l l' : List (Nat × Kind)} (h : l.Perm l') : countKind k l = countKind k l' := by
  unfold countKind; exact (h.filter _).length_eq

example : 0 < cfgEx.workers := by decide

/-- FULL exactly-once clause — any job list (succeeding, failing AND panicking operations, custom and
non-custom), any `stop_on_error`, any cancellation timing, any interleaving, ≥ 1 worker thread
(the property's quantifier: parallelism 1..): when processing has returned, the summary holds
exactly one result per submitted job, in submission order; the progress counters equal the
Success / Failed counts of the summary, nothing is left running, and
completed + failed + cancelled = total. -/
theorem C22_quiescent {cfg : Cfg} {s : St} (h : Reachable cfg s) (hq : quiescent s = true)
    (hw : 0 < cfg.workers) :
    (summary cfg s).map Prod.fst = List.range cfg.jobs.length
    ∧ s.completed = countKind .success (summary cfg s)
    ∧ s.failed = countKind .failed (summary cfg s)
    ∧ s.running = 0
    ∧ s.completed + s.failed + countKind .cancelled (summary cfg s) = cfg.jobs.length := by
  simp only [quiescent, Bool.and_eq_true] at hq
  have d := done_facts h hq.1 hw
  have hlen : (summary cfg s).length = cfg.jobs.length := by
    have := congrArg List.length d.order
    simpa using this
  have hpart := C22_summary_partition (summary cfg s)
  refine ⟨d.order, ?_, ?_, d.running, ?_⟩
  · rw [d.completed]; exact (countKind_perm d.perm).symm
  · rw [d.failed]; exact (countKind_perm d.perm).symm
  · rw [d.completed, d.failed, ← countKind_perm d.perm, ← countKind_perm d.perm]; omega

/-! ### cancellation and stop_on_error -/

/-- one worker; job 0 sets the cancel flag from inside its operation, job 1 (custom) was queued before -/
def cfgEx2 : Cfg := ⟨[⟨true, .ok, true⟩, ⟨true, .ok, false⟩], 1, false, false, false, false⟩
def actsEx2 : List Act :=
  [.dLoad, .dEnq, .dLoad, .dEnq, .dClose, .deq false, .w 0, .w 0, .w 0, .w 0, .w 0, .w 0,
   .deq false, .w 1, .w 1]

/-- job 1 looks at the flag, finds it set, is reported `Cancelled` and its operation is not entered -/
example : ∃ s, Reachable cfgEx2 s ∧
    (quiescent s && decide (s.ranLog = [0]) && decide (s.sent = [(0, .success), (1, .cancelled)])) = true :=
  check_sound (as := actsEx2) (by decide)

/-- A job — custom or not — whose first statement finds the cancel flag set never enters its
operation: it is reported `Cancelled` by the worker.  (Before the repair of C22-F3 this held for
custom jobs only.) -/
theorem C22_cancelled_jobs_never_run {cfg : Cfg} {s : St} (h : Reachable cfg s) : s.ranLateC = [] :=
  (invS_reachable h).logC

/-- stop_on_error, one worker: a failing custom job, then a custom and a non-custom job queued behind it -/
def cfgEx3 : Cfg := ⟨[⟨true, .err, false⟩, ⟨true, .ok, false⟩, ⟨false, .ok, false⟩], 1, true, false, false, false⟩
def actsEx3 : List Act :=
  [.dLoad, .dEnq, .dLoad, .dEnq, .dLoad, .dEnq, .dClose, .deq false, .w 0, .w 0, .w 0, .w 0, .w 0, .w 0, .w 0,
   .deq true, .w 1, .w 1, .deq true, .w 2, .w 2]

example : ∃ s, Reachable cfgEx3 s ∧ cfgEx3.soe = true ∧
    (quiescent s && decide (s.ranLog = [0]) &&
      decide (s.sent = [(0, .failed), (1, .cancelled), (2, .cancelled)])) = true := by
  obtain ⟨s, h1, h2⟩ := check_sound (cfg := cfgEx3) (as := actsEx3)
    (p := fun s => quiescent s && decide (s.ranLog = [0]) &&
      decide (s.sent = [(0, .failed), (1, .cancelled), (2, .cancelled)])) (by decide)
  exact ⟨s, h1, rfl, h2⟩

/-- FULL stop-on-error clause — custom and non-custom jobs alike: with `stop_on_error`, no job whose
first statement ran after a failure had been recorded (some job had entered `fail_job()`) ever
enters its operation. -/
theorem C22_stop_on_error {cfg : Cfg} {s : St} (h : Reachable cfg s) (hs : cfg.soe = true) :
    s.ranLateF = [] :=
  (invS_reachable h).logF hs

/-- … because with `stop_on_error` the flag is raised before the failure is recorded: from the
moment any job has entered `fail_job()` the cancel flag is set, and a `Cancelled` result is only
ever reported while the flag is set. -/
theorem C22_flag_before_record {cfg : Cfg} {s : St} (h : Reachable cfg s) :
    (cfg.soe = true → 0 < s.failBegun → s.cancelled = true)
    ∧ (∀ m ∈ s.sent, m.2 = .cancelled → s.cancelled = true) :=
  ⟨(invS_reachable h).failBegun, (invS_reachable h).cancMsg⟩

/-! ### termination: `execute()` always returns -/

/-- when `process_jobs` has returned, the progress-callback thread can leave its loop: either
every job was counted as completed or failed, or some job was reported `Cancelled` — and then the
cancel flag is set -/
theorem monitor_can_exit {cfg : Cfg} {s : St} (h : Reachable cfg s) (hd : workersDone s = true)
    (hw : 0 < cfg.workers) : s.cancelled = true ∨ cfg.jobs.length ≤ s.completed + s.failed := by
  have d := done_facts h hd hw
  have hlen : s.sent.length = cfg.jobs.length := by
    rw [← d.perm.length_eq]
    have := congrArg List.length d.order
    simpa using this
  have hpart := C22_summary_partition s.sent
  by_cases hc : countKind .cancelled s.sent = 0
  · right; rw [d.completed, d.failed]; omega
  · left
    have hpos : 0 < (s.sent.filter (fun m => m.2 == Kind.cancelled)).length := by
      unfold countKind at hc; omega
    obtain ⟨m, hm⟩ := List.exists_mem_of_length_pos hpos
    have hm' := List.mem_filter.mp hm
    exact (invS_reachable h).cancMsg m hm'.1 (by simpa using hm'.2)

/-- no reachable state is `stuck` (the state in which `execute` could never return) -/
theorem C22_never_stuck {cfg : Cfg} {s : St} (h : Reachable cfg s) (hw : 0 < cfg.workers) :
    stuck cfg s = false := by
  cases hst : stuck cfg s with
  | false => rfl
  | true =>
    exfalso
    simp only [stuck, Bool.and_eq_true, Bool.not_eq_true', decide_eq_true_eq] at hst
    obtain ⟨⟨⟨⟨hd, _⟩, hc⟩, hlt⟩, _⟩ := hst
    rcases monitor_can_exit h hd hw with h1 | h1
    · rw [hc] at h1; cases h1
    · omega

/-- one job, a progress callback, the operation panics: the configuration in which `execute` used to hang -/
def cfgEx4 : Cfg := ⟨[⟨true, .panic, false⟩], 1, false, false, false, true⟩
def actsEx4 : List Act := [.dLoad, .dEnq, .dClose, .deq false, .w 0, .w 0, .w 0, .w 0, .w 0, .w 0, .w 0, .monExit]

/-- the panicking job is reported `Failed`, the callback thread leaves its loop, `execute` returns -/
example : ∃ s, Reachable cfgEx4 s ∧
    (quiescent s && decide (s.sent = [(0, .failed)]) && decide (s.failed = 1) && decide (s.running = 0)) = true :=
  check_sound (as := actsEx4) (by decide)

/-- No deadlock: in every reachable state in which `execute` / `process_jobs` has not yet returned,
some thread can take a step (≥ 1 worker thread; any outcomes — panics included —, any
`stop_on_error`, any cancellation, with or without progress callback). -/
theorem C22_execute_returns {cfg : Cfg} {s : St} (h : Reachable cfg s) (hw : 0 < cfg.workers)
    (hq : quiescent s = false) : ∃ a, (step cfg s a).isSome = true := by
  have inv := inv_reachable h
  cases hd : s.dpc with
  | top =>
    by_cases hlt : s.dnext < cfg.jobs.length
    · exact ⟨.dLoad, by simp [step, hd, hlt]⟩
    · exact ⟨.dClose, by simp [step, hd, hlt]⟩
  | sendC => exact ⟨.dSendC, by simp [step, hd]⟩
  | enq =>
    refine ⟨.dEnq, ?_⟩
    simp only [step, hd, ↓reduceIte]
    split <;> rfl
  | closed =>
    cases hin : s.inflight with
    | cons f l => exact ⟨.w f.idx, by simp [step, findFl, hin]⟩
    | nil =>
      have hidle : s.idleK + s.idleN = cfg.workers := by
        have := inv.workers; simpa [hin] using this
      cases hqu : s.queue with
      | cons k q =>
        by_cases hk : 0 < s.idleK
        · exact ⟨.deq true, by simp [step, hqu, hk]⟩
        · have hn : 0 < s.idleN := by omega
          exact ⟨.deq false, by simp [step, hqu, hn]⟩
      | nil =>
        have hdone : workersDone s = true := by simp [workersDone, hd, hin, hqu]
        have hmon : s.mon = true := by
          simp only [quiescent, hdone, Bool.true_and, Bool.not_eq_false'] at hq
          exact hq
        refine ⟨.monExit, ?_⟩
        have := monitor_can_exit h hdone hw
        simp only [step, hmon, true_and]
        rw [if_pos this]
        rfl

example : Reachable cfgEx (init cfgEx) ∧ quiescent (init cfgEx) = false := ⟨.init, by decide⟩

/-- … and every run is finite: each action strictly decreases `measure` (a natural number: what
the dispatcher, the queued jobs, the jobs in flight, the canceller and the callback thread still
have to do).  Together with `C22_execute_returns`: under any schedule, after at most
`measure cfg (init cfg)` actions `execute()` has returned. -/
theorem C22_every_step_decreases {cfg : Cfg} {s s' : St} {a : Act} (h : Reachable cfg s)
    (hs : step cfg s a = some s') : measure cfg s' < measure cfg s :=
  meas_step (inv_reachable h) hs

example : measure cfgEx (init cfgEx) = 21 := by decide

/-! ### progress accounting: what a (non-atomic) snapshot can show -/

theorem steps_reachable {cfg : Cfg} {s s' : St} (h : Reachable cfg s) (hs : Steps cfg s s') : Reachable cfg s' := by
  induction hs with
  | refl => exact h
  | step _ hst ih => exact .step ih hst

/-- The four progress counters never decrease … -/
theorem C22_counters_monotone_step {cfg : Cfg} {s s' : St} {a : Act} (hs : step cfg s a = some s') :
    s.completed ≤ s'.completed ∧ s.failed ≤ s'.failed ∧ s.startedN ≤ s'.startedN ∧ s.finishedN ≤ s'.finishedN := by
  cases a with
  | dLoad => simp only [step] at hs; split at hs <;> cases hs; simp
  | dClose => simp only [step] at hs; split at hs <;> cases hs; simp
  | dSendC => simp only [step] at hs; split at hs <;> cases hs; simp
  | dEnq =>
    simp only [step] at hs; split at hs
    · split at hs <;> cases hs <;> simp
    · cases hs
  | extCancel => simp only [step] at hs; split at hs <;> cases hs; simp
  | monExit => simp only [step] at hs; split at hs <;> cases hs; simp
  | deq b =>
    simp only [step] at hs
    split at hs
    · cases hs
    · cases b
      · simp only [Bool.false_eq_true, ↓reduceIte] at hs
        split at hs <;> cases hs; simp
      · simp only [↓reduceIte] at hs
        split at hs <;> cases hs; simp
  | w k =>
    simp only [step] at hs
    split at hs
    · cases hs
    · rename_i f hf
      cases hs
      unfold wstep
      dsimp only
      split
      · simp
      · unfold release; split <;> simp
      · simp
      · unfold runOp; dsimp only; split <;> simp
      · simp
      · simp
      · rename_i r _; cases r <;> simp
      · unfold release; split <;> simp

/-- … along any run. -/
theorem C22_counters_monotone {cfg : Cfg} {s s' : St} (hs : Steps cfg s s') :
    s.completed ≤ s'.completed ∧ s.failed ≤ s'.failed ∧ s.startedN ≤ s'.startedN ∧ s.finishedN ≤ s'.finishedN := by
  induction hs with
  | refl => simp
  | step _ hst ih =>
    have := C22_counters_monotone_step hst
    omega

theorem length_le_of_nodup_lt : ∀ (n : Nat) (l : List Nat), l.Nodup → (∀ k ∈ l, k < n) → l.length ≤ n
  | 0, l, _, hb => by
    cases l with
    | nil => simp
    | cons a t => exact absurd (hb a (by simp)) (by omega)
  | n + 1, l, hn, hb => by
    have ih := length_le_of_nodup_lt n (l.erase n) (hn.erase n) (by
      intro k hk
      have h1 := (List.Nodup.mem_erase_iff hn).mp hk
      have h2 := hb k h1.2
      have h3 := h1.1
      omega)
    have : l.length ≤ (l.erase n).length + 1 := by
      rw [List.length_erase]; split <;> omega
    omega

/-- at every moment: every counted job was submitted, and no more jobs run than there are workers -/
theorem C22_counters_bounded {cfg : Cfg} {s : St} (h : Reachable cfg s) :
    s.completed + s.failed ≤ cfg.jobs.length ∧ s.running ≤ cfg.workers
    ∧ s.completed + s.failed + s.running ≤ s.dnext := by
  have inv := inv_reachable h
  obtain ⟨hnodup, hbound⟩ := C22_results_unique h
  -- count the job indices: sent ∪ in flight ⊆ [0, dnext)
  have hsub : (s.sent.map Prod.fst ++ idxs s.inflight).Nodup ∧
      ∀ k ∈ (s.sent.map Prod.fst ++ idxs s.inflight), k < s.dnext := by
    constructor
    · rw [List.nodup_iff_count]
      intro k
      have := inv.tok k
      unfold tok at this
      rw [List.count_append]
      split at this <;> omega
    · intro k hk
      have hpos : 0 < (s.sent.map Prod.fst ++ idxs s.inflight).count k := List.count_pos_iff.mpr hk
      rw [List.count_append] at hpos
      have := inv.tok k
      unfold tok at this
      split at this
      · assumption
      · omega
  have hlen : s.sent.length + s.inflight.length ≤ s.dnext := by
    have := length_le_of_nodup_lt s.dnext _ hsub.1 hsub.2
    simpa [idxs] using this
  have hpart := C22_summary_partition s.sent
  have h3 : s.inflight.countP isRun + s.inflight.countP (isCnt true) + s.inflight.countP (isCnt false)
      ≤ s.inflight.length := by
    generalize s.inflight = l
    induction l with
    | nil => simp
    | cons f l ih =>
      simp only [List.countP_cons, List.length_cons]
      have : (if isRun f = true then 1 else 0) + (if isCnt true f = true then 1 else 0)
          + (if isCnt false f = true then 1 else 0) ≤ 1 := by
        unfold isRun isCnt
        cases f.pc <;> simp
        rename_i r; cases r <;> simp
      omega
  have hr := inv.running
  have hc := inv.completed
  have hf := inv.failed
  have hw := inv.workers
  have hd := inv.dnext_le
  have hrl : s.inflight.countP isRun ≤ s.inflight.length := List.countP_le_length
  refine ⟨by omega, by omega, by omega⟩

/-- `BatchProgress::get_info` reads `completed`, `failed` and `running` one after the other, so a
progress callback sees values from three (ordered) moments `s1 →* s2 →* s3` of the run.  Whatever
the interleaving, such a snapshot never reports more processed jobs than were submitted nor more
running jobs than there are workers, and `is_complete()` on it is never true too early:
if `completed + failed ≥ total` on the snapshot then every job really has been counted. -/
theorem C22_snapshot_consistent {cfg : Cfg} {s1 s2 s3 : St} (h : Reachable cfg s1)
    (h12 : Steps cfg s1 s2) (h23 : Steps cfg s2 s3) :
    s1.completed + s2.failed ≤ cfg.jobs.length ∧ s3.running ≤ cfg.workers
    ∧ (cfg.jobs.length ≤ s1.completed + s2.failed → s2.completed + s2.failed = cfg.jobs.length) := by
  have r2 := steps_reachable h h12
  have r3 := steps_reachable r2 h23
  have m12 := C22_counters_monotone h12
  have b2 := C22_counters_bounded r2
  have b3 := C22_counters_bounded r3
  refine ⟨by omega, b3.2.1, by omega⟩

example : Steps cfgEx (init cfgEx) (init cfgEx) := .refl _

end OxiVerif.C22

/-! ### counter-witnesses: the FULL statement was false of the code BEFORE the repairs

Statements about `OxiVerif.C22Old.step`, the transition relation of the batch module as it was
before the `fix:` commits for C22-F3 (look at the flag before starting a queued job, flag raised
before the failure is recorded), C22-F2 (custom jobs raise the flag too) and C22-F1/F1b
(`catch_unwind` around the operation).  Each witness is a concrete action sequence of that model,
replayed by the kernel (`decide`); the same requests are in `corpus/C22/*.req` and must now pass
on the real code.  A change that re-introduces one of these behaviours makes the implementation
leave the repaired model's reachable set (and fail the oracle). -/
namespace OxiVerif.C22Old

theorem reachable_runActs {cfg : Cfg} {as : List Act} {s s' : St} (h : Reachable cfg s)
    (hr : runActs cfg s as = some s') : Reachable cfg s' := by
  induction as generalizing s with
  | nil => simp [runActs] at hr; exact hr ▸ h
  | cons a as ih =>
    simp only [runActs] at hr
    split at hr
    · rename_i s1 hs1; exact ih (.step h hs1) hr
    · cases hr

/-- run `as` from the initial state and test the final state -/
def check (cfg : Cfg) (as : List Act) (p : St → Bool) : Bool :=
  match runActs cfg (init cfg) as with
  | some s => p s
  | none => false

theorem check_sound {cfg : Cfg} {as : List Act} {p : St → Bool} (h : check cfg as p = true) :
    ∃ s, Reachable cfg s ∧ p s = true := by
  unfold check at h
  split at h
  · rename_i s hs; exact ⟨s, reachable_runActs .init hs, h⟩
  · cases h



/-- two custom jobs, the second panics, two workers -/
def cfgW1 : Cfg := ⟨[⟨true, .ok, false⟩, ⟨true, .panic, false⟩], 2, false, false, false, false⟩
def actsW1 : List Act :=
  [.dLoad, .dEnq, .dLoad, .dEnq, .dClose, .deq false, .w 0, .w 0, .w 0, .w 0, .w 0, .w 0,
   .deq false, .w 1, .w 1, .w 1]

/-- F1: a panicking operation loses its result: processing returns with ONE result for TWO jobs
and `running_jobs = 1`. -/
theorem C22_witness_panic_loses_result :
    ¬ (∀ s, Reachable cfgW1 s → quiescent s = true →
        (summary cfgW1 s).map Prod.fst = List.range cfgW1.jobs.length ∧ s.running = 0) := by
  intro hall
  obtain ⟨s, hr, hp⟩ := check_sound (cfg := cfgW1) (as := actsW1)
    (p := fun s => quiescent s && decide ((summary cfgW1 s).map Prod.fst = [0]) && decide (s.running = 1))
    (by decide)
  simp only [Bool.and_eq_true, decide_eq_true_eq] at hp
  have := hall s hr hp.1.1
  rw [hp.1.2] at this
  exact absurd this.1 (by decide)

/-- one panicking job, one worker, progress callback installed -/
def cfgW1b : Cfg := ⟨[⟨true, .panic, false⟩], 1, false, false, false, true⟩
def actsW1b : List Act := [.dLoad, .dEnq, .dClose, .deq false, .w 0, .w 0, .w 0]

/-- In a `stuck` state nothing can move any more: the polling thread never leaves its loop and
`execute`, which joins it, never returns. -/
theorem C22_stuck_is_deadlock {cfg : Cfg} {s : St} (h : stuck cfg s = true) (a : Act) : step cfg s a = none := by
  simp only [stuck, workersDone, Bool.and_eq_true, beq_iff_eq, List.isEmpty_iff, Bool.or_eq_true,
    Bool.not_eq_true', decide_eq_true_eq] at h
  obtain ⟨⟨⟨⟨⟨⟨⟨hcl, hin⟩, hst⟩, hq⟩, hmon⟩, hc⟩, hlt⟩, hext⟩ := h
  cases a with
  | dLoad => simp [step, hcl]
  | dSendC => simp [step, hcl]
  | dEnq => simp [step, hcl]
  | dClose => simp [step, hcl]
  | deq b =>
    rcases hq with hq | hq
    · simp [step, hq]
    · have : s.idleK = 0 ∧ s.idleN = 0 := by
        have : s.idleK + s.idleN = 0 := by simpa using hq
        omega
      cases hqq : s.queue <;> cases b <;> simp [step, hqq, this.1, this.2]
  | w k => simp [step, hin, findFl]
  | store k => simp [step, hst, findFl]
  | extCancel =>
    rcases hext with hext | hext
    · simp [step, hext]
    · simp [step, hext]
  | monExit =>
    simp only [step]
    rw [if_neg]
    intro hh
    rcases hh.2 with h1 | h1
    · simp [hc] at h1
    · omega

example : ∃ s, Reachable cfgW1b s ∧ stuck cfgW1b s = true := check_sound (as := actsW1b) (by decide)

/-- F1b: with a progress callback, a panicking operation leads to a reachable deadlock before any
summary exists. -/
theorem C22_witness_panic_hangs_execute :
    ∃ s, Reachable cfgW1b s ∧ quiescent s = false ∧ ∀ a, step cfgW1b s a = none := by
  obtain ⟨s, hr, hp⟩ := check_sound (cfg := cfgW1b) (as := actsW1b)
    (p := fun s => stuck cfgW1b s && !quiescent s) (by decide)
  simp only [Bool.and_eq_true, Bool.not_eq_true'] at hp
  exact ⟨s, hr, hp.2, C22_stuck_is_deadlock hp.1⟩

/-- stop_on_error, one worker, a failing custom job followed by a custom job -/
def cfgW2 : Cfg := ⟨[⟨true, .err, false⟩, ⟨true, .ok, false⟩], 1, true, false, false, false⟩
def actsW2 : List Act :=
  [.dLoad, .dEnq, .dLoad, .dEnq, .dClose, .deq false, .w 0, .w 0, .w 0, .w 0, .w 0, .w 0,
   .deq true, .w 1, .w 1, .w 1]

/-- F2: `stop_on_error` is ignored for custom jobs: job 1 calls `start_job` when job 0's failure is
already recorded (`failed_jobs = 1`, result sent), the flag is still clear, and job 1 runs. -/
theorem C22_witness_custom_ignores_stop_on_error :
    ¬ (∀ s, Reachable cfgW2 s → cfgW2.soe = true → s.ranLateF = []) := by
  intro hall
  obtain ⟨s, hr, hp⟩ := check_sound (cfg := cfgW2) (as := actsW2)
    (p := fun s => decide (s.ranLateF = [1]) && !s.cancelled && decide (s.failed = 1)) (by decide)
  simp only [Bool.and_eq_true, decide_eq_true_eq] at hp
  have := hall s hr rfl
  rw [hp.1.1] at this
  exact absurd this (by decide)

/-- stop_on_error, one worker, a failing non-custom job followed by a queued non-custom job -/
def cfgW3 : Cfg := ⟨[⟨false, .err, false⟩, ⟨false, .ok, false⟩], 1, true, false, false, false⟩
def actsW3 : List Act :=
  [.dLoad, .dEnq, .dLoad, .dEnq, .dClose, .deq false, .w 0, .w 0, .w 0, .w 0, .w 0, .store 0,
   .deq false, .w 1, .w 1]

/-- F3: a non-custom failure does set the flag, but a job that was queued before starts AFTER the
failure is recorded and AFTER the flag is set, and still runs (`ranLateF` and `ranLateC`). -/
theorem C22_witness_queued_job_runs_after_failure :
    ¬ (∀ s, Reachable cfgW3 s → cfgW3.soe = true → s.ranLateF = []) := by
  intro hall
  obtain ⟨s, hr, hp⟩ := check_sound (cfg := cfgW3) (as := actsW3)
    (p := fun s => decide (s.ranLateF = [1]) && decide (s.ranLateC = [1]) && s.cancelled) (by decide)
  simp only [Bool.and_eq_true, decide_eq_true_eq] at hp
  have := hall s hr rfl
  rw [hp.1.1] at this
  exact absurd this (by decide)

/-- the flag is stored only after the failure is recorded: between `send(Failed)` and
`cancelled.store(true)` a custom job starts, sees a clear flag and runs -/
def cfgW3b : Cfg := ⟨[⟨false, .err, false⟩, ⟨true, .ok, false⟩], 2, true, false, false, false⟩
def actsW3b : List Act :=
  [.dLoad, .dEnq, .dLoad, .dEnq, .dClose, .deq false, .deq false, .w 0, .w 0, .w 0, .w 0, .w 0,
   .w 1, .w 1, .w 1, .store 0]

theorem C22_witness_flag_set_after_record :
    ¬ (∀ s, Reachable cfgW3b s → cfgW3b.soe = true → s.ranLateF = []) := by
  intro hall
  obtain ⟨s, hr, hp⟩ := check_sound (cfg := cfgW3b) (as := actsW3b)
    (p := fun s => decide (s.ranLateF = [1]) && decide (s.ranLateC = []) && s.cancelled) (by decide)
  simp only [Bool.and_eq_true, decide_eq_true_eq] at hp
  have := hall s hr rfl
  rw [hp.1.1] at this
  exact absurd this (by decide)

end OxiVerif.C22Old
