import OxiVerif.Lemmas.C22
/-!
# C22 — batch processing reports every job exactly once under any schedule

Theorems about the transition system `OxiVerif.C22.step` (Model/C22.lean, a transcription of
`batch/worker.rs`, `batch/mod.rs`, `batch/progress.rs`), for ANY job list, ANY number of workers,
ANY outcome vector and ANY interleaving (`Reachable` = any finite sequence of atomic actions):
no bound anywhere.

/- FULL (the property as stated):
   ∀ cfg s, Reachable cfg s → quiescent s →
        (summary cfg s).map Prod.fst = List.range cfg.jobs.length          -- one result per job, in order
      ∧ s.completed = countKind .success (summary cfg s)                   -- progress consistent
      ∧ s.failed = countKind .failed (summary cfg s) ∧ s.running = 0
      ∧ (cfg.soe → s.ranLateF = [])          -- nothing that started after a recorded failure ran
   and `execute` always returns (no `stuck` state is reachable).
   FALSE of the current code in four ways, each with a kernel-checked witness below:
     C22_witness_panic_loses_result, C22_witness_panic_hangs_execute,
     C22_witness_custom_ignores_stop_on_error, C22_witness_queued_job_runs_after_failure. -/
-/
namespace OxiVerif.C22

def panicFree (cfg : Cfg) : Prop := ∀ j ∈ cfg.jobs, j.out ≠ .panic

/-- Every index is reported at most once, and only indices of submitted jobs are reported. -/
theorem C22_results_unique {cfg : Cfg} {s : St} (h : Reachable cfg s) :
    (s.sent.map Prod.fst).Nodup ∧ ∀ m ∈ s.sent, m.1 < cfg.jobs.length := by
  have inv := inv_reachable h
  constructor
  · rw [List.nodup_iff_count]
    intro k
    have := inv.tok k
    unfold tok at this
    split at this <;> omega
  · intro m hm
    have hpos : 0 < (s.sent.map Prod.fst).count m.1 :=
      List.count_pos_iff.mpr (List.mem_map.mpr ⟨m, hm, rfl⟩)
    have ht := inv.tok m.1
    unfold tok at ht
    have := inv.dnext_le
    split at ht <;> omega

theorem reachable_runActs {cfg : Cfg} {as : List Act} {s s' : St} (h : Reachable cfg s)
    (hr : runActs cfg s as = some s') : Reachable cfg s' := by
  induction as generalizing s with
  | nil => simp [runActs] at hr; exact hr ▸ h
  | cons a as ih =>
    simp only [runActs] at hr
    split at hr
    · rename_i s1 hs1; exact ih (.step h hs1) hr
    · cases hr

/-- run `as` from the initial state and test the final state -/
def check (cfg : Cfg) (as : List Act) (p : St → Bool) : Bool :=
  match runActs cfg (init cfg) as with
  | some s => p s
  | none => false

theorem check_sound {cfg : Cfg} {as : List Act} {p : St → Bool} (h : check cfg as p = true) :
    ∃ s, Reachable cfg s ∧ p s = true := by
  unfold check at h
  split at h
  · rename_i s hs; exact ⟨s, reachable_runActs .init hs, h⟩
  · cases h

/-- two jobs, two workers, both jobs reported, processing returned -/
def cfgEx : Cfg := ⟨[⟨true, .ok, false⟩, ⟨false, .err, false⟩], 2, false, false, false, false⟩
def actsEx : List Act :=
  [.dLoad, .dEnq, .deq false, .dLoad, .dEnq, .deq false, .w 1, .w 0, .w 0, .w 1, .w 1, .w 0, .w 0, .w 1,
   .w 0, .w 1, .w 0, .dClose]

example : ∃ s, Reachable cfgEx s ∧ (quiescent s && decide (s.sent.length = 2)) = true :=
  check_sound (as := actsEx) (by decide)

/-- Progress counters at every moment of every execution:
`running = started − finished` (no wrap-around), `running` = jobs between `start_job` and
`fetch_sub` plus jobs whose operation panicked, `completed`/`failed` = Success/Failed results
already sent plus the jobs between the counter increment and their `send`. -/
theorem C22_progress_invariant {cfg : Cfg} {s : St} (h : Reachable cfg s) :
    s.startedN = s.finishedN + s.running
    ∧ s.running = s.inflight.countP isRun + s.lost.length
    ∧ s.completed = countKind .success s.sent + s.inflight.countP (isCnt true)
    ∧ s.failed = countKind .failed s.sent + s.inflight.countP (isCnt false)
    ∧ s.idleK + s.idleN + s.inflight.length + s.storing.length + s.lost.length = cfg.workers := by
  have inv := inv_reachable h
  exact ⟨inv.ghost, inv.running, inv.completed, inv.failed, inv.workers⟩

/-! ### quiescence -/

theorem lookupSent_some_mem {i : Nat} {kd : Kind} {l : List (Nat × Kind)} (h : lookupSent i l = some kd) :
    (i, kd) ∈ l := by
  unfold lookupSent at h
  cases hf : l.find? (fun m => m.1 == i) with
  | none => simp [hf] at h
  | some m =>
    simp only [hf, Option.map_some, Option.some.injEq] at h
    have h1 := List.find?_some hf
    have h2 := List.mem_of_find?_eq_some hf
    have : m = (i, kd) := by
      cases m; simp at h1 h; simp [h1, h]
    exact this ▸ h2

theorem lookupSent_of_mem {i : Nat} {kd : Kind} {l : List (Nat × Kind)} (hn : (l.map Prod.fst).Nodup)
    (h : (i, kd) ∈ l) : lookupSent i l = some kd := by
  induction l with
  | nil => simp at h
  | cons a l ih =>
    simp only [List.map_cons, List.nodup_cons] at hn
    rcases List.mem_cons.mp h with h | h
    · subst h; simp [lookupSent]
    · have hne : a.1 ≠ i := by
        intro e; apply hn.1; rw [e]; exact List.mem_map.mpr ⟨(i, kd), h, rfl⟩
      have := ih hn.2 h
      unfold lookupSent at this ⊢
      have hb : (a.1 == i) = false := by simpa using hne
      simp only [List.find?_cons, hb]
      exact this

theorem fst_filterMap_lookup (g : Nat → Option Kind) (l : List Nat) :
    (l.filterMap (fun i => (g i).map (fun k => (i, k)))).map Prod.fst = l.filter (fun i => (g i).isSome) := by
  induction l with
  | nil => rfl
  | cons a l ih =>
    cases hg : g a <;> simp [List.filterMap_cons, List.filter_cons, hg, ih]

theorem nodup_of_map {α β} (f : α → β) {l : List α} (h : (l.map f).Nodup) : l.Nodup := by
  induction l with
  | nil => exact List.nodup_nil
  | cons a l ih =>
    simp only [List.map_cons, List.nodup_cons] at h ⊢
    exact ⟨fun hm => h.1 (List.mem_map.mpr ⟨a, hm, rfl⟩), ih h.2⟩

theorem summary_perm_sent {cfg : Cfg} {s : St} (hn : (s.sent.map Prod.fst).Nodup)
    (hb : ∀ m ∈ s.sent, m.1 < cfg.jobs.length) : (summary cfg s).Perm s.sent := by
  have hfst := fst_filterMap_lookup (fun i => lookupSent i s.sent) (List.range cfg.jobs.length)
  apply (List.perm_ext_iff_of_nodup ?_ (nodup_of_map Prod.fst hn)).mpr
  · intro m
    unfold summary
    simp only [List.mem_filterMap, List.mem_range, Option.map_eq_some_iff]
    constructor
    · rintro ⟨i, _, kd, hk, rfl⟩; exact lookupSent_some_mem hk
    · intro hm
      exact ⟨m.1, hb m hm, m.2, lookupSent_of_mem hn hm, rfl⟩
  · apply nodup_of_map Prod.fst
    unfold summary
    rw [hfst]
    exact (List.nodup_range).filter _

/-- FULL statement restricted to panic-free job lists (any `stop_on_error`, any cancellation):
when processing has returned, the summary holds exactly one result per submitted job, in
submission order, the progress counters equal the Success / Failed counts of the summary and
nothing is left running.  (The `stop_on_error` ordering clause is NOT part of this theorem.) -/
example : panicFree cfgEx ∧ 0 < cfgEx.workers := by
  refine ⟨?_, by decide⟩
  intro j hj; simp [cfgEx] at hj; rcases hj with rfl | rfl <;> simp

theorem C22_quiescent_partial {cfg : Cfg} {s : St} (h : Reachable cfg s) (hq : quiescent s = true)
    (hpf : panicFree cfg) (hw : 0 < cfg.workers) :
    (summary cfg s).map Prod.fst = List.range cfg.jobs.length
    ∧ s.completed = countKind .success (summary cfg s)
    ∧ s.failed = countKind .failed (summary cfg s)
    ∧ s.running = 0 := by
  have inv := inv_reachable h
  obtain ⟨hnodup, hbound⟩ := C22_results_unique h
  simp only [quiescent, workersDone, Bool.and_eq_true, beq_iff_eq, List.isEmpty_iff, Bool.or_eq_true,
    Bool.not_eq_true'] at hq
  obtain ⟨⟨⟨⟨hcl, hin⟩, hst⟩, hqe⟩, _⟩ := hq
  -- no panics: nothing was lost
  have hlost : s.lost = [] := by
    cases hl : s.lost with
    | nil => rfl
    | cons k t =>
      have hp := inv.lostPanic k (by simp [hl])
      exfalso
      unfold specOf at hp
      cases hj : cfg.jobs[k]? with
      | none => simp [hj] at hp
      | some j =>
        simp only [hj, Option.getD_some] at hp
        exact hpf j (List.mem_of_getElem? hj) hp
  have hidle : s.idleK + s.idleN = cfg.workers := by
    have := inv.workers; simp [hin, hst, hlost] at this; exact this
  have hqueue : s.queue = [] := by
    rcases hqe with h1 | h1
    · exact h1
    · have : s.idleK + s.idleN = 0 := by simpa using h1
      omega
  have hdn : s.dnext = cfg.jobs.length := by
    rcases inv.closed hcl with h1 | h1
    · exact h1
    · omega
  have hperm := summary_perm_sent hnodup hbound
  refine ⟨?_, ?_, ?_, ?_⟩
  · unfold summary
    rw [fst_filterMap_lookup (fun i => lookupSent i s.sent)]
    apply List.filter_eq_self.mpr
    intro i hi
    have hi' : i < s.dnext := by rw [hdn]; simpa using hi
    have ht := inv.tok i
    simp only [tok, hqueue, hin, hlost, idxs, hi', ↓reduceIte, List.map_nil, List.count_nil, Nat.add_zero] at ht
    have hmem : i ∈ s.sent.map Prod.fst := List.count_pos_iff.mp (by omega)
    obtain ⟨m, hm, rfl⟩ := List.mem_map.mp hmem
    have := lookupSent_of_mem (kd := m.2) hnodup (by simpa using hm)
    simp [this]
  · have := inv.completed
    simp only [hin, List.countP_nil, Nat.add_zero] at this
    rw [this]; unfold countKind; exact ((hperm.filter _).length_eq).symm
  · have := inv.failed
    simp only [hin, List.countP_nil, Nat.add_zero] at this
    rw [this]; unfold countKind; exact ((hperm.filter _).length_eq).symm
  · have := inv.running
    simp [hin, hlost] at this; exact this

/-! ### cancellation: the part of the ordering clause that does hold -/

/-- one worker; job 0 sets the cancel flag from inside its operation, job 1 (custom) was queued before -/
def cfgEx2 : Cfg := ⟨[⟨true, .ok, true⟩, ⟨true, .ok, false⟩], 1, false, false, false, false⟩
def actsEx2 : List Act :=
  [.dLoad, .dEnq, .dLoad, .dEnq, .dClose, .deq false, .w 0, .w 0, .w 0, .w 0, .w 0, .w 0,
   .deq false, .w 1, .w 1, .w 1, .w 1, .w 1]

/-- job 1 calls `start_job` with the flag set, is reported `Failed` and its operation is not entered -/
example : ∃ s, Reachable cfgEx2 s ∧
    (quiescent s && decide (s.ranLog = [0]) && decide (s.sent = [(0, .success), (1, .failed)])) = true :=
  check_sound (as := actsEx2) (by decide)

/-- A CUSTOM job that calls `start_job` when the cancel flag is already set never enters its
operation: every operation entered by a job that started with the flag set belongs to a
non-custom job (for those the code does not look at the flag — finding F3). -/
theorem C22_custom_jobs_respect_flag {cfg : Cfg} {s : St} (h : Reachable cfg s) :
    ∀ j ∈ s.ranLateC, (specOf cfg j).custom = false :=
  (invC_reachable h).log

/-! ### counter-witnesses: the FULL statement is false of the code as it is

Each witness is a concrete action sequence of the model, replayed by the kernel (`decide`).
The same behaviours are reproduced on the real code by `corpus/C22/*.req`. -/

/-- two custom jobs, the second panics, two workers -/
def cfgW1 : Cfg := ⟨[⟨true, .ok, false⟩, ⟨true, .panic, false⟩], 2, false, false, false, false⟩
def actsW1 : List Act :=
  [.dLoad, .dEnq, .dLoad, .dEnq, .dClose, .deq false, .w 0, .w 0, .w 0, .w 0, .w 0, .w 0,
   .deq false, .w 1, .w 1, .w 1]

/-- F1: a panicking operation loses its result: processing returns with ONE result for TWO jobs
and `running_jobs = 1`. -/
theorem C22_witness_panic_loses_result :
    ¬ (∀ s, Reachable cfgW1 s → quiescent s = true →
        (summary cfgW1 s).map Prod.fst = List.range cfgW1.jobs.length ∧ s.running = 0) := by
  intro hall
  obtain ⟨s, hr, hp⟩ := check_sound (cfg := cfgW1) (as := actsW1)
    (p := fun s => quiescent s && decide ((summary cfgW1 s).map Prod.fst = [0]) && decide (s.running = 1))
    (by decide)
  simp only [Bool.and_eq_true, decide_eq_true_eq] at hp
  have := hall s hr hp.1.1
  rw [hp.1.2] at this
  exact absurd this.1 (by decide)

/-- one panicking job, one worker, progress callback installed -/
def cfgW1b : Cfg := ⟨[⟨true, .panic, false⟩], 1, false, false, false, true⟩
def actsW1b : List Act := [.dLoad, .dEnq, .dClose, .deq false, .w 0, .w 0, .w 0]

/-- In a `stuck` state nothing can move any more: the polling thread never leaves its loop and
`execute`, which joins it, never returns. -/
theorem C22_stuck_is_deadlock {cfg : Cfg} {s : St} (h : stuck cfg s = true) (a : Act) : step cfg s a = none := by
  simp only [stuck, workersDone, Bool.and_eq_true, beq_iff_eq, List.isEmpty_iff, Bool.or_eq_true,
    Bool.not_eq_true', decide_eq_true_eq] at h
  obtain ⟨⟨⟨⟨⟨⟨⟨hcl, hin⟩, hst⟩, hq⟩, hmon⟩, hc⟩, hlt⟩, hext⟩ := h
  cases a with
  | dLoad => simp [step, hcl]
  | dSendC => simp [step, hcl]
  | dEnq => simp [step, hcl]
  | dClose => simp [step, hcl]
  | deq b =>
    rcases hq with hq | hq
    · simp [step, hq]
    · have : s.idleK = 0 ∧ s.idleN = 0 := by
        have : s.idleK + s.idleN = 0 := by simpa using hq
        omega
      cases hqq : s.queue <;> cases b <;> simp [step, hqq, this.1, this.2]
  | w k => simp [step, hin, findFl]
  | store k => simp [step, hst, findFl]
  | extCancel =>
    rcases hext with hext | hext
    · simp [step, hext]
    · simp [step, hext]
  | monExit =>
    simp only [step]
    rw [if_neg]
    intro hh
    rcases hh.2 with h1 | h1
    · simp [hc] at h1
    · omega

example : ∃ s, Reachable cfgW1b s ∧ stuck cfgW1b s = true := check_sound (as := actsW1b) (by decide)

/-- F1b: with a progress callback, a panicking operation leads to a reachable deadlock before any
summary exists. -/
theorem C22_witness_panic_hangs_execute :
    ∃ s, Reachable cfgW1b s ∧ quiescent s = false ∧ ∀ a, step cfgW1b s a = none := by
  obtain ⟨s, hr, hp⟩ := check_sound (cfg := cfgW1b) (as := actsW1b)
    (p := fun s => stuck cfgW1b s && !quiescent s) (by decide)
  simp only [Bool.and_eq_true, Bool.not_eq_true'] at hp
  exact ⟨s, hr, hp.2, C22_stuck_is_deadlock hp.1⟩

/-- stop_on_error, one worker, a failing custom job followed by a custom job -/
def cfgW2 : Cfg := ⟨[⟨true, .err, false⟩, ⟨true, .ok, false⟩], 1, true, false, false, false⟩
def actsW2 : List Act :=
  [.dLoad, .dEnq, .dLoad, .dEnq, .dClose, .deq false, .w 0, .w 0, .w 0, .w 0, .w 0, .w 0,
   .deq true, .w 1, .w 1, .w 1]

/-- F2: `stop_on_error` is ignored for custom jobs: job 1 calls `start_job` when job 0's failure is
already recorded (`failed_jobs = 1`, result sent), the flag is still clear, and job 1 runs. -/
theorem C22_witness_custom_ignores_stop_on_error :
    ¬ (∀ s, Reachable cfgW2 s → cfgW2.soe = true → s.ranLateF = []) := by
  intro hall
  obtain ⟨s, hr, hp⟩ := check_sound (cfg := cfgW2) (as := actsW2)
    (p := fun s => decide (s.ranLateF = [1]) && !s.cancelled && decide (s.failed = 1)) (by decide)
  simp only [Bool.and_eq_true, decide_eq_true_eq] at hp
  have := hall s hr rfl
  rw [hp.1.1] at this
  exact absurd this (by decide)

/-- stop_on_error, one worker, a failing non-custom job followed by a queued non-custom job -/
def cfgW3 : Cfg := ⟨[⟨false, .err, false⟩, ⟨false, .ok, false⟩], 1, true, false, false, false⟩
def actsW3 : List Act :=
  [.dLoad, .dEnq, .dLoad, .dEnq, .dClose, .deq false, .w 0, .w 0, .w 0, .w 0, .w 0, .store 0,
   .deq false, .w 1, .w 1]

/-- F3: a non-custom failure does set the flag, but a job that was queued before starts AFTER the
failure is recorded and AFTER the flag is set, and still runs (`ranLateF` and `ranLateC`). -/
theorem C22_witness_queued_job_runs_after_failure :
    ¬ (∀ s, Reachable cfgW3 s → cfgW3.soe = true → s.ranLateF = []) := by
  intro hall
  obtain ⟨s, hr, hp⟩ := check_sound (cfg := cfgW3) (as := actsW3)
    (p := fun s => decide (s.ranLateF = [1]) && decide (s.ranLateC = [1]) && s.cancelled) (by decide)
  simp only [Bool.and_eq_true, decide_eq_true_eq] at hp
  have := hall s hr rfl
  rw [hp.1.1] at this
  exact absurd this (by decide)

/-- the flag is stored only after the failure is recorded: between `send(Failed)` and
`cancelled.store(true)` a custom job starts, sees a clear flag and runs -/
def cfgW3b : Cfg := ⟨[⟨false, .err, false⟩, ⟨true, .ok, false⟩], 2, true, false, false, false⟩
def actsW3b : List Act :=
  [.dLoad, .dEnq, .dLoad, .dEnq, .dClose, .deq false, .deq false, .w 0, .w 0, .w 0, .w 0, .w 0,
   .w 1, .w 1, .w 1, .store 0]

theorem C22_witness_flag_set_after_record :
    ¬ (∀ s, Reachable cfgW3b s → cfgW3b.soe = true → s.ranLateF = []) := by
  intro hall
  obtain ⟨s, hr, hp⟩ := check_sound (cfg := cfgW3b) (as := actsW3b)
    (p := fun s => decide (s.ranLateF = [1]) && decide (s.ranLateC = []) && s.cancelled) (by decide)
  simp only [Bool.and_eq_true, decide_eq_true_eq] at hp
  have := hall s hr rfl
  rw [hp.1.1] at this
  exact absurd this (by decide)

end OxiVerif.C22
