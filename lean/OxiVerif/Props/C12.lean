import OxiVerif.Lemmas.C12
import OxiVerif.Lemmas.C12Bytes
set_option linter.unusedSimpArgs false
set_option linter.unusedVariables false
/-!
C12 — font subsetting keeps every requested glyph intact.

Theorems about the model `OxiVerif.C12` (Model/C12.lean) of
`text/fonts/truetype_subsetter.rs`.  All statements are for arbitrary abstract fonts
(arbitrary component graphs, cyclic ones included), arbitrary used-character lists and
arbitrary sizes; nothing is bounded.
-/
namespace OxiVerif.C12

/-! ## 1. `expand_composite_glyphs`: terminates, is the least closed superset -/

/-- The worklist loop terminates on EVERY component graph over u16 glyph ids — cyclic graphs
    (a composite that reaches itself) included: the model's fuel `|init| + 65536` always
    suffices.  Measure: worklist length + number of u16 ids not yet in the set. -/
theorem C12_closure_terminates (glyph : Gid → Glyph) (init : List Gid)
    (hU : ∀ g, ∀ c ∈ (glyph g).comps, c < 65536) (hn : init.Nodup) (hi : ∀ x ∈ init, x < 65536) :
    (closure glyph init).isSome := by
  unfold closure fuelBound
  apply expand_terminates 65536 hU _ _ _ hn hi
  have := length_le_of_nodup_bound hn hi
  omega

/-- self-referencing and mutually-referencing composites: the loop stops and keeps both -/
example : closure (fun g => if g = 7 then .composite 0 [(7, 1), (8, 2)]
                            else if g = 8 then .composite 0 [(7, 3), (1, 4)] else .simple g) [0, 7]
          = some [1, 8, 0, 7] := by decide

/-- The result contains the start set and is closed under "component of". -/
theorem C12_closure_sound (glyph : Gid → Glyph) (init r : List Gid)
    (h : closure glyph init = some r) :
    (∀ x ∈ init, x ∈ r) ∧ (∀ g ∈ r, ∀ c ∈ (glyph g).comps, c ∈ r) := by
  unfold closure at h
  exact expand_closed _ _ _ r ⟨fun x hx => hx, fun g hg hng => absurd hg hng⟩ h

/-- …and it is the LEAST such set: every member is reachable from the start set through
    component references (so the result does not depend on the HashSet iteration order). -/
theorem C12_closure_minimal (glyph : Gid → Glyph) (init r : List Gid)
    (h : closure glyph init = some r) :
    ∀ x ∈ r, Reach (fun g => (glyph g).comps) init x := by
  unfold closure at h
  exact expand_minimal init _ _ _ r (fun x hx => hx) (fun x hx => Reach.base hx) h

theorem C12_closure_nodup (glyph : Gid → Glyph) (init r : List Gid) (hn : init.Nodup)
    (h : closure glyph init = some r) : r.Nodup := by
  unfold closure at h
  exact expand_nodup _ _ _ r hn h

/-- `.notdef` and the glyph of every mapped requested character are in the start set. -/
theorem C12_initNeeded (used : List Nat) (cmap : Nat → Option Gid) :
    0 ∈ initNeeded used cmap ∧ (initNeeded used cmap).Nodup ∧
      ∀ c ∈ used, ∀ g, cmap c = some g → g ∈ initNeeded used cmap := by
  unfold initNeeded
  refine ⟨?_, ?_, ?_⟩
  · exact (foldl_insertNew_mem _ _ _).mpr (Or.inl (by simp))
  · exact foldl_insertNew_nodup _ _ (by simp)
  · intro c hc g hg
    refine (foldl_insertNew_mem _ _ _).mpr (Or.inr ?_)
    exact List.mem_filterMap.mpr ⟨c, hc, hg⟩

example : initNeeded [65, 66, 65] (fun c => if c = 65 then some 36 else none) = [36, 0] := by decide

/-! ## 2. `renumber_and_build`: order-preserving bijection onto `0..N`, `.notdef ↦ 0` -/

/-- strictly monotone on the needed set -/
theorem C12_remap_strictMono (s : List Nat) (hs : s.Nodup) (a b : Nat) (ha : a ∈ s) (hb : b ∈ s)
    (hab : a < b) : (sortGids s).idxOf a < (sortGids s).idxOf b :=
  idxOf_strictMono (sortGids_lt s hs) ((sortGids_mem s a).mpr ha) ((sortGids_mem s b).mpr hb) hab

/-- into `0..N` -/
theorem C12_remap_lt (s : List Nat) (a : Nat) (ha : a ∈ s) : (sortGids s).idxOf a < s.length := by
  have := List.idxOf_lt_length_iff.mpr ((sortGids_mem s a).mpr ha)
  rwa [(sortGids_perm s).length_eq] at this

/-- onto `0..N` -/
theorem C12_remap_surj (s : List Nat) (hs : s.Nodup) (i : Nat) (hi : i < s.length) :
    ∃ a ∈ s, (sortGids s).idxOf a = i := by
  have hi' : i < (sortGids s).length := by rwa [(sortGids_perm s).length_eq]
  refine ⟨(sortGids s)[i], (sortGids_mem s _).mp (List.getElem_mem hi'), ?_⟩
  exact (sortGids_nodup s hs).idxOf_getElem i hi'

/-- `.notdef` keeps glyph id 0 -/
theorem C12_remap_notdef (s : List Nat) (hs : s.Nodup) (h0 : 0 ∈ s) : (sortGids s).idxOf 0 = 0 :=
  idxOf_zero (sortGids_lt s hs) ((sortGids_mem s 0).mpr h0)

/-- the glyph map is exactly `remap?` (defined on the needed set, nowhere else) -/
theorem C12_remap_defined_iff (s : List Nat) (g : Nat) : (remap? (sortGids s) g).isSome ↔ g ∈ s := by
  by_cases h : g ∈ sortGids s
  · simp [remap?_of_mem h, (sortGids_mem s g).mp h]
  · have hn : g ∉ s := fun h' => h ((sortGids_mem s g).mpr h')
    simp [remap?_of_not_mem h, hn]

example : sortGids [36, 0, 7, 120] = [0, 7, 36, 120] ∧ remap? (sortGids [36, 0, 7, 120]) 36 = some 2 := by
  decide

/-! ## 3. The subset: every requested glyph intact -/

/-- `flatten` commutes with the renumbering: in the rebuilt glyph table, the glyph at the new
    id of `g` flattens (composites expanded recursively, component records compared) to exactly
    what `g` flattens to in the original font — for every needed glyph and every depth. -/
theorem C12_flatten_commutes_with_remap (f : Font) (needed : List Gid) (rows : List Row)
    (hn : needed.Nodup) (hcl : ∀ g ∈ needed, ∀ c ∈ (f.glyph g).comps, c ∈ needed)
    (hb : buildRows f (sortGids needed) = some rows) (n : Nat) (g : Gid) (hg : g ∈ needed) :
    flatten (rowGlyph rows) n ((sortGids needed).idxOf g) = flatten f.glyph n g := by
  apply flatten_rows_eq hb (sortGids_nodup _ hn)
  · intro x hx c hc
    exact (sortGids_mem _ _).mpr (hcl x ((sortGids_mem _ _).mp hx) c hc)
  · exact (sortGids_mem _ _).mpr hg

/-- composite components are renumbered consistently: the component list of the rebuilt
    glyph is the original list with every component id sent through the same map -/
theorem C12_components_remapped (f : Font) (needed : List Gid) (rows : List Row)
    (hn : needed.Nodup) (hcl : ∀ g ∈ needed, ∀ c ∈ (f.glyph g).comps, c ∈ needed)
    (hb : buildRows f (sortGids needed) = some rows) (g : Gid) (hg : g ∈ needed) :
    (rowGlyph rows ((sortGids needed).idxOf g)).comps
      = (f.glyph g).comps.map fun c => (sortGids needed).idxOf c := by
  have hS := sortGids_nodup _ hn
  obtain ⟨_, _, hrow⟩ := buildRows_row hb hS ((sortGids_mem _ _).mpr hg)
  have hrg : rowGlyph rows ((sortGids needed).idxOf g) = remapGlyph (sortGids needed) (f.glyph g) := by
    simp [rowGlyph, hrow]
  rw [hrg]
  cases hgl : f.glyph g with
  | bad => simp [remapGlyph, Glyph.comps]
  | empty => simp [remapGlyph, Glyph.comps]
  | simple fp => simp [remapGlyph, Glyph.comps]
  | composite hh cs =>
    simp only [remapGlyph, Glyph.comps, List.map_map]
    apply List.map_congr_left
    intro p hp
    have hc : p.1 ∈ sortGids needed :=
      (sortGids_mem _ _).mpr (hcl g hg p.1 (by simp [hgl, Glyph.comps]; exact ⟨p.2, hp⟩))
    simp [remap?_of_mem hc]

/-- MAIN (character-driven `subset_font`, subset branch): every requested character the font
    maps resolves through the returned `glyph_mapping` to exactly one new glyph id; that id is
    inside the subset, carries the original advance width, and flattens to the original outline. -/
theorem C12_requested_glyph_intact (f : Font) (size ng : Nat) (used : List Nat)
    (m : List (Nat × Gid)) (rows : List Row)
    (h : subsetChars f size ng false used = .subset m rows)
    (c : Nat) (g : Gid) (hc : c ∈ used) (hg : f.cmap c = some g) :
    ∃ g', (c, g') ∈ m ∧ (∀ x, (c, x) ∈ m → x = g') ∧ g' < rows.length ∧
      rowAdv rows g' = some (f.adv g) ∧ ∀ n, flatten (rowGlyph rows) n g' = flatten f.glyph n g := by
  unfold subsetChars at h
  split at h
  · cases h
  · cases hcl : closure f.glyph (initNeeded used f.cmap) with
    | none => simp [hcl] at h
    | some needed =>
      simp only [hcl] at h
      split at h
      · cases h
      · simp only [Bool.false_eq_true, if_false] at h
        cases hb : buildRows f (sortGids needed) with
        | none => simp [hb] at h
        | some rows' =>
          simp only [hb] at h
          injection h with hm hr
          subst hr
          obtain ⟨h0, hnd, hin⟩ := C12_initNeeded used f.cmap
          obtain ⟨hsub, hclosed⟩ := C12_closure_sound f.glyph _ needed hcl
          have hnn := C12_closure_nodup f.glyph _ needed hnd hcl
          have hgn : g ∈ needed := hsub g (hin c hc g hg)
          have hgS : g ∈ sortGids needed := (sortGids_mem _ _).mpr hgn
          have hS := sortGids_nodup _ hnn
          obtain ⟨hlt, _, hrow⟩ := buildRows_row hb hS hgS
          refine ⟨(sortGids needed).idxOf g, ?_, ?_, hlt, ?_, ?_⟩
          · rw [← hm]
            exact List.mem_filterMap.mpr ⟨c, hc, by simp [hg, remap?_of_mem hgS]⟩
          · intro x hx
            rw [← hm] at hx
            obtain ⟨c', _, hc'⟩ := List.mem_filterMap.mp hx
            cases hcm : f.cmap c' with
            | none => simp [hcm] at hc'
            | some g2 =>
              cases hr2 : remap? (sortGids needed) g2 with
              | none => simp [hcm, hr2] at hc'
              | some n2 =>
                simp [hcm, hr2] at hc'
                obtain ⟨e1, e2⟩ := hc'
                subst e1
                rw [hg] at hcm
                injection hcm with hcm
                subst hcm
                rw [remap?_of_mem hgS] at hr2
                injection hr2 with hr2
                exact e2.symm.trans hr2.symm
          · simp [rowAdv, hrow]
          · intro n
            exact C12_flatten_commutes_with_remap f needed rows' hnn hclosed hb n g hgn

/-- MAIN (the three "keep the full font" branches: nothing requested / small font, ratio
    threshold, and — with the unfiltered cmap — build failure): the bytes are the original font
    and every requested mapped character keeps its ORIGINAL glyph id. -/
theorem C12_full_keeps_mapping (f : Font) (size ng : Nat) (isCff : Bool) (used : List Nat)
    (m : List (Nat × Gid)) (h : subsetChars f size ng isCff used = .full m)
    (c : Nat) (g : Gid) (hc : c ∈ used) (hg : f.cmap c = some g) :
    (c, g) ∈ m ∧ ∀ x, (c, x) ∈ m → x = g := by
  have key : m = filterMapping f.cmap used := by
    unfold subsetChars at h
    split at h
    · injection h with h; exact h.symm
    · cases hcl : closure f.glyph (initNeeded used f.cmap) with
      | none => simp [hcl] at h
      | some needed =>
        simp only [hcl] at h
        split at h
        · injection h with h; exact h.symm
        · split at h
          · cases h
          · cases hb : buildRows f (sortGids needed) with
            | none => simp [hb] at h
            | some rows' => simp [hb] at h
  subst key
  constructor
  · exact List.mem_filterMap.mpr ⟨c, hc, by simp [hg]⟩
  · intro x hx
    obtain ⟨c', _, hc'⟩ := List.mem_filterMap.mp hx
    cases hcm : f.cmap c' with
    | none => simp [hcm] at hc'
    | some g2 =>
      simp [hcm] at hc'
      obtain ⟨e1, e2⟩ := hc'
      subst e1
      rw [hg] at hcm
      injection hcm with hcm
      exact e2.symm.trans hcm.symm

/-- MAIN (glyph-driven `subset_font_by_gids`): every requested glyph id, `.notdef` included,
    is renumbered to an id inside the subset with the same advance and the same flattened outline. -/
theorem C12_requested_gid_intact (f : Font) (used : List Gid) (m : List (Gid × Gid)) (rows : List Row)
    (h : subsetGids f false used = .subset m rows) (g : Gid) (hg : g ∈ used ∨ g = 0) :
    ∃ g', (g, g') ∈ m ∧ g' < rows.length ∧ rowAdv rows g' = some (f.adv g) ∧
      ∀ n, flatten (rowGlyph rows) n g' = flatten f.glyph n g := by
  unfold subsetGids at h
  simp only [Bool.false_eq_true, if_false] at h
  cases hcl : closure f.glyph (insertNew (used.foldl insertNew []) 0) with
  | none => simp [hcl] at h
  | some needed =>
    simp only [hcl] at h
    cases hb : buildRows f (sortGids needed) with
    | none => simp [hb] at h
    | some rows' =>
      simp only [hb] at h
      injection h with hm hr
      subst hr
      have hnd : (insertNew (used.foldl insertNew []) 0).Nodup :=
        insertNew_nodup _ _ (foldl_insertNew_nodup _ _ (by simp))
      have hgi : g ∈ insertNew (used.foldl insertNew []) 0 := by
        rw [insertNew_mem, foldl_insertNew_mem]
        rcases hg with hg | hg
        · exact Or.inr (Or.inr hg)
        · exact Or.inl hg
      obtain ⟨hsub, hclosed⟩ := C12_closure_sound f.glyph _ needed hcl
      have hnn := C12_closure_nodup f.glyph _ needed hnd hcl
      have hgn : g ∈ needed := hsub g hgi
      have hgS : g ∈ sortGids needed := (sortGids_mem _ _).mpr hgn
      obtain ⟨hlt, _, hrow⟩ := buildRows_row hb (sortGids_nodup _ hnn) hgS
      refine ⟨(sortGids needed).idxOf g, ?_, hlt, by simp [rowAdv, hrow], ?_⟩
      · rw [← hm]
        exact List.mem_map.mpr ⟨g, hgS, rfl⟩
      · intro n
        exact C12_flatten_commutes_with_remap f needed rows' hnn hclosed hb n g hgn

/-- non-vacuity of the three main theorems: a font with a nested composite (5 → 4 → 2) in which
    the subset branch is taken; new ids 0..3, the composite's component renumbered 4 ↦ 2 ↦ 1 -/
def exFont : Font :=
  { glyph := fun g => if g = 5 then .composite 9 [(4, 70), (2, 71)]
                      else if g = 4 then .composite 8 [(2, 60)] else .simple (100 + g)
    adv := fun g => 500 + g
    lsb := fun _ => 0
    cmap := fun c => if c = 65 then some 5 else none }

example : subsetChars exFont 200000 40 false [65, 66] =
    .subset [(65, 3)] [⟨500, 0, .simple 100⟩, ⟨502, 0, .simple 102⟩,
                       ⟨504, 0, .composite 8 [(1, 60)]⟩, ⟨505, 0, .composite 9 [(2, 70), (1, 71)]⟩] := by
  decide

example : flatten exFont.glyph 5 5 = some [([9, 70, 8, 60], some 102), ([9, 71], some 102)] := by
  decide

/-- the keep-full branch is taken when more than half of the glyphs are needed -/
example : subsetChars exFont 200000 7 false [65, 66] = .full [(65, 5)] := by decide

/-! ## 3b. CFF (`cff_subsetter::subset_cff_font`) — glyph selection and renumbering only

/- FULL (not proved): the rebuilt CID-keyed CFF *bytes* (Top DICT, charset, FDSelect, FDArray,
   Private DICT, desubroutinised CharStrings INDEX) decode, with a Type 2 interpreter, to the same
   outlines and widths.  PARTIAL: only the selection/renumbering is modelled and proved; the bytes
   are checked per run by the harness's independent CFF reader (structure + flattened token
   streams + resolved width), there is no outline-level charstring semantics. -/ -/

theorem C12_cff_requested_glyph_kept_partial (cmap : Nat → Option Gid) (fact : Gid → CffRow)
    (used : List Nat) (c : Nat) (g : Gid) (hc : c ∈ used) (hg : cmap c = some g) :
    ∃ g', (c, g') ∈ (cffSubset cmap fact used).1 ∧
      (cffSubset cmap fact used).2[g']? = some (fact g) := by
  obtain ⟨_, hnd, hin⟩ := C12_initNeeded used cmap
  have hgS : g ∈ sortGids (initNeeded used cmap) := (sortGids_mem _ _).mpr (hin c hc g hg)
  have hi := List.idxOf_lt_length_iff.mpr hgS
  refine ⟨(sortGids (initNeeded used cmap)).idxOf g, ?_, ?_⟩
  · exact List.mem_filterMap.mpr ⟨c, hc, by simp [hg, remap?_of_mem hgS]⟩
  · simp only [cffSubset, List.getElem?_map, List.getElem?_eq_getElem hi, Option.map_some,
      List.getElem_idxOf hi]

example : cffSubset (fun c => if c = 65 then some 9 else if c = 66 then some 4 else none)
    (fun g => ⟨toString (500 + g), g⟩) [66, 65, 67] = ([(66, 1), (65, 2)], [⟨"500", 0⟩, ⟨"504", 4⟩, ⟨"509", 9⟩]) := by
  decide

/-! ## 4. `loca`: the byte-level step below the abstraction

`build_subset_font` appends the instruction-stripped glyphs, pads each to an even length, and —
when the original font used the short format — stores `offset / 2`.  Every reader of the written
table recovers the glyph offsets, in both formats, for EVERY list of glyph lengths. -/

theorem C12_loca_long_roundtrip (offs : List Nat) : readLoca false (locaEntries false offs) = offs := by
  simp [readLoca, locaEntries]

theorem C12_loca_short_roundtrip_even (offs : List Nat) (heven : ∀ o ∈ offs, o % 2 = 0) :
    readLoca true (locaEntries true offs) = offs := by
  simp only [readLoca, locaEntries, if_true, List.map_map]
  conv => rhs; rw [← List.map_id offs]
  apply List.map_congr_left
  intro o ho
  have := heven o ho
  simp
  omega

/-- every glyph offset the subsetter produces is even (whatever the glyph lengths are) -/
theorem C12_glyph_offsets_even (lens : List Nat) (cur : Nat) (hc : cur % 2 = 0) :
    ∀ o ∈ glyphOffsets cur lens, o % 2 = 0 := by
  induction lens generalizing cur with
  | nil => intro o ho; simp [glyphOffsets] at ho; omega
  | cons l ls ih =>
    intro o ho
    simp only [glyphOffsets, List.mem_cons] at ho
    rcases ho with rfl | ho
    · exact hc
    · exact ih (padEven (cur + l)) (by unfold padEven; omega) o ho

/-- FULL: the short `loca` written for a subset reads back to the exact glyph offsets, for every
    list of glyph lengths (odd lengths after instruction stripping included). -/
theorem C12_loca_short_roundtrip (lens : List Nat) :
    readLoca true (locaEntries true (glyphOffsets 0 lens)) = glyphOffsets 0 lens :=
  C12_loca_short_roundtrip_even _ (C12_glyph_offsets_even lens 0 rfl)

/-- the offsets are still a running sum: consecutive entries differ by the glyph length plus at
    most one padding byte, so no glyph overlaps the next -/
theorem C12_glyph_offsets_step (l : Nat) (ls : List Nat) (cur : Nat) :
    ∃ nxt, glyphOffsets cur (l :: ls) = cur :: glyphOffsets nxt ls ∧ cur + l ≤ nxt ∧ nxt ≤ cur + l + 1 := by
  refine ⟨padEven (cur + l), rfl, ?_, ?_⟩ <;> unfold padEven <;> omega

example : glyphOffsets 0 [41, 60, 0, 117] = [0, 42, 102, 102, 220] := by decide

/-- counter-witness for the code BEFORE the repair (regression the per-run check must catch):
    two glyphs of 41 and 60 bytes (41 = a 42-byte glyph whose 1-byte hinting program was
    stripped) in the short format — the second glyph is read from offset 40, not 41 -/
theorem C12_witness_short_loca_odd :
    ¬ (readLoca true (locaEntries true (glyphOffsetsOld 0 [41, 60])) = glyphOffsetsOld 0 [41, 60]) := by
  decide

/-- short format is only kept when it can address the table -/
theorem C12_short_format_fits (origShort : Bool) (total : Nat)
    (h : useShort origShort total = true) : total / 2 < 65536 := by
  simp [useShort] at h
  omega

example : useShort true ((glyphOffsets 0 [100, 30]).getLastD 0) = true := by decide


/-! ## 5. Byte level (Model/C12Bytes.lean): the glyph loop, the loca bytes, the checksums

The byte-level model reproduces the whole subset FILE (per-run comparison, byte for byte); the
theorems below tie its glyph loop to the abstract `loca` statements above and pin the two
repaired defects as regressions. -/

/-- the byte-level glyph loop yields exactly the abstract offsets, hence (with
    `C12_loca_short_roundtrip`) the short `loca` of every subset reads back exactly, whatever
    the glyph BYTES are -/
theorem C12_subset_loca_roundtrip_bytes (gs : List Bytes) :
    readLoca true (locaEntries true (buildGlyf 0 gs).1) = (buildGlyf 0 gs).1 := by
  rw [buildGlyf_offsets]
  exact C12_loca_short_roundtrip _

theorem C12_subset_glyph_offsets_even (gs : List Bytes) : ∀ o ∈ (buildGlyf 0 gs).1, o % 2 = 0 := by
  rw [buildGlyf_offsets]
  exact C12_glyph_offsets_even _ 0 rfl

example : buildGlyf 0 [[1, 2, 3], [], [4, 5], [6]] = ([0, 4, 4, 6, 8], [1, 2, 3, 0, 4, 5, 6, 0]) := by decide

/-- regression witness, byte level, for the code BEFORE the padding repair: a 3-byte glyph
    followed by a 2-byte glyph in the short format reads back shifted -/
theorem C12_witness_short_loca_odd_bytes :
    ¬ (readLoca true (locaEntries true (buildGlyfOld 0 [[1, 2, 3], [4, 5]]).1) = (buildGlyfOld 0 [[1, 2, 3], [4, 5]]).1) := by
  decide

set_option maxRecDepth 1000000 in
/-- regression witness for the code BEFORE the checkSumAdjustment repair: a file assembled
    with the head table copied as it was (adjustment of the full font, here 09 09 09 09) does
    not sum to 0xB1B0AFBA … -/
theorem C12_witness_stale_adjustment :
    checksum (assembleFontOld 65536 [[1, 2], [0, 1, 0, 0, 0, 0, 0, 0, 9, 9, 9, 9, 95, 15, 60, 245],
      [3], [], [4, 4], [], [0, 3, 0, 0]]) ≠ 0xB1B0AFBA := by decide +kernel

set_option maxRecDepth 1000000 in
/-- … while the repaired assembly of the same tables (field cleared, then filled in) does. -/
example : checksum (assembleFont 65536 [[1, 2], [0, 1, 0, 0, 0, 0, 0, 0, 0, 0, 0, 0, 95, 15, 60, 245],
      [3], [], [4, 4], [], [0, 3, 0, 0]]) = 0xB1B0AFBA := by decide +kernel

/-- byte-level composite handling on a concrete glyph: two components (word args + 2x2, then
    byte args with WE_HAVE_INSTRUCTIONS and a 3-byte program): extraction, renumbering through
    the glyph map (unmapped id -> .notdef), instruction stripping with the flag cleared -/
def exComposite : Bytes :=
  [255, 255, 0, 0, 0, 0, 1, 244, 1, 244,
   0, 0xA3, 0, 7, 0, 1, 0, 2, 64, 0, 1, 0, 255, 0, 64, 0,      -- flags 0x00A3 gid 7, words, 2x2
   1, 2, 0, 9, 5, 6,                                           -- flags 0x0102 gid 9, bytes, instr
   0, 3, 1, 2, 3]

example : extractComponents exComposite = [7, 9] := by decide
example : extractComponents (remapComposite exComposite (remap? [0, 7, 8])) = [1, 0] := by decide
example : stripInstructions exComposite =
    [255, 255, 0, 0, 0, 0, 1, 244, 1, 244, 0, 0xA3, 0, 7, 0, 1, 0, 2, 64, 0, 1, 0, 255, 0, 64, 0,
     0, 2, 0, 9, 5, 6] := by decide


/-! ### instruction stripping (byte level) -/

/-- stripping hinting instructions never grows a glyph (simple or composite, well-formed or not) -/
theorem C12_strip_never_grows (g : Bytes) : (stripInstructions g).length ≤ g.length :=
  stripInstructions_length_le g

/-- a simple glyph with a non-empty, in-range hinting program keeps its header, bbox and endPts
    bytes and its flag/coordinate bytes exactly; only the program is removed … -/
theorem C12_strip_simple_keeps_outline_bytes (g : Bytes) (h12 : 12 ≤ g.length) (hs : u16At g 0 < 32768)
    (hil : u16At g (10 + u16At g 0 * 2) ≠ 0)
    (hin : 10 + u16At g 0 * 2 + 2 + u16At g (10 + u16At g 0 * 2) ≤ g.length) :
    stripInstructions g = g.take (10 + u16At g 0 * 2) ++ [0, 0] ++
      g.drop (10 + u16At g 0 * 2 + 2 + u16At g (10 + u16At g 0 * 2)) :=
  stripInstructions_simple g h12 hs hil hin

/-- … and the stripped glyph declares instructionLength 0 (so a reader finds the flags right
    after it) -/
theorem C12_strip_simple_instruction_length_zero (g : Bytes) (h12 : 12 ≤ g.length) (hs : u16At g 0 < 32768)
    (hil : u16At g (10 + u16At g 0 * 2) ≠ 0)
    (hin : 10 + u16At g 0 * 2 + 2 + u16At g (10 + u16At g 0 * 2) ≤ g.length) :
    u16At (stripInstructions g) (10 + u16At g 0 * 2) = 0 :=
  stripInstructions_simple_instrLen g h12 hs hil hin

/-- one contour, endPts [2], a 3-byte program, three flag bytes + coordinates -/
example : stripInstructions [0, 1, 0, 0, 0, 0, 0, 9, 0, 9, 0, 2, 0, 3, 176, 177, 178, 1, 1, 1, 5, 6, 7, 8, 9, 9]
    = [0, 1, 0, 0, 0, 0, 0, 9, 0, 9, 0, 2, 0, 0, 1, 1, 1, 5, 6, 7, 8, 9, 9] := by decide

end OxiVerif.C12
