import OxiVerif.Lemmas.C16
import Mathlib.Data.List.Perm.Basic
import Mathlib.Data.List.Nodup
/-!
# C16 — page operations preserve page content and geometry

Theorems about the model in `Model/C16.lean` (a transcription of `operations/{mod,split,merge,
page_extraction,reorder,rotate}.rs` and of `Page::from_parsed_with_content` + what the writer
emits for the copied page).  Documents are page lists of any length.

Part A  selection: every operation's output page list is exactly the requested selection /
        permutation of the input pages, each passed through `copyPage`.
Part B  split ∘ merge: the parts of every split mode concatenate to the whole document, and
        merging them gives back the original page sequence.
Part C  rotation arithmetic: result in {0,90,180,270}, equal to old + angle modulo 360,
        composition; only /Rotate changes under `rotate`.
Part D  what `copyPage` preserves: rotation, content, every resource category, the MediaBox
        with its origin and the CropBox (full statement since the repairs of C16-F1 / C16-F2;
        regression witnesses about the pre-repair `copyPageOld`).  The code composes rotations as
        `rotatedRepaired` since the repair of C16-F3; `rotated` is the pre-repair i32 addition.
-/
namespace OxiVerif.C16

/-- `[ox, oy, ox + width, oy + height]` with `width = x1 - ox`, `height = y1 - oy` -/
theorem box_fix (a b c d : Int) : [a, b, a + (c - a), b + (d - b)] = [a, b, c, d] := by
  have h1 : a + (c - a) = c := by omega
  have h2 : b + (d - b) = d := by omega
  rw [h1, h2]

/-- the copy of page `i` (any placeholder outside the document; never used for valid indices) -/
def copyAt (ps : List Src) (i : Nat) : Out := copyPage (ps.getD i default)

/-! ## Part A — selections -/

/-- `PageRange::get_indices`: a successful resolution lists exactly the indices the range
denotes, all inside the document. -/
theorem C16_getIndices_sound (r : PageRange) (n : Nat) (idx : List Nat)
    (h : getIndices r n = .ok idx) :
    (∀ i ∈ idx, i < n) ∧
    idx = (match r with
      | .all => List.range n
      | .single i => [i]
      | .range a b => rangeIncl a b
      | .list l => l) := by
  cases r with
  | all => simp [getIndices] at h; subst h; simp
  | single i =>
    simp only [getIndices] at h
    split at h
    · cases h
    · cases h; simp; omega
  | range a b =>
    simp only [getIndices] at h
    split at h
    · cases h
    · split at h
      · cases h
      · cases h
        refine ⟨?_, rfl⟩
        intro i hi
        have := (mem_rangeIncl a b i).mp hi
        omega
  | list l =>
    simp only [getIndices] at h
    split at h
    · cases h
    · rename_i hn
      cases h
      exact ⟨(firstGe_none _ n).mp hn, rfl⟩

example : getIndices (.range 1 3) 5 = .ok [1, 2, 3] := by decide
example : getIndices (.range 3 1) 5 = .ok [] := by decide
example : getIndices (.list [4, 0, 4]) 5 = .ok [4, 0, 4] := by decide

/-- `PageRange::parse` (1-based text) on the documented forms -/
theorem C16_parse_examples :
    parseRange "all" = some .all ∧ parseRange " ALL " = some .all ∧
    parseRange "5" = some (.single 4) ∧ parseRange "2-5" = some (.range 1 4) ∧
    parseRange "1,3, 5" = some (.list [0, 2, 4]) ∧ parseRange "0" = none ∧
    parseRange "5-2" = none ∧ parseRange "1-2-3" = none ∧ parseRange "" = none := by
  decide

/-- extract_pages: the output is the requested list of pages, in the requested order, duplicates
included -/
theorem C16_extract_pages (ps : List Src) (l : List Nat) (hv : ∀ i ∈ l, i < ps.length)
    (hne : l ≠ []) : extractPages ps l = .ok (l.map (copyAt ps)) := by
  unfold extractPages
  rw [firstGe_none_of l ps.length hv]
  have : l.isEmpty = false := by cases l <;> simp_all
  simp [this, pick_eq_map ps l hv, copyAt]

example : extractPages [default, default, default] [2, 0, 2] = .ok ([2, 0, 2].map (copyAt [default, default, default])) :=
  C16_extract_pages _ _ (by decide) (by decide)

theorem C16_extract_page (ps : List Src) (i : Nat) (h : i < ps.length) :
    extractPage ps i = .ok [copyAt ps i] := by
  unfold extractPage
  have : ¬ ps.length ≤ i := by omega
  simp [this, pick_eq_map ps [i] (by simpa using h), copyAt]

theorem C16_extract_range (ps : List Src) (r : PageRange) (idx : List Nat)
    (h : getIndices r ps.length = .ok idx) (hne : idx ≠ []) :
    extractPageRange ps r = .ok (idx.map (copyAt ps)) := by
  unfold extractPageRange
  rw [h]
  exact C16_extract_pages ps idx (C16_getIndices_sound r _ idx h).1 hne

/-- reorder: the output is the input read through the requested order -/
theorem C16_reorder (ps : List Src) (order : List Nat) (hv : ∀ i ∈ order, i < ps.length)
    (hne : order ≠ []) : reorder ps order = .ok (order.map (copyAt ps)) := by
  unfold reorder
  have hpos : ps.length ≠ 0 := by
    cases order with
    | nil => exact absurd rfl hne
    | cons a r => have := hv a List.mem_cons_self; omega
  have : order.isEmpty = false := by cases order <;> simp_all
  simp [hpos, this, firstGe_none_of order ps.length hv, pick_eq_map ps order hv, copyAt]

theorem map_copyAt_range (ps : List Src) : (List.range ps.length).map (copyAt ps) = ps.map copyPage := by
  have := pick_eq_map ps (List.range ps.length) (by simp)
  rw [pick_range] at this
  exact this.symm

/-- … hence a permutation of the page indices yields a permutation of the (copied) pages -/
theorem C16_reorder_perm (ps : List Src) (order : List Nat)
    (hp : order.Perm (List.range ps.length)) (hne : ps ≠ []) :
    ∃ out, reorder ps order = .ok out ∧ out.Perm (ps.map copyPage) := by
  have hv : ∀ i ∈ order, i < ps.length := fun i hi => by simpa using hp.mem_iff.mp hi
  have hne' : order ≠ [] := by
    intro e; subst e
    have := hp.length_eq
    simp at this
    exact hne (List.length_eq_zero_iff.mp this.symm)
  refine ⟨_, C16_reorder ps order hv hne', ?_⟩
  rw [← map_copyAt_range]
  exact hp.map _

example : [2, 0, 1].Perm (List.range 3) := by decide

/-- reverse: the pages in reverse order -/
theorem C16_reverse (ps : List Src) (hne : ps ≠ []) :
    reverse ps = .ok (ps.map copyPage).reverse := by
  unfold reverse
  rw [C16_reorder ps _ (by simp) (by simpa using hne), List.map_reverse, map_copyAt_range]

theorem swapOrder_perm (n a b : Nat) (ha : a < n) (hb : b < n) :
    (swapOrder n a b).Perm (List.range n) := by
  unfold swapOrder
  have hnd : ((List.range n).map fun i => if i = a then b else if i = b then a else i).Nodup := by
    apply List.Nodup.map_on _ List.nodup_range
    intro x _ y _ h
    by_cases h1 : x = a <;> by_cases h2 : x = b <;> by_cases h3 : y = a <;> by_cases h4 : y = b <;>
      simp_all <;> omega
  rw [List.perm_ext_iff_of_nodup hnd List.nodup_range]
  intro x
  simp only [List.mem_map, List.mem_range]
  constructor
  · rintro ⟨i, hi, rfl⟩
    split
    · exact hb
    · split
      · exact ha
      · exact hi
  · intro hx
    by_cases h1 : x = a
    · exact ⟨b, hb, by subst h1; by_cases h : b = x <;> simp [h]⟩
    · by_cases h2 : x = b
      · exact ⟨a, ha, by simp [h2]⟩
      · exact ⟨x, hx, by simp [h1, h2]⟩

/-- swap: positions `a` and `b` exchanged, everything else in place -/
theorem C16_swap (ps : List Src) (a b : Nat) (ha : a < ps.length) (hb : b < ps.length) :
    swap ps a b = .ok ((swapOrder ps.length a b).map (copyAt ps)) ∧
    ((swapOrder ps.length a b).map (copyAt ps)).Perm (ps.map copyPage) := by
  have hp := swapOrder_perm ps.length a b ha hb
  constructor
  · unfold swap
    have : ¬ (ps.length ≤ a ∨ ps.length ≤ b) := by omega
    simp only [this, if_false]
    apply C16_reorder
    · intro i hi; simpa using hp.mem_iff.mp hi
    · intro e
      have := hp.length_eq
      rw [e] at this
      simp at this
      omega
  · rw [← map_copyAt_range]; exact hp.map _

theorem C16_swap_positions (n a b i : Nat) (hi : i < n) :
    (swapOrder n a b)[i]? = some (if i = a then b else if i = b then a else i) := by
  simp [swapOrder, hi]

theorem moveOrder_perm (n a b : Nat) (ha : a < n) :
    (moveOrder n a b).Perm (List.range n) := by
  unfold moveOrder
  have hlen : a < (List.range n).length := by simpa using ha
  have hsplit : List.range n = (List.range n).take a ++ a :: (List.range n).drop (a + 1) := by
    have h1 := (List.take_append_drop a (List.range n)).symm
    rw [List.drop_eq_getElem_cons hlen] at h1
    simpa using h1
  have he : (List.range n).eraseIdx a = (List.range n).take a ++ (List.range n).drop (a + 1) :=
    List.eraseIdx_eq_take_drop_succ _ _
  have h1 : List.Perm (((List.range n).eraseIdx a).take b ++ [a] ++ ((List.range n).eraseIdx a).drop b)
      (a :: (((List.range n).eraseIdx a).take b ++ ((List.range n).eraseIdx a).drop b)) := by
    rw [List.append_assoc]
    exact List.perm_middle
  rw [List.take_append_drop] at h1
  show List.Perm (((List.range n).eraseIdx a).take b ++ [a] ++ ((List.range n).eraseIdx a).drop b)
    (List.range n)
  refine h1.trans ?_
  rw [he]
  have h2 : List.Perm (a :: ((List.range n).take a ++ (List.range n).drop (a + 1)))
      ((List.range n).take a ++ a :: (List.range n).drop (a + 1)) := List.perm_middle.symm
  rw [← hsplit] at h2
  exact h2

/-- move: page `a` taken out and re-inserted at position `b`; a permutation of the pages -/
theorem C16_move (ps : List Src) (a b : Nat) (ha : a < ps.length) (hb : b < ps.length) :
    move ps a b = .ok ((moveOrder ps.length a b).map (copyAt ps)) ∧
    ((moveOrder ps.length a b).map (copyAt ps)).Perm (ps.map copyPage) := by
  have hp := moveOrder_perm ps.length a b ha
  constructor
  · unfold move
    have : ¬ (ps.length ≤ a ∨ ps.length ≤ b) := by omega
    simp only [this, if_false]
    apply C16_reorder
    · intro i hi; simpa using hp.mem_iff.mp hi
    · intro e
      have := hp.length_eq
      rw [e] at this
      simp at this
      omega
  · rw [← map_copyAt_range]; exact hp.map _

example : moveOrder 4 0 2 = [1, 2, 0, 3] ∧ moveOrder 4 3 1 = [0, 3, 1, 2] ∧ swapOrder 4 1 3 = [0, 3, 2, 1] := by
  decide

/-- merge: the selected pages of every input, concatenated in input order -/
theorem C16_merge (inputs : List (List Src × PageRange)) (sels : List (List Nat))
    (hne : inputs ≠ [])
    (h : List.Forall₂ (fun (i : List Src × PageRange) (s : List Nat) => getIndices i.2 i.1.length = .ok s) inputs sels) :
    merge inputs = .ok ((List.zipWith (fun (i : List Src × PageRange) (s : List Nat) => s.map (copyAt i.1)) inputs sels).flatten) := by
  unfold merge
  have hemp : inputs.isEmpty = false := by cases inputs <;> simp_all
  simp only [hemp]
  have key : mapM' (fun i => mergeInput i.1 i.2) inputs =
      .ok (List.zipWith (fun (i : List Src × PageRange) (s : List Nat) => s.map (copyAt i.1)) inputs sels) := by
    clear hne hemp
    induction h with
    | nil => rfl
    | @cons i s is ss hh _ ih =>
      have hs := (C16_getIndices_sound i.2 _ s hh).1
      have hm : mergeInput i.1 i.2 = .ok (s.map (copyAt i.1)) := by
        simp [mergeInput, hh, pick_eq_map i.1 s hs, copyAt]
      simp only [mapM', hm, ih, List.zipWith_cons_cons]
  simp [key]

/-! ### validation: exactly which requests are refused, and how -/

/-- `PageRange::get_indices` fails only with `PageIndexOutOfBounds`, and exactly when the range
names an index outside the document (a reversed `Range(a, b)` inside the document is accepted and
denotes the empty selection). -/
theorem C16_getIndices_error (r : PageRange) (n : Nat) :
    (∃ idx, getIndices r n = .ok idx) ∨
    (getIndices r n = .err .oob ∧ match r with
      | .all => False
      | .single i => n ≤ i
      | .range a b => n ≤ a ∨ n ≤ b
      | .list l => ∃ i ∈ l, n ≤ i) := by
  cases r with
  | all => left; exact ⟨_, rfl⟩
  | single i =>
    by_cases h : n ≤ i
    · right; simp [getIndices, h]
    · left; simp [getIndices, h]
  | range a b =>
    by_cases h1 : n ≤ a
    · right; simp [getIndices, h1]
    · by_cases h2 : n ≤ b
      · right; simp [getIndices, h1, h2]
      · left; simp [getIndices, h1, h2]
  | list l =>
    cases hf : firstGe l n with
    | none => left; simp [getIndices, hf]
    | some x =>
      right
      refine ⟨by simp [getIndices, hf], x, ?_⟩
      have := List.find?_some hf
      exact ⟨List.mem_of_find?_eq_some hf, by simpa using this⟩

example : getIndices (.list [0, 7]) 3 = .err .oob ∧ getIndices (.range 2 9) 3 = .err .oob := by decide

/-- `reorder` refuses an empty document (`NoPagesToProcess`), an empty order and an order with an
index outside the document (`InvalidPageRange`) — and nothing else. -/
theorem C16_reorder_validation (ps : List Src) (order : List Nat) :
    (ps = [] → reorder ps order = .err .nopages) ∧
    (ps ≠ [] → order = [] → reorder ps order = .err .range) ∧
    (ps ≠ [] → (∃ i ∈ order, ps.length ≤ i) → reorder ps order = .err .range) ∧
    (ps ≠ [] → order ≠ [] → (∀ i ∈ order, i < ps.length) →
      reorder ps order = .ok (order.map (copyAt ps))) := by
  refine ⟨?_, ?_, ?_, ?_⟩
  · intro h; subst h; simp [reorder]
  · intro h1 h2; subst h2
    have : ps.length ≠ 0 := by simpa using h1
    simp [reorder, this]
  · intro h1 ⟨i, hi, hle⟩
    have hl : ps.length ≠ 0 := by simpa using h1
    have hne : order.isEmpty = false := by cases order <;> simp_all
    cases hf : firstGe order ps.length with
    | some x => simp [reorder, hl, hne, hf]
    | none =>
      have := (firstGe_none order ps.length).mp hf i hi
      omega
  · intro _ h2 h3; exact C16_reorder ps order h3 h2

example : reorder [default, default] [0, 2] = .err .range ∧ reorder [default] [] = .err .range ∧
    reorder [] [0] = .err .nopages := by decide

/-- `swap_pages` / `move_page` refuse exactly the requests with an index outside the document
(`InvalidPageRange`). -/
theorem C16_swap_move_validation (ps : List Src) (a b : Nat) :
    ((ps.length ≤ a ∨ ps.length ≤ b) → swap ps a b = .err .range ∧ move ps a b = .err .range) ∧
    ((a < ps.length ∧ b < ps.length) → (∃ o, swap ps a b = .ok o) ∧ (∃ o, move ps a b = .ok o)) := by
  constructor
  · intro h; simp [swap, move, h]
  · intro ⟨ha, hb⟩
    exact ⟨⟨_, (C16_swap ps a b ha hb).1⟩, ⟨_, (C16_move ps a b ha hb).1⟩⟩

/-- the extract family: out-of-range → `PageIndexOutOfBounds`, empty list → `NoPagesToProcess` -/
theorem C16_extract_validation (ps : List Src) (l : List Nat) (i : Nat) :
    (ps.length ≤ i → extractPage ps i = .err .oob) ∧
    ((∃ j ∈ l, ps.length ≤ j) → extractPages ps l = .err .oob) ∧
    (extractPages ps [] = .err .nopages) := by
  refine ⟨?_, ?_, ?_⟩
  · intro h; simp [extractPage, h]
  · intro ⟨j, hj, hle⟩
    cases hf : firstGe l ps.length with
    | some x => simp [extractPages, hf]
    | none =>
      have := (firstGe_none l ps.length).mp hf j hj
      omega
  · simp [extractPages, firstGe]

/-! ## Part B — split, and merge ∘ split -/

theorem extractRange_ok (ps : List Src) (a b : Nat) (d : List Out)
    (h : extractRange ps (.range a b) = .ok d) :
    d = pick ps (rangeIncl a b) ∧ a ≤ b ∧ b < ps.length := by
  simp only [extractRange, getIndices] at h
  by_cases h1 : ps.length ≤ a
  · simp [h1] at h
  · by_cases h2 : ps.length ≤ b
    · simp [h1, h2] at h
    · simp only [h1, h2, if_false] at h
      by_cases h3 : (rangeIncl a b).isEmpty = true
      · simp [h3] at h
      · simp only [h3] at h
        cases h
        refine ⟨rfl, ?_, by omega⟩
        by_contra hc
        apply h3
        simp [rangeIncl]
        omega

/-- SplitMode::Ranges: one output document per requested range, in order, each exactly that
range's selection; a range outside the document or an empty selection makes the split fail. -/
theorem C16_split_ranges (ps : List Src) (rs : List PageRange) (docs : List (List Out))
    (h : split ps (.ranges rs) = .ok docs) :
    List.Forall₂ (fun r d => ∃ idx, getIndices r ps.length = .ok idx ∧ idx ≠ [] ∧
      d = idx.map (copyAt ps)) rs docs := by
  unfold split at h
  split at h
  · cases h
  · simp only [splitRanges] at h
    clear * - h
    induction rs generalizing docs with
    | nil => simp [mapM'] at h; subst h; exact List.Forall₂.nil
    | cons r rest ih =>
      simp only [mapM'] at h
      split at h
      · rename_i d hd
        split at h
        · rename_i ds hds
          cases h
          refine List.Forall₂.cons ?_ (ih ds hds)
          simp only [extractRange] at hd
          split at hd
          · rename_i idx hidx
            by_cases he : idx.isEmpty = true
            · simp [he] at hd
            · simp only [he] at hd
              cases hd
              refine ⟨idx, hidx, by intro e; subst e; simp at he, ?_⟩
              simp [pick_eq_map ps idx (C16_getIndices_sound r _ idx hidx).1, copyAt]
          · cases hd
          · cases hd
        · cases h
        · cases h
      · cases h
      · cases h

example : split [default, default, default] (.ranges [.single 2, .range 0 1]) =
    .ok [[copyPage default], [copyPage default, copyPage default]] := by decide
example : split [default, default, default] (.ranges [.range 2 1]) = .err .nopages := by decide

/-- `ChunkSize(0)`: `start + size - 1` underflows — a panic in a debug build, for every
non-empty document -/
theorem C16_split_chunk_zero (ps : List Src) (h : ps ≠ []) : split ps (.chunk 0) = .panic := by
  have : ps.length ≠ 0 := by simpa using h
  simp [split, this, splitRanges]

/-- SplitMode::SinglePages: one document per page, in order -/
theorem C16_split_single (ps : List Src) (hne : ps ≠ []) :
    split ps .single = .ok (ps.map fun p => [copyPage p]) := by
  unfold split
  have : ps.length ≠ 0 := by simpa using hne
  simp only [this, if_false, splitRanges]
  have h := mapM'_ok_map (extractRange ps) (fun r => match r with
      | .single i => [copyAt ps i] | _ => []) ((List.range ps.length).map PageRange.single) (by
    intro r hr
    simp only [List.mem_map, List.mem_range] at hr
    obtain ⟨i, hi, rfl⟩ := hr
    have : ¬ ps.length ≤ i := by omega
    simp [extractRange, getIndices, this, pick_eq_map ps [i] (by simpa using hi), copyAt])
  rw [h]
  congr 1
  rw [List.map_map]
  have := map_copyAt_range ps
  apply List.ext_getElem
  · simp
  · intro i h1 h2
    simp at h1 h2 ⊢
    simp [copyAt, List.getD_eq_getElem?_getD, List.getElem?_eq_getElem h1]

theorem chunk_flatten (ps : List Src) (size : Nat) (hs : 0 < size) :
    ∀ (fuel start : Nat) (docs : List (List Out)), start ≤ ps.length → ps.length - start ≤ fuel →
      mapM' (extractRange ps) (chunkRanges size ps.length fuel start) = .ok docs →
      docs.flatten = pick ps (rangeIncl start (ps.length - 1)) ∨ (start = ps.length ∧ docs = []) := by
  intro fuel
  induction fuel with
  | zero =>
    intro start docs h1 h2 h
    simp [chunkRanges, mapM'] at h
    exact Or.inr ⟨by omega, by first | exact h | exact h.symm⟩
  | succ fuel ih =>
    intro start docs h1 h2 h
    simp only [chunkRanges] at h
    split at h
    · rename_i hlt
      simp only [mapM'] at h
      split at h
      · rename_i d hd
        split at h
        · rename_i ds hds
          cases h
          obtain ⟨hd1, hd2, hd3⟩ := extractRange_ok ps _ _ d hd
          left
          simp only [List.flatten_cons]
          by_cases hend : start + size < ps.length
          · have hmin : min (start + size - 1) (ps.length - 1) = start + size - 1 := by omega
            rcases ih (start + size) ds (by omega) (by omega) hds with hh | ⟨hh, _⟩
            · rw [hh, hd1, hmin, ← pick_append]
              have hr := rangeIncl_append start (start + size - 1) (ps.length - 1) (by omega) (by omega)
              rw [show start + size - 1 + 1 = start + size by omega] at hr
              rw [hr]
            · omega
          · have hmin : min (start + size - 1) (ps.length - 1) = ps.length - 1 := by omega
            have hnext : chunkRanges size ps.length fuel (start + size) = [] := by
              cases fuel with
              | zero => rfl
              | succ f => simp [chunkRanges]; omega
            rw [hnext] at hds
            simp [mapM'] at hds
            subst hds
            rw [hd1, hmin]; simp
        · cases h
        · cases h
      · cases h
      · cases h
    · simp [mapM'] at h
      exact Or.inr ⟨by omega, by first | exact h | exact h.symm⟩

/-- SplitMode::ChunkSize(n), n > 0: the chunks concatenate to the whole document -/
theorem C16_split_chunk_flatten (ps : List Src) (size : Nat) (hs : 0 < size) (docs : List (List Out))
    (h : split ps (.chunk size) = .ok docs) : docs.flatten = ps.map copyPage := by
  unfold split at h
  split at h
  · cases h
  · rename_i hne
    cases size with
    | zero => omega
    | succ k =>
      simp only [splitRanges] at h
      rcases chunk_flatten ps (k + 1) hs ps.length 0 docs (by omega) (by omega) h with hh | ⟨hh, _⟩
      · rw [hh, rangeIncl_zero]
        have : ps.length - 1 + 1 = ps.length := by omega
        rw [this, pick_range]
      · exact absurd hh.symm hne

theorem splitAt_flatten (ps : List Src) :
    ∀ (pts : List Nat) (start : Nat) (docs : List (List Out)), start < ps.length →
      mapM' (extractRange ps) (splitAtRanges ps.length pts start) = .ok docs →
      docs.flatten = pick ps (rangeIncl start (ps.length - 1)) := by
  intro pts
  induction pts with
  | nil =>
    intro start docs hlt h
    simp only [splitAtRanges, hlt, if_true, mapM'] at h
    split at h
    · rename_i d hd
      cases h
      simp [(extractRange_ok ps _ _ d hd).1]
    · cases h
    · cases h
  | cons p r ih =>
    intro start docs hlt h
    simp only [splitAtRanges] at h
    split at h
    · rename_i hp
      simp only [mapM'] at h
      split at h
      · rename_i d hd
        split at h
        · rename_i ds hds
          cases h
          obtain ⟨hd1, hd2, _⟩ := extractRange_ok ps _ _ d hd
          rw [List.flatten_cons, ih p ds hp.2 hds, hd1, ← pick_append]
          have hr := rangeIncl_append start (p - 1) (ps.length - 1) (by omega) (by omega)
          rw [show p - 1 + 1 = p by omega] at hr
          rw [hr]
        · cases h
        · cases h
      · cases h
      · cases h
    · exact ih start docs hlt h

/-- SplitMode::SplitAt(points): whenever the split succeeds, the parts concatenate to the
whole document (unsorted or repeated points make it fail with `NoPagesToProcess`) -/
theorem C16_split_at_flatten (ps : List Src) (pts : List Nat) (docs : List (List Out))
    (h : split ps (.at pts) = .ok docs) : docs.flatten = ps.map copyPage := by
  unfold split at h
  split at h
  · cases h
  · rename_i hne
    simp only [splitRanges] at h
    rw [splitAt_flatten ps pts 0 docs (by omega) h, rangeIncl_zero]
    have : ps.length - 1 + 1 = ps.length := by omega
    rw [this, pick_range]

example : split [default, default, default] (.at [1, 2]) =
    .ok [[copyPage default], [copyPage default], [copyPage default]] := by decide
example : split [default, default, default] (.at [2, 1]) = .err .nopages := by decide
example : split [default, default, default] (.chunk 2) =
    .ok [[copyPage default, copyPage default], [copyPage default]] := by decide

theorem flatten_singletons (ps : List Src) :
    (ps.map fun p => [copyPage p]).flatten = ps.map copyPage := by
  induction ps with
  | nil => rfl
  | cons a r ih => simp [ih]

theorem merge_all (parts : List (List Out)) (hne : parts ≠ []) :
    merge (parts.map fun d => (d.map reread, PageRange.all)) =
      .ok (parts.flatten.map fun o => copyPage (reread o)) := by
  unfold merge
  have hemp : (parts.map fun d => (d.map reread, PageRange.all)).isEmpty = false := by
    cases parts <;> simp_all
  simp only [hemp]
  have key : mapM' (fun i : List Src × PageRange => mergeInput i.1 i.2)
      (parts.map fun d => (d.map reread, PageRange.all)) =
      .ok (parts.map fun d => d.map fun o => copyPage (reread o)) := by
    have := mapM'_ok_map (fun i : List Src × PageRange => mergeInput i.1 i.2)
      (fun i => i.1.map copyPage) (parts.map fun d => (d.map reread, PageRange.all)) (by
        intro i hi
        simp only [List.mem_map] at hi
        obtain ⟨d, _, rfl⟩ := hi
        have hp := pick_range (d.map reread)
        simp only [List.length_map] at hp
        simp [mergeInput, getIndices, hp])
    rw [this]
    simp [List.map_map, Function.comp_def]
  rw [key]
  simp [List.map_flatten]

/-- MERGE ∘ SPLIT.  For SinglePages, ChunkSize(n>0) and SplitAt: merging the parts of a split
document, in order, gives back the original page sequence — every page copied a second time. -/
theorem C16_merge_split (ps : List Src) (m : SplitMode) (parts : List (List Out))
    (hm : match m with | .single => True | .chunk n => 0 < n | .at _ => True | .ranges _ => False)
    (h : split ps m = .ok parts) :
    merge (parts.map fun d => (d.map reread, PageRange.all)) =
      .ok (ps.map fun p => copyPage (reread (copyPage p))) := by
  have hps : ps ≠ [] := by
    intro e; subst e; simp [split] at h
  have hflat : parts.flatten = ps.map copyPage := by
    cases m with
    | single =>
      rw [C16_split_single ps hps] at h
      cases h
      exact flatten_singletons ps
    | chunk n => exact C16_split_chunk_flatten ps n hm parts h
    | «at» pts => exact C16_split_at_flatten ps pts parts h
    | ranges _ => exact absurd hm (by simp)
  have hne : parts ≠ [] := by
    intro e; subst e
    simp at hflat
    exact hps hflat
  rw [merge_all parts hne, hflat, List.map_map]
  rfl

/-- the second copy changes nothing but a trailing newline of the content (and the order-
insensitive resource list): geometry and rotation of the first copy are fixed points -/
theorem C16_recopy (p : Src) :
    let o := copyPage p
    let o2 := copyPage (reread o)
    o2.mediaBox = o.mediaBox ∧ o2.cropBox = o.cropBox ∧ o2.rotation = o.rotation ∧
    o2.content = o.content ++ "0a" ∧ (∀ k, k ∈ o2.res ↔ k ∈ o.res) := by
  refine ⟨?_, rfl, rfl, ?_, ?_⟩
  · simp only [copyPage, reread, boxAt, List.getD_cons_zero, List.getD_cons_succ]
    exact box_fix _ _ _ _
  · simp [copyPage, reread, joinStreams]
  · intro k
    simp [copyPage, reread, mem_sortKeys]

/-! ## Part C — rotation -/

/-- `RotationAngle::from_degrees`: accepts exactly the multiples of 90 (negative and beyond 360
included) and reduces them to 0/90/180/270 modulo 360 -/
theorem C16_fromDegrees (d : Int) :
    (d % 90 = 0 → ∃ a, fromDegrees d = some a ∧ (a = 0 ∨ a = 90 ∨ a = 180 ∨ a = 270) ∧ (d - a) % 360 = 0) ∧
    (d % 90 ≠ 0 → fromDegrees d = none) := by
  unfold fromDegrees
  have ht : Int.tmod d 360 = d - 360 * (Int.tdiv d 360) := Int.tmod_def d 360
  have hb1 := Int.tmod_lt_of_pos d (show (0 : Int) < 360 by decide)
  have hb2 : -360 < Int.tmod d 360 := by
    have := Int.lt_tmod_of_pos d (show (0 : Int) < 360 by decide)
    omega
  constructor
  · intro h
    simp only
    split
    · rename_i hneg
      refine ⟨Int.tmod d 360 + 360, ?_, ?_, ?_⟩
      · have : Int.tmod d 360 + 360 = 0 ∨ Int.tmod d 360 + 360 = 90 ∨ Int.tmod d 360 + 360 = 180 ∨ Int.tmod d 360 + 360 = 270 := by omega
        simp [this]
      · omega
      · omega
    · rename_i hpos
      refine ⟨Int.tmod d 360, ?_, ?_, ?_⟩
      · have : Int.tmod d 360 = 0 ∨ Int.tmod d 360 = 90 ∨ Int.tmod d 360 = 180 ∨ Int.tmod d 360 = 270 := by omega
        simp [this]
      · omega
      · omega
  · intro h
    simp only
    split <;> (rw [if_neg]; omega)

example : fromDegrees (-450) = some 270 ∧ fromDegrees 810 = some 90 ∧ fromDegrees 45 = none := by decide

/-- `create_rotated_page` on a source /Rotate that is a multiple of 90 (negative and > 360
included): the new /Rotate is in {0,90,180,270} and equals old + angle modulo 360. -/
theorem C16_rotated_mod360 (r a : Int) (hr : r % 90 = 0) (ha : a = 0 ∨ a = 90 ∨ a = 180 ∨ a = 270)
    (hlo : I32_MIN ≤ r) (hhi : r + a ≤ I32_MAX) :
    ∃ x, rotated r a = .ok x ∧ (x = 0 ∨ x = 90 ∨ x = 180 ∨ x = 270) ∧ (x - (r + a)) % 360 = 0 := by
  unfold rotated snap
  simp only [I32_MAX, I32_MIN] at *
  have h1 : ¬ (r + a > 2147483647 ∨ r + a < -2147483648) := by omega
  simp only [h1, if_false]
  have hm : (r + a) % 360 = 0 ∨ (r + a) % 360 = 90 ∨ (r + a) % 360 = 180 ∨ (r + a) % 360 = 270 := by omega
  refine ⟨_, rfl, ?_, ?_⟩
  · rcases hm with h | h | h | h <;> simp [h]
  · rcases hm with h | h | h | h <;> simp [h] <;> omega

/-- rotations compose: rotating by `a` then by `b` is rotating by `a + b` -/
theorem C16_rotated_compose (r a b : Int) (hr : r % 90 = 0)
    (ha : a = 0 ∨ a = 90 ∨ a = 180 ∨ a = 270) (hb : b = 0 ∨ b = 90 ∨ b = 180 ∨ b = 270)
    (hlo : I32_MIN ≤ r) (hhi : r + a + b ≤ I32_MAX) :
    ∃ x y, rotated r a = .ok x ∧ rotated x b = .ok y ∧ rotated r (a + b) = .ok y := by
  obtain ⟨x, hx, hx4, hxm⟩ := C16_rotated_mod360 r a hr ha hlo (by simp only [I32_MAX] at *; omega)
  have hxr : x % 90 = 0 := by omega
  obtain ⟨y, hy, hy4, hym⟩ := C16_rotated_mod360 x b hxr hb (by simp only [I32_MIN]; omega)
    (by simp only [I32_MAX]; omega)
  refine ⟨x, y, hx, hy, ?_⟩
  unfold rotated snap
  simp only [I32_MAX, I32_MIN] at *
  have h1 : ¬ (r + (a + b) > 2147483647 ∨ r + (a + b) < -2147483648) := by omega
  simp only [h1, if_false]
  have hm : (r + (a + b)) % 360 = y := by omega
  rw [hm]
  rcases hy4 with h | h | h | h <;> simp [h]

/-- ROTATING BACK: whenever source rotation plus angle is a full turn the composed /Rotate is 0
(the entry disappears from the written page) — in particular for a page that already carries a
non-zero /Rotate (own or inherited) turned by the complementary angle. -/
theorem C16_rotated_back_to_zero (r a : Int) (h : (r + a) % 360 = 0)
    (hlo : I32_MIN ≤ r + a) (hhi : r + a ≤ I32_MAX) : rotated r a = .ok 0 := by
  unfold rotated snap
  simp only [I32_MAX, I32_MIN] at *
  have h1 : ¬ (r + a > 2147483647 ∨ r + a < -2147483648) := by omega
  simp [h1, h]

/-- … and whenever it is not a full turn the composed /Rotate is NOT the source's residue unless
the angle is 0: the new angle always takes effect. -/
theorem C16_rotated_changes (r a : Int) (hr : r % 90 = 0) (ha : a = 90 ∨ a = 180 ∨ a = 270)
    (hlo : I32_MIN ≤ r) (hhi : r + a ≤ I32_MAX) :
    ∃ x, rotated r a = .ok x ∧ (x - r) % 360 ≠ 0 := by
  obtain ⟨x, hx, _, hm⟩ := C16_rotated_mod360 r a hr (by omega) hlo hhi
  exact ⟨x, hx, by omega⟩

example : rotated 90 270 = .ok 0 ∧ rotated 180 180 = .ok 0 ∧ rotated 270 90 = .ok 0 ∧
    rotated (-90) 90 = .ok 0 ∧ rotated 450 270 = .ok 0 := by decide

/-- two steps (the second on the re-read output of the first): 90 then 270 is the identity on
/Rotate, for every source rotation that is a multiple of 90 -/
theorem C16_rotate_90_then_270 (r : Int) (hr : r % 90 = 0) (hlo : I32_MIN ≤ r) (hhi : r + 90 ≤ I32_MAX) :
    ∃ x y, rotated r 90 = .ok x ∧ rotated x 270 = .ok y ∧ (y - r) % 360 = 0 ∧
      (y = 0 ∨ y = 90 ∨ y = 180 ∨ y = 270) := by
  obtain ⟨x, hx, hx4, hxm⟩ := C16_rotated_mod360 r 90 hr (by omega) hlo hhi
  obtain ⟨y, hy, hy4, hym⟩ := C16_rotated_mod360 x 270 (by omega) (by omega)
    (by simp only [I32_MIN]; omega) (by simp only [I32_MAX]; omega)
  exact ⟨x, y, hx, hy, by omega, hy4⟩

example : rotated (-450) 90 = .ok 0 ∧ rotated 810 270 = .ok 0 ∧ rotated 270 180 = .ok 90 := by decide

/-- REGRESSION WITNESS (C16-F3, fixed by 4d24d5f3; debug build): before the repair
`parsed_page.rotation + angle.to_degrees()` was an `i32` addition; a source /Rotate 2147483610
(a multiple of 90) rotated by 90 overflowed → panic.  The repaired composition answers 180. -/
theorem C16_witness_rotation_overflow : rotated 2147483610 90 = .panic ∧ (2147483610 : Int) % 90 = 0 ∧
    rotatedRepaired 2147483610 90 = .ok 180 := by
  decide

/-- the overflow-free form agrees with the current code wherever that answers … -/
theorem C16_rotatedRepaired_agrees (r a x : Int) (h : rotated r a = .ok x) :
    rotatedRepaired r a = .ok x := by
  unfold rotated at h
  simp only at h
  split at h
  · cases h
  · cases h
    unfold rotatedRepaired
    have : (r % 360 + a) % 360 = (r + a) % 360 := by omega
    rw [this]

/-- … never panics, and satisfies the rotation law for EVERY source /Rotate that is a multiple of
90 (no i32 range hypothesis): what the statement asks of C16-F3's repair. -/
theorem C16_rotatedRepaired_mod360 (r a : Int) (hr : r % 90 = 0) (ha : a = 0 ∨ a = 90 ∨ a = 180 ∨ a = 270) :
    ∃ x, rotatedRepaired r a = .ok x ∧ (x = 0 ∨ x = 90 ∨ x = 180 ∨ x = 270) ∧ (x - (r + a)) % 360 = 0 := by
  unfold rotatedRepaired snap
  have hm : (r % 360 + a) % 360 = 0 ∨ (r % 360 + a) % 360 = 90 ∨ (r % 360 + a) % 360 = 180 ∨
      (r % 360 + a) % 360 = 270 := by omega
  refine ⟨_, rfl, ?_, ?_⟩
  · rcases hm with h | h | h | h <;> simp [h]
  · rcases hm with h | h | h | h <;> simp [h] <;> omega

example : rotatedRepaired 2147483610 90 = .ok 180 ∧ rotated 2147483610 90 = .panic := by decide

/-- what `rotate` does to one page -/
def RotRel (idx : List Nat) (angle : Int) (i : Nat) (p : Src) (o : Out) : Prop :=
  o = { copyPage p with rotation := o.rotation } ∧
  (if idx.contains i then rotatedRepaired p.rotation angle = .ok o.rotation else o.rotation = p.rotation)

/-- ROTATE changes nothing but /Rotate, and /Rotate only on the selected pages: the output has
one page per input page, in order; each is the plain copy with (for selected indices) the
composed rotation. -/
theorem C16_rotate_only_rotation (ps : List Src) (idx : List Nat) (angle : Int) :
    ∀ (rest : List Src) (i : Nat) (out : List Out), rotatePages ps idx angle i rest = .ok out →
      List.Forall₂ (fun (jp : Nat × Src) o => RotRel idx angle jp.1 jp.2 o)
        ((List.range rest.length).map (· + i) |>.zip rest) out := by
  intro rest
  induction rest with
  | nil => intro i out h; simp [rotatePages] at h; subst h; simp
  | cons p rest ih =>
    intro i out h
    simp only [rotatePages] at h
    split at h
    · rename_i o ho
      split at h
      · rename_i os hos
        cases h
        have hrest := ih (i + 1) os hos
        have e : (List.range (p :: rest).length).map (· + i) = i :: (List.range rest.length).map (· + (i + 1)) := by
          simp only [List.length_cons, List.range_succ_eq_map, List.map_cons, List.map_map]
          simp
          intro a _; omega
        rw [e, List.zip_cons_cons]
        refine List.Forall₂.cons ?_ hrest
        unfold RotRel
        by_cases hc : idx.contains i = true
        · simp only [hc, if_true] at ho ⊢
          split at ho
          · rename_i r hr; cases ho; exact ⟨rfl, hr⟩
          · cases ho
          · cases ho
        · simp only [hc] at ho ⊢
          cases ho
          exact ⟨rfl, rfl⟩
      · cases h
      · cases h
    · cases h
    · cases h

/-! ## Part D — what a copied page keeps -/

/-- rotation is carried over verbatim (negative and > 360 values included) -/
theorem C16_copy_rotation (p : Src) : (copyPage p).rotation = p.rotation := rfl

/-- the content is the concatenation of the decoded source streams, each followed by a newline -/
theorem C16_copy_content (p : Src) : (copyPage p).content = joinStreams p.streams := rfl

/-- every resource category of the source page is present; the only addition is `Font` (the
writer's standard-14 dictionary) -/
theorem C16_copy_resources (p : Src) (k : String) :
    k ∈ (copyPage p).res ↔ k = "Font" ∨ k ∈ p.res.getD [] := by
  simp [copyPage, mem_sortKeys]

/-- GEOMETRY (full statement since the repairs of C16-F1 / C16-F2): "each [page] with the same …
page boxes (including a non-zero origin)" — the MediaBox with its origin and the CropBox (own or
inherited in the source) are those of the source page.  (`ParsedPage::media_box` is a `[f64; 4]`,
hence the length hypothesis; it holds for every page `create_parsed_page` returns.) -/
theorem C16_copy_geometry (p : Src) (h : p.mediaBox.length = 4) :
    (copyPage p).mediaBox = p.mediaBox ∧ (copyPage p).cropBox = p.cropBox := by
  refine ⟨?_, rfl⟩
  obtain ⟨x0, y0, x1, y1, hp⟩ : ∃ x0 y0 x1 y1, p.mediaBox = [x0, y0, x1, y1] := by
    match hq : p.mediaBox, h with
    | [x0, y0, x1, y1], _ => exact ⟨x0, y0, x1, y1, rfl⟩
  simp only [copyPage, hp, boxAt, List.getD_cons_zero, List.getD_cons_succ]
  exact box_fix _ _ _ _

example : (copyPage { (default : Src) with mediaBox := [200, 400, 800, 1200], cropBox := some [210, 410, 700, 1100] }).mediaBox
    = [200, 400, 800, 1200] := by decide

/-- what held before the repairs (`copyPageOld`): geometry preserved exactly when the MediaBox
starts at the origin and the page has no CropBox -/
theorem C16_copy_geometry_partial (p : Src) (w h : Int) (hm : p.mediaBox = [0, 0, w, h])
    (hc : p.cropBox = none) :
    (copyPageOld p).mediaBox = p.mediaBox ∧ (copyPageOld p).cropBox = p.cropBox := by
  simp [copyPageOld, hm, hc, boxAt]

example : (copyPageOld { (default : Src) with mediaBox := [0, 0, 1224, 1584] }).mediaBox = [0, 0, 1224, 1584] := by
  decide

/-- the size (width, height) always survived, also before the repair -/
theorem C16_copy_size (p : Src) (x0 y0 x1 y1 : Int) (hm : p.mediaBox = [x0, y0, x1, y1]) :
    (copyPageOld p).mediaBox = [0, 0, x1 - x0, y1 - y0] := by
  simp [copyPageOld, hm, boxAt]

/-- the repaired copy differs from the old one in the boxes only -/
theorem C16_copy_old_same_rest (p : Src) :
    (copyPage p).rotation = (copyPageOld p).rotation ∧ (copyPage p).res = (copyPageOld p).res ∧
    (copyPage p).content = (copyPageOld p).content := ⟨rfl, rfl, rfl⟩

/-- REGRESSION WITNESS (C16-F1, fixed): before the repair MediaBox [100 200 400 600]
(×2 = [200,400,800,1200]) became [0 0 300 400] while the content was unchanged. -/
theorem C16_witness_mediabox_origin :
    let p : Src := { mediaBox := [200, 400, 800, 1200], cropBox := none, rotation := 90, res := none, streams := ["71"] }
    (copyPageOld p).mediaBox = [0, 0, 600, 800] ∧ (copyPageOld p).mediaBox ≠ p.mediaBox ∧
    (copyPageOld p).content = "710a" ∧ (copyPage p).mediaBox = p.mediaBox := by
  decide

/-- REGRESSION WITNESS (C16-F2, fixed): before the repair a CropBox was never carried over. -/
theorem C16_witness_cropbox_dropped :
    let p : Src := { mediaBox := [0, 0, 1224, 1584], cropBox := some [20, 20, 600, 800], rotation := 0, res := none, streams := [] }
    (copyPageOld p).cropBox = none ∧ (copyPageOld p).cropBox ≠ p.cropBox ∧ (copyPage p).cropBox = p.cropBox := by
  decide

end OxiVerif.C16
