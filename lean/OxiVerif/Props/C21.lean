import OxiVerif.Lemmas.C21Ops
/-!
# C21 — content streams parse back to the operators that were written

Model: `Model/C21.lean` (`serialize_ops` and the emitting API of `graphics/ops.rs`,
`graphics/mod.rs`, `text/mod.rs`, `text/encoding.rs`, `page.rs`), `Model/C21Parse.lean`
(`parser/content.rs`: `ContentTokenizer`, `ContentParser`).  All theorems are unbounded (lists of
any length, byte strings of any length, any formatter that produces decimal tokens).

/- FULL (the property as stated):
   ∀ fmt ops, parseContent (serializeOps fmt ops) = some (canonAll fmt ops)
   — false of the current code; see the witnesses below (`C21_witness_*`). -/
-/
namespace OxiVerif.C21
open OxiVerif.Spec.Syntax (isDigit allDigits digitsVal)

/-! ## 1. operands: strings, hex strings, numbers, names (token level, any following input) -/

/-- **Strings with arbitrary bytes**: what any of the three show-text escapers
    (`escape_show_text_literal_bytes`, `GraphicsContext::show_text`,
    `draw_with_simple_encoding`) writes between the parentheses is read back by
    `read_literal_string` as exactly the original bytes, for EVERY byte string, whatever follows. -/
theorem C21_string_all_bytes (k : Esc) (bs rest : List Nat) (hb : ∀ b ∈ bs, b < 256) :
    nextToken (bytesOf (.lit k bs) ++ rest) = .tok (.str bs) rest := by
  simp only [bytesOf, List.cons_append, nextToken, List.append_assoc, List.nil_append]
  rw [nextTok_lparen, readLit_escape k bs _ hb]

example : nextToken (bytesOf (.lit .lit [40, 0, 255, 92, 13, 41, 41]) ++ [32, 84, 106]) =
    .tok (.str [40, 0, 255, 92, 13, 41, 41]) [32, 84, 106] :=
  C21_string_all_bytes _ _ _ (by decide)

/-- hex strings (`<HEX> Tj`, TJ glyph runs, `/ActualText`) for every byte string -/
theorem C21_hexstring_all_bytes (bs rest : List Nat) (hb : ∀ b ∈ bs, b < 256) :
    nextToken (bytesOf (.hex bs) ++ rest) = .tok (.hexStr bs) rest := by
  simp only [bytesOf, List.cons_append, nextToken, List.append_assoc, List.nil_append]
  exact nextTok_hex _ bs rest (hexBytesUpper_head_ne_lt bs rest) (readHexStr_upper bs _ hb)

example : nextToken (bytesOf (.hex [0, 65, 254, 255]) ++ [62, 62]) = .tok (.hexStr [0, 65, 254, 255]) [62, 62] :=
  C21_hexstring_all_bytes _ _ (by decide)

/-- numbers: every decimal token the writer can produce (`-`? digits `.` digits — the shape of
    Rust's `{:.N}`, N ≥ 1) and every integer token within `i32` is read back as that very token
    (the `f32` value is then `str::parse::<f32>` of the token: trusted std) -/
theorem C21_number_token (t rest : List Nat) (tok : Token) (h : NumRead t tok) (hr : TermOk rest) :
    nextToken (t ++ rest) = .tok tok rest := nextTok_num t rest tok h hr

example : nextToken ([45, 48, 46, 48, 48] ++ [32, 109]) = .tok (.number [45, 48, 46, 48, 48]) [32, 109] :=
  C21_number_token _ _ _ (.dec ⟨[45], [48], [48, 48], Or.inr rfl, by decide, by decide, by decide, rfl⟩)
    (Or.inr ⟨32, [109], rfl, by decide⟩)

/-- **names, full** (since the name operands go through `escape_pdf_name_bytes`): EVERY name a
    Rust `String` can hold — white space, delimiters, `#`, controls, non-ASCII included — is read
    back by the content tokenizer as exactly that name, and ends where it was meant to end -/
theorem C21_name_token (n rest : List Nat) (h : NameOk n) (hr : TermOk rest) :
    nextToken (bytesOf (.name n) ++ rest) = .tok (.name n) rest := by
  simp only [bytesOf, List.cons_append, nextToken]
  rw [nextTok_slash, readName_ok n _ h hr]

example : nextToken (bytesOf (.name [77, 121, 32, 35, 47, 40, 195, 169]) ++ [32]) =
    .tok (.name [77, 121, 32, 35, 47, 40, 195, 169]) [32] :=
  C21_name_token _ _ ⟨by decide, by decide⟩ (Or.inr ⟨32, [], rfl, by decide⟩)

/-- the pre-repair emission (`/` + raw bytes) was correct only for names without white space,
    delimiter and `#` -/
theorem C21_raw_name_token_partial (n rest : List Nat) (h : RawNameOk n) (hr : TermOk rest) :
    nextToken (47 :: n ++ rest) = .tok (.name n) rest := by
  simp only [List.cons_append, nextToken]
  rw [nextTok_slash, readName_raw n _ h hr]

example : nextToken (47 :: [70, 49] ++ [32]) = .tok (.name [70, 49]) [32] :=
  C21_raw_name_token_partial _ _ ⟨by decide, by decide⟩ (Or.inr ⟨32, [], rfl, by decide⟩)

/-- regression statement about the pre-repair emission: a raw `#` in a name is decoded by the
    parser, `/A#42 Do` is read back as name `AB`; the escaped emission reads back `A#42` -/
theorem C21_old_witness_name_hash :
    nextToken (47 :: [65, 35, 52, 50] ++ [32]) = .tok (.name [65, 66]) [32] ∧
    nextToken (bytesOf (.name [65, 35, 52, 50]) ++ [32]) = .tok (.name [65, 35, 52, 50]) [32] := by
  decide

/-! ## 2. the tokenizer on whole streams -/

/-- **the tokenizer returns exactly the authored tokens** of any well-formed piece list (`Reads`:
    every number/name/keyword is followed by a separator piece, comments by a line end) -/
theorem C21_tokenize_pieces (ps : List Piece) (ts : List Token) (h : Reads ps ts) :
    tokenize ((render ps).length + 1) (render ps) = ts :=
  tokenize_render ps ts h _ (Nat.le_refl _)

/-! ## 3. operators -/

/-- an operator whose written pieces are read as one self-contained token group whose parse is
    the authored operator -/
def Good (fmt : Fmt) (o : Op) : Prop := ∃ ts, OpOk fmt o ts ∧ parseOps' ts [] = canon fmt o

/-- **Compositional round trip** (no bound on the number of operators): if every operator of the
    list is `Good`, the content stream parses back to exactly the authored operators, in order —
    nothing leaks from one operator into the next (the operand stack is cleared), nothing of the
    tail is lost. -/
theorem C21_roundtrip_of_good (fmt : Fmt) (ops : List Op) (h : ∀ o ∈ ops, Good fmt o) :
    parseContent (serializeOps fmt ops) = some (canonAll fmt ops) := by
  classical
  let toks : Op → List Token := fun o => if hg : Good fmt o then Classical.choose hg else []
  have hok : ∀ o ∈ ops, OpOk fmt o (toks o) := by
    intro o ho
    have hg := h o ho
    simp only [toks, dif_pos hg]
    exact (Classical.choose_spec hg).1
  have hcanon : ∀ l : List Op, (∀ o ∈ l, Good fmt o) → allParsed toks l = canonAll fmt l := by
    intro l
    induction l with
    | nil => intro _; rfl
    | cons o r ih =>
      intro hl
      have hg := hl o (by simp)
      have : parseOps' (toks o) [] = canon fmt o := by
        simp only [toks, dif_pos hg]
        exact (Classical.choose_spec hg).2
      simp only [allParsed, canonAll, this, ih (fun x hx => hl x (by simp [hx]))]
  rw [parseContent_ops fmt toks ops hok, hcanon ops h]

/-- the operators covered by the proof, with the hypotheses under which they round-trip -/
inductive Safe : Op → Prop where
  | moveTo (x y : Flt) : Safe (.moveTo x y)
  | lineTo (x y : Flt) : Safe (.lineTo x y)
  | curveTo (a b c d e f : Flt) : Safe (.curveTo a b c d e f)
  | rect (x y w h : Flt) : Safe (.rect x y w h)
  | cm (a b c d e f : Flt) : Safe (.cm a b c d e f)
  | setLineWidth (w : Flt) : Safe (.setLineWidth w)
  | setMiterLimit (w : Flt) : Safe (.setMiterLimit w)
  | setFlatness (w : Flt) : Safe (.setFlatness w)
  | setTextPosition (x y : Flt) : Safe (.setTextPosition x y)
  | setWordSpacing (w : Flt) : Safe (.setWordSpacing w)
  | setCharSpacing (w : Flt) : Safe (.setCharSpacing w)
  | setHorizontalScaling (w : Flt) : Safe (.setHorizontalScaling w)
  | setLeading (w : Flt) : Safe (.setLeading w)
  | setTextRise (w : Flt) : Safe (.setTextRise w)
  | setFillColor (c : Color) : Safe (.setFillColor c)
  | setStrokeColor (c : Color) : Safe (.setStrokeColor c)
  | closePath : Safe .closePath
  | stroke : Safe .stroke
  | fillNonZero : Safe .fillNonZero
  | fillStroke : Safe .fillStroke
  | saveState : Safe .saveState
  | restoreState : Safe .restoreState
  | beginText : Safe .beginText
  | endText : Safe .endText
  | endPath : Safe .endPath
  | clipNonZero : Safe .clipNonZero
  | clipEvenOdd : Safe .clipEvenOdd
  | clipStroke : Safe .clipStroke
  | rawEmc : Safe .rawEmc
  | setFillColorSpace (n : List Nat) (h : NameOk n) : Safe (.setFillColorSpace n)
  | setStrokeColorSpace (n : List Nat) (h : NameOk n) : Safe (.setStrokeColorSpace n)
  | setExtGState (n : List Nat) (h : NameOk n) : Safe (.setExtGState n)
  | setRenderingIntent (n : List Nat) (h : NameOk n) : Safe (.setRenderingIntent n)
  | invokeXObject (n : List Nat) (h : NameOk n) : Safe (.invokeXObject n)
  | paintShading (n : List Nat) (h : NameOk n) : Safe (.paintShading n)
  | setLineCap (n : Nat) (h : n ≤ 2147483647) : Safe (.setLineCap n)
  | setLineJoin (n : Nat) (h : n ≤ 2147483647) : Safe (.setLineJoin n)
  | setRenderingMode (n : Nat) (h : n ≤ 2147483647) : Safe (.setRenderingMode n)
  /-- the `Display` text of a finite size is a decimal token or an integer within `i32` -/
  | setFont (n : List Nat) (size : Flt) (disp : List Nat) (h : NameOk n)
      (hd : size.isFinite = true → IsDecTok disp ∨ IsPlainInt disp) : Safe (.setFont n size disp)
  | rawClipRect (x y w h : Flt) : Safe (.rawClipRect x y w h)
  | showText (k : Esc) (bs : List Nat) (h : ∀ b ∈ bs, b < 256) : Safe (.showText k bs)
  | showTextHex (bs : List Nat) (h : ∀ b ∈ bs, b < 256) : Safe (.showTextHex bs)
  | comment (t : List Nat) (h : ∀ b ∈ t, b ≠ 10) : Safe (.comment t)

theorem digits_no_dot (d : List Nat) (hd : allDigits d = true) : 46 ∉ d := by
  induction d with
  | nil => simp
  | cons b r ih =>
    simp only [allDigits, Bool.and_eq_true] at hd
    have : b ≠ 46 := by
      have := hd.1; simp [isDigit] at this; omega
    simp only [List.mem_cons, not_or]
    exact ⟨Ne.symm this, ih hd.2⟩

theorem numArg_int (t : List Nat) (i : Int) (h : IsIntTok t i) : numArg t = .numI i := by
  rcases h with ⟨hne, hd, hv, rfl⟩ | ⟨d, rfl, hne, hd, hv, rfl⟩
  · obtain ⟨b, r, hbr, hb⟩ := digits_head t hd hne
    have hb' : b ≠ 43 ∧ b ≠ 45 := by simp [isDigit] at hb; omega
    have hs : splitSign t = (false, t) := by
      subst hbr; unfold splitSign; split <;> simp_all
    have hdot := digits_no_dot t hd
    simp [numArg, hdot, parseI32, hs, hd, hv, isEmpty_false_of_ne t hne]
  · have hdot := digits_no_dot d hd
    simp [numArg, hdot, parseI32, splitSign, hd, hv, isEmpty_false_of_ne d hne]

theorem tf_plain_parse (n disp : List Nat) (h : IsPlainInt disp) :
    parseOps' [.name n, tokOfPlain disp, .operator [84, 102]] [] =
      [⟨[84, 102], [.name n, numArg disp]⟩] := by
  have hd := plain_no_dot disp h
  have hc : disp.contains 46 = false := by
    cases hcc : disp.contains 46
    · rfl
    · exact absurd (List.contains_iff_mem.mp hcc) hd
  unfold tokOfPlain numArg
  cases hp : parseI32 disp
  · simp only [hc, Bool.false_eq_true, if_false]; rfl
  · simp only [hc, Bool.false_eq_true, if_false]; rfl

theorem zero_int : IsIntTok [48] 0 := Or.inl ⟨by decide, by decide, by decide, by decide⟩

theorem good_nums (fmt : Fmt) (o : Op) (toks : List (List Nat)) (kw : List Nat)
    (hp : pieces fmt o = numsThenKw toks kw) (h : ∀ t ∈ toks, IsDecTok t)
    (hk : kwOk kw = true) (hb : kw ≠ kBI)
    (hc : parseOps' (toks.map .number ++ [.operator kw]) [] = canon fmt o) : Good fmt o :=
  ⟨_, opOk_nums fmt o toks kw hp h hk hb, hc⟩

theorem good_of_safe (fmt : Fmt) (hf : FmtOk fmt) (o : Op) (h : Safe o) : Good fmt o := by
  have d := fun p x => hf p x
  have na := fun p x => numArg_dec (fmt p x) (hf p x)
  cases h with
  | moveTo x y =>
    exact good_nums fmt (.moveTo x y) [fmt 2 x, fmt 2 y] [109] rfl (by simp [d]) (by decide) (by decide)
      (by simp only [canon, na]; rfl)
  | lineTo x y =>
    exact good_nums fmt (.lineTo x y) [fmt 2 x, fmt 2 y] [108] rfl (by simp [d]) (by decide) (by decide)
      (by simp only [canon, na]; rfl)
  | curveTo a b c e f g =>
    exact good_nums fmt (.curveTo a b c e f g) [fmt 2 a, fmt 2 b, fmt 2 c, fmt 2 e, fmt 2 f, fmt 2 g] [99] rfl (by simp [d]) (by decide) (by decide)
      (by simp only [canon, na]; rfl)
  | rect x y w hh =>
    exact good_nums fmt (.rect x y w hh) [fmt 2 x, fmt 2 y, fmt 2 w, fmt 2 hh] [114, 101] rfl (by simp [d]) (by decide) (by decide)
      (by simp only [canon, na]; rfl)
  | cm a b c e f g =>
    exact good_nums fmt (.cm a b c e f g) [fmt 2 a, fmt 2 b, fmt 2 c, fmt 2 e, fmt 2 f, fmt 2 g] [99, 109] rfl (by simp [d]) (by decide) (by decide)
      (by simp only [canon, na]; rfl)
  | setLineWidth w =>
    exact good_nums fmt (.setLineWidth w) [fmt 2 w] [119] rfl (by simp [d]) (by decide) (by decide)
      (by simp only [canon, na]; rfl)
  | setMiterLimit w =>
    exact good_nums fmt (.setMiterLimit w) [fmt 2 w] [77] rfl (by simp [d]) (by decide) (by decide)
      (by simp only [canon, na]; rfl)
  | setFlatness w =>
    exact good_nums fmt (.setFlatness w) [fmt 2 w] [105] rfl (by simp [d]) (by decide) (by decide)
      (by simp only [canon, na]; rfl)
  | setTextPosition x y =>
    exact good_nums fmt (.setTextPosition x y) [fmt 2 x, fmt 2 y] [84, 100] rfl (by simp [d]) (by decide) (by decide)
      (by simp only [canon, na]; rfl)
  | setWordSpacing w =>
    exact good_nums fmt (.setWordSpacing w) [fmt 2 w] [84, 119] rfl (by simp [d]) (by decide) (by decide)
      (by simp only [canon, na]; rfl)
  | setCharSpacing w =>
    exact good_nums fmt (.setCharSpacing w) [fmt 2 w] [84, 99] rfl (by simp [d]) (by decide) (by decide)
      (by simp only [canon, na]; rfl)
  | setHorizontalScaling w =>
    exact good_nums fmt (.setHorizontalScaling w) [fmt 2 w] [84, 122] rfl (by simp [d]) (by decide) (by decide)
      (by simp only [canon, na]; rfl)
  | setLeading w =>
    exact good_nums fmt (.setLeading w) [fmt 2 w] [84, 76] rfl (by simp [d]) (by decide) (by decide)
      (by simp only [canon, na]; rfl)
  | setTextRise w =>
    exact good_nums fmt (.setTextRise w) [fmt 2 w] [84, 115] rfl (by simp [d]) (by decide) (by decide)
      (by simp only [canon, na]; rfl)
  | setFillColor c =>
    cases c with
    | rgb r g b =>
      exact good_nums fmt (.setFillColor (.rgb r g b)) [fmt 3 r, fmt 3 g, fmt 3 b] [114, 103] rfl (by simp [d]) (by decide) (by decide)
        (by simp only [canon, colorCanon, na]; rfl)
    | gray y =>
      exact good_nums fmt (.setFillColor (.gray y)) [fmt 3 y] [103] rfl (by simp [d]) (by decide) (by decide)
        (by simp only [canon, colorCanon, na]; rfl)
    | cmyk c m y k =>
      exact good_nums fmt (.setFillColor (.cmyk c m y k)) [fmt 3 c, fmt 3 m, fmt 3 y, fmt 3 k] [107] rfl (by simp [d]) (by decide) (by decide)
        (by simp only [canon, colorCanon, na]; rfl)
  | setStrokeColor c =>
    cases c with
    | rgb r g b =>
      exact good_nums fmt (.setStrokeColor (.rgb r g b)) [fmt 3 r, fmt 3 g, fmt 3 b] [82, 71] rfl (by simp [d]) (by decide) (by decide)
        (by simp only [canon, colorCanon, na]; rfl)
    | gray y =>
      exact good_nums fmt (.setStrokeColor (.gray y)) [fmt 3 y] [71] rfl (by simp [d]) (by decide) (by decide)
        (by simp only [canon, colorCanon, na]; rfl)
    | cmyk c m y k =>
      exact good_nums fmt (.setStrokeColor (.cmyk c m y k)) [fmt 3 c, fmt 3 m, fmt 3 y, fmt 3 k] [75] rfl (by simp [d]) (by decide) (by decide)
        (by simp only [canon, colorCanon, na]; rfl)
  | closePath => exact ⟨_, opOk_kw fmt .closePath [104] rfl (by decide) (by decide), rfl⟩
  | stroke => exact ⟨_, opOk_kw fmt .stroke [83] rfl (by decide) (by decide), rfl⟩
  | fillNonZero => exact ⟨_, opOk_kw fmt .fillNonZero [102] rfl (by decide) (by decide), rfl⟩
  | fillStroke => exact ⟨_, opOk_kw fmt .fillStroke [66] rfl (by decide) (by decide), rfl⟩
  | saveState => exact ⟨_, opOk_kw fmt .saveState [113] rfl (by decide) (by decide), rfl⟩
  | restoreState => exact ⟨_, opOk_kw fmt .restoreState [81] rfl (by decide) (by decide), rfl⟩
  | beginText => exact ⟨_, opOk_kw fmt .beginText [66, 84] rfl (by decide) (by decide), rfl⟩
  | endText => exact ⟨_, opOk_kw fmt .endText [69, 84] rfl (by decide) (by decide), rfl⟩
  | endPath => exact ⟨_, opOk_kw fmt .endPath [110] rfl (by decide) (by decide), rfl⟩
  | clipNonZero => exact ⟨_, opOk_kw fmt .clipNonZero [87] rfl (by decide) (by decide), rfl⟩
  | clipEvenOdd => exact ⟨_, opOk_kw fmt .clipEvenOdd [87, 42] rfl (by decide) (by decide), rfl⟩
  | rawEmc => exact ⟨_, opOk_kw fmt .rawEmc [69, 77, 67] rfl (by decide) (by decide), rfl⟩
  | clipStroke => exact ⟨_, opOk_clipStroke fmt, rfl⟩
  | setFillColorSpace n hn => exact ⟨_, opOk_name fmt (.setFillColorSpace n) n [99, 115] rfl hn (by decide) (by decide), rfl⟩
  | setStrokeColorSpace n hn => exact ⟨_, opOk_name fmt (.setStrokeColorSpace n) n [67, 83] rfl hn (by decide) (by decide), rfl⟩
  | setExtGState n hn => exact ⟨_, opOk_name fmt (.setExtGState n) n [103, 115] rfl hn (by decide) (by decide), rfl⟩
  | setRenderingIntent n hn => exact ⟨_, opOk_name fmt (.setRenderingIntent n) n [114, 105] rfl hn (by decide) (by decide), rfl⟩
  | invokeXObject n hn => exact ⟨_, opOk_name fmt (.invokeXObject n) n [68, 111] rfl hn (by decide) (by decide), rfl⟩
  | paintShading n hn => exact ⟨_, opOk_name fmt (.paintShading n) n [115, 104] rfl hn (by decide) (by decide), rfl⟩
  | setLineCap n hn => exact ⟨_, opOk_int fmt (.setLineCap n) n [74] rfl hn (by decide) (by decide), rfl⟩
  | setLineJoin n hn => exact ⟨_, opOk_int fmt (.setLineJoin n) n [106] rfl hn (by decide) (by decide), rfl⟩
  | setRenderingMode n hn => exact ⟨_, opOk_int fmt (.setRenderingMode n) n [84, 114] rfl hn (by decide) (by decide), rfl⟩
  | setFont n size disp hn hd =>
    by_cases hfin : size.isFinite = true
    · rcases hd hfin with hdec | hpl
      · refine ⟨_, opOk_tf fmt n size disp (.number disp) hn (by simp only [hfin, if_true]; exact .dec hdec), ?_⟩
        simp only [canon, hfin, if_true, numArg_dec disp hdec]; rfl
      · have hnr : NumRead (if size.isFinite = true then disp else [48]) (tokOfPlain disp) := by
          rw [if_pos hfin]; exact .plain hpl
        have hok := opOk_tf fmt n size disp (tokOfPlain disp) hn hnr
        have hcn : canon fmt (.setFont n size disp) = [⟨[84, 102], [.name n, numArg disp]⟩] := by
          simp only [canon, hfin, if_true]
        exact ⟨_, hok, by rw [hcn]; exact tf_plain_parse n disp hpl⟩
    · have hfin' : size.isFinite = false := by simpa using hfin
      refine ⟨_, opOk_tf fmt n size disp (.integer 0) hn
        (by simp only [hfin', Bool.false_eq_true, if_false]; exact .int 0 zero_int), ?_⟩
      simp only [canon, hfin', Bool.false_eq_true, if_false, numArg_int [48] 0 zero_int]; rfl
  | showText k bs hb =>
    exact ⟨_, opOk_show fmt (.showText k bs) (.lit k bs) bs (.str bs) rfl (.lit k bs hb) rfl (by simp), rfl⟩
  | showTextHex bs hb =>
    exact ⟨_, opOk_show fmt (.showTextHex bs) (.hex bs) bs (.hexStr bs) rfl (.hex bs hb) rfl (by simp), rfl⟩
  | comment t ht => exact ⟨_, opOk_comment fmt t ht, rfl⟩
  | rawClipRect x y w hh =>
    exact ⟨_, opOk_clipRect fmt hf x y w hh, by simp only [canon, na]; rfl⟩

/-- **C21, partial**: for every formatter whose `{:.N}` output is a decimal token and every list
    (of any length) of operators from the covered families — path construction and painting,
    clipping, colours, line/text state, transforms, text positioning, fonts, XObject/shading/
    ExtGState/colour-space selection, show-text with ARBITRARY bytes (literal and hex), comments
    without line feeds — the emitted content stream parses back to exactly the authored
    operators with the written operands.
    MISSING from the covered families (modelled and checked by the correspondence run only):
    `sc`/`SC` component lists, dash arrays, `TJ` arrays, the marked-content `BDC` operators.
    Since the repairs, names need no hypothesis beyond being a Rust `String` (`NameOk`), font
    sizes of any magnitude are covered (`IsPlainInt`), and `clip_rect`'s path is covered for
    every argument. -/
theorem C21_roundtrip_partial (fmt : Fmt) (hf : FmtOk fmt) (ops : List Op) (h : ∀ o ∈ ops, Safe o) :
    parseContent (serializeOps fmt ops) = some (canonAll fmt ops) :=
  C21_roundtrip_of_good fmt ops (fun o ho => good_of_safe fmt hf o (h o ho))

/-- non-vacuity: a formatter satisfying the hypothesis and a non-trivial safe program -/
def fmtConst : Fmt := fun _ _ => [49, 46, 53, 48]

theorem fmtConst_ok : FmtOk fmtConst :=
  fun _ _ => ⟨[], [49], [53, 48], Or.inl rfl, by decide, by decide, by decide, rfl⟩

example : parseContent (serializeOps fmtConst
      [.saveState, .moveTo Flt.zero Flt.zero, .showText .lit [40, 255, 0, 92], .restoreState]) =
    some (canonAll fmtConst
      [.saveState, .moveTo Flt.zero Flt.zero, .showText .lit [40, 255, 0, 92], .restoreState]) :=
  C21_roundtrip_partial fmtConst fmtConst_ok _ (by
    intro o ho
    simp only [List.mem_cons, List.not_mem_nil, or_false] at ho
    rcases ho with rfl | rfl | rfl | rfl
    · exact .saveState
    · exact .moveTo _ _
    · exact .showText _ _ (by decide)
    · exact .restoreState)

/-! ## 4. where the real code deviates (kernel-checked witnesses on the concrete formatter) -/

/-- the operator keywords of a parse result (operands are not decidably comparable) -/
def kws (r : Option (List Parsed)) : Option (List (List Nat)) := r.map (List.map Parsed.kw)

/-- REPAIRED (regression statement about `readNumberOld`, the pre-repair `read_number`): a font
    size of 3·10⁹ is written as `3000000000`; the old tokenizer failed on it (and
    `parse_content` then dropped the rest of the page), the repaired one reads a real; the whole
    stream now parses to the authored `Tf` and `S` -/
theorem C21_old_witness_big_integer :
    readNumberOld ([51, 48, 48, 48, 48, 48, 48, 48, 48, 48] ++ [32]) = .err ∧
    readNumber ([51, 48, 48, 48, 48, 48, 48, 48, 48, 48] ++ [32]) =
      .tok (.number [51, 48, 48, 48, 48, 48, 48, 48, 48, 48]) [32] ∧
    kws (parseContent (serializeOps fmtReal
      [.setFont [70] (.fin false 3000000000 0) [51, 48, 48, 48, 48, 48, 48, 48, 48, 48], .stroke])) =
      some [[84, 102], [83]] := by
  refine ⟨by decide +kernel, by decide +kernel, by decide +kernel⟩

/-- REPAIRED (regression statement about `clipRectPiecesOld`, the pre-repair `Raw` of
    `clip_rect`): with `-inf` the old bytes were a tokenizer error — rectangle, clip and the rest
    of the stream (here `S`) lost; the repaired emission parses to `re W n S` -/
theorem C21_old_witness_clip_rect_neg_inf :
    kws (parseContent (render (clipRectPiecesOld (.inf true) Flt.zero Flt.zero Flt.zero ++
      [.kw [83], .nl]))) = some [] ∧
    kws (parseContent (serializeOps fmtReal
      [.rawClipRect (.inf true) Flt.zero Flt.zero Flt.zero, .stroke])) =
      some [[114, 101], [87], [110], [83]] := by
  refine ⟨by decide +kernel, by decide +kernel⟩

/-- REPAIRED: with `NaN` the old bytes lost the `re` (`NaN` read as an unknown operator that
    swallows the operands), `W n` then clipped whatever path was current -/
theorem C21_old_witness_clip_rect_nan :
    kws (parseContent (render (clipRectPiecesOld .nan Flt.zero Flt.zero Flt.zero))) =
      some [[87], [110]] ∧
    kws (parseContent (serializeOps fmtReal [.rawClipRect .nan Flt.zero Flt.zero Flt.zero])) =
      some [[114, 101], [87], [110]] := by
  refine ⟨by decide +kernel, by decide +kernel⟩

/-- `Op::Comment` with a line feed breaks out of the comment (not reachable through the public
    API, whose two comments are constants) -/
theorem C21_witness_comment_lf :
    kws (parseContent (serializeOps fmtReal [.comment [120, 10, 83]])) = some [[83]] := by
  decide +kernel

end OxiVerif.C21
