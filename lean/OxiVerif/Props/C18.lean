import OxiVerif.Lemmas.C18
/-!
# C18 — page-tree navigation follows document order and inheritance

Property theorems about the model in `Model/C18.lean` (a transcription of
`flatten_page_tree`, `collect_inherited_attributes`, `create_parsed_page`,
`PdfDocument::page_count`, `PdfReader::page_count`).  No size, depth or width bound.

Part A  arbitrary object graphs (cyclic kids, shared kids, missing objects, junk):
        the flatten loop and the /Parent walk finish within an explicit number of
        iterations, the page list has no duplicates, at most MAX_PAGES entries, at most one
        entry per object, and every entry is a page-class dictionary of the graph.
Part B  well-formed trees: the flat index is the document-order list of leaves; a page's
        attribute is the value at the nearest ancestor-or-self that sets it.
Part C  the two page-count APIs: both are the length of the flat index, whatever `/Count` says
        (`PdfReader::page_count` read the root `/Count` before the repair of C18-F1: regression
        witness about `readerPageCountDeclared`).
-/
namespace OxiVerif.C18

/-! ## Part A — arbitrary graphs -/

/-- The `while let Some(..) = stack.pop()` loop of `flatten_page_tree` finishes within
`fuelBound` iterations on EVERY object graph (cycles, shared kids, dangling references …):
the model's fuel is never exhausted. -/
theorem C18_flatten_terminates (g : Graph) (root : Dict) : (flatten g root).isSome := by
  unfold flatten
  apply loop_isSome (classify g) g.ids (classify_inner_mem g)
  simp [fuelBound]

example : flatten [(1, .dict { ty := .pages, kids := .direct [.ref 1, .ref 2] }),
    (2, .dict { ty := .page })] { ty := .pages, kids := .direct [.ref 1] } = some [2] := by decide

/-- Generic form: for any classification function whose inner nodes all lie in a finite id list. -/
theorem C18_loop_terminates (cls : Nat → Cls) (ids st : List Nat)
    (hin : ∀ n ks, cls n = .inner ks → n ∈ ids) :
    (loop cls (fuelBound cls ids st) st [] []).isSome := by
  apply loop_isSome cls ids hin
  simp [fuelBound]

example : let cls : Nat → Cls := fun n => if n = 0 then .inner [0, 1, 0] else .leaf
    (∀ n ks, cls n = .inner ks → n ∈ [0]) ∧ loop cls (fuelBound cls [0] [0]) [0] [] [] = some [1] := by
  refine ⟨?_, by decide⟩
  intro n ks h
  by_cases hn : n = 0
  · simp [hn]
  · simp [hn] at h

/-- No page is listed twice, whatever the graph. -/
theorem C18_flatten_nodup (g : Graph) (root : Dict) (r : List Nat)
    (h : flatten g root = some r) : r.Nodup :=
  (loop_inv (classify g) _ _ _ _ r h List.nodup_nil (by simp)).1

/-- At most MAX_PAGES pages are listed. -/
theorem C18_flatten_le_max (g : Graph) (root : Dict) (r : List Nat)
    (h : flatten g root = some r) : r.length ≤ MAX_PAGES := by
  have := (loop_inv (classify g) _ _ _ _ r h List.nodup_nil (by simp)).2.2
  simpa using this

/-- Every listed reference is a dictionary of the graph that the loop classifies as a page. -/
theorem C18_flatten_pages_are_pages (g : Graph) (root : Dict) (r : List Nat)
    (h : flatten g root = some r) : ∀ x ∈ r, classify g x = .leaf ∧ x ∈ g.ids := by
  intro x hx
  have := (loop_inv (classify g) _ _ _ _ r h List.nodup_nil (by simp)).2.1 x hx
  rcases this with h0 | h1 | h1
  · cases h0
  · exact ⟨h1.1, classify_leaf_mem g x h1.1⟩
  · exact ⟨h1.1, classify_leaf_mem g x h1.1⟩

/-- Every listed page is reachable from the root through /Kids arrays (direct or indirect) of
nodes the loop treats as /Pages nodes — on any graph, cyclic or not: nothing is listed that the
tree does not contain. -/
theorem C18_flatten_reachable (g : Graph) (root : Dict) (r : List Nat)
    (h : flatten g root = some r) :
    ∀ x ∈ r, Reach (classify g) (resolveKids g root.kids) x :=
  loop_reach (classify g) _ _ _ _ _ r h (fun x hx => Reach.root x hx) (by simp)

/-- a kid cycle back to the root's own kid (3 → [4, 3]) and a shared kid: page 4 is listed once
and is reachable -/
example : flatten [(3, .dict { ty := .pages, kids := .direct [.ref 4, .ref 3] }), (4, .dict { ty := .page })]
    { ty := .pages, kids := .direct [.ref 3, .ref 4] } = some [4] := by decide

theorem nodup_subset_length_le : ∀ (r ids : List Nat), r.Nodup → (∀ x ∈ r, x ∈ ids) →
    r.length ≤ ids.length := by
  intro r
  induction r with
  | nil => intro ids _ _; simp
  | cons a r ih =>
    intro ids hn hs
    have hn' := List.nodup_cons.mp hn
    have ha : a ∈ ids := hs a List.mem_cons_self
    have hsub : ∀ x ∈ r, x ∈ ids.erase a := by
      intro x hx
      have hne : x ≠ a := fun e => hn'.1 (e ▸ hx)
      exact (List.mem_erase_of_ne hne).mpr (hs x (List.mem_cons_of_mem _ hx))
    have := ih (ids.erase a) hn'.2 hsub
    rw [List.length_erase_of_mem ha] at this
    have hpos : 0 < ids.length := List.length_pos_of_mem ha
    simp; omega

/-- The page list is never longer than the number of objects (and never longer than MAX_PAGES):
"a truncated list rather than a hang". -/
theorem C18_flatten_le_nodes (g : Graph) (root : Dict) (r : List Nat)
    (h : flatten g root = some r) : r.length ≤ min g.length MAX_PAGES := by
  have h1 : r.length ≤ g.ids.length :=
    nodup_subset_length_le r g.ids (C18_flatten_nodup g root r h)
      (fun x hx => (C18_flatten_pages_are_pages g root r h x hx).2)
  have h2 := C18_flatten_le_max g root r h
  simp [Graph.ids] at h1
  omega

example : ∃ r, flatten [(1, .dict { ty := .pages, kids := .direct [.ref 2, .ref 2, .ref 1] }),
    (2, .dict { ty := .page })] { ty := .pages, kids := .direct [.ref 1, .ref 2] } = some r ∧ r = [2] :=
  ⟨[2], by decide, rfl⟩

/-- The `/Parent` walk of `collect_inherited_attributes` finishes on every graph (parent cycles,
self-parents, dangling parents): at most one iteration per object. -/
theorem C18_parent_walk_terminates (g : Graph) (page : Dict) : (collectInherited g page).isSome := by
  unfold collectInherited
  apply walk_isSome
  rw [unvisited_nil]; omega

example : (collectInherited [(1, .dict { parent := some 2 }), (2, .dict { parent := some 1 })]
    { parent := some 1 }).isSome := by decide

/-! ## Part B — well-formed trees -/

/-- DOCUMENT ORDER.  If the graph realises a forest below the root (`Agrees`: every leaf of the
forest is classified as a page, every inner node as a /Pages node whose resolved /Kids are
exactly the roots of its sub-forest — direct or indirect /Kids, any depth and fan-out), no
object number occurs twice in it (acyclic, no shared kids) and it has at most MAX_PAGES leaves,
then the flat index is exactly the depth-first left-to-right list of leaves. -/
theorem C18_flatten_document_order (g : Graph) (root : Dict) (f : Forest)
    (hroots : resolveKids g root.kids = f.roots) (hag : Agrees (classify g) f)
    (hnd : f.ids.Nodup) (hmax : f.leaves.length ≤ MAX_PAGES) :
    flatten g root = some f.leaves := by
  have hsome := C18_flatten_terminates g root
  obtain ⟨r, hr⟩ := Option.isSome_iff_exists.mp hsome
  have hf := loop_forest (classify g) f 0 [] [] [] f.leaves hag hnd (by simp) (by simpa using hmax)
    (by simp [loop])
  simp only [List.append_nil, Nat.zero_add] at hf
  have hr' := hr
  unfold flatten at hr'
  simp only [hroots] at hr'
  have := loop_fuel_det (classify g) _ _ _ _ _ _ _ hr' hf
  rw [hr, this]

/-- DOCUMENT ORDER WITH THE CAP.  Without any bound on the number of leaves: the flat index is
the document-order leaf list cut after MAX_PAGES entries ("a truncated list"). -/
theorem C18_flatten_document_order_truncated (g : Graph) (root : Dict) (f : Forest)
    (hroots : resolveKids g root.kids = f.roots) (hag : Agrees (classify g) f)
    (hnd : f.ids.Nodup) : flatten g root = some (f.leaves.take MAX_PAGES) := by
  have hsome := C18_flatten_terminates g root
  obtain ⟨r, hr⟩ := Option.isSome_iff_exists.mp hsome
  have hf := loop_forest_take (classify g) f 0 [] [] [] (f.leaves.take MAX_PAGES) hag hnd (by simp)
    (by simp) (by simp [loop])
  simp only [List.append_nil, Nat.zero_add] at hf
  have hr' := hr
  unfold flatten at hr'
  simp only [hroots] at hr'
  have := loop_fuel_det (classify g) _ _ _ _ _ _ _ hr' hf
  rw [hr, this]

/-- the same for any classification function (e.g. with the model of type inference swapped) -/
theorem C18_loop_document_order (cls : Nat → Cls) (f : Forest) (fuel : Nat)
    (hag : Agrees cls f) (hnd : f.ids.Nodup) (hmax : f.leaves.length ≤ MAX_PAGES)
    (hfuel : f.size ≤ fuel) : loop cls fuel f.roots [] [] = some f.leaves := by
  have hf := loop_forest cls f 0 [] [] [] f.leaves hag hnd (by simp) (by simpa using hmax)
    (by simp [loop])
  simp only [List.append_nil, Nat.zero_add] at hf
  have := loop_fuel_mono cls _ _ _ _ _ hf (fuel - f.size)
  have e : f.size + (fuel - f.size) = fuel := by omega
  rw [e] at this
  exact this

/-- non-vacuity: root → [A(3) → [page 5, B(4) → [page 6]], page 7], object numbers unrelated to
document order, B's /Kids indirect (object 9) -/
example :
    let g : Graph := [(7, .dict { ty := .page, parent := some 1 }),
      (4, .dict { ty := .pages, kids := .ref 9, parent := some 3 }),
      (9, .arr [.ref 6]),
      (3, .dict { ty := .pages, kids := .direct [.ref 5, .ref 4], parent := some 1 }),
      (6, .dict { ty := .page, parent := some 4 }), (5, .dict { ty := .page, parent := some 3 })]
    let f : Forest := .node 3 (.leaf 5 (.node 4 (.leaf 6 .nil) .nil)) (.leaf 7 .nil)
    resolveKids g (.direct [.ref 3, .ref 7]) = f.roots ∧ Agrees (classify g) f ∧ f.ids.Nodup ∧
      f.leaves = [5, 6, 7] := by
  refine ⟨by decide, ?_, by decide, by decide⟩
  simp only [Agrees, Forest.roots]
  decide

/-- INHERITANCE.  Let `chain` be the page's ancestors along /Parent, nearest first, ending at a
node without /Parent, all distinct.  Then for each inheritable key (Resources, MediaBox,
CropBox, Rotate) the value `create_parsed_page` uses — the page's own entry, else the
collected one — is the entry of the nearest ancestor-or-self that sets the key. -/
theorem C18_inherit_nearest (g : Graph) (page : Dict) (chain : List (Nat × Dict))
    (hc : Chain g page.parent chain) (hnd : (chain.map (·.1)).Nodup) :
    ∃ inh, collectInherited g page = some inh ∧
      ∀ k, effective page inh k = firstSome (page.attr k :: chain.map (fun e => e.2.attr k)) := by
  obtain ⟨r, hr, hk⟩ := walk_chain g page chain page.parent [] {} hc hnd (by simp)
  have hsome := C18_parent_walk_terminates g page
  obtain ⟨s, hs⟩ := Option.isSome_iff_exists.mp hsome
  have hs' := hs
  unfold collectInherited at hs'
  have e := walk_fuel_det g page _ _ _ _ _ _ _ hs' hr
  refine ⟨s, hs, ?_⟩
  intro k
  rw [e]
  unfold effective
  have h0 : (({} : Inh).get k) = none := by cases k <;> rfl
  cases hp : page.attr k with
  | some v => simp [firstSome]
  | none =>
    have := hk k
    simp only [hp, Option.isNone_none, if_true, h0] at this
    simp [this, firstSome]

/-- INHERITANCE ON INCONSISTENT TREES.  On ANY graph the walk visits a well-defined list of
ancestors `chain` (`ChainT`: it ends at a node without /Parent, at a /Parent that is not a
dictionary — dangling, null — or at the first node it meets a second time: a /Parent cycle or a
page that is its own ancestor) and every key still comes from the nearest of THOSE ancestors that
sets it: a truncated ancestor list, never a hang, never a value from a node seen twice. -/
theorem C18_inherit_nearest_truncated (g : Graph) (page : Dict) (chain : List (Nat × Dict))
    (hc : ChainT g [] page.parent chain) :
    ∃ inh, collectInherited g page = some inh ∧
      ∀ k, effective page inh k = firstSome (page.attr k :: chain.map (fun e => e.2.attr k)) := by
  obtain ⟨r, hr, hk⟩ := walk_chainT g page chain page.parent [] {} hc
  have hsome := C18_parent_walk_terminates g page
  obtain ⟨s, hs⟩ := Option.isSome_iff_exists.mp hsome
  have hs' := hs
  unfold collectInherited at hs'
  have e := walk_fuel_det g page _ _ _ _ _ _ _ hs' hr
  refine ⟨s, hs, ?_⟩
  intro k
  rw [e]
  unfold effective
  have h0 : (({} : Inh).get k) = none := by cases k <;> rfl
  cases hp : page.attr k with
  | some v => simp [firstSome]
  | none =>
    have := hk k
    simp only [hp, Option.isNone_none, if_true, h0] at this
    simp [this, firstSome]

/-- non-vacuity: a 2-cycle of /Parent links (1 ↔ 2) below the page, and a dangling /Parent -/
example :
    let d1 : Dict := { ty := .pages, parent := some 2, rot := some (.int 90) }
    let d2 : Dict := { ty := .pages, parent := some 1, mb := some (.nums [some 0, some 0, some 8, some 8]) }
    let g : Graph := [(1, .dict d1), (2, .dict d2)]
    ChainT g [] (some 1) [(1, d1), (2, d2)] ∧ ChainT g [] (some 7) [] := by
  refine ⟨?_, ChainT.dangling _ 7 (by decide)⟩
  exact ChainT.step _ 1 _ _ (by decide) (by decide)
    (ChainT.step _ 2 _ _ (by decide) (by decide) (ChainT.cycle _ 1 (by decide)))

/-- INHERITED /Resources.  `ParsedPage::get_resources()`: the page's own inline dictionary wins;
otherwise the nearest entry (own reference or inherited) is used, resolved through ONE reference;
without any entry there are no resources. -/
theorem C18_resources_nearest (g : Graph) (page : Dict) (inh : Inh) :
    (∀ ks, page.res = some (.keys ks) → pageResources g page inh = some ks) ∧
    (page.res = none → ∀ ks, inh.res = some (.keys ks) → pageResources g page inh = some ks) ∧
    (∀ n ks, effective page inh .resources = some (.ref n) → g.get n = .raw (.keys ks) →
      pageResources g page inh = some ks) ∧
    (page.res = none → inh.res = none → pageResources g page inh = none) := by
  refine ⟨?_, ?_, ?_, ?_⟩
  · intro ks h; simp [pageResources, h]
  · intro h ks hi; simp [pageResources, h, effective, Dict.attr, Inh.get, hi, resolveResKeys]
  · intro n ks he hg
    have hne : ∀ ks', page.res ≠ some (.keys ks') := by
      intro ks' hp
      simp [effective, Dict.attr, hp] at he
    unfold pageResources
    split
    · rename_i ks' hp; exact absurd hp (hne ks')
    · simp [he, resolveResKeys, hg, objKeys]
  · intro h hi; simp [pageResources, h, effective, Dict.attr, Inh.get, hi]

example : pageResources [(9, .raw (.keys ["Font", "XObject"]))] { ty := .page }
    { res := some (.ref 9) } = some ["Font", "XObject"] := by decide

/-- the value collected for a key the page itself sets is never used and stays empty -/
theorem C18_inherit_own_wins (page : Dict) (inh : Inh) (k : Key) (v : Raw)
    (h : page.attr k = some v) : effective page inh k = some v := by
  simp [effective, h]

example :
    let g : Graph := [(1, .dict { ty := .pages, mb := some (.nums [some 0, some 0, some 10, some 10]), rot := some (.int 90) }),
      (2, .dict { ty := .pages, parent := some 1, rot := some (.int 180) })]
    let page : Dict := { ty := .page, parent := some 2 }
    Chain g page.parent [(2, { ty := .pages, parent := some 1, rot := some (.int 180) }),
      (1, { ty := .pages, mb := some (.nums [some 0, some 0, some 10, some 10]), rot := some (.int 90) })] ∧
    (∃ inh, collectInherited g page = some inh ∧ effective page inh .rotate = some (.int 180) ∧
      effective page inh .mediaBox = some (.nums [some 0, some 0, some 10, some 10])) := by
  refine ⟨?_, ?_⟩
  · exact Chain.step 2 _ _ (by decide) (Chain.step 1 _ _ (by decide) Chain.root)
  · refine ⟨_, rfl, ?_, ?_⟩ <;> decide

/-- `get_page(i)` returns the `i`-th entry of the flat index with the attributes above; past the
end it is an error. -/
theorem C18_get_page_index (g : Graph) (flat : List Nat) (i : Nat) :
    getPage g flat i = (match flat[i]? with | some id => loadPage g id | none => .err) := rfl

theorem C18_get_page_out_of_range (g : Graph) (flat : List Nat) (i : Nat) (h : flat.length ≤ i) :
    getPage g flat i = .err := by
  simp [getPage, List.getElem?_eq_none h]

/-- a loaded page is `create_parsed_page` applied to the page dictionary and the collected
attributes … -/
theorem C18_load_page_uses_collected (g : Graph) (id : Nat) (d : Dict) (inh : Inh) (p : Page)
    (hd : (g.get id).asDict = some d) (hi : collectInherited g d = some inh)
    (hp : loadPage g id = .ok p) : createPage g id d inh = some p := by
  unfold loadPage at hp
  simp only [hd, hi] at hp
  cases hcp : createPage g id d inh with
  | none => simp [hcp] at hp
  | some q => simp [hcp] at hp; rw [hp]

/-- … and carries its own object number, and the rectangle / rotation read off the EFFECTIVE
(nearest ancestor-or-self) values; a missing MediaBox defaults to Letter, Rotate to 0. -/
theorem C18_create_page_fields (g : Graph) (id : Nat) (d : Dict) (inh : Inh) (p : Page)
    (h : createPage g id d inh = some p) :
    ∃ mbo cbo, getRect (resolveRaw g (effective d inh .mediaBox)) = some mbo ∧
      getRect (resolveRaw g (effective d inh .cropBox)) = some cbo ∧
      p.id = id ∧ p.mediaBox = mbo.getD [0, 0, 1224, 1584] ∧ p.cropBox = cbo ∧
      p.rotation = wrapI32 ((getInt (resolveRaw g (effective d inh .rotate))).getD 0) := by
  unfold createPage at h
  cases hm : getRect (resolveRaw g (effective d inh .mediaBox)) with
  | none => simp [hm] at h
  | some mbo =>
    cases hcb : getRect (resolveRaw g (effective d inh .cropBox)) with
    | none => simp [hm, hcb] at h
    | some cbo =>
      simp [hm, hcb] at h
      subst h
      exact ⟨mbo, cbo, rfl, rfl, rfl, rfl, rfl, rfl⟩

example : createPage [] 5 { mb := some (.nums [some 2, some 4, some 6, some 8]), rot := some (.int 450) } {} =
    some { id := 5, mediaBox := [2, 4, 6, 8], cropBox := none, rotation := 450, resources := none } := by
  decide

/-- INDIRECT VALUES (full statement since the repair of C18-F2; ISO 32000-1 §7.3.10 lets any value
be indirect): the value read for MediaBox / CropBox / Rotate is the nearest ancestor-or-self's
entry *after resolving one reference* — a reference to an object holding a value reads exactly
like that value given directly, a direct value is untouched. -/
theorem C18_resolve_indirect (g : Graph) (n : Nat) (r : Raw) (h : g.get n = .raw r) :
    resolveRaw g (some (.ref n)) = some r := by
  simp [resolveRaw, h]

theorem C18_resolve_direct (g : Graph) (v : Option Raw) (h : ∀ n, v ≠ some (.ref n)) :
    resolveRaw g v = v := by
  unfold resolveRaw
  split
  · rename_i n; exact absurd rfl (h n)
  · rfl

/-- … so a page whose entries are all direct is read exactly as before the repair … -/
theorem C18_create_page_direct (g : Graph) (id : Nat) (d : Dict) (inh : Inh)
    (hm : ∀ n, effective d inh .mediaBox ≠ some (.ref n))
    (hc : ∀ n, effective d inh .cropBox ≠ some (.ref n))
    (hr : ∀ n, effective d inh .rotate ≠ some (.ref n)) :
    createPage g id d inh = createPageUnresolved g id d inh := by
  simp [createPage, createPageUnresolved, C18_resolve_direct g _ hm, C18_resolve_direct g _ hc,
    C18_resolve_direct g _ hr]

/-- … and a page whose MediaBox and Rotate are references to a 4-number array and an integer
gets exactly those values (the entry may be the page's own or an inherited one: `effective`). -/
theorem C18_create_page_indirect (g : Graph) (id : Nat) (d : Dict) (inh : Inh) (nb nr : Nat)
    (a b c e : Int) (i : Int)
    (hm : effective d inh .mediaBox = some (.ref nb))
    (hb : g.get nb = .raw (.nums [some a, some b, some c, some e]))
    (hr : effective d inh .rotate = some (.ref nr)) (hi : g.get nr = .raw (.int i))
    (hc : effective d inh .cropBox = none) :
    ∃ p, createPage g id d inh = some p ∧ p.mediaBox = [a, b, c, e] ∧ p.rotation = wrapI32 i ∧
      p.cropBox = none := by
  refine ⟨{ id := id, mediaBox := [a, b, c, e], cropBox := none, rotation := wrapI32 i,
            resources := (pageResources g d inh).map sortKeys }, ?_, rfl, rfl, rfl⟩
  simp [createPage, hm, hr, hc, resolveRaw, hb, hi, getRect, getInt]

/-- the former witness input now reads as the referenced values -/
example :
    let g : Graph := [(5, .raw (.nums [some 0, some 0, some 200, some 400])), (6, .raw (.int 90))]
    let page : Dict := { ty := .page, mb := some (.ref 5), rot := some (.ref 6) }
    createPage g 3 page {} =
      some { id := 3, mediaBox := [0, 0, 200, 400], cropBox := none, rotation := 90, resources := none } := by
  decide

/-- a reference to something that is not a value (free entry, dictionary, stream) still shadows
the ancestors and reads as absent: Letter default -/
example : createPage [] 3 { ty := .page, mb := some (.ref 5) }
      { mb := some (.nums [some 0, some 0, some 2, some 2]) } =
    some { id := 3, mediaBox := [0, 0, 1224, 1584], cropBox := none, rotation := 0, resources := none } := by
  decide

/-- REGRESSION WITNESS (C18-F2, fixed): before the repair `get_rectangle` / `get_integer` looked
only at direct values — MediaBox and Rotate given as references to `[0 0 100 200]` and `90` came
out as Letter, unrotated.  A return to that behaviour is what the correspondence run catches. -/
theorem C18_witness_indirect_attribute :
    let g : Graph := [(5, .raw (.nums [some 0, some 0, some 200, some 400])), (6, .raw (.int 90))]
    let page : Dict := { ty := .page, mb := some (.ref 5), rot := some (.ref 6) }
    createPageUnresolved g 3 page {} =
      some { id := 3, mediaBox := [0, 0, 1224, 1584], cropBox := none, rotation := 0, resources := none } ∧
    createPage g 3 page {} ≠ createPageUnresolved g 3 page {} := by
  decide

/-! ## Part C — the two page counts -/

/-- `PdfDocument::page_count` is the length of the flat index — unconditionally. -/
theorem C18_doc_page_count (g : Graph) (root : Dict) (r : List Nat) (h : flatten g root = some r) :
    docPageCount g root = some r.length := by
  simp [docPageCount, h]

/-- … hence, on a well-formed tree, the number of leaves in document order, whatever /Count says. -/
theorem C18_doc_page_count_document_order (g : Graph) (root : Dict) (f : Forest)
    (hroots : resolveKids g root.kids = f.roots) (hag : Agrees (classify g) f)
    (hnd : f.ids.Nodup) (hmax : f.leaves.length ≤ MAX_PAGES) :
    docPageCount g root = some f.leaves.length := by
  simp [docPageCount, C18_flatten_document_order g root f hroots hag hnd hmax]

/-- `PdfReader::page_count` is the same walk: it always equals `PdfDocument::page_count`. -/
theorem C18_reader_eq_doc (g : Graph) (root : Dict) : readerPageCount g root = docPageCount g root := rfl

/-- FULL (since the repair of C18-F1): on a well-formed tree `PdfReader::page_count` (and
`DocumentMetadata::page_count`, which calls it) is the number of leaves in document order,
whatever the root /Count says — absent, wrong, indirect, negative or huge. -/
theorem C18_reader_page_count_document_order (g : Graph) (root : Dict) (f : Forest)
    (hroots : resolveKids g root.kids = f.roots) (hag : Agrees (classify g) f)
    (hnd : f.ids.Nodup) (hmax : f.leaves.length ≤ MAX_PAGES) :
    readerPageCount g root = some f.leaves.length :=
  C18_doc_page_count_document_order g root f hroots hag hnd hmax

/-- … and without a bound on the number of leaves: the length of the list cut at MAX_PAGES. -/
theorem C18_reader_page_count_truncated (g : Graph) (root : Dict) (f : Forest)
    (hroots : resolveKids g root.kids = f.roots) (hag : Agrees (classify g) f)
    (hnd : f.ids.Nodup) : readerPageCount g root = some (min MAX_PAGES f.leaves.length) := by
  simp [readerPageCount, C18_flatten_document_order_truncated g root f hroots hag hnd]

/-- on ANY graph the reader's count is defined, at most `min #objects MAX_PAGES` -/
theorem C18_reader_page_count_bounded (g : Graph) (root : Dict) :
    ∃ n, readerPageCount g root = some n ∧ n ≤ min g.length MAX_PAGES := by
  obtain ⟨r, hr⟩ := Option.isSome_iff_exists.mp (C18_flatten_terminates g root)
  exact ⟨r.length, by simp [readerPageCount, hr], C18_flatten_le_nodes g root r hr⟩

example :
    let g : Graph := [(2, .dict { ty := .page, parent := some 1 })]
    let root : Dict := { ty := .pages, kids := .direct [.ref 2], count := some (.int 3) }
    readerPageCount g root = some 1 := by decide

/-- before the repair: the root's /Count (a direct integer in 0..=100000) without looking at
the tree -/
theorem C18_reader_page_count_is_count (g : Graph) (root : Dict) (c : Nat)
    (hc : root.count = some (.int c)) (hle : c ≤ MAX_PAGE_COUNT) :
    readerPageCountDeclared g root = c := by
  have hw : wrapU32 (c : Int) = c := by
    unfold wrapU32
    have : (c : Int) % 4294967296 = c := by
      apply Int.emod_eq_of_lt <;> simp [MAX_PAGE_COUNT] at hle ⊢ <;> omega
    rw [this]; simp
  simp [readerPageCountDeclared, countValue, hc, hw, hle]

/-- what held before the repair: the declared count equals the traversal's exactly when the
root /Count is right -/
theorem C18_reader_page_count_partial (g : Graph) (root : Dict) (f : Forest) (c : Nat)
    (hc : root.count = some (.int c)) (hle : c ≤ MAX_PAGE_COUNT)
    (hroots : resolveKids g root.kids = f.roots) (hag : Agrees (classify g) f)
    (hnd : f.ids.Nodup) (hmax : f.leaves.length ≤ MAX_PAGES) :
    (some (readerPageCountDeclared g root) = docPageCount g root) ↔ c = f.leaves.length := by
  rw [C18_reader_page_count_is_count g root c hc hle,
    C18_doc_page_count_document_order g root f hroots hag hnd hmax]
  simp

/-- REGRESSION WITNESS (C18-F1, fixed): a well-formed one-page tree whose root says /Count 3 —
the declared-count reading answers 3, the traversal (both APIs now) 1. -/
theorem C18_witness_reader_count :
    let g : Graph := [(2, .dict { ty := .page, parent := some 1 })]
    let root : Dict := { ty := .pages, kids := .direct [.ref 2], count := some (.int 3) }
    readerPageCountDeclared g root = 3 ∧ docPageCount g root = some 1 ∧
    readerPageCount g root = some 1 := by
  decide

end OxiVerif.C18
