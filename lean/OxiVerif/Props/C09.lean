import OxiVerif.Lemmas.C09Tree
import OxiVerif.Lemmas.C09LibTree
import OxiVerif.Lemmas.C09Names
import OxiVerif.Lemmas.C09Fuel
import OxiVerif.Lemmas.C09Stream
import OxiVerif.Model.ObjCanon
set_option linter.unusedSimpArgs false
/-!
# C09 — serialized objects parse back to the same value

Objects: `Spec.Syntax.Obj` trees (null, booleans, integers, reals as the decimal token the code
emitted, literal strings over all bytes, hexadecimal strings, names over all bytes, arrays,
dictionaries, references, nested arbitrarily — no depth or size bound anywhere below).
Writer: `Model.ser` = `PdfWriter::write_object_value` (= `write_object_value_to_buffer`, the
object-stream path).  Readers: `Model.ObjParser` (the library's `PdfObject::parse`) and
`Spec.Syntax` (an independent reader written from ISO 32000-1 §7.2–7.3).

`readBack v` is what a faithful reader returns: the same tree, hexadecimal strings as strings,
every real as the number its emitted token denotes (floats are never modelled: the theorems are
parametric in the formatter through the *syntactic* hypothesis `IsDecTok (trimReal t)` — "the
emitted real is a decimal token", checked at run time on every emitted real).  Dictionaries come
back in the order they were written = sorted by key (`sortDicts`), i.e. equal up to key order.

Names: since commit 16fac722 the writer escapes names and dictionary keys
(`escape_pdf_name_bytes` = `Model.escapeName`), so on the independent-reader side **every** byte
string is read back (`C09_spec_name_all_bytes`, and inside trees: `SafeSpec` only asks that names
are byte strings).  The library's `read_name` builds its `String` one `char` per byte
(`byte as char`, `value as char` for `#XX`): the `char`s it returns are exactly the written bytes
for every byte string (`C09_lib_name_all_bytes`), and the `String` made of those `char`s is the
written `String` exactly for ASCII names (`C09_lib_name_same_string_iff`) — a non-ASCII name comes
back Latin-1-decoded (`C09_witness_lib_name_non_ascii`, finding C09-F6).  The statements about the
writer *before* that commit are kept on `serUnescaped` (the regression the check must catch).

Both halves of the property are still FALSE of the code as it is; the full statements are kept
below, each with kernel-checked counter-witnesses, and proved under the decidable predicates
`SafeLib` / `SafeSpec` (`Model/C09.lean`) which the driver evaluates on every generated case.
-/
namespace OxiVerif.C09
open OxiVerif.Spec.Syntax (Obj)
open OxiVerif.Model
open OxiVerif.Spec

/-! ## T1 — the library's own parser -/

/- FULL (T1): for every tree `v` whose reals are decimal tokens, every `rest` that ends a token,
   and enough fuel,
     `ObjParser.parseObj fuel (ser v ++ rest) = .ok (readBackLib (sortDicts v), rest)`
   (`readBackLib` = `readBack`, except that a real written as an integer token outside `i64` comes
   back as a real carrying that token — the same number; `C09_readBackLib_eq`, `C09_lib_big_real`).
   False: see `C09_witness_lib_*`. -/

/-- T1 on the safe fragment: ASCII names (any ASCII byte: white space, delimiters, `#`, controls
    included), integers inside `i64` (the type of
    `Object::Integer`; reals of any magnitude), references
    with object number ≤ `u32::MAX` (the type of `ObjectId`) and generation ≤ `u16::MAX`. -/
theorem C09_lib_roundtrip_partial (v : Obj) (rest : List Nat) (fuel : Nat)
    (hs : SafeLib (sortDicts v) rest = true) (hf : needFT (sortDicts v) + 1 ≤ fuel) :
    ObjParser.parseObj fuel (ser v ++ rest) = .ok (readBackLib (sortDicts v), rest) :=
  lib_parseObj_roundtrip (sortDicts v) rest fuel hs hf

/-- non-vacuity: a nested tree with a real, a string full of delimiters and a CR, a reference,
    inside the annotation-object trailer the harness uses -/
example : SafeLib (sortDicts (.dict [([75], .arr [.int 1, .real [50, 46, 53, 48, 48, 48, 48, 48],
      .str [40, 41, 92, 13, 10], .ref 7 0, .name [65, 32, 47, 35, 0, 123]]), ([65, 32, 66], .hexstr [0, 255])]))
    [10, 62, 62, 10, 101, 110, 100, 111, 98, 106, 10] = true := by rfl

/-- T1 for `PdfObject::parse` itself: the fuel it supplies (`2·|input| + 4`) always suffices, so
    no fuel hypothesis is left. -/
theorem C09_lib_parse_roundtrip (v : Obj) (rest : List Nat) (hs : SafeLib (sortDicts v) rest = true) :
    ObjParser.parse (ser v ++ rest) = .ok (readBackLib (sortDicts v), rest) :=
  lib_parse_roundtrip (sortDicts v) rest hs

example : ObjParser.parse (ser (.dict [([75, 32], .arr [.int 1, .real [50, 46, 53, 48], .str [13, 40], .ref 7 0,
      .name [47, 35]])]) ++ [10, 62, 62])
    = .ok (.dict [([75, 32], .arr [.int 1, .real [50, 46, 53], .str [13, 40], .ref 7 0, .name [47, 35]])],
      [10, 62, 62]) :=
  C09_lib_parse_roundtrip _ _ (by rfl)

/-- Strings on the library side need no hypothesis at all: `escape_pdf_string_bytes` followed by
    `read_literal_string` is the identity on **every** byte string. -/
theorem C09_lib_string_all_bytes (s rest : List Nat) :
    Lexer.next (ser (.str s) ++ rest) = .ok (.str s, rest) :=
  lib_next_str s rest

example : Lexer.next (ser (.str [40, 92, 13, 41, 0, 255]) ++ [32]) = .ok (.str [40, 92, 13, 41, 0, 255], [32]) :=
  C09_lib_string_all_bytes _ _

theorem C09_lib_hexstring (bs rest : List Nat) (hb : allB (fun b => b < 256) bs = true) :
    Lexer.next (ser (.hexstr bs) ++ rest) = .ok (.str bs, rest) :=
  lib_next_hexstr bs rest hb

example : allB (fun b => b < 256) [0, 127, 255] = true := by decide

/-- Names on the library side, **every** byte string: the name token holds one `char` per
    written byte (regular bytes `byte as char`, `#XX` decoded and pushed `value as char`). -/
theorem C09_lib_name_all_bytes (n rest : List Nat) (hn : NameBytes n = true) (hr : libEnds rest = true) :
    Lexer.next (ser (.name n) ++ rest) = .ok (.name n, rest) :=
  lib_next_name_bytes n rest hn hr

example : NameBytes [65, 32, 47, 35, 0, 123, 125, 195, 169, 255] = true ∧ libEnds [32] = true := by decide

/-- … and the Rust `String` those `char`s form (`utf8OfLatin1`) is the written `String` exactly
    when the name is ASCII: this is precisely the class for which T1 holds for names. -/
theorem C09_lib_name_same_string_iff (n : List Nat) :
    ObjCanon.utf8OfLatin1 n = n ↔ NameAscii n = true :=
  utf8OfLatin1_eq_iff n

/-- ASCII names (white space, delimiters, `#`, controls included) are read back as the same
    `String` -/
theorem C09_lib_name_ascii (n rest : List Nat) (hn : NameAscii n = true) (hr : libEnds rest = true) :
    Lexer.next (ser (.name n) ++ rest) = .ok (.name n, rest) ∧ ObjCanon.utf8OfLatin1 n = n :=
  ⟨lib_next_name n rest hn hr, (utf8OfLatin1_eq_iff n).2 hn⟩

example : NameAscii [65, 32, 47, 35, 0, 123, 125, 127] = true ∧ libEnds [32] = true := by decide

/-- the former witnesses now read back: `A B`, `A#41` -/
example : ObjParser.parse (ser (.name [65, 32, 66]) ++ [10, 62, 62]) = .ok (.name [65, 32, 66], [10, 62, 62]) := by rfl
example : ser (.name [65, 32, 66]) = [47, 65, 35, 50, 48, 66] := by rfl
example : ObjParser.parse (ser (.name [65, 35, 52, 49]) ++ [32]) = .ok (.name [65, 35, 52, 49], [32]) := by rfl

/-- counter-witness (C09-F6, what is left of F1): the non-ASCII name `é` (UTF-8 `C3 A9`) is
    written `/#C3#A9` and comes back as the two `char`s U+00C3 U+00A9, i.e. as the `String` "Ã©"
    (UTF-8 `C3 83 C2 A9`) -/
theorem C09_witness_lib_name_non_ascii :
    ser (.name [195, 169]) = [47, 35, 67, 51, 35, 65, 57] ∧
    ObjParser.parse (ser (.name [195, 169]) ++ [32]) = .ok (.name [195, 169], [32]) ∧
    ObjCanon.utf8OfLatin1 [195, 169] = [195, 131, 194, 169] := by
  refine ⟨?_, ?_, ?_⟩ <;> rfl

theorem C09_witness_lib_name_non_ascii_ne : ObjCanon.utf8OfLatin1 [195, 169] ≠ [195, 169] := by
  decide

/-! ### the writer before commit 16fac722 (names written raw): the regression -/

/-- a raw ASCII name without terminators and `#` was (and, written verbatim, is) lexed back -/
theorem C09_lib_raw_name (n rest : List Nat) (hn : LibNameOk n = true) (hr : libEnds rest = true) :
    Lexer.next (serUnescaped (.name n) ++ rest) = .ok (.name n, rest) :=
  lib_next_name_raw n rest hn hr

example : LibNameOk [65, 123, 0, 125] = true ∧ libEnds [32] = true := by decide

/-- regression witness: the name `A B` written raw; the library reads the name `A` and leaves ` B` -/
theorem C09_witness_lib_name_space :
    ObjParser.parse (serUnescaped (.name [65, 32, 66]) ++ [10, 62, 62]) = .ok (.name [65], [32, 66, 10, 62, 62]) := by
  rfl

/-- … hence T1 fails for the unescaped writer -/
theorem C09_witness_lib_name_space_ne :
    ObjParser.parse (serUnescaped (.name [65, 32, 66]) ++ [10, 62, 62])
      ≠ .ok (readBack (sortDicts (.name [65, 32, 66])), [10, 62, 62]) := by
  rw [C09_witness_lib_name_space]; simp [readBack, sortDicts]

/-- regression witness: `A#41` written raw is read as `AA` -/
theorem C09_witness_lib_name_hash :
    ObjParser.parse (serUnescaped (.name [65, 35, 52, 49]) ++ [32]) = .ok (.name [65, 65], [32]) := by rfl

/-- the former witness reads back: `[1 0 /R]` is two integers and the name `R` -/
example : ObjParser.parse (ser (.arr [.int 1, .int 0, .name [82]]) ++ [10, 62, 62])
    = .ok (.arr [.int 1, .int 0, .name [82]], [10, 62, 62]) := by rfl

/-- … while a genuine reference in the same place still is one -/
example : ObjParser.parse (ser (.arr [.ref 1 0, .name [82]]) ++ [10, 62, 62])
    = .ok (.arr [.ref 1 0, .name [82]], [10, 62, 62]) := by rfl

/-- regression witness (C09-F3): with any `Token::Name("R")` accepted as the reference keyword
    (`intArmAnyR`), the integer 1 followed by ` 0 /R]` was read as the reference `1 0 R` -/
theorem C09_witness_lib_ref_lookalike :
    ObjParser.intArmAnyR 1 [32, 48, 32, 47, 82, 93, 10, 62, 62] = .ok (.ref 1 0, [93, 10, 62, 62]) ∧
    ObjParser.intArm 1 [32, 48, 32, 47, 82, 93, 10, 62, 62]
      = .ok (.int 1, [32, 48, 32, 47, 82, 93, 10, 62, 62]) := by
  constructor <;> rfl

theorem C09_witness_lib_ref_lookalike_ne :
    ObjParser.intArmAnyR 1 [32, 48, 32, 47, 82, 93, 10, 62, 62]
      ≠ .ok (.int 1, [32, 48, 32, 47, 82, 93, 10, 62, 62]) := by
  rw [C09_witness_lib_ref_lookalike.1]; simp

/-- the bytes after the 1 in the witness are those the writer emits for `[1 0 /R]` -/
example : ser (.arr [.int 1, .int 0, .name [82]]) ++ [10, 62, 62]
    = 91 :: 49 :: [32, 48, 32, 47, 82, 93, 10, 62, 62] := by rfl

/-- `readBackLib` is `readBack` on every tree without a real of magnitude ≥ 2^63 written as an
    integer token -/
theorem C09_readBackLib_eq (v : Obj) (h : hasBigReal v = false) : readBackLib v = readBack v :=
  readBackLib_eq v h

example : hasBigReal (.arr [.real [50, 46, 53, 48, 48, 48, 48, 48], .int 3, .dict [([65], .real [53, 46, 48])]]) = false := by
  rfl

/-- a real written as an integer token outside `i64` (|f| ≥ 2^63) is read back as a real carrying
    exactly that token — the same number (`Syntax.intVal` of the token is what the independent
    reader returns) -/
theorem C09_lib_big_real (t rest : List Nat) (fuel : Nat) (hdec : IsDecTok (trimReal t) = true)
    (hr : libEnds rest = true) (hint : Syntax.isIntTok (trimReal t) = true)
    (hbig : inI64 (Syntax.intVal (trimReal t)) = false) :
    ObjParser.parseObj (fuel + 2) (ser (.real t) ++ rest) = .ok (.real (trimReal t), rest) := by
  have hw : (0 ≤ Syntax.intVal (trimReal t) && Syntax.intVal (trimReal t) ≤ 4294967295) = false := by
    simp [inI64] at hbig ⊢; omega
  have := lib_parseObj_roundtrip (.real t) rest (fuel + 2)
    (by simp [SafeLib, hdec, hr, hint, hw]) (by simp [needFT])
  simpa [readBackLib, readBackRealLib, hint, hbig, ser, sortDicts] using this

def fix1e19 : List Nat :=
  [49, 48, 48, 48, 48, 48, 48, 48, 48, 48, 48, 48, 48, 48, 48, 48, 48, 48, 48, 48, 46, 48, 48, 48, 48, 48, 48]

example : IsDecTok (trimReal fix1e19) = true ∧ libEnds [10] = true ∧
    Syntax.isIntTok (trimReal fix1e19) = true ∧ inI64 (Syntax.intVal (trimReal fix1e19)) = false := by
  refine ⟨by rfl, by rfl, by rfl, by rfl⟩

/-- regression witness (C09-F4): `Real(1e19)` is written as the integer token
    `10000000000000000000`; `read_number` before the repair rejected it (`i64` overflow, "Invalid
    integer"), the present one reads the real -/
theorem C09_witness_lib_big_real :
    Lexer.readNumberOld (ser (.real fix1e19) ++ [10, 62, 62]) = .error .syntax ∧
    ObjParser.parse (ser (.real fix1e19) ++ [10, 62, 62]) = .ok (.real (trimReal fix1e19), [10, 62, 62]) := by
  constructor <;> rfl

/-- the former witness reads back: the look-ahead window now covers every `u32` object number -/
example : ObjParser.parse (ser (.ref 10000000 0) ++ [10]) = .ok (.ref 10000000 0, [10]) := by rfl
example : ObjParser.parse (ser (.ref 4294967295 65535) ++ [93]) = .ok (.ref 4294967295 65535, [93]) := by rfl

/-- regression witness (C09-F5, window `0..=9999999`): after the integer 10000000 the old arm did
    not look ahead, so `10000000 0 R` was read as the integer 10000000 (followed by `0` and `R`);
    the present arm finds the reference -/
theorem C09_witness_lib_far_ref :
    ObjParser.intArmOld 10000000 [32, 48, 32, 82, 10] = .ok (.int 10000000, [32, 48, 32, 82, 10]) ∧
    ObjParser.intArm 10000000 [32, 48, 32, 82, 10] = .ok (.ref 10000000 0, [10]) := by
  constructor <;> rfl

/-! ## T2 — an independent reader -/

/- FULL (T2): for every tree `v` whose reals are decimal tokens, every `rest` that ends a token,
   and enough fuel,
     `Syntax.readObj fuel (ser v ++ rest) = some (readBack (sortDicts v), rest)`.
   False: see `C09_witness_spec_*`. -/

/-- T2 on the safe fragment: names, keys and strings over ALL bytes, no integer that the
    following bytes turn into `n g R`. -/
theorem C09_spec_roundtrip_partial (v : Obj) (rest : List Nat) (fuel : Nat)
    (hs : SafeSpec (sortDicts v) rest = true) (hf : need (sortDicts v) ≤ fuel) :
    Syntax.readObj fuel (ser v ++ rest) = some (readBack (sortDicts v), rest) :=
  spec_obj_roundtrip (sortDicts v) rest fuel hs hf

example : SafeSpec (sortDicts (.dict [([75], .arr [.int 1, .real [50, 46, 53, 48, 48, 48, 48, 48],
      .str [40, 41, 92, 13, 10], .ref 7 0, .name [65, 32, 47, 35, 0, 195, 169, 255]]), ([65, 32, 66], .hexstr [0, 255])]))
    [10, 62, 62, 10, 101, 110, 100, 111, 98, 106, 10] = true := by rfl

/-- T2 for `Spec.Syntax.read` itself (its own fuel `2·|input| + 2`) -/
theorem C09_spec_read_roundtrip (v : Obj) (rest : List Nat) (hs : SafeSpec (sortDicts v) rest = true) :
    Syntax.read (ser v ++ rest) = some (readBack (sortDicts v), rest) :=
  spec_read_roundtrip (sortDicts v) rest hs

example : Syntax.read (ser (.dict [([75, 32], .arr [.int 1, .real [50, 46, 53, 48], .str [13, 40], .ref 7 0,
      .name [47, 35, 200]])]) ++ [10, 62, 62])
    = some (.dict [([75, 32], .arr [.int 1, .real [50, 46, 53], .str [13, 40], .ref 7 0, .name [47, 35, 200]])],
      [10, 62, 62]) :=
  C09_spec_read_roundtrip _ _ (by rfl)

/-- the same serializer writes objects inside object streams -/
theorem C09_objstm_same_bytes (v : Obj) : serBuf v = ser v := rfl

/-- Literal strings on the independent-reader side: **every** byte string (CR is written `\r`,
    so no raw end-of-line marker other than LF is ever inside a written string). -/
theorem C09_spec_string_all_bytes (s rest : List Nat) (fuel : Nat) :
    Syntax.readObj (fuel + 1) (ser (.str s) ++ rest) = some (.str s, rest) :=
  spec_obj_roundtrip (.str s) rest (fuel + 1) (by simp [SafeSpec]) (by simp [need])

example : Syntax.readObj 1 (ser (.str [40, 41, 92, 13, 10, 13, 0, 255]) ++ [32])
    = some (.str [40, 41, 92, 13, 10, 13, 0, 255], [32]) := C09_spec_string_all_bytes _ _ 0

/-- the bytes: CR LF is written `\r` LF -/
example : ser (.str [97, 13, 10, 98]) = [40, 97, 92, 114, 10, 98, 41] := by rfl

theorem C09_spec_hexstring (bs rest : List Nat) (fuel : Nat) (hb : allB (fun b => b < 256) bs = true) :
    Syntax.readObj (fuel + 1) (ser (.hexstr bs) ++ rest) = some (.str bs, rest) :=
  spec_obj_roundtrip (.hexstr bs) rest (fuel + 1) (by simpa [SafeSpec] using hb) (by simp [need])

/-- every `i64` (indeed every integer) is read back, provided what follows ends the token and is
    not `g R` -/
theorem C09_spec_int (i : Int) (rest : List Nat) (fuel : Nat) (hr : specEnds rest = true)
    (hra : i < 0 ∨ Syntax.refAhead rest = none) :
    Syntax.readObj (fuel + 1) (ser (.int i) ++ rest) = some (.int i, rest) :=
  spec_read_int fuel i rest hr hra

example : specEnds [93] = true ∧ Syntax.refAhead [93] = none := by constructor <;> rfl

/-- Names on the independent-reader side: **every** byte string is read back. -/
theorem C09_spec_name_all_bytes (n rest : List Nat) (fuel : Nat) (hn : NameBytes n = true)
    (hr : specEnds rest = true) :
    Syntax.readObj (fuel + 1) (ser (.name n) ++ rest) = some (.name n, rest) :=
  spec_obj_roundtrip (.name n) rest (fuel + 1) (by simp [SafeSpec, hn, hr]) (by simp [need])

example : NameBytes [65, 32, 47, 35, 0, 123, 125, 195, 169, 255] = true ∧ specEnds [32] = true := by decide

/-- a dictionary key over all bytes (the key path of `serEntries`) -/
theorem C09_spec_key_all_bytes (k rest : List Nat) (i : Int) (fuel : Nat) (hk : NameBytes k = true)
    (hi : i < 0) (hr : specEnds rest = true) :
    Syntax.readObj (fuel + 4) (ser (.dict [(k, .int i)]) ++ rest) = some (.dict [(k, .int i)], rest) := by
  have e : ser (.dict [(k, .int i)]) = serRaw (.dict [(k, .int i)]) := by
    simp [ser, sortDicts, sortDictsKVs, sortKV, insertKV]
  rw [e]
  exact spec_obj_roundtrip (.dict [(k, .int i)]) rest (fuel + 4)
    (by simp [SafeSpec, SafeSpecEntries, hk, hi, serEntries, specEnds, Syntax.isRegular, Syntax.isWhite])
    (by simp [need, needKVs])

example : NameBytes [32, 47, 255] = true ∧ ((-1 : Int) < 0) ∧ specEnds [10] = true := by decide

/-- the former witnesses now read back -/
example : Syntax.read (ser (.name [65, 32, 66]) ++ [10, 62, 62]) = some (.name [65, 32, 66], [10, 62, 62]) := by rfl
example : Syntax.read (ser (.name [65, 47, 66]) ++ [32]) = some (.name [65, 47, 66], [32]) := by rfl

/-! ### the writer before commit 16fac722: the regression -/

/-- a raw name made of regular characters without `#` is read back verbatim -/
theorem C09_spec_raw_name (n rest : List Nat) (hn : SpecNameOk n = true) (hr : specEnds rest = true) :
    Syntax.readName (n ++ rest) = some (n, rest) :=
  spec_readName_raw n rest hn hr

example : SpecNameOk [65, 43, 126, 200] = true := by decide

/-- regression witness: `A B` written raw under the independent reader -/
theorem C09_witness_spec_name_space :
    Syntax.read (serUnescaped (.name [65, 32, 66]) ++ [10, 62, 62]) = some (.name [65], [32, 66, 10, 62, 62]) := by
  rfl

theorem C09_witness_spec_name_space_ne :
    Syntax.read (serUnescaped (.name [65, 32, 66]) ++ [10, 62, 62])
      ≠ some (readBack (sortDicts (.name [65, 32, 66])), [10, 62, 62]) := by
  rw [C09_witness_spec_name_space]; simp [readBack, sortDicts]

/-- regression witness: `A/B` written raw is read as the name `A` (then the name `B` follows) -/
theorem C09_witness_spec_name_solidus :
    Syntax.read (serUnescaped (.name [65, 47, 66]) ++ [32]) = some (.name [65], [47, 66, 32]) := by rfl

/-- on trees without names the two serializers agree, so everything else is unchanged -/
example : serUnescaped (.arr [.int 1, .str [40], .ref 2 0]) = ser (.arr [.int 1, .str [40], .ref 2 0]) := by rfl

/-! ### `escape_pdf_string_bytes` before the CR repair: the regression -/

/-- without a CR the old emission was read back -/
theorem C09_spec_string_rawCR_partial (s rest : List Nat) (hs : NoCR s = true) :
    Syntax.readLit 0 .normal (escapePdfStringRawCR s ++ 41 :: rest) = some (s, rest) :=
  spec_readLit_escape_rawCR s rest hs

example : NoCR [40, 41, 92, 10, 0, 255] = true := by decide

/-- regression witness: a CR inside a literal string written raw; a conforming reader delivers LF -/
theorem C09_witness_spec_string_cr :
    Syntax.read (serStrRawCR [97, 13, 98] ++ [32]) = some (.str [97, 10, 98], [32]) := by rfl

theorem C09_witness_spec_string_cr_ne :
    Syntax.read (serStrRawCR [97, 13, 98] ++ [32]) ≠ some (readBack (sortDicts (.str [97, 13, 98])), [32]) := by
  rw [C09_witness_spec_string_cr]; simp [readBack, sortDicts]

/-- regression witness: a raw CR LF pair came back as a single LF (one byte lost) -/
theorem C09_witness_spec_string_crlf :
    Syntax.read (serStrRawCR [97, 13, 10, 98] ++ [32]) = some (.str [97, 10, 98], [32]) := by rfl

/-- the array that fools the library is read correctly by the independent reader -/
theorem C09_spec_ref_lookalike_ok :
    Syntax.read (ser (.arr [.int 1, .int 0, .name [82]]) ++ [10, 62, 62])
      = some (.arr [.int 1, .int 0, .name [82]], [10, 62, 62]) := by rfl

/-! ## stream objects

`Model.Stream.serStream kvs data` = `write_object_value (Object::Stream(dict, data))`: the dictionary
with `/Length` forced to `data.length`, `\nstream\n`, the data, `\nendstream`.
`Model.Stream.parseStreamObj` = `PdfObject::parse`'s stream arm (`read_newline`, `/Length` bytes,
`skip_whitespace`, `endstream`); `Spec.Stream.readStream` = ISO 32000-1 §7.3.8.1. -/

/-- The payload, library side: after the keyword `stream` the parser returns **every** byte string
    unchanged — whatever its first bytes (LF, CR, CR LF: `read_newline` takes only the writer's LF),
    its last bytes, or the keywords it contains (`endstream`, `endobj`). -/
theorem C09_lib_stream_payload_all_bytes (kvs : List (List Nat × Obj)) (data rest : List Nat)
    (hlen : Model.Stream.lookupLast Model.Stream.lengthKey kvs = some (.int (Int.ofNat data.length)))
    (hr : libEnds rest = true) :
    Model.Stream.streamData kvs (10 :: (data ++ 10 :: (Model.Stream.kwEndstream ++ rest))) = .ok (data, rest) :=
  lib_streamData_payload kvs data rest hlen hr

example : Model.Stream.streamData [(Model.Stream.lengthKey, .int 12)]
    (10 :: ([10, 10, 13, 10, 101, 110, 100, 115, 116, 114, 101, 97] ++ 10 :: (Model.Stream.kwEndstream ++ [10])))
    = .ok ([10, 10, 13, 10, 101, 110, 100, 115, 116, 114, 101, 97], [10]) :=
  C09_lib_stream_payload_all_bytes _ _ _ (by rfl) (by rfl)

/-- The payload, independent reader: every byte string. -/
theorem C09_spec_stream_payload_all_bytes (data rest : List Nat) (hr : specEnds rest = true) :
    Spec.Stream.readPayload data.length (10 :: (data ++ 10 :: (Spec.Stream.kwEndstream ++ rest)))
      = some (data, rest) :=
  spec_readPayload data rest hr

example : Spec.Stream.readPayload 3 (10 :: ([10, 13, 10] ++ 10 :: (Spec.Stream.kwEndstream ++ [10])))
    = some ([10, 13, 10], [10]) := C09_spec_stream_payload_all_bytes [10, 13, 10] [10] (by rfl)

/- FULL (streams): for every dictionary `kvs` and every byte string `data`, both readers return the
   entries of the written dictionary and exactly `data`.  Proved below under the dictionary's own
   hypotheses (`SafeLibEntries` / `SafeSpec`, as for any written dictionary) and one decidable
   hypothesis that is *not* derived here: looking `/Length` up in the sorted, read-back entries
   gives the forced value (`hlen`; evaluated on concrete dictionaries, e.g. the image dictionary
   below).  The payload part needs nothing. -/

/-- T1 for a stream object: `PdfObject::parse` returns the dictionary entries and the payload. -/
theorem C09_lib_stream_roundtrip_partial (kvs : List (List Nat × Obj)) (data rest : List Nat) (fuel : Nat)
    (hs : SafeLibEntries (streamEntries kvs data.length)
      (10 :: 62 :: 62 :: (Model.Stream.streamTail data ++ rest)) = true)
    (hlen : Model.Stream.lookupLast Model.Stream.lengthKey (readBackLibKVs (streamEntries kvs data.length))
      = some (.int (Int.ofNat data.length)))
    (hr : libEnds rest = true) (hf : needDict (streamEntries kvs data.length) + 1 ≤ fuel) :
    Model.Stream.parseStreamObj fuel (Model.Stream.serStream kvs data ++ rest)
      = .ok (some (readBackLibKVs (streamEntries kvs data.length), data, rest)) :=
  lib_stream_roundtrip kvs data rest fuel hs hlen hr hf

/-- T2 for a stream object: the independent §7.3.8.1 reader. -/
theorem C09_spec_stream_roundtrip_partial (kvs : List (List Nat × Obj)) (data rest : List Nat)
    (hs : SafeSpec (.dict (streamEntries kvs data.length)) (Model.Stream.streamTail data ++ rest) = true)
    (hlen : Spec.Stream.lookupUnique Spec.Stream.lengthKey (readBackKVs (streamEntries kvs data.length))
      = some (.int (Int.ofNat data.length)))
    (hr : specEnds rest = true) :
    Spec.Stream.readStream (Model.Stream.serStream kvs data ++ rest)
      = some (readBackKVs (streamEntries kvs data.length), data, rest) :=
  spec_stream_roundtrip kvs data rest hs hlen hr

/-- non-vacuity: an image dictionary with a stale `/Length`, payload `LF LF CR` -/
example : Model.Stream.parseStream (Model.Stream.serStream
      [([87], .int 3), (Model.Stream.lengthKey, .int 99), ([83], .name [73, 109])] [10, 10, 13] ++ [10, 101, 110, 100, 111, 98, 106, 10])
    = .ok (some ([(Model.Stream.lengthKey, .int 3), ([83], .name [73, 109]), ([87], .int 3)], [10, 10, 13],
        [10, 101, 110, 100, 111, 98, 106, 10])) := by rfl

example : Spec.Stream.readStream (Model.Stream.serStream
      [([87], .int 3), (Model.Stream.lengthKey, .int 99), ([83], .name [73, 109])] [10, 10, 13] ++ [10, 101, 110, 100, 111, 98, 106, 10])
    = some ([(Model.Stream.lengthKey, .int 3), ([83], .name [73, 109]), ([87], .int 3)], [10, 10, 13],
        [10, 101, 110, 100, 111, 98, 106, 10]) := by rfl

/-- what a `read_newline` that also swallows a second LF would do (the kind of regression the
    stream cases guard): the payload `LF 1` would come back as `1 LF` -/
example : Model.Stream.streamData [(Model.Stream.lengthKey, .int 2)]
    (10 :: ([10, 49] ++ 10 :: (Model.Stream.kwEndstream ++ [10]))) = .ok ([10, 49], [10]) := by rfl

/-! ## the incremental writer's name emission -/

/-- `write_name` of the incremental writer (alphanumerics and ``+-._@$:;*?`` verbatim, every other
    byte as `#XX`) is read back by the independent reader for **every** byte string. -/
theorem C09_escaped_name_spec_all_bytes (n d : List Nat) (hb : allB (fun b => b < 256) n = true)
    (hd : specEnds d = true) : Syntax.readName (incNameBody n ++ d) = some (n, d) :=
  spec_readName_escaped n d hb hd

example : Syntax.readName (incNameBody [65, 32, 47, 35, 0, 255] ++ [32]) = some ([65, 32, 47, 35, 0, 255], [32]) :=
  C09_escaped_name_spec_all_bytes _ _ (by decide) (by decide)

end OxiVerif.C09
