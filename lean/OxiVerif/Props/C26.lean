import OxiVerif.Model.C26
import Mathlib.Tactic.Ring
/-
C26 — CMaps map every code to the Unicode they define.

Theorems about the model of `text/cmap.rs` (`Model/C26.lean`), for byte strings of ANY length:
big-endian arithmetic of `increment_be` and of the add-with-carry loop in `CMap::map`, the
lexicographic slice comparison = numeric comparison on equal lengths, the semantics of the range
look-up (`lo ≤ code ≤ hi ↦ dst + (code − lo)`), rejection of unmapped codes outside the code space.
-/
namespace OxiVerif.C26

def AllByte (l : Bytes) : Prop := ∀ b ∈ l, b < 256

/-- little-endian value (the loops of the code walk the bytes from the last one) -/
def leVal : Bytes → Nat
  | [] => 0
  | b :: r => b + 256 * leVal r

theorem leVal_append (l : Bytes) (x : Nat) : leVal (l ++ [x]) = leVal l + 256 ^ l.length * x := by
  induction l with
  | nil => simp [leVal]
  | cons a r ih =>
    simp only [List.cons_append, leVal, ih, List.length_cons]
    ring

theorem foldl_be (l : Bytes) (a : Nat) :
    l.foldl (fun acc b => acc * 256 + b) a = a * 256 ^ l.length + leVal l.reverse := by
  induction l generalizing a with
  | nil => simp [leVal]
  | cons x r ih =>
    simp only [List.foldl_cons, ih, List.reverse_cons, leVal_append, List.length_reverse, List.length_cons]
    ring

/-- `be` (as folded by `calculate_offset`) is the little-endian value of the reversed list. -/
theorem be_eq (l : Bytes) : be l = leVal l.reverse := by
  unfold be
  rw [foldl_be]; simp

theorem leVal_lt (l : Bytes) (h : AllByte l) : leVal l < 256 ^ l.length := by
  induction l with
  | nil => simp [leVal]
  | cons a r ih =>
    have ha : a < 256 := h a (by simp)
    have hr := ih (fun b hb => h b (by simp [hb]))
    simp only [leVal, List.length_cons, Nat.pow_succ]
    omega

/-! ### add-with-carry (`CMap::map`) -/

theorem addRev_length (l : Bytes) (k : Nat) : (addRev l k).length = l.length := by
  induction l generalizing k with
  | nil => rfl
  | cons b r ih =>
    simp only [addRev, List.length_cons]
    split <;> simp [ih]

theorem addRev_spec (l : Bytes) (h : AllByte l) (k : Nat) :
    leVal (addRev l k) = (leVal l + k) % 256 ^ l.length := by
  induction l generalizing k with
  | nil => simp [addRev, leVal, Nat.mod_one]
  | cons b r ih =>
    have hr : AllByte r := fun x hx => h x (by simp [hx])
    have hlt := leVal_lt r hr
    simp only [addRev, leVal, List.length_cons]
    have hM : 0 < 256 ^ r.length := Nat.pow_pos (by omega)
    -- value of the tail after the step
    have tail : leVal (if (b + k) / 256 = 0 then r else addRev r ((b + k) / 256)) =
        (leVal r + (b + k) / 256) % 256 ^ r.length := by
      split
      · rename_i h0
        rw [h0, Nat.add_zero, Nat.mod_eq_of_lt hlt]
      · exact ih hr _
    rw [tail]
    -- (b + 256 * L + k) % (256 * M) = (b+k) % 256 + 256 * ((L + (b+k)/256) % M)
    have e1 : b + 256 * leVal r + k = (b + k) % 256 + 256 * (leVal r + (b + k) / 256) := by
      have := Nat.div_add_mod (b + k) 256
      omega
    rw [e1, Nat.pow_succ, Nat.mul_comm (256 ^ r.length) 256]
    have hq := Nat.div_add_mod (leVal r + (b + k) / 256) (256 ^ r.length)
    have hmod := Nat.mod_lt (leVal r + (b + k) / 256) hM
    have hb := Nat.mod_lt (b + k) (show 0 < 256 by omega)
    -- write q = M * (q / M) + q % M and drop the multiple of 256 * M
    have e2 : (b + k) % 256 + 256 * (leVal r + (b + k) / 256) =
        ((b + k) % 256 + 256 * ((leVal r + (b + k) / 256) % 256 ^ r.length)) +
          256 * 256 ^ r.length * ((leVal r + (b + k) / 256) / 256 ^ r.length) := by
      have : 256 * (leVal r + (b + k) / 256) =
          256 * (256 ^ r.length * ((leVal r + (b + k) / 256) / 256 ^ r.length) +
            (leVal r + (b + k) / 256) % 256 ^ r.length) := by rw [hq]
      rw [this]; ring
    rw [e2, Nat.add_mul_mod_self_left]
    symm
    apply Nat.mod_eq_of_lt
    have : 256 * ((leVal r + (b + k) / 256) % 256 ^ r.length) + 256 ≤ 256 * 256 ^ r.length := by
      have : (leVal r + (b + k) / 256) % 256 ^ r.length + 1 ≤ 256 ^ r.length := hmod
      calc 256 * ((leVal r + (b + k) / 256) % 256 ^ r.length) + 256
          = 256 * ((leVal r + (b + k) / 256) % 256 ^ r.length + 1) := by ring
        _ ≤ 256 * 256 ^ r.length := Nat.mul_le_mul_left 256 this
    omega

/-- The destination of a range entry: big-endian `dst + k`, modulo 256^|dst|, same length. -/
theorem C26_addCarry_spec (dst : Bytes) (h : AllByte dst) (k : Nat) :
    be (addCarry dst k) = (be dst + k) % 256 ^ dst.length ∧ (addCarry dst k).length = dst.length := by
  have hrev : AllByte dst.reverse := fun b hb => h b (by simpa using hb)
  constructor
  · rw [be_eq, be_eq, addCarry, List.reverse_reverse, addRev_spec _ hrev, List.length_reverse]
  · simp [addCarry, addRev_length]

example : addCarry [0x00, 0xFF] 1 = [0x01, 0x00] ∧ addCarry [0xFF, 0xFF] 2 = [0x00, 0x01] ∧
    addCarry [0xD8, 0x3D, 0xDC, 0xFF] 1 = [0xD8, 0x3D, 0xDD, 0x00] := by decide

/-! ### `increment_be` -/

theorem incRev_spec (l : Bytes) (h : AllByte l) :
    (incRev l).1.length = l.length ∧
    leVal (incRev l).1 + (if (incRev l).2 then 0 else 256 ^ l.length) = leVal l + 1 := by
  induction l with
  | nil => simp [incRev, leVal]
  | cons b r ih =>
    have hb : b < 256 := h b (by simp)
    have hr : AllByte r := fun x hx => h x (by simp [hx])
    obtain ⟨i1, i2⟩ := ih hr
    simp only [incRev]
    split
    · simp [leVal]; omega
    · rename_i hnot
      have hb255 : b = 255 := by omega
      simp only [List.length_cons, i1, leVal, true_and]
      cases hok : (incRev r).2 with
      | true =>
        simp only [hok, if_true] at i2 ⊢
        omega
      | false =>
        simp only [hok] at i2 ⊢
        simp only [Bool.false_eq_true, if_false, Nat.pow_succ] at i2 ⊢
        omega

/-- `increment_be` is +1 on the big-endian value; the flag is false exactly on overflow (all `FF`),
where the bytes wrap to zero. -/
theorem C26_incrementBe_spec (bs : Bytes) (h : AllByte bs) :
    (incrementBe bs).1.length = bs.length ∧
    be (incrementBe bs).1 + (if (incrementBe bs).2 then 0 else 256 ^ bs.length) = be bs + 1 := by
  have hrev : AllByte bs.reverse := fun b hb => h b (by simpa using hb)
  obtain ⟨h1, h2⟩ := incRev_spec bs.reverse hrev
  simp only [incrementBe, be_eq, List.reverse_reverse, List.length_reverse] at *
  exact ⟨h1, h2⟩

example : incrementBe [0x00, 0xFF] = ([0x01, 0x00], true) ∧ incrementBe [0xFF, 0xFF] = ([0x00, 0x00], false) := by
  decide

/-! ### slice comparison -/

/-- On equal lengths, Rust's lexicographic `<=` on byte slices is numeric `<=` of the big-endian values. -/
theorem leLex_iff_be (a b : Bytes) (hl : a.length = b.length) (ha : AllByte a) (hb : AllByte b) :
    leLex a b = true ↔ be a ≤ be b := by
  -- generalised over the accumulated prefix value
  suffices H : ∀ (a b : Bytes) (p : Nat), a.length = b.length → AllByte a → AllByte b →
      (leLex a b = true ↔ a.foldl (fun acc x => acc * 256 + x) p ≤ b.foldl (fun acc x => acc * 256 + x) p) by
    exact H a b 0 hl ha hb
  intro a
  induction a with
  | nil =>
    intro b p hl _ _
    cases b with
    | nil => simp [leLex]
    | cons _ _ => simp at hl
  | cons x xs ih =>
    intro b p hl ha hb
    cases b with
    | nil => simp at hl
    | cons y ys =>
      have hx : x < 256 := ha x (by simp)
      have hy : y < 256 := hb y (by simp)
      have hxs : AllByte xs := fun z hz => ha z (by simp [hz])
      have hys : AllByte ys := fun z hz => hb z (by simp [hz])
      have hl' : xs.length = ys.length := by simpa using hl
      simp only [leLex, List.foldl_cons]
      rw [foldl_be, foldl_be, hl']
      have lx := leVal_lt xs.reverse (fun z hz => hxs z (by simpa using hz))
      have ly := leVal_lt ys.reverse (fun z hz => hys z (by simpa using hz))
      simp only [List.length_reverse] at lx ly
      rw [hl'] at lx
      have hM : 0 < 256 ^ ys.length := Nat.pow_pos (by omega)
      split
      · rename_i hlt
        simp only [true_iff]
        have : (p * 256 + x + 1) * 256 ^ ys.length ≤ (p * 256 + y) * 256 ^ ys.length :=
          Nat.mul_le_mul_right _ (by omega)
        have e : (p * 256 + x + 1) * 256 ^ ys.length = (p * 256 + x) * 256 ^ ys.length + 256 ^ ys.length := by ring
        omega
      · split
        · rename_i _ hgt
          simp only [Bool.false_eq_true, false_iff, Nat.not_le]
          have : (p * 256 + y + 1) * 256 ^ ys.length ≤ (p * 256 + x) * 256 ^ ys.length :=
            Nat.mul_le_mul_right _ (by omega)
          have e : (p * 256 + y + 1) * 256 ^ ys.length = (p * 256 + y) * 256 ^ ys.length + 256 ^ ys.length := by ring
          omega
        · have hxy : x = y := by omega
          subst hxy
          rw [ih ys (p * 256 + x) hl' hxs hys, foldl_be, foldl_be, hl']

example : leLex [0x01, 0x00] [0x00, 0xFF] = false ∧ leLex [0x00, 0xFF] [0x01, 0x00] = true := by decide

/-! ### range look-up -/

/-- Soundness of the range scan: a result comes from a range entry containing the code, and is that
entry's destination plus the distance from the range start. -/
theorem C26_lookupRange_sound (es : List Entry) (c d : Bytes) (h : lookupRange es c = some d) :
    ∃ lo hi dst, Entry.range lo hi dst ∈ es ∧ c.length = lo.length ∧ leLex lo c = true ∧ leLex c hi = true ∧
      d = addCarry dst (be c - be lo) := by
  induction es with
  | nil => simp [lookupRange] at h
  | cons e r ih =>
    cases e with
    | single s t =>
      simp only [lookupRange] at h
      obtain ⟨lo, hi, dst, hm, rest⟩ := ih h
      exact ⟨lo, hi, dst, by simp [hm], rest⟩
    | range lo hi dst =>
      simp only [lookupRange] at h
      split at h
      · rename_i hc
        simp only [Bool.and_eq_true, beq_iff_eq] at hc
        simp only [Option.some.injEq] at h
        exact ⟨lo, hi, dst, by simp, hc.1.1, hc.1.2, hc.2, by rw [← h]; rfl⟩
      · obtain ⟨lo', hi', dst', hm, rest⟩ := ih h
        exact ⟨lo', hi', dst', by simp [hm], rest⟩

/-- Range semantics in numbers: for a code of the range's length with `lo ≤ code ≤ hi` and no bfchar
entry, the FIRST range entry decides, and its value is `dst + (code − lo)` as a big-endian number
modulo 256^|dst|. -/
theorem C26_range_semantics (m : CMap) (lo hi dst c : Bytes) (rest : List Entry)
    (hm : m.mappings = .range lo hi dst :: rest)
    (hs : lookupSingle m.singles c = none)
    (hlen : c.length = lo.length) (hlen2 : c.length = hi.length)
    (hc : AllByte c) (hlo : AllByte lo) (hhi : AllByte hi) (hdst : AllByte dst)
    (h1 : be lo ≤ be c) (h2 : be c ≤ be hi) :
    ∃ d, map m c = some d ∧ d.length = dst.length ∧ be d = (be dst + (be c - be lo)) % 256 ^ dst.length := by
  have l1 : leLex lo c = true := (leLex_iff_be lo c hlen.symm hlo hc).mpr h1
  have l2 : leLex c hi = true := (leLex_iff_be c hi hlen2 hc hhi).mpr h2
  refine ⟨addCarry dst (be c - be lo), ?_, (C26_addCarry_spec dst hdst _).2, (C26_addCarry_spec dst hdst _).1⟩
  simp only [map, hs, hm, lookupRange, hlen, l1, l2, beq_self_eq_true, Bool.and_self, if_true, calculateOffset]

example : map { mappings := [.range [0x00, 0xF0] [0x01, 0x10] [0x00, 0xFE]] } [0x01, 0x00] = some [0x01, 0x0E] := by
  decide

/-- bfchar entries take precedence, the newest one for a code wins (`HashMap::insert`). -/
theorem C26_single_wins (m : CMap) (c d : Bytes) (rest : List (Bytes × Bytes)) (hs : m.singles = (c, d) :: rest) :
    map m c = some d := by
  simp [map, hs, lookupSingle]

example : map { singles := [([0x41], [0x00, 0x62]), ([0x41], [0x00, 0x61])] } [0x41] = some [0x00, 0x62] := by
  decide

/-- A code with no bfchar entry and in no range is rejected unless the code space (or an inherited
Identity CMap) admits it — and without `usecmap` it is rejected even then. -/
theorem C26_unmapped_is_none (m : CMap) (c : Bytes) (hs : lookupSingle m.singles c = none)
    (hr : lookupRange m.mappings c = none) (hi : m.inherited = none) : map m c = none := by
  simp [map, hs, hr, inheritedIs, hi]

example : map { codespace := [([0x00], [0xFF])] } [0x41] = none := by decide

/- FULL (false of the code): `isValidCode m c = false → map m c = none` (codes outside the code space
   are rejected).  `CMap::map` consults the explicit mappings BEFORE the code space (issue #302). -/
/-- Partial: outside the code space only codes without an explicit entry are rejected. -/
theorem C26_outside_codespace_partial (m : CMap) (c : Bytes) (hv : isValidCode m c = false)
    (hs : lookupSingle m.singles c = none) (hr : lookupRange m.mappings c = none) : map m c = none := by
  simp [map, hs, hr, hv]

/-- Witness: a 1-byte bfchar under the code space `<0000> <FFFF>` is mapped although invalid. -/
theorem C26_witness_mapping_outside_codespace :
    let m := parse (str "1 begincodespacerange <0000> <FFFF> endcodespacerange 1 beginbfchar <41> <0061> endbfchar")
    isValidCode m [0x41] = false ∧ map m [0x41] = some [0x00, 0x61] := by
  decide +kernel

/-! ### code space membership — byte-wise (Adobe TN 5014), full since the repair of `CodeRange::contains` -/

theorem bytesWithin_iff (c lo hi : Bytes) (h1 : c.length = lo.length) (h2 : c.length = hi.length) :
    bytesWithin c lo hi = true ↔
      ∀ i, i < c.length → lo.getD i 0 ≤ c.getD i 0 ∧ c.getD i 0 ≤ hi.getD i 0 := by
  induction c generalizing lo hi with
  | nil => simp [bytesWithin]
  | cons x xs ih =>
    cases lo with
    | nil => simp at h1
    | cons l ls =>
      cases hi with
      | nil => simp at h2
      | cons h hs =>
        simp only [List.length_cons, Nat.add_right_cancel_iff] at h1 h2
        simp only [bytesWithin, Bool.and_eq_true, decide_eq_true_eq, ih ls hs h1 h2]
        constructor
        · rintro ⟨⟨a, b⟩, r⟩ i hi'
          cases i with
          | zero => exact ⟨a, b⟩
          | succ j =>
            simp only [List.length_cons, Nat.add_lt_add_iff_right] at hi'
            simpa using r j hi'
        · intro H
          refine ⟨by simpa using H 0 (by simp), fun i hi' => ?_⟩
          simpa using H (i + 1) (by simpa using hi')

/-- `CodeRange::contains`: a code is in a code-space range iff it has the length of both bounds and
EVERY byte lies between the corresponding bytes of `lo` and `hi` — for codes of any length. -/
theorem C26_codespace_bytewise (lo hi c : Bytes) :
    rangeContains (lo, hi) c = true ↔
      (c.length = lo.length ∧ c.length = hi.length ∧
        ∀ i, i < c.length → lo.getD i 0 ≤ c.getD i 0 ∧ c.getD i 0 ≤ hi.getD i 0) := by
  unfold rangeContains
  by_cases h1 : c.length = lo.length
  · by_cases h2 : c.length = hi.length
    · have hb := bytesWithin_iff c lo hi h1 h2
      have hc : (c.length != lo.length || c.length != hi.length) = false := by
        simp only [Bool.or_eq_false_iff, bne_eq_false_iff_eq]; exact ⟨h1, h2⟩
      rw [hc]
      simp only [Bool.false_eq_true, if_false]
      rw [hb]
      exact ⟨fun h => ⟨h1, h2, h⟩, fun h => h.2.2⟩
    · have hc : (c.length != lo.length || c.length != hi.length) = true := by
        simp only [Bool.or_eq_true, bne_iff_ne, ne_eq]; exact Or.inr h2
      rw [hc]
      simp only [if_true, Bool.false_eq_true, false_iff]
      exact fun h => h2 h.2.1
  · have hc : (c.length != lo.length || c.length != hi.length) = true := by
      simp only [Bool.or_eq_true, bne_iff_ne, ne_eq]; exact Or.inl h1
    rw [hc]
    simp only [if_true, Bool.false_eq_true, false_iff]
    exact fun h => h1 h.1

example : rangeContains ([0x81, 0x40], [0x9F, 0xFC]) [0x82, 0x41] = true ∧
    rangeContains ([0x81, 0x40], [0x9F, 0xFC]) [0x82, 0x00] = false := by decide

/-- `is_valid_code` without `usecmap`: some code-space range contains the code byte-wise. -/
theorem C26_valid_code_iff (m : CMap) (c : Bytes) (hi : m.inherited = none) :
    isValidCode m c = true ↔ ∃ r ∈ m.codespace, rangeContains r c = true := by
  simp [isValidCode, inheritedIs, hi]

example : isValidCode { codespace := [([0x00], [0x80]), ([0x81, 0x40], [0x9F, 0xFC])] } [0x81, 0x40] = true := by decide

/-- Regression witness (the definition before the repair): the lexicographic interval accepted
`<8200>` for the code space `<8140> <9FFC>` (second byte 0x00 < 0x40); the repaired one rejects it. -/
theorem C26_witness_codespace_lexicographic :
    rangeContainsOld ([0x81, 0x40], [0x9F, 0xFC]) [0x82, 0x00] = true ∧ ¬ (0x40 ≤ 0x00) ∧
    rangeContains ([0x81, 0x40], [0x9F, 0xFC]) [0x82, 0x00] = false := by
  decide

/-! ### `parse_hex` — total since the repair -/

theorem mem_dropWhileEq {c x : Nat} {l : Bytes} (h : x ∈ l) (hne : x ≠ c) : x ∈ dropWhileEq c l := by
  induction l with
  | nil => simp at h
  | cons a r ih =>
    simp only [dropWhileEq]
    split
    · rename_i hac
      simp only [beq_iff_eq] at hac
      simp only [List.mem_cons] at h
      rcases h with rfl | h
      · exact absurd hac hne
      · exact ih h
    · exact h

/-- A non-ASCII char (other than the two Latin-1 white-space chars U+0085, U+00A0, which are dropped)
anywhere between the angle brackets makes `parse_hex` return `None` — the token is skipped, nothing
is sliced. -/
theorem C26_parseHex_nonascii_none (s : Bytes) (c : Nat) (hc : c ∈ s) (h80 : 0x80 ≤ c)
    (hws : isWsChar c = false) : parseHex s = none := by
  have m1 : c ∈ dropWhileEq 0x3C s := mem_dropWhileEq hc (by omega)
  have m2 : c ∈ (dropWhileEq 0x3E (dropWhileEq 0x3C s).reverse).reverse := by
    rw [List.mem_reverse]
    exact mem_dropWhileEq (by simpa using m1) (by omega)
  have m3 : c ∈ ((dropWhileEq 0x3E (dropWhileEq 0x3C s).reverse).reverse).filter fun c => !isWsChar c := by
    exact List.mem_filter.mpr ⟨m2, by simp [hws]⟩
  have hany : (((dropWhileEq 0x3E (dropWhileEq 0x3C s).reverse).reverse).filter fun c => !isWsChar c).any
      (fun c => decide (c ≥ 0x80)) = true := by
    rw [List.any_eq_true]
    exact ⟨c, m3, by simpa using h80⟩
  simp only [parseHex, hany, if_true]

example : parseHex [0x34, 0xC3, 0xA9, 0x34] = none ∧ isWsChar 0xC3 = false := by decide

/-- Regression witness (the definition before the repair): on `<4é4>` — the tokenizer hands the UTF-8
bytes 34 C3 A9 34 over as four chars — the old `parse_hex` sliced its `String` at byte offset 2,
inside `Ã`: a panic.  The repaired function answers `None`, and the CMap text parses. -/
theorem C26_witness_parseHex_old_panics :
    parseHexOld [0x34, 0xC3, 0xA9, 0x34] = .panic ∧ parseHex [0x34, 0xC3, 0xA9, 0x34] = none ∧
    (parseText (str "1 beginbfchar <4" ++ [0xC3, 0xA9] ++ str "4> <0041> endbfchar")).isSome = true := by
  decide +kernel

/-! ### `hex_string` / `parse_hex` and `string_to_utf16_be_bytes` / `to_unicode` are inverse — the two
halves of the builder → parser round trip that are not tokenizer framing -/

def isUpHex (c : Nat) : Bool := (48 ≤ c && c ≤ 57) || (65 ≤ c && c ≤ 70)

theorem upHex_facts {c : Nat} (h : isUpHex c = true) :
    c ≠ 0x3C ∧ c ≠ 0x3E ∧ isWsChar c = false ∧ c < 0x80 := by
  have hc : c < 71 := by
    simp only [isUpHex, Bool.or_eq_true, Bool.and_eq_true, decide_eq_true_eq] at h
    omega
  have key : ∀ c, c < 71 → isUpHex c = true → (c ≠ 0x3C ∧ c ≠ 0x3E ∧ isWsChar c = false ∧ c < 0x80) := by
    decide
  exact key c hc h

theorem hexUpper_pair : ∀ x, x < 256 →
    (isUpHex (hexUpper (x / 16)) = true ∧ isUpHex (hexUpper (x % 16)) = true ∧
      hexPair (hexUpper (x / 16)) (hexUpper (x % 16)) = some x) := by
  decide +kernel

theorem mem_hexString {b : Bytes} (hb : AllByte b) {c : Nat} (hc : c ∈ hexString b) : isUpHex c = true := by
  simp only [hexString, List.mem_flatMap, List.mem_cons, List.not_mem_nil, or_false] at hc
  obtain ⟨x, hx, hc⟩ := hc
  have := hexUpper_pair x (hb x hx)
  rcases hc with rfl | rfl
  · exact this.1
  · exact this.2.1

theorem dropWhileEq_id {c : Nat} {l : Bytes} (h : ∀ x ∈ l, x ≠ c) : dropWhileEq c l = l := by
  cases l with
  | nil => rfl
  | cons a r =>
    have : a ≠ c := h a (by simp)
    simp [dropWhileEq, this]

theorem hexString_cons (x : Nat) (r : Bytes) :
    hexString (x :: r) = hexUpper (x / 16) :: hexUpper (x % 16) :: hexString r := by
  simp [hexString]

theorem hexPairs_hexString (b : Bytes) (hb : AllByte b) : hexPairs (hexString b) = some b := by
  induction b with
  | nil => rfl
  | cons x r ih =>
    have hx := hexUpper_pair x (hb x (by simp))
    have hr : AllByte r := fun y hy => hb y (by simp [hy])
    rw [hexString_cons]
    simp only [hexPairs, hx.2.2, ih hr]

theorem hexString_length (b : Bytes) : (hexString b).length = 2 * b.length := by
  induction b with
  | nil => rfl
  | cons x r ih => rw [hexString_cons]; simp only [List.length_cons, ih]; omega

/-- `parse_hex` reads back what `hex_string` writes — for byte strings of any length. -/
theorem C26_parseHex_hexString (b : Bytes) (hb : AllByte b) : parseHex (hexString b) = some b := by
  have hm : ∀ c ∈ hexString b, c ≠ 0x3C ∧ c ≠ 0x3E ∧ isWsChar c = false ∧ c < 0x80 :=
    fun c hc => upHex_facts (mem_hexString hb hc)
  have e1 : dropWhileEq 0x3C (hexString b) = hexString b := dropWhileEq_id fun x hx => (hm x hx).1
  have e2 : (dropWhileEq 0x3E (hexString b).reverse).reverse = hexString b := by
    rw [dropWhileEq_id fun x hx => (hm x (by simpa using hx)).2.1, List.reverse_reverse]
  have e3 : (hexString b).filter (fun c => !isWsChar c) = hexString b := by
    rw [List.filter_eq_self]
    intro c hc
    simp [(hm c hc).2.2.1]
  have e4 : (hexString b).any (fun c => decide (c ≥ 0x80)) = false := by
    rw [List.any_eq_false]
    intro c hc
    have := (hm c hc).2.2.2
    simp only [ge_iff_le, decide_eq_true_eq]
    omega
  have e5 : ((hexString b).length % 2 != 0) = false := by
    rw [hexString_length]; simp
  simp only [parseHex, e1, e2, e3, e4, e5, Bool.false_eq_true, if_false]
  exact hexPairs_hexString b hb

example : parseHex (hexString [0x00, 0xAB, 0xFF]) = some [0x00, 0xAB, 0xFF] := by decide


/-- Unicode scalar value -/
def IsScalar (c : Nat) : Prop := c < 0xD800 ∨ (0xDFFF < c ∧ c ≤ 0x10FFFF)

theorem units_pairs (us : List Nat) : units (us.flatMap fun u => [u / 256, u % 256]) = us := by
  induction us with
  | nil => rfl
  | cons u r ih =>
    simp only [List.flatMap_cons, List.cons_append, List.nil_append, units, ih]
    have := Nat.div_add_mod u 256
    congr 1
    omega

theorem pairs_length (us : List Nat) : (us.flatMap fun u => [u / 256, u % 256]).length = 2 * us.length := by
  induction us with
  | nil => rfl
  | cons u r ih => simp only [List.flatMap_cons, List.length_append, List.length_cons, List.length_nil, ih]; omega

theorem utf16Strict_enc (s : List Nat) (hs : ∀ c ∈ s, IsScalar c) : utf16Strict (s.flatMap utf16Enc) = some s := by
  induction s with
  | nil => rfl
  | cons c r ih =>
    have hc : IsScalar c := hs c (by simp)
    have hr : ∀ x ∈ r, IsScalar x := fun x hx => hs x (by simp [hx])
    have ih' := ih hr
    simp only [List.flatMap_cons]
    by_cases h16 : c < 0x10000
    · have hns : c < 0xD800 ∨ 0xDFFF < c := by rcases hc with h | h <;> omega
      have e : utf16Enc c = [c] := by simp [utf16Enc, h16]
      rw [e]
      simp only [List.cons_append, List.nil_append]
      rw [utf16Strict.eq_def]
      simp only [hns, if_true, ih', Option.map_some]
    · have hle : c ≤ 0x10FFFF := by rcases hc with h | h <;> omega
      have e : utf16Enc c = [0xD800 + (c - 0x10000) / 1024, 0xDC00 + (c - 0x10000) % 1024] := by
        simp [utf16Enc, h16]
      rw [e]
      simp only [List.cons_append, List.nil_append]
      have h1 : ¬ (0xD800 + (c - 0x10000) / 1024 < 0xD800 ∨ 0xDFFF < 0xD800 + (c - 0x10000) / 1024) := by omega
      have h2 : 0xD800 + (c - 0x10000) / 1024 ≤ 0xDBFF := by omega
      have h3 : 0xDC00 ≤ 0xDC00 + (c - 0x10000) % 1024 ∧ 0xDC00 + (c - 0x10000) % 1024 ≤ 0xDFFF := by omega
      have h4 : 0x10000 + (0xD800 + (c - 0x10000) / 1024 - 0xD800) * 1024 + (0xDC00 + (c - 0x10000) % 1024 - 0xDC00) = c := by
        omega
      rw [utf16Strict.eq_def]
      simp only [h1, h2, h3, if_false, if_true, and_self, ih', Option.map_some, h4]

/-- `to_unicode` reads back what `string_to_utf16_be_bytes` writes — for strings of any length. -/
theorem C26_toUnicode_utf16be (s : List Nat) (hs : ∀ c ∈ s, IsScalar c) : toUnicode (utf16beBytes s) = some s := by
  unfold toUnicode utf16beBytes
  have hl : ((s.flatMap utf16Enc).flatMap fun u => [u / 256, u % 256]).length % 2 = 0 := by
    rw [pairs_length]; omega
  simp only [hl, beq_self_eq_true, if_true, units_pairs]
  exact utf16Strict_enc s hs

example : toUnicode (utf16beBytes [0x41, 0x1F600, 0xFFFD]) = some [0x41, 0x1F600, 0xFFFD] := by decide


theorem utf16beBytes_allByte (s : List Nat) (hs : ∀ c ∈ s, IsScalar c) : AllByte (utf16beBytes s) := by
  intro b hb
  simp only [utf16beBytes, List.mem_flatMap, List.mem_cons, List.not_mem_nil, or_false] at hb
  obtain ⟨u, ⟨c, hc, hu⟩, hb⟩ := hb
  have hsc := hs c hc
  have hu16 : u < 65536 := by
    unfold utf16Enc at hu
    split at hu
    · simp only [List.mem_cons, List.not_mem_nil, or_false] at hu; omega
    · simp only [List.mem_cons, List.not_mem_nil, or_false] at hu
      have hle : c ≤ 0x10FFFF := by rcases hsc with h | h <;> omega
      rcases hu with hu | hu <;> omega
  rcases hb with rfl | rfl <;> omega

/-- One `<code> <destination>` line of `ToUnicodeCMapBuilder::build`, read back by the parser's
`parse_hex` and `to_unicode`: exactly the code and the string that were added — for codes and
strings of any length (the tokenizer's framing of the line is covered by the correspondence run and
by `C26_builder_roundtrip_instance`). -/
theorem C26_builder_entry_roundtrip (code : Bytes) (s : List Nat) (hc : AllByte code)
    (hs : ∀ c ∈ s, IsScalar c) :
    parseHex (hexString code) = some code ∧
    (parseHex (hexString (utf16beBytes s))).bind toUnicode = some s := by
  refine ⟨C26_parseHex_hexString code hc, ?_⟩
  rw [C26_parseHex_hexString _ (utf16beBytes_allByte s hs)]
  exact C26_toUnicode_utf16be s hs

example : (parseHex (hexString (utf16beBytes [0x66, 0x1F600]))).bind toUnicode = some [0x66, 0x1F600] := by decide

/-! ### array form, tokenizer, builder: concrete end-to-end instances (kernel-evaluated) -/

/-- The array form assigns the i-th destination to `lo + i`, across a byte carry. -/
theorem C26_array_form_instance :
    let m := parse (str "1 beginbfrange <00FE> <0101> [<0061> <0062> <0063> <0064>] endbfrange")
    map m [0x00, 0xFE] = some [0x00, 0x61] ∧ map m [0x00, 0xFF] = some [0x00, 0x62] ∧
    map m [0x01, 0x00] = some [0x00, 0x63] ∧ map m [0x01, 0x01] = some [0x00, 0x64] ∧
    map m [0x01, 0x02] = none := by
  decide +kernel

/-- One-line and multi-line layouts parse to the same CMap. -/
theorem C26_layout_instance :
    (parse (str "1 begincodespacerange <00><FF> endcodespacerange 1 beginbfchar <41><0061> endbfchar")).mappings =
    (parse (str "1 begincodespacerange\n<00> <FF>\nendcodespacerange\n1 beginbfchar\n<41> <0061>\nendbfchar\n")).mappings := by
  decide +kernel

/-- Builder → parser round trip on an instance with an astral character and an empty string. -/
theorem C26_builder_roundtrip_instance :
    let adds := [([0x00, 0x41], [0x1F600]), ([0x00, 0x42], []), ([0x00, 0x41], [0x66, 0x69])]
    let m := parse (build 2 adds)
    (map m [0x00, 0x41]).bind toUnicode = some [0x66, 0x69] ∧ (map m [0x00, 0x42]).bind toUnicode = some [] ∧
    map m [0x00, 0x43] = none := by
  decide +kernel

end OxiVerif.C26
