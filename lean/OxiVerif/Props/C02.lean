import OxiVerif.Model.C02
import OxiVerif.Lemmas.C02
import OxiVerif.Lemmas.C18
/-!
# C02 — documents written by the library read back with the same content

Model: `Model/C02.lean` (`buildObjects` = the writer's object construction, `emitOps` = the three
operator buffers of `Page`, `readDoc` = the library's reading of an object graph, `observe` = the
authored content, i.e. the spec side).

/- FULL: for every document `d` (pages, operators, images, Info strings), every writer
   configuration `cfg`, every codec pair with `unz (z c) = some c`:
     `read (write d cfg) = .ok (observe d)`
   where `write = C03.layout ∘ buildObjects` and `read = readDoc ∘ (file → object graph)`.

   FALSE of the code as it is, for three independent reasons, each demonstrated on the real
   code by the correspondence run (`known_findings/C02.json`) and in the model below / in C03:
   * `Page::draw_image` does not flush the pending text buffer: an image drawn after text is
     emitted BEFORE that text (`C02_witness_image_after_text`);
   * (repaired in /repo 67304722) `use_xref_streams` with `compress_streams = false` declared
     `/Filter /FlateDecode` over raw cross-reference data (C03-F1, every document);
   * (repaired in /repo 4d9cdfbe) `use_object_streams` with a classic table left every non-stream
     object without an entry (C03-F2, every document).

   PROVED here (unbounded, no sample enumeration):
   * operator order: under the decidable hypothesis `orderSafe` (no image drawn while text is
     pending) the emitted sequence IS the call-order sequence (`C02_emit_is_call_order_partial`);
     without it the emitted sequence is still a permutation of it — no operator is lost or
     duplicated (`C02_emit_perm_call_order`);
   * page tree: `/Kids` of the written `/Pages` node lists the page objects in authoring order
     (`C02_kids_are_pages_in_order`), the ids are pairwise distinct (`C02_page_ids_nodup`), and the
     library's `flatten_page_tree` (model `C18.loop`, theorem `C18_loop_document_order`) returns
     exactly that list for every classification under which the kids are pages
     (`C02_flatten_written_tree`), up to `MAX_PAGES` pages;
   * content stream data: what the reader's graph holds for page `i` is `serXs (emitOps p)` under
     the codec hypothesis (`C02_content_data_partial`).
   NOT proved (evaluated instead on every generated document by the driver, MODEL = IMPL):
   the lookup of every written object in the reader's graph by id for a symbolic page list, the
   object-syntax round trip of the concrete dictionaries (C09's theorems, under `SafeLib`), the
   content-stream round trip `parseContent (serXs ops) = ops.map expectParsed` (C21's subject),
   offsets → objects (C03's theorems). -/
-/
namespace OxiVerif.C02
open OxiVerif.Spec.Syntax (Obj)

/-! ## operator order -/

abbrev Eff := GS → Option Col → DOp → Ctx × GS × Option Col × List XOp

/-- no operator is pushed past the flushes (context `.img`) while the text buffer holds operators -/
def orderSafeWith (eff : Eff) (gs : GS) (tf : Option Col) (pend : Bool) : List DOp → Bool
  | [] => true
  | op :: r =>
    let e := eff gs tf op
    match e.1 with
    | .gfx => orderSafeWith eff e.2.1 e.2.2.1 false r
    | .txt => orderSafeWith eff e.2.1 e.2.2.1 true r
    | .img => (!pend || e.2.2.2.isEmpty) && orderSafeWith eff e.2.1 e.2.2.1 pend r

def flat (b : Bufs) : List XOp := b.page ++ b.gfx ++ b.txt

theorem flat_push (b : Bufs) (c : Ctx) (ops : List XOp)
    (h1 : b.gfx = [] ∨ b.txt = []) (h2 : c = .img → b.txt = [] ∨ ops = []) :
    flat (pushOps b c ops) = flat b ++ ops := by
  cases c with
  | gfx => rcases h1 with h | h <;> simp [flat, pushOps, h]
  | txt => simp [flat, pushOps]
  | img => rcases h2 rfl with h | h <;> simp [flat, pushOps, h]

/-- buffer invariant "graphics tail or text tail is empty", for any assignment of contexts `eff`
    that pushes the same operators and makes the same state changes as `opEffect` -/
theorem runOpsWith_flat (eff : Eff) (hE : ∀ gs tf op, (eff gs tf op).2 = (opEffect gs tf op).2)
    (ops : List DOp) : ∀ (gs : GS) (tf : Option Col) (b : Bufs) (pend : Bool),
    (b.gfx = [] ∨ b.txt = []) → (pend = false → b.txt = []) → orderSafeWith eff gs tf pend ops = true →
    flat (runOpsWith eff gs tf b ops) = flat b ++ callOps gs tf ops := by
  induction ops with
  | nil => intro gs tf b pend _ _ _; simp [runOpsWith, callOps]
  | cons op r ih =>
    intro gs tf b pend h1 h2 hs
    simp only [runOpsWith, callOps]
    simp only [orderSafeWith] at hs
    have hq := hE gs tf op
    generalize he : eff gs tf op = e at hs hq ⊢
    obtain ⟨c, gs', tf', xs⟩ := e
    simp only at hs hq ⊢
    rw [← hq]
    simp only
    cases c with
    | gfx =>
      rw [ih gs' tf' _ false (by simp [pushOps]) (by simp [pushOps]) hs,
        flat_push b .gfx xs h1 (by simp), List.append_assoc]
    | txt =>
      rw [ih gs' tf' _ true (by simp [pushOps]) (by simp) hs,
        flat_push b .txt xs h1 (by simp), List.append_assoc]
    | img =>
      simp only [Bool.and_eq_true, Bool.or_eq_true, Bool.not_eq_true'] at hs
      have hx : b.txt = [] ∨ xs = [] := by
        rcases hs.1 with h | h
        · exact Or.inl (h2 h)
        · exact Or.inr (by simpa using h)
      rw [ih gs' tf' _ pend
          (by rcases hx with h | h
              · exact Or.inr (by simp [pushOps, h])
              · simpa [pushOps, h] using h1)
          (by intro hp; simpa [pushOps] using h2 hp) hs.2,
        flat_push b .img xs h1 (fun _ => hx), List.append_assoc]

/-- the only call that bypasses the flushes is `set_rotation`, which pushes nothing -/
theorem opEffect_img_empty (gs : GS) (tf : Option Col) (op : DOp)
    (h : (opEffect gs tf op).1 = .img) : (opEffect gs tf op).2.2.2 = [] := by
  cases op <;> simp_all [opEffect]

theorem orderSafe_all (ops : List DOp) : ∀ (gs : GS) (tf : Option Col) (pend : Bool),
    orderSafeWith opEffect gs tf pend ops = true := by
  induction ops with
  | nil => intro _ _ _; rfl
  | cons op r ih =>
    intro gs tf pend
    simp only [orderSafeWith]
    have h := opEffect_img_empty gs tf op
    generalize opEffect gs tf op = e at h ⊢
    obtain ⟨c, gs', tf', xs⟩ := e
    cases c with
    | gfx => exact ih _ _ _
    | txt => exact ih _ _ _
    | img =>
      simp only at h ⊢
      simp [h trivial, ih]

/-- FULL STRENGTH (since the repair of C02-F3 in /repo): for every page, whatever the sequence of
    authoring calls, the operators `generate_content` serialises are the operators of the calls
    in CALL order. -/
theorem C02_emit_is_call_order (p : PageD) : emitOps p = specOps p := by
  have := runOpsWith_flat opEffect (fun _ _ _ => rfl) p.ops {} none {} false (Or.inl rfl)
    (fun _ => rfl) (orderSafe_all p.ops {} none false)
  simpa [emitOps, specOps, flat, runOps] using this

/-- non-vacuity: text, image, graphics, text again -/
example : emitOps ⟨[49], [49], [.text 0 [49, 50] [49] [50] [65], .image [73] ⟨true, 1, 1, [0]⟩ [49] [50] [51] [52],
    .moveTo [49] [50], .text 1 [57] [49] [50] [66]]⟩ =
    specOps ⟨[49], [49], [.text 0 [49, 50] [49] [50] [65], .image [73] ⟨true, 1, 1, [0]⟩ [49] [50] [51] [52],
    .moveTo [49] [50], .text 1 [57] [49] [50] [66]]⟩ := C02_emit_is_call_order _

theorem opEffectOld_snd (gs : GS) (tf : Option Col) (op : DOp) :
    (opEffectOld gs tf op).2 = (opEffect gs tf op).2 := by
  cases op <;> rfl

/-- the code BEFORE the repair: call order only under the hypothesis that no image is drawn while
    text is pending -/
theorem C02_old_emit_is_call_order_partial (p : PageD)
    (h : orderSafeWith opEffectOld {} none false p.ops = true) : emitOpsOld p = specOps p := by
  have := runOpsWith_flat opEffectOld opEffectOld_snd p.ops {} none {} false (Or.inl rfl) (fun _ => rfl) h
  simpa [emitOpsOld, specOps, flat] using this

example : orderSafeWith opEffectOld {} none false
    [.image [73] ⟨true, 1, 1, [0]⟩ [49] [50] [51] [52], .moveTo [49] [50], .fillColor (.rgb [49] [48] [48]),
     .text 0 [49, 50] [49] [50] [72, 105], .lineTo [51] [52], .stroke] = true := by decide

/-- the regression the check must catch (C02-F3, the code before the repair): text, then an image —
    the image's `q cm Do Q` was emitted before the text's `BT … ET` -/
theorem C02_witness_image_after_text :
    let p : PageD := ⟨[49, 48, 48], [49, 48, 48],
      [.text 0 [49, 50] [49] [50] [65], .image [73, 109] ⟨true, 1, 1, [0]⟩ [49] [50] [51] [52]]⟩
    emitOpsOld p ≠ specOps p ∧
    emitOpsOld p = [.plain [113], .num [99, 109] 2 [[51], [48], [48], [52], [49], [50]], .xobj [73, 109], .plain [81],
                 .plain [66, 84], .font (fontName 0) [49, 50], .num [103] 3 [[48]], .num [84, 100] 2 [[49], [50]],
                 .showText [65], .plain [69, 84]] := by
  decide

theorem perm_push (b : Bufs) (c : Ctx) (ops : List XOp) :
    (flat (pushOps b c ops)).Perm (flat b ++ ops) := by
  cases c with
  | gfx =>
    simp only [flat, pushOps, List.append_nil, List.append_assoc]
    refine List.Perm.append_left _ ?_
    rw [← List.append_assoc, ← List.append_assoc]
    exact List.Perm.append_right _ List.perm_append_comm
  | txt => simp [flat, pushOps]
  | img =>
    simp only [flat, pushOps, List.append_assoc]
    refine List.Perm.append_left _ (List.Perm.append_left _ List.perm_append_comm)

theorem runOpsWith_perm (eff : Eff) (hE : ∀ gs tf op, (eff gs tf op).2 = (opEffect gs tf op).2)
    (ops : List DOp) : ∀ (gs : GS) (tf : Option Col) (b : Bufs),
    (flat (runOpsWith eff gs tf b ops)).Perm (flat b ++ callOps gs tf ops) := by
  induction ops with
  | nil => intro gs tf b; simp [runOpsWith, callOps]
  | cons op r ih =>
    intro gs tf b
    simp only [runOpsWith, callOps]
    have hq := hE gs tf op
    generalize eff gs tf op = e at hq ⊢
    obtain ⟨c, gs', tf', xs⟩ := e
    simp only at hq ⊢
    rw [← hq]
    simp only
    refine (ih _ _ _).trans ?_
    rw [← List.append_assoc]
    exact List.Perm.append_right _ (perm_push b _ _)

/-- even before the repair no operator was lost or duplicated: the old emitted sequence is a
    permutation of the call-order sequence, for every page -/
theorem C02_old_emit_perm_call_order (p : PageD) : (emitOpsOld p).Perm (specOps p) := by
  have := runOpsWith_perm opEffectOld opEffectOld_snd p.ops {} none {}
  simpa [emitOpsOld, specOps, flat] using this

example : (emitOpsOld ⟨[49], [49], [.text 0 [49, 50] [49] [50] [65], .image [73] ⟨true, 1, 1, [0]⟩ [49] [50] [51] [52]]⟩).length = 10 := by
  decide

/-! ## page tree -/

theorem kidsOf_eq (n : Nat) : ∀ i, kidsOf i n = (List.range' i n).map fun j => Obj.ref (pageId j) 0 := by
  induction n with
  | zero => intro i; simp [kidsOf]
  | succ n ih => intro i; simp [kidsOf, ih, List.range'_succ]

/-- `/Kids` of the written `/Pages` node: the page objects, in authoring order, and `/Count` -/
theorem C02_kids_are_pages_in_order (n : Nat) :
    dget (pagesDict n) "Kids" = some (.arr ((List.range n).map fun j => Obj.ref (pageId j) 0)) ∧
    dget (pagesDict n) "Count" = some (.int n) ∧
    c18Ty (pagesDict n) = .pages := by
  refine ⟨?_, ?_, ?_⟩
  · simp [pagesDict, dget, dictGet, key, ascii, kidsOf_eq, List.range_eq_range']
  · simp [pagesDict, dget, dictGet, key, ascii]
  · simp [c18Ty, pagesDict, dget, dictGet, key, ascii, nm]

example : dget (pagesDict 2) "Kids" = some (.arr [.ref 4 0, .ref 6 0]) := by
  simp [pagesDict, dget, dictGet, key, ascii, kidsOf, pageId]

theorem C02_page_ids_nodup (n : Nat) : ((List.range n).map pageId).Nodup := by
  rw [List.Nodup, List.pairwise_map]
  refine (List.nodup_range (n := n)).imp ?_
  intro a b h
  simp only [pageId]
  omega

/-- a page id is never a content id (the two families interleave: 4, 5, 6, 7, …) -/
theorem C02_page_id_ne_content_id (i j : Nat) : pageId i ≠ contentId j := by
  simp only [pageId, contentId]; omega

example : pageId 3 = 10 ∧ contentId 3 = 11 := by decide

/-- `C18_loop_document_order` (Props/C18), re-derived here from `Lemmas/C18` so that this module
    does not depend on another property's Props file -/
theorem loop_document_order (cls : Nat → C18.Cls) (f : C18.Forest) (fuel : Nat)
    (hag : C18.Agrees cls f) (hnd : f.ids.Nodup) (hmax : f.leaves.length ≤ C18.MAX_PAGES)
    (hfuel : f.size ≤ fuel) : C18.loop cls fuel f.roots [] [] = some f.leaves := by
  have hf := C18.loop_forest cls f 0 [] [] [] f.leaves hag hnd (by simp) (by simpa using hmax)
    (by simp [C18.loop])
  simp only [List.append_nil, Nat.zero_add] at hf
  have := C18.loop_fuel_mono cls _ _ _ _ _ hf (fuel - f.size)
  have e : f.size + (fuel - f.size) = fuel := by omega
  rw [e] at this
  exact this

def leafChain : List Nat → C18.Forest
  | [] => .nil
  | k :: r => .leaf k (leafChain r)

theorem leafChain_facts (ks : List Nat) :
    (leafChain ks).roots = ks ∧ (leafChain ks).leaves = ks ∧ (leafChain ks).ids = ks ∧
    (leafChain ks).size = ks.length := by
  induction ks with
  | nil => simp [leafChain, C18.Forest.roots, C18.Forest.leaves, C18.Forest.ids, C18.Forest.size]
  | cons k r ih =>
    obtain ⟨a, b, c, d⟩ := ih
    simp [leafChain, C18.Forest.roots, C18.Forest.leaves, C18.Forest.ids, C18.Forest.size, a, b, c, d]

theorem leafChain_agrees (cls : Nat → C18.Cls) (ks : List Nat) (h : ∀ k ∈ ks, cls k = .leaf) :
    C18.Agrees cls (leafChain ks) := by
  induction ks with
  | nil => simp [leafChain, C18.Agrees]
  | cons k r ih =>
    simp only [leafChain, C18.Agrees]
    exact ⟨h k (by simp), ih (fun x hx => h x (by simp [hx]))⟩

/-- the library's `flatten_page_tree` loop on the tree the writer emits (a `/Pages` node whose
    kids are page objects): the flat index is the kid list, in order — for every number of pages
    up to `MAX_PAGES`.  (Composition of `C18_loop_document_order` with the writer's tree shape.) -/
theorem C02_flatten_written_tree (cls : Nat → C18.Cls) (n fuel : Nat)
    (hleaf : ∀ i < n, cls (pageId i) = .leaf) (hmax : n ≤ C18.MAX_PAGES) (hfuel : n ≤ fuel) :
    C18.loop cls fuel ((List.range n).map pageId) [] [] = some ((List.range n).map pageId) := by
  have f := leafChain_facts ((List.range n).map pageId)
  have := loop_document_order cls (leafChain ((List.range n).map pageId)) fuel
    (leafChain_agrees cls _ (by
      intro k hk
      obtain ⟨i, hi, rfl⟩ := List.mem_map.mp hk
      exact hleaf i (List.mem_range.mp hi)))
    (by rw [f.2.2.1]; exact C02_page_ids_nodup n)
    (by rw [f.2.1]; simpa using hmax)
    (by rw [f.2.2.2]; simpa using hfuel)
  rw [f.1, f.2.1] at this
  exact this

example : (∀ i < 3, (fun k => if k % 2 = 0 then C18.Cls.leaf else .skip) (pageId i) = .leaf) := by
  intro i _; simp [pageId]

/-! ## content stream data -/

/-- PARTIAL (hypothesis: the decoder inverts the encoder — Flate is abstract, tied to `flate2` by
    the code book of every run): whatever the configuration, the data the reader's graph holds
    for the content stream of page `i` is the serialisation of the emitted operators. -/
theorem C02_content_data_partial (cfg : Cfg) (z : Bytes → Bytes) (unz : Bytes → Option Bytes)
    (hz : ∀ c, unz (z c) = some c) (i : Nat) (p : PageD) (parse : Obj → Option Obj) (d' : Obj)
    (hp : ∀ dict raw, (contentObj cfg z i p).body = .stream dict raw (serXs (emitOps p)) →
      parse (streamDict dict raw) = some d') :
    graphOf parse unz [contentObj cfg z i p] = some [(contentId i, .stream d' (serXs (emitOps p)))] := by
  cases hc : cfg.compress with
  | true =>
    have := hp [(key "Filter", nm "FlateDecode")] (z (serXs (emitOps p))) (by simp [contentObj, hc])
    simp only [key, nm, ascii] at this
    simp [graphOf, contentObj, hc, hasFlate, dictGet, key, nm, ascii, hz]
    simp at this
    rw [this]
  | false =>
    have := hp [] (serXs (emitOps p)) (by simp [contentObj, hc])
    simp [graphOf, contentObj, hc, this, hasFlate, dictGet]

example : ∀ c : Bytes, (fun r => some (r.drop 1)) ((fun c => 0 :: c) c) = some c := by intro c; rfl

/-! ## composition: reading the written objects -/

theorem toR_content (cfg : Cfg) (z : Bytes → Bytes) (j : Nat) (p : PageD) :
    ∃ D, (toR (contentObj cfg z j p)).2 = .stream D (serXs (emitOps p)) := by
  cases hc : cfg.compress <;> simp [toR, contentObj, hc]

theorem catalog_pages (m : Nat) : ∃ kvs', rb (catalogDict m) = .dict kvs' ∧
    dget (Obj.dict kvs') "Pages" = some (.ref 2 0) := by
  obtain ⟨kvs', hk⟩ := rb_dict_isDict [(key "Type", nm "Catalog"), (key "Pages", .ref 2 0), (key "Metadata", .ref m 0)]
  refine ⟨kvs', hk, ?_⟩
  rw [← hk, dget_rb_dict _ (by simp [keysOf, key, ascii])]
  simp [dictGet, key, ascii, rb_ref]

theorem readPages_written (g : Graph) (ps : List PageD) : ∀ i,
    (∀ j p, ps[j]? = some p → g.get (pageId (i + j)) = some (.plain (rb (pageDict (i + j) p []))) ∧
      ∃ D, g.get (contentId (i + j)) = some (.stream D (serXs (emitOps p)))) →
    (∀ p ∈ ps, imagesOf p.ops = [] ∧
      Model.CT.parseContent (serXs (emitOps p)) = some ((emitOps p).map expectParsed)) →
    readPages g i ((List.range' i ps.length).map pageId) = .ok (ps.map normPage) := by
  induction ps with
  | nil => intro i _ _; rfl
  | cons p r ih =>
    intro i hg hp
    obtain ⟨h1, D, h2⟩ := hg 0 p rfl
    obtain ⟨hni, hc⟩ := hp p (by simp)
    have hpage := readPage_written g i p D hni h1 h2 hc
    have hrest := ih (i + 1)
      (fun j q hj => by
        have := hg (j + 1) q (by simpa using hj)
        have e : i + (j + 1) = i + 1 + j := by omega
        rw [e] at this; exact this)
      (fun q hq => hp q (by simp [hq]))
    simp only [List.length_cons, List.range'_succ, List.map_cons, readPages, hpage, hrest]

/- FULL (object level): for every document `d`, configuration `cfg`, codec `z`/`unz`:
     `readDoc (graph of (buildObjects cfg z extra d)) 1 (some 3) = .ok (norm d extra)`
   and, with `C02_emit_is_call_order`, the operators of every page are `(specOps p).map expectParsed`. -/

/-- PARTIAL composition at the level of objects.  What a faithful object parser (C09:
    `rb = readBack ∘ sortDicts`) and the Flate decoder make of the objects `write_document`
    builds, read by the library's document reader (catalog → `/Pages` → `flatten_page_tree` →
    pages → content parser), is the authored page list: same number of pages, in order, each with
    its MediaBox, rotation, and the operators of its authoring calls in call order.
    Named hypotheses, nothing else is assumed:
    * `hz`   — Flate: the decoder inverts the encoder (`flate2`, tied per run by the code book);
    * `hc`   — content round trip of each page's operators (the statement of C21,
               `C21_roundtrip_partial`, for the operator families it covers; dash arrays are
               outside it; the bridge from C21's `serializeOps fmt` to `serXs` is not formalised;
               evaluated by the driver on every page);
    * `hni`  — no images on the pages (image ids / the `/XObject` dictionary are not composed);
    * `hmax` — at most `MAX_PAGES` pages (the reader's flat index stops there).
    Info strings are not part of the conclusion (`∃ info`). -/
theorem C02_read_objects_partial (cfg : Cfg) (z : Bytes → Bytes) (unz : Bytes → Option Bytes)
    (extra : List (Bytes × Obj)) (d : Doc)
    (hz : ∀ c, unz (z c) = some c)
    (hni : ∀ p ∈ d.pages, imagesOf p.ops = [])
    (hc : ∀ p ∈ d.pages, Model.CT.parseContent (serXs (emitOps p)) = some ((emitOps p).map expectParsed))
    (hmax : d.pages.length ≤ C18.MAX_PAGES) :
    ∃ g info, graphOf (fun v => some (rb v)) unz (buildObjects cfg z extra d) = some g ∧
      readDoc g 1 (some 3) = .ok { pages := d.pages.map normPage, info := info } := by
  refine ⟨(buildObjects cfg z extra d).map toR, readInfo ((buildObjects cfg z extra d).map toR) (some 3),
    graphOf_eq unz _ (streamOK_buildObjects cfg z unz hz extra d hni), ?_⟩
  obtain ⟨f2, f1, fp⟩ := find_build cfg z extra d hni
  generalize hg' : ((buildObjects cfg z extra d).map toR : Graph) = g
  have hg := hg'.symm
  have g1 : Graph.get g 1 = some (.plain (rb (catalogDict (xmpIdOf d)))) := by
    rw [hg, get_map_toR, f1]; rfl
  have g2 : Graph.get g 2 = some (.plain (rb (pagesDict d.pages.length))) := by
    rw [hg, get_map_toR, f2]; rfl
  have gp : ∀ j p, d.pages[j]? = some p →
      Graph.get g (pageId (0 + j)) = some (.plain (rb (pageDict (0 + j) p []))) ∧
      ∃ D, Graph.get g (contentId (0 + j)) = some (.stream D (serXs (emitOps p))) := by
    intro j p hj
    obtain ⟨a, b⟩ := fp j p hj
    obtain ⟨D, hD⟩ := toR_content cfg z j p
    simp only [Nat.zero_add]
    refine ⟨by rw [hg, get_map_toR, a]; rfl, D, by rw [hg, get_map_toR, b]; simp [hD]⟩
  obtain ⟨ckvs, hck, hcp⟩ := catalog_pages (xmpIdOf d)
  obtain ⟨pkvs, hpk⟩ := rb_dict_isDict (pagesKvs d.pages.length)
  have hpages := readPages_written g d.pages 0 gp (fun p hp => ⟨hni p hp, hc p hp⟩)
  have hcls : ∀ i < d.pages.length, C18.classify (c18Graph g) (pageId i) = .leaf := by
    intro i hi
    have hj : d.pages[i]? = some d.pages[i] := by simp [hi]
    have := (gp i _ hj).1
    simp only [Nat.zero_add] at this
    exact classify_page g i _ this
  obtain ⟨_, hkids⟩ := c18Dict_pages (g' := c18Graph g) d.pages.length
  have hflat : C18.flatten (c18Graph g) (c18Dict (rb (pagesDict d.pages.length))) =
      some ((List.range d.pages.length).map pageId) := by
    simp only [C18.flatten, hkids]
    exact C02_flatten_written_tree _ _ _ hcls hmax (by simp [C18.fuelBound])
  simp only [readDoc, g1, Option.bind, RObj.dict?, hck, hcp, resolveDict, resolve, g2,
    pagesDict_eq, hpk]
  rw [← hpk, ← pagesDict_eq, hflat]
  simp only [List.range_eq_range', hpages]

/-! ## composition: the file -/

theorem normPage_eq_observedPage (p : PageD) : normPage p = observedPage p := by
  simp [observedPage, normPage, C02_emit_is_call_order]

/- FULL: `∀ d cfg …, read fileGraph (write cfg z perm xmp version extra d) = .ok ⟨d.pages.map observedPage, info⟩`
   for the library's actual file reader `fileGraph`, with no hypothesis on `d`. -/

/-- `C02_read_write`, PARTIAL: every remaining hypothesis is named.
    For every document, every writer configuration (classic table / xref stream / object
    streams, compression on/off), every PDF version: reading the written file gives the authored
    pages — count, order, MediaBox, rotation, operators in CALL order with the authored operands.
    * `hFile` — the file layer: the reader's cross-reference reading + object parsing + stream
      decoding applied to the written bytes yields, for every written object, the value
      `rb = readBack ∘ sortDicts` of it under its number (and the decoded stream data).  This is
      the conjunction of C03 (`C03_classic_entries_point_at_objects`,
      `C03_xref_stream_entries_point_at_objects`, `C03_written_xref_stream_decodes`,
      `C03_compressed_entry_names_member`, `C03_stream_length`: every entry leads to its object,
      in every configuration) and C09 (`C09_lib_roundtrip_partial`: `parseObj (ser v ++ rest) =
      ok (rb v, rest)` under `SafeLib`); it is NOT composed here (no model of the xref reader in
      this property) and is evaluated on every generated file by the driver;
    * `hz`, `hc`, `hni`, `hmax` — as in `C02_read_objects_partial` (Flate inverse; content round
      trip = C21's statement; no images; at most `MAX_PAGES` pages).
    Proved inside: object ids and order of `write_document`, every dictionary lookup through
    sorting and parsing (`dget_rb_dict`), `/Kids` order, `flatten_page_tree` on the written tree
    (C18), page attribute reading, content data per configuration, and call order
    (`C02_emit_is_call_order`). -/
theorem C02_read_write_partial (cfg : Cfg) (z : Bytes → Bytes) (unz : Bytes → Option Bytes)
    (perm : List C03.DictE → List C03.DictE) (xmp : C03.Body) (version : Bytes)
    (extra : List (Bytes × Obj)) (d : Doc) (fileGraph : Bytes → Option Graph)
    (hFile : fileGraph (write cfg z perm xmp version extra d) =
      graphOf (fun v => some (rb v)) unz (buildObjects cfg z extra d))
    (hz : ∀ c, unz (z c) = some c)
    (hni : ∀ p ∈ d.pages, imagesOf p.ops = [])
    (hc : ∀ p ∈ d.pages, Model.CT.parseContent (serXs (specOps p)) = some ((specOps p).map expectParsed))
    (hmax : d.pages.length ≤ C18.MAX_PAGES) :
    ∃ info, read fileGraph (write cfg z perm xmp version extra d) =
      .ok { pages := d.pages.map observedPage, info := info } := by
  obtain ⟨g, info, hg, hr⟩ := C02_read_objects_partial cfg z unz extra d hz hni
    (fun p hp => by simpa [C02_emit_is_call_order] using hc p hp) hmax
  refine ⟨info, ?_⟩
  simp only [read, hFile, hg, hr]
  congr 2
  exact List.map_congr_left (fun p _ => normPage_eq_observedPage p)

/-- non-vacuity of the document-side hypotheses: no images, and the content round trip holds
    (by evaluation) for a page with a path -/
example : let d : Doc := ⟨[], [⟨[49, 48, 48], [50, 48, 48], [.save, .moveTo [49] [50]]⟩]⟩
    (∀ p ∈ d.pages, imagesOf p.ops = []) ∧
    (∀ p ∈ d.pages, Model.CT.parseContent (serXs (specOps p)) = some ((specOps p).map expectParsed)) ∧
    d.pages.length ≤ C18.MAX_PAGES := by
  intro d
  refine ⟨?_, ?_, by decide⟩
  · intro p hp
    have : p = ⟨[49, 48, 48], [50, 48, 48], [.save, .moveTo [49] [50]]⟩ := by simpa [d] using hp
    subst this; rfl
  · intro p hp
    have : p = ⟨[49, 48, 48], [50, 48, 48], [.save, .moveTo [49] [50]]⟩ := by simpa [d] using hp
    subst this; rfl

end OxiVerif.C02
