import OxiVerif.Lemmas.C19
set_option linter.unusedSimpArgs false
set_option linter.unusedVariables false
/-!
# C19 — damaged cross-reference data is reconstructed faithfully

Property theorems only (helpers: `Lemmas/C19.lean`).  Everything is stated for **all** byte
strings (`Bytes = List Nat`), all chunk sizes, all header lists — no length bound.

What the model is (`Model/C19.lean`): `scanFull` = `scan_window_for_headers` over the whole file,
`scanChunked k` = `scan_object_headers_chunked(reader, k)` (carry, `CARRY_CAP`, final sort),
`recoveredEntries` = `add_headers_latest_wins` on the empty table, `parseObjHeader` =
`parse_obj_header_bytes`.  The reference side: `linesGo` (the lines of a byte string, CR and LF
each end one), `firstHit` (the first prefix of a line that ends in `obj` and parses as `N G obj`),
`specHeaders` (one header per line that has such a prefix, at the line's start offset).

/- FULL (the property): for every valid single-revision file `f` without object streams with true
   table `T` (number ↦ offset of its `N G obj`), and every damage `d` of the cross-reference
   section / `startxref`:  the reader opens `d f` and resolves every object to its value in `f`;
   at the level modelled here:  `recoveredEntries (scanChunked 65536 (d f)) = T`.            -/

The FULL statement is false of the current code: the scan does not know where stream data,
strings and comments are, so a line inside them that reads `N G obj` is reported as a header and
— being later in the file — replaces the true one (`C19_witness_false_header_in_stream`,
known finding C19-F1).  A header whose keyword lies more than `CARRY_CAP` bytes after its line start
is missed by the chunked scan (`C19_witness_chunk_long_header`).  Proved instead, unconditionally: the scanner is
*exactly* "one header per line with a parsing `… obj` prefix" (soundness + completeness + order),
the chunked scan equals the whole-file scan whenever no line exceeds `CARRY_CAP`, latest (highest
offset) wins, and nothing after the last object line that contains no `j` byte — every classic
cross-reference section, trailer, `startxref`, however damaged — influences the result.
-/
namespace OxiVerif.C19

/-! ## 1. the scanner is exactly "one header per line" -/

/-- refinement: the whole-file scan = the reference description -/
theorem C19_scan_refines_lines (f : Bytes) : scanFull f = specHeaders f 0 := scanFull_spec f

example : scanFull [49, 32, 48, 32, 111, 98, 106, 13, 120, 10, 32, 50, 9, 51, 32, 111, 98, 106, 60, 60] =
    [⟨1, 0, 0⟩, ⟨2, 3, 10⟩] := by decide

/-- soundness: every reported header stands at the start of a line of the file (offset 0 or just
    after a CR/LF), and the reported numbers are what `parse_obj_header_bytes` reads from the
    shortest prefix of that line that ends in `obj` and parses -/
theorem C19_scan_sound (f : Bytes) (h : Header) (hh : h ∈ scanFull f) :
    ∃ a line b k, f = a ++ line ++ b ∧ h.off = a.length ∧
      (a = [] ∨ ∃ a' e, a = a' ++ [e] ∧ isEol e = true) ∧ (∀ c ∈ line, isEol c = false) ∧
      (b = [] ∨ ∃ e b', b = e :: b' ∧ isEol e = true) ∧
      0 < k ∧ k ≤ line.length ∧ Hit (line.take k) (h.num, h.gen) ∧
      ∀ k', 0 < k' → k' < k → ∀ y, ¬ Hit (line.take k') y := by
  rw [scanFull_spec] at hh
  unfold specHeaders at hh
  obtain ⟨x, hx, hxh⟩ := List.mem_filterMap.1 hh
  obtain ⟨a, b, h1, h2, h3, h4, h5⟩ := linesGo_mem f 0 [] (by simp) x hx
  unfold lineHeader at hxh
  rcases hf : firstHit [] x.2 with _ | ⟨n, g⟩
  · simp [hf] at hxh
  · simp [hf] at hxh
    obtain ⟨k, hk0, hkl, hhit, hmin⟩ := firstHit_sound x.2 [] (n, g) hf
    refine ⟨a, x.2, b, k, by simpa using h1, by rw [← hxh]; simpa using h2, h3, h4, h5, hk0, hkl, ?_, ?_⟩
    · rw [← hxh]; simpa using hhit
    · intro k' h0 hlt y hy
      exact hmin k' h0 hlt y (by simpa using hy)

example : (⟨2, 3, 10⟩ : Header) ∈
    scanFull [49, 32, 48, 32, 111, 98, 106, 13, 120, 10, 32, 50, 9, 51, 32, 111, 98, 106, 60, 60] := by decide

/-- completeness: every line of the file that has a prefix ending in `obj` which parses as
    `N G obj` is reported, at its start offset, with the numbers of its first such prefix — whatever
    the line endings (CR, LF, CRLF), leading blanks, tabs, leading zeros, a `+` sign -/
theorem C19_scan_complete (a line b : Bytes) (k : Nat) (x : Nat × Nat)
    (ha : a = [] ∨ ∃ a' e, a = a' ++ [e] ∧ isEol e = true) (hl : ∀ c ∈ line, isEol c = false)
    (hb : b = [] ∨ ∃ e b', b = e :: b' ∧ isEol e = true)
    (hk0 : 0 < k) (hkl : k ≤ line.length) (hhit : Hit (line.take k) x) :
    ∃ h ∈ scanFull (a ++ line ++ b), h.off = a.length ∧
      ∃ k', 0 < k' ∧ k' ≤ k ∧ Hit (line.take k') (h.num, h.gen) := by
  rw [scanFull_spec]
  have hm := linesGo_complete a line b 0 ha hl hb
  have hs := firstHit_complete line [] k x hk0 hkl (by simpa using hhit)
  rcases hf : firstHit [] line with _ | ⟨n, g⟩
  · rw [hf] at hs; cases hs
  · obtain ⟨k', hk0', hkl', hhit', hmin⟩ := firstHit_sound line [] (n, g) hf
    refine ⟨⟨n, g, 0 + a.length⟩, ?_, by simp, k', hk0', ?_, by simpa using hhit'⟩
    · unfold specHeaders
      refine List.mem_filterMap.2 ⟨(0 + a.length, line), hm, ?_⟩
      unfold lineHeader; simp [hf]
    · rcases Nat.lt_or_ge k k' with hlt | hge
      · exact absurd (by simpa using hhit) (hmin k hk0 hlt x)
      · exact hge

example : Hit ([32, 50, 9, 51, 32, 111, 98, 106, 60, 60].take 8) (2, 3) :=
  ⟨⟨[32, 50, 9, 51, 32], by decide⟩, by decide⟩

/-- one header per line start, in file order -/
theorem C19_scan_ascending (f : Bytes) : (scanFull f).Pairwise (fun a b => a.off < b.off) := by
  rw [scanFull_spec]; exact specHeaders_pairwise f 0

/-- hence the final `sort_by_key(offset)` changes nothing on a whole-file scan -/
theorem C19_sort_is_identity (f : Bytes) : sortByOff (scanFull f) = scanFull f :=
  sortByOff_sorted _ (C19_scan_ascending f)

example : sortByOff [⟨5, 0, 40⟩, ⟨1, 0, 9⟩] = [⟨1, 0, 9⟩, ⟨5, 0, 40⟩] := by decide

/-- `abs < 4 → continue` in `scan_window_for_headers` never changes the result: a line that
    parses as a header has at least seven bytes -/
theorem C19_short_prefix_never_parses (pre : Bytes) (h : pre.length < 4) :
    parseObjHeader (pre.reverse ++ kwObj) = none := parse_short_none pre h

example : parseObjHeader ([32, 48, 32, 49].reverse ++ kwObj) = some (1, 0) := by decide

/-! ## 2. reading in chunks -/

/-- chunk invariance: for every chunk size (0 is raised to 1 as in the code) and every carry
    cap, if no line of the file is longer than the cap, the chunked scan returns exactly the
    whole-file scan.  With the code's constants: `cap = CARRY_CAP = 1024`. -/
theorem C19_chunk_invariance (cap k : Nat) (f : Bytes) (hb : LinesBounded cap f) :
    sortByOff (scanChunkedRaw cap k f) = scanFull f := by
  rw [scanChunkedRaw_eq cap k f hb]; exact C19_sort_is_identity f

theorem C19_chunk_invariance_code (k : Nat) (f : Bytes) (hb : LinesBounded CARRY_CAP f) :
    scanChunked k f = scanFull f := C19_chunk_invariance CARRY_CAP k f hb

example : LinesBounded CARRY_CAP [49, 32, 48, 32, 111, 98, 106, 10, 60, 60, 62, 62] :=
  linesBounded_of_short _ _ (by decide)

example : scanChunked 3 [49, 32, 48, 32, 111, 98, 106, 10, 60, 60, 62, 62] = [⟨1, 0, 0⟩] := by decide

/- FULL: ∀ k f, scanChunked k f = scanFull f   (the doc comment of `scan_object_headers`:
   "Behaviourally equivalent to a full-buffer scan"). -/

/-- a comment line of 1032 bytes `%AAAAAA 7 0 obj␣␣␣…`, chunk size 1032: the carry is cut
    1024 bytes before the end of the window, which is just before `7 0 obj`. -/
def longLine : Bytes :=
  [37, 65, 65, 65, 65, 65, 65, 32, 55, 32, 48, 32, 111, 98, 106] ++ List.replicate 1017 32

/-- regression statement (the loop as it was before the `starts_mid_line` repair): the next window
    took the cut for a line start and reported object 7 at offset 8; the whole-file scan reports
    nothing (the line starts with `%AAAAAA`). -/
theorem C19_regression_chunk_variance_old :
    scanChunkedOld 1032 longLine = [⟨7, 0, 8⟩] ∧ scanFull longLine = [] := by
  constructor <;> decide +kernel

/-- the repaired loop agrees with the whole-file scan on that input -/
theorem C19_chunk_repaired_on_witness : scanChunked 1032 longLine = scanFull longLine := by
  decide +kernel

/-- `1`, 1031 blanks, `0 obj`: a header whose keyword lies more than `CARRY_CAP` bytes after the
    start of its line -/
def longHeader : Bytes := [49] ++ List.replicate 1031 32 ++ [48, 32, 111, 98, 106]

/-- what remains of the FULL statement's failure after the repair: a bounded carry cannot hold a
    header line whose `obj` comes more than `CARRY_CAP` bytes after the line start — the chunked
    scan misses it, the whole-file scan reports it (hence `LinesBounded` in `C19_chunk_invariance`
    is weakened only to "no header prefix longer than the cap", not dropped) -/
theorem C19_witness_chunk_long_header :
    scanChunked 1032 longHeader = [] ∧ scanFull longHeader = [⟨1, 0, 0⟩] := by
  constructor <;> decide +kernel

theorem C19_witness_chunk_variance' : ¬ (∀ k f, scanChunked k f = scanFull f) := by
  intro h
  have := h 1032 longHeader
  rw [C19_witness_chunk_long_header.1, C19_witness_chunk_long_header.2] at this
  cases this

/-! ## 3. latest wins -/

/-- `add_headers_latest_wins` on the empty table: object `n` resolves to the LAST header with
    that number in the list handed over (for any list) -/
theorem C19_latest_wins (hs : List Header) (n : Nat) :
    lookup n (recoveredEntries hs) = (lastNum n hs).map fun h => (h.num, h.off, h.gen) := by
  unfold recoveredEntries
  rw [lookup_foldl_upsert]
  rcases lastNum n hs with _ | h <;> simp [lookup]

/-- on a scan result: the recovered offset of object `n` is the HIGHEST offset at which a header
    line for `n` was found -/
theorem C19_recovered_is_highest_offset (f : Bytes) (n off g : Nat)
    (h : lookup n (recoveredEntries (scanFull f)) = some (n, off, g)) :
    (⟨n, g, off⟩ : Header) ∈ scanFull f ∧ ∀ y ∈ scanFull f, y.num = n → y.off ≤ off := by
  rw [C19_latest_wins] at h
  rcases hl : lastNum n (scanFull f) with _ | x
  · rw [hl] at h; cases h
  · rw [hl] at h
    simp at h
    obtain ⟨h1, h2, h3⟩ := lastNum_spec n _ x hl (C19_scan_ascending f)
    obtain ⟨e1, e2, e3⟩ := h
    have : x = ⟨n, g, off⟩ := by cases x; simp_all
    rw [← this]
    refine ⟨h1, ?_⟩
    intro y hy hyn
    have := h3 y hy hyn
    omega

example : lookup 1 (recoveredEntries [⟨1, 0, 9⟩, ⟨2, 0, 58⟩, ⟨1, 0, 103⟩]) = some (1, 103, 0) := by decide

/-! ## 4. the damaged cross-reference section does not matter -/

/-- the scan of `body ++ tail`, `body` ending with an end-of-line, is the scan of `body` followed
    by the headers of `tail` (offsets ≥ `body.length`): nothing in the tail changes what is found
    in the body -/
theorem C19_scan_append (body' : Bytes) (e : Nat) (he : isEol e = true) (t : Bytes) :
    scanFull (body' ++ [e] ++ t) = scanFull (body' ++ [e]) ++ specHeaders t (body'.length + 1) := by
  rw [scanFull_spec, scanFull_spec]
  unfold specHeaders
  have e1 : body' ++ [e] ++ t = body' ++ e :: t := by simp
  have e2 : body' ++ [e] = body' ++ e :: [] := by simp
  rw [e1, e2, linesGo_append_eol _ _ he, linesGo_append_eol _ _ he]
  simp only [List.filterMap_append, List.length_nil, Nat.add_zero, Nat.zero_add]
  congr 1
  simp [linesGo, lineHeader, firstHit]

/-- independence of the damaged cross-reference data: two files with the same body (ending with
    an end-of-line) and arbitrary tails without a `j` byte give the same scan, the same table -/
theorem C19_independent_of_xref_section (body' : Bytes) (e : Nat) (he : isEol e = true) (t1 t2 : Bytes)
    (h1 : ∀ c ∈ t1, c ≠ 106) (h2 : ∀ c ∈ t2, c ≠ 106) :
    scanFull (body' ++ [e] ++ t1) = scanFull (body' ++ [e] ++ t2) ∧
    recoveredEntries (scanFull (body' ++ [e] ++ t1)) = recoveredEntries (scanFull (body' ++ [e])) := by
  rw [C19_scan_append _ _ he, C19_scan_append _ _ he, specHeaders_no_j _ _ h1, specHeaders_no_j _ _ h2]
  simp

-- "xref\n0 2\n0000000000 65535 f \n0000000009 00000 n \ntrailer\n<< /Size 2 /Root 1 0 R >>\nstartxref\n17\n%%EOF\n"
example : ∀ c ∈ [120, 114, 101, 102, 10, 48, 32, 50, 10, 48, 48, 48, 48, 48, 48, 48, 48, 48, 48, 32, 54, 53, 53, 51,
    53, 32, 102, 32, 10, 48, 48, 48, 48, 48, 48, 48, 48, 48, 57, 32, 48, 48, 48, 48, 48, 32, 110, 32, 10, 116, 114,
    97, 105, 108, 101, 114, 10, 60, 60, 32, 47, 83, 105, 122, 101, 32, 50, 32, 47, 82, 111, 111, 116, 32, 49, 32,
    48, 32, 82, 32, 62, 62, 10, 115, 116, 97, 114, 116, 120, 114, 101, 102, 10, 49, 55, 10, 37, 37, 69, 79, 70, 10],
    c ≠ 106 := by decide

/-! ## 5. the deviation: data that reads like a header -/

/-- `%PDF-1.4 / 1 0 obj << /Type /Catalog /Pages 2 0 R >> endobj / 2 0 obj << /Length 21 >> stream
    BT (x) Tj ET ⏎ 1 0 obj ⏎ ⏎ endstream endobj` — the stream data (bytes 90 … 110) contains the
    line `1 0 obj` -/
def witnessFile : Bytes :=
  [37, 80, 68, 70, 45, 49, 46, 52, 10, 49, 32, 48, 32, 111, 98, 106, 10, 60, 60, 32, 47, 84, 121, 112, 101, 32, 47,
   67, 97, 116, 97, 108, 111, 103, 32, 47, 80, 97, 103, 101, 115, 32, 50, 32, 48, 32, 82, 32, 62, 62, 10, 101, 110,
   100, 111, 98, 106, 10, 50, 32, 48, 32, 111, 98, 106, 10, 60, 60, 32, 47, 76, 101, 110, 103, 116, 104, 32, 50, 49,
   32, 62, 62, 10, 115, 116, 114, 101, 97, 109, 10, 66, 84, 32, 40, 120, 41, 32, 84, 106, 32, 69, 84, 10, 49, 32, 48,
   32, 111, 98, 106, 10, 10, 101, 110, 100, 115, 116, 114, 101, 97, 109, 10, 101, 110, 100, 111, 98, 106, 10]

/-- the true table of `witnessFile` is 1 ↦ 9, 2 ↦ 58; the recovery table sends object 1 to
    offset 103, inside the stream data of object 2 -/
theorem C19_witness_false_header_in_stream :
    recoveredEntries (scanChunked 65536 witnessFile) = [(1, 103, 0), (2, 58, 0)] ∧
    recoveredEntries (scanChunked 65536 witnessFile) ≠ [(1, 9, 0), (2, 58, 0)] := by
  constructor <;> decide +kernel

/-- partial form of the FULL statement: when the lines of the body that parse as headers are
    exactly the true headers `T` (ascending by offset — "no false header"), the reconstructed table
    of the damaged file is the latest-wins table of `T`, for every tail without a `j` byte and
    every chunk size, provided no line is longer than `CARRY_CAP` -/
theorem C19_recovery_faithful_partial (body' : Bytes) (e : Nat) (he : isEol e = true) (t : Bytes) (k : Nat)
    (T : List Header) (hT : specHeaders (body' ++ [e]) 0 = T) (ht : ∀ c ∈ t, c ≠ 106)
    (hb : LinesBounded CARRY_CAP (body' ++ [e] ++ t)) :
    recoveredEntries (scanChunked k (body' ++ [e] ++ t)) = recoveredEntries T := by
  rw [C19_chunk_invariance_code k _ hb, (C19_independent_of_xref_section body' e he t [] ht (by simp)).2,
    scanFull_spec, hT]

example : specHeaders ([49, 32, 48, 32, 111, 98, 106, 10, 60, 60, 62, 62, 10, 101, 110, 100, 111, 98, 106] ++ [10]) 0 =
    [⟨1, 0, 0⟩] := by decide

/-! ## 5b. a closed-form class of files instantiating the hypothesis -/

/-- files written by the reference layout: a header without `j`, then objects
    `N G obj⏎ body ⏎endobj⏎` whose numbers are digit strings within `u32`/`u16` and whose bodies
    contain no line that parses as a header (`Obj.WF`), then ANY tail without `j` (the cross-reference
    section, trailer, `startxref` — intact, damaged or absent).  For every chunk size the scan
    returns exactly the true headers at their true offsets. -/
theorem C19_scan_exact_on_layout (hdr : Bytes) (objs : List Obj) (tail : Bytes) (k : Nat)
    (hh : ∀ c ∈ hdr, c ≠ 106) (wf : ∀ o ∈ objs, o.WF) (ht : ∀ c ∈ tail, c ≠ 106)
    (hb : LinesBounded CARRY_CAP (layout hdr objs ++ tail)) :
    scanChunked k (layout hdr objs ++ tail) = trueHeaders (hdr.length + 1) objs := by
  rw [C19_chunk_invariance_code k _ hb, scanFull_spec]
  have e : layout hdr objs ++ tail = hdr ++ 10 :: ((objs.map objBytes).flatten ++ tail) := by
    simp [layout]
  rw [e, specHeaders_append_eol _ _ (by decide), specHeaders_no_j _ _ hh, specHeaders_objs objs wf,
    specHeaders_no_j _ _ ht]
  simp

/-- hence the reconstructed table of every damaged version is the table of the true headers
    (FULL statement at the level of the table, for this class) -/
theorem C19_recovery_faithful_layout (hdr : Bytes) (objs : List Obj) (tail : Bytes) (k : Nat)
    (hh : ∀ c ∈ hdr, c ≠ 106) (wf : ∀ o ∈ objs, o.WF) (ht : ∀ c ∈ tail, c ≠ 106)
    (hb : LinesBounded CARRY_CAP (layout hdr objs ++ tail)) :
    recoveredEntries (scanChunked k (layout hdr objs ++ tail)) =
      recoveredEntries (trueHeaders (hdr.length + 1) objs) := by
  rw [C19_scan_exact_on_layout hdr objs tail k hh wf ht hb]

/-- a body without the byte `j` is admissible (dictionaries, arrays, numbers, most streams) -/
theorem noHeaderLine_of_no_j (b : Bytes) (h : ∀ c ∈ b, c ≠ 106) : NoHeaderLine b :=
  fun base => specHeaders_no_j b base h

-- `1 0 obj⏎<< /Type /Catalog >>⏎endobj⏎` is in the class
example : (⟨[49], [48], [60, 60, 32, 47, 84, 121, 112, 101, 32, 47, 67, 97, 116, 97, 108, 111, 103, 32, 62, 62]⟩ : Obj).WF :=
  ⟨⟨by decide, by decide⟩, ⟨by decide, by decide⟩, by decide, by decide, noHeaderLine_of_no_j _ (by decide)⟩

example : trueHeaders 9 [⟨[49], [48], [60, 60, 62, 62]⟩, ⟨[49, 50], [48], [40, 120, 41]⟩] =
    [⟨1, 0, 9⟩, ⟨12, 0, 29⟩] := by decide

/-! ## 6. further deviations demonstrated on the real code (known findings C19-F3, C19-F4) -/

/-- `1 0 obj … endobj 3 0 obj …`: the header of object 3 follows `endobj` on the same line (valid:
    only white space is required between tokens) -/
def inlineFile : Bytes :=
  [49, 32, 48, 32, 111, 98, 106, 10, 60, 60, 32, 47, 65, 32, 49, 32, 62, 62, 10, 101, 110, 100, 111, 98, 106, 32, 51,
   32, 48, 32, 111, 98, 106, 10, 60, 60, 32, 47, 66, 32, 50, 32, 62, 62, 10, 101, 110, 100, 111, 98, 106, 10]

/-- the line-based scan does not report object 3 — completeness holds for header LINES
    (`C19_scan_complete`), not for every top-level object header of a valid file -/
theorem C19_witness_inline_header_missed : scanChunked 65536 inlineFile = [⟨1, 0, 0⟩] := by decide +kernel

/-- the damaged file of `corpus/C19/f3_wrong_root.req`: catalog = object 4; object 3 is a page content
    stream whose text shows `/Type /Catalog` -/
def textCatalogFile : Bytes :=
  [37, 80, 68, 70, 45, 49, 46, 52, 10, 49, 32, 48, 32, 111, 98, 106, 10, 60, 60, 32, 47, 84, 121, 112, 101, 32, 47, 80,
   97, 103, 101, 115, 32, 47, 75, 105, 100, 115, 32, 91, 50, 32, 48, 32, 82, 93, 32, 47, 67, 111, 117, 110, 116, 32,
   49, 32, 62, 62, 10, 101, 110, 100, 111, 98, 106, 10, 50, 32, 48, 32, 111, 98, 106, 10, 60, 60, 32, 47, 84, 121, 112,
   101, 32, 47, 80, 97, 103, 101, 32, 47, 80, 97, 114, 101, 110, 116, 32, 49, 32, 48, 32, 82, 32, 47, 77, 101, 100,
   105, 97, 66, 111, 120, 32, 91, 48, 32, 48, 32, 54, 49, 50, 32, 55, 57, 50, 93, 32, 47, 67, 111, 110, 116, 101, 110,
   116, 115, 32, 51, 32, 48, 32, 82, 32, 62, 62, 10, 101, 110, 100, 111, 98, 106, 10, 51, 32, 48, 32, 111, 98, 106, 10,
   60, 60, 32, 47, 76, 101, 110, 103, 116, 104, 32, 53, 56, 32, 62, 62, 10, 115, 116, 114, 101, 97, 109, 10, 66, 84,
   32, 47, 70, 49, 32, 49, 50, 32, 84, 102, 32, 55, 50, 32, 55, 48, 48, 32, 84, 100, 32, 40, 116, 104, 101, 32, 114,
   111, 111, 116, 32, 104, 97, 115, 32, 47, 84, 121, 112, 101, 32, 47, 67, 97, 116, 97, 108, 111, 103, 41, 32, 84, 106,
   32, 69, 84, 10, 101, 110, 100, 115, 116, 114, 101, 97, 109, 10, 101, 110, 100, 111, 98, 106, 10, 52, 32, 48, 32,
   111, 98, 106, 10, 60, 60, 32, 47, 84, 121, 112, 101, 32, 47, 67, 97, 116, 97, 108, 111, 103, 32, 47, 80, 97, 103,
   101, 115, 32, 49, 32, 48, 32, 82, 32, 62, 62, 10, 101, 110, 100, 111, 98, 106, 10, 120, 114, 101, 102, 10, 48, 32,
   53, 10, 48, 48, 48, 48, 48, 48, 48, 48, 48, 48, 32, 54, 53, 53, 51, 53, 32, 102, 32, 10, 48, 48, 48, 48, 48, 48, 48,
   48, 48, 57, 32, 48, 48, 48, 48, 48, 32, 110, 32, 10, 48, 48, 48, 48, 48, 48, 48, 48, 54, 54, 32, 48, 48, 48, 48, 48,
   32, 110, 32, 10, 48, 48, 48, 48, 48, 48, 48, 49, 53, 51, 32, 48, 48, 48, 48, 48, 32, 110, 32, 10, 48, 48, 48, 48,
   48, 48, 48, 50, 54, 49, 32, 48, 48, 48, 48, 48, 32, 110, 32, 10, 116, 114, 97, 105, 108, 101, 114, 10, 60, 60, 32,
   47, 83, 105, 122, 101, 32, 53, 32, 47, 82, 111, 111, 116, 32, 52, 32, 48, 32, 82, 32, 62, 62, 10, 115, 116, 97, 114,
   116, 88, 114, 101, 102, 10, 51, 49, 48, 10, 37, 37, 69, 79, 70, 10]

/-- regression statement (the search as it was before the repair: first literal `N 0 obj` anywhere
    in the window, bytes up to the first `endobj` including stream data): it picked the content
    stream, not the catalog -/
theorem C19_regression_catalog_search_text_match_old :
    findRootOld textCatalogFile (recoveredEntries (scanChunked 65536 textCatalogFile)) = some 3 ∧
    lookup 4 (recoveredEntries (scanChunked 65536 textCatalogFile)) = some (4, 261, 0) := by
  constructor <;> decide +kernel

/-- the repaired search (header anchored at the entry's offset, dictionary part only) finds the
    catalog -/
theorem C19_catalog_search_repaired_on_witness :
    findRoot textCatalogFile (recoveredEntries (scanChunked 65536 textCatalogFile)) = some 4 := by
  decide +kernel

/-- `read_object_content` is anchored: it answers only when the bytes at the entry's offset, up to
    the first `obj` keyword, parse as the header of that very object number — never on a header
    further down the window (`1 0 obj` inside `11 0 obj`) -/
theorem C19_read_object_anchored (f : Bytes) (n off : Nat) (c : Bytes)
    (h : readObjectContent f n off = some c) :
    ∃ k g, findSub kwObj ((f.drop off).take 65536) 0 = some k ∧
      parseObjHeader (((f.drop off).take 65536).take (k + 3)) = some (n, g) := by
  unfold readObjectContent at h
  simp only at h
  rcases hk : findSub kwObj ((f.drop off).take 65536) 0 with _ | k
  · simp [hk] at h
  · simp only [hk] at h
    rcases hp : parseObjHeader (((f.drop off).take 65536).take (k + 3)) with _ | ⟨m, g⟩
    · simp [hp] at h
    · simp only [hp] at h
      by_cases hm : m = n
      · exact ⟨k, g, rfl, by rw [← hm]; exact hp⟩
      · simp [hm] at h

example : (readObjectContent textCatalogFile 4 261).isSome = true := by decide +kernel

end OxiVerif.C19
