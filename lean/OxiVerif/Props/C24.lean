import OxiVerif.Lemmas.C24
set_option linter.unusedSimpArgs false
/-!
# C24 — embedded raster images decode to the pixels that were supplied

Property theorems only (helpers in `Lemmas/C24.lean`).  `Model/C24.lean` transcribes
`png_decoder.rs` / `pdf_image.rs`; `Spec/C24Png.lean` is the reference PNG *encoder* (filtering per
PNG §9).  Bytes are naturals below 256; nothing below is bounded in image size, row length, number
of rows, `bpp` or choice of filter types.

/- FULL (the property):
   for every valid PNG description `d` (all colour types × bit depths × interlace × PLTE/tRNS)
     Image.fromPngData inflate d.encode = .ok img  ∧
     pixels denoted by `img.embed` (image XObject + SMask) = d.expectedPixels
   FALSE of the current code for: Adam7 input (`C24_witness_interlaced_rejected`), bit depths
   1/2/4 (`C24_witness_subbyte_rejected`, row length `width·⌈depth·channels/8⌉` instead of
   `⌈width·depth·channels/8⌉`), palette images (`C24_witness_palette_rejected`, 3 channels assumed),
   16-bit samples (`C24_witness_16bit_*`: BitsPerComponent 8 declared over 16-bit data, alpha split
   on 2/4-byte groups mixes channels), tRNS colour keys (`C24_witness_trns_dropped`).
   PROVED (`…_partial`): the statement for the layouts whose row length the code gets right —
   8-bit grey, RGB, grey+alpha, RGBA, non-interlaced — from the inflated scanline stream to the
   image/SMask sample bytes, for all sizes and all per-row filter choices; plus the general
   filter/unfilter inversion for every `bpp ≥ 0` and every row length. -/
-/
namespace OxiVerif.C24
open OxiVerif.Spec.C24Png (filterRow filterRows)

/-! ## filtering is inverted by the decoder, row by row -/

/-- One scanline, any filter type 0–4, any `bpp`, any previous scanline: the decoder's
`unfilter_row` undoes the reference filter. -/
theorem C24_unfilter_filter_row (ft bpp : Nat) (prev row : List Nat) (hft : ft ≤ 4)
    (hb : ∀ x ∈ row, x < 256) :
    unfilterRow ft (filterRow ft bpp prev row) prev bpp = some row := by
  unfold unfilterRow filterRow
  simp [hft, unfilterGo_filterGo ft bpp row prev [] [] hb]

example : unfilterRow 4 (filterRow 4 3 [9, 200, 31, 77, 5, 250] [1, 255, 3, 128, 0, 77])
    [9, 200, 31, 77, 5, 250] 3 = some [1, 255, 3, 128, 0, 77] :=
  C24_unfilter_filter_row 4 3 _ _ (by decide) (by decide)

/-- A filter-type byte above 4 is refused. -/
theorem C24_unknown_filter_rejected (ft bpp : Nat) (row prev : List Nat) (h : 4 < ft) :
    unfilterRow ft row prev bpp = none := by
  unfold unfilterRow; simp; omega

example : unfilterRow 5 [1] [0] 1 = none := C24_unknown_filter_rejected 5 1 _ _ (by decide)

/-- The whole scanline stream, **for the correct row length** `n` (every scanline has `n` bytes and
the decoder is run with `rowLen = n`): any number of rows, any per-row filter-type assignment. -/
theorem C24_unfilter_filter_image (bpp n : Nat) :
    ∀ (rows : List (List Nat)) (fts prev : List Nat), fts.length = rows.length →
      (∀ f ∈ fts, f ≤ 4) → (∀ r ∈ rows, r.length = n ∧ ∀ x ∈ r, x < 256) →
      decodeRows bpp n rows.length (filterRows bpp fts rows prev) prev = .ok rows.flatten := by
  intro rows
  induction rows with
  | nil => intro fts prev _ _ _; simp [decodeRows]
  | cons r rs ih =>
    intro fts prev hl hf hr
    cases fts with
    | nil => simp at hl
    | cons f fs =>
      have hrn := (hr r (by simp)).1
      have hrb := (hr r (by simp)).2
      have hfl : (filterRow f bpp prev r).length = n := by rw [filterRow_length, hrn]
      simp only [filterRows, List.length_cons, decodeRows, List.headD_cons, List.drop_succ_cons,
        List.drop_zero]
      have h1 : (filterRow f bpp prev r ++ filterRows bpp fs rs r).take n = filterRow f bpp prev r := by
        rw [List.take_append_of_le_length (by omega)]
        exact List.take_of_length_le (by omega)
      have h2 : (filterRow f bpp prev r ++ filterRows bpp fs rs r).drop n = filterRows bpp fs rs r := by
        rw [List.drop_append_of_le_length (by omega), List.drop_of_length_le (by omega)]
        simp
      simp only [h1, h2, C24_unfilter_filter_row f bpp prev r (hf f (by simp)) hrb,
        ih fs r (by simpa using hl) (fun g hg => hf g (by simp [hg]))
          (fun q hq => hr q (by simp [hq]))]
      simp

example : decodeRows 1 2 2 (filterRows 1 [3, 4] [[10, 250], [7, 9]] [0, 0]) [0, 0]
    = .ok [10, 250, 7, 9] :=
  C24_unfilter_filter_image 1 2 [[10, 250], [7, 9]] [3, 4] [0, 0] rfl (by decide) (by decide)

/-! ## alpha separation -/

/-- re-interleave colour and alpha bytes: `keep` colour bytes, one alpha byte, … -/
def interleave (keep : Nat) : List Nat → List Nat → List Nat
  | c, a :: as => c.take keep ++ a :: interleave keep (c.drop keep) as
  | _, [] => []

theorem interleave_pixels (keep : Nat) :
    ∀ px : List (List Nat), (∀ p ∈ px, p.length = keep + 1) →
      interleave keep (px.map (List.take keep)).flatten (px.map (List.drop keep)).flatten
        = px.flatten := by
  intro px
  induction px with
  | nil => intro _; simp [interleave]
  | cons p ps ih =>
    intro h
    have hp : p.length = keep + 1 := h p (by simp)
    obtain ⟨a, ha⟩ : ∃ a, p.drop keep = [a] := by
      have : (p.drop keep).length = 1 := by simp [hp]
      match hd : p.drop keep, this with
      | [a], _ => exact ⟨a, rfl⟩
    have htl : (p.take keep).length = keep := by simp [hp]
    simp only [List.map_cons, List.flatten_cons, ha, List.singleton_append, interleave]
    rw [List.take_append_of_le_length (by omega), List.take_of_length_le (by omega),
      List.drop_append_of_le_length (by omega), List.drop_of_length_le (by omega)]
    simp only [List.nil_append]
    rw [ih (fun q hq => h q (by simp [hq]))]
    have : p.take keep ++ a :: ps.flatten = (p.take keep ++ p.drop keep) ++ ps.flatten := by
      rw [ha]; simp
    rw [this, List.take_append_drop]

/-- 8-bit RGBA: `separate_alpha` returns exactly the colour bytes and the alpha bytes of every
pixel, in order — for any number of pixels. -/
theorem C24_separateAlpha_rgba8 (px : List (List Nat)) (h : ∀ p ∈ px, p.length = 4) :
    separateAlpha .rgbAlpha px.flatten =
      ((px.map (List.take 3)).flatten, some (px.map (List.drop 3)).flatten) := by
  unfold separateAlpha
  simp only
  rw [splitChunks_flatten 4 3 (by decide) px _ h
    (by rw [flatten_length_const 4 px h]; omega)]

/-- 8-bit grey+alpha likewise. -/
theorem C24_separateAlpha_ga8 (px : List (List Nat)) (h : ∀ p ∈ px, p.length = 2) :
    separateAlpha .grayAlpha px.flatten =
      ((px.map (List.take 1)).flatten, some (px.map (List.drop 1)).flatten) := by
  unfold separateAlpha
  simp only
  rw [splitChunks_flatten 2 1 (by decide) px _ h
    (by rw [flatten_length_const 2 px h]; omega)]

/-- `interleave (separateAlpha px) = px` for the two 8-bit alpha layouts. -/
theorem C24_interleave_separateAlpha (px : List (List Nat)) :
    ((∀ p ∈ px, p.length = 4) →
      interleave 3 (separateAlpha .rgbAlpha px.flatten).1
        ((separateAlpha .rgbAlpha px.flatten).2.getD []) = px.flatten) ∧
    ((∀ p ∈ px, p.length = 2) →
      interleave 1 (separateAlpha .grayAlpha px.flatten).1
        ((separateAlpha .grayAlpha px.flatten).2.getD []) = px.flatten) := by
  constructor
  · intro h
    rw [C24_separateAlpha_rgba8 px h]
    exact interleave_pixels 3 px h
  · intro h
    rw [C24_separateAlpha_ga8 px h]
    exact interleave_pixels 1 px h

example : separateAlpha .rgbAlpha [[1, 2, 3, 4], [5, 6, 7, 8]].flatten
    = ([1, 2, 3, 5, 6, 7], some [4, 8]) :=
  C24_separateAlpha_rgba8 [[1, 2, 3, 4], [5, 6, 7, 8]] (by decide)

example : interleave 1 (separateAlpha .grayAlpha [[9, 200], [7, 0]].flatten).1
    ((separateAlpha .grayAlpha [[9, 200], [7, 0]].flatten).2.getD []) = [9, 200, 7, 0] :=
  (C24_interleave_separateAlpha [[9, 200], [7, 0]]).2 (by decide)

/-! ## from the inflated stream to the image and SMask samples (8-bit layouts) -/

/-- PARTIAL (see FULL above): `decode_image_data` on the scanline stream of an 8-bit
non-interlaced image.  `img : rows × pixels × channel bytes`; any size, any filter choice per row.
The hypothesis `bitDepth = 8` is what makes the code's row length
`width · ⌈depth·channels/8⌉` the true one (for colour type 3 it is wrong at every depth). -/
theorem C24_png8_samples_partial (st : Decoder) (img : List (List (List Nat))) (fts : List Nat)
    (hd : st.bitDepth = 8) (hct : st.colorType ≠ .palette)
    (hh : img.length = st.height) (hw : ∀ r ∈ img, r.length = st.width)
    (hp : ∀ r ∈ img, ∀ p ∈ r, p.length = st.colorType.channels ∧ ∀ x ∈ p, x < 256)
    (hf : fts.length = img.length) (hfv : ∀ f ∈ fts, f ≤ 4)
    (hsz : st.height * (st.width * st.colorType.channels + 1) < usizeMax) :
    decodeImageData st
        (filterRows st.colorType.channels fts (img.map List.flatten)
          (List.replicate (st.width * st.colorType.channels) 0))
      = .ok (if st.colorType.hasAlpha then
               ((img.flatten.map (List.take (st.colorType.channels - 1))).flatten,
                some (img.flatten.map (List.drop (st.colorType.channels - 1))).flatten)
             else (img.flatten.flatten, none)) := by
  have hbpp : bytesPerPixel st.bitDepth st.colorType = st.colorType.channels := by
    unfold bytesPerPixel; rw [hd]; omega
  have hrows : ∀ r ∈ img.map List.flatten,
      r.length = st.width * st.colorType.channels ∧ ∀ x ∈ r, x < 256 := by
    intro r hr
    obtain ⟨r0, hr0, rfl⟩ := List.mem_map.1 hr
    constructor
    · rw [flatten_length_const _ r0 (fun p hp' => (hp r0 hr0 p hp').1), hw r0 hr0]
    · intro x hx
      obtain ⟨p, hpm, hxp⟩ := List.mem_flatten.1 hx
      exact (hp r0 hr0 p hpm).2 x hxp
  have hlen : (filterRows st.colorType.channels fts (img.map List.flatten)
      (List.replicate (st.width * st.colorType.channels) 0)).length
        = st.height * (st.width * st.colorType.channels + 1) := by
    rw [← hh]
    clear hsz hh
    generalize List.replicate (st.width * st.colorType.channels) 0 = prev
    induction img generalizing fts prev with
    | nil => cases fts <;> simp [filterRows]
    | cons r rs ih =>
      cases fts with
      | nil => simp at hf
      | cons f fs =>
        have h1 := (hrows r.flatten (by simp)).1
        simp only [List.map_cons, filterRows, List.length_cons, List.length_append,
          filterRow_length, h1]
        rw [ih fs (fun q hq => hw q (by simp [hq])) (fun q hq => hp q (by simp [hq]))
          (by simpa using hf) (fun g hg => hfv g (by simp [hg]))
          (fun q hq => hrows q (by simp at hq ⊢; obtain ⟨a, ha, rfl⟩ := hq; exact Or.inr ⟨a, ha, rfl⟩))]
        rw [Nat.add_mul]; omega
  unfold decodeImageData
  simp only [hbpp, Nat.add_sub_cancel]
  rw [if_neg (by omega), hlen, if_neg (by omega)]
  have hdr := C24_unfilter_filter_image st.colorType.channels (st.width * st.colorType.channels)
    (img.map List.flatten) fts (List.replicate (st.width * st.colorType.channels) 0)
    (by simpa using hf) hfv hrows
  rw [List.length_map, hh] at hdr
  rw [hdr]
  have hflat : (img.map List.flatten).flatten = img.flatten.flatten := by
    simp [List.flatten_flatten]
  have hpx : ∀ p ∈ img.flatten, p.length = st.colorType.channels := by
    intro p hpm
    obtain ⟨r, hr, hpr⟩ := List.mem_flatten.1 hpm
    exact (hp r hr p hpr).1
  cases hc : st.colorType with
  | gray => simp [ColorType.hasAlpha, hflat]
  | rgb => simp [ColorType.hasAlpha, hflat]
  | palette => exact absurd hc hct
  | grayAlpha =>
    simp only [ColorType.hasAlpha, if_true, hflat, ColorType.channels]
    rw [C24_separateAlpha_ga8 _ (by simpa [hc, ColorType.channels] using hpx)]
  | rgbAlpha =>
    simp only [ColorType.hasAlpha, if_true, hflat, ColorType.channels]
    rw [C24_separateAlpha_rgba8 _ (by simpa [hc, ColorType.channels] using hpx)]

example : decodeImageData { width := 2, height := 1, bitDepth := 8, colorType := .rgbAlpha }
    (filterRows 4 [4] [[[1, 2, 3, 4], [5, 6, 7, 8]].flatten] (List.replicate 8 0))
    = .ok ([1, 2, 3, 5, 6, 7], some [4, 8]) := by decide

/-! ## from the file bytes: chunk walk, IDAT concatenation, decode (8-bit layouts) -/

/-- PARTIAL (see FULL above): a whole PNG *file* — signature, IHDR (bit depth 8, colour type
0/2/4/6, not interlaced), the zlib stream cut into any number of IDAT chunks at arbitrary places,
IEND — for any image size and any per-row filter choice, with zlib inflate as the external
parameter (`hinfl`: it returns the scanline stream the reference filter produced).  The decoder
returns exactly the supplied colour samples and, for the alpha layouts, the supplied alpha
samples.  (CRC values are whatever the reference encoder wrote; the decoder ignores them.) -/
theorem C24_png8_file_partial (inflate : Inflate) (w h ctb : Nat) (ct : ColorType)
    (zs : List (List Nat)) (img : List (List (List Nat))) (fts : List Nat)
    (hct : ColorType.fromByte ctb = some ct) (hnp : ct ≠ .palette)
    (hw : 0 < w ∧ w < 4294967296) (hh : 0 < h ∧ h < 4294967296)
    (hsz : h * (w * ct.channels + 1) < usizeMax)
    (hz : zs ≠ [] ∧ ∀ z ∈ zs, z.length < 4294967296)
    (hinfl : inflate zs.flatten = .ok (filterRows ct.channels fts (img.map List.flatten)
              (List.replicate (w * ct.channels) 0)))
    (hi : img.length = h) (hr : ∀ r ∈ img, r.length = w)
    (hp : ∀ r ∈ img, ∀ p ∈ r, p.length = ct.channels ∧ ∀ x ∈ p, x < 256)
    (hf : fts.length = img.length) (hfv : ∀ f ∈ fts, f ≤ 4) :
    decodePng inflate
        (signature ++ (Spec.C24Png.chunk "IHDR"
            (Spec.C24Png.be32 w ++ Spec.C24Png.be32 h ++ [8, ctb, 0, 0, 0]) ++
          ((zs.map (Spec.C24Png.chunk "IDAT")).flatten ++ Spec.C24Png.chunk "IEND" []))) =
      .ok { width := w, height := h, bitDepth := 8, colorType := ct,
            imageData := if ct.hasAlpha then (img.flatten.map (List.take (ct.channels - 1))).flatten
                         else img.flatten.flatten,
            alphaData := if ct.hasAlpha then
                           some (img.flatten.map (List.drop (ct.channels - 1))).flatten
                         else none,
            palette := none, trns := none } := by
  -- the state after the chunk walk
  let st2 : Decoder := { width := w, height := h, bitDepth := 8, colorType := ct, idat := zs,
                         hasIhdr := true }
  have hwalk : ∀ fuel, zs.length + 2 ≤ fuel →
      walk fuel (Spec.C24Png.chunk "IHDR"
            (Spec.C24Png.be32 w ++ Spec.C24Png.be32 h ++ [8, ctb, 0, 0, 0]) ++
          ((zs.map (Spec.C24Png.chunk "IDAT")).flatten ++ Spec.C24Png.chunk "IEND" [])) {} = .ok st2 := by
    intro fuel hfu
    obtain ⟨F, rfl⟩ : ∃ F, fuel = ((F + 1) + zs.length) + 1 := ⟨fuel - zs.length - 2, by omega⟩
    rw [walk_IHDR _ _ _ _ (by simp [Spec.C24Png.be32]),
      processIhdr_ok {} w h 8 ctb ct hw.2 hh.2 hct]
    simp only []
    rw [walk_IDATs zs (F + 1) _ _ hz.2]
    have := walk_IEND F [] st2
    rw [List.append_nil] at this
    simp only [List.nil_append]
    exact this
  have hlenz := idat_chunks_length zs
  unfold decodePng
  have hsig : ¬ ((signature ++ (Spec.C24Png.chunk "IHDR"
            (Spec.C24Png.be32 w ++ Spec.C24Png.be32 h ++ [8, ctb, 0, 0, 0]) ++
          ((zs.map (Spec.C24Png.chunk "IDAT")).flatten ++ Spec.C24Png.chunk "IEND" []))).length < 8 ∨
      (signature ++ (Spec.C24Png.chunk "IHDR"
            (Spec.C24Png.be32 w ++ Spec.C24Png.be32 h ++ [8, ctb, 0, 0, 0]) ++
          ((zs.map (Spec.C24Png.chunk "IDAT")).flatten ++ Spec.C24Png.chunk "IEND" []))).take 8 ≠ signature) := by
    simp [signature]
  rw [if_neg hsig]
  have hdrop : (signature ++ (Spec.C24Png.chunk "IHDR"
            (Spec.C24Png.be32 w ++ Spec.C24Png.be32 h ++ [8, ctb, 0, 0, 0]) ++
          ((zs.map (Spec.C24Png.chunk "IDAT")).flatten ++ Spec.C24Png.chunk "IEND" []))).drop 8 =
      Spec.C24Png.chunk "IHDR"
            (Spec.C24Png.be32 w ++ Spec.C24Png.be32 h ++ [8, ctb, 0, 0, 0]) ++
          ((zs.map (Spec.C24Png.chunk "IDAT")).flatten ++ Spec.C24Png.chunk "IEND" []) := by
    simp [signature]
  have hsl : signature.length = 8 := rfl
  rw [hdrop, hwalk _ (by simp only [List.length_append]; omega)]
  have hne : zs.isEmpty = false := by
    cases zs with
    | nil => exact absurd rfl hz.1
    | cons _ _ => rfl
  have hdec := C24_png8_samples_partial st2 img fts rfl hnp hi hr hp hf hfv hsz
  simp only [st2] at hdec ⊢
  simp only [Bool.not_true, Bool.false_eq_true, if_false, hne, hinfl]
  rw [if_neg (by omega), hdec]
  cases hα : ct.hasAlpha <;> simp

example : ∃ d, decodePng (fun _ => .ok (filterRows 4 [1] [[[1, 2, 3, 4], [5, 6, 7, 8]].flatten]
      (List.replicate 8 0)))
    (signature ++ (Spec.C24Png.chunk "IHDR"
        (Spec.C24Png.be32 2 ++ Spec.C24Png.be32 1 ++ [8, 6, 0, 0, 0]) ++
      (([[0x78, 1], [9]].map (Spec.C24Png.chunk "IDAT")).flatten ++ Spec.C24Png.chunk "IEND" [])))
    = .ok d ∧ d.imageData = [1, 2, 3, 5, 6, 7] ∧ d.alphaData = some [4, 8] :=
  ⟨_, C24_png8_file_partial _ 2 1 6 .rgbAlpha [[0x78, 1], [9]] [[[1, 2, 3, 4], [5, 6, 7, 8]]] [1]
      rfl (by decide) (by decide) (by decide) (by decide) (by decide) rfl rfl (by decide)
      (by decide) rfl (by decide), rfl, rfl⟩

/-! ## what the image object carries into the document -/

/-- Whatever `from_png_data` accepts is declared 8 bits per component, with the decoded bytes as
image data and the alpha bytes (if any) as a DeviceGray 8-bit SMask of the same size. -/
theorem C24_fromPng_shape (inflate : Inflate) (file : List Nat) (img : Image)
    (h : Image.fromPngData inflate file = .ok img) :
    ∃ d, decodePng inflate file = .ok d ∧
      img.bitsPerComponent = 8 ∧ img.data = d.imageData ∧ img.width = d.width ∧
      img.height = d.height ∧
      img.embed.main.data = d.imageData ∧ img.embed.main.bpc = 8 ∧
      img.embed.main.filter = "FlateDecode" ∧
      img.embed.smask = d.alphaData.map (fun a =>
        { width := d.width, height := d.height, bpc := 8, cs := "DeviceGray",
          filter := "FlateDecode", data := a }) := by
  unfold Image.fromPngData at h
  cases hd : decodePng inflate file with
  | err e => simp [hd] at h
  | panic => simp [hd] at h
  | ok d =>
    simp only [hd, Outcome.ok.injEq] at h
    subst h
    refine ⟨d, rfl, rfl, rfl, rfl, rfl, ?_⟩
    have hfmt : (Format.png == Format.jpeg) = false := by decide
    cases ha : d.alphaData <;>
      simp [Image.embed, Image.hasTransparency, ha, hfmt]

/-- JPEG pass-through: an accepted JPEG is embedded byte for byte under DCTDecode, no SMask. -/
theorem C24_jpeg_passthrough (file : List Nat) (img : Image)
    (h : Image.fromJpegData file = .ok img) :
    img.embed.main.data = file ∧ img.embed.main.filter = "DCTDecode" ∧ img.embed.smask = none := by
  unfold Image.fromJpegData at h
  split at h
  · simp at h
  · cases hs : jpegScan file (file.length + 1) 2 with
    | err e => simp [hs] at h
    | panic => simp [hs] at h
    | ok r =>
      obtain ⟨w, hh, comps⟩ := r
      simp only [hs] at h
      split at h
      · simp at h
      · cases hc : csOfComponents comps with
        | none => simp [hc] at h
        | some cs =>
          simp only [hc, Outcome.ok.injEq] at h
          subst h
          simp [Image.embed, Image.hasTransparency]

example : ∃ img, Image.fromJpegData
    [0xFF, 0xD8, 0xFF, 0xC0, 0, 11, 8, 0, 2, 0, 3, 1, 1, 0x11, 0, 0xFF, 0xD9] = .ok img ∧
    img.width = 3 ∧ img.height = 2 :=
  ⟨{ data := [0xFF, 0xD8, 0xFF, 0xC0, 0, 11, 8, 0, 2, 0, 3, 1, 1, 0x11, 0, 0xFF, 0xD9],
     format := .jpeg, width := 3, height := 2, colorSpace := .deviceGray, bitsPerComponent := 8,
     alphaData := none, softMask := none }, by decide, rfl, rfl⟩

/-- Raw buffers: `from_raw_data` embeds the buffer unchanged with the given geometry. -/
theorem C24_raw_passthrough (data : List Nat) (w h bpc : Nat) (cs : ColorSpace) :
    (Image.fromRawData data w h cs bpc).embed =
      { main := { width := w, height := h, bpc := bpc, cs := cs.name, filter := "none",
                  data := data }, smask := none } := by
  simp [Image.fromRawData, Image.embed, Image.hasTransparency]

/-- RGBA buffers: colour bytes to the image, alpha bytes to the SMask, pixel by pixel. -/
theorem C24_rgba_split (px : List (List Nat)) (w h : Nat) (hp : ∀ p ∈ px, p.length = 4)
    (hn : px.length = w * h) (hs : w * h * 4 < u32Max) :
    ∃ img, Image.fromRgbaData px.flatten w h = .ok img ∧
      img.embed.main.data = (px.map (List.take 3)).flatten ∧
      img.embed.main.bpc = 8 ∧ img.embed.main.cs = "DeviceRGB" ∧
      img.embed.smask = some { width := w, height := h, bpc := 8, cs := "DeviceGray",
                               filter := "FlateDecode",
                               data := (px.map (List.drop 3)).flatten } := by
  have h1 : w * h < u32Max := by omega
  have hl : px.flatten.length = w * h * 4 := by rw [flatten_length_const 4 px hp, hn]
  unfold Image.fromRgbaData
  simp only [mulU32, h1, if_true, Option.bind_some, hs, hl, ne_eq, not_true_eq_false, if_false]
  rw [← hl, splitChunks_flatten 4 3 (by decide) px _ hp (by rw [flatten_length_const 4 px hp]; omega)]
  exact ⟨_, rfl, by simp [Image.embed, Image.hasTransparency, ColorSpace.name]⟩

example : ∃ img, Image.fromRgbaData [[1, 2, 3, 4], [5, 6, 7, 8]].flatten 2 1 = .ok img ∧
    img.embed.main.data = [1, 2, 3, 5, 6, 7] :=
  let ⟨img, h, hd, _⟩ := C24_rgba_split [[1, 2, 3, 4], [5, 6, 7, 8]] 2 1 (by decide) rfl (by decide)
  ⟨img, h, hd⟩

/-! ## counter-witnesses: where the current code violates the FULL statement -/

/-- Adam7: every IHDR with a non-zero interlace byte is refused (png_decoder.rs:247). -/
theorem C24_witness_interlaced_rejected (st : Decoder) (d : List Nat) (hl : 13 ≤ d.length)
    (hct : (ColorType.fromByte (d.getD 9 0)).isSome) (hm : d.getD 10 0 = 0 ∧ d.getD 11 0 = 0)
    (hi : d.getD 12 0 ≠ 0) : processIhdr st d = .err .interlaced := by
  unfold processIhdr
  rw [if_neg (by omega)]
  cases hc : ColorType.fromByte (d.getD 9 0) with
  | none => rw [hc] at hct; simp at hct
  | some ct =>
    simp only []
    rw [if_neg (by rw [hm.1, hm.2]; simp), if_pos hi]

example : processIhdr {} [0, 0, 0, 1, 0, 0, 0, 1, 8, 0, 0, 0, 1] = .err .interlaced :=
  C24_witness_interlaced_rejected {} _ (by decide) (by decide) (by decide) (by decide)

/-- A 9×1 1-bit greyscale image: the true scanline stream is filter byte + ⌈9/8⌉ = 3 bytes; the
code wants 9·1+1 = 10 and reports "Insufficient PNG image data" (png_decoder.rs:339). -/
theorem C24_witness_subbyte_rejected :
    decodeImageData { width := 9, height := 1, bitDepth := 1, colorType := .gray }
      [0, 0xAA, 0x80] = .err .insufficient := by decide

/-- A 1×1 8-bit palette image: true stream = filter byte + 1 index byte; the code counts 3
channels (png_decoder.rs:42) and wants 4 bytes. -/
theorem C24_witness_palette_rejected :
    decodeImageData { width := 1, height := 1, bitDepth := 8, colorType := .palette,
                      palette := some [10, 20, 30] } [0, 0] = .err .insufficient := by decide

/-- A 1×1 16-bit RGBA pixel R=0x0102 G=0x0304 B=0x0506 A=0x0708: the 4-byte split puts the low
byte of G and of A into the "alpha" plane and A's high byte into the colour plane
(png_decoder.rs:441), and the planes are then declared 8 bits per component. -/
theorem C24_witness_16bit_alpha_mixed :
    decodeImageData { width := 1, height := 1, bitDepth := 16, colorType := .rgbAlpha }
      [0, 1, 2, 3, 4, 5, 6, 7, 8] = .ok ([1, 2, 3, 5, 6, 7], some [4, 8]) := by decide

/-- 16-bit grey 2×1 (samples 0x0102, 0x0304): four data bytes are embedded for a 2×1 image
declared 8 bits per component (pdf_image.rs:137). -/
theorem C24_witness_16bit_declared_8 :
    decodeImageData { width := 2, height := 1, bitDepth := 16, colorType := .gray }
      [0, 1, 2, 3, 4] = .ok ([1, 2, 3, 4], none) := by decide

/-- tRNS colour key: the key is parsed and then never used — the decoded planes do not depend on
the `trns` field at all, so key-coloured pixels stay opaque (no SMask). -/
theorem C24_witness_trns_dropped (st : Decoder) (t : Option Trns) (raw : List Nat) :
    decodeImageData { st with trns := t } raw = decodeImageData st raw := rfl

example : (decodeImageData { width := 1, height := 1, bitDepth := 8, colorType := .gray,
                             trns := some (.gray 7) } [0, 7]) = .ok ([7], none) := by decide

end OxiVerif.C24
