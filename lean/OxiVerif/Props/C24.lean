import OxiVerif.Lemmas.C24
import OxiVerif.Model.C24Old
set_option linter.unusedSimpArgs false
/-!
# C24 — embedded raster images decode to the pixels that were supplied

Property theorems only (helpers in `Lemmas/C24.lean`).  `Model/C24.lean` transcribes
`png_decoder.rs` / `pdf_image.rs` as repaired (C24-F2a/F2b/F3a/F3b/F4/F5), `Model/C24Old.lean` keeps
the code before the repairs; `Spec/C24Png.lean` is the reference PNG *encoder* (filtering per PNG §9)
and the bit-level reading of packed samples (PNG §7.2).  Bytes are naturals below 256; nothing below
is bounded in image size, row length, number of rows, `bpp` or choice of filter types.

/- FULL (the property):
   for every valid PNG description `d` (all colour types × bit depths × interlace × PLTE/tRNS)
     Image.fromPngData inflate d.encode = .ok img  ∧
     pixels denoted by `img.embed` (image XObject + SMask) = d.expectedPixels
   FALSE of the current code only for Adam7 input (`C24_witness_interlaced_rejected`, finding
   C24-F1, open).
   PROVED for every non-interlaced layout — colour types 0/2/3/4/6 at every bit depth the PNG
   specification allows, every width (scanlines end on byte boundaries), every per-row filter
   choice, PLTE and tRNS present or not, the zlib stream cut into any number of IDAT chunks:
   `C24_scanlines_unfiltered` (scanline stream → planes), `C24_png_opaque_samples`,
   `C24_png_alpha_samples`, `C24_png_palette_pixels`, `C24_png_colorkey_alpha` (what the planes
   are, in terms of the PNG §7.2 samples), `C24_png_file` (from the file bytes),
   `C24_fromPng_shape` (what the image XObject and the SMask declare).
   The statements that were `_partial` before the repairs (8-bit, non-palette only) are now these
   full ones; the old counter-witnesses are kept as statements about `Old.decodeImageData`. -/
-/
namespace OxiVerif.C24
open OxiVerif.Spec.C24Png (filterRow filterRows samplesOfRow)

/-! ## filtering is inverted by the decoder, row by row -/

/-- One scanline, any filter type 0–4, any `bpp`, any previous scanline: the decoder's
`unfilter_row` undoes the reference filter. -/
theorem C24_unfilter_filter_row (ft bpp : Nat) (prev row : List Nat) (hft : ft ≤ 4)
    (hb : ∀ x ∈ row, x < 256) :
    unfilterRow ft (filterRow ft bpp prev row) prev bpp = some row := by
  unfold unfilterRow filterRow
  simp [hft, unfilterGo_filterGo ft bpp row prev [] [] hb]

example : unfilterRow 4 (filterRow 4 3 [9, 200, 31, 77, 5, 250] [1, 255, 3, 128, 0, 77])
    [9, 200, 31, 77, 5, 250] 3 = some [1, 255, 3, 128, 0, 77] :=
  C24_unfilter_filter_row 4 3 _ _ (by decide) (by decide)

/-- A filter-type byte above 4 is refused. -/
theorem C24_unknown_filter_rejected (ft bpp : Nat) (row prev : List Nat) (h : 4 < ft) :
    unfilterRow ft row prev bpp = none := by
  unfold unfilterRow; simp; omega

example : unfilterRow 5 [1] [0] 1 = none := C24_unknown_filter_rejected 5 1 _ _ (by decide)

/-- The whole scanline stream, **for the correct row length** `n` (every scanline has `n` bytes and
the decoder is run with `rowLen = n`): any number of rows, any per-row filter-type assignment. -/
theorem C24_unfilter_filter_image (bpp n : Nat) :
    ∀ (rows : List (List Nat)) (fts prev : List Nat), fts.length = rows.length →
      (∀ f ∈ fts, f ≤ 4) → (∀ r ∈ rows, r.length = n ∧ ∀ x ∈ r, x < 256) →
      decodeRows bpp n rows.length (filterRows bpp fts rows prev) prev = .ok rows.flatten := by
  intro rows
  induction rows with
  | nil => intro fts prev _ _ _; simp [decodeRows]
  | cons r rs ih =>
    intro fts prev hl hf hr
    cases fts with
    | nil => simp at hl
    | cons f fs =>
      have hrn := (hr r (by simp)).1
      have hrb := (hr r (by simp)).2
      have hfl : (filterRow f bpp prev r).length = n := by rw [filterRow_length, hrn]
      simp only [filterRows, List.length_cons, decodeRows, List.headD_cons, List.drop_succ_cons,
        List.drop_zero]
      have h1 : (filterRow f bpp prev r ++ filterRows bpp fs rs r).take n = filterRow f bpp prev r := by
        rw [List.take_append_of_le_length (by omega)]
        exact List.take_of_length_le (by omega)
      have h2 : (filterRow f bpp prev r ++ filterRows bpp fs rs r).drop n = filterRows bpp fs rs r := by
        rw [List.drop_append_of_le_length (by omega), List.drop_of_length_le (by omega)]
        simp
      simp only [h1, h2, C24_unfilter_filter_row f bpp prev r (hf f (by simp)) hrb,
        ih fs r (by simpa using hl) (fun g hg => hf g (by simp [hg]))
          (fun q hq => hr q (by simp [hq]))]
      simp

example : decodeRows 1 2 2 (filterRows 1 [3, 4] [[10, 250], [7, 9]] [0, 0]) [0, 0]
    = .ok [10, 250, 7, 9] :=
  C24_unfilter_filter_image 1 2 [[10, 250], [7, 9]] [3, 4] [0, 0] rfl (by decide) (by decide)

/-! ## alpha separation (8- and 16-bit samples) -/

/-- bytes of one sample in the alpha layouts: `if self.bit_depth == 16 { 2 } else { 1 }` -/
def sampleBytes (depth : Nat) : Nat := if depth = 16 then 2 else 1

theorem sampleBytes_pos (depth : Nat) : 0 < sampleBytes depth := by
  unfold sampleBytes; split <;> omega

/-- re-interleave `k` pixels: `keep` colour bytes, `al` alpha bytes, … -/
def interleave (keep al : Nat) : Nat → List Nat → List Nat → List Nat
  | 0, _, _ => []
  | k + 1, c, a => c.take keep ++ (a.take al ++ interleave keep al k (c.drop keep) (a.drop al))

theorem interleave_pixels (keep al : Nat) :
    ∀ px : List (List Nat), (∀ p ∈ px, p.length = keep + al) →
      interleave keep al px.length (px.map (List.take keep)).flatten
        (px.map (List.drop keep)).flatten = px.flatten := by
  intro px
  induction px with
  | nil => intro _; simp [interleave]
  | cons p ps ih =>
    intro h
    have hp : p.length = keep + al := h p (by simp)
    have htl : (p.take keep).length = keep := by simp [hp]
    have hdl : (p.drop keep).length = al := by simp [hp]
    simp only [List.map_cons, List.flatten_cons, List.length_cons, interleave]
    rw [List.take_left' htl, List.drop_left' htl, List.take_left' hdl, List.drop_left' hdl,
      ih (fun q hq => h q (by simp [hq])), ← List.append_assoc, List.take_append_drop]

/-- RGBA at 8 or 16 bits: `separate_alpha` returns exactly the colour bytes and the alpha bytes of
every pixel, in order — for any number of pixels. -/
theorem C24_separateAlpha_rgba (depth : Nat) (px : List (List Nat))
    (h : ∀ p ∈ px, p.length = 4 * sampleBytes depth) :
    separateAlpha .rgbAlpha depth px.flatten =
      ((px.map (List.take (3 * sampleBytes depth))).flatten,
       some (px.map (List.drop (3 * sampleBytes depth))).flatten) := by
  have hs := sampleBytes_pos depth
  unfold separateAlpha
  simp only
  rw [show (if depth = 16 then 2 else 1) = sampleBytes depth from rfl,
    splitChunks_flatten (4 * sampleBytes depth) (3 * sampleBytes depth) (by omega) px _ h
      (by rw [flatten_length_const _ px h]; exact Nat.le_mul_of_pos_right _ (by omega))]

/-- grey+alpha at 8 or 16 bits likewise. -/
theorem C24_separateAlpha_ga (depth : Nat) (px : List (List Nat))
    (h : ∀ p ∈ px, p.length = 2 * sampleBytes depth) :
    separateAlpha .grayAlpha depth px.flatten =
      ((px.map (List.take (sampleBytes depth))).flatten,
       some (px.map (List.drop (sampleBytes depth))).flatten) := by
  have hs := sampleBytes_pos depth
  unfold separateAlpha
  simp only
  rw [show (if depth = 16 then 2 else 1) = sampleBytes depth from rfl,
    splitChunks_flatten (2 * sampleBytes depth) (sampleBytes depth) (by omega) px _ h
      (by rw [flatten_length_const _ px h]; exact Nat.le_mul_of_pos_right _ (by omega))]

/-- `interleave (separateAlpha px) = px` for the alpha layouts at both sample sizes. -/
theorem C24_interleave_separateAlpha (depth : Nat) (px : List (List Nat)) :
    ((∀ p ∈ px, p.length = 4 * sampleBytes depth) →
      interleave (3 * sampleBytes depth) (sampleBytes depth) px.length
        (separateAlpha .rgbAlpha depth px.flatten).1
        ((separateAlpha .rgbAlpha depth px.flatten).2.getD []) = px.flatten) ∧
    ((∀ p ∈ px, p.length = 2 * sampleBytes depth) →
      interleave (sampleBytes depth) (sampleBytes depth) px.length
        (separateAlpha .grayAlpha depth px.flatten).1
        ((separateAlpha .grayAlpha depth px.flatten).2.getD []) = px.flatten) := by
  constructor
  · intro h
    rw [C24_separateAlpha_rgba depth px h]
    exact interleave_pixels _ _ px (fun p hp => by rw [h p hp]; omega)
  · intro h
    rw [C24_separateAlpha_ga depth px h]
    exact interleave_pixels _ _ px (fun p hp => by rw [h p hp]; omega)

example : separateAlpha .rgbAlpha 8 [[1, 2, 3, 4], [5, 6, 7, 8]].flatten
    = ([1, 2, 3, 5, 6, 7], some [4, 8]) :=
  C24_separateAlpha_rgba 8 [[1, 2, 3, 4], [5, 6, 7, 8]] (by decide)

/-- the 16-bit pixel of the old witness: R=0x0102 G=0x0304 B=0x0506 A=0x0708 -/
example : separateAlpha .rgbAlpha 16 [[1, 2, 3, 4, 5, 6, 7, 8]].flatten
    = ([1, 2, 3, 4, 5, 6], some [7, 8]) :=
  C24_separateAlpha_rgba 16 [[1, 2, 3, 4, 5, 6, 7, 8]] (by decide)

example : interleave 2 2 2 (separateAlpha .grayAlpha 16 [[9, 200, 1, 2], [7, 0, 3, 4]].flatten).1
    ((separateAlpha .grayAlpha 16 [[9, 200, 1, 2], [7, 0, 3, 4]].flatten).2.getD [])
      = [9, 200, 1, 2, 7, 0, 3, 4] :=
  (C24_interleave_separateAlpha 16 [[9, 200, 1, 2], [7, 0, 3, 4]]).2 (by decide)

/-! ## from the inflated stream to the planes: every colour type, every depth, every width -/

/-- `decode_image_data` on the scanline stream of a non-interlaced image of ANY colour type and bit
depth: `rows` are the packed scanlines (each `⌈width·depth·samples/8⌉` bytes — the row length the
decoder computes), any number of rows, any filter type per row.  The unfiltered scanlines are
recovered exactly and handed to the plane-splitting step. -/
theorem C24_scanlines_unfiltered (st : Decoder) (rows : List (List Nat)) (fts : List Nat)
    (hh : rows.length = st.height)
    (hr : ∀ r ∈ rows, r.length = bytesPerRow st.width st.bitDepth st.colorType - 1 ∧ ∀ x ∈ r, x < 256)
    (hf : fts.length = rows.length) (hfv : ∀ f ∈ fts, f ≤ 4)
    (hsz : st.height * bytesPerRow st.width st.bitDepth st.colorType < usizeMax) :
    decodeImageData st
        (filterRows (bytesPerPixel st.bitDepth st.colorType) fts rows
          (List.replicate (bytesPerRow st.width st.bitDepth st.colorType - 1) 0))
      = planesOf st rows.flatten (bytesPerRow st.width st.bitDepth st.colorType - 1) := by
  have hbr : bytesPerRow st.width st.bitDepth st.colorType =
      (bytesPerRow st.width st.bitDepth st.colorType - 1) + 1 := by unfold bytesPerRow; omega
  generalize bytesPerRow st.width st.bitDepth st.colorType - 1 = n at *
  have hlen : ∀ (bpp : Nat) (rows : List (List Nat)) (fts prev : List Nat), fts.length = rows.length →
      (∀ r ∈ rows, r.length = n) → (filterRows bpp fts rows prev).length = rows.length * (n + 1) := by
    intro bpp
    intro rows
    induction rows with
    | nil => intro fts prev _ _; cases fts <;> simp [filterRows]
    | cons r rs ih =>
      intro fts prev hf hr
      cases fts with
      | nil => simp at hf
      | cons f fs =>
        simp only [filterRows, List.length_cons, List.length_append, filterRow_length,
          hr r (by simp), ih fs r (by simpa using hf) (fun q hq => hr q (by simp [hq]))]
        rw [Nat.add_mul]; omega
  unfold decodeImageData
  simp only []
  rw [hbr] at hsz ⊢
  simp only [Nat.add_sub_cancel]
  rw [if_neg (by omega), hlen _ rows fts _ hf (fun r h => (hr r h).1), hh, if_neg (by omega)]
  have hdr := C24_unfilter_filter_image (bytesPerPixel st.bitDepth st.colorType) n rows fts (List.replicate n 0) hf hfv hr
  rw [hh] at hdr
  rw [hdr]

example : decodeImageData { width := 9, height := 1, bitDepth := 1, colorType := .gray }
    (filterRows 1 [1] [[0xAA, 0x80]] [0, 0]) = .ok ([0xAA, 0x80], none) :=
  C24_scanlines_unfiltered { width := 9, height := 1, bitDepth := 1, colorType := .gray }
    [[0xAA, 0x80]] [1] rfl (by decide) rfl (by decide) (by decide)

/-- Greyscale and RGB without a tRNS key, bit depths 1–16: the image data are the packed
scanlines themselves — the very layout a PDF image of that `BitsPerComponent` has (ISO 32000-1
§8.9.3: samples packed MSB first, 16-bit samples high byte first, rows padded to whole bytes) —
and there is no alpha plane. -/
theorem C24_png_opaque_samples (st : Decoder) (rows : List (List Nat)) (fts : List Nat)
    (hct : st.colorType = .gray ∨ st.colorType = .rgb) (hkey : colorKey st = none)
    (hh : rows.length = st.height)
    (hr : ∀ r ∈ rows, r.length = bytesPerRow st.width st.bitDepth st.colorType - 1 ∧ ∀ x ∈ r, x < 256)
    (hf : fts.length = rows.length) (hfv : ∀ f ∈ fts, f ≤ 4)
    (hsz : st.height * bytesPerRow st.width st.bitDepth st.colorType < usizeMax) :
    decodeImageData st
        (filterRows (bytesPerPixel st.bitDepth st.colorType) fts rows
          (List.replicate (bytesPerRow st.width st.bitDepth st.colorType - 1) 0))
      = .ok (rows.flatten, none) := by
  rw [C24_scanlines_unfiltered st rows fts hh hr hf hfv hsz]
  unfold planesOf colorKeyAlpha
  rcases hct with h | h <;> simp [h, hkey, ColorType.hasAlpha]

example : decodeImageData { width := 3, height := 2, bitDepth := 4, colorType := .gray }
    (filterRows 1 [2, 4] [[0x12, 0x30], [0xFE, 0xD0]] [0, 0]) = .ok ([0x12, 0x30, 0xFE, 0xD0], none) :=
  C24_png_opaque_samples { width := 3, height := 2, bitDepth := 4, colorType := .gray }
    [[0x12, 0x30], [0xFE, 0xD0]] [2, 4] (Or.inl rfl) rfl rfl (by decide) rfl (by decide) (by decide)

/-- Grey+alpha and RGBA at 8 and 16 bits.  `img : rows × pixels × sample bytes`; the colour plane
holds the colour samples of every pixel and the alpha plane its alpha sample, whole samples (both
bytes of a 16-bit sample stay together). -/
theorem C24_png_alpha_samples (st : Decoder) (img : List (List (List Nat))) (fts : List Nat)
    (hct : st.colorType.hasAlpha = true) (hd : st.bitDepth = 8 ∨ st.bitDepth = 16)
    (hh : img.length = st.height) (hw : ∀ r ∈ img, r.length = st.width)
    (hp : ∀ r ∈ img, ∀ p ∈ r, p.length = st.colorType.channels * sampleBytes st.bitDepth ∧
            ∀ x ∈ p, x < 256)
    (hf : fts.length = img.length) (hfv : ∀ f ∈ fts, f ≤ 4)
    (hsz : st.height * bytesPerRow st.width st.bitDepth st.colorType < usizeMax) :
    decodeImageData st
        (filterRows (bytesPerPixel st.bitDepth st.colorType) fts (img.map List.flatten)
          (List.replicate (bytesPerRow st.width st.bitDepth st.colorType - 1) 0))
      = .ok ((img.flatten.map
                (List.take ((st.colorType.channels - 1) * sampleBytes st.bitDepth))).flatten,
             some (img.flatten.map
                (List.drop ((st.colorType.channels - 1) * sampleBytes st.bitDepth))).flatten) := by
  have hspp : st.colorType.samplesPerPixel = st.colorType.channels := by
    cases hc : st.colorType <;> simp [hc, ColorType.hasAlpha, ColorType.samplesPerPixel] at hct ⊢
  have hrl : bytesPerRow st.width st.bitDepth st.colorType - 1 =
      st.width * (st.colorType.channels * sampleBytes st.bitDepth) := by
    unfold bytesPerRow sampleBytes
    rw [hspp]
    have e8 : st.width * (8 * st.colorType.channels) = 8 * (st.width * st.colorType.channels) :=
      Nat.mul_left_comm _ _ _
    have e16 : st.width * (16 * st.colorType.channels) = 16 * (st.width * st.colorType.channels) :=
      Nat.mul_left_comm _ _ _
    have e2 : st.width * (st.colorType.channels * 2) = 2 * (st.width * st.colorType.channels) := by
      rw [Nat.mul_comm _ 2]; exact Nat.mul_left_comm _ _ _
    rcases hd with h | h <;> simp [h, e8, e16, e2] <;> omega
  have hrows : ∀ r ∈ img.map List.flatten,
      r.length = bytesPerRow st.width st.bitDepth st.colorType - 1 ∧ ∀ x ∈ r, x < 256 := by
    intro r hr
    obtain ⟨r0, hr0, rfl⟩ := List.mem_map.1 hr
    constructor
    · rw [flatten_length_const _ r0 (fun p hp' => (hp r0 hr0 p hp').1), hw r0 hr0, hrl]
    · intro x hx
      obtain ⟨p, hpm, hxp⟩ := List.mem_flatten.1 hx
      exact (hp r0 hr0 p hpm).2 x hxp
  rw [C24_scanlines_unfiltered st (img.map List.flatten) fts (by simpa using hh) hrows
    (by simpa using hf) hfv hsz]
  have hflat : (img.map List.flatten).flatten = img.flatten.flatten := by
    simp [List.flatten_flatten]
  have hpx : ∀ p ∈ img.flatten, p.length = st.colorType.channels * sampleBytes st.bitDepth := by
    intro p hpm
    obtain ⟨r, hr, hpr⟩ := List.mem_flatten.1 hpm
    exact (hp r hr p hpr).1
  unfold planesOf
  rw [hflat]
  cases hc : st.colorType with
  | gray => simp [hc, ColorType.hasAlpha] at hct
  | rgb => simp [hc, ColorType.hasAlpha] at hct
  | palette => simp [hc, ColorType.hasAlpha] at hct
  | grayAlpha =>
    simp only [ColorType.hasAlpha, if_true, ColorType.channels, reduceCtorEq, if_false]
    rw [C24_separateAlpha_ga _ _ (by simpa [hc, ColorType.channels] using hpx)]
    simp
  | rgbAlpha =>
    simp only [ColorType.hasAlpha, if_true, ColorType.channels, reduceCtorEq, if_false]
    rw [C24_separateAlpha_rgba _ _ (by simpa [hc, ColorType.channels] using hpx)]

example : decodeImageData { width := 1, height := 1, bitDepth := 16, colorType := .rgbAlpha }
    (filterRows 8 [4] [[[1, 2, 3, 4, 5, 6, 7, 8]].flatten] (List.replicate 8 0))
    = .ok ([1, 2, 3, 4, 5, 6], some [7, 8]) := by decide

/-- the PLTE entry of index `i` -/
def paletteEntry (pal : List Nat) (i : Nat) : List Nat :=
  [pal.getD (3 * i) 0, pal.getD (3 * i + 1) 0, pal.getD (3 * i + 2) 0]

/-- Palette images, bit depths 1/2/4/8, any width: every pixel becomes the PLTE entry of its index,
where the indices are the samples PNG §7.2 defines (`Spec.samplesOfRow`: MSB-first bit fields of
the packed scanline, padding bits ignored); with a palette tRNS the alpha plane holds the tRNS
value of the index, 255 beyond the end of tRNS. -/
theorem C24_png_palette_pixels (st : Decoder) (rows : List (List Nat)) (fts pal : List Nat)
    (hct : st.colorType = .palette) (hpal : st.palette = some pal)
    (hd : st.bitDepth ∈ [1, 2, 4, 8]) (hw : 0 < st.width)
    (hh : rows.length = st.height)
    (hr : ∀ r ∈ rows, r.length = bytesPerRow st.width st.bitDepth st.colorType - 1 ∧ ∀ x ∈ r, x < 256)
    (hidx : ∀ r ∈ rows, ∀ i ∈ samplesOfRow st.bitDepth st.width r, i < pal.length / 3)
    (hf : fts.length = rows.length) (hfv : ∀ f ∈ fts, f ≤ 4)
    (hsz : st.height * bytesPerRow st.width st.bitDepth st.colorType < usizeMax) :
    decodeImageData st
        (filterRows (bytesPerPixel st.bitDepth st.colorType) fts rows
          (List.replicate (bytesPerRow st.width st.bitDepth st.colorType - 1) 0))
      = .ok (((rows.map (samplesOfRow st.bitDepth st.width)).flatten.flatMap (paletteEntry pal)),
             (match st.trns with
              | some (.palette a) => some a
              | _ => none).map fun (a : List Nat) =>
                (rows.map (samplesOfRow st.bitDepth st.width)).flatten.map fun i => a.getD i 255) := by
  rw [C24_scanlines_unfiltered st rows fts hh hr hf hfv hsz]
  have hn : 0 < bytesPerRow st.width st.bitDepth st.colorType - 1 ∧
      st.width * st.bitDepth ≤ 8 * (bytesPerRow st.width st.bitDepth st.colorType - 1) := by
    unfold bytesPerRow
    rw [hct]
    simp only [ColorType.samplesPerPixel, Nat.mul_one, Nat.add_sub_cancel]
    simp at hd
    rcases hd with h | h | h | h <;> rw [h] <;> omega
  have hrs := rowSamples_spec st.bitDepth st.width _ rows (by simp at hd ⊢; omega) hn.1 hr hn.2
  unfold planesOf expandPalette
  simp only [hrs]
  simp only [hct, if_true, hpal]
  rw [if_neg]
  · rfl
  · simp only [List.any_eq_true, decide_eq_true_eq, not_exists, not_and, Nat.not_le]
    intro i hi
    obtain ⟨ss, hss, his⟩ := List.mem_flatten.1 hi
    obtain ⟨r, hrm, rfl⟩ := List.mem_map.1 hss
    exact hidx r hrm i his

/-- 5×1 palette image at 2 bits per index (indices 3,0,1,2,1 → bytes 0xC6 0x40), 4-entry palette,
tRNS for the first two entries -/
example : decodeImageData { width := 5, height := 1, bitDepth := 2, colorType := .palette,
                            palette := some [1, 2, 3, 4, 5, 6, 7, 8, 9, 10, 11, 12],
                            trns := some (.palette [0, 128]) }
    (filterRows 1 [1] [[0xC6, 0x40]] [0, 0])
    = .ok ([10, 11, 12, 1, 2, 3, 4, 5, 6, 7, 8, 9, 4, 5, 6], some [255, 0, 128, 255, 128]) := by
  decide

/-- tRNS colour key (greyscale and RGB, every depth): the image data are the packed scanlines and
the alpha plane has, per pixel, 0 where the pixel's PNG §7.2 samples equal the key and 255 (0xFFFF
at depth 16) elsewhere. -/
theorem C24_png_colorkey_alpha (st : Decoder) (rows : List (List Nat)) (fts key : List Nat)
    (hkey : colorKey st = some key)
    (hd : depthAllowed st.colorType st.bitDepth = true) (hw : 0 < st.width)
    (hh : rows.length = st.height)
    (hr : ∀ r ∈ rows, r.length = bytesPerRow st.width st.bitDepth st.colorType - 1 ∧ ∀ x ∈ r, x < 256)
    (hf : fts.length = rows.length) (hfv : ∀ f ∈ fts, f ≤ 4)
    (hsz : st.height * bytesPerRow st.width st.bitDepth st.colorType < usizeMax) :
    decodeImageData st
        (filterRows (bytesPerPixel st.bitDepth st.colorType) fts rows
          (List.replicate (bytesPerRow st.width st.bitDepth st.colorType - 1) 0))
      = .ok (rows.flatten,
             some ((rows.map (samplesOfRow st.bitDepth (st.width * key.length))).flatMap fun ss =>
               (splitEvery key.length st.width ss).flatMap fun px =>
                 List.replicate (sampleBytes st.bitDepth) (if px = key then 0 else 255))) := by
  rw [C24_scanlines_unfiltered st rows fts hh hr hf hfv hsz]
  -- the key exists only for grey (1 sample) and RGB (3 samples)
  have hck : (st.colorType = .gray ∧ key.length = 1) ∨ (st.colorType = .rgb ∧ key.length = 3) := by
    unfold colorKey at hkey
    split at hkey <;> simp at hkey
    · left; subst hkey; simp_all
    · right; subst hkey; simp_all
  have hspp : st.colorType.samplesPerPixel = key.length := by
    rcases hck with ⟨h, hk⟩ | ⟨h, hk⟩ <;> simp [h, hk, ColorType.samplesPerPixel, ColorType.channels]
  have hdm : st.bitDepth ∈ [1, 2, 4, 8, 16] := by
    rcases hck with ⟨h, _⟩ | ⟨h, _⟩ <;> simp [h, depthAllowed] at hd ⊢ <;> omega
  have hn : 0 < bytesPerRow st.width st.bitDepth st.colorType - 1 ∧
      st.width * key.length * st.bitDepth ≤ 8 * (bytesPerRow st.width st.bitDepth st.colorType - 1) := by
    unfold bytesPerRow
    rw [hspp]
    simp only [Nat.add_sub_cancel]
    have hk : 0 < key.length := by rcases hck with ⟨_, hk⟩ | ⟨_, hk⟩ <;> omega
    have hdp : 0 < st.bitDepth := by simp at hdm; omega
    have hpos : 0 < st.width * (st.bitDepth * key.length) :=
      Nat.mul_pos hw (Nat.mul_pos hdp hk)
    have : st.width * key.length * st.bitDepth = st.width * (st.bitDepth * key.length) := by
      rw [Nat.mul_assoc, Nat.mul_comm key.length]
    omega
  have hrs := rowSamples_spec st.bitDepth (st.width * key.length) _ rows hdm hn.1 hr hn.2
  have hnp : st.colorType ≠ .palette ∧ st.colorType.hasAlpha = false := by
    rcases hck with ⟨h, _⟩ | ⟨h, _⟩ <;> simp [h, ColorType.hasAlpha]
  unfold planesOf colorKeyAlpha
  simp only [hnp.1, if_false, hnp.2, Bool.false_eq_true, hkey, Option.map_some, hrs]
  rfl

/-- 3×1 greyscale at 2 bits (samples 1,3,1 → byte 0x74), key 1 -/
example : decodeImageData { width := 3, height := 1, bitDepth := 2, colorType := .gray,
                            trns := some (.gray 1) } (filterRows 1 [0] [[0x74]] [0])
    = .ok ([0x74], some [0, 255, 0]) := by
  decide

/-! ## from the file bytes: chunk walk, PLTE / tRNS, IDAT concatenation, decode -/

/-- an optional chunk of the file -/
def optChunk (tag : String) : Option (List Nat) → List Nat
  | none => []
  | some d => Spec.C24Png.chunk tag d

/-- the decoder state after IHDR, optional PLTE, optional tRNS -/
def headerState (w h depth : Nat) (ct : ColorType) (plte trns : Option (List Nat)) : Decoder :=
  let st1 : Decoder := { width := w, height := h, bitDepth := depth, colorType := ct, hasIhdr := true }
  let st2 : Decoder := match plte with
    | none => st1
    | some p => { st1 with palette := some p }
  match trns with
  | none => st2
  | some t => processTrns st2 t

/-- A whole PNG *file* of any colour type and allowed bit depth — signature, IHDR (not interlaced),
PLTE and tRNS present or not, the zlib stream cut into any number of IDAT chunks at arbitrary
places, IEND — for any image size and any per-row filter choice, with zlib inflate as the
external parameter (`hinfl`: it returns the scanline stream the reference filter produced).  The
decoder returns exactly the planes that `planesOf` derives from the supplied scanlines (described
sample by sample in `C24_png_opaque_samples`, `C24_png_alpha_samples`, `C24_png_palette_pixels`,
`C24_png_colorkey_alpha`).  (CRC values are whatever the reference encoder wrote; the decoder
ignores them.) -/
theorem C24_png_file (inflate : Inflate) (w h depth ctb : Nat) (ct : ColorType)
    (plte trns : Option (List Nat))
    (zs : List (List Nat)) (rows : List (List Nat)) (fts : List Nat)
    (img : List Nat) (alpha : Option (List Nat))
    (hct : ColorType.fromByte ctb = some ct) (hda : depthAllowed ct depth = true)
    (hw : 0 < w ∧ w < 4294967296) (hh : 0 < h ∧ h < 4294967296)
    (hsz : h * bytesPerRow w depth ct < usizeMax)
    (hpl : ∀ p, plte = some p → p.length % 3 = 0 ∧ p.length < 4294967296)
    (htr : ∀ t, trns = some t → t.length < 4294967296)
    (hz : zs ≠ [] ∧ ∀ z ∈ zs, z.length < 4294967296)
    (hinfl : inflate zs.flatten = .ok (filterRows (bytesPerPixel depth ct) fts rows
              (List.replicate (bytesPerRow w depth ct - 1) 0)))
    (hi : rows.length = h)
    (hr : ∀ r ∈ rows, r.length = bytesPerRow w depth ct - 1 ∧ ∀ x ∈ r, x < 256)
    (hf : fts.length = rows.length) (hfv : ∀ f ∈ fts, f ≤ 4)
    (hplanes : planesOf (headerState w h depth ct plte trns) rows.flatten
                 (bytesPerRow w depth ct - 1) = .ok (img, alpha)) :
    decodePng inflate
        (signature ++ (Spec.C24Png.chunk "IHDR"
            (Spec.C24Png.be32 w ++ Spec.C24Png.be32 h ++ [depth, ctb, 0, 0, 0]) ++
          (optChunk "PLTE" plte ++ (optChunk "tRNS" trns ++
            ((zs.map (Spec.C24Png.chunk "IDAT")).flatten ++ Spec.C24Png.chunk "IEND" []))))) =
      .ok { width := w, height := h, bitDepth := depth, colorType := ct,
            imageData := img, alphaData := alpha,
            palette := (headerState w h depth ct plte trns).palette,
            trns := (headerState w h depth ct plte trns).trns } := by
  -- facts about the header state
  have hs : (headerState w h depth ct plte trns).width = w ∧
      (headerState w h depth ct plte trns).height = h ∧
      (headerState w h depth ct plte trns).bitDepth = depth ∧
      (headerState w h depth ct plte trns).colorType = ct ∧
      (headerState w h depth ct plte trns).hasIhdr = true ∧
      (headerState w h depth ct plte trns).idat = [] := by
    unfold headerState
    cases plte <;> cases trns <;> simp [processTrns]
  obtain ⟨hsw, hsh, hsd, hsc, hsi, hsz'⟩ := hs
  let stF : Decoder := { headerState w h depth ct plte trns with idat := zs }
  have hwalk : ∀ fuel, zs.length + 4 ≤ fuel →
      walk fuel (Spec.C24Png.chunk "IHDR"
            (Spec.C24Png.be32 w ++ Spec.C24Png.be32 h ++ [depth, ctb, 0, 0, 0]) ++
          (optChunk "PLTE" plte ++ (optChunk "tRNS" trns ++
            ((zs.map (Spec.C24Png.chunk "IDAT")).flatten ++ Spec.C24Png.chunk "IEND" [])))) {}
        = .ok stF := by
    intro fuel hfu
    have hiend : ∀ (F : Nat) (st : Decoder), st.idat = [] →
        walk ((F + 1) + zs.length)
          ((zs.map (Spec.C24Png.chunk "IDAT")).flatten ++ Spec.C24Png.chunk "IEND" []) st
          = .ok { st with idat := zs } := by
      intro F st hst
      rw [walk_IDATs zs (F + 1) _ _ hz.2]
      have := walk_IEND F [] { st with idat := st.idat ++ zs }
      rw [List.append_nil] at this
      rw [this, hst, List.nil_append]
    obtain ⟨F, rfl⟩ : ∃ F, fuel = ((((F + 1) + zs.length) + 1) + 1) + 1 :=
      ⟨fuel - zs.length - 4, by omega⟩
    rw [walk_IHDR _ _ _ _ (by simp [Spec.C24Png.be32]),
      processIhdr_ok {} w h depth ctb ct hw.2 hh.2 hct hda]
    simp only []
    cases hP : plte with
    | none =>
      cases hT : trns with
      | none =>
        simp only [optChunk, List.nil_append, stF, headerState, hP, hT]
        rw [show F + 1 + zs.length + 1 + 1 = (F + 2 + 1) + zs.length by omega]
        exact hiend (F + 2) _ rfl
      | some t =>
        simp only [optChunk, List.nil_append, stF, headerState, hP, hT]
        rw [walk_tRNS _ _ _ _ (htr t hT),
          show F + 1 + zs.length + 1 = (F + 1 + 1) + zs.length by omega]
        exact hiend (F + 1) _ (by simp [processTrns])
    | some p =>
      have hp3 := (hpl p hP).1
      cases hT : trns with
      | none =>
        simp only [optChunk, List.nil_append, stF, headerState, hP, hT]
        rw [walk_PLTE _ _ _ _ (hpl p hP).2]
        simp only [processPlte, hp3, ne_eq, not_true_eq_false, if_false]
        rw [show F + 1 + zs.length + 1 = (F + 1 + 1) + zs.length by omega]
        exact hiend (F + 1) _ rfl
      | some t =>
        simp only [optChunk, stF, headerState, hP, hT]
        rw [walk_PLTE _ _ _ _ (hpl p hP).2]
        simp only [processPlte, hp3, ne_eq, not_true_eq_false, if_false]
        rw [walk_tRNS _ _ _ _ (htr t hT)]
        exact hiend F _ (by simp [processTrns])
  have hlenz := idat_chunks_length zs
  unfold decodePng
  generalize hfile : Spec.C24Png.chunk "IHDR"
            (Spec.C24Png.be32 w ++ Spec.C24Png.be32 h ++ [depth, ctb, 0, 0, 0]) ++
          (optChunk "PLTE" plte ++ (optChunk "tRNS" trns ++
            ((zs.map (Spec.C24Png.chunk "IDAT")).flatten ++ Spec.C24Png.chunk "IEND" []))) = body
      at hwalk ⊢
  have hbl : zs.length + 4 ≤ body.length + 8 + 1 := by
    rw [← hfile]; simp only [List.length_append]; omega
  have hsig : ¬ ((signature ++ body).length < 8 ∨ (signature ++ body).take 8 ≠ signature) := by
    simp [signature]
  rw [if_neg hsig]
  have hdrop : (signature ++ body).drop 8 = body := by simp [signature]
  have hsl : (signature ++ body).length = body.length + 8 := by simp [signature]
  rw [hdrop, hsl, hwalk _ hbl]
  have hne : zs.isEmpty = false := by
    cases zs with
    | nil => exact absurd rfl hz.1
    | cons _ _ => rfl
  have hr' : ∀ r ∈ rows, r.length = bytesPerRow stF.width stF.bitDepth stF.colorType - 1 ∧
      ∀ x ∈ r, x < 256 := by
    simpa [stF, hsw, hsd, hsc] using hr
  have hdec := C24_scanlines_unfiltered stF rows fts (by simpa [stF, hsh] using hi) hr' hf hfv
    (by simpa [stF, hsw, hsh, hsd, hsc] using hsz)
  have hpl0 : ∀ n, planesOf stF rows.flatten n
      = planesOf (headerState w h depth ct plte trns) rows.flatten n := fun _ => rfl
  have hbr : bytesPerRow stF.width stF.bitDepth stF.colorType = bytesPerRow w depth ct := by
    simp only [stF, hsw, hsd, hsc]
  have hpeq : planesOf stF rows.flatten (bytesPerRow stF.width stF.bitDepth stF.colorType - 1)
      = .ok (img, alpha) := by
    rw [hbr, hpl0, hplanes]
  rw [hpeq] at hdec
  simp only [stF, hsw, hsh, hsd, hsc, hsi] at hdec ⊢
  simp only [Bool.not_true, Bool.false_eq_true, if_false, hne, hinfl]
  rw [if_neg (by omega), hdec]

/-- a 2×1 RGBA file, the zlib stream in two IDAT chunks -/
example : ∃ d, decodePng (fun _ => .ok (filterRows 4 [1] [[[1, 2, 3, 4], [5, 6, 7, 8]].flatten]
      (List.replicate 8 0)))
    (signature ++ (Spec.C24Png.chunk "IHDR"
        (Spec.C24Png.be32 2 ++ Spec.C24Png.be32 1 ++ [8, 6, 0, 0, 0]) ++
      (optChunk "PLTE" none ++ (optChunk "tRNS" none ++
      (([[0x78, 1], [9]].map (Spec.C24Png.chunk "IDAT")).flatten ++ Spec.C24Png.chunk "IEND" [])))))
    = .ok d ∧ d.imageData = [1, 2, 3, 5, 6, 7] ∧ d.alphaData = some [4, 8] :=
  ⟨_, C24_png_file _ 2 1 8 6 .rgbAlpha none none [[0x78, 1], [9]]
      [[[1, 2, 3, 4], [5, 6, 7, 8]].flatten] [1] [1, 2, 3, 5, 6, 7] (some [4, 8])
      rfl rfl (by decide) (by decide) (by decide) (by simp) (by simp) (by decide) rfl rfl
      (by decide) rfl (by decide) (by decide), rfl, rfl⟩

/-- a 5×1 palette file at 2 bits per index with PLTE and tRNS chunks -/
example : ∃ d, decodePng (fun _ => .ok (filterRows 1 [0] [[0xC6, 0x40]] [0, 0]))
    (signature ++ (Spec.C24Png.chunk "IHDR"
        (Spec.C24Png.be32 5 ++ Spec.C24Png.be32 1 ++ [2, 3, 0, 0, 0]) ++
      (optChunk "PLTE" (some [1, 2, 3, 4, 5, 6, 7, 8, 9, 10, 11, 12]) ++
      (optChunk "tRNS" (some [0, 128]) ++
      (([[0x78, 1, 9]].map (Spec.C24Png.chunk "IDAT")).flatten ++ Spec.C24Png.chunk "IEND" [])))))
    = .ok d ∧ d.imageData = [10, 11, 12, 1, 2, 3, 4, 5, 6, 7, 8, 9, 4, 5, 6] ∧
      d.alphaData = some [255, 0, 128, 255, 128] :=
  ⟨_, C24_png_file _ 5 1 2 3 .palette (some [1, 2, 3, 4, 5, 6, 7, 8, 9, 10, 11, 12])
      (some [0, 128]) [[0x78, 1, 9]] [[0xC6, 0x40]] [0]
      [10, 11, 12, 1, 2, 3, 4, 5, 6, 7, 8, 9, 4, 5, 6] (some [255, 0, 128, 255, 128])
      rfl rfl (by decide) (by decide) (by decide) (by simp) (by simp) (by decide) rfl rfl
      (by decide) rfl (by decide) (by decide), rfl, rfl⟩

/-! ## zlib with stored blocks: no inflate hypothesis -/

/-- `decompress_idat` on a stored-block zlib stream (the model's `storedInflate`, which follows
flate2's `read::ZlibDecoder`) returns what the reference encoder (RFC 1950 header, stored blocks of
at most `blk` bytes, Adler-32) was given — any block size, any data. -/
theorem C24_storedInflate_zlibStored (blk : Nat) (data : List Nat) :
    storedInflate (Spec.C24Png.zlibStored blk data) = .ok data :=
  storedInflate_zlibStored blk data

example : storedInflate (Spec.C24Png.zlibStored 2 [1, 2, 3]) = .ok [1, 2, 3] :=
  C24_storedInflate_zlibStored 2 [1, 2, 3]

/-- `C24_png_file` for files whose zlib stream is the reference stored-block encoding of the
filtered scanlines, cut into IDAT chunks anywhere (also inside block headers and the Adler-32):
nothing about zlib is assumed. -/
theorem C24_png_file_stored (blk w h depth ctb : Nat) (ct : ColorType)
    (plte trns : Option (List Nat))
    (zs : List (List Nat)) (rows : List (List Nat)) (fts : List Nat)
    (img : List Nat) (alpha : Option (List Nat))
    (hct : ColorType.fromByte ctb = some ct) (hda : depthAllowed ct depth = true)
    (hw : 0 < w ∧ w < 4294967296) (hh : 0 < h ∧ h < 4294967296)
    (hsz : h * bytesPerRow w depth ct < usizeMax)
    (hpl : ∀ p, plte = some p → p.length % 3 = 0 ∧ p.length < 4294967296)
    (htr : ∀ t, trns = some t → t.length < 4294967296)
    (hz : zs ≠ [] ∧ ∀ z ∈ zs, z.length < 4294967296)
    (hzl : zs.flatten = Spec.C24Png.zlibStored blk (filterRows (bytesPerPixel depth ct) fts rows
              (List.replicate (bytesPerRow w depth ct - 1) 0)))
    (hi : rows.length = h)
    (hr : ∀ r ∈ rows, r.length = bytesPerRow w depth ct - 1 ∧ ∀ x ∈ r, x < 256)
    (hf : fts.length = rows.length) (hfv : ∀ f ∈ fts, f ≤ 4)
    (hplanes : planesOf (headerState w h depth ct plte trns) rows.flatten
                 (bytesPerRow w depth ct - 1) = .ok (img, alpha)) :
    decodePng storedInflate
        (signature ++ (Spec.C24Png.chunk "IHDR"
            (Spec.C24Png.be32 w ++ Spec.C24Png.be32 h ++ [depth, ctb, 0, 0, 0]) ++
          (optChunk "PLTE" plte ++ (optChunk "tRNS" trns ++
            ((zs.map (Spec.C24Png.chunk "IDAT")).flatten ++ Spec.C24Png.chunk "IEND" []))))) =
      .ok { width := w, height := h, bitDepth := depth, colorType := ct,
            imageData := img, alphaData := alpha,
            palette := (headerState w h depth ct plte trns).palette,
            trns := (headerState w h depth ct plte trns).trns } :=
  C24_png_file storedInflate w h depth ctb ct plte trns zs rows fts img alpha hct hda hw hh hsz hpl
    htr hz (by rw [hzl]; exact C24_storedInflate_zlibStored _ _) hi hr hf hfv hplanes

/-! ## what the image object carries into the document -/

/-- Whatever `from_png_data` accepts is embedded with the decoded bytes as image data under the
PNG's own bit depth (8 for a palette image, whose indices were expanded to 8-bit RGB), and the
alpha plane (if any) as a DeviceGray SMask of the same size whose samples are 16 bits wide exactly
when the image's are. -/
theorem C24_fromPng_shape (inflate : Inflate) (file : List Nat) (img : Image)
    (h : Image.fromPngData inflate file = .ok img) :
    ∃ d, decodePng inflate file = .ok d ∧
      img.bitsPerComponent = (if d.colorType = .palette then 8 else d.bitDepth) ∧
      img.data = d.imageData ∧ img.width = d.width ∧ img.height = d.height ∧
      img.embed.main.data = d.imageData ∧ img.embed.main.bpc = img.bitsPerComponent ∧
      img.embed.main.filter = "FlateDecode" ∧
      img.embed.smask = d.alphaData.map (fun a =>
        { width := d.width, height := d.height,
          bpc := if img.bitsPerComponent = 16 then 16 else 8, cs := "DeviceGray",
          filter := "FlateDecode", data := a }) := by
  unfold Image.fromPngData at h
  cases hd : decodePng inflate file with
  | err e => simp [hd] at h
  | panic => simp [hd] at h
  | ok d =>
    simp only [hd, Outcome.ok.injEq] at h
    subst h
    refine ⟨d, rfl, rfl, rfl, rfl, rfl, ?_⟩
    have hfmt : (Format.png == Format.jpeg) = false := by decide
    cases ha : d.alphaData <;>
      simp [Image.embed, Image.hasTransparency, ha, hfmt]

/-- JPEG pass-through: an accepted JPEG is embedded byte for byte under DCTDecode, no SMask. -/
theorem C24_jpeg_passthrough (file : List Nat) (img : Image)
    (h : Image.fromJpegData file = .ok img) :
    img.embed.main.data = file ∧ img.embed.main.filter = "DCTDecode" ∧ img.embed.smask = none := by
  unfold Image.fromJpegData at h
  split at h
  · simp at h
  · cases hs : jpegScan file (file.length + 1) 2 with
    | err e => simp [hs] at h
    | panic => simp [hs] at h
    | ok r =>
      obtain ⟨w, hh, comps⟩ := r
      simp only [hs] at h
      split at h
      · simp at h
      · cases hc : csOfComponents comps with
        | none => simp [hc] at h
        | some cs =>
          simp only [hc, Outcome.ok.injEq] at h
          subst h
          simp [Image.embed, Image.hasTransparency]

example : ∃ img, Image.fromJpegData
    [0xFF, 0xD8, 0xFF, 0xC0, 0, 11, 8, 0, 2, 0, 3, 1, 1, 0x11, 0, 0xFF, 0xD9] = .ok img ∧
    img.width = 3 ∧ img.height = 2 :=
  ⟨{ data := [0xFF, 0xD8, 0xFF, 0xC0, 0, 11, 8, 0, 2, 0, 3, 1, 1, 0x11, 0, 0xFF, 0xD9],
     format := .jpeg, width := 3, height := 2, colorSpace := .deviceGray, bitsPerComponent := 8,
     alphaData := none, softMask := none }, by decide, rfl, rfl⟩

/-- Raw buffers: `from_raw_data` embeds the buffer unchanged with the given geometry. -/
theorem C24_raw_passthrough (data : List Nat) (w h bpc : Nat) (cs : ColorSpace) :
    (Image.fromRawData data w h cs bpc).embed =
      { main := { width := w, height := h, bpc := bpc, cs := cs.name, filter := "none",
                  data := data }, smask := none } := by
  simp [Image.fromRawData, Image.embed, Image.hasTransparency]

/-- RGBA buffers: colour bytes to the image, alpha bytes to the SMask, pixel by pixel. -/
theorem C24_rgba_split (px : List (List Nat)) (w h : Nat) (hp : ∀ p ∈ px, p.length = 4)
    (hn : px.length = w * h) (hs : w * h * 4 < u32Max) :
    ∃ img, Image.fromRgbaData px.flatten w h = .ok img ∧
      img.embed.main.data = (px.map (List.take 3)).flatten ∧
      img.embed.main.bpc = 8 ∧ img.embed.main.cs = "DeviceRGB" ∧
      img.embed.smask = some { width := w, height := h, bpc := 8, cs := "DeviceGray",
                               filter := "FlateDecode",
                               data := (px.map (List.drop 3)).flatten } := by
  have h1 : w * h < u32Max := by omega
  have hl : px.flatten.length = w * h * 4 := by rw [flatten_length_const 4 px hp, hn]
  unfold Image.fromRgbaData
  simp only [mulU32, h1, if_true, Option.bind_some, hs, hl, ne_eq, not_true_eq_false, if_false]
  rw [← hl, splitChunks_flatten 4 3 (by decide) px _ hp (by rw [flatten_length_const 4 px hp]; omega)]
  exact ⟨_, rfl, by simp [Image.embed, Image.hasTransparency, ColorSpace.name]⟩

example : ∃ img, Image.fromRgbaData [[1, 2, 3, 4], [5, 6, 7, 8]].flatten 2 1 = .ok img ∧
    img.embed.main.data = [1, 2, 3, 5, 6, 7] :=
  let ⟨img, h, hd, _⟩ := C24_rgba_split [[1, 2, 3, 4], [5, 6, 7, 8]] 2 1 (by decide) rfl (by decide)
  ⟨img, h, hd⟩

/-! ## counter-witnesses

`C24_witness_interlaced_rejected` is about the current code (finding C24-F1, open).  The others are
about the code before the repairs (`Model/C24Old.lean`) — the regressions the check must catch — each
followed by what the repaired code does on the same input. -/

/-- Adam7: every IHDR with a non-zero interlace byte is refused (png_decoder.rs:247). -/
theorem C24_witness_interlaced_rejected (st : Decoder) (d : List Nat) (hl : 13 ≤ d.length)
    (hct : (ColorType.fromByte (d.getD 9 0)).isSome) (hm : d.getD 10 0 = 0 ∧ d.getD 11 0 = 0)
    (hda : ∀ ct, ColorType.fromByte (d.getD 9 0) = some ct → depthAllowed ct (d.getD 8 0) = true)
    (hi : d.getD 12 0 ≠ 0) : processIhdr st d = .err .interlaced := by
  unfold processIhdr
  rw [if_neg (by omega)]
  cases hc : ColorType.fromByte (d.getD 9 0) with
  | none => rw [hc] at hct; simp at hct
  | some ct =>
    simp only []
    rw [if_neg (by rw [hm.1, hm.2]; simp), if_neg (by rw [hda ct hc]; simp), if_pos hi]

example : processIhdr {} [0, 0, 0, 1, 0, 0, 0, 1, 8, 0, 0, 0, 1] = .err .interlaced :=
  C24_witness_interlaced_rejected {} _ (by decide) (by decide) (by decide) (by decide) (by decide)

/-- OLD CODE.  A 9×1 1-bit greyscale image: the true scanline stream is filter byte + ⌈9/8⌉ = 2
bytes; the old code wanted 9·1+1 = 10 and reported "Insufficient PNG image data". -/
theorem C24_witness_subbyte_rejected :
    Old.decodeImageData { width := 9, height := 1, bitDepth := 1, colorType := .gray }
      [0, 0xAA, 0x80] = .err .insufficient := by decide

/-- repaired: the packed scanline is the image data (embedded under BitsPerComponent 1) -/
theorem C24_repaired_subbyte :
    decodeImageData { width := 9, height := 1, bitDepth := 1, colorType := .gray }
      [0, 0xAA, 0x80] = .ok ([0xAA, 0x80], none) := by decide

/-- OLD CODE.  A 1×1 8-bit palette image: true stream = filter byte + 1 index byte; the old code
counted 3 channels and wanted 4 bytes. -/
theorem C24_witness_palette_rejected :
    Old.decodeImageData { width := 1, height := 1, bitDepth := 8, colorType := .palette,
                          palette := some [10, 20, 30] } [0, 0] = .err .insufficient := by decide

/-- repaired: the pixel is PLTE entry 0 -/
theorem C24_repaired_palette :
    decodeImageData { width := 1, height := 1, bitDepth := 8, colorType := .palette,
                      palette := some [10, 20, 30] } [0, 0] = .ok ([10, 20, 30], none) := by decide

/-- OLD CODE.  A 1×1 16-bit RGBA pixel R=0x0102 G=0x0304 B=0x0506 A=0x0708: the 4-byte split put
the low byte of G and of A into the "alpha" plane and A's high byte into the colour plane, and the
planes were then declared 8 bits per component. -/
theorem C24_witness_16bit_alpha_mixed :
    Old.decodeImageData { width := 1, height := 1, bitDepth := 16, colorType := .rgbAlpha }
      [0, 1, 2, 3, 4, 5, 6, 7, 8] = .ok ([1, 2, 3, 5, 6, 7], some [4, 8]) := by decide

/-- repaired: whole samples — colour 0102 0304 0506, alpha 0708 -/
theorem C24_repaired_16bit_alpha :
    decodeImageData { width := 1, height := 1, bitDepth := 16, colorType := .rgbAlpha }
      [0, 1, 2, 3, 4, 5, 6, 7, 8] = .ok ([1, 2, 3, 4, 5, 6], some [7, 8]) := by decide

/-- OLD CODE.  16-bit grey 2×1 (samples 0x0102, 0x0304): four data bytes were embedded for a 2×1
image declared 8 bits per component; the repaired `from_png_data` declares the PNG's depth
(`C24_fromPng_shape`). -/
theorem C24_witness_16bit_declared_8 :
    Old.decodeImageData { width := 2, height := 1, bitDepth := 16, colorType := .gray }
      [0, 1, 2, 3, 4] = .ok ([1, 2, 3, 4], none) ∧ Old.bitsPerComponent 16 = 8 := by decide

/-- OLD CODE.  tRNS colour key: the key was parsed and then never used — the decoded planes did
not depend on the `trns` field at all, so key-coloured pixels stayed opaque (no SMask). -/
theorem C24_witness_trns_dropped (st : Decoder) (t : Option Trns) (raw : List Nat) :
    Old.decodeImageData { st with trns := t } raw = Old.decodeImageData st raw := rfl

/-- repaired: the key-coloured pixel is transparent -/
theorem C24_repaired_trns :
    decodeImageData { width := 2, height := 1, bitDepth := 8, colorType := .gray,
                      trns := some (.gray 7) } [0, 7, 8] = .ok ([7, 8], some [0, 255]) := by decide

example : (Old.decodeImageData { width := 1, height := 1, bitDepth := 8, colorType := .gray,
                                 trns := some (.gray 7) } [0, 7]) = .ok ([7], none) := by decide

end OxiVerif.C24
