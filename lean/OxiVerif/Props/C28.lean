import OxiVerif.Lemmas.C28
import OxiVerif.Lemmas.C28Dest
/-!
# C28 — outlines written are navigable as authored (ISO 32000-1 §12.3.3, Tables 152/153)

`Impl.write` is the transcription of `write_outline_tree` / `write_outline_item` /
`outline_sibling_ids` / `outline_item_to_dict`; `Spec.write` is the link graph the authored
forest denotes under the same (pre-order) id assignment: every `/Prev /Next /First /Last` is the
id *given to* that sibling / child, `/Count` is Table 153's.  All statements are for every forest
(any nesting, width, open/closed flags), every id pool and every root id.

`ImplOld.write` / `Item.countEntryOld` transcribe the code before the two repairs (C28-F1:
sibling ids looked up by position; C28-F2: closed `/Count` = minus all descendants).  The two
witnesses show that the full statement was false of that code — the regressions this check
must keep catching.
-/
namespace OxiVerif.C28

/-- FULL statement: the written link graph (root entries, every item's five links, every
`/Count`) is the one the authored forest denotes — for **every** forest. -/
theorem C28_write (r : Nat) (pool : List Nat) (items : List Item) :
    Impl.write r pool items = Spec.write r pool items := by
  unfold Impl.write Spec.write
  rw [writeTreeN_eq]
  have : Item.countEntry = Spec.countEntry := funext countEntry_eq
  rw [this]

-- non-vacuity: branching non-last siblings, closed over closed, three levels
example :
    let g := Impl.write 0 [1, 2, 3, 4, 5, 6]
      [.mk false [.mk false [.mk true []], .mk true []], .mk true [.mk true []]]
    g.2.map (·.next) = [some 5, some 4, none, none, none, none] ∧
    g.2.map (·.prev) = [none, none, none, some 2, some 1, none] ∧
    g.2.map (·.last) = [some 4, some 3, none, none, some 6, none] ∧
    g.2.map (·.count) = [some (-2), some (-1), none, none, some 1, none] ∧
    g.1.last = some 5 := by decide

/-- Links alone (whatever is put into `/Count`): `outline_sibling_ids` hands every sibling the
id it was given, on every forest. -/
theorem C28_links (cnt : Item → Option Int) (r : Nat) (pool : List Nat) (items : List Item) :
    writeTreeN cnt r pool items = writeTree posTrue cnt r pool items :=
  writeTreeN_eq cnt r pool items

example : (writeTreeN (fun _ => none) 7 [1, 2, 3] [.mk true [.mk true []], .mk true []]).1.last
    = some 3 := by decide

/-- the ids `outline_sibling_ids` returns: sibling `j` sits after the whole subtrees of the
siblings before it -/
theorem C28_sibling_ids (pool : List Nat) (idx : Nat) (sibs : List Item) (j : Nat)
    (hj : j < sibs.length) :
    idAt (siblingIds pool idx sibs) j = at' pool (idx + sizeList (sibs.take j)) :=
  siblingIds_idAt pool idx sibs j hj

example : siblingIds [10, 11, 12, 13] 0 [.mk true [.mk true [], .mk true []], .mk true []]
    = [10, 13] := by decide

/-- `/Count` of every item is Table 153's: absent without children, the number of visible
descendants when open, minus the number of descendants shown on opening when closed. -/
theorem C28_count (it : Item) : it.countEntry = Spec.countEntry it := countEntry_eq it

example : (Item.mk false [.mk false [.mk true []], .mk true [.mk true []]]).countEntry
    = some (-3) := by decide

/-- the root's `/Count` is the number of visible items, on every forest -/
theorem C28_root_count (r : Nat) (pool : List Nat) (items : List Item) (h : items ≠ []) :
    (Impl.write r pool items).1.count = some (Int.ofNat (visibleList items)) := by
  cases items with
  | nil => exact absurd rfl h
  | cons c cs => simp [Impl.write, writeTreeN]

example : (Impl.write 0 [1, 2, 3] [.mk false [.mk true []], .mk true []]).1.count = some 2 := by
  decide

/-- Every item is written under its own object number: the items' ids are exactly the reserved
pool in pre-order, hence pairwise distinct. -/
theorem C28_ids_distinct (r : Nat) (pool : List Nat) (items : List Item)
    (hlen : pool.length = sizeList items) (hnd : pool.Nodup) :
    (Impl.write r pool items).2.map (·.id) = pool ∧
    ((Impl.write r pool items).2.map (·.id)).Nodup := by
  have : (Impl.write r pool items).2.map (·.id) = pool := by
    rw [Impl.write, writeTreeN_eq]
    exact ids_write posTrue Item.countEntry r pool items hlen
  exact ⟨this, by rw [this]; exact hnd⟩

example : (Impl.write 0 [4, 5, 6] [.mk true [.mk true []], .mk true []]).2.map (·.id) = [4, 5, 6] := by
  decide

/-! ## destinations (`structure/destination.rs`, ISO 32000-1 Table 151) -/

/-- The array `Destination::to_array` produces, read per Table 151, is the authored destination:
same page designator, same fit type, same parameters (null where none was given) — for every
destination of every kind. -/
theorem C28_dest_array_reads_back (d : Dest) :
    Spec.readDest d.toArray = some (Spec.ofDest d) := by
  obtain ⟨page, ty⟩ := d
  cases ty with
  | xyz l t z => cases l <;> cases t <;> cases z <;> simp [Dest.toArray, Spec.readDest, Spec.ofDest, optReal]
  | fit => simp [Dest.toArray, Spec.readDest, Spec.ofDest]
  | fitH t => cases t <;> simp [Dest.toArray, Spec.readDest, Spec.ofDest, optReal]
  | fitV l => cases l <;> simp [Dest.toArray, Spec.readDest, Spec.ofDest, optReal]
  | fitR l b r t => simp [Dest.toArray, Spec.readDest, Spec.ofDest]
  | fitB => simp [Dest.toArray, Spec.readDest, Spec.ofDest]
  | fitBH t => cases t <;> simp [Dest.toArray, Spec.readDest, Spec.ofDest, optReal]
  | fitBV l => cases l <;> simp [Dest.toArray, Spec.readDest, Spec.ofDest, optReal]

example : Spec.readDest (Dest.toArray ⟨.num 3, .xyz (some 100250000) none (some (-1))⟩)
    = some (.int 3, "XYZ", [some 100250000, none, some (-1)]) := by decide

/-- `Destination::from_array` undoes `Destination::to_array` for every destination whose page
number fits `u32` (page references always). -/
theorem C28_dest_roundtrip (d : Dest)
    (hp : ∀ n, d.page = .num n → n < 4294967296) :
    Dest.fromArray d.toArray = some d := by
  obtain ⟨page, ty⟩ := d
  cases page with
  | ref r =>
    cases ty with
    | xyz l t z =>
      cases l <;> cases t <;> cases z <;> simp [Dest.toArray, Dest.fromArray, el, optReal, optParam]
    | fit => simp [Dest.toArray, Dest.fromArray, el]
    | fitH t => cases t <;> simp [Dest.toArray, Dest.fromArray, el, optReal, optParam]
    | fitV l => cases l <;> simp [Dest.toArray, Dest.fromArray, el, optReal, optParam]
    | fitR l b r t => simp [Dest.toArray, Dest.fromArray, el, reqParam]
    | fitB => simp [Dest.toArray, Dest.fromArray, el]
    | fitBH t => cases t <;> simp [Dest.toArray, Dest.fromArray, el, optReal, optParam]
    | fitBV l => cases l <;> simp [Dest.toArray, Dest.fromArray, el, optReal, optParam]
  | num n =>
    have hn : asU32 (n : Int) = n := asU32_ofNat n (hp n rfl)
    cases ty with
    | xyz l t z =>
      cases l <;> cases t <;> cases z <;>
        simp [Dest.toArray, Dest.fromArray, el, optReal, optParam, hn]
    | fit => simp [Dest.toArray, Dest.fromArray, el, hn]
    | fitH t => cases t <;> simp [Dest.toArray, Dest.fromArray, el, optReal, optParam, hn]
    | fitV l => cases l <;> simp [Dest.toArray, Dest.fromArray, el, optReal, optParam, hn]
    | fitR l b r t => simp [Dest.toArray, Dest.fromArray, el, reqParam, hn]
    | fitB => simp [Dest.toArray, Dest.fromArray, el, hn]
    | fitBH t => cases t <;> simp [Dest.toArray, Dest.fromArray, el, optReal, optParam, hn]
    | fitBV l => cases l <;> simp [Dest.toArray, Dest.fromArray, el, optReal, optParam, hn]

example : Dest.fromArray (Dest.toArray ⟨.num 4294967295, .fitR 0 (-250000) 595275590 841889764⟩)
    = some ⟨.num 4294967295, .fitR 0 (-250000) 595275590 841889764⟩ := by decide

/-! ## named destinations (`structure/name_tree.rs`, ISO 32000-1 §7.9.6, §12.3.2.3)

For every sequence of `add_destination` calls, over any key order that is a strict total order
(`ltBytes_strictTotal`: the byte-wise order of `String` is one). -/

/-- The `/Names` array is written with strictly ascending keys. -/
theorem C28_names_sorted {κ ν : Type} (lt : κ → κ → Bool) (st : StrictTotal lt)
    (adds : List (κ × ν)) : Spec.ascending lt (NT.build lt adds).names = true := by
  apply ascending_of_sorted
  exact (build_invariant lt st adds NT.new List.Pairwise.nil rfl).1

/-- `/Limits` is `[least key, greatest key]` of the written array (absent for an empty tree),
although the code maintains it separately from the map. -/
theorem C28_names_limits {κ ν : Type} (lt : κ → κ → Bool) (st : StrictTotal lt)
    (adds : List (κ × ν)) :
    (NT.build lt adds).limits =
      match keyHead (NT.build lt adds).names, keyLast (NT.build lt adds).names with
      | some a, some b => some (a, b)
      | _, _ => none :=
  (build_invariant lt st adds NT.new List.Pairwise.nil rfl).2

/-- Every name resolves to the destination authored for it last — both through the library's
`get_destination` and through a reader's scan of the written `/Names` pairs; names never added
resolve to nothing. -/
theorem C28_names_resolve {κ ν : Type} [DecidableEq κ] (lt : κ → κ → Bool) (st : StrictTotal lt)
    (adds : List (κ × ν)) (q : κ) :
    (NT.build lt adds).get q = Spec.authored adds q ∧
    Spec.lookupWritten (NT.build lt adds).names q = Spec.authored adds q := by
  have h : (NT.build lt adds).get q = Spec.authored adds q := by
    unfold NT.get NT.build
    rw [foldl_add_names, get_foldl lt st, authoredFrom_eq]
    simp [Spec.authored, NT.new]
  refine ⟨h, ?_⟩
  rw [lookupWritten_eq]
  exact h

/-- the instance the writer uses: `String` keys compared byte-wise -/
theorem C28_names_bytes (adds : List (List Nat × Dest)) (q : List Nat) :
    Spec.ascending ltBytes (NT.build ltBytes adds).names = true ∧
    Spec.lookupWritten (NT.build ltBytes adds).names q = Spec.authored adds q :=
  ⟨C28_names_sorted ltBytes ltBytes_strictTotal adds,
   (C28_names_resolve ltBytes ltBytes_strictTotal adds q).2⟩

example :
    let t := NT.build ltBytes [([105], 2), ([73], 0), ([97], 1), ([105], 7), ([], 9)]
    t.names = [([], 9), ([73], 0), ([97], 1), ([105], 7)] ∧ t.limits = some ([], [105]) ∧
    t.get [105] = some 7 ∧ t.get [106] = none := by decide

/-! ## the code before the repairs -/

/-- Where the unrepaired code was right: in every sibling list only the last item has
children (so `first_idx + j` is where sibling `j` really is) and no closed item has a closed
item with children below it (so "all descendants" = "descendants shown when opened"). -/
theorem C28_old_write_partial (r : Nat) (pool : List Nat) (items : List Item)
    (h : goodList countOk items = true) :
    ImplOld.write r pool items = Spec.write r pool items := by
  unfold ImplOld.write Spec.write writeTree
  by_cases he : items.isEmpty = true
  · simp [he]
  · simp only [he]
    have hpos : posTrue items (items.length - 1) = items.length - 1 :=
      posTrue_eq_of_good countOk items h _ (by
        cases items with
        | nil => simp at he
        | cons _ _ => simp)
    rw [emitList_congr countOk Item.countEntryOld Spec.countEntry countEntryOld_eq_of_ok pool r 0
      items.length items h rfl 0 0 items h (by omega)]
    simp [hpos, posCode]

example : goodList countOk
    [.mk true [], .mk false [], .mk false [.mk true [], .mk true [.mk true []]]] = true := by decide

/-- Counter-witness 1 (links, unrepaired code): roots `[A[a1], B]`, pool 1,2,3.  It wrote
`A./Next = 2` (= a1) and root `/Last = 2`; the authored forest has `A./Next = B = 3`,
`/Last = 3` — which is what the code writes now. -/
theorem C28_witness_next_last :
    let f := [Item.mk true [.mk true []], .mk true []]
    ((ImplOld.write 0 [1, 2, 3] f).2.map (·.next)) = [some 2, none, none] ∧
    ((Spec.write 0 [1, 2, 3] f).2.map (·.next)) = [some 3, none, none] ∧
    (ImplOld.write 0 [1, 2, 3] f).1.last = some 2 ∧ (Spec.write 0 [1, 2, 3] f).1.last = some 3 ∧
    ((Impl.write 0 [1, 2, 3] f).2.map (·.next)) = [some 3, none, none] ∧
    ¬ (∀ (r : Nat) (pool : List Nat) (items : List Item),
        ImplOld.write r pool items = Spec.write r pool items) := by
  refine ⟨by decide, by decide, by decide, by decide, by decide, fun h => ?_⟩
  have := h 0 [1, 2, 3] [Item.mk true [.mk true []], .mk true []]
  revert this
  decide

/-- Counter-witness 2 (counts, unrepaired code): closed `A[ closed B[ c ] ]`.  Opening A shows
only B, so Table 153 gives `A./Count = −1`; the code wrote `−(all descendants) = −2`. -/
theorem C28_witness_closed_count :
    let a := Item.mk false [.mk false [.mk true []]]
    a.countEntryOld = some (-2) ∧ Spec.countEntry a = some (-1) ∧ a.countEntry = some (-1) := by
  decide

end OxiVerif.C28
