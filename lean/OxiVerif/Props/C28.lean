import OxiVerif.Lemmas.C28
/-!
# C28 — outlines written are navigable as authored (ISO 32000-1 §12.3.3, Tables 152/153)

`Impl.write` is the transcription of `write_outline_tree` / `write_outline_item` /
`outline_item_to_dict`; `Spec.write` is the link graph the authored forest denotes under the
same (pre-order) id assignment: every `/Prev /Next /First /Last` is the id *given to* that
sibling / child, `/Count` is Table 153's.  All statements are for every forest (any nesting,
width, open/closed flags), every id pool and every root id.

/- FULL (false of the current code — see the two witnesses):
   theorem C28_write (r : Nat) (pool : List Nat) (items : List Item) :
     Impl.write r pool items = Spec.write r pool items -/
-/
namespace OxiVerif.C28

/-- Full statement on the class where it holds: in every sibling list only the last item has
children (so `first_idx + j` is where sibling `j` really is) and no closed item has a closed
item with children below it (so "all descendants" = "descendants shown when opened"). -/
theorem C28_write_partial (r : Nat) (pool : List Nat) (items : List Item)
    (h : goodList countOk items = true) :
    Impl.write r pool items = Spec.write r pool items := by
  unfold Impl.write Spec.write writeTree
  by_cases he : items.isEmpty = true
  · simp [he]
  · simp only [he]
    have hpos : posTrue items (items.length - 1) = items.length - 1 :=
      posTrue_eq_of_good countOk items h _ (by
        cases items with
        | nil => simp at he
        | cons _ _ => simp)
    rw [emitList_congr countOk Item.countEntry Spec.countEntry countEntry_eq_of_ok pool r 0
      items.length items h rfl 0 0 items h (by omega)]
    simp [hpos, posCode]

-- non-vacuity: a chain-shaped forest with nesting, closed items and several siblings
example : goodList countOk
    [.mk true [], .mk false [], .mk false [.mk true [], .mk true [.mk true []]]] = true := by decide

/-- Links alone (whatever is put into `/Count`): right on every forest in which only the last
item of each sibling list has children. -/
theorem C28_links_partial (cnt : Item → Option Int) (r : Nat) (pool : List Nat)
    (items : List Item) (h : goodList (fun _ => true) items = true) :
    writeTree posCode cnt r pool items = writeTree posTrue cnt r pool items := by
  unfold writeTree
  by_cases he : items.isEmpty = true
  · simp [he]
  · simp only [he]
    have hpos : posTrue items (items.length - 1) = items.length - 1 :=
      posTrue_eq_of_good _ items h _ (by
        cases items with
        | nil => simp at he
        | cons _ _ => simp)
    rw [emitList_congr (fun _ => true) cnt cnt (fun _ _ => rfl) pool r 0
      items.length items h rfl 0 0 items h (by omega)]
    simp [hpos, posCode]

example : goodList (fun _ => true)
    [.mk true [], .mk false [.mk false [], .mk false [.mk true []]]] = true := by decide

/-- `/Count` of one item: Table 153's whenever the item is open or nothing below it is closed;
absent exactly for items without children. -/
theorem C28_count_partial (it : Item) (h : it.isOpen = true ∨ fullOpenList it.children = true) :
    it.countEntry = Spec.countEntry it :=
  countEntry_eq_of_ok it (by simpa [countOk] using h)

example : (Item.mk false [.mk true [.mk true []]]).countEntry = some (-2) := by decide

/-- the root's `/Count` is the number of visible items, on every forest -/
theorem C28_root_count (r : Nat) (pool : List Nat) (items : List Item) (h : items ≠ []) :
    (Impl.write r pool items).1.count = some (Int.ofNat (visibleList items)) := by
  cases items with
  | nil => exact absurd rfl h
  | cons c cs => simp [Impl.write, writeTree]

example : (Impl.write 0 [1, 2, 3] [.mk false [.mk true []], .mk true []]).1.count = some 2 := by
  decide

/-- Every item is written under its own object number: the items' ids are exactly the reserved
pool in pre-order, hence pairwise distinct — on **every** forest (this part of the writer is
right even where the sibling links are not). -/
theorem C28_ids_distinct (r : Nat) (pool : List Nat) (items : List Item)
    (hlen : pool.length = sizeList items) (hnd : pool.Nodup) :
    (Impl.write r pool items).2.map (·.id) = pool ∧
    ((Impl.write r pool items).2.map (·.id)).Nodup := by
  have := ids_write posCode Item.countEntry r pool items hlen
  exact ⟨this, by rw [Impl.write, this]; exact hnd⟩

example : (Impl.write 0 [4, 5, 6] [.mk true [.mk true []], .mk true []]).2.map (·.id) = [4, 5, 6] := by
  decide

/-- Counter-witness 1 (links): roots `[A[a1], B]`, pool 1,2,3.  The code writes
`A./Next = 2` (= a1) and root `/Last = 2`; the authored forest has `A./Next = B = 3`,
`/Last = 3`. -/
theorem C28_witness_next_last :
    let f := [Item.mk true [.mk true []], .mk true []]
    ((Impl.write 0 [1, 2, 3] f).2.map (·.next)) = [some 2, none, none] ∧
    ((Spec.write 0 [1, 2, 3] f).2.map (·.next)) = [some 3, none, none] ∧
    (Impl.write 0 [1, 2, 3] f).1.last = some 2 ∧ (Spec.write 0 [1, 2, 3] f).1.last = some 3 ∧
    ¬ (∀ (r : Nat) (pool : List Nat) (items : List Item),
        Impl.write r pool items = Spec.write r pool items) := by
  refine ⟨by decide, by decide, by decide, by decide, fun h => ?_⟩
  have := h 0 [1, 2, 3] [Item.mk true [.mk true []], .mk true []]
  revert this
  decide

/-- Counter-witness 2 (counts): closed `A[ closed B[ c ] ]`.  Opening A shows only B, so
Table 153 gives `A./Count = −1`; the code writes `−(all descendants) = −2`. -/
theorem C28_witness_closed_count :
    let a := Item.mk false [.mk false [.mk true []]]
    a.countEntry = some (-2) ∧ Spec.countEntry a = some (-1) := by
  decide

end OxiVerif.C28
