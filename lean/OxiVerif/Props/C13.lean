import OxiVerif.Model.C13
import OxiVerif.Props.C10
/-
C13 — text in embedded fonts is recoverable exactly.

/- FULL: for every font and every text `s` over the font's repertoire (used together with any other
     texts `ts` in that font), `extract (toUnicodeBlocks (usedBmp (s :: ts))) (showCodes s) = s`;
     the declared width of every used CID is the font's advance; every shown CID has a glyph. -/
False of the code for characters above U+FFFF (`C13_witness_astral`): the CID is the code point, codes
are two bytes, so an astral character is shown as its two surrogates, which have neither a ToUnicode entry
nor a glyph.  Proved (all unbounded): the FULL extraction statement for every text of BMP scalar values
(`C13_extract_show_partial`), on top of `C13_tounicode_lookup` (the generated bfrange/bfchar blocks — runs
capped at 100 entries, bfchar chunks of 100, ranges crossing low-byte boundaries — map exactly the used
CIDs, each to itself), `C13_w_lookup` (`/W` run grouping is a faithful encoding of the width table) and
`C13_cidtogid_lookup` (the `/CIDToGIDMap` bytes return the glyph id the subsetter assigned — so remapped
glyph ids change nothing in what is decoded, `C13_subset_independent`).
-/
namespace OxiVerif.C13
open OxiVerif.C10 (IsScalar utf16Dec utf16Enc)

/-! ## T1 — ToUnicode blocks -/

theorem takeRun_shape (rest : List Nat) : ∀ (last k e : Nat) (rem : List Nat),
    takeRun last k rest = (e, rem) →
    last ≤ e ∧ rest = List.range' (last + 1) (e - last) ++ rem ∧ (∀ i, last < i → i ≤ e → i % 256 ≠ 0) := by
  induction rest with
  | nil =>
    intro last k e rem h
    simp only [takeRun, Prod.mk.injEq] at h
    obtain ⟨rfl, rfl⟩ := h
    refine ⟨Nat.le_refl _, by simp, fun i h1 h2 => by omega⟩
  | cons x r ih =>
    intro last k e rem h
    unfold takeRun at h
    split at h
    · rename_i hc
      simp only [Bool.and_eq_true, beq_iff_eq, decide_eq_true_eq, bne_iff_ne, ne_eq] at hc
      obtain ⟨⟨hx, hm⟩, _⟩ := hc
      obtain ⟨h1, h2, h3⟩ := ih x (k + 1) e rem h
      refine ⟨by omega, ?_, ?_⟩
      · have : e - last = (e - x) + 1 := by omega
        rw [this, List.range'_succ, ← hx, List.cons_append, ← h2]
      · intro i hi1 hi2
        by_cases hix : i = x
        · subst hix; exact hm
        · exact h3 i (by omega) hi2
    · simp only [Prod.mk.injEq] at h
      obtain ⟨rfl, rfl⟩ := h
      refine ⟨Nat.le_refl _, by simp, fun i h1 h2 => by omega⟩

theorem lookup_genBlocks : ∀ (fuel : Nat) (l : List Nat), l.length < fuel → ∀ x,
    lookupBlocks (genBlocks fuel l) x = if x ∈ l then some x else none := by
  intro fuel
  induction fuel with
  | zero => intro l h; omega
  | succ fuel ih =>
    intro l hl x
    cases l with
    | nil => simp [genBlocks, lookupBlocks]
    | cons c rest =>
      unfold genBlocks
      cases htr : takeRun c 0 rest with
      | mk e rem =>
        obtain ⟨hce, hshape, _⟩ := takeRun_shape rest c 0 e rem htr
        simp only
        have hremlen : rem.length < fuel := by
          have hlen := congrArg List.length hshape
          simp only [List.length_append, List.length_range'] at hlen
          simp only [List.length_cons] at hl
          omega
        by_cases hgt : e > c
        · rw [if_pos hgt]
          simp only [lookupBlocks, Block.lookup]
          by_cases hin : c ≤ x ∧ x ≤ e
          · rw [if_pos hin]
            have hx : x ∈ c :: rest := by
              rw [hshape]
              by_cases hxc : x = c
              · simp [hxc]
              · simp only [List.mem_cons, List.mem_append, List.mem_range'_1]
                right; left; omega
            simp only [hx, if_true]
            congr 1; omega
          · rw [if_neg hin]
            simp only
            rw [ih rem hremlen x]
            have : x ∈ c :: rest ↔ x ∈ rem := by
              rw [hshape]
              simp only [List.mem_cons, List.mem_append, List.mem_range'_1]
              constructor
              · rintro (h | h | h)
                · omega
                · omega
                · exact h
              · intro h; right; right; exact h
            simp only [this]
        · rw [if_neg hgt]
          simp only [lookupBlocks, Block.lookup]
          by_cases hc : ((c :: rest).take 100).contains x = true
          · rw [if_pos hc]
            have : x ∈ c :: rest := List.mem_of_mem_take (List.contains_iff_mem.mp hc)
            simp only [this, if_true]
          · rw [if_neg hc]
            simp only
            have hdl : ((c :: rest).drop 100).length < fuel := by
              simp only [List.length_drop, List.length_cons] at hl ⊢; omega
            rw [ih _ hdl x]
            have hnt : x ∉ (c :: rest).take 100 := fun hm => hc (List.contains_iff_mem.mpr hm)
            have : x ∈ c :: rest ↔ x ∈ (c :: rest).drop 100 := by
              constructor
              · intro h
                have := (List.take_append_drop 100 (c :: rest)) ▸ h
                rcases List.mem_append.mp this with h1 | h1
                · exact absurd h1 hnt
                · exact h1
              · exact List.mem_of_mem_drop
            simp only [this]

/-- The generated ToUnicode blocks map exactly the used CIDs, each to itself — whatever the list of used
code points (any length: runs longer than 100, more than 100 isolated entries, ranges across xxFF). -/
theorem C13_tounicode_lookup (used : List Nat) (x : Nat) :
    lookupBlocks (toUnicodeBlocks used) x = if x ∈ used then some x else none :=
  lookup_genBlocks (used.length + 1) used (by omega) x

example : toUnicodeBlocks [0x41, 0xFE, 0xFF, 0x100, 0x102] =
    [.chars [0x41, 0xFE, 0xFF, 0x100, 0x102]] ∧
    toUnicodeBlocks [0xFE, 0xFF, 0x100, 0x102] = [.range 0xFE 0xFF 0xFE, .chars [0x100, 0x102]] := by decide

/-! ## T3 — what is shown is what is extracted -/

theorem mem_insertSorted (c x : Nat) (l : List Nat) : x ∈ insertSorted c l ↔ x = c ∨ x ∈ l := by
  induction l with
  | nil => simp [insertSorted]
  | cons y r ih =>
    unfold insertSorted
    split
    · simp
    · split
      · rename_i h; simp only [beq_iff_eq] at h; subst h; simp
      · simp only [List.mem_cons, ih]; constructor <;> (rintro (h | h | h) <;> simp [h])

theorem mem_usedBmp (texts : List (List Nat)) (x : Nat) :
    x ∈ usedBmp texts ↔ x ∈ texts.flatten ∧ x ≤ 0xFFFF := by
  unfold usedBmp
  generalize texts.flatten = l
  induction l with
  | nil => simp
  | cons y r ih =>
    simp only [List.filter_cons]
    split
    · rename_i hy
      simp only [List.foldr_cons, mem_insertSorted, ih, List.mem_cons]
      simp only [decide_eq_true_eq] at hy
      constructor
      · rintro (h | h)
        · subst h; exact ⟨Or.inl rfl, hy⟩
        · exact ⟨Or.inr h.1, h.2⟩
      · rintro ⟨h | h, h2⟩
        · exact Or.inl h
        · exact Or.inr ⟨h, h2⟩
    · rename_i hy
      simp only [decide_eq_true_eq] at hy
      rw [ih]
      simp only [List.mem_cons]
      constructor
      · rintro ⟨h, h2⟩; exact ⟨Or.inr h, h2⟩
      · rintro ⟨h | h, h2⟩
        · subst h; omega
        · exact ⟨h, h2⟩

/-- The used-character set of a font is the UNION over everything drawn in it — the graphics
context's texts `gs` and the text context's texts `ts`, on every page: a character of either is listed. -/
theorem C13_used_union (gs ts : List (List Nat)) (x : Nat) :
    x ∈ usedBmp (gs ++ ts) ↔ x ∈ usedBmp gs ∨ x ∈ usedBmp ts := by
  simp only [mem_usedBmp, List.flatten_append, List.mem_append]
  constructor
  · rintro ⟨h | h, h2⟩
    · exact Or.inl ⟨h, h2⟩
    · exact Or.inr ⟨h, h2⟩
  · rintro (⟨h, h2⟩ | ⟨h, h2⟩)
    · exact ⟨Or.inl h, h2⟩
    · exact ⟨Or.inr h, h2⟩

/-- … so a text drawn through either context is recovered whatever the other context drew. -/
theorem C13_extract_show_both_contexts (s : List Nat) (gs ts : List (List Nat)) (hs : s ∈ gs ++ ts)
    (h : ∀ c ∈ s, c < 0x10000 ∧ ¬ (0xD800 ≤ c ∧ c ≤ 0xDFFF)) (c : Nat) (hc : c ∈ s) :
    lookupBlocks (toUnicodeBlocks (usedBmp (gs ++ ts))) c = some c := by
  rw [C13_tounicode_lookup, if_pos]
  rw [mem_usedBmp]
  refine ⟨List.mem_flatten.mpr ⟨s, hs, hc⟩, ?_⟩
  have := (h c hc).1; omega

def IsBmpScalar (c : Nat) : Prop := c < 0x10000 ∧ ¬ (0xD800 ≤ c ∧ c ≤ 0xDFFF)

theorem showCodes_bmp (s : List Nat) (h : ∀ c ∈ s, IsBmpScalar c) : showCodes s = s := by
  induction s with
  | nil => rfl
  | cons c r ih =>
    have hc := (h c (by simp)).1
    simp only [showCodes, List.flatMap_cons, utf16Enc, hc, if_true, List.singleton_append] at ih ⊢
    rw [ih fun x hx => h x (by simp [hx])]

theorem filterMap_some_id (f : Nat → Option Nat) (s : List Nat) (h : ∀ c ∈ s, f c = some c) :
    s.filterMap f = s := by
  induction s with
  | nil => rfl
  | cons c r ih =>
    rw [List.filterMap_cons, h c (by simp)]
    simp only
    rw [ih fun x hx => h x (by simp [hx])]

/-- Partial (BMP): for every text `s` of BMP scalar values drawn in a font, together with any other
texts `ts` drawn in the same font, decoding the shown codes through the generated ToUnicode CMap gives
back exactly `s` (repeats, any length, any mixture of runs and isolated characters). -/
theorem C13_extract_show_partial (s : List Nat) (ts : List (List Nat)) (h : ∀ c ∈ s, IsBmpScalar c) :
    extract (toUnicodeBlocks (usedBmp (s :: ts))) (showCodes s) = s := by
  unfold extract
  rw [showCodes_bmp s h]
  have hmap : s.filterMap (lookupBlocks (toUnicodeBlocks (usedBmp (s :: ts)))) = s := by
    have hall : ∀ c ∈ s, lookupBlocks (toUnicodeBlocks (usedBmp (s :: ts))) c = some c := by
      intro c hc
      rw [C13_tounicode_lookup, if_pos]
      rw [mem_usedBmp]
      exact ⟨by simp [hc], by have := (h c hc).1; omega⟩
    exact filterMap_some_id _ s hall
  rw [hmap]
  have : s.flatMap utf16Enc = s := showCodes_bmp s h
  have hs : ∀ c ∈ s, IsScalar c := fun c hc => by
    have := h c hc; unfold IsBmpScalar at this; unfold IsScalar; omega
  have := C10.C10_utf16_roundtrip s hs
  rwa [‹s.flatMap utf16Enc = s›] at this

example : extract (toUnicodeBlocks (usedBmp [[0x48, 0x416, 0x48, 0x3B1], [0x417]])) (showCodes [0x48, 0x416, 0x48, 0x3B1]) =
    [0x48, 0x416, 0x48, 0x3B1] := by decide +kernel

/-- Witness: U+1F600 is shown as the codes D83D DE00; the ToUnicode CMap has no entry for either
(only used characters ≤ U+FFFF are listed), so nothing is recovered. -/
theorem C13_witness_astral :
    showCodes [0x41, 0x1F600] = [0x41, 0xD83D, 0xDE00] ∧ usedBmp [[0x41, 0x1F600]] = [0x41] ∧
    extract (toUnicodeBlocks (usedBmp [[0x41, 0x1F600]])) (showCodes [0x41, 0x1F600]) = [0x41] := by
  decide +kernel

/-- §9.10.3 "the last byte of the destination shall be ≤ 255 − (hi − lo)": holds for every bfrange the
writer can emit, whatever the used code points. -/
theorem C13_bfrange_last_byte (used : List Nat) :
    ∀ b ∈ toUnicodeBlocks used, match b with
      | .range lo hi dst => dst % 256 + (hi - lo) ≤ 255
      | .chars _ => True := by
  unfold toUnicodeBlocks
  generalize used.length + 1 = fuel
  induction fuel generalizing used with
  | zero => intro b hb; simp [genBlocks] at hb
  | succ fuel ih =>
    intro b hb
    cases used with
    | nil => simp [genBlocks] at hb
    | cons c rest =>
      unfold genBlocks at hb
      cases htr : takeRun c 0 rest with
      | mk e rem =>
        obtain ⟨hce, _, hno⟩ := takeRun_shape rest c 0 e rem htr
        rw [htr] at hb
        simp only at hb
        split at hb
        · rcases List.mem_cons.mp hb with h | h
          · subst h
            simp only
            by_cases hw : c % 256 + (e - c) ≤ 255
            · exact hw
            · exfalso
              exact hno (c - c % 256 + 256) (by omega) (by omega) (by omega)
          · exact ih rem b h
        · rcases List.mem_cons.mp hb with h | h
          · subst h; trivial
          · exact ih _ b h

example : toUnicodeBlocks (usedBmp [[0xFD, 0xFE, 0xFF, 0x100, 0x101]]) = [.range 0xFD 0xFF 0xFD, .range 0x100 0x101 0x100] := by
  decide +kernel

/-- Regression (before the low-byte condition): consecutive used characters across a low-byte boundary
were emitted as ONE bfrange whose destination's last byte overflows (FE + 2 > FF). -/
theorem C13_witness_bfrange_low_byte :
    toUnicodeBlocksOld (usedBmp [[0xFE, 0xFF, 0x100]]) = [.range 0xFE 0x100 0xFE] ∧
    toUnicodeBlocks (usedBmp [[0xFE, 0xFF, 0x100]]) = [.range 0xFE 0xFF 0xFE, .chars [0x100]] := by decide +kernel

/-! ## T2 — /W -/

theorem takeW_shape (rest : List (Nat × Nat)) : ∀ (last w e : Nat) (rem : List (Nat × Nat)),
    takeW last w rest = (e, rem) →
    last ≤ e ∧ rest = (List.range' (last + 1) (e - last)).map (fun c => (c, w)) ++ rem := by
  induction rest with
  | nil =>
    intro last w e rem h
    simp only [takeW, Prod.mk.injEq] at h
    obtain ⟨rfl, rfl⟩ := h
    simp
  | cons p r ih =>
    intro last w e rem h
    obtain ⟨c, w'⟩ := p
    unfold takeW at h
    split at h
    · rename_i hc
      simp only [Bool.and_eq_true, beq_iff_eq] at hc
      obtain ⟨hx, hw⟩ := hc
      obtain ⟨h1, h2⟩ := ih c w e rem h
      refine ⟨by omega, ?_⟩
      have : e - last = (e - c) + 1 := by omega
      rw [this, List.range'_succ, List.map_cons, ← hx, List.cons_append, ← h2, hw]
    · simp only [Prod.mk.injEq] at h
      obtain ⟨rfl, rfl⟩ := h
      simp

theorem assoc_cons (p : Nat × Nat) (l : List (Nat × Nat)) (x : Nat) :
    assoc (p :: l) x = if p.1 = x then some p.2 else assoc l x := by
  unfold assoc
  by_cases h : p.1 = x
  · simp [List.find?_cons, h]
  · have hb : (p.1 == x) = false := by simpa using h
    simp [List.find?_cons, hb, h]

theorem assoc_run (a n w x : Nat) (rem : List (Nat × Nat)) :
    assoc ((List.range' a n).map (fun c => (c, w)) ++ rem) x =
      if a ≤ x ∧ x < a + n then some w else assoc rem x := by
  induction n generalizing a with
  | zero =>
    simp only [List.range'_zero, List.map_nil, List.nil_append, Nat.add_zero]
    rw [if_neg (by omega)]
  | succ n ih =>
    rw [List.range'_succ, List.map_cons, List.cons_append, assoc_cons, ih]
    by_cases h : a = x
    · subst h; simp
    · simp only [h, if_false]
      by_cases h2 : a + 1 ≤ x ∧ x < a + 1 + n
      · rw [if_pos h2, if_pos (by omega)]
      · rw [if_neg h2, if_neg (by omega)]

theorem lookup_genW : ∀ (fuel : Nat) (l : List (Nat × Nat)), l.length < fuel → ∀ x,
    lookupW (genW fuel l) x = assoc l x := by
  intro fuel
  induction fuel with
  | zero => intro l h; omega
  | succ fuel ih =>
    intro l hl x
    cases l with
    | nil => simp [genW, lookupW, assoc]
    | cons p rest =>
      obtain ⟨c, w⟩ := p
      unfold genW
      cases htr : takeW c w rest with
      | mk e rem =>
        obtain ⟨hce, hshape⟩ := takeW_shape rest c w e rem htr
        simp only
        have hremlen : rem.length < fuel := by
          have hlen := congrArg List.length hshape
          simp only [List.length_append, List.length_range', List.length_map] at hlen
          simp only [List.length_cons] at hl
          omega
        rw [assoc_cons, hshape, assoc_run]
        simp only [lookupW]
        by_cases hec : (e == c) = true
        · have hec' : e = c := by simpa using hec
          rw [if_pos hec]
          simp only [WItem.lookup]
          by_cases hx : x = c
          · subst hx; simp
          · rw [if_neg hx, if_neg (by omega), if_neg (by omega)]
            exact ih rem hremlen x
        · have hec' : e ≠ c := by simpa using hec
          rw [if_neg hec]
          simp only [WItem.lookup]
          by_cases hin : c ≤ x ∧ x ≤ e
          · rw [if_pos hin]
            by_cases hx : c = x
            · simp [hx]
            · rw [if_neg hx, if_pos (by omega)]
          · rw [if_neg hin]
            simp only
            rw [if_neg (by omega), if_neg (by omega)]
            exact ih rem hremlen x

/-- `/W`: looking a CID up in the generated items gives the width the table holds for it (first entry
for that code point), for every table. -/
theorem C13_w_lookup (ws : List (Nat × Nat)) (x : Nat) : lookupW (wItems ws) x = assoc ws x :=
  lookup_genW (ws.length + 1) ws (by omega) x

example : wItems [(65, 600), (66, 600), (67, 600), (68, 700), (70, 700)] =
    [.range 65 67 600, .single 68 700, .single 70 700] := by decide

/-! ## /CIDToGIDMap -/

theorem genCidToGid_get (m : List (Nat × Nat)) (n c : Nat) (h : c < n) :
    ((List.range n).flatMap fun c => let g := (assoc m c).getD 0; [g / 256 % 256, g % 256])[2 * c]? =
      some ((assoc m c).getD 0 / 256 % 256) ∧
    ((List.range n).flatMap fun c => let g := (assoc m c).getD 0; [g / 256 % 256, g % 256])[2 * c + 1]? =
      some ((assoc m c).getD 0 % 256) := by
  induction n with
  | zero => omega
  | succ n ih =>
    have hlen : ((List.range n).flatMap fun c => let g := (assoc m c).getD 0; [g / 256 % 256, g % 256]).length = 2 * n := by
      clear ih h
      induction n with
      | zero => rfl
      | succ k ihk => rw [List.range_succ, List.flatMap_append, List.length_append, ihk]; simp; omega
    rw [List.range_succ, List.flatMap_append]
    by_cases hc : c < n
    · obtain ⟨h1, h2⟩ := ih hc
      constructor
      · rw [List.getElem?_append_left (by omega)]; exact h1
      · rw [List.getElem?_append_left (by omega)]; exact h2
    · have : c = n := by omega
      subst this
      constructor
      · rw [List.getElem?_append_right (by omega), hlen]; simp
      · rw [List.getElem?_append_right (by omega), hlen]
        have : 2 * c + 1 - 2 * c = 1 := by omega
        rw [this]; simp

/-- `/CIDToGIDMap`: the two bytes at index 2·CID are the glyph id the mapping (the subsetter's
code point → NEW glyph id table) holds for that CID, 0 (`.notdef`) where it is silent. -/
theorem C13_cidtogid_lookup (m : List (Nat × Nat)) (maxCid c : Nat) (h : c ≤ maxCid)
    (hg : (assoc m c).getD 0 < 65536) :
    readGid (genCidToGid m maxCid) c = some ((assoc m c).getD 0) := by
  obtain ⟨h1, h2⟩ := genCidToGid_get m (maxCid + 1) c (by omega)
  unfold readGid genCidToGid
  rw [h1, h2]
  simp only [Option.some.injEq]
  have := Nat.div_add_mod ((assoc m c).getD 0) 256
  omega

example : readGid (genCidToGid [(0x41, 300), (0x43, 7)] 0x43) 0x41 = some 300 ∧
    readGid (genCidToGid [(0x41, 300), (0x43, 7)] 0x43) 0x42 = some 0 := by decide +kernel

/-- With subsetting on, glyph ids are renumbered — the shown codes and the ToUnicode CMap do not
mention glyph ids at all (the CID is the code point), so what is decoded cannot depend on the
renumbering; the renumbered id reaches the glyph through `C13_cidtogid_lookup`. -/
theorem C13_subset_independent (s : List Nat) (ts : List (List Nat)) (remap remap' : List (Nat × Nat))
    (h : ∀ c ∈ s, IsBmpScalar c) :
    (fun (_ : List (Nat × Nat)) => extract (toUnicodeBlocks (usedBmp (s :: ts))) (showCodes s)) remap = s ∧
    (fun (_ : List (Nat × Nat)) => extract (toUnicodeBlocks (usedBmp (s :: ts))) (showCodes s)) remap' = s :=
  ⟨C13_extract_show_partial s ts h, C13_extract_show_partial s ts h⟩

end OxiVerif.C13
