import OxiVerif.Lemmas.C27
/-!
# C27 — page labels follow the numbering styles of ISO 32000-1 §12.4.2 (Table 159)

Property theorems only.  All statements are for every tree (any sequence of `add_range` calls),
every page index and every numeric value — no bound, except where a statement is marked
`_partial` (the letter styles: the code deviates from the specification from 28 on).
-/
namespace OxiVerif.C27

/-! ## range lookup: the range with the greatest start ≤ index, offset index − start -/

/-- `get_label` answers from the entry with the greatest start page not exceeding the index,
with offset `index − start`, for every tree built through `add_range`. -/
theorem C27_getLabel_greatest_start (adds : List (Nat × Label)) (idx s : Nat) (l : Label)
    (hm : (s, l) ∈ build adds) (hle : s ≤ idx)
    (hmax : ∀ e ∈ build adds, e.1 ≤ idx → e.1 ≤ s) :
    getLabel (build adds) idx = l.formatLabel (idx - s) := by
  unfold getLabel
  rw [walk_greatest idx (build adds) none (sorted_build adds) s l hm hle hmax]

example : getLabel (build [(0, ⟨.lowerRoman, none, 1⟩), (4, ⟨.decimal, some [65], 7⟩)]) 9
    = .label [65, 49, 50] := by decide

/-- no label exactly when every range starts after the page -/
theorem C27_getLabel_absent_iff (adds : List (Nat × Label)) (idx : Nat) :
    getLabel (build adds) idx = .absent ↔ ∀ e ∈ build adds, idx < e.1 := by
  unfold getLabel
  rw [← walk_none_iff idx (build adds) (sorted_build adds)]
  cases h : walk idx (build adds) none with
  | none => simp
  | some e =>
    obtain ⟨s, l⟩ := e
    simp only [reduceCtorEq, iff_false]
    exact formatLabel_ne_absent l _

example : getLabel (build [(3, ⟨.decimal, none, 1⟩)]) 2 = .absent := by decide

/-- `add_range` has map semantics: the tree holds the new entry and every old entry with another
start page, and stays sorted (so the two theorems above apply after any number of additions). -/
theorem C27_add_range_semantics (adds : List (Nat × Label)) (k : Nat) (l : Label)
    (e : Nat × Label) :
    e ∈ build (adds ++ [(k, l)]) ↔ e = (k, l) ∨ (e ∈ build adds ∧ e.1 ≠ k) := by
  have : build (adds ++ [(k, l)]) = insert k l (build adds) := by
    simp [build, List.foldl_append]
  rw [this]
  exact mem_insert k l (build adds) (sorted_build adds) e

example : (0, (⟨.decimal, none, 5⟩ : Label)) ∈ build [(0, ⟨.upperRoman, none, 1⟩), (0, ⟨.decimal, none, 5⟩)] := by
  decide

/-! ## Roman numerals: canonical subtractive form, for every value -/

/-- `to_roman n` is the canonical numeral: `m` repeated ⌊n/1000⌋ times, then hundreds, tens and
units in subtractive notation — for **every** n (the code has no 3999 limit). -/
theorem C27_roman_canonical (n : Nat) : toRoman n = Spec.roman n := by
  unfold toRoman
  by_cases h0 : n = 0
  · subst h0; decide
  · simp only [h0, if_false]
    have : romanTable = (1000, ['m']) :: romanLowTable := rfl
    rw [this]
    simp only [romanFor]
    rw [romanWhile_m n n (by omega)]
    simp only
    rw [romanFor_acc, romanLow_table (n % 1000) (by omega), spec_roman_eq]

example : toRoman 3999 = "mmmcmxcix".toList := by decide
example : toRoman 4004 = "mmmmiv".toList := by decide

/-- reading the numeral back with the subtractive rule gives the value -/
theorem C27_roman_value (n : Nat) : Spec.romanValue (toRoman n) = (n : Int) := by
  rw [C27_roman_canonical, spec_roman_eq, romanValue_replicate_m,
    romanLow_value (n % 1000) (by omega)]
  omega

example : Spec.romanValue "mcmxciv".toList = 1994 := by decide

/-- both Roman styles of `PageLabelStyle::format` are the specification's -/
theorem C27_format_roman (n : Nat) :
    Style.format .lowerRoman n = Spec.number .lowerRoman n ∧
    Style.format .upperRoman n = Spec.number .upperRoman n := by
  simp [Style.format, Spec.number, C27_roman_canonical]

example : Style.format .upperRoman 14 = "XIV".toList := by decide

/-! ## letters

/- FULL (ISO 32000-1 §12.4.2 Table 159, false of the current code):
   theorem C27_letters (n : Nat) (u : Bool) (h : 1 ≤ n) : toLetters n u = Spec.letters n u
   "A to Z for the first 26 pages, AA to ZZ for the next 26, and so on": value n is letter
   (n−1) mod 26 repeated ⌊(n−1)/26⌋+1 times.  The code renders bijective base 26
   (28 ↦ "AB", specification "BB"); the repository's tests pin that (`to_letters(52) == "AZ"`). -/
-/

/-- the code agrees with Table 159 exactly on 1 … 27 -/
theorem C27_letters_partial (n : Nat) (u : Bool) (h1 : 1 ≤ n) (h27 : n ≤ 27) :
    toLetters n u = Spec.letters n u := by
  have : ∀ n, n < 28 → ∀ u : Bool, 1 ≤ n → toLetters n u = Spec.letters n u := by decide
  exact this n (by omega) u h1

example : toLetters 27 true = "AA".toList := by decide

/-- counter-witness to the full statement -/
theorem C27_witness_letters_28 :
    toLetters 28 true = "AB".toList ∧ Spec.letters 28 true = "BB".toList ∧
    ¬ (∀ n u, 1 ≤ n → toLetters n u = Spec.letters n u) := by
  refine ⟨by decide, by decide, fun h => ?_⟩
  have := h 28 true (by omega)
  revert this
  decide

/-- …and the deviation is total: **no** value above 27 is rendered as the specification says -/
theorem C27_letters_agree_iff (n : Nat) (u : Bool) (h1 : 1 ≤ n) :
    toLetters n u = Spec.letters n u ↔ n ≤ 27 := by
  constructor
  · intro h
    apply Classical.byContradiction
    intro hgt
    have hgt : 28 ≤ n := by omega
    by_cases h52 : n ≤ 52
    · -- two letters on both sides, the first one differs
      have : ∀ n, n < 53 → ∀ u : Bool, 28 ≤ n → toLetters n u ≠ Spec.letters n u := by decide
      exact this n (by omega) u hgt h
    · -- the specification's string is longer
      have hlen := congrArg List.length h
      have hn0 : n ≠ 0 := by omega
      simp only [toLetters, hn0, if_false, lettersWhile_length, Spec.letters,
        List.length_replicate] at hlen
      have hpos : n > 0 := by omega
      cases n with
      | zero => omega
      | succ m =>
        simp only [bijLen, hpos, if_true] at hlen
        have := bijLen_lt m ((m + 1 - 1) / 26) (by omega)
        omega
  · exact C27_letters_partial n u h1

example : toLetters 703 false ≠ Spec.letters 703 false := by decide

/-! ## the label: prefix, then the numeric portion for `St + (index − start)` -/

/-- the computed label is the specification's whenever the style is not a letter style beyond 27
(and the value fits `u32`, which Annex C guarantees for conforming files). -/
theorem C27_label_spec_partial (adds : List (Nat × Label)) (idx s : Nat) (l : Label)
    (hm : (s, l) ∈ build adds) (hle : s ≤ idx)
    (hmax : ∀ e ∈ build adds, e.1 ≤ idx → e.1 ≤ s)
    (hfit : l.start + (idx - s) ≤ U32_MAX)
    (hstyle : l.style = .lowerRoman ∨ l.style = .upperRoman ∨ l.style = .none ∨
      ((l.style = .upperLetters ∨ l.style = .lowerLetters) ∧
        1 ≤ l.start + (idx - s) ∧ l.start + (idx - s) ≤ 27)) :
    getLabel (build adds) idx =
      .label (l.pfx.getD [] ++ charsToBytes (Spec.number l.style (l.start + (idx - s)))) := by
  rw [C27_getLabel_greatest_start adds idx s l hm hle hmax]
  rw [formatLabel_eq]
  have hnot : min (l.start + (idx - s)) U32_MAX = l.start + (idx - s) := Nat.min_eq_left hfit
  rcases hstyle with h | h | h | ⟨h | h, h1, h27⟩
  · simp [h, hnot, (C27_format_roman _).1]
  · simp [h, hnot, (C27_format_roman _).2]
  · simp [h, Spec.number, charsToBytes]
  · simp [h, hnot, Style.format, Spec.number, C27_letters_partial _ true h1 h27]
  · simp [h, hnot, Style.format, Spec.number, C27_letters_partial _ false h1 h27]

example : getLabel (build [(0, ⟨.lowerRoman, some [112], 3⟩)]) 1 = .label [112, 105, 118] := by decide

/- FULL (false of the current code for prefixes with a non-ASCII character — see the witness):
   theorem C27_prefix_text_string (l : Label) :
     match l.toDict.p with
     | some (.str bs) => Spec.readTextString bs = Spec.utf8Decode (l.pfx.getD [])
     | _ => l.pfx = none -/

/-- An ASCII prefix (TAB, LF, CR, 0x20..0x7E) is written so that a reader of the text string
`/P` sees exactly the authored characters. -/
theorem C27_prefix_text_string_partial (l : Label) (bs : List Nat) (hp : l.pfx = some bs)
    (hascii : ∀ b ∈ bs, b = 9 ∨ b = 10 ∨ b = 13 ∨ (32 ≤ b ∧ b ≤ 126)) :
    l.toDict.p = some (.str bs) ∧ Spec.readTextString bs = Spec.utf8Decode bs := by
  refine ⟨by simp [Label.toDict, hp], ?_⟩
  have h1 : Spec.readTextString bs = bs := by
    have hmap : bs.map (fun b => if b = 9 ∨ b = 10 ∨ b = 13 ∨ (32 ≤ b ∧ b ≤ 126) then b else 57344 + b)
        = bs := by
      conv => rhs; rw [← List.map_id bs]
      apply List.map_congr_left
      intro b hb
      simp [hascii b hb]
    cases bs with
    | nil => rfl
    | cons a r =>
      cases r with
      | nil => simpa [Spec.readTextString] using hmap
      | cons b r' =>
        have ha := hascii a (by simp)
        have : ¬ (a = 254) := by omega
        unfold Spec.readTextString
        split
        · rename_i heq
          simp only [List.cons.injEq] at heq
          exact absurd heq.1 this
        · exact hmap
  have h2 : ∀ (fuel : Nat) (xs : List Nat), xs.length ≤ fuel →
      (∀ b ∈ xs, b = 9 ∨ b = 10 ∨ b = 13 ∨ (32 ≤ b ∧ b ≤ 126)) → Spec.utf8DecodeF fuel xs = xs := by
    intro fuel
    induction fuel with
    | zero =>
      intro xs hl _
      have : xs = [] := List.length_eq_zero_iff.mp (by omega)
      subst this; rfl
    | succ f ih =>
      intro xs hl hx
      cases xs with
      | nil => rfl
      | cons b rest =>
        have hb := hx b (by simp)
        have : b < 128 := by omega
        simp only [Spec.utf8DecodeF, this, if_true]
        rw [ih rest (by simpa using hl) (fun c hc => hx c (by simp [hc]))]
  rw [h1, Spec.utf8Decode, h2 bs.length bs (Nat.le_refl _) hascii]

example : (Label.toDict ⟨.decimal, some [112, 46, 32], 1⟩).p = some (.str [112, 46, 32]) := by decide

/-- counter-witness: the prefix "§" (UTF-8 `C2 A7`) is written as those two raw bytes; a reader
of the text string shows two characters (`Â§` in PDFDocEncoding), not the authored one -/
theorem C27_witness_prefix_utf8 :
    (Label.toDict ⟨.decimal, some [194, 167], 1⟩).p = some (.str [194, 167]) ∧
    (Spec.readTextString [194, 167]).length = 2 ∧ Spec.utf8Decode [194, 167] = [167] ∧
    Spec.prefixReadsBack (some [194, 167]) (some [194, 167]) = false := by
  decide

end OxiVerif.C27
