import OxiVerif.Lemmas.C25
import OxiVerif.Model.C25Old
/-
C25 — single-byte text encodings match the normative tables (ISO 32000-1 Annex D).

The code's tables are the REGENERATED data of `Gen/C25Tables.lean`; the spec is `Spec/AnnexD.lean`.
Statements quantify over ALL natural numbers (so in particular over all 256 bytes and all
1 114 112 scalar values).  Proof method: the byte side is a finite check over 256 slots; the
code-point side uses `lookupArms_sound` — one kernel-evaluated pass over the ARM LIST proves the
statement for every input — so an edited arm makes the corresponding `decide` fail.

Where the code deviates from Annex D the FULL statement is kept in a comment, a `_partial` theorem
states what does hold, and a kernel-checked witness shows the full statement is false of the code.
-/
namespace OxiVerif.C25
open OxiVerif.AnnexD (Enc)
open Gen

/-- C0 controls and DEL: not characters of any Annex D encoding; the code passes them through. -/
def isCtl (c : Nat) : Bool := c < 0x20 || c == 0x7F

/-- Slots Annex D defines, as a closed formula (checked against the tables below). -/
def winDefined (b : Nat) : Bool :=
  0x20 ≤ b && b < 256 && b != 0x7F && b != 0x81 && b != 0x8D && b != 0x8F && b != 0x90 && b != 0x9D

def macDefined (b : Nat) : Bool :=
  0x20 ≤ b && b < 256 && !([0x7F, 0xAD, 0xB0, 0xB2, 0xB3, 0xB6, 0xB7, 0xB8, 0xB9, 0xBA, 0xBD, 0xC3, 0xC5,
    0xC6, 0xD7, 0xF0].contains b)

theorem C25_defined_formulas :
    tblAll (fun b v => v.isSome == winDefined b) AnnexD.winAnsiTbl = true ∧
    tblAll (fun b v => v.isSome == macDefined b) AnnexD.macRomanTbl = true := by
  constructor <;> decide +kernel

theorem winDefined_iff (b : Nat) (hb : b < 256) : (AnnexD.dec .winAnsi b).isSome = winDefined b := by
  have := tblAll_lt (e := .winAnsi) C25_defined_formulas.1 b hb
  simpa using this

theorem macDefined_iff (b : Nat) (hb : b < 256) : (AnnexD.dec .macRoman b).isSome = macDefined b := by
  have := tblAll_lt (e := .macRoman) C25_defined_formulas.2 b hb
  simpa using this

/-! ## WinAnsiEncoding — full -/

/-- `winansi_decode_char` (used by `decode_text_string`) and the table inside
`TextEncoding::decode` agree with Annex D on every defined slot. -/
theorem C25_winansi_decode_matches_annexD (b u : Nat) (h : AnnexD.dec .winAnsi b = some u) :
    winansiDecodeChar b = some u ∧ decodeByte .winAnsi b = some u := by
  have key : tblAll (fun b v => v.all fun u => winansiDecodeChar b == some u && decodeByte .winAnsi b == some u)
      AnnexD.winAnsiTbl = true := by decide +kernel
  have := tblAll_dec (e := .winAnsi) key h
  simpa using this

example : AnnexD.dec .winAnsi 0x80 = some 0x20AC ∧ winansiDecodeChar 0x80 = some 0x20AC ∧
    decodeByte .winAnsi 0x9F = some 0x178 := by decide +kernel

/-- Completeness: every character of the WinAnsi repertoire is encoded as its Annex D byte. -/
theorem C25_winansi_encode_complete (b c : Nat) (h : AnnexD.dec .winAnsi b = some c) :
    winansiEncodeChar c = some b := by
  have key : tblAll (fun b v => v.all fun c => winansiEncodeChar c == some b) AnnexD.winAnsiTbl = true := by
    decide +kernel
  have := tblAll_dec (e := .winAnsi) key h
  simpa using this

example : AnnexD.dec .winAnsi 0x8C = some 0x152 ∧ winansiEncodeChar 0x152 = some 0x8C := by decide +kernel

/-- Mutual inverse, encode then decode, for ALL code points. -/
theorem C25_winansi_decode_encode (c b : Nat) (h : winansiEncodeChar c = some b) :
    winansiDecodeChar b = some c ∧ decodeByte .winAnsi b = some c := by
  have key : armsAll (fun c b => winansiDecodeChar b == some c && decodeByte .winAnsi b == some c)
      winansiEncodeCharArms = true := by
    decide +kernel
  have := applyArms_none_sound _ _ key c b h
  simpa using this

example : winansiEncodeChar 0x2122 = some 0x99 ∧ winansiDecodeChar 0x99 = some 0x2122 := by decide +kernel

/-- Soundness, for ALL code points: a byte is produced only for the character Annex D puts in that
slot — or for a C0 control / DEL passed through as itself into a slot Annex D leaves undefined. -/
theorem C25_winansi_encode_sound (c b : Nat) (h : winansiEncodeChar c = some b) :
    AnnexD.dec .winAnsi b = some c ∨ (b = c ∧ isCtl c = true ∧ AnnexD.dec .winAnsi c = none) := by
  have key : armsAll (fun c b => Nat.blt b 256 && (winDefined b || (b == c && isCtl c))) winansiEncodeCharArms = true := by
    decide +kernel
  have hk := applyArms_none_sound _ _ key c b h
  simp only [Bool.and_eq_true, Bool.or_eq_true, beq_iff_eq, Nat.blt_eq] at hk
  obtain ⟨hb, hd⟩ := hk
  have hdef := winDefined_iff b hb
  cases hdec : AnnexD.dec .winAnsi b with
  | some u =>
    have := (C25_winansi_decode_matches_annexD b u hdec).1
    rw [(C25_winansi_decode_encode c b h).1] at this
    left; rw [Option.some.inj this]
  | none =>
    rw [hdec] at hdef
    rcases hd with hd | ⟨h1, h2⟩
    · rw [hd] at hdef; simp at hdef
    · right; subst h1; exact ⟨rfl, h2, hdec⟩

example : winansiEncodeChar 0x2022 = some 0x95 ∧ winansiEncodeChar 0x09 = some 0x09 := by decide +kernel

/-- Un-encodable text is reported: outside the repertoire (and the passed-through controls) the
character-level encoder returns `None` — for every code point. -/
theorem C25_winansi_unencodable_is_none (c : Nat) (hrep : ∀ b, AnnexD.dec .winAnsi b ≠ some c)
    (hctl : isCtl c = false) : winansiEncodeChar c = none := by
  cases h : winansiEncodeChar c with
  | none => rfl
  | some b =>
    rcases C25_winansi_encode_sound c b h with h1 | ⟨_, h2, _⟩
    · exact absurd h1 (hrep b)
    · rw [hctl] at h2; simp at h2

example : AnnexD.enc .winAnsi 0x100 = none ∧ isCtl 0x100 = false ∧ winansiEncodeChar 0x100 = none := by
  decide +kernel

/-- Mutual inverse, decode then encode, on every defined slot. -/
theorem C25_winansi_encode_decode (b u : Nat) (h : AnnexD.dec .winAnsi b = some u) :
    (winansiDecodeChar b).bind winansiEncodeChar = some b := by
  rw [(C25_winansi_decode_matches_annexD b u h).1]
  exact C25_winansi_encode_complete b u h

example : (winansiDecodeChar 0xE9).bind winansiEncodeChar = some 0xE9 := by decide +kernel

/-- The lossy tables inside `TextEncoding::encode` are the same arm lists as the strict functions
("kept in lock-step", as the source comment promises). -/
theorem C25_lossy_tables_are_the_strict_tables :
    teEncodeWinAnsiArms = winansiEncodeCharArms ∧ teEncodeMacRomanArms = macromanEncodeCharArms := by
  decide +kernel

/-- Hence the lossy encoder emits the strict byte when there is one and `?` otherwise. -/
theorem C25_lossy_is_strict_or_qmark (c : Nat) :
    lossyChar .winAnsi c = [(winansiEncodeChar c).getD 0x3F] ∧
    lossyChar .macRoman c = [(macromanEncodeChar c).getD 0x3F] := by
  have ⟨h1, h2⟩ := C25_lossy_tables_are_the_strict_tables
  have d1 : teEncodeWinAnsiDflt = .const 0x3F := by decide
  have d2 : teEncodeMacRomanDflt = .const 0x3F := by decide
  have d3 : winansiEncodeCharDflt = .none := by decide
  have d4 : macromanEncodeCharDflt = .none := by decide
  simp only [lossyChar, winansiEncodeChar, macromanEncodeChar, h1, h2, d1, d2, d3, d4,
    applyArms_const, applyArms_none, Option.toList]
  simp

example : lossyChar .winAnsi 0x20AC = [0x80] ∧ lossyChar .winAnsi 0x100 = [0x3F] := by decide +kernel

/-! ### string level (`TextEncoding::encode_strict`), every encoding -/

/-- `encode_strict` returns `Err(c)` exactly when `c` is the first character without a byte. -/
theorem C25_strict_error_iff (e : Enc) (s : List Nat) (c : Nat) :
    encodeStrict e s = .error c ↔
      ∃ pre post, s = pre ++ c :: post ∧ (∀ x ∈ pre, (strictChar e x).isSome) ∧ strictChar e c = none :=
  encodeStrict_error_iff e s c

example : encodeStrict .winAnsi [0x41, 0x100, 0x3A9] = .error 0x100 := by decide +kernel

/-- `encode_strict` returns `Ok(bytes)` exactly when every character has a byte; the bytes are those,
in order. -/
theorem C25_strict_ok_iff (e : Enc) (s bs : List Nat) :
    encodeStrict e s = .ok bs ↔ s.map (strictChar e) = bs.map some :=
  encodeStrict_ok_iff e s bs

example : encodeStrict .winAnsi [0x41, 0x20AC, 0xF1] = .ok [0x41, 0x80, 0xF1] := by decide +kernel

/-- WinAnsi: text containing a character outside the repertoire is reported, never replaced. -/
theorem C25_winansi_strict_reports_unencodable (s : List Nat) (c : Nat) (hc : c ∈ s)
    (hrep : ∀ b, AnnexD.dec .winAnsi b ≠ some c) (hctl : isCtl c = false) :
    ∃ c', encodeStrict .winAnsi s = .error c' ∧ c' ∈ s ∧ winansiEncodeChar c' = none :=
  encodeStrict_reports .winAnsi s c hc (C25_winansi_unencodable_is_none c hrep hctl)

example : encodeStrict .winAnsi [0x41, 0x3A9] = .error 0x3A9 := by decide +kernel

/-- WinAnsi: accepted text decodes back to itself (both decoders). -/
theorem C25_winansi_strict_roundtrip (s bs : List Nat) (h : encodeStrict .winAnsi s = .ok bs) :
    decode .winAnsi bs = s ∧ bs.filterMap winansiDecodeChar = s := by
  induction s generalizing bs with
  | nil =>
    simp only [encodeStrict, Except.ok.injEq] at h
    subst h; exact ⟨rfl, rfl⟩
  | cons x r ih =>
    simp only [encodeStrict] at h
    cases hx : strictChar .winAnsi x with
    | none => simp [hx] at h
    | some b =>
      cases hr : encodeStrict .winAnsi r with
      | error y => simp [hx, hr] at h
      | ok bs' =>
        simp only [hx, hr, Except.ok.injEq] at h
        subst h
        have ⟨h1, h2⟩ := C25_winansi_decode_encode x b hx
        have ⟨i1, i2⟩ := ih bs' hr
        constructor
        · simp only [decode, List.filterMap_cons, h2]
          simp only [decode] at i1
          rw [i1]
        · simp only [List.filterMap_cons, h1]
          rw [i2]

example : encodeStrict .winAnsi [0x2022, 0x20] = .ok [0x95, 0x20] ∧ decode .winAnsi [0x95, 0x20] = [0x2022, 0x20] := by
  decide +kernel

/- FULL (false of the code): the lossy API too never replaces a character silently, i.e.
   `∀ c, (∀ b, AnnexD.dec e b ≠ some c) → isCtl c = false → lossyChar e c` is not the encoding of
   another character.  `TextEncoding::encode` has no error channel and pushes `?`. -/
/-- Witness: U+0100 (not WinAnsi, not MacRoman) is silently encoded as the byte of `?`. -/
theorem C25_witness_lossy_substitutes_qmark :
    AnnexD.enc .winAnsi 0x100 = none ∧ lossyChar .winAnsi 0x100 = lossyChar .winAnsi 0x3F ∧
    AnnexD.enc .macRoman 0x100 = none ∧ lossyChar .macRoman 0x100 = lossyChar .macRoman 0x3F := by
  decide +kernel

/-! ## MacRomanEncoding — encode full (since the repair of the tables), decode partial (0xDB) -/

/- FULL (false of the code): `∀ b u, AnnexD.dec .macRoman b = some u → decodeByte .macRoman b = some u`. -/
/-- The MacRoman decode table agrees with Annex D on every defined slot except 0xDB. -/
theorem C25_macroman_decode_partial (b u : Nat) (hb : b ≠ 0xDB) (h : AnnexD.dec .macRoman b = some u) :
    decodeByte .macRoman b = some u := by
  have key : tblAll (fun b v => b == 0xDB || v.all fun u => decodeByte .macRoman b == some u)
      AnnexD.macRomanTbl = true := by decide +kernel
  have := tblAll_dec (e := .macRoman) key h
  simp only [Bool.or_eq_true, beq_iff_eq] at this
  rcases this with h1 | h1
  · exact absurd h1 hb
  · simpa using h1

example : AnnexD.dec .macRoman 0xCA = some 0xA0 ∧ decodeByte .macRoman 0xCA = some 0xA0 := by decide +kernel

/-- Witness: slot 0xDB is `currency` (U+00A4) in Annex D and the encoder writes U+00A4 there, but the
code decodes 0xDB to the euro sign (pinned by `test_mac_roman_decode_high_range`). -/
theorem C25_witness_macroman_decode_DB :
    AnnexD.dec .macRoman 0xDB = some 0xA4 ∧ decodeByte .macRoman 0xDB = some 0x20AC ∧
    macromanEncodeChar 0xA4 = some 0xDB := by
  decide +kernel

/-- The MacRoman `match byte` has no default arm; it is exhaustive. -/
theorem C25_macroman_decode_total (b : Nat) (hb : b < 256) : (decodeByte .macRoman b).isSome = true := by
  have key : tblAll (fun b _ => (decodeByte .macRoman b).isSome) AnnexD.macRomanTbl = true := by decide +kernel
  exact tblAll_lt (e := .macRoman) key b hb

example : decodeByte .macRoman 0xFF = some 0x2C7 := by decide +kernel

/- FULL (false of the code because of slot 0xDB): `macromanEncodeChar c = some b → decodeByte .macRoman b = some c`. -/
/-- What is encoded decodes back, for ALL code points, except through slot 0xDB. -/
theorem C25_macroman_decode_encode (c b : Nat) (hb : b ≠ 0xDB) (h : macromanEncodeChar c = some b) :
    decodeByte .macRoman b = some c := by
  have key : armsAll (fun c b => b == 0xDB || decodeByte .macRoman b == some c) macromanEncodeCharArms = true := by
    decide +kernel
  have := applyArms_none_sound _ _ key c b h
  simp only [Bool.or_eq_true, beq_iff_eq] at this
  rcases this with h1 | h1
  · exact absurd h1 hb
  · exact h1

example : macromanEncodeChar 0xC4 = some 0x80 ∧ decodeByte .macRoman 0x80 = some 0xC4 ∧
    macromanEncodeChar 0x2C7 = some 0xFF ∧ decodeByte .macRoman 0xFF = some 0x2C7 := by decide +kernel

/-- Soundness, for ALL code points: a byte is produced only for the character Annex D puts in that
slot, for a passed-through control, or — the one extra — U+2260 ↦ 0xAD (a slot Annex D leaves
undefined; Apple's table has NOT EQUAL TO there; pinned by `test_mac_roman_encode_symbols`). -/
theorem C25_macroman_encode_sound (c b : Nat) (h : macromanEncodeChar c = some b) :
    AnnexD.dec .macRoman b = some c ∨
    (AnnexD.dec .macRoman b = none ∧ ((b = c ∧ isCtl c = true) ∨ (c = 0x2260 ∧ b = 0xAD))) := by
  have key : armsAll (fun c b => AnnexD.dec .macRoman b == some c ||
      ((AnnexD.dec .macRoman b).isNone && ((b == c && isCtl c) || (c == 0x2260 && b == 0xAD))))
      macromanEncodeCharArms = true := by
    decide +kernel
  have hk := applyArms_none_sound _ _ key c b h
  simp only [Bool.and_eq_true, Bool.or_eq_true, beq_iff_eq, Option.isNone_iff_eq_none] at hk
  rcases hk with h1 | ⟨h1, h2⟩
  · exact Or.inl h1
  · refine Or.inr ⟨h1, ?_⟩
    rcases h2 with ⟨a, b'⟩ | ⟨a, b'⟩
    · exact Or.inl ⟨a, b'⟩
    · exact Or.inr ⟨a, b'⟩

example : macromanEncodeChar 0x2260 = some 0xAD ∧ AnnexD.dec .macRoman 0xAD = none := by decide +kernel

/-- Completeness (full since the repair): every character of the Annex D MacRoman repertoire — all 208
defined slots, 0xB0..0xFF included — is encoded as its Annex D byte. -/
theorem C25_macroman_encode_complete (b c : Nat) (h : AnnexD.dec .macRoman b = some c) :
    macromanEncodeChar c = some b := by
  have key : tblAll (fun b v => v.all fun c => macromanEncodeChar c == some b) AnnexD.macRomanTbl = true := by
    decide +kernel
  have := tblAll_dec (e := .macRoman) key h
  simpa using this

example : AnnexD.dec .macRoman 0xAF = some 0xD8 ∧ macromanEncodeChar 0xD8 = some 0xAF ∧
    AnnexD.dec .macRoman 0xB1 = some 0xB1 ∧ macromanEncodeChar 0xB1 = some 0xB1 ∧
    AnnexD.dec .macRoman 0xFF = some 0x2C7 ∧ macromanEncodeChar 0x2C7 = some 0xFF := by decide +kernel

/-- Un-encodable text is reported (MacRoman): outside the repertoire, the passed-through controls and
U+2260 the character-level encoder returns `None` — for every code point. -/
theorem C25_macroman_unencodable_is_none (c : Nat) (hrep : ∀ b, AnnexD.dec .macRoman b ≠ some c)
    (hctl : isCtl c = false) (hne : c ≠ 0x2260) : macromanEncodeChar c = none := by
  cases h : macromanEncodeChar c with
  | none => rfl
  | some b =>
    rcases C25_macroman_encode_sound c b h with h1 | ⟨_, ⟨_, h2⟩ | ⟨h2, _⟩⟩
    · exact absurd h1 (hrep b)
    · rw [hctl] at h2; simp at h2
    · exact absurd h2 hne

example : macromanEncodeChar 0x20AC = none ∧ AnnexD.enc .macRoman 0x20AC = none := by decide +kernel

/-- MacRoman: the strict API accepts the whole Annex D repertoire, byte for byte. -/
theorem C25_macroman_strict_accepts_repertoire (s bs : List Nat)
    (h : s.map (AnnexD.enc .macRoman) = bs.map some) : encodeStrict .macRoman s = .ok bs := by
  rw [encodeStrict_ok_iff]
  induction s generalizing bs with
  | nil => simpa using h
  | cons x r ih =>
    cases bs with
    | nil => simp at h
    | cons b bs' =>
      simp only [List.map_cons, List.cons.injEq] at h
      simp only [List.map_cons, List.cons.injEq]
      exact ⟨C25_macroman_encode_complete b x (enc_some h.1), ih bs' h.2⟩

example : encodeStrict .macRoman [0xB1, 0xE6, 0xC0] = .ok [0xB1, 0xBE, 0xCB] := by decide +kernel

/-- Regression witness (the tables before the repair, `Model/C25Old.lean`): `±` is MacRoman 0xB1 in
Annex D (and the code DEcodes 0xB1 to it), yet the old table had no arm for it — the strict API
refused it, the lossy API wrote `?`.  The repaired table encodes it. -/
theorem C25_witness_macroman_encode_gap :
    AnnexD.dec .macRoman 0xB1 = some 0xB1 ∧ decodeByte .macRoman 0xB1 = some 0xB1 ∧
    applyArms Old.macromanEncodeCharArms .none 0xB1 = none ∧
    applyArms Old.macromanEncodeCharArms (.const 0x3F) 0xB1 = some 0x3F ∧
    macromanEncodeChar 0xB1 = some 0xB1 ∧ encodeStrict .macRoman [0xB1] = .ok [0xB1] ∧
    lossyChar .macRoman 0xB1 = [0xB1] := by
  decide +kernel

/-- Exactly the 66 Annex D slots from 0xB0 up were affected; none is any more. -/
theorem C25_witness_macroman_encode_gap_extent :
    tblCountAux (fun b v => v.any fun c => applyArms Old.macromanEncodeCharArms .none c != some b)
      AnnexD.macRomanTbl 0 = 66 ∧
    tblCountAux (fun b v => v.any fun c => macromanEncodeChar c != some b) AnnexD.macRomanTbl 0 = 0 := by
  decide +kernel

/-! ## StandardEncoding and PDFDocEncoding — the code passes UTF-8 through; partial -/

/-- The strict API accepts exactly the code points up to the ASCII limit, as themselves. -/
theorem C25_passthrough_strict_iff (c b : Nat) :
    (strictChar .standard c = some b ↔ (c ≤ 0x7F ∧ b = c)) ∧
    (strictChar .pdfDoc c = some b ↔ (c ≤ 0x7F ∧ b = c)) := by
  have hl : strictAsciiMax = 0x7F := by decide
  simp only [strictChar, hl]
  constructor <;> (split <;> simp <;> omega)

example : strictChar .standard 0x41 = some 0x41 ∧ strictChar .pdfDoc 0x80 = none := by decide +kernel

/-- Non-ASCII text is always reported by the strict API of Standard / PDFDoc (never replaced). -/
theorem C25_passthrough_strict_reports (s : List Nat) (c : Nat) (hc : c ∈ s) (h : 0x7F < c) :
    (∃ c', encodeStrict .standard s = .error c' ∧ c' ∈ s) ∧ (∃ c', encodeStrict .pdfDoc s = .error c' ∧ c' ∈ s) := by
  have n1 : strictChar .standard c = none := by
    have hl : strictAsciiMax = 0x7F := by decide
    simp only [strictChar, hl]
    split
    · omega
    · rfl
  have n2 : strictChar .pdfDoc c = none := n1
  obtain ⟨a, ha, hm, _⟩ := encodeStrict_reports .standard s c hc n1
  obtain ⟨a', ha', hm', _⟩ := encodeStrict_reports .pdfDoc s c hc n2
  exact ⟨⟨a, ha, hm⟩, ⟨a', ha', hm'⟩⟩

example : encodeStrict .pdfDoc [0x41, 0xE9] = .error 0xE9 := by decide +kernel

/- FULL (false of the code): `∀ b u, AnnexD.dec .standard b = some u → decode .standard [b] = [u]`
   and likewise for `.pdfDoc`, plus the encode direction `AnnexD.dec e b = some c → strictChar e c = some b`. -/
/-- Standard: decode and encode agree with Annex D on ASCII except the two quote slots. -/
theorem C25_standard_partial (b u : Nat) (hb : b < 0x80) (h27 : b ≠ 0x27) (h60 : b ≠ 0x60)
    (h : AnnexD.dec .standard b = some u) :
    decode .standard [b] = [u] ∧ (strictChar .standard u = some b ∧ lossyChar .standard u = [b]) := by
  have key : tblAll (fun b v => Nat.ble 0x80 b || b == 0x27 || b == 0x60 || v.all fun u =>
      decode .standard [b] == [u] && (strictChar .standard u == some b && lossyChar .standard u == [b]))
      AnnexD.standardTbl = true := by
    decide +kernel
  have := tblAll_dec (e := .standard) key h
  simp only [Bool.or_eq_true, Nat.ble_eq, beq_iff_eq] at this
  rcases this with ((h1 | h1) | h1) | h1
  · omega
  · exact absurd h1 h27
  · exact absurd h1 h60
  · simpa using h1

example : AnnexD.dec .standard 0x41 = some 0x41 ∧ decode .standard [0x41] = [0x41] := by decide +kernel

/-- Witnesses (Standard): 0x27 is `quoteright` U+2019 but decodes to U+0027, and U+0027 is strictly
"encoded" as 0x27 although Annex D puts `quotesingle` at 0xA9; 0xA1 `exclamdown` decodes to U+FFFD;
U+00A1 is refused by the strict API and written as UTF-8 by the lossy one. -/
theorem C25_witness_standard :
    AnnexD.dec .standard 0x27 = some 0x2019 ∧ decode .standard [0x27] = [0x27] ∧
    AnnexD.enc .standard 0x27 = some 0xA9 ∧ strictChar .standard 0x27 = some 0x27 ∧
    AnnexD.dec .standard 0xA1 = some 0xA1 ∧ decode .standard [0xA1] = [0xFFFD] ∧
    strictChar .standard 0xA1 = none ∧ lossyChar .standard 0xA1 = [0xC2, 0xA1] := by
  decide +kernel

/-- PDFDoc: decode and encode agree with Annex D on 0x00–0x7F except the accent slots 0x18–0x1F. -/
theorem C25_pdfdoc_partial (b u : Nat) (hb : b < 0x80) (hacc : b < 0x18 ∨ 0x1F < b)
    (h : AnnexD.dec .pdfDoc b = some u) :
    decode .pdfDoc [b] = [u] ∧ (strictChar .pdfDoc u = some b ∧ lossyChar .pdfDoc u = [b]) := by
  have key : tblAll (fun b v => Nat.ble 0x80 b || (Nat.ble 0x18 b && Nat.ble b 0x1F) || v.all fun u =>
      decode .pdfDoc [b] == [u] && (strictChar .pdfDoc u == some b && lossyChar .pdfDoc u == [b]))
      AnnexD.pdfDocTbl = true := by
    decide +kernel
  have := tblAll_dec (e := .pdfDoc) key h
  simp only [Bool.or_eq_true, Bool.and_eq_true, Nat.ble_eq] at this
  rcases this with (h1 | h1) | h1
  · omega
  · omega
  · simpa using h1

example : AnnexD.dec .pdfDoc 0x0A = some 0x0A ∧ decode .pdfDoc [0x0A] = [0x0A] := by decide +kernel

/-- Witnesses (PDFDoc): `é` is 0xE9 in Annex D; the code refuses it (strict) or writes C3 A9 (lossy),
which Annex D reads as "Ã©"; byte 0xE9 decodes to U+FFFD; 0x18 is `breve`, the code says U+0018. -/
theorem C25_witness_pdfdoc :
    AnnexD.enc .pdfDoc 0xE9 = some 0xE9 ∧ strictChar .pdfDoc 0xE9 = none ∧
    lossyChar .pdfDoc 0xE9 = [0xC3, 0xA9] ∧
    (AnnexD.dec .pdfDoc 0xC3, AnnexD.dec .pdfDoc 0xA9) = (some 0xC3, some 0xA9) ∧
    decode .pdfDoc [0xE9] = [0xFFFD] ∧
    AnnexD.dec .pdfDoc 0x18 = some 0x2D8 ∧ decode .pdfDoc [0x18] = [0x18] := by
  decide +kernel

/-! ## `parser/encoding.rs` — `EnhancedDecoder` -/

/-- Windows-1252 of the `EnhancedDecoder` agrees with Annex D WinAnsi on every defined slot. -/
theorem C25_ed_windows1252_matches_annexD (b u : Nat) (h : AnnexD.dec .winAnsi b = some u) :
    edDecodeByte .windows1252 b = u := by
  have key : tblAll (fun b v => v.all fun u => edDecodeByte .windows1252 b == u) AnnexD.winAnsiTbl = true := by
    decide +kernel
  have := tblAll_dec (e := .winAnsi) key h
  simpa using this

example : edDecodeByte .windows1252 0x80 = 0x20AC := by decide +kernel

/-- MacRoman of the `EnhancedDecoder` agrees with Annex D on every defined slot (full since the table
was extended to 0xFF). -/
theorem C25_ed_macroman_matches_annexD (b u : Nat) (h : AnnexD.dec .macRoman b = some u) :
    edDecodeByte .macRoman b = u := by
  have key : tblAll (fun b v => v.all fun u => edDecodeByte .macRoman b == u) AnnexD.macRomanTbl = true := by
    decide +kernel
  have := tblAll_dec (e := .macRoman) key h
  simpa using this

example : edDecodeByte .macRoman 0xA0 = 0x2020 ∧ edDecodeByte .macRoman 0xDB = 0xA4 ∧
    edDecodeByte .macRoman 0xFF = 0x2C7 := by decide +kernel

/-- PDFDocEncoding of the `EnhancedDecoder` agrees with Annex D on every defined slot (full since it
got its own table: accents 0x18–0x1F, 0x80–0x9E, Euro at 0xA0). -/
theorem C25_ed_pdfdoc_matches_annexD (b u : Nat) (h : AnnexD.dec .pdfDoc b = some u) :
    edDecodeByte .pdfDoc b = u := by
  have key : tblAll (fun b v => v.all fun u => edDecodeByte .pdfDoc b == u) AnnexD.pdfDocTbl = true := by
    decide +kernel
  have := tblAll_dec (e := .pdfDoc) key h
  simpa using this

example : edDecodeByte .pdfDoc 0x18 = 0x2D8 ∧ edDecodeByte .pdfDoc 0x80 = 0x2022 ∧
    edDecodeByte .pdfDoc 0xA0 = 0x20AC ∧ edDecodeByte .pdfDoc 0x41 = 0x41 ∧ edDecodeByte .pdfDoc 0xE9 = 0xE9 := by
  decide +kernel

/-- The slots Annex D leaves undefined in PDFDocEncoding above 0x7F decode to the replacement character. -/
theorem C25_ed_pdfdoc_undefined_high (b : Nat) (hb : 0x80 ≤ b) (hb' : b < 256) (h : AnnexD.dec .pdfDoc b = none) :
    edDecodeByte .pdfDoc b = 0xFFFD := by
  have key : tblAll (fun b v => Nat.blt b 0x80 || v.isSome || edDecodeByte .pdfDoc b == 0xFFFD)
      AnnexD.pdfDocTbl = true := by decide +kernel
  have := tblAll_lt (e := .pdfDoc) key b hb'
  rw [h] at this
  simp only [Option.isSome_none, Bool.or_false, Bool.or_eq_true, Nat.blt_eq, beq_iff_eq] at this
  rcases this with h1 | h1
  · omega
  · exact h1

example : AnnexD.dec .pdfDoc 0x9F = none ∧ edDecodeByte .pdfDoc 0x9F = 0xFFFD ∧ edDecodeByte .pdfDoc 0xAD = 0xFFFD := by
  decide +kernel

/-- Regression witnesses (the tables before the repair, `Model/C25Old.lean`): `EnhancedDecoder` MacRoman
0xB1 ↦ U+FFFD (Annex D: ±); its PDFDocEncoding was Latin-1: 0x80 ↦ U+0080 (Annex D: bullet),
0xA0 ↦ U+00A0 (Annex D: Euro), 0x18 ↦ U+0018 (Annex D: breve). -/
theorem C25_witness_ed :
    AnnexD.dec .macRoman 0xB1 = some 0xB1 ∧ Old.edDecodeByte Old.edMacRomanArms 0xB1 = 0xFFFD ∧
    AnnexD.dec .pdfDoc 0x80 = some 0x2022 ∧ Old.edDecodeByte Old.edPdfDocArms 0x80 = 0x80 ∧
    AnnexD.dec .pdfDoc 0xA0 = some 0x20AC ∧ Old.edDecodeByte Old.edPdfDocArms 0xA0 = 0xA0 ∧
    AnnexD.dec .pdfDoc 0x18 = some 0x2D8 ∧ Old.edDecodeByte Old.edPdfDocArms 0x18 = 0x18 ∧
    edDecodeByte .macRoman 0xB1 = 0xB1 ∧ edDecodeByte .pdfDoc 0x80 = 0x2022 := by
  decide +kernel

/-! ## `text/extraction_cmap.rs` — the second set of decoders (fonts without ToUnicode) -/

/-- Consistency: the WinAnsi decoder of text extraction (`extraction_cmap::decode_winansi`) and
`winansi_decode_char` / the table inside `TextEncoding::decode` agree — on all 256 bytes with the
former, on every byte Annex D defines with the latter (which answers `?` on the five unused codes). -/
theorem C25_extraction_winansi_agrees (b : Nat) (hb : b < 256) :
    xcDecode .winAnsi b = winansiDecodeChar b ∧
    ((AnnexD.dec .winAnsi b).isSome = true → xcDecode .winAnsi b = decodeByte .winAnsi b) := by
  have key : tblAll (fun b v => xcDecode .winAnsi b == winansiDecodeChar b &&
      (!v.isSome || xcDecode .winAnsi b == decodeByte .winAnsi b)) AnnexD.winAnsiTbl = true := by decide +kernel
  have := tblAll_lt (e := .winAnsi) key b hb
  simp only [Bool.and_eq_true, beq_iff_eq, Bool.or_eq_true, Bool.not_eq_true'] at this
  refine ⟨this.1, fun h => ?_⟩
  rcases this.2 with h1 | h1
  · rw [h] at h1; simp at h1
  · exact h1

example : xcDecode .winAnsi 0x93 = some 0x201C ∧ winansiDecodeChar 0x93 = some 0x201C ∧
    decodeByte .winAnsi 0x93 = some 0x201C := by decide +kernel

/-- Hence text extraction decodes WinAnsi exactly as Annex D says, on every defined slot. -/
theorem C25_extraction_winansi_matches_annexD (b u : Nat) (h : AnnexD.dec .winAnsi b = some u) :
    xcDecode .winAnsi b = some u := by
  rw [(C25_extraction_winansi_agrees b (dec_lt h)).1]
  exact (C25_winansi_decode_matches_annexD b u h).1

example : xcDecode .winAnsi 0x80 = some 0x20AC := by decide +kernel

/- FULL (false of the code): `∀ b u, AnnexD.dec .macRoman b = some u → xcDecode .macRoman b = some u`, and
   the same for `.standard`. -/
/-- `extraction_cmap::decode_macroman` is right below 0xA0 only ("… more mappings"): from 0xA0 up it
answers the Latin-1 character of the byte. -/
theorem C25_extraction_macroman_partial (b u : Nat) (hb : b < 0xA0) (h : AnnexD.dec .macRoman b = some u) :
    xcDecode .macRoman b = some u := by
  have key : tblAll (fun b v => Nat.ble 0xA0 b || v.all fun u => xcDecode .macRoman b == some u)
      AnnexD.macRomanTbl = true := by decide +kernel
  have := tblAll_dec (e := .macRoman) key h
  simp only [Bool.or_eq_true, Nat.ble_eq] at this
  rcases this with h1 | h1
  · omega
  · simpa using h1

example : xcDecode .macRoman 0x8E = some 0xE9 := by decide +kernel

/-- `extraction_cmap::decode_standard` is Latin-1: right on ASCII except the two quote slots. -/
theorem C25_extraction_standard_partial (b u : Nat) (hb : b < 0x80) (h27 : b ≠ 0x27) (h60 : b ≠ 0x60)
    (h : AnnexD.dec .standard b = some u) : xcDecode .standard b = some u := by
  have key : tblAll (fun b v => Nat.ble 0x80 b || b == 0x27 || b == 0x60 || v.all fun u =>
      xcDecode .standard b == some u) AnnexD.standardTbl = true := by decide +kernel
  have := tblAll_dec (e := .standard) key h
  simp only [Bool.or_eq_true, Nat.ble_eq, beq_iff_eq] at this
  rcases this with ((h1 | h1) | h1) | h1
  · omega
  · exact absurd h1 h27
  · exact absurd h1 h60
  · simpa using h1

example : xcDecode .standard 0x41 = some 0x41 := by decide +kernel

/-- Witnesses: a MacRoman font without ToUnicode shows `’` (0xD5) as `Õ`, `–` (0xD0) as `Ð` (76 of the 81
Annex D slots from 0xA0 up come out wrong; ¢ £ © ± µ sit at their Latin-1 places).  A StandardEncoding
font shows `fi` (0xAE) as `®`, `—` (0xD0) as `Ð` (47 slots wrong). -/
theorem C25_witness_extraction_tables :
    AnnexD.dec .macRoman 0xD5 = some 0x2019 ∧ xcDecode .macRoman 0xD5 = some 0xD5 ∧
    AnnexD.dec .macRoman 0xD0 = some 0x2013 ∧ xcDecode .macRoman 0xD0 = some 0xD0 ∧
    AnnexD.dec .standard 0xAE = some 0xFB01 ∧ xcDecode .standard 0xAE = some 0xAE ∧
    AnnexD.dec .standard 0xD0 = some 0x2014 ∧ xcDecode .standard 0xD0 = some 0xD0 := by
  decide +kernel

/-- How many Annex D slots each of the two decoders gets wrong. -/
theorem C25_witness_extraction_tables_extent :
    tblCountAux (fun b v => v.any fun u => xcDecode .macRoman b != some u) AnnexD.macRomanTbl 0 = 76 ∧
    tblCountAux (fun b v => v.any fun u => xcDecode .standard b != some u) AnnexD.standardTbl 0 = 47 := by
  decide +kernel

/-! ## the specification's two presentations -/

/-- `AnnexD.enc` (used by the run-time oracle) returns a slot that holds the code point … -/
theorem C25_annexD_enc_some (e : Enc) (c b : Nat) (h : AnnexD.enc e c = some b) : AnnexD.dec e b = some c :=
  enc_some h

/-- … and `none` only when no slot holds it. -/
theorem C25_annexD_enc_none (e : Enc) (c : Nat) (h : AnnexD.enc e c = none) (b : Nat) : AnnexD.dec e b ≠ some c :=
  enc_none h b

example : AnnexD.enc .winAnsi 0x20AC = some 0x80 ∧ AnnexD.enc .pdfDoc 0x20AC = some 0xA0 ∧
    AnnexD.enc .macRoman 0x20AC = none ∧ AnnexD.enc .standard 0x2019 = some 0x27 := by decide +kernel

end OxiVerif.C25
