import OxiVerif.Model.C08
import OxiVerif.Lemmas.C08
import OxiVerif.Gen.C08Consts
/-!
C08 — bounded decoding respects its limit and agrees with full decoding.

All statements are about the model `Model/C08.lean` of `parser/filters.rs`
(`decodeStreamWithLimit` = `PdfStream::decode_with_limit`, `decodeStream` = `PdfStream::decode`),
for every input, every filter chain, every parameter dictionary, every limit, and every behaviour
`E : Ext` of the external inflate.  The tie to the code is the correspondence run (tools/check.py
C08) and, for the constants, `Gen/C08Consts.lean` regenerated from the source on every run.
-/
namespace OxiVerif.Flt

/-- an inflate that is never consulted (streams without a Flate stage) -/
def noExt : Ext := ⟨fun _ => .ext 1, fun _ => .ext 1⟩

/-! ## 1. A bounded result never exceeds the limit -/

theorem boundedStage_le {E : Ext} {L : Nat} {input : List Nat} {f : FName} {p : Option Dict}
    {o : List Nat} (h : boundedStage E L input f p = .ok o) : o.length ≤ L := by
  unfold boundedStage at h
  simp only [Res.bind_ok] at h
  obtain ⟨_, _, _, _, h⟩ := h
  split at h
  · cases h
  · cases h; omega

theorem boundedGo_le {E : Ext} {L : Nat} {p : ParmSpec} {data : List Nat} :
    ∀ (fs : List FName) (i : Nat) (cur : Option (List Nat)) (o : List Nat),
      boundedGo E L p data i fs cur = .ok o → (∀ c, cur = some c → c.length ≤ L) → o.length ≤ L := by
  intro fs
  induction fs with
  | nil =>
    intro i cur o h hc
    simp only [boundedGo] at h
    cases cur with
    | none =>
      simp only [copyWithLimit] at h
      split at h
      · cases h
      · cases h; omega
    | some c => cases h; exact hc _ rfl
  | cons f fs ih =>
    intro i cur o h _
    simp only [boundedGo] at h
    split at h
    · cases h
    · rw [Res.bind_ok] at h
      obtain ⟨r, hr, h⟩ := h
      exact ih _ _ _ h (fun c hc => by cases hc; exact boundedStage_le hr)

/-- **Every bounded decode returns at most `L` bytes** — any data, filters, parameters, limit
(including 0), any inflate behaviour. -/
theorem C08_bounded_le_limit (E : Ext) (data : List Nat) (fs : FilterSpec) (p : ParmSpec) (L : Nat)
    (o : List Nat) (h : decodeStreamWithLimit E data fs p L = .ok o) : o.length ≤ L := by
  unfold decodeStreamWithLimit at h
  split at h
  · unfold copyWithLimit at h; split at h
    · cases h
    · cases h; omega
  · cases h
  · exact boundedGo_le _ _ _ _ h (by simp)
  · split at h
    · cases h
    · exact boundedGo_le _ _ _ _ h (by simp)

/-- non-vacuity: `48656c6c6f>` under ASCIIHexDecode with limit 5 decodes to the 5 bytes of "Hello",
with limit 4 it is an error. -/
example : decodeStreamWithLimit noExt
    [52,56,54,53,54,99,54,99,54,102,62] (.single .hex) .none 5 = .ok [72,101,108,108,111] := by decide +kernel
example : decodeStreamWithLimit noExt
    [52,56,54,53,54,99,54,99,54,102,62] (.single .hex) .none 4 = .err .decode := by decide +kernel

/-- The incremental checks (`push_bounded` / `extend_bounded` / the per-packet check) already keep
the ASCIIHex, ASCII85 and RunLength decoders within the limit, before the post-filter check. -/
theorem C08_decoders_le_limit (L : Nat) (d o : List Nat) :
    (hexDec L d = .ok o → o.length ≤ L) ∧ (a85Dec L d = .ok o → o.length ≤ L) ∧
    (rlDec L d = .ok o → o.length ≤ L) :=
  ⟨fun h => by simpa using hexGo_le L 0 _ o h, fun h => by simpa using a85Go_le L 0 [] _ o h,
   fun h => by simpa using rlGo_le L _ 0 d o h⟩

example : a85Dec 4 [60,126,56,55,99,85,82,126,62] = .ok [72,101,108,108] := by decide

/-- `decode_lzw_with_limit` alone does NOT keep its limit: the first code after a Clear is appended
without a check.  Codes `65, EOD` with limit 0 give one byte.  (The post-filter check of
`decode_stream_with_limit` is what makes `C08_bounded_le_limit` true for LZW.) -/
theorem C08_lzw_first_code_unchecked_witness :
    lzwDec 0 true [0x20, 0xC0, 0x40] = .ok [65] := by decide +kernel

/-! ## 1b. Panics

The two overflows that were reachable (ASCII85 group value ≥ 2^32: C08-F1; `bpc * colors` in the PNG
predictor: C08-F2) have been repaired in the library (checked arithmetic → `StreamDecodeError`); the
model mirrors the repaired code and the statement is now proved in full. -/

/-- an inflate that does not panic itself -/
def ExtNoPanic (E : Ext) : Prop := ∀ x q, E.zlib x ≠ .panic q ∧ E.recover x ≠ .panic q

theorem Res.bind_panic {α β} {r : Res α} {f : α → Res β} {q : Pan} :
    r.bind f = .panic q ↔ r = .panic q ∨ ∃ a, r = .ok a ∧ f a = .panic q := by
  cases r <;> simp [Res.bind]

theorem boundedStage_no_panic {E : Ext} (hE : ExtNoPanic E) (L : Nat) (input : List Nat) (f : FName)
    (p : Option Dict) (q : Pan) : boundedStage E L input f p ≠ .panic q := by
  unfold boundedStage
  intro h
  simp only [Res.bind_panic] at h
  rcases h with h | ⟨dec, _, h⟩
  · cases f
    case flate =>
      simp only [decodeFlateWithLimit, Res.bind_panic] at h
      rcases h with h | ⟨z, _, h⟩
      · exact (hE input q).1 h
      · cases z <;> simp at h
        split at h <;> cases h
    case hex => exact hexGo_no_panic L q 0 _ h
    case a85 => exact a85Go_no_panic L q 0 [] _ h
    case lzw => exact lzwGo_no_panic L _ q _ 0 _ h
    case rl => exact rlGo_no_panic L q _ 0 _ h
    all_goals cases h
  · rcases h with h | ⟨r, _, h⟩
    · split at h
      · split at h
        · split at h
          · exact applyPredictor_no_panic _ _ _ _ h
          · cases h
        · cases h
      · cases h
    · split at h <;> cases h

theorem boundedGo_no_panic {E : Ext} (hE : ExtNoPanic E) (L : Nat) (p : ParmSpec) (data : List Nat) (q : Pan) :
    ∀ (fs : List FName) (i : Nat) (cur : Option (List Nat)), boundedGo E L p data i fs cur ≠ .panic q := by
  intro fs
  induction fs with
  | nil =>
    intro i cur h
    simp only [boundedGo] at h
    cases cur with
    | none => simp only [copyWithLimit] at h; split at h <;> cases h
    | some c => cases h
  | cons f fs ih =>
    intro i cur h
    simp only [boundedGo] at h
    split at h
    · cases h
    · rw [Res.bind_panic] at h
      rcases h with h | ⟨r, _, h⟩
      · exact boundedStage_no_panic hE _ _ _ _ _ h
      · exact ih _ _ h

/-- **The bounded decoder never panics** — any data, filters, parameters, limit; the only assumption
is that the external inflate does not. -/
theorem C08_bounded_never_panics (E : Ext) (hE : ExtNoPanic E) (data : List Nat) (fs : FilterSpec)
    (p : ParmSpec) (L : Nat) (q : Pan) : decodeStreamWithLimit E data fs p L ≠ .panic q := by
  unfold decodeStreamWithLimit
  intro h
  split at h
  · simp only [copyWithLimit] at h; split at h <;> cases h
  · cases h
  · exact boundedGo_no_panic hE _ _ _ _ _ _ _ h
  · split at h
    · cases h
    · exact boundedGo_no_panic hE _ _ _ _ _ _ _ h

example : ExtNoPanic noExt := fun _ _ => ⟨by simp [noExt], by simp [noExt]⟩

/-- every single bounded decoder, for any input and limit -/
theorem C08_decoders_never_panic (L : Nat) (e : Bool) (d : List Nat) (q : Pan) :
    hexDec L d ≠ .panic q ∧ a85Dec L d ≠ .panic q ∧ rlDec L d ≠ .panic q ∧ lzwDec L e d ≠ .panic q :=
  ⟨hexGo_no_panic L q 0 _, a85Go_no_panic L q 0 [] _, rlGo_no_panic L q _ 0 d, lzwGo_no_panic L e q _ 0 _⟩

/-- regression for C08-F1: the unchecked sum of the unrepaired code panicked on `uuuuu` (multiply)
and `s9!!!` (add); `ascii85_group_value` returns a decode error, and so does the whole bounded path. -/
theorem C08_regression_a85_overflow :
    a85SumOld 0 0 [117,117,117,117,117] = .panic .mul ∧ a85SumOld 0 0 [115,57,33,33,33] = .panic .add ∧
    decodeStreamWithLimit noExt [117,117,117,117,117,126,62] (.single .a85) .none 4 = .err .decode ∧
    decodeStreamWithLimit noExt [115,57,33,33,33,126,62] (.single .a85) .none 4 = .err .decode := by
  decide +kernel

/-- regression for C08-F2: `/Predictor 12 /Colors -1` behind LZW — `bpc * colors` = 8·(2^64−1) does not
fit a usize (the unrepaired code multiplied unchecked and panicked); now a decode error. -/
theorem C08_regression_png_bpp_overflow :
    asUsize 8 * asUsize (-1) ≥ two64 ∧
    decodeStreamWithLimit noExt [0x80, 0x00, 0x80, 0xF0, 0x10] (.single .lzw)
      (.dict { predictor := .int 12, colors := .int (-1) }) 10 = .err .decode := by
  decide +kernel

/-! ## 2. The result does not depend on the limit (as long as it fits) -/

/-- For each modelled decoder: if it succeeds under limit `L` and the output has at most `L'` bytes
then it succeeds under `L'` with the same output.  With `L = MAX_DECOMPRESSED_SIZE` (the unbounded
path of these four filters is the bounded function at the ceiling, see
`C08_unbounded_is_bounded_at_ceiling`) this is "bounded = unbounded whenever the result fits". -/
theorem C08_decoder_limit_irrelevant (L L' : Nat) (e : Bool) (d o : List Nat) (hfit : o.length ≤ L') :
    (hexDec L d = .ok o → hexDec L' d = .ok o) ∧ (a85Dec L d = .ok o → a85Dec L' d = .ok o) ∧
    (rlDec L d = .ok o → rlDec L' d = .ok o) ∧ (lzwDec L e d = .ok o → lzwDec L' e d = .ok o) :=
  ⟨fun h => hexGo_mono L L' 0 _ o h (by omega), fun h => a85Go_mono L L' 0 [] _ o h (by omega),
   fun h => rlGo_mono L L' _ 0 d o h (by omega), fun h => lzwGo_mono L L' e _ 0 _ o h (by omega)⟩

example : rlDec 268435456 [254, 7, 1, 8, 9, 128] = .ok [7, 7, 7, 8, 9] ∧
    rlDec 5 [254, 7, 1, 8, 9, 128] = .ok [7, 7, 7, 8, 9] ∧ rlDec 4 [254, 7, 1, 8, 9, 128] = .err .decode := by
  decide

theorem boundedStage_mono {E : Ext} {L L' : Nat} (hLL : L ≤ L') {input : List Nat} {f : FName}
    {p : Option Dict} {o : List Nat} (h : boundedStage E L input f p = .ok o) :
    boundedStage E L' input f p = .ok o := by
  have hle := boundedStage_le h
  unfold boundedStage at h ⊢
  simp only [Res.bind_ok] at h ⊢
  obtain ⟨dec, hdec, r, hr, h⟩ := h
  refine ⟨dec, ?_, r, hr, ?_⟩
  · cases f
    case hex =>
      have := hexGo_le L 0 _ dec hdec
      exact hexGo_mono L L' 0 _ dec hdec (by omega)
    case a85 =>
      have := a85Go_le L 0 [] _ dec hdec
      exact a85Go_mono L L' 0 [] _ dec hdec (by omega)
    case rl =>
      have := rlGo_le L _ 0 _ dec hdec
      exact rlGo_mono L L' _ 0 _ dec hdec (by omega)
    case lzw => exact lzwGo_mono_le L L' hLL _ _ 0 _ dec hdec
    case flate =>
      simp only [decodeFlateWithLimit, Res.bind_ok] at hdec ⊢
      obtain ⟨z, hz, hdec⟩ := hdec
      refine ⟨z, hz, ?_⟩
      cases z with
      | none => cases hdec
      | some plain =>
        simp only at hdec ⊢
        split at hdec
        · cases hdec
        · cases hdec; rw [if_neg (by omega)]
    all_goals cases hdec
  · split at h
    · cases h
    · cases h; rw [if_neg (by omega)]

theorem boundedGo_mono {E : Ext} {L L' : Nat} (hLL : L ≤ L') {p : ParmSpec} {data : List Nat} :
    ∀ (fs : List FName) (i : Nat) (cur : Option (List Nat)) (o : List Nat),
      boundedGo E L p data i fs cur = .ok o → boundedGo E L' p data i fs cur = .ok o := by
  intro fs
  induction fs with
  | nil =>
    intro i cur o h
    simp only [boundedGo] at h ⊢
    cases cur with
    | none =>
      simp only [copyWithLimit] at h ⊢
      split at h
      · cases h
      · cases h; rw [if_neg (by omega)]
    | some c => exact h
  | cons f fs ih =>
    intro i cur o h
    simp only [boundedGo] at h ⊢
    split at h
    · cases h
    · rename_i hf
      rw [if_neg hf]
      rw [Res.bind_ok] at h ⊢
      obtain ⟨r, hr, h⟩ := h
      exact ⟨r, boundedStage_mono hLL hr, ih _ _ _ h⟩

/-- **Limit monotonicity of the whole bounded path**: raising the limit never changes a result. -/
theorem C08_bounded_mono (E : Ext) (data : List Nat) (fs : FilterSpec) (p : ParmSpec) (L L' : Nat)
    (hLL : L ≤ L') (o : List Nat) (h : decodeStreamWithLimit E data fs p L = .ok o) :
    decodeStreamWithLimit E data fs p L' = .ok o := by
  unfold decodeStreamWithLimit at h ⊢
  split at h
  · unfold copyWithLimit at h ⊢; split at h
    · cases h
    · cases h; rw [if_neg (by omega)]
  · cases h
  · exact boundedGo_mono hLL _ _ _ _ h
  · split at h
    · cases h
    · exact boundedGo_mono hLL _ _ _ _ h

/-! ## 3. Bounded = unbounded -/

theorem ratioGuard_le_max : ratioGuardMinOutput ≤ maxDecompressedSize := by decide

/-- decoder part of `apply_filter_with_params` -/
def stageDec (E : Ext) (data : List Nat) (f : FName) (p : Option Dict) : Res (List Nat) :=
  match f with
  | .flate =>
    match p with
    | some d =>
      if d.predictor.asInt.isSome then
        (tryStandardZlib E data).bind fun r =>
          match r with
          | some plain => .ok plain
          | none => .ok data
      else decodeFlate E data
    | none => decodeFlate E data
  | .hex => hexDec maxDecompressedSize data
  | .a85 => a85Dec maxDecompressedSize data
  | .lzw => lzwDec maxDecompressedSize (earlyChange p) data
  | .rl => rlDec maxDecompressedSize data
  | .ccitt => .ext 0
  | .jbig2 => .ext 0
  | .dct => .ext 0
  | _ => .err .syntax

/-- predictor part of `apply_filter_with_params` (Flate and LZW only) -/
def stagePred (f : FName) (p : Option Dict) (result : List Nat) : Res (List Nat) :=
  match (if f = .flate ∨ f = .lzw then p else none) with
  | some d =>
    match d.predictor.asInt with
    | some pr =>
      match applyPredictor result (asU32 pr) d with
      | .ok r => .ok r
      | .err _ => .ok result
      | .panic q => .panic q
      | .ext w => .ext w
    | none => .ok result
  | none => .ok result

theorem applyFilterWithParams_eq (E : Ext) (data : List Nat) (f : FName) (p : Option Dict) :
    applyFilterWithParams E data f p = (stageDec E data f p).bind (stagePred f p) := rfl

theorem tryStandardZlib_of_small {E : Ext} {input plain : List Nat}
    (hz : E.zlib input = .ok (some plain)) (hpl : plain.length ≤ ratioGuardMinOutput) :
    tryStandardZlib E input = .ok (some plain) := by
  have hmax := ratioGuard_le_max
  simp only [tryStandardZlib, Res.bind_ok]
  refine ⟨_, hz, ?_⟩
  have h1 : ¬ plain.length > maxDecompressedSize := by omega
  have h2 : ratioOk input.length plain.length = true := by
    have : ¬ plain.length > ratioGuardMinOutput := by omega
    simp [ratioOk, this]
  simp only [h1, h2, if_true, if_false]

theorem stage_bounded_to_unbounded {E : Ext} {L : Nat} (hL : L ≤ ratioGuardMinOutput)
    {input : List Nat} {f : FName} {p : Option Dict} {o : List Nat}
    (h : boundedStage E L input f p = .ok o) : applyFilterWithParams E input f p = .ok o := by
  have hle := boundedStage_le h
  have hmax := ratioGuard_le_max
  unfold boundedStage at h
  simp only [Res.bind_ok] at h
  obtain ⟨dec, hdec, r, hr, h⟩ := h
  have hro : r = o := by
    split at h
    · cases h
    · cases h; rfl
  subst hro
  rw [applyFilterWithParams_eq, Res.bind_ok]
  refine ⟨dec, ?_, ?_⟩
  · -- the decoder
    cases f
    case hex =>
      have := hexGo_le L 0 _ dec hdec
      exact hexGo_mono L _ 0 _ dec hdec (by omega)
    case a85 =>
      have := a85Go_le L 0 [] _ dec hdec
      exact a85Go_mono L _ 0 [] _ dec hdec (by omega)
    case rl =>
      have := rlGo_le L _ 0 _ dec hdec
      exact rlGo_mono L _ _ 0 _ dec hdec (by omega)
    case lzw => exact lzwGo_mono_le L _ (by omega) _ _ 0 _ dec hdec
    case flate =>
      simp only [decodeFlateWithLimit, Res.bind_ok] at hdec
      obtain ⟨z, hz, hdec⟩ := hdec
      cases z with
      | none => cases hdec
      | some plain =>
        have hpl : plain.length ≤ L ∧ plain = dec := by
          simp only at hdec
          split at hdec
          · cases hdec
          · cases hdec; exact ⟨by omega, rfl⟩
        obtain ⟨hpl, rfl⟩ := hpl
        have hzl := tryStandardZlib_of_small hz (by omega)
        cases p with
        | none => simp [stageDec, decodeFlate, hzl, Res.bind]
        | some d => by_cases hd : d.predictor.asInt.isSome <;> simp [stageDec, hd, decodeFlate, hzl, Res.bind]
    all_goals cases hdec
  · -- the predictor
    unfold stagePred
    by_cases hf : f = .flate ∨ f = .lzw
    · simp only [hf, if_true] at hr ⊢
      cases p with
      | none => simpa using hr
      | some d =>
        cases hpi : d.predictor.asInt with
        | none => simp only [hpi] at hr ⊢; simpa using hr
        | some pr => simp only [hpi] at hr ⊢; rw [hr]
    · simp only [hf, if_false] at hr ⊢
      simpa using hr

theorem go_bounded_to_unbounded {E : Ext} {L : Nat} (hL : L ≤ ratioGuardMinOutput) {p : ParmSpec}
    {data : List Nat} :
    ∀ (fs : List FName) (i : Nat) (cur : Option (List Nat)) (o : List Nat),
      boundedGo E L p data i fs cur = .ok o → chainGo E p i fs (cur.getD data) = .ok o := by
  intro fs
  induction fs with
  | nil =>
    intro i cur o h
    simp only [boundedGo] at h
    cases cur with
    | none =>
      simp only [copyWithLimit] at h
      split at h
      · cases h
      · simpa [chainGo] using h
    | some c => simpa [chainGo] using h
  | cons f fs ih =>
    intro i cur o h
    simp only [boundedGo] at h
    simp only [chainGo]
    split at h
    · cases h
    · rename_i hf
      rw [if_neg hf]
      rw [Res.bind_ok] at h ⊢
      obtain ⟨r, hr, h⟩ := h
      refine ⟨r, stage_bounded_to_unbounded hL hr, ?_⟩
      simpa using ih (i + 1) (some r) o h

/- The two shapes on which the paths used to differ — `/Filter []` (C08-F3) and an integer
   /Predictor next to ASCIIHex/ASCII85/RunLength (C08-F4) — have been repaired in the library; the
   hypothesis `plainShape` of the former `C08_bounded_eq_unbounded_partial` is gone.
   `L ≤ RATIO_GUARD_MIN_OUTPUT` (64 MiB) remains: the Flate ratio heuristic exists only in the
   unbounded path and only looks at outputs above 64 MiB. -/

/-- **Bounded agrees with unbounded**: whenever the bounded call succeeds (limit up to 64 MiB), the
unbounded call returns the same bytes — every data, filter shape, DecodeParms shape. -/
theorem C08_bounded_eq_unbounded (E : Ext) (data : List Nat) (fs : FilterSpec) (p : ParmSpec)
    (L : Nat) (hL : L ≤ ratioGuardMinOutput) (o : List Nat)
    (h : decodeStreamWithLimit E data fs p L = .ok o) : decodeStream E data fs p = .ok o := by
  unfold decodeStreamWithLimit at h
  unfold decodeStream
  split at h
  · unfold copyWithLimit at h; split at h
    · cases h
    · exact h
  · cases h
  · simpa using go_bounded_to_unbounded hL _ 0 none o h
  · split at h
    · cases h
    · simpa using go_bounded_to_unbounded hL _ 0 none o h

example : decodeStreamWithLimit noExt [48,50,48,53,62] (.single .hex) (.dict { predictor := .int 12 }) 2 = .ok [2, 5] ∧
    decodeStream noExt [48,50,48,53,62] (.single .hex) (.dict { predictor := .int 12 }) = .ok [2, 5] := by
  decide +kernel

/-- regression for C08-F3: `/Filter []` — both paths return the data (the unrepaired bounded path
returned `result.unwrap_or_default()` = the empty string); a limit below the data size is an error. -/
theorem C08_regression_empty_filter_array (E : Ext) :
    decodeStreamWithLimit E [1, 2, 3] (.array []) .none 10 = .ok [1, 2, 3] ∧
    decodeStream E [1, 2, 3] (.array []) .none = .ok [1, 2, 3] ∧
    decodeStreamWithLimit E [1, 2, 3] (.array []) .none 2 = .err .decode := by
  refine ⟨rfl, rfl, rfl⟩

/-- regression for C08-F4: `/Filter /ASCIIHexDecode /DecodeParms << /Predictor 12 /Columns 1 >>` over
`02 05 02 03` (hex): both paths now ignore the predictor (the unrepaired unbounded path un-predicted
to `05 08`). -/
theorem C08_regression_predictor_on_hex :
    let d : Dict := { predictor := .int 12, columns := .int 1 }
    decodeStreamWithLimit noExt [48,50,48,53,48,50,48,51,62] (.single .hex) (.dict d) 10 = .ok [2, 5, 2, 3] ∧
    decodeStream noExt [48,50,48,53,48,50,48,51,62] (.single .hex) (.dict d) = .ok [2, 5, 2, 3] ∧
    applyPredictor [2, 5, 2, 3] 12 d = .ok [5, 8] := by
  decide +kernel

/- FULL: "when a well-formed stream decodes fully within the limit the bounded result equals the
   unbounded one", read as `decode = ok o → o.length ≤ L → decode_with_limit L = ok o`.
   Not true of the code (F5): the limit is enforced on the output of every stage *before* its
   predictor and on every intermediate stage, so a PNG-predicted stream of `n` decoded bytes needs
   `L ≥ n + rows`.  At decoder level the statement is `C08_decoder_limit_irrelevant`. -/

/-- F5: LZW + PNG-Up predictor, one row of one byte: the result `[7]` fits limit 1, the unbounded
path returns it, the bounded path refuses (its pre-predictor buffer has 2 bytes); limit 2 works. -/
theorem C08_witness_limit_applies_before_predictor :
    let d : Dict := { predictor := .int 12, columns := .int 1 }
    let data := [0x80, 0x00, 0x80, 0xF0, 0x10]   -- Clear, 2, 7, EOD
    decodeStream noExt data (.single .lzw) (.dict d) = .ok [7] ∧
    decodeStreamWithLimit noExt data (.single .lzw) (.dict d) 1 = .err .decode ∧
    decodeStreamWithLimit noExt data (.single .lzw) (.dict d) 2 = .ok [7] := by
  decide +kernel

/-! ## 4. The ceiling -/

/-- The documented ceiling, as written in the source, is 256 MiB; the ratio guard starts at 64 MiB
with ratio 1000; the model uses exactly the source's constants.  (Regenerated from
parser/filters.rs by tools/translate_c08.py: an edited constant breaks this theorem.) -/
theorem C08_ceiling_constants :
    Gen.C08.maxDecompressedSize = 256 * 2 ^ 20 ∧ Gen.C08.ratioGuardMinOutput = 64 * 2 ^ 20 ∧
    Gen.C08.maxCompressionRatio = 1000 ∧
    maxDecompressedSize = Gen.C08.maxDecompressedSize ∧
    ratioGuardMinOutput = Gen.C08.ratioGuardMinOutput ∧
    maxCompressionRatio = Gen.C08.maxCompressionRatio := by decide

/-- The LZW constants of the source are the ones hard-wired in `lzwGo`. -/
theorem C08_lzw_constants :
    Gen.C08.lzwMinBits = 9 ∧ Gen.C08.lzwMaxBits = 12 ∧ Gen.C08.lzwClearCode = 256 ∧
    Gen.C08.lzwEodCode = 257 ∧ Gen.C08.lzwTruncate = 258 ∧ Gen.C08.lzwTableSize = 4096 := by decide

/-- In the source, the unbounded ASCIIHex/ASCII85/LZW/RunLength decoders are the bounded ones
called with `MAX_DECOMPRESSED_SIZE` (textual match by the translator); in the model this is how
`applyFilterWithParams` is written. -/
theorem C08_unbounded_is_bounded_at_ceiling (E : Ext) (d : List Nat) :
    Gen.C08.unboundedIsBoundedAtMax = true ∧
    applyFilterWithParams E d .hex none = hexDec maxDecompressedSize d ∧
    applyFilterWithParams E d .a85 none = a85Dec maxDecompressedSize d ∧
    applyFilterWithParams E d .rl none = rlDec maxDecompressedSize d ∧
    applyFilterWithParams E d .lzw none = lzwDec maxDecompressedSize true d := by
  have hb : ∀ r : Res (List Nat), (r.bind fun x => Res.ok x) = r := by intro r; cases r <;> rfl
  refine ⟨by decide, ?_, ?_, ?_, ?_⟩ <;> simp [applyFilterWithParams, earlyChange, hb]

/-- `read_to_end_limited` over any sequence of chunks: succeeds iff the total fits, and then returns
the concatenation. -/
theorem C08_read_to_end_limited (L : Nat) (chunks : List (List Nat)) (o : List Nat) :
    readToEndLimited L 0 chunks = .ok o ↔ (o = chunks.flatten ∧ (chunks = [] ∨ o.length ≤ L)) := by
  simpa using readToEndLimited_ok L 0 chunks o

example : readToEndLimited 5 0 [[1, 2], [3], [4, 5]] = .ok [1, 2, 3, 4, 5] ∧
    readToEndLimited 4 0 [[1, 2], [3], [4, 5]] = .err .decode := by decide

/-- `recover` (strategies 2–8 of `decode_flate`, outside the model) is assumed to keep the ceiling:
every strategy reads through `read_to_end_limited(MAX_DECOMPRESSED_SIZE)` or an equivalent check. -/
def RecoverBounded (E : Ext) : Prop := ∀ x r, E.recover x = .ok r → r.length ≤ maxDecompressedSize

theorem stage_ceiling {E : Ext} (hE : RecoverBounded E) {data : List Nat} {f : FName} (hf : f ≠ .lzw)
    {p : Option Dict} {o : List Nat} (h : applyFilterWithParams E data f p = .ok o) :
    o.length ≤ max maxDecompressedSize data.length := by
  rw [applyFilterWithParams_eq, Res.bind_ok] at h
  obtain ⟨dec, hdec, h⟩ := h
  unfold stagePred at h
  have hdecle : dec.length ≤ max maxDecompressedSize data.length := by
    unfold stageDec at hdec
    cases f
    case lzw => exact absurd rfl hf
    case hex => have := hexGo_le _ 0 _ dec hdec; omega
    case a85 => have := a85Go_le _ 0 [] _ dec hdec; omega
    case rl => have := rlGo_le _ _ 0 _ dec hdec; omega
    case flate =>
      have hz : ∀ z, tryStandardZlib E data = .ok (some z) → z.length ≤ maxDecompressedSize := by
        intro z hz
        simp only [tryStandardZlib, Res.bind_ok] at hz
        obtain ⟨r, _, hz⟩ := hz
        cases r with
        | none => cases hz
        | some plain =>
          simp only at hz
          split at hz
          · cases hz
          · split at hz <;> cases hz
            omega
      have hfl : ∀ z, decodeFlate E data = .ok z → z.length ≤ maxDecompressedSize := by
        intro z hzz
        simp only [decodeFlate, Res.bind_ok] at hzz
        obtain ⟨r, hr, hzz⟩ := hzz
        cases r with
        | none => exact hE _ _ hzz
        | some plain => cases hzz; exact hz _ hr
      cases p with
      | none => have := hfl _ hdec; omega
      | some d =>
        simp only at hdec
        split at hdec
        · simp only [Res.bind_ok] at hdec
          obtain ⟨r, hr, hdec⟩ := hdec
          cases r with
          | none => cases hdec; omega
          | some plain => cases hdec; have := hz _ hr; omega
        · have := hfl _ hdec; omega
    all_goals cases hdec
  split at h
  · split at h
    · split at h
      · cases h; rename_i hap; have := applyPredictor_le _ _ _ _ hap; omega
      · cases h; exact hdecle
      all_goals cases h
    · cases h; exact hdecle
  · cases h; exact hdecle

/- FULL: `decodeStream E data fs p = ok o → (at least one filter) → o.length ≤ maxDecompressedSize`.
   Two things stand in the way, both facts about the code: (a) an LZW stage can exceed its limit
   (`C08_lzw_first_code_unchecked_witness`: one unchecked byte per Clear), so only
   `ceiling + number of codes` could be proved for it — left out; (b) `/FlateDecode` with a
   /Predictor whose zlib stream is broken returns the *input* unchanged, whatever its size, hence
   the `max … data.length`. -/

/-- **Unbounded decoding stays under the ceiling** (or the input size, when that is larger) for every
chain without an LZW stage, under the stated assumption on the external recovery strategies. -/
theorem C08_unbounded_ceiling_partial (E : Ext) (hE : RecoverBounded E) (p : ParmSpec) :
    ∀ (fs : List FName) (i : Nat) (data o : List Nat), .lzw ∉ fs → chainGo E p i fs data = .ok o →
      o.length ≤ max maxDecompressedSize data.length := by
  intro fs
  induction fs with
  | nil => intro i data o _ h; simp only [chainGo, Res.ok.injEq] at h; subst h; omega
  | cons f fs ih =>
    intro i data o hl h
    simp only [chainGo] at h
    split at h
    · cases h
    · rw [Res.bind_ok] at h
      obtain ⟨r, hr, h⟩ := h
      have h1 := stage_ceiling hE (fun hf => hl (by simp [hf])) hr
      have h2 := ih (i + 1) r o (fun hm => hl (by simp [hm])) h
      omega

example : RecoverBounded ⟨fun _ => .ok none, fun _ => .ok []⟩ := by
  intro x r h; cases h; decide

end OxiVerif.Flt
