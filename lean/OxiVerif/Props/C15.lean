import OxiVerif.Lemmas.C15
import OxiVerif.Props.C14
set_option linter.unusedSimpArgs false
set_option linter.unusedVariables false
/-!
# C15 — the document-to-chunks pipeline preserves content and provenance

Property theorems only.  All statements are for every element list, every assignment of levels
to titles (`levelOf` is a parameter: the font-size ranking is float arithmetic and is not modelled),
every configuration, counter, context mode, source and hash function `H` (SHA-256 is a parameter).

PARTIAL: the fragments → elements classifier (font-size heuristics, table detection, header/footer
zones — all float geometry) is NOT modelled; what the theorems say about `partition()` starts at its
last, discrete step (`assign_heading_paths`).  The classifier is covered only by the end-to-end oracle
of the correspondence run (authored documents → every authored text exactly once, pages, breadcrumb).
-/
namespace OxiVerif.C15
open OxiVerif.C14

/-! ## heading paths -/

/-- **Stack invariant.**  After any sequence of titles the (level, text) stack has strictly
increasing levels. -/
theorem C15_stack_strictly_increasing (ts : List Title) :
    ((stackOf ts).map (·.1)).Pairwise (· < ·) := by
  have : ∀ n (ts : List Title), ts.length = n → ((stackOf ts).map (·.1)).Pairwise (· < ·) := by
    intro n
    induction n with
    | zero => intro ts h; have : ts = [] := List.length_eq_zero_iff.1 h; subst this; simp [stackOf]
    | succ n ih =>
      intro ts h
      have hne : ts ≠ [] := by intro h0; simp [h0] at h
      obtain ⟨r, u, rfl⟩ : ∃ r u, ts = r ++ [u] :=
        ⟨ts.dropLast, ts.getLast hne, (List.dropLast_concat_getLast hne).symm⟩
      have hr : r.length = n := by simp at h; omega
      rw [stackOf_snoc]
      exact pushTitle_sorted _ _ _ (ih r hr)
  exact this _ ts rfl

example : stackOf [(1, ['A']), (2, ['B']), (3, ['C']), (2, ['D'])] = [(1, ['A']), (2, ['D'])] := by decide

/-- **Heading path = the titles not yet closed.**  The stack after a sequence of titles consists of
exactly those titles that are not followed by a title of level ≤ their own, in order. -/
theorem C15_heading_path_spec (ts : List Title) : stackOf ts = openTitles ts :=
  stackOf_eq_openTitles ts

example : openTitles [(1, ['A']), (2, ['B']), (1, ['C'])] = [(1, ['C'])] := by decide

/-- **The heading pass.**  `assign_heading_paths` gives every element, as `heading_path`, the texts
of the titles still open after the prefix that ends with the element itself (a title is part of its
own path), and as `parent_heading` the last of them; nothing else of the element changes. -/
theorem C15_assign_heading_paths_spec (levelOf : Elem → Nat) (els : List Elem) :
    assignHeadingPaths levelOf els = specAssign levelOf [] els := by
  have := assignFrom_eq_spec levelOf els []
  simpa [assignHeadingPaths, titlesOf, stackOf] using this

theorem C15_assign_preserves_content (levelOf : Elem → Nat) (els : List Elem) :
    (assignHeadingPaths levelOf els).map (fun e => (e.kind, e.payload, e.md.page, e.md.id)) =
      els.map (fun e => (e.kind, e.payload, e.md.page, e.md.id)) := by
  unfold assignHeadingPaths
  generalize ([] : Stack) = st
  induction els generalizing st with
  | nil => rfl
  | cons e r ih => simp [assignFrom, setPath, ih]

example : (assignHeadingPaths (fun _ => 1)
    [⟨.title, .text ['H'], ⟨0, 0, none, [], none, true, true, false⟩⟩,
     ⟨.paragraph, .text ['p'], ⟨1, 0, none, [], none, false, false, false⟩⟩]).map (·.md.headingPath)
    = [[['H']], [['H']]] := by decide

/-- **Heading paths of `partition()` — the document-level statement, in full** (since the repair
of C15-F1).  `do_partition_pages` runs the heading pass per page and then once over all pages;
the result is the document-level assignment, whatever the per-page passes (and their per-page
size rankings) produced — provided the level of a title does not depend on the fields the pass
itself writes (it is computed from `font_size`).  With `C15_assign_heading_paths_spec`: every
element of `partition()` carries the titles of the DOCUMENT prefix that are still open. -/
theorem C15_partition_headings_document (levelOfPage levelOfDoc : Elem → Nat) (els : List Elem)
    (hl : ∀ e, levelOfDoc (erasePath e) = levelOfDoc e) :
    partitionHeadings levelOfPage levelOfDoc els = assignHeadingPaths levelOfDoc els ∧
    partitionHeadings levelOfPage levelOfDoc els = specAssign levelOfDoc [] els := by
  have h : partitionHeadings levelOfPage levelOfDoc els = assignHeadingPaths levelOfDoc els := by
    unfold partitionHeadings assignHeadingPaths
    rw [← assignFrom_erase levelOfDoc hl [] (assignPerPage levelOfPage els),
      assignPerPage_map_erase, assignFrom_erase levelOfDoc hl]
  exact ⟨h, h.trans (C15_assign_heading_paths_spec levelOfDoc els)⟩

example : ∀ e, (fun (x : Elem) => if x.md.fontSize then 1 else 2) (erasePath e) =
    (fun (x : Elem) => if x.md.fontSize then 1 else 2) e := fun _ => rfl

/-- The per-page pass alone equals the document-level pass for single-page element lists. -/
theorem C15_per_page_is_document_partial (levelOf : Elem → Nat) (els : List Elem)
    (h : splitPages els = [els]) :
    assignPerPage levelOf els = assignHeadingPaths levelOf els := by
  simp [assignPerPage, h]

example : splitPages [(⟨.title, .text ['H'], ⟨0, 0, none, [], none, true, true, false⟩⟩ : Elem),
    ⟨.paragraph, .text ['p'], ⟨1, 0, none, [], none, false, false, false⟩⟩] =
    [[⟨.title, .text ['H'], ⟨0, 0, none, [], none, true, true, false⟩⟩,
      ⟨.paragraph, .text ['p'], ⟨1, 0, none, [], none, false, false, false⟩⟩]] := by decide

/-- REGRESSION (C15-F1, repaired): with the per-page pass alone a section that continues after a
page break lost its heading — the paragraph on page 1 got an empty breadcrumb although title `H`
(page 0) governs it; `partitionHeadings` gives it `[H]`. -/
theorem C15_witness_page_reset :
    let els : List Elem :=
      [⟨.title, .text ['H'], ⟨0, 0, none, [], none, true, true, false⟩⟩,
       ⟨.paragraph, .text ['p'], ⟨1, 0, none, [], none, false, false, false⟩⟩,
       ⟨.paragraph, .text ['q'], ⟨2, 1, none, [], none, false, false, false⟩⟩]
    (assignPerPage (fun _ => 1) els).map (·.md.headingPath) = [[['H']], [['H']], []] ∧
    (assignHeadingPaths (fun _ => 1) els).map (·.md.headingPath) = [[['H']], [['H']], [['H']]] ∧
    (partitionHeadings (fun _ => 1) (fun _ => 1) els).map (·.md.headingPath) = [[['H']], [['H']], [['H']]] := by
  decide

/-- REGRESSION (seeded): `stack.truncate(level - 1)` instead of `retain(lvl < level)` keeps a
sibling as a parent when a level is skipped: H1, H3 "X", H3 "Y" must give "Y" the path [H1, Y]. -/
theorem C15_witness_skipped_level :
    stackOf [(1, ['A']), (3, ['X']), (3, ['Y'])] = [(1, ['A']), (3, ['Y'])] ∧
    ((stackOf [(1, ['A']), (3, ['X'])]).take (3 - 1) ++ [(3, ['Y'])]) = [(1, ['A']), (3, ['X']), (3, ['Y'])] := by
  decide

/-! ## page provenance -/

/-- **Pages.**  `collect_pages` returns the distinct pages of the chunk's elements in strictly
ascending order — exactly the pages its content came from. -/
theorem C15_collect_pages (es : List Elem) :
    (collectPages es).Pairwise (· < ·) ∧ ∀ p, p ∈ collectPages es ↔ ∃ e ∈ es, e.md.page = p := by
  cases es with
  | nil => simp [collectPages]
  | cons f r =>
    simp only [collectPages]
    split
    · rename_i hall
      refine ⟨by simp, fun p => ?_⟩
      simp only [List.mem_singleton]
      constructor
      · intro h; exact ⟨f, by simp, h.symm⟩
      · rintro ⟨e, he, rfl⟩
        have := List.all_eq_true.1 hall e he
        simpa using this
    · refine ⟨sorted_sortAsc _ (nodup_dedupFirst _ _), fun p => ?_⟩
      rw [mem_sortAsc, mem_dedupFirst]
      simp only [List.mem_map, List.not_mem_nil, not_false_eq_true, and_true]

example : collectPages [⟨.paragraph, .text [], ⟨0, 2, none, [], none, false, false, false⟩⟩,
    ⟨.paragraph, .text [], ⟨1, 0, none, [], none, false, false, false⟩⟩,
    ⟨.paragraph, .text [], ⟨2, 2, none, [], none, false, false, false⟩⟩] = [0, 2] := by decide

/-- **Page provenance of the whole pipeline.**  The pages reported by the chunks, taken together,
are exactly the pages of the partition elements: no page is invented, none is lost — also when an
oversized paragraph is split into fragments (a fragment keeps its source's page). -/
theorem C15_pipeline_pages (cfg : Config) (cnt : Counter) (els : List Elem) (p : Nat) :
    (∃ c ∈ chunk cfg cnt els, p ∈ collectPages c.elements) ↔ (∃ e ∈ els, e.md.page = p) := by
  have h := C14_seq_provenance cfg cnt els
  constructor
  · rintro ⟨c, hc, hp⟩
    obtain ⟨x, hx, rfl⟩ := ((C15_collect_pages c.elements).2 p).1 hp
    obtain ⟨e, he, hs⟩ := h.1 c hc x hx
    exact ⟨e, he, hs.2.1.symm⟩
  · rintro ⟨e, he, rfl⟩
    obtain ⟨c, hc, x, hx, hs⟩ := h.2 e he
    exact ⟨c, hc, ((C15_collect_pages c.elements).2 _).2 ⟨x, hx, hs.2.1⟩⟩

/-- **Regions.**  The pages of a chunk's `page_regions` (one union box per page, `page_anchor`) are
its `page_numbers`, and `page_span` is (first, last) of them. -/
theorem C15_region_pages (es : List Elem) : regionPages es = collectPages es := by
  cases es with
  | nil => rfl
  | cons f r =>
    simp only [collectPages]
    split
    · rename_i hall
      have hr : ∀ x ∈ r.map (·.md.page), x ∈ [f.md.page] := by
        intro x hx
        obtain ⟨e, he, rfl⟩ := List.mem_map.1 hx
        have := List.all_eq_true.1 hall e (by simp [he])
        simpa using this
      simp [regionPages, dedupFirst, dedupFirst_all_seen [f.md.page] _ hr, sortAsc, insertAsc]
    · rfl

example : regionPages [⟨.paragraph, .text [], ⟨0, 2, none, [], none, false, false, false⟩⟩,
    ⟨.paragraph, .text [], ⟨1, 0, none, [], none, false, false, false⟩⟩] = [0, 2] := by decide

/-- **Content-type flags.**  `has_table` / `has_list` / `has_code` say that the chunk holds an
element of that type; `heading_only` that it is non-empty and holds titles only. -/
theorem C15_content_flags (es : List Elem) :
    contentTypeFlags es =
      { hasTable := es.any (·.kind == .table), hasList := es.any (·.kind == .listItem),
        hasCode := es.any (·.kind == .codeBlock),
        headingOnly := !es.isEmpty && es.all (·.kind == .title) } := by
  unfold contentTypeFlags
  rw [flags_fold]; simp

example : (contentTypeFlags [⟨.title, .text ['H'], ⟨0, 0, none, [], none, true, true, false⟩⟩]).headingOnly = true := by
  decide

/-! ## the chunks of the pipeline -/

/-- **Content and provenance of the pipeline's chunks.**  The i-th `RagChunk` is the i-th chunk of
C14's chunker: same text, token estimate and oversized flag, pages = `collect_pages` of its elements,
index `i`; so C14's partition/budget theorems transfer to `rag_chunks_with*`. -/
theorem C15_rag_chunks_core (H : Str → Str) (cfg : Config) (cnt : Counter) (mode : CtxMode)
    (source : Option Source) (els : List Elem) :
    (ragChunks H cfg cnt mode source els).map
        (fun r => (r.index, r.text, r.pages, r.tokenEstimate, r.oversized, r.heading)) =
      ((chunk cfg cnt els).zip (List.range' 0 (chunk cfg cnt els).length)).map
        (fun x => (x.2, x.1.text, collectPages x.1.elements, x.1.tokenEstimate, x.1.oversized, x.1.heading)) := by
  unfold ragChunks linkChunks
  have h1 := linkFrom_core none (mapIdxFrom (fromHybrid H mode source) 0 (chunk cfg cnt els))
  have h2 := congrArg (List.map fun (t : Nat × Str × Str × List Nat × Nat × Bool × List Str × Option Str) =>
      (t.1, t.2.1, t.2.2.2.1, t.2.2.2.2.1, t.2.2.2.2.2.1, t.2.2.2.2.2.2.2)) h1
  simp only [List.map_map] at h2
  rw [show (fun r : RagChunk => (r.index, r.text, r.pages, r.tokenEstimate, r.oversized, r.heading)) =
      ((fun (t : Nat × Str × Str × List Nat × Nat × Bool × List Str × Option Str) =>
          (t.1, t.2.1, t.2.2.2.1, t.2.2.2.2.1, t.2.2.2.2.2.1, t.2.2.2.2.2.2.2)) ∘
        fun r => (r.index, r.text, r.fullText, r.pages, r.tokenEstimate, r.oversized, r.headingPath, r.heading))
      from rfl, h2, mapIdxFrom_map]
  rfl

/-- every element of the partition output appears in exactly one chunk of the pipeline (C14) -/
theorem C15_pipeline_partition (cfg : Config) (cnt : Counter) (els : List Elem) :
    Covers ((chunk cfg cnt els).flatMap (·.elements)) els :=
  C14_seq_partition cfg cnt els

/-- **Ids.**  Chunk ids are a function of (doc hash, index, full text): `<doc_hash | H(full_text)>:<index>`. -/
theorem C15_chunk_ids (H : Str → Str) (cfg : Config) (cnt : Counter) (mode : CtxMode)
    (source : Option Source) (els : List Elem) :
    (ragChunks H cfg cnt mode source els).map (·.chunkId) =
      (ragChunks H cfg cnt mode source els).map
        (fun r => contentChunkId H (source.bind (·.docHash)) r.index r.fullText) := by
  unfold ragChunks linkChunks
  generalize chunk cfg cnt els = cs
  have hcore := linkFrom_core none (mapIdxFrom (fromHybrid H mode source) 0 cs)
  have hidx := congrArg (List.map fun (t : Nat × Str × Str × List Nat × Nat × Bool × List Str × Option Str) =>
      contentChunkId H (source.bind (·.docHash)) t.1 t.2.2.1) hcore
  simp only [List.map_map] at hidx
  rw [linkFrom_ids]
  rw [show (fun r : RagChunk => contentChunkId H (source.bind (·.docHash)) r.index r.fullText) =
      ((fun (t : Nat × Str × Str × List Nat × Nat × Bool × List Str × Option Str) =>
          contentChunkId H (source.bind (·.docHash)) t.1 t.2.2.1) ∘
        fun r => (r.index, r.text, r.fullText, r.pages, r.tokenEstimate, r.oversized, r.headingPath, r.heading))
      from rfl, hidx]
  have hmem : ∀ (cs : List Chunk) (k : Nat), ∀ a ∈ mapIdxFrom (fromHybrid H mode source) k cs,
      a.chunkId = contentChunkId H (source.bind (·.docHash)) a.index a.fullText := by
    intro cs
    induction cs with
    | nil => intro k a h; simp [mapIdxFrom] at h
    | cons c r ih =>
      intro k a h
      simp only [mapIdxFrom, List.mem_cons] at h
      rcases h with rfl | h
      · rfl
      · exact ih _ a h
  exact List.map_congr_left (fun a ha => hmem _ _ a ha)

example : contentChunkId (fun _ => ['a', 'b']) none 3 [] = ['a', 'b', ':', '3'] := by decide
example : contentChunkId (fun _ => ['a', 'b']) (some ['d']) 12 [] = ['d', ':', '1', '2'] := by decide

/-- **Links.**  `prev`/`next` ids form the chain of the chunks in order: the first chunk has no
predecessor, the last no successor, every other link is the neighbour's id. -/
theorem C15_links_chain (H : Str → Str) (cfg : Config) (cnt : Counter) (mode : CtxMode)
    (source : Option Source) (els : List Elem) :
    let rs := ragChunks H cfg cnt mode source els
    let ids := rs.map (fun r => some r.chunkId)
    rs.map (·.prev) = (none :: ids).take rs.length ∧
    rs.map (·.next) = ids.drop 1 ++ (if rs.isEmpty then [] else [none]) := by
  intro rs ids
  have hids : rs.map (·.chunkId) =
      (mapIdxFrom (fromHybrid H mode source) 0 (chunk cfg cnt els)).map (·.chunkId) := linkFrom_ids _ _
  have hlen : rs.length = (mapIdxFrom (fromHybrid H mode source) 0 (chunk cfg cnt els)).length := by
    have := congrArg List.length hids; simpa using this
  have hids' : ids = (mapIdxFrom (fromHybrid H mode source) 0 (chunk cfg cnt els)).map
      (fun c => some c.chunkId) := by
    have := congrArg (List.map some) hids
    simpa [ids, List.map_map, Function.comp_def] using this
  constructor
  · rw [hids', hlen]; exact linkFrom_prev _ _
  · rw [hids']
    have hemp : rs.isEmpty = (mapIdxFrom (fromHybrid H mode source) 0 (chunk cfg cnt els)).isEmpty := by
      cases h1 : rs <;> cases h2 : (mapIdxFrom (fromHybrid H mode source) 0 (chunk cfg cnt els)) <;>
        simp [h1, h2] at hlen ⊢
    rw [hemp]; exact linkFrom_next _ _

/-- **Determinism.**  The pipeline's chunks are a function of its inputs. -/
theorem C15_deterministic (H1 H2 : Str → Str) (hH : ∀ s, H1 s = H2 s) (cfg : Config) (cnt : Counter)
    (mode : CtxMode) (source : Option Source) (els : List Elem) :
    ragChunks H1 cfg cnt mode source els = ragChunks H2 cfg cnt mode source els := by
  have : H1 = H2 := funext hH
  rw [this]

end OxiVerif.C15
