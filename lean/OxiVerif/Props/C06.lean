import OxiVerif.Lemmas.C05
import OxiVerif.Spec.C06Reader
set_option linter.unusedSimpArgs false
set_option linter.unusedVariables false
/-!
# C06 — encrypted files interoperate with an independent implementation

The independent implementation is the reference reader/writer `Spec/C06Reader.lean` (over
`Spec/Crypto*.lean`).  Theorems about the reference itself:

* the per-object scheme is invertible: `decTree ∘ encTree = id` for every object tree and every
  cipher pair that round-trips; the byte ciphers of Algorithm 1 / 1.A round-trip for all keys,
  object numbers, generations, IVs and byte strings (RC4 and AES unconditionally; `AesOK` is the theorem `aesOK`);
  hence `decryptIObj (encryptIObj o) = o` for every non-stream indirect object;
* key-length arithmetic (Algorithm 1: min(n+5, 16); Algorithm 2: n);
* password validation: the right password is accepted (R2–R4: C23; R5: here) and, for R5, ONLY
  the right password is accepted under the stated assumption that SHA-256 has no collision on
  the messages involved; Algorithm 2.A (a): passwords are equivalent iff they agree on 127 bytes.

Interoperability with the real library is a correspondence claim checked by the run
(`harness/src/bin/c06.rs`, `Drv/C06.lean`); the five ways in which the unchanged tree violates it
have kernel-checked witnesses below (`C06_witness_*`) on small models of the library's behaviour
(`libReadMemberOld`, `libReadStream`), each reproduced on the real code by a corpus request.
-/
namespace OxiVerif.C06
open OxiVerif.Crypto OxiVerif.Spec.Syntax OxiVerif.C05

/-! ## the per-object scheme -/

mutual
theorem tree_roundtrip (f : NBytes → Option NBytes) (g : NBytes → NBytes) (h : ∀ b, f (g b) = some b) :
    ∀ o, decTree f (encTree g o) = some o
  | .str b => by simp [encTree, decTree, h]
  | .hexstr b => by simp [encTree, decTree, h]
  | .arr l => by simp [encTree, decTree, list_roundtrip f g h l]
  | .dict l => by simp [encTree, decTree, entries_roundtrip f g h l]
  | .null => rfl
  | .bool _ => rfl
  | .int _ => rfl
  | .real _ => rfl
  | .name _ => rfl
  | .ref _ _ => rfl
theorem list_roundtrip (f : NBytes → Option NBytes) (g : NBytes → NBytes) (h : ∀ b, f (g b) = some b) :
    ∀ l, decList f (encList g l) = some l
  | [] => rfl
  | o :: r => by simp [encList, decList, tree_roundtrip f g h o, list_roundtrip f g h r]
theorem entries_roundtrip (f : NBytes → Option NBytes) (g : NBytes → NBytes) (h : ∀ b, f (g b) = some b) :
    ∀ l, decEntries f (encEntries g l) = some l
  | [] => rfl
  | (k, v) :: r => by simp [encEntries, decEntries, tree_roundtrip f g h v, entries_roundtrip f g h r]
end

/-- Reference reader ∘ reference writer = identity on EVERY object tree (no key is special: the
reference encrypts every string), for every cipher pair that round-trips. -/
theorem C06_tree_roundtrip (f : NBytes → Option NBytes) (g : NBytes → NBytes) (h : ∀ b, f (g b) = some b)
    (o : Obj) : decTree f (encTree g o) = some o := tree_roundtrip f g h o

example : decTree (fun b => some (b.map (· - 1))) (encTree (fun b => b.map (· + 1))
    (.dict [([73, 68], .str [1, 2]), ([75], .arr [.hexstr [3], .ref 4 0])])) =
    some (.dict [([73, 68], .str [1, 2]), ([75], .arr [.hexstr [3], .ref 4 0])]) :=
  C06_tree_roundtrip _ _ (fun b => by simp [List.map_map, Function.comp_def]) _

/-- every byte of the list is a byte -/
def IsBytes (b : NBytes) : Prop := ∀ x ∈ b, x < 256

theorem nats_bytes_nats (b : NBytes) (hb : IsBytes b) : natsOfBytes (bytesOfNats b) = b := by
  unfold natsOfBytes bytesOfNats
  rw [List.map_map]
  conv => rhs; rw [← List.map_id b]
  apply List.map_congr_left
  intro x hx
  have := hb x hx
  simp [UInt8.toNat_ofNat, Nat.mod_eq_of_lt this]

theorem bytes_nats_bytes (b : Bytes) : bytesOfNats (natsOfBytes b) = b := by
  unfold natsOfBytes bytesOfNats
  rw [List.map_map]
  conv => rhs; rw [← List.map_id b]
  apply List.map_congr_left
  intro x _
  simp

/-- which keys a crypt filter method can be used with -/
def KeyFits (m : Nat) (key : Bytes) : Prop :=
  (m = 2 → key.length ≥ 11) ∧ (m = 3 → key.length = 32)

/-- Algorithm 1 / 1.A on the file's bytes: decrypt ∘ encrypt = id for all keys, object ids, IVs and
plaintexts (Identity, RC4, AESV2 and AESV3, all unconditionally). -/
theorem C06_bytes_roundtrip (m : Nat) (hm : m ≤ 3) (key : Bytes) (hk : KeyFits m key) (num gen : Nat)
    (iv : Bytes) (hiv : iv.length = 16) (b : NBytes) (hb : IsBytes b) :
    decBytes m key num gen (encBytes m key num gen iv b) = some b := by
  unfold decBytes encBytes
  by_cases h0 : m = 0
  · simp [h0]
  · have h0' : (m == 0) = false := by simpa using h0
    simp only [h0', Bool.false_eq_true, if_false, bytes_nats_bytes]
    by_cases h1 : m = 1
    · subst h1
      rw [rc4_object_cipher]; simp [nats_bytes_nats b hb]
    · have h23 : m = 2 ∨ m = 3 := by omega
      rw [aes_object_cipher aesOK m h23 key num gen iv _ hiv hk]
      simp [nats_bytes_nats b hb]

example : KeyFits 1 [1, 2, 3, 4, 5] ∧ IsBytes [0, 255, 17] := by
  refine ⟨⟨by omega, by omega⟩, ?_⟩
  intro x hx
  simp at hx
  omega

mutual
/-- all strings of an object value are byte strings -/
def TreeBytes : Obj → Prop
  | .str b => IsBytes b
  | .hexstr b => IsBytes b
  | .arr l => ListBytes l
  | .dict l => EntriesBytes l
  | _ => True
def ListBytes : List Obj → Prop
  | [] => True
  | o :: r => TreeBytes o ∧ ListBytes r
def EntriesBytes : List (NBytes × Obj) → Prop
  | [] => True
  | (_, v) :: r => TreeBytes v ∧ EntriesBytes r
end

mutual
theorem tree_roundtrip' (f : NBytes → Option NBytes) (g : NBytes → NBytes) (h : ∀ b, IsBytes b → f (g b) = some b) :
    ∀ o, TreeBytes o → decTree f (encTree g o) = some o
  | .str b, hb => by simp [encTree, decTree, h b (by simpa [TreeBytes] using hb)]
  | .hexstr b, hb => by simp [encTree, decTree, h b (by simpa [TreeBytes] using hb)]
  | .arr l, hb => by simp [encTree, decTree, list_roundtrip' f g h l (by simpa [TreeBytes] using hb)]
  | .dict l, hb => by simp [encTree, decTree, entries_roundtrip' f g h l (by simpa [TreeBytes] using hb)]
  | .null, _ => rfl
  | .bool _, _ => rfl
  | .int _, _ => rfl
  | .real _, _ => rfl
  | .name _, _ => rfl
  | .ref _ _, _ => rfl
theorem list_roundtrip' (f : NBytes → Option NBytes) (g : NBytes → NBytes) (h : ∀ b, IsBytes b → f (g b) = some b) :
    ∀ l, ListBytes l → decList f (encList g l) = some l
  | [], _ => rfl
  | o :: r, hb => by
    simp only [ListBytes] at hb
    simp [encList, decList, tree_roundtrip' f g h o hb.1, list_roundtrip' f g h r hb.2]
theorem entries_roundtrip' (f : NBytes → Option NBytes) (g : NBytes → NBytes) (h : ∀ b, IsBytes b → f (g b) = some b) :
    ∀ l, EntriesBytes l → decEntries f (encEntries g l) = some l
  | [], _ => rfl
  | (k, v) :: r, hb => by
    simp only [EntriesBytes] at hb
    simp [encEntries, decEntries, tree_roundtrip' f g h v hb.1, entries_roundtrip' f g h r hb.2]
end

/-- The reference reader recovers every non-stream indirect object the reference writer
encrypted: any encryption dictionary (V1–V5, any /StrF method), any file key that fits the method,
any object number and generation, any IV, any object tree of byte strings. -/
theorem C06_object_roundtrip (e : Enc) (hm : e.strM ≤ 3) (key : Bytes) (hk : KeyFits e.strM key)
    (iv : Bytes) (hiv : iv.length = 16) (o : IObj) (hd : o.data = none) (hn : e.objNum ≠ some o.num)
    (hb : TreeBytes o.val) :
    decryptIObj e key (encryptIObj e key iv o) = some o := by
  have hn' : (e.objNum == some o.num) = false := by simpa using hn
  unfold decryptIObj encryptIObj
  simp only [hd, Option.map_none, hn', Bool.false_eq_true, if_false, Option.isSome_none, and_false]
  rw [tree_roundtrip' _ _ (fun b hb' => C06_bytes_roundtrip e.strM hm key hk o.num o.gen iv hiv b hb') o.val hb]
  cases o
  simp_all

/-! ## key-length arithmetic -/

/-- Algorithm 1: the object key has min(n + 5, 16) bytes. -/
theorem C06_object_key_length (fileKey : Bytes) (num gen : Nat) (aes : Bool) :
    (objectKey fileKey num gen aes).length = min (fileKey.length + 5) 16 := by
  simp [objectKey, md5_length]

theorem iter_md5_take_length (n : Nat) : ∀ k (h : Bytes), h.length = 16 →
    (iter (fun h => md5 (h.take n)) k h).length = 16
  | 0, h, hh => by simpa [iter] using hh
  | k + 1, h, hh => by
    simp only [iter]
    exact iter_md5_take_length n k _ (md5_length _)

/-- Algorithm 2: the file key has exactly the n bytes /Length asks for (5 ≤ n ≤ 16 not needed:
any n ≤ 16). -/
theorem C06_file_key_length (rev n : Nat) (hn : n ≤ 16) (pw o : Bytes) (p : Nat) (id0 : Bytes) (em : Bool) :
    (alg2 rev n pw o p id0 em).length = n := by
  unfold alg2
  simp only []
  split
  · rw [List.length_take, iter_md5_take_length n 50 _ (md5_length _)]; omega
  · rw [List.length_take, md5_length]; omega

example : (alg2 3 16 [] [] 0 [] true).length = 16 := C06_file_key_length 3 16 (by omega) _ _ _ _ _

/-- RC4 keeps the length; AES-CBC with PKCS#7 behind a 16-byte IV gives 16·(⌊len/16⌋ + 2) bytes. -/
theorem C06_ciphertext_length (m : Nat) (hm : m = 2 ∨ m = 3) (key : Bytes) (hk : KeyFits m key)
    (num gen : Nat) (iv data : Bytes) (hiv : iv.length = 16) :
    (encryptData m key num gen iv data).length = 16 * (data.length / 16 + 2) := by
  have h1 : ¬ m = 1 := by omega
  simp only [encryptData, h1, if_false]
  generalize hkk : (if m = 2 then objectKey key num gen true else key) = k
  have hkl : k.length = 16 ∨ k.length = 32 := by
    rcases hm with h | h
    · subst hkk; simp only [h, if_true]; left
      have := hk.1 h
      simp [objectKey, md5_length]; omega
    · subst hkk
      have h2 : ¬ m = 2 := by omega
      simp only [h2, if_false]; right; exact hk.2 h
  obtain ⟨c, hc1, _, hc3⟩ := aesCbcPad_roundtrip aesOK k iv data hkl hiv
  simp [hc1, hiv, hc3]; omega

/-! ## password validation -/

/-- Algorithm 2.A (a): for revisions 5 and 6 only the first 127 bytes of a password count. -/
theorem C06_password_truncation (e : Enc) (hr : ¬ e.r ≤ 4) (pw : Bytes) :
    authUser e pw = authUser e (pw.take 127) ∧ authOwner e pw = authOwner e (pw.take 127) := by
  simp [authUser, authOwner, hr, List.take_take]

/-- the assumption under which "only the right password" is a theorem: SHA-256 has no collision
(on the messages password ‖ salt that occur) -/
def Sha256Injective : Prop := ∀ a b : Bytes, sha256 a = sha256 b → a = b

theorem u_parts (H vs ks : Bytes) (hH : H.length = 32) (hvs : vs.length = 8) :
    vSalt ((H ++ vs ++ ks).take 48) = vs ∧ ((H ++ vs ++ ks).take 48).take 32 = H ∧
      (ks.length = 8 → ((H ++ vs ++ ks).take 48).length = 48) := by
  have e1 : (H ++ vs ++ ks).take 48 = H ++ (vs ++ ks.take 8) := by
    rw [List.take_append]
    simp [hH, hvs, List.take_of_length_le]
  rw [e1]
  refine ⟨?_, ?_, ?_⟩
  · simp only [vSalt]
    rw [List.drop_left' hH, List.take_left' hvs]
  · rw [List.take_left' hH]
  · intro hk; simp [hH, hvs, hk]

/-- R5 (`/U` made by Algorithm 8 from `pw`): a password is accepted ONLY IF it is `pw` — under
`Sha256Injective`; both passwords at most 127 bytes (longer ones are compared by their prefix). -/
theorem C06_r5_accepts_only_right_password (hS : Sha256Injective) (e : Enc) (hr : e.r = 5)
    (pw vs ks : Bytes) (hvs : vs.length = 8) (hu : e.u = alg8U 5 pw vs ks)
    (pw' : Bytes) (hp' : pw'.length ≤ 127)
    (hacc : (authUser e pw').isSome) : pw' = pw := by
  have h5 : ¬ e.r ≤ 4 := by omega
  have ht' : pw'.take 127 = pw' := List.take_of_length_le hp'
  obtain ⟨hv, hh, _⟩ := u_parts (sha256 (pw ++ vs ++ List.take 48 [])) vs ks (sha256_length _) hvs
  simp only [authUser, hr, show ¬ (5 : Nat) ≤ 4 by omega, if_false, ht', hu, alg11, alg8U, hashFor, if_true, hashR5] at hacc
  split at hacc
  · rename_i hc
    have hc2 := hc.2
    rw [hv, hh] at hc2
    have := hS _ _ hc2
    simpa using this
  · simp at hacc

/-- and the right password IS accepted: validation succeeds and /UE unwraps to the file key
-/
theorem C06_r5_accepts_right_password (e : Enc) (hr : e.r = 5)
    (pw vs ks fileKey : Bytes) (hvs : vs.length = 8) (hks : ks.length = 8) (hk : fileKey.length = 32)
    (hp : pw.length ≤ 127) (hu : e.u = alg8U 5 pw vs ks) (hue : e.ue = alg8UE 5 pw ks fileKey) :
    authUser e pw = some fileKey := by
  have h5 : ¬ e.r ≤ 4 := by omega
  have ht : pw.take 127 = pw := List.take_of_length_le hp
  obtain ⟨hv, hh, hl⟩ := u_parts (sha256 (pw ++ vs ++ List.take 48 [])) vs ks (sha256_length _) hvs
  have hksalt : kSalt ((sha256 (pw ++ vs ++ List.take 48 []) ++ vs ++ ks).take 48) = ks := by
    have hH := sha256_length (pw ++ vs ++ List.take 48 [])
    simp only [kSalt]
    rw [List.take_of_length_le (l := sha256 (pw ++ vs ++ List.take 48 []) ++ vs ++ ks) (by simp [sha256_length, hvs, hks]),
      List.drop_left' (by simp [sha256_length, hvs]), List.take_of_length_le (by omega)]
  obtain ⟨c, hc1, hc2, _⟩ := aesCbcRaw_roundtrip aesOK (sha256 (pw ++ ks ++ List.take 48 [])) fileKey (sha256_length _) (by omega)
  simp only [authUser, hr, show ¬ (5 : Nat) ≤ 4 by omega, if_false, ht, hu, hue, alg11, alg8U, alg8UE, hashFor, if_true, hashR5,
    hv, hh, hl hks, hksalt, and_self, hc1, Option.getD_some]
  exact hc2

example : ∃ e : Enc, e.r = 5 ∧ e.u = alg8U 5 [0x70] (List.replicate 8 1) (List.replicate 8 2) :=
  ⟨{ objNum := none, v := 5, r := 5, n := 32, o := [], u := alg8U 5 [0x70] (List.replicate 8 1) (List.replicate 8 2),
     oe := [], ue := [], perms := [], p := 0, em := true, stmM := 3, strM := 3, cf := [], id0 := [] }, rfl, rfl⟩

/-! ## the five deviations of the unchanged tree (small models of the library's behaviour; each is
reproduced on the real code by a request in corpus/C06) -/

/-- `get_compressed_object` before the repair: an object taken out of an object stream went
through `decrypt_object_if_needed` again -/
def libReadMemberOld (f : NBytes → Option NBytes) (o : Obj) : Option Obj := decTree f o
/-- `get_compressed_object` now: the member is handed out as parsed from the decrypted stream -/
def libReadMember (_f : NBytes → Option NBytes) (o : Obj) : Option Obj := some o
/-- the reference: members of an object stream are not decrypted individually (§7.6.1) -/
def refReadMember (_f : NBytes → Option NBytes) (o : Obj) : Option Obj := some o

/-- the library agrees with the reference on every object-stream member -/
theorem C06_member_not_decrypted (f : NBytes → Option NBytes) (o : Obj) :
    libReadMember f o = refReadMember f o := rfl

/-- Regression statement (F2, repaired): a cipher pair that round-trips, and an object-stream
member the unrepaired reader did not hand out as written. -/
theorem C06_witness_double_decryption_old :
    ∃ (f : NBytes → Option NBytes) (g : NBytes → NBytes), (∀ b, f (g b) = some b) ∧
      libReadMemberOld f (.dict [([84], .str [1])]) ≠ refReadMember f (.dict [([84], .str [1])]) := by
  refine ⟨fun b => some (b.map (· - 1)), fun b => b.map (· + 1), fun b => by simp [List.map_map, Function.comp_def], ?_⟩
  simp [libReadMemberOld, refReadMember, decTree, decEntries]

/-- `decrypt_object_if_needed` on a stream before the repair: the data was always decrypted
(unless the STREAM dictionary has /StmF /Identity), the dictionary returned as read -/
def libReadStreamOld (f : NBytes → Option NBytes) (dict : Obj) (data : NBytes) : Option (Obj × NBytes) :=
  (f data).map fun d => (dict, d)

/-- … and now: `clearMeta` = `!encrypt_metadata() && /Type /Metadata` leaves the stream alone; the
dictionary is still returned as read (F4, open) -/
def libReadStream (clearMeta : Bool) (f : NBytes → Option NBytes) (dict : Obj) (data : NBytes) : Option (Obj × NBytes) :=
  if clearMeta then some (dict, data) else libReadStreamOld f dict data

/-- the library leaves a clear metadata stream alone, like the reference (`streamMethod = 0`) -/
theorem C06_clear_metadata_left_alone (e : Enc) (he : e.em = false) (f : NBytes → Option NBytes) (data : NBytes) :
    streamMethod e (.dict [(kw "Type", .name (kw "Metadata"))]) = 0 ∧
    libReadStream true f (.dict [(kw "Type", .name (kw "Metadata"))]) data =
      some (.dict [(kw "Type", .name (kw "Metadata"))], data) := by
  refine ⟨by simp [streamMethod, he, oget, entriesOf, dget, isName, kw], rfl⟩

/-- Regression statement (F3, repaired): with `/EncryptMetadata false` the reference leaves a
`/Type /Metadata` stream alone (`streamMethod = 0`), the unrepaired reader decrypted it. -/
theorem C06_witness_clear_metadata_old (e : Enc) (he : e.em = false) :
    streamMethod e (.dict [(kw "Type", .name (kw "Metadata"))]) = 0 ∧
    ∃ f : NBytes → Option NBytes, libReadStreamOld f (.dict [(kw "Type", .name (kw "Metadata"))]) [60] ≠
      some (.dict [(kw "Type", .name (kw "Metadata"))], [60]) := by
  refine ⟨by simp [streamMethod, he, oget, entriesOf, dget, isName, kw], fun b => some (b.map (· + 1)), ?_⟩
  simp [libReadStreamOld]

/-- F4 (open): a string in a stream dictionary is encrypted by the reference writer; the library
returns the dictionary as read, i.e. the ciphertext. -/
theorem C06_witness_stream_dict_string :
    ∃ (f : NBytes → Option NBytes) (g : NBytes → NBytes), (∀ b, f (g b) = some b) ∧
      (libReadStream false f (encTree g (.dict [([78], .str [1])])) (g [2])).map (·.1) ≠ some (.dict [([78], .str [1])]) := by
  refine ⟨fun b => some (b.map (· - 1)), fun b => b.map (· + 1), fun b => by simp [List.map_map, Function.comp_def], ?_⟩
  simp [libReadStream, libReadStreamOld, encTree, encEntries]

/-- F1: `/Filter /Crypt` without `/DecodeParms` is the Identity crypt filter — the reference reader
does not decrypt such a stream, whatever `/StmF` says; the library writes it on encrypted data. -/
theorem C06_witness_identity_crypt_filter (e : Enc) :
    streamMethod e (.dict [(kw "Filter", .name (kw "Crypt"))]) = 0 := by
  simp [streamMethod, oget, entriesOf, dget, isName, kw, filterNames]

/-- F5: a 128-byte password and its 127-byte prefix are different byte strings but the same
password for revisions 5/6 (`C06_password_truncation`); the library hashes all 128 bytes (R5) or
refuses the password (R6). -/
theorem C06_witness_password_truncation :
    ∃ pw : Bytes, pw.length = 128 ∧ pw.take 127 ≠ pw ∧
      ∀ e : Enc, ¬ e.r ≤ 4 → authUser e pw = authUser e (pw.take 127) := by
  refine ⟨List.replicate 128 0x61, by simp, ?_, fun e h => (C06_password_truncation e h _).1⟩
  intro h
  have := congrArg List.length h
  simp at this

end OxiVerif.C06
