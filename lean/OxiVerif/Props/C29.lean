import OxiVerif.Lemmas.C29
set_option linter.unusedSimpArgs false
/-!
# C29 — the object cache behaves as a bounded least-recently-used map

Property theorems only (helpers live in `Lemmas/C29.lean`).  All statements quantify over
every capacity and every finite history of `get/put/clear/len`; there is no bound.
-/
namespace OxiVerif.C29

theorem C29_inv_new (cap : Nat) : Inv (Impl.new cap) := by
  constructor <;> simp [Impl.new, keys]

theorem C29_get_inv (s : Impl) (k : Nat) (h : Inv s) : Inv (s.get k).1 := by
  unfold Impl.get
  cases hl : lookup k s.map with
  | none => simpa using h
  | some v =>
    have hk : k ∈ keys s.map := (lookup_isSome_iff k s.map).1 (by simp [hl])
    have hko : k ∈ s.order := (h.mem_iff k).2 hk
    have hlen := length_filter_ne_of_nodup s.order k h.orderNodup hko
    constructor
    · simp only [List.nodup_cons]
      exact ⟨by simp, h.orderNodup.filter _⟩
    · exact h.keysNodup
    · intro k'
      simp only [List.mem_cons, List.mem_filter]
      constructor
      · rintro (e | ⟨e, _⟩)
        · exact e ▸ hk
        · exact (h.mem_iff k').1 e
      · intro e
        by_cases hkk : k' = k
        · exact Or.inl hkk
        · exact Or.inr ⟨(h.mem_iff k').2 e, by simp [hkk]⟩
    · exact h.size_le
    · simp only [List.length_cons]; rw [hlen]; exact h.len_eq


theorem length_insertKV_mem (k v : Nat) (m : List (Nat × Nat)) (h : k ∈ keys m) :
    (insertKV k v m).length = m.length := by
  have := congrArg List.length (keys_insertKV_mem k v m h); simpa [keys] using this

theorem length_insertKV_not_mem (k v : Nat) (m : List (Nat × Nat)) (h : k ∉ keys m) :
    (insertKV k v m).length = m.length + 1 := by
  have := congrArg List.length (keys_insertKV_not_mem k v m h); simpa [keys] using this

theorem C29_put_inv (s : Impl) (k v : Nat) (h : Inv s) : Inv (s.put k v) := by
  unfold Impl.put
  by_cases hc : s.cap = 0
  · simpa [hc] using h
  · simp only [hc, if_false]
    by_cases hs : (lookup k s.map).isSome
    · -- update existing key
      have hk : k ∈ keys s.map := (lookup_isSome_iff k s.map).1 hs
      have hko : k ∈ s.order := (h.mem_iff k).2 hk
      have hlen := length_filter_ne_of_nodup s.order k h.orderNodup hko
      simp only [hs, if_true]
      constructor
      · simp only [List.nodup_cons]; exact ⟨by simp, h.orderNodup.filter _⟩
      · simp only [keys_insertKV_mem k v s.map hk]; exact h.keysNodup
      · intro k'
        simp only [keys_insertKV_mem k v s.map hk, List.mem_cons, List.mem_filter]
        constructor
        · rintro (e | ⟨e, _⟩)
          · exact e ▸ hk
          · exact (h.mem_iff k').1 e
        · intro e
          by_cases hkk : k' = k
          · exact Or.inl hkk
          · exact Or.inr ⟨(h.mem_iff k').2 e, by simp [hkk]⟩
      · simp only [length_insertKV_mem k v s.map hk]; exact h.size_le
      · simp only [List.length_cons, length_insertKV_mem k v s.map hk]; rw [hlen]; exact h.len_eq
    · have hk : k ∉ keys s.map := fun e => hs ((lookup_isSome_iff k s.map).2 e)
      have hko : k ∉ s.order := fun e => hk ((h.mem_iff k).1 e)
      simp only [hs]
      by_cases hfull : s.map.length ≥ s.cap
      · -- evict
        simp only [hfull, if_true, Bool.false_eq_true, if_false]
        have hne : s.order ≠ [] := by
          intro e; have := h.len_eq; simp [e] at this; omega
        obtain ⟨lru, hlru⟩ : ∃ x, s.order.getLast? = some x := by
          cases hg : s.order.getLast? with
          | none => exact absurd (List.getLast?_eq_none_iff.1 hg) hne
          | some x => exact ⟨x, rfl⟩
        simp only [hlru]
        have hsplit : s.order = s.order.dropLast ++ [lru] := by
          have h1 := List.dropLast_concat_getLast hne
          have h2 : s.order.getLast hne = lru := by
            have := List.getLast?_eq_some_getLast hne
            rw [hlru] at this; exact (Option.some.inj this).symm
          rw [h2] at h1; exact h1.symm
        have hnd : (s.order.dropLast ++ [lru]).Nodup := hsplit ▸ h.orderNodup
        have hlru_notin : lru ∉ s.order.dropLast := by
          intro e
          have := (List.nodup_append.1 hnd).2.2 lru e lru (by simp)
          exact this rfl
        have hdl_nodup : s.order.dropLast.Nodup := (List.nodup_append.1 hnd).1
        have hlru_order : lru ∈ s.order := by rw [hsplit]; simp
        have hlru_keys : lru ∈ keys s.map := (h.mem_iff lru).1 hlru_order
        have hk_rm : k ∉ keys (removeK lru s.map) := by
          rw [keys_removeK]; intro e; exact hk (List.mem_filter.1 e).1
        have hrm_len : (removeK lru s.map).length + 1 = s.map.length := by
          have := length_filter_ne_of_nodup (keys s.map) lru h.keysNodup hlru_keys
          rw [← keys_removeK] at this; simpa [keys] using this
        have hmem_dl : ∀ k', k' ∈ s.order.dropLast ↔ (k' ∈ s.order ∧ k' ≠ lru) := by
          intro k'
          constructor
          · intro e
            exact ⟨by rw [hsplit]; simp [e], fun e2 => hlru_notin (e2 ▸ e)⟩
          · rintro ⟨e, e2⟩
            rw [hsplit] at e; simp at e; rcases e with e | e
            · exact e
            · exact absurd e e2
        constructor
        · simp only [List.nodup_cons]
          exact ⟨fun e => hko (List.dropLast_subset _ e), hdl_nodup⟩
        · simp only [keys_insertKV_not_mem k v _ hk_rm, keys_removeK]
          rw [List.nodup_append]
          refine ⟨h.keysNodup.filter _, by simp, ?_⟩
          intro a ha b hb
          simp at hb; subst hb
          intro e; subst e
          exact hk (List.mem_filter.1 ha).1
        · intro k'
          simp only [keys_insertKV_not_mem k v _ hk_rm, keys_removeK, List.mem_cons,
            List.mem_append, List.mem_filter, List.mem_singleton, hmem_dl, List.not_mem_nil,
            or_false]
          constructor
          · rintro (e | ⟨e, e2⟩)
            · exact Or.inr e
            · exact Or.inl ⟨(h.mem_iff k').1 e, by simp [e2]⟩
          · rintro (⟨e, e2⟩ | e)
            · exact Or.inr ⟨(h.mem_iff k').2 e, by simpa using e2⟩
            · exact Or.inl e
        · simp only [length_insertKV_not_mem k v _ hk_rm]
          have := h.size_le; omega
        · simp only [List.length_cons, length_insertKV_not_mem k v _ hk_rm, List.length_dropLast]
          have := h.len_eq; omega
      · -- plain insert
        simp only [hfull, if_false, Bool.false_eq_true]
        constructor
        · simp only [List.nodup_cons]; exact ⟨hko, h.orderNodup⟩
        · simp only [keys_insertKV_not_mem k v _ hk]
          rw [List.nodup_append]
          refine ⟨h.keysNodup, by simp, ?_⟩
          intro a ha b hb
          simp at hb; subst hb
          intro e; subst e; exact hk ha
        · intro k'
          simp only [keys_insertKV_not_mem k v _ hk, List.mem_cons, List.mem_append,
            List.mem_singleton, List.not_mem_nil, or_false]
          constructor
          · rintro (e | e)
            · exact Or.inr e
            · exact Or.inl ((h.mem_iff k').1 e)
          · rintro (e | e)
            · exact Or.inr ((h.mem_iff k').2 e)
            · exact Or.inl e
        · simp only [length_insertKV_not_mem k v _ hk]; omega
        · simp only [List.length_cons, length_insertKV_not_mem k v _ hk]
          have := h.len_eq; omega


/-- **Invariant, one step**: every operation preserves `Inv`. -/
theorem C29_step_inv (s : Impl) (op : Op) (h : Inv s) : Inv (s.step op).1 := by
  cases op with
  | get k => exact C29_get_inv s k h
  | put k v => exact C29_put_inv s k v h
  | clear => constructor <;> simp [Impl.step, keys]
  | len => exact h
  | isEmpty => exact h
  | stats => exact h

/-- **Invariant, every reachable state** (induction over the history, no bound). -/
theorem C29_reachable_inv (cap : Nat) (ops : List Op) : Inv (Impl.final (Impl.new cap) ops) := by
  suffices ∀ s, Inv s → Inv (Impl.final s ops) from this _ (C29_inv_new cap)
  induction ops with
  | nil => intro s h; exact h
  | cons op ops ih => intro s h; exact ih _ (C29_step_inv s op h)

theorem step_cap (s : Impl) (op : Op) : (s.step op).1.cap = s.cap := by
  cases op with
  | get k => simp only [Impl.step, Impl.get]; split <;> rfl
  | put k v =>
    simp only [Impl.step, Impl.put]
    split
    · rfl
    · simp only; split
      · rfl
      · split
        · split <;> rfl
        · rfl
  | clear => rfl
  | len => rfl
  | isEmpty => rfl
  | stats => rfl

theorem final_cap (s : Impl) (ops : List Op) : (Impl.final s ops).cap = s.cap := by
  induction ops generalizing s with
  | nil => rfl
  | cons op ops ih => simp only [Impl.final]; rw [ih, step_cap]

/-- The cache never holds more entries than its capacity, after any history. -/
theorem C29_size_le_capacity (cap : Nat) (ops : List Op) :
    (Impl.final (Impl.new cap) ops).map.length ≤ cap := by
  have h := C29_reachable_inv cap ops
  have hc : (Impl.final (Impl.new cap) ops).cap = cap := final_cap _ ops
  have := h.size_le; omega


theorem abs_mk (c : Nat) (m : List (Nat × Nat)) (o : List Nat) :
    abs { cap := c, map := m, order := o } =
      { cap := c, items := o.filterMap (pairOf m) } := rfl

theorem pairOf_some {m : List (Nat × Nat)} {k v : Nat} (h : lookup k m = some v) :
    pairOf m k = some (k, v) := by simp [pairOf, h]

theorem abs_lookup (s : Impl) (h : Inv s) (k : Nat) : lookup k (abs s).items = lookup k s.map := by
  rw [abs_items, lookup_filterMap]
  by_cases hk : k ∈ s.order
  · simp [hk]
  · simp only [hk, if_false]
    exact ((lookup_none_iff k s.map).2 (fun e => hk ((h.mem_iff k).2 e))).symm

theorem abs_length (s : Impl) (h : Inv s) : (abs s).items.length = s.map.length := by
  rw [abs_items, filterMap_total _ _ (fun k hk => (h.mem_iff k).1 hk)]
  simp [h.len_eq]

theorem removeK_length_mem (k : Nat) (s : Impl) (h : Inv s) (hk : k ∈ s.order) :
    (removeK k (abs s).items).length + 1 = s.map.length := by
  rw [abs_items, ← filterMap_filter_ne,
    filterMap_total _ _ (fun k' hk' => (h.mem_iff k').1 (List.mem_filter.1 hk').1)]
  simp only [List.length_map]
  rw [length_filter_ne_of_nodup s.order k h.orderNodup hk]; exact h.len_eq

/-- **Refinement, one step**: under the invariant, a concrete step yields the abstract
    LRU's output and commutes with the abstraction map. -/
theorem C29_step_refines (s : Impl) (op : Op) (h : Inv s) :
    abs (s.step op).1 = (Spec.step (abs s) op).1 ∧ (s.step op).2 = (Spec.step (abs s) op).2 := by
  cases op with
  | get k =>
    simp only [Impl.step, Spec.step, Impl.get, abs_lookup s h k]
    cases hl : lookup k s.map with
    | none => simp
    | some v =>
      simp only [and_true]
      simp only [abs_mk, List.filterMap_cons, pairOf_some hl]
      rw [filterMap_filter_ne s.map k s.order]; rfl
  | put k v =>
    refine ⟨?_, by simp only [Impl.step, Spec.step]; split <;> rfl⟩
    simp only [Impl.step, Spec.step]
    have hcap : (abs s).cap = s.cap := rfl
    unfold Impl.put
    by_cases hc : s.cap = 0
    · simp [hc, hcap]
    · simp only [hc, hcap, if_false]
      by_cases hs : (lookup k s.map).isSome
      · have hk : k ∈ keys s.map := (lookup_isSome_iff k s.map).1 hs
        have hko : k ∈ s.order := (h.mem_iff k).2 hk
        simp only [hs, if_true]
        have hlen := removeK_length_mem k s h hko
        have hsz := h.size_le
        rw [List.take_of_length_le (by simp only [List.length_cons]; omega)]
        simp only [abs_mk, List.filterMap_cons, pairOf_some (lookup_insertKV_self k v _)]
        congr 2
        have h1 := filterMap_congr' (insertKV k v s.map) s.map (s.order.filter (· != k))
          (fun k' hk' => lookup_insertKV_ne k v k' s.map (by simpa using (List.mem_filter.1 hk').2))
        have h2 := filterMap_filter_ne s.map k s.order
        rw [h1, h2]; rfl
      · have hk : k ∉ keys s.map := fun e => hs ((lookup_isSome_iff k s.map).2 e)
        have hko : k ∉ s.order := fun e => hk ((h.mem_iff k).1 e)
        have hrm : removeK k (abs s).items = (abs s).items := removeK_not_mem s.map k s.order hko
        rw [hrm]
        simp only [hs, Bool.false_eq_true, if_false]
        by_cases hfull : s.map.length ≥ s.cap
        · simp only [hfull, if_true]
          have hne : s.order ≠ [] := by
            intro e; have := h.len_eq; simp [e] at this; omega
          obtain ⟨lru, hlru⟩ : ∃ x, s.order.getLast? = some x := by
            cases hg : s.order.getLast? with
            | none => exact absurd (List.getLast?_eq_none_iff.1 hg) hne
            | some x => exact ⟨x, rfl⟩
          simp only [hlru]
          have hsplit : s.order = s.order.dropLast ++ [lru] := by
            have h1 := List.dropLast_concat_getLast hne
            have h2 : s.order.getLast hne = lru := by
              have := List.getLast?_eq_some_getLast hne
              rw [hlru] at this; exact (Option.some.inj this).symm
            rw [h2] at h1; exact h1.symm
          have hnd : (s.order.dropLast ++ [lru]).Nodup := hsplit ▸ h.orderNodup
          have hlru_notin : lru ∉ s.order.dropLast := by
            intro e
            have := (List.nodup_append.1 hnd).2.2 lru e lru (by simp)
            exact this rfl
          have hlenI := abs_length s h
          have hsz := h.size_le
          have hcl : s.cap = (abs s).items.length := by omega
          have htake : ((k, v) :: (abs s).items).take s.cap = (k, v) :: (abs s).items.dropLast := by
            rw [List.dropLast_eq_take, hcl]
            cases hn : (abs s).items.length with
            | zero => omega
            | succ n => simp
          rw [htake]
          simp only [abs_mk, List.filterMap_cons, pairOf_some (lookup_insertKV_self k v _)]
          congr 2
          have h1 := filterMap_congr' (insertKV k v (removeK lru s.map)) s.map s.order.dropLast
            (fun k' hk' => by
              have hne1 : k' ≠ k := fun e => hko (e ▸ List.dropLast_subset _ hk')
              have hne2 : k' ≠ lru := fun e => hlru_notin (e ▸ hk')
              rw [lookup_insertKV_ne k v k' _ hne1, lookup_removeK_ne lru k' _ hne2])
          rw [h1]
          have ht1 := filterMap_total s.map s.order (fun k' hk' => (h.mem_iff k').1 hk')
          have ht2 := filterMap_total s.map s.order.dropLast
            (fun k' hk' => (h.mem_iff k').1 (List.dropLast_subset _ hk'))
          rw [abs_items, ht1, ht2, List.map_dropLast]
        · simp only [hfull, if_false]
          have hlenI := abs_length s h
          rw [List.take_of_length_le (by simp only [List.length_cons]; omega)]
          simp only [abs_mk, List.filterMap_cons, pairOf_some (lookup_insertKV_self k v _)]
          congr 2
          have h1 := filterMap_congr' (insertKV k v s.map) s.map s.order
            (fun k' hk' => lookup_insertKV_ne k v k' s.map (fun e => hko (e ▸ hk')))
          rw [h1]; rfl
  | clear => simp [Impl.step, Spec.step, abs]
  | len => simp [Impl.step, Spec.step, abs_length s h]
  | isEmpty =>
    have := abs_length s h
    simp only [Impl.step, Spec.step, true_and, Out.flag.injEq]
    cases hm : s.map <;> cases hi : (abs s).items <;> simp_all
  | stats =>
    simp only [Impl.step, Spec.step, abs_length s h, true_and]
    rfl

/-- **Refinement, every history**: the outputs of the real cache's model equal those of the
    abstract LRU map for every capacity and every operation sequence. -/
theorem C29_run_refines (cap : Nat) (ops : List Op) :
    Impl.run (Impl.new cap) ops = Spec.run (Spec.new cap) ops := by
  suffices ∀ s, Inv s → Impl.run s ops = Spec.run (abs s) ops from
    this _ (C29_inv_new cap)
  induction ops with
  | nil => intro s _; rfl
  | cons op ops ih =>
    intro s h
    obtain ⟨h1, h2⟩ := C29_step_refines s op h
    simp only [Impl.run, Spec.run]
    rw [h2, ih _ (C29_step_inv s op h), h1]


/-- The final abstract state is the abstraction of the final concrete state. -/
theorem C29_final_refines (cap : Nat) (ops : List Op) :
    abs (Impl.final (Impl.new cap) ops) = Spec.final (Spec.new cap) ops := by
  suffices ∀ s, Inv s → abs (Impl.final s ops) = Spec.final (abs s) ops from
    this _ (C29_inv_new cap)
  induction ops with
  | nil => intro s _; rfl
  | cons op ops ih =>
    intro s h
    simp only [Impl.final, Spec.final]
    rw [ih _ (C29_step_inv s op h), (C29_step_refines s op h).1]

/-- A value just stored is returned by the next lookup of its key (capacity > 0). -/
theorem C29_put_then_get (s : Impl) (k v : Nat) (hc : s.cap ≠ 0) :
    ((s.put k v).get k).2 = .val v := by
  have : lookup k (s.put k v).map = some v := by
    unfold Impl.put; simp only [hc, if_false]; exact lookup_insertKV_self k v _
  simp [Impl.get, this]

/-- A capacity of zero stores nothing: after any history the map is empty. -/
theorem C29_capacity_zero (ops : List Op) : (Impl.final (Impl.new 0) ops).map = [] := by
  have := C29_size_le_capacity 0 ops
  exact List.length_eq_zero_iff.1 (by omega)

/-- When a new key is stored into a full cache, exactly the least recently used entry
    (the last of the recency list) is dropped and nothing else changes. -/
theorem C29_evicts_least_recent (s : Impl) (k v : Nat) (h : Inv s) (hc : s.cap ≠ 0)
    (hnew : k ∉ keys s.map) (hfull : s.map.length = s.cap) :
    (abs (s.put k v)).items = (k, v) :: (abs s).items.dropLast := by
  have h1 := (C29_step_refines s (.put k v) h).1
  simp only [Impl.step] at h1
  rw [h1]
  have hcap : (abs s).cap = s.cap := rfl
  simp only [Spec.step, hcap, hc, if_false]
  have hko : k ∉ s.order := fun e => hnew ((h.mem_iff k).1 e)
  have hrm : removeK k (abs s).items = (abs s).items := removeK_not_mem s.map k s.order hko
  rw [hrm, List.dropLast_eq_take]
  have := abs_length s h
  have hpos : 0 < (abs s).items.length := by omega
  have : s.cap = (abs s).items.length - 1 + 1 := by omega
  rw [this, List.take_succ_cons]

/-- Below capacity nothing is evicted. -/
theorem C29_no_eviction_below_capacity (s : Impl) (k v : Nat) (h : Inv s)
    (hnew : k ∉ keys s.map) (hroom : s.map.length < s.cap) :
    (abs (s.put k v)).items = (k, v) :: (abs s).items := by
  have h1 := (C29_step_refines s (.put k v) h).1
  simp only [Impl.step] at h1
  rw [h1]
  have hcap : (abs s).cap = s.cap := rfl
  have hc : s.cap ≠ 0 := by omega
  simp only [Spec.step, hcap, hc, if_false]
  have hko : k ∉ s.order := fun e => hnew ((h.mem_iff k).1 e)
  have hrm : removeK k (abs s).items = (abs s).items := removeK_not_mem s.map k s.order hko
  rw [hrm]
  have := abs_length s h
  exact List.take_of_length_le (by simp only [List.length_cons]; omega)

/-! Non-vacuity: the hypotheses above are met by concrete, non-trivial reachable states. -/
/-! ## Lookups return the value most recently stored -/

theorem impl_step_tracks (s : Impl) (h : Inv s) (f : Nat → Option Nat) (op : Op)
    (hf : ∀ k v, lookup k s.map = some v → f k = some v) :
    ∀ k v, lookup k (s.step op).1.map = some v → track f op k = some v := by
  intro k v hl
  cases op with
  | get k0 =>
    simp only [Impl.step, Impl.get] at hl
    split at hl <;> exact hf k v hl
  | put k0 v0 =>
    simp only [Impl.step] at hl
    unfold Impl.put at hl
    simp only [track]
    by_cases hc : s.cap = 0
    · have hz := h.size_le
      have : s.map = [] := List.eq_nil_of_length_eq_zero (by omega)
      simp [hc, this, lookup] at hl
    · simp only [hc, if_false] at hl
      by_cases hk : k = k0
      · subst hk
        rw [lookup_insertKV_self] at hl
        simp [hl]
      · rw [lookup_insertKV_ne k0 v0 k _ hk] at hl
        rw [if_neg hk]
        apply hf
        split at hl
        · exact hl
        · split at hl
          · split at hl
            · rename_i lru _
              simp only at hl
              by_cases hkl : k = lru
              · subst hkl; rw [lookup_removeK_self] at hl; cases hl
              · rwa [lookup_removeK_ne lru k _ hkl] at hl
            · exact hl
          · exact hl
  | clear => simp [Impl.step, lookup] at hl
  | len => exact hf k v hl
  | isEmpty => exact hf k v hl
  | stats => exact hf k v hl

theorem impl_final_tracks (ops : List Op) (s : Impl) (h : Inv s) (f : Nat → Option Nat)
    (hf : ∀ k v, lookup k s.map = some v → f k = some v) :
    ∀ k v, lookup k (Impl.final s ops).map = some v → ops.foldl track f k = some v := by
  induction ops generalizing s f with
  | nil => exact hf
  | cons op ops ih =>
    simp only [Impl.final, List.foldl_cons]
    exact ih _ (C29_step_inv s op h) _ (impl_step_tracks s h f op hf)

/-- **Every lookup returns the value most recently stored for that key**: after any history, for
any capacity, a `get k` that hits returns exactly the value of the last `put k _` since the last
`clear` (never a stale value, never a value stored under another key, never one that was
cleared). A miss is the only other answer (the key was evicted, cleared or never stored). -/
theorem C29_get_returns_last_stored (cap : Nat) (pre : List Op) (k : Nat) :
    ((Impl.final (Impl.new cap) pre).step (.get k)).2 = .none ∨
    ∃ v, ((Impl.final (Impl.new cap) pre).step (.get k)).2 = .val v ∧ lastStored pre k = some v := by
  have ht := impl_final_tracks pre (Impl.new cap) (C29_inv_new cap) (fun _ => Option.none)
    (by intro k v hl; simp [Impl.new, lookup] at hl)
  simp only [Impl.step, Impl.get]
  cases hl : lookup k (Impl.final (Impl.new cap) pre).map with
  | none => left; rfl
  | some v => right; exact ⟨v, rfl, ht k v hl⟩

example : ((Impl.final (Impl.new 2) [.put 1 10, .put 1 11, .put 2 20]).step (.get 1)).2 = .val 11 ∧
    lastStored [.put 1 10, .put 1 11, .put 2 20] 1 = some 11 := by decide

/-- `is_empty` and `stats` report the abstract map's size and the construction-time capacity. -/
theorem C29_stats_reports (cap : Nat) (ops : List Op) :
    ((Impl.final (Impl.new cap) ops).step .stats).2 =
      .stats (Spec.final (Spec.new cap) ops).items.length cap ∧
    ((Impl.final (Impl.new cap) ops).step .isEmpty).2 =
      .flag (Spec.final (Spec.new cap) ops).items.isEmpty := by
  have hi := C29_reachable_inv cap ops
  have hr := C29_final_refines cap ops
  have h1 := (C29_step_refines _ .stats hi).2
  have h2 := (C29_step_refines _ .isEmpty hi).2
  rw [hr] at h1 h2
  refine ⟨?_, h2⟩
  rw [h1]
  simp only [Spec.step]
  have : (Spec.final (Spec.new cap) ops).cap = cap := by
    rw [← hr]; exact final_cap _ ops
  rw [this]

example : ((Impl.final (Impl.new 3) [.put 1 10, .put 2 20]).step .stats).2 = .stats 2 3 := by decide

/-- `MemoryManager::new(options).cache()` is `None` exactly for `cache_size = 0`; otherwise the
cache has that capacity (so the capacity-0 path of `put` is unreachable through the manager). -/
theorem C29_manager_cache (n : Nat) :
    (managerCache n = Option.none ↔ n = 0) ∧ ∀ c, managerCache n = some c → c = Impl.new n ∧ c.cap ≠ 0 := by
  unfold managerCache
  by_cases h : n > 0
  · simp [h, Impl.new]; omega
  · simp [h]; omega

example : managerCache 5 = some (Impl.new 5) := by decide

example : Inv (Impl.final (Impl.new 2) [.put 1 10, .put 2 20, .get 1, .put 3 30]) :=
  C29_reachable_inv 2 _
example : Impl.run (Impl.new 2) [.put 1 10, .put 2 20, .get 1, .put 3 30, .get 2, .get 1, .len]
    = [.unit, .unit, .val 10, .unit, .none, .val 10, .size 2] := by decide
example : (Impl.final (Impl.new 2) [.put 1 10, .put 2 20]).map.length = 2 ∧
    3 ∉ keys (Impl.final (Impl.new 2) [.put 1 10, .put 2 20]).map := by decide

end OxiVerif.C29
