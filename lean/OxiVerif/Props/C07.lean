import OxiVerif.Model.C08
import OxiVerif.Spec.C07Codecs
import OxiVerif.Lemmas.C07
import OxiVerif.Lemmas.C07A85
import OxiVerif.Lemmas.C07Chain
import OxiVerif.Lemmas.C07Flate
import OxiVerif.Lemmas.C07Tiff
import OxiVerif.Lemmas.C07Lzw
import OxiVerif.Lemmas.C07FlateFixed
import OxiVerif.Model.C07Ccitt
/-!
C07 — every supported stream filter decodes exactly what a reference encoder encoded.

Decoders: the model `Model/C08.lean` of `parser/filters.rs` (shared with C08; `decodeStream` =
`PdfStream::decode`).  Encoders: `Spec/C07Codecs.lean`, written from ISO 32000-1 §7.4 / PNG §9 /
TIFF 6.0 §14 / RFC 1950-1951.  Every theorem quantifies over ALL byte strings (`Bytes b`: every
element < 256) — proofs are by induction over the input, there is no length bound except the
decoder's own 256 MiB output ceiling (`maxDecompressedSize`, a hypothesis where it matters).

White space: "`s` is `e` with white space interleaved anywhere" is stated as
`s.filter (fun c => !isPdfWs c) = e` — any number of white-space bytes (ISO 32000-1 Table 1: NUL HT LF
FF CR SP) at any positions.

Four defects found by this property have been repaired in the library (`fix:` commits in /repo):
C07-F1 TIFF predictor, C07-F2 NUL white space, C07-F3 ASCII85 leading `<`; the model mirrors the
repaired code, the former `_partial` statements are proved in full, and each old witness is kept as a
`C07_regression_…` statement about the unrepaired definition.
-/
namespace OxiVerif.Flt
open OxiVerif.Codec

/-! ## 1. ASCIIHexDecode -/

/-- **ASCIIHex round trip**: upper- or lower-case digits, white space (NUL HT LF FF CR SP) anywhere, with
or without the EOD `>` (and anything after it), any limit the plaintext fits in. -/
theorem C07_hex_roundtrip (L : Nat) (upper : Bool) (b s t : List Nat) (hb : Bytes b)
    (ht : t = [] ∨ ∃ t', t = 62 :: t') (hs : s.filter (fun c => !isPdfWs c) = hexEnc upper b ++ t)
    (hL : b.length ≤ L) : hexDec L s = .ok b := by
  unfold hexDec
  rw [hs]
  exact hexGo_hexEnc L upper t ht b 0 hb (by omega)

example : hexDec 3 [52, 56, 10, 54, 53, 32, 54, 99, 62, 7] = .ok [72, 101, 108] := by
  refine C07_hex_roundtrip 3 false [72, 101, 108] _ [62, 7] (by decide) (Or.inr ⟨_, rfl⟩) ?_ (by decide)
  decide

/-- regression for C07-F2: with the filter of the unrepaired code (`u8::is_ascii_whitespace`, no NUL) a
NUL between the digits was an invalid digit; `is_pdf_whitespace` skips it. -/
theorem C07_regression_hex_nul :
    hexGo 10 0 ([52, 56, 0, 54, 53, 62].filter (fun c => !isAsciiWs c)) = .err .decode ∧
    hexDec 10 [52, 56, 0, 54, 53, 62] = .ok [72, 101] ∧
    [52, 56, 0, 54, 53, 62].filter (fun c => !(pdfWhiteSpace.contains c)) = hexEnc false [72, 101] ++ [62] := by
  decide

/-- the decoder's white-space test is Table 1 of the specification -/
theorem isPdfWs_eq_table1 (c : Nat) : isPdfWs c = pdfWhiteSpace.contains c := by
  unfold isPdfWs isAsciiWs pdfWhiteSpace
  rw [Bool.eq_iff_iff]
  simp only [List.contains_cons, List.contains_nil, Bool.or_false, Bool.or_eq_true, beq_iff_eq]
  omega

/-! ## 2. ASCII85Decode -/

/-- **ASCII85 round trip, `<~ … ~>` form**: all byte strings, `z` groups, partial final groups,
white space anywhere. -/
theorem C07_a85_roundtrip_prefixed (L : Nat) (b s t : List Nat) (hb : Bytes b)
    (hs : s.filter (fun c => !isPdfWs c) = 60 :: 126 :: (a85Enc b ++ 126 :: 62 :: t))
    (hL : b.length ≤ L) : a85Dec L s = .ok b := by
  unfold a85Dec
  rw [hs]
  exact a85Go_a85Enc L t b 0 hb (by omega)

example : a85Dec 5 [60, 126, 56, 55, 99, 10, 85, 82, 68, 90, 126, 62] = .ok [72, 101, 108, 108, 111] := by
  refine C07_a85_roundtrip_prefixed 5 [72, 101, 108, 108, 111] _ [] (by decide) ?_ (by decide)
  decide

theorem a85Start_of_ne (c : Nat) (l : List Nat) (h : c ≠ 60) : a85Start (c :: l) = c :: l := by
  unfold a85Start
  split
  · rename_i h'; cases h'; exact absurd rfl h
  · rfl

theorem a85Start_of_second_ne (c c2 : Nat) (l : List Nat) (h : c2 ≠ 126) : a85Start (c :: c2 :: l) = c :: c2 :: l := by
  unfold a85Start
  split
  · rename_i h'; cases h'; exact absurd rfl h
  · rfl

/-- the prefix skipper leaves every reference encoding alone: it never starts with `<` `~` -/
theorem a85Start_a85Enc (t : List Nat) : ∀ b : List Nat,
    a85Start (a85Enc b ++ 126 :: 62 :: t) = a85Enc b ++ 126 :: 62 :: t
  | a :: b :: c :: d :: rest => by
    simp only [a85Enc]
    split
    · exact a85Start_of_ne 122 _ (by decide)
    · simp only [a85Digits, List.cons_append]
      exact a85Start_of_second_ne _ _ _ (by omega)
  | [a, b, c] => by
    simp only [a85Enc, a85Digits, List.take_succ_cons, List.take_zero, List.cons_append]
    exact a85Start_of_second_ne _ _ _ (by omega)
  | [a, b] => by
    simp only [a85Enc, a85Digits, List.take_succ_cons, List.take_zero, List.cons_append]
    exact a85Start_of_second_ne _ _ _ (by omega)
  | [a] => by
    simp only [a85Enc, a85Digits, List.take_succ_cons, List.take_zero, List.cons_append]
    exact a85Start_of_second_ne _ _ _ (by omega)
  | [] => by
    simp only [a85Enc, List.nil_append]
    exact a85Start_of_ne 126 _ (by decide)

/-- **ASCII85 round trip, PDF form** (ISO 32000-1 §7.4.3: digits + `~>`, no `<~`): all byte strings,
including those whose first digit is `<`. -/
theorem C07_a85_roundtrip (L : Nat) (b s t : List Nat) (hb : Bytes b)
    (hs : s.filter (fun c => !isPdfWs c) = a85Enc b ++ 126 :: 62 :: t)
    (hL : b.length ≤ L) : a85Dec L s = .ok b := by
  unfold a85Dec
  rw [hs, a85Start_a85Enc]
  exact a85Go_a85Enc L t b 0 hb (by omega)

example : a85Dec 4 [60, 43, 85, 44, 109, 126, 62] = .ok [84, 101, 115, 116] := by
  refine C07_a85_roundtrip 4 [84, 101, 115, 116] _ [] (by decide) ?_ (by decide)
  decide

/-- regression for C07-F3: "Test" encodes to `<+U,m`; the unrepaired skipper (`a85StartOld`) dropped
the `+`, the repaired one leaves the digits alone. -/
theorem C07_regression_a85_leading_lt :
    a85Enc [84, 101, 115, 116] = [60, 43, 85, 44, 109] ∧
    a85StartOld ([60, 43, 85, 44, 109] ++ [126, 62]) = [60, 85, 44, 109, 126, 62] ∧
    a85Go 100 0 [] (a85StartOld ([60, 43, 85, 44, 109] ++ [126, 62])) ≠ .ok [84, 101, 115, 116] ∧
    a85Dec 100 (a85Enc [84, 101, 115, 116] ++ [126, 62]) = .ok [84, 101, 115, 116] := by
  decide

/-! ## 3. RunLengthDecode -/

/-- **RunLength, every conforming encoder at once**: any sequence of valid packets (literal 1…128,
run 2…128) followed by EOD (and anything after it) decodes to its expansion. -/
theorem C07_rl_packets_roundtrip (L : Nat) (ps : List Packet) (t : List Nat)
    (hv : ∀ p ∈ ps, p.valid = true) (hL : (rlExpand ps).length ≤ L) :
    rlDec L (ps.flatMap Packet.bytes ++ 128 :: t) = .ok (rlExpand ps) := by
  unfold rlDec
  refine rlGo_serialize L t ps _ 0 ?_ hv (by omega)
  have := flatMap_bytes_length_ge ps
  simp only [List.length_append, List.length_cons]
  omega

/-- **RunLength round trip** for the reference encoder, all byte strings -/
theorem C07_rl_roundtrip (L : Nat) (b : List Nat) (hL : b.length ≤ L) : rlDec L (rlEnc b) = .ok b := by
  have h := C07_rl_packets_roundtrip L (rlPackets b) [] (rlPackets_valid b) (by rw [rlPackets_expand]; exact hL)
  rw [rlPackets_expand] at h
  exact h

example : rlEnc [7, 7, 7, 9] = [254, 7, 0, 9, 128] ∧ rlDec 4 [254, 7, 0, 9, 128] = .ok [7, 7, 7, 9] :=
  ⟨by decide, C07_rl_roundtrip 4 [7, 7, 7, 9] (by decide)⟩

/-! ## 4. PNG predictors (10–15) -/

/-- **one row**: un-filtering a filtered row gives the row back, every filter type, every `bpp`,
every previous row -/
theorem C07_png_row_roundtrip (t bpp : Nat) (prev row : List Nat) (hb : Bytes row) :
    unfilterRow t bpp prev (filterRow t bpp prev row) = row :=
  unfilterRow_filterRow t bpp prev row hb

/-- **PNG predictor round trip** through `apply_predictor`: every /Predictor 10–15, every
Columns/Colors/BitsPerComponent with a non-empty row whose bit count fits `usize`, every per-row
choice of filter types 0–4, every number of rows. -/
theorem C07_png_predictor_roundtrip (pred columns colors bpc : Nat) (d : Dict)
    (hp : 10 ≤ pred ∧ pred ≤ 15)
    (hc : d.columns = .int columns) (hk : d.colors = .int colors) (hb : d.bpc = .int bpc)
    (hpos : 0 < rowBytes columns colors bpc) (hfit : columns * colors * bpc + 7 < two64)
    (types : List Nat) (ht : ∀ t ∈ types, t ≤ 4) (k : Nat) (data : List Nat)
    (hl : data.length = k * rowBytes columns colors bpc) (hbytes : Bytes data) :
    applyPredictor (pngEnc (rowBytes columns colors bpc) (pngBpp colors bpc) types data) pred d = .ok data := by
  unfold applyPredictor
  rw [if_neg (by omega), if_neg (by omega), if_pos hp]
  exact pngAdvanced_pngEnc columns colors bpc d hc hk hb hpos hfit types ht k data hl hbytes

example : applyPredictor (pngEnc 3 3 [4, 1] [1, 2, 3, 4, 5, 6]) 15
    { predictor := .int 15, columns := .int 1, colors := .int 3, bpc := .int 8 } = .ok [1, 2, 3, 4, 5, 6] :=
  C07_png_predictor_roundtrip 15 1 3 8 _ (by decide) rfl rfl rfl (by decide) (by decide) [4, 1] (by decide) 2 _
    (by decide) (by decide)

/-! ## 5. TIFF predictor 2 -/

/-- **TIFF predictor 2 round trip, 8 bits per component** through `apply_predictor`: every Columns and
Colors, every data length (a trailing partial row is left alone by both sides). -/
theorem C07_tiff_predictor_roundtrip_8 (columns colors : Nat) (d : Dict)
    (hc : d.columns = .int columns) (hk : d.colors = .int colors) (hb : d.bpc = .int 8)
    (hcol : columns < two64) (hcolr : colors < two64) (hfit : columns * colors * 8 + 7 < two64)
    (data : List Nat) (hbytes : Bytes data) :
    applyPredictor (tiffEnc columns colors 8 data) 2 d = .ok data := by
  unfold applyPredictor
  rw [if_neg (by omega), if_pos rfl]
  exact tiffPredictor_tiffEnc8 columns colors d hc hk hb hcol hcolr hfit data hbytes

example : applyPredictor (tiffEnc 2 3 8 [1, 2, 3, 5, 7, 9, 0, 0, 0, 255, 1, 2, 77]) 2
    { predictor := .int 2, columns := .int 2, colors := .int 3, bpc := .int 8 } =
    .ok [1, 2, 3, 5, 7, 9, 0, 0, 0, 255, 1, 2, 77] :=
  C07_tiff_predictor_roundtrip_8 2 3 _ rfl rfl rfl (by decide) (by decide) (by decide) _ (by decide)

/- FULL: applyPredictor (tiffEnc columns colors bpc data) 2 d = .ok data for bpc ∈ {1, 2, 4, 8, 16}.
   Proved above for bpc = 8.  For 16 bits and for 1/2/4 bits per component (samples cut out of the
   bit string) there is no theorem; those depths are covered by the correspondence run (colours 1–4 ×
   columns 1–64 × 1–5 rows, Flate and LZW).  The statement below is the kernel-checked instance used as
   non-vacuity evidence for them. -/
theorem C07_tiff_predictor_subbyte_16_instances_partial :
    applyPredictor (tiffEnc 3 2 2 [0x1b, 0x60, 0xe4, 0xf0]) 2
      { predictor := .int 2, columns := .int 3, colors := .int 2, bpc := .int 2 } = .ok [0x1b, 0x60, 0xe4, 0xf0] ∧
    applyPredictor (tiffEnc 2 1 16 [0x12, 0x34, 0xff, 0xff]) 2
      { predictor := .int 2, columns := .int 2, colors := .int 1, bpc := .int 16 } = .ok [0x12, 0x34, 0xff, 0xff] := by
  decide

/-- regression for C07-F1: the unrepaired `apply_predictor` had no arm for 2 and returned the
differenced samples -/
theorem C07_regression_tiff_predictor :
    tiffEnc 3 1 8 [10, 20, 30] = [10, 10, 10] ∧
    applyPredictorOld (tiffEnc 3 1 8 [10, 20, 30]) 2 { predictor := .int 2, columns := .int 3 } = .ok [10, 10, 10] ∧
    applyPredictor (tiffEnc 3 1 8 [10, 20, 30]) 2 { predictor := .int 2, columns := .int 3 } = .ok [10, 20, 30] := by
  decide

/-- a stage without an (integer) /Predictor: the post-processing of `apply_filter_with_params` is void -/
def NoPredictor (p : Option Dict) : Prop := ∀ d, p = some d → d.predictor.asInt = none

/-! ## 5b. FlateDecode

The library delegates inflate to `flate2`; the model takes it as a parameter `E : Ext`.  Here `E` is
instantiated with the Lean RFC 1950/1951 decoder `Inflate.zlibInflate` (Model/C07Inflate.lean), the
same function the C07 driver runs and compares with flate2's answer on every Flate case. -/

/-- the model with the Lean inflate plugged in (recovery strategies 2–8 stay outside) -/
def inflateExt : Ext := ⟨fun x => .ok (Inflate.zlibInflate x), fun _ => .ext 1⟩

theorem zlibStored_length_ge (block : Nat) (b : List Nat) : b.length ≤ (zlibStored block b).length := by
  have hb : 1 ≤ max 1 (min block 65535) := by omega
  have := Inflate.storedBlocks_length _ hb (b.length + 1) b (Nat.lt_succ_self _)
  unfold zlibStored
  simp only [List.length_append, List.length_cons, List.length_nil]
  omega

theorem tryStandardZlib_stored (block : Nat) (b : List Nat) (hL : b.length ≤ maxDecompressedSize) :
    tryStandardZlib inflateExt (zlibStored block b) = .ok (some b) := by
  unfold tryStandardZlib inflateExt
  have h := Inflate.zlibInflate_zlibStored block b []
  rw [List.append_nil] at h
  simp only [h, Res.bind]
  rw [if_neg (by omega)]
  have hge := zlibStored_length_ge block b
  have hratio : ratioOk (zlibStored block b).length b.length = true := by
    unfold ratioOk
    have : b.length / (zlibStored block b).length ≤ 1 := by
      by_cases h0 : (zlibStored block b).length = 0
      · rw [h0]; simp
      · exact Nat.div_le_of_le_mul (by omega)
    have : ¬ (b.length / (zlibStored block b).length > maxCompressionRatio) := by
      unfold maxCompressionRatio; omega
    simp [this]
  rw [hratio]; rfl

/- FULL: for every conforming deflate encoder `enc` (any mix of stored / fixed / dynamic Huffman
   blocks, any match finder):  applyFilterWithParams E (enc b) .flate none = .ok b.
   Proved here for two reference encoders: STORED blocks (every block size 1…65535) and one
   FIXED-HUFFMAN block of literals, every byte string.  Missing: length/distance pairs and dynamic
   Huffman tables — real zlib output of flate2 at levels 0–9 is covered by the correspondence run (Lean inflate = flate2's answer, model = implementation, result =
   plaintext on every generated case), not by a theorem. -/
theorem C07_flate_stored_roundtrip_partial (block : Nat) (b : List Nat) (p : Option Dict)
    (hp : NoPredictor p) (hL : b.length ≤ maxDecompressedSize) :
    applyFilterWithParams inflateExt (zlibStored block b) .flate p = .ok b := by
  have hz := tryStandardZlib_stored block b hL
  unfold applyFilterWithParams
  cases p with
  | none => simp [decodeFlate, hz, Res.bind]
  | some d =>
    have := hp d rfl
    simp [this, decodeFlate, hz, Res.bind]

/-- **Flate, one fixed-Huffman block of literals** (RFC 1951 §3.2.6): the canonical-code walk of the
decoder through the fixed literal/length table (8-bit codes for 0–143, 9-bit codes for 144–255, the
7-bit end-of-block), LSB-first bit packing, alignment and Adler-32 — every byte string. -/
theorem C07_flate_fixed_roundtrip_partial (b : List Nat) (p : Option Dict) (hb : Bytes b)
    (hp : NoPredictor p) (hL : b.length ≤ ratioGuardMinOutput) :
    applyFilterWithParams inflateExt (zlibFixed b) .flate p = .ok b := by
  have hz : tryStandardZlib inflateExt (zlibFixed b) = .ok (some b) := by
    unfold tryStandardZlib inflateExt
    have h := Inflate.zlibInflate_zlibFixed b [] hb (by simp [Bytes])
    rw [List.append_nil] at h
    simp only [h, Res.bind]
    have hmax : ratioGuardMinOutput ≤ maxDecompressedSize := by decide
    rw [if_neg (by omega)]
    have hratio : ratioOk (zlibFixed b).length b.length = true := by
      unfold ratioOk
      have : ¬ b.length > ratioGuardMinOutput := by omega
      simp [this]
    rw [hratio]; rfl
  unfold applyFilterWithParams
  cases p with
  | none => simp [decodeFlate, hz, Res.bind]
  | some d =>
    have := hp d rfl
    simp [this, decodeFlate, hz, Res.bind]

example : applyFilterWithParams inflateExt (zlibFixed [5, 200, 7]) .flate none = .ok [5, 200, 7] :=
  C07_flate_fixed_roundtrip_partial [5, 200, 7] none (by decide) (fun _ h => by cases h) (by decide)

example : applyFilterWithParams inflateExt (zlibStored 2 [5, 6, 7]) .flate none = .ok [5, 6, 7] :=
  C07_flate_stored_roundtrip_partial 2 [5, 6, 7] none (fun _ h => by cases h) (by decide)

/-- **Flate + PNG predictor**: stored-block zlib around PNG-filtered rows comes back as the image data,
every /Predictor 10–15, geometry, per-row filter types, block size -/
theorem C07_flate_png_roundtrip_partial (block pred columns colors bpc : Nat) (d : Dict)
    (hpd : d.predictor = .int pred) (hp : 10 ≤ pred ∧ pred ≤ 15)
    (hc : d.columns = .int columns) (hk : d.colors = .int colors) (hb : d.bpc = .int bpc)
    (hpos : 0 < rowBytes columns colors bpc) (hfit : columns * colors * bpc + 7 < two64)
    (types : List Nat) (ht : ∀ t ∈ types, t ≤ 4) (k : Nat) (data : List Nat)
    (hl : data.length = k * rowBytes columns colors bpc) (hbytes : Bytes data)
    (hL : (pngEnc (rowBytes columns colors bpc) (pngBpp colors bpc) types data).length ≤ maxDecompressedSize) :
    applyFilterWithParams inflateExt
      (zlibStored block (pngEnc (rowBytes columns colors bpc) (pngBpp colors bpc) types data)) .flate (some d)
      = .ok data := by
  have hz := tryStandardZlib_stored block _ hL
  have hpr := C07_png_predictor_roundtrip pred columns colors bpc d hp hc hk hb hpos hfit types ht k data hl hbytes
  have hu : asU32 (pred : Int) = pred := asU32_ofNat pred (by unfold two32; omega)
  unfold applyFilterWithParams
  simp [hpd, PVal.asInt, hz, Res.bind, hu, hpr]

example : applyFilterWithParams inflateExt (zlibStored 4 (pngEnc 2 1 [2] [9, 9, 9, 9])) .flate
    (some { predictor := .int 12, columns := .int 2, colors := .int 1, bpc := .int 8 }) = .ok [9, 9, 9, 9] :=
  C07_flate_png_roundtrip_partial 4 12 2 1 8 _ rfl (by decide) rfl rfl rfl (by decide) (by decide) [2] (by decide) 2
    [9, 9, 9, 9] (by decide) (by decide) (by decide)

/-! ## 5c. CCITTFaxDecode -/

/- FULL: ccittDecode K columns rows (ccittEncode K columns rows image) = image.
   No reference CCITT encoder is written here, and none is needed to see that the statement is FALSE of
   the code: for /K -1 the "decoder" (`Group4Decoder::decode`, modelled by `Ccitt.g4Decode`) returns
   its input truncated or zero-padded to `ceil(columns/8) * rows` bytes, whatever it is.  Known
   finding C07-F4 (hand-made T.6 vectors in the corpus, run against the real code). -/
/-- T.6: two all-white rows of 8 pixels are `1` `1` (two V0 codes) + EOFB = `c0 04 00 40`; the image is
`ff ff`.  The code returns `c0 04`. -/
theorem C07_witness_ccitt_g4_is_a_stub :
    Ccitt.g4Decode 8 2 [0xc0, 0x04, 0x00, 0x40] = [0xc0, 0x04] ∧
    Ccitt.g4Decode 8 2 [0xc0, 0x04, 0x00, 0x40] ≠ [0xff, 0xff] ∧
    ∀ data : List Nat, 2 ≤ data.length → Ccitt.g4Decode 8 2 data = data.take 2 := by
  refine ⟨by decide, by decide, fun data h => ?_⟩
  unfold Ccitt.g4Decode
  simp only [Nat.reduceAdd, Nat.reduceDiv, Nat.reduceMul, Nat.reduceGT, if_true]
  rw [if_pos (by omega)]

/-! ## 5d. LZWDecode -/

/-- **LZW round trip**: `decode_lzw_with_limit` inverts the reference encoder (ISO 32000-1 §7.4.4: Clear
first, greedy matching on a 4096-entry table, EOD last) for BOTH EarlyChange values, EVERY Clear policy
(`clearAt` = the table size at which the encoder issues Clear; 0 = never, the table stays full), every
byte string and every limit it fits in.  Proof (Lemmas/C07LzwBits.lean, Lemmas/C07Lzw.lean): (1) the bit
reader reads back what the packer wrote; (2) the decoder's table lags the encoder's by exactly one
entry, including the "code = next entry" (KwKwK) case; (3) both sides switch the code width at the
same code (`(1 << w) - 1` / `1 << w`), after Clear and with a full table. -/
theorem C07_lzw_roundtrip (L : Nat) (early : Bool) (clearAt : Nat) (b : List Nat) (hb : Bytes b)
    (hL : b.length ≤ L) : lzwDec L early (lzwEnc early clearAt b) = .ok b :=
  lzwDec_lzwEnc L early clearAt b hb hL

example : lzwDec 6 false (lzwEnc false 4096 [97, 98, 97, 98, 97, 98]) = .ok [97, 98, 97, 98, 97, 98] :=
  C07_lzw_roundtrip 6 false 4096 _ (by decide) (by decide)

/-- the `EarlyChange` entry the decoder reads selects the encoder's variant -/
theorem C07_lzw_stage_roundtrip (E : Ext) (clearAt : Nat) (p : Option Dict) (hp : NoPredictor p) (b : List Nat)
    (hb : Bytes b) (hL : b.length ≤ maxDecompressedSize) :
    applyFilterWithParams E (lzwEnc (earlyChange p) clearAt b) .lzw p = .ok b := by
  have h := C07_lzw_roundtrip maxDecompressedSize (earlyChange p) clearAt b hb hL
  unfold applyFilterWithParams
  cases p with
  | none => simp [h, Res.bind]
  | some d =>
    have := hp d rfl
    simp [h, this, Res.bind]

/-- **LZW + PNG predictor**: every /Predictor 10–15, geometry, per-row filter types, EarlyChange value
and Clear policy -/
theorem C07_lzw_png_roundtrip (E : Ext) (clearAt pred columns colors bpc : Nat) (d : Dict)
    (hpd : d.predictor = .int pred) (hp : 10 ≤ pred ∧ pred ≤ 15)
    (hc : d.columns = .int columns) (hk : d.colors = .int colors) (hb : d.bpc = .int bpc)
    (hpos : 0 < rowBytes columns colors bpc) (hfit : columns * colors * bpc + 7 < two64)
    (types : List Nat) (ht : ∀ t ∈ types, t ≤ 4) (k : Nat) (data : List Nat)
    (hl : data.length = k * rowBytes columns colors bpc) (hbytes : Bytes data)
    (hpb : Bytes (pngEnc (rowBytes columns colors bpc) (pngBpp colors bpc) types data))
    (hL : (pngEnc (rowBytes columns colors bpc) (pngBpp colors bpc) types data).length ≤ maxDecompressedSize) :
    applyFilterWithParams E
      (lzwEnc (earlyChange (some d)) clearAt (pngEnc (rowBytes columns colors bpc) (pngBpp colors bpc) types data))
      .lzw (some d) = .ok data := by
  have hlzw := C07_lzw_roundtrip maxDecompressedSize (earlyChange (some d)) clearAt _ hpb hL
  have hpr := C07_png_predictor_roundtrip pred columns colors bpc d hp hc hk hb hpos hfit types ht k data hl hbytes
  have hu : asU32 (pred : Int) = pred := asU32_ofNat pred (by unfold two32; omega)
  unfold applyFilterWithParams
  simp [hlzw, hpd, PVal.asInt, Res.bind, hu, hpr]

example (d : Dict) (hd : d = { predictor := .int 11, columns := .int 2, colors := .int 1, bpc := .int 8 }) :
    applyFilterWithParams ⟨fun _ => .ext 1, fun _ => .ext 1⟩
      (lzwEnc (earlyChange (some d)) 4096 (pngEnc (rowBytes 2 1 8) (pngBpp 1 8) [1] [7, 7])) .lzw (some d) = .ok [7, 7] := by
  subst hd
  exact C07_lzw_png_roundtrip _ 4096 11 2 1 8 _ rfl (by decide) rfl rfl rfl (by decide) (by decide) [1]
    (by decide) 1 [7, 7] (by decide) (by decide) (by decide) (by decide)

/-! ## 6. Filter chains -/

/-- ASCIIHex, ASCII85 and RunLength stages ignore `DecodeParms` altogether (a /Predictor there is not
applied: repair of C08-F4) -/
theorem applyFilter_byteFilter (E : Ext) (data : List Nat) (f : FName) (p : Option Dict)
    (hf : f = .hex ∨ f = .a85 ∨ f = .rl) (o : List Nat)
    (h : (match f with
      | .hex => hexDec maxDecompressedSize data
      | .a85 => a85Dec maxDecompressedSize data
      | .rl => rlDec maxDecompressedSize data
      | _ => .err .syntax) = .ok o) :
    applyFilterWithParams E data f p = .ok o := by
  unfold applyFilterWithParams
  rcases hf with rfl | rfl | rfl <;> simp only at h ⊢ <;> rw [h] <;> simp [Res.bind]

/-- ASCIIHex stage: digits in either case, optional white space pattern `ws` (a function inserting
ASCII white space), EOD -/
def hexStage (upper : Bool) (p : Option Dict) : Stage := ⟨.hex, p, fun x => hexEnc upper x ++ [62]⟩
/-- the PDF form: digits and `~>` -/
def a85Stage (p : Option Dict) : Stage := ⟨.a85, p, fun x => a85Enc x ++ [126, 62]⟩
def rlStage (p : Option Dict) : Stage := ⟨.rl, p, rlEnc⟩
/-- LZW without predictor; the encoder variant follows the stage's /EarlyChange -/
def lzwStage (clearAt : Nat) (p : Option Dict) : Stage := ⟨.lzw, p, lzwEnc (earlyChange p) clearAt⟩

theorem filter_noWs (e : List Nat) (h : ∀ c ∈ e, isPdfWs c = false) : e.filter (fun c => !isPdfWs c) = e := by
  rw [List.filter_eq_self]
  intro c hc; simp [h c hc]

theorem hexEnc_noWs (u : Bool) : ∀ (b : List Nat), Bytes b → ∀ c ∈ hexEnc u b, isPdfWs c = false := by
  intro b
  induction b with
  | nil => intro _ c hc; simp [hexEnc] at hc
  | cons x xs ih =>
    intro hb c hc
    rw [Bytes.cons] at hb
    simp only [hexEnc, List.mem_cons] at hc
    have key : ∀ k, k < 16 → isPdfWs (Codec.hexDigit u k) = false := by
      intro k hk
      unfold Codec.hexDigit isPdfWs isAsciiWs
      cases u <;> simp <;> split <;> omega
    rcases hc with rfl | rfl | hc
    · exact key _ (by omega)
    · exact key _ (by omega)
    · exact ih hb.2 c hc

theorem hexStage_roundTrips (E : Ext) (u : Bool) (p : Option Dict) :
    (hexStage u p).RoundTrips E := by
  refine ⟨(by intro h; cases h), fun x hx => ?_⟩
  refine applyFilter_byteFilter E _ .hex p (Or.inl rfl) x ?_
  refine C07_hex_roundtrip _ u x _ [62] hx.1 (Or.inr ⟨[], rfl⟩) ?_ hx.2
  apply filter_noWs
  intro c hc
  change c ∈ hexEnc u x ++ [62] at hc
  simp only [List.mem_append, List.mem_singleton] at hc
  rcases hc with hc | rfl
  · exact hexEnc_noWs u x hx.1 c hc
  · rfl

theorem a85Stage_roundTrips (E : Ext) (p : Option Dict) : (a85Stage p).RoundTrips E := by
  refine ⟨(by intro h; cases h), fun x hx => ?_⟩
  refine applyFilter_byteFilter E _ .a85 p (Or.inr (Or.inl rfl)) x ?_
  refine C07_a85_roundtrip _ x _ [] hx.1 ?_ hx.2
  apply filter_noWs
  intro c hc
  change c ∈ a85Enc x ++ [126, 62] at hc
  simp only [List.mem_cons, List.mem_append, List.not_mem_nil, or_false] at hc
  rcases hc with hc | rfl | rfl
  · rcases a85Enc_range x c hc with rfl | ⟨h1, h2⟩
    · rfl
    · unfold isPdfWs isAsciiWs; simp; omega
  · rfl
  · rfl

theorem rlStage_roundTrips (E : Ext) (p : Option Dict) : (rlStage p).RoundTrips E := by
  refine ⟨(by intro h; cases h), fun x hx => ?_⟩
  exact applyFilter_byteFilter E _ .rl p (Or.inr (Or.inr rfl)) x (C07_rl_roundtrip _ x hx.2)

theorem lzwStage_roundTrips (E : Ext) (clearAt : Nat) (p : Option Dict) (hp : NoPredictor p) :
    (lzwStage clearAt p).RoundTrips E :=
  ⟨(by intro h; cases h), fun x hx => C07_lzw_stage_roundtrip E clearAt p hp x hx.1 hx.2⟩

/-- **Filter chains compose**: for any list of stages whose decoders invert their encoders, with the
per-stage `DecodeParms` the decoder looks up (`get_filter_params`) being the stage's own, and every
stage input within the ceiling, `decode_stream` on the chain-encoded data returns the plaintext.
Any length, any order, any inflate behaviour `E`. -/
theorem C07_chain_roundtrip (E : Ext) (ps : ParmSpec) (stages : List Stage) (x : List Nat)
    (hrt : ∀ s ∈ stages, s.RoundTrips E)
    (hp : ∀ k s, stages[k]? = some s → filterParams ps k = s.parms)
    (hfit : Fits stages x) :
    decodeStream E (encodeChain stages x) (.array (stages.map (fun s => some s.name))) ps = .ok x := by
  unfold decodeStream
  have : (stages.map (fun s => some s.name)) = (stages.map (·.name)).map some := by simp
  simp only [this, filterNames_map_some]
  exact chainGo_encodeChain E ps stages 0 x hrt (fun k s h => by simpa using hp k s h) hfit

/-- the three byte-oriented filters compose in any order and multiplicity -/
theorem C07_chain_hex_a85_rl (E : Ext) (stages : List Stage) (x : List Nat)
    (hst : ∀ s ∈ stages, (∃ u, s = hexStage u none) ∨ s = a85Stage none ∨ s = rlStage none)
    (hfit : Fits stages x) :
    decodeStream E (encodeChain stages x) (.array (stages.map (fun s => some s.name))) .none = .ok x := by
  refine C07_chain_roundtrip E .none stages x ?_ ?_ hfit
  · intro s hs
    rcases hst s hs with ⟨u, rfl⟩ | rfl | rfl
    · exact hexStage_roundTrips E u none
    · exact a85Stage_roundTrips E none
    · exact rlStage_roundTrips E none
  · intro k s hk
    have hs := List.mem_of_getElem? hk
    rcases hst s hs with ⟨u, rfl⟩ | rfl | rfl <;> rfl

/-- Flate stage: stored-block zlib (the proved part of Flate) -/
def flateStage (block : Nat) (p : Option Dict) : Stage := ⟨.flate, p, zlibStored block⟩

theorem flateStage_roundTrips (block : Nat) (p : Option Dict) (hp : NoPredictor p) :
    (flateStage block p).RoundTrips inflateExt :=
  ⟨(by intro h; cases h), fun x hx => C07_flate_stored_roundtrip_partial block x p hp hx.2⟩

/-- **Chains over all five filters**, any length, order and multiplicity, each stage with its own
`DecodeParms` entry (LZW with either EarlyChange value and any Clear policy, Flate with any stored-block
size), decoded by `decode_stream` with the Lean inflate plugged in. -/
theorem C07_chain_five_filters (ps : ParmSpec) (stages : List Stage) (x : List Nat)
    (hst : ∀ s ∈ stages, (∃ u p, s = hexStage u p) ∨ (∃ p, s = a85Stage p) ∨ (∃ p, s = rlStage p) ∨
      (∃ c p, NoPredictor p ∧ s = lzwStage c p) ∨ (∃ b p, NoPredictor p ∧ s = flateStage b p))
    (hp : ∀ k s, stages[k]? = some s → filterParams ps k = s.parms)
    (hfit : Fits stages x) :
    decodeStream inflateExt (encodeChain stages x) (.array (stages.map (fun s => some s.name))) ps = .ok x := by
  refine C07_chain_roundtrip inflateExt ps stages x ?_ hp hfit
  intro s hs
  rcases hst s hs with ⟨u, p, rfl⟩ | ⟨p, rfl⟩ | ⟨p, rfl⟩ | ⟨c, p, hn, rfl⟩ | ⟨b, p, hn, rfl⟩
  · exact hexStage_roundTrips _ u p
  · exact a85Stage_roundTrips _ p
  · exact rlStage_roundTrips _ p
  · exact lzwStage_roundTrips _ c p hn
  · exact flateStage_roundTrips b p hn

example : decodeStream inflateExt
    (encodeChain [a85Stage none, lzwStage 4096 (some { early := .int 0 }), flateStage 3 none] [1, 1, 1, 2])
    (.array [some .a85, some .lzw, some .flate]) (.array [none, some { early := .int 0 }, none]) = .ok [1, 1, 1, 2] := by
  refine C07_chain_five_filters _ [a85Stage none, lzwStage 4096 (some { early := .int 0 }), flateStage 3 none]
    [1, 1, 1, 2] ?_ ?_ ?_
  · intro s hs
    simp only [List.mem_cons, List.not_mem_nil, or_false] at hs
    rcases hs with rfl | rfl | rfl
    · exact Or.inr (Or.inl ⟨none, rfl⟩)
    · exact Or.inr (Or.inr (Or.inr (Or.inl ⟨4096, _, (fun d h => by cases h; rfl), rfl⟩)))
    · exact Or.inr (Or.inr (Or.inr (Or.inr ⟨3, none, (fun d h => by cases h), rfl⟩)))
  · intro k s hk
    match k, hk with
    | 0, hk => cases hk; rfl
    | 1, hk => cases hk; rfl
    | 2, hk => cases hk; rfl
    | k + 3, hk => simp at hk
  · exact ⟨by decide +kernel, by decide +kernel, by decide +kernel, trivial⟩

example : decodeStream noExt' (encodeChain [hexStage true none, rlStage none, a85Stage none] [1, 1, 1, 2])
    (.array [some .hex, some .rl, some .a85]) .none = .ok [1, 1, 1, 2] := by
  refine C07_chain_hex_a85_rl _ [hexStage true none, rlStage none, a85Stage none] [1, 1, 1, 2] ?_ ?_
  · intro s hs
    simp only [List.mem_cons, List.not_mem_nil, or_false] at hs
    rcases hs with rfl | rfl | rfl
    · exact Or.inl ⟨true, rfl⟩
    · exact Or.inr (Or.inr rfl)
    · exact Or.inr (Or.inl rfl)
  · exact ⟨by decide, by decide, by decide, trivial⟩
where noExt' : Ext := ⟨fun _ => .ext 1, fun _ => .ext 1⟩

end OxiVerif.Flt
