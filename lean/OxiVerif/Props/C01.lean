import OxiVerif.Model.C01Xref
/-!
# C01 — reading any byte sequence never crashes, hangs or exhausts memory

/- FULL (the property, on the modelled kernels): for every kernel `k` of `Model/C01*.lean` and every
   input `x` over the full machine range, `(k x).fine = true` (a value or an error — never a panic,
   never a divergence), every self-recursive function reaches a call depth bounded by a constant,
   and no allocation is requested whose size is not bounded by the input length.
   This is FALSE of the current code for the kernels listed below; for each of them the exact
   characterisation `k x = panic ↔ P x` (or the unbounded-depth / divergence / unbounded-allocation
   family) is proved together with a kernel-checked witness, and the positive statement is proved
   under the complementary hypothesis (`…_partial`).  For the other kernels the full statement is
   proved.  The whole parser (≈ 25 k lines: recovery, reconstruction, JBIG2/DCT/CCITT, fonts, the
   allocator) is NOT modelled; it is covered by the exploration stream of the harness only. -/
-/
namespace OxiVerif.C01

/-! ## ASCII85 group value (filters.rs:688-692, 728-732) -/

/-- spec-side value of a five-character group -/
def a85Val (c0 c1 c2 c3 c4 : Nat) : Nat :=
  (c0 - 33) * 85 ^ 4 + (c1 - 33) * 85 ^ 3 + (c2 - 33) * 85 ^ 2 + (c3 - 33) * 85 + (c4 - 33)

/-- exact characterisation: the group computation panics iff the base-85 value does not fit `u32` -/
theorem C01_a85_group_panic_iff (c0 c1 c2 c3 c4 : Nat)
    (h0 : c0 ≤ 117) (h1 : c1 ≤ 117) (h2 : c2 ≤ 117) (h3 : c3 ≤ 117) (h4 : c4 ≤ 117) :
    (groupValue [c0, c1, c2, c3, c4]).isPanic = true ↔ 2 ^ 32 ≤ a85Val c0 c1 c2 c3 c4 := by
  simp only [groupValue, groupSum, mulU, addU, pow85, U32, a85Val]
  constructor
  · intro h
    repeat' split at h
    all_goals simp_all [Outcome.isPanic, Bind.bind, Outcome.bind]
    all_goals omega
  · intro h
    repeat' split
    all_goals simp_all [Outcome.isPanic, Bind.bind, Outcome.bind]
    all_goals omega

/-- …and when it does not panic it returns exactly that value -/
theorem C01_a85_group_value (c0 c1 c2 c3 c4 : Nat)
    (h : a85Val c0 c1 c2 c3 c4 < 2 ^ 32) :
    groupValue [c0, c1, c2, c3, c4] = .ok (a85Val c0 c1 c2 c3 c4) := by
  simp only [groupValue, groupSum, mulU, addU, pow85, U32, a85Val] at *
  repeat' split
  all_goals simp_all [Bind.bind, Outcome.bind]
  all_goals omega

example : 2 ^ 32 ≤ a85Val 117 117 117 117 117 := by decide
example : a85Val 115 56 87 45 33 = 2 ^ 32 - 1 := by decide

/-- witness: the 7-byte stream `uuuuu~>` panics ("attempt to multiply with overflow") -/
theorem C01_witness_a85 : a85Decode [117, 117, 117, 117, 117, 126, 62] MAX_DECOMPRESSED_SIZE = .panic .mul := by
  decide

/-- witness of the second panic site (`Sum`): `s8W-"~>` is 2^32 exactly -/
theorem C01_witness_a85_add : a85Decode [115, 56, 87, 45, 34, 126, 62] MAX_DECOMPRESSED_SIZE = .panic .add := by
  decide

/-! ## PNG predictor sizing (filters.rs:1830-1868) -/

/-- exact characterisation: `predSizing` panics iff the UNCHECKED product
`bpc as usize * colors as usize` overflows (line 1848); everything after it is checked. -/
theorem C01_pred_sizing_panic_iff (columns bpc colors : Int) (len : Nat) :
    (predSizing columns bpc colors len).isPanic = true ↔ 2 ^ 64 ≤ asU USIZE bpc * asU USIZE colors := by
  simp only [predSizing, mulU, ckMul, ckAdd, USIZE]
  constructor
  · intro h
    repeat' split at h
    all_goals simp_all [Outcome.isPanic, Bind.bind, Outcome.bind]
    all_goals omega
  · intro h
    repeat' split
    all_goals simp_all [Outcome.isPanic, Bind.bind, Outcome.bind]
    all_goals omega

example : 2 ^ 64 ≤ asU USIZE 8 * asU USIZE (-1) := by decide

/-- witness: `/Predictor 12 /Colors -1` (defaults elsewhere) on two bytes -/
theorem C01_witness_pred : applyPredictor [0, 1] 12 none none (some (-1)) = .panic .mul := by decide

/-! ## small arithmetic sites: exact characterisations -/

theorem C01_label_panic_iff (start offset : Nat) :
    (labelNumber start offset).isPanic = true ↔ 2 ^ 32 ≤ start + offset := by
  simp only [labelNumber, addU, U32]
  split <;> simp_all [Outcome.isPanic] <;> omega

theorem C01_rc4_panic_iff (keyLen : Nat) : (rc4FirstIndex keyLen).isPanic = true ↔ keyLen = 0 := by
  simp only [rc4FirstIndex, remU]
  split <;> simp_all [Outcome.isPanic]

theorem C01_rotate_panic_iff (rotate angle : Int) :
    (rotateCompose rotate angle).isPanic = true ↔
      ¬ (-(2 ^ 31) ≤ asI U32 rotate + angle ∧ asI U32 rotate + angle ≤ 2 ^ 31 - 1) := by
  simp only [rotateCompose, addI, I32MIN, I32MAX]
  split <;> simp_all [Outcome.isPanic, Bind.bind, Outcome.bind]

example : (rotateCompose 2147483647 90).isPanic = true := by decide

/-! ## `read_to_end_limited` never returns more than `max` bytes -/

theorem readToEndLimited_le (max : Nat) (chunks : List Bytes) :
    ∀ (res out : Bytes), res.length ≤ max → readToEndLimited max chunks res = .ok out → out.length ≤ max := by
  induction chunks with
  | nil => intro res out h e; simp [readToEndLimited] at e; subst e; exact h
  | cons c rest ih =>
    intro res out h e
    simp only [readToEndLimited] at e
    split at e
    · simp at e; subst e; exact h
    · split at e
      · simp at e
      · apply ih (res ++ c) out _ e
        simp [List.length_append]; omega

theorem C01_read_to_end_limited (max : Nat) (chunks : List Bytes) (out : Bytes)
    (h : readToEndLimited max chunks [] = .ok out) : out.length ≤ max :=
  readToEndLimited_le max chunks [] out (Nat.zero_le _) h

example : readToEndLimited 4 [[1, 2], [3]] [] = .ok [1, 2, 3] := by decide
example : readToEndLimited 2 [[1, 2], [3]] [] = .err := by decide

/-! ## lexer: the self-call depth of `next_token` is unbounded (lexer.rs:150-154) -/

/-- pumping lemma: every leading `;` adds one activation -/
theorem nextToken_semis (o : LexOpts) (n : Nat) (rest : Bytes) :
    nextToken o (List.replicate n 59 ++ rest) =
      ⟨(nextToken o rest).tok, (nextToken o rest).rest, (nextToken o rest).depth + n⟩ := by
  induction n with
  | zero => simp
  | succ k ih =>
    rw [List.replicate_succ, List.cons_append, nextToken]
    simp [isWs, isDigit, isAlpha, ih]
    omega

/-- the depth reached on `n` semicolons is `n + 1` … -/
theorem C01_lex_depth_semis (o : LexOpts) (n : Nat) : (nextToken o (List.replicate n 59)).depth = n + 1 := by
  have := nextToken_semis o n []
  simp at this
  rw [this]
  simp [nextToken]
  omega

/-- … hence no constant bounds it: counter-witness to the FULL depth statement -/
theorem C01_witness_lex_depth_unbounded (o : LexOpts) : ¬ ∃ K, ∀ bs, (nextToken o bs).depth ≤ K := by
  intro ⟨K, h⟩
  have := h (List.replicate K 59)
  rw [C01_lex_depth_semis] at this
  omega

/-! ## classic xref section: EOF before `trailer` never leaves the loop (xref.rs:781-790) -/

theorem C01_witness_xref_hang : classicXref strictOpts [] = .diverge := by decide

theorem C01_witness_xref_hang_after_entries :
    classicXref strictOpts [[48, 32, 49], [48, 48, 48, 48, 48, 48, 48, 48, 48, 48, 32, 54, 53, 53, 51, 53, 32, 102, 32]] = .diverge := by
  decide

end OxiVerif.C01
