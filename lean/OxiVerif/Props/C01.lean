import OxiVerif.Lemmas.C01Lexer
import OxiVerif.Lemmas.C01Graph
import OxiVerif.Lemmas.C01Depth
import OxiVerif.Lemmas.C01A85
import OxiVerif.Model.C01Old
/-!
# C01 — reading any byte sequence never crashes, hangs or exhausts memory

/- FULL (the property, on the modelled kernels): for every kernel `k` of `Model/C01*.lean` and every
   input `x` over the full machine range, `(k x).fine = true` (a value or an error — never a panic,
   never a divergence), every self-recursive function reaches a call depth bounded by a constant,
   and no allocation is requested whose size is not bounded by the input length or an explicit cap.
   For the kernels repaired in /repo (ASCII85 group value, predictor product, lexer and content
   tokenizer self-calls, object-parser recursion, classic xref section, xref streams, object-stream
   offsets, stream `/Length`, `/Rotate` composition, page-label numbers) and for those that never had the defect (`C01_prev_*`, `C01_flatten_*`,
   `C01_read_to_end_limited`, `C01_png_rows_*`) the full statement is proved (`…_never_panics`,
   `…_fine`, `…_depth_const`, `…_depth_bounded`, `…_alloc_bounded`).  The pre-repair definitions are
   kept in `Model/C01Old.lean`; the old exact characterisations and witnesses are now statements
   about them — the regressions the check must catch.
   It is still FALSE of the current code for the CMap offset fold and an empty RC4 key; for each of
   them the exact characterisation / a kernel-checked witness (`C01_witness_…`) is proved.
   The whole parser (≈ 25 k lines: recovery, reconstruction, JBIG2/DCT/CCITT, fonts, the
   allocator) is NOT modelled; it is covered by the exploration stream of the harness only. -/
-/
namespace OxiVerif.C01
open Outcome

/-! ## ASCII85 (`decode_ascii85_with_limit`, `ascii85_group_value`) -/

/-- FULL, after the repair (checked fold): the whole decoder — white-space filter, `<~` prefix, `z`,
groups, `~>`, `u`-padded tail, output limit — never panics, for every byte content, any length, any
limit -/
theorem C01_a85_never_panics (data : Bytes) (max : Nat) : (a85Decode data max).isPanic = false :=
  a85Decode_np data max

example : a85Decode [117, 117, 117, 117, 117, 126, 62] MAX_DECOMPRESSED_SIZE = .err := by decide
example : a85Decode [115, 56, 87, 45, 34, 126, 62] MAX_DECOMPRESSED_SIZE = .err := by decide
example : a85Decode [115, 56, 87, 45, 33, 126, 62] MAX_DECOMPRESSED_SIZE = .ok [255, 255, 255, 255] := by decide
example : (a85Decode [60, 126, 56, 55, 99, 85, 82, 68, 93, 106, 55, 66, 69, 98, 111, 56, 48, 126, 62]
    MAX_DECOMPRESSED_SIZE).fine = true := by decide

/-! regression: the pre-repair group value (an unchecked positional sum in `u32`) -/

/-- exact characterisation, for a group of ANY length and ANY byte values: the `u32` group
computation panicked iff the base-85 value does not fit `u32` -/
theorem C01_a85_group_panic_iff (g : List Nat) :
    (groupValueOld g).isPanic = true ↔ 2 ^ 32 ≤ gsum 0 g := by
  have := (groupSum_spec g 0 0 (by decide)).1
  simpa [groupValueOld, U32] using this

/-- …and when it fits, the computation returned exactly that value -/
theorem C01_a85_group_value (g : List Nat) (h : gsum 0 g < 2 ^ 32) :
    groupValueOld g = .ok (gsum 0 g) := by
  have := (groupSum_spec g 0 0 (by decide)).2
  simpa [groupValueOld, U32] using this (by simpa [U32] using h)

/-- the value of a five-character group in the usual notation -/
def a85Val (c0 c1 c2 c3 c4 : Nat) : Nat :=
  (c0 - 33) * 85 ^ 4 + (c1 - 33) * 85 ^ 3 + (c2 - 33) * 85 ^ 2 + (c3 - 33) * 85 + (c4 - 33)

theorem gsum_five (c0 c1 c2 c3 c4 : Nat) : gsum 0 [c0, c1, c2, c3, c4] = a85Val c0 c1 c2 c3 c4 := by
  simp [gsum, pow85, a85Val]; omega

example : 2 ^ 32 ≤ gsum 0 [117, 117, 117, 117, 117] := by decide
example : gsum 0 [115, 56, 87, 45, 33] = 2 ^ 32 - 1 := by decide

/-- witness: the 7-byte stream `uuuuu~>` panicked ("attempt to multiply with overflow") -/
theorem C01_witness_a85 :
    a85DecodeOld [117, 117, 117, 117, 117, 126, 62] MAX_DECOMPRESSED_SIZE = .panic .mul := by decide

/-- witness of the second panic site (`Sum`): `s8W-"~>` is 2^32 exactly -/
theorem C01_witness_a85_add :
    a85DecodeOld [115, 56, 87, 45, 34, 126, 62] MAX_DECOMPRESSED_SIZE = .panic .add := by decide

/-! ## PNG predictor (`apply_png_predictor_advanced`) -/

/-- after the repair (`bpc.checked_mul(colors)`): every product of the sizing is checked -/
theorem C01_pred_sizing_never_panics (columns bpc colors : Int) (len : Nat) :
    (predSizing columns bpc colors len).isPanic = false := by
  unfold predSizing
  refine not_isPanic_bind _ _ (ckMul_isPanic _ _) (fun prod _ => ?_)
  refine not_isPanic_bind _ _ (ckMul_isPanic _ _) (fun samples _ => ?_)
  refine not_isPanic_bind _ _ (ckMul_isPanic _ _) (fun bits _ => ?_)
  refine not_isPanic_bind _ _ (ckAdd_isPanic _ _) (fun bits7 _ => ?_)
  refine not_isPanic_bind _ _ (ckAdd_isPanic _ _) (fun rowSize _ => ?_)
  split <;> rfl

/-- FULL: the WHOLE predictor (sizing, then the row loop with its five filter types, `result[i - bpp]`
look-backs and previous-row slices) never panics: for every data content, every filter-type byte,
every /Columns /Colors /BitsPerComponent the indexing and slicing stay inside their buffers -/
theorem C01_png_predict_never_panics (data : Bytes) (columns bpc colors : Int) :
    (pngPredict data columns bpc colors).isPanic = false := by
  unfold pngPredict
  apply not_isPanic_bind _ _ (C01_pred_sizing_never_panics columns bpc colors data.length)
  intro s hs
  exact fine_not_panic _ (predRows_fine data s (predSizing_ok columns bpc colors data.length s hs)
    (s.numRows + 1) 0 [] (by simp))

example : pngPredict [1, 10, 20, 2, 1, 1] 2 8 1 = .ok [10, 30, 11, 31] := by decide
example : applyPredictor [0, 1] 12 none none (some (-1)) = .err := by decide

/-! regression: the pre-repair sizing (`(bpc * colors).div_ceil(8)` unchecked, filters.rs:1848) -/

/-- exact characterisation: `predSizingOld` panicked iff the UNCHECKED product
`bpc as usize * colors as usize` overflows; everything after it was checked. -/
theorem C01_pred_sizing_panic_iff (columns bpc colors : Int) (len : Nat) :
    (predSizingOld columns bpc colors len).isPanic = true ↔ 2 ^ 64 ≤ asU USIZE bpc * asU USIZE colors := by
  unfold predSizingOld
  have hU : USIZE = 2 ^ 64 := rfl
  constructor
  · intro h
    rw [isPanic_bind] at h
    rcases h with h | ⟨prod, _, h⟩
    · rw [mulU_isPanic] at h; rw [← hU]; exact h
    · exfalso
      revert h
      simp only [Bool.not_eq_true, imp_false]
      refine not_isPanic_bind _ _ (ckMul_isPanic _ _) (fun samples _ => ?_)
      refine not_isPanic_bind _ _ (ckMul_isPanic _ _) (fun bits _ => ?_)
      refine not_isPanic_bind _ _ (ckAdd_isPanic _ _) (fun bits7 _ => ?_)
      refine not_isPanic_bind _ _ (ckAdd_isPanic _ _) (fun rowSize _ => ?_)
      split <;> rfl
  · intro h
    rw [isPanic_bind]; left; rw [mulU_isPanic, hU]; exact h

example : 2 ^ 64 ≤ asU USIZE 8 * asU USIZE (-1) := by decide

/-- witness: `/Predictor 12 /Colors -1` (defaults elsewhere) on two bytes -/
theorem C01_witness_pred : applyPredictorOld [0, 1] 12 none none (some (-1)) = .panic .mul := by decide

/-! ## small arithmetic sites: exact characterisations -/

/-- page labels after the repair (`saturating_add`): never a panic, and the exact sum whenever it fits -/
theorem C01_label_never_panics (start offset : Nat) : (labelNumber start offset).isPanic = false := rfl

theorem C01_label_value (start offset : Nat) (h : start + offset < 2 ^ 32) :
    labelNumber start offset = .ok (start + offset) := by
  unfold labelNumber U32
  rw [Nat.min_eq_left (by omega)]

example : labelNumber 4294967295 1 = .ok 4294967295 := by decide

/-- regression (pre-repair `self.start + offset`): panics iff the sum does not fit `u32` -/
theorem C01_label_panic_iff (start offset : Nat) :
    (labelNumberOld start offset).isPanic = true ↔ 2 ^ 32 ≤ start + offset := by
  rw [labelNumberOld, addU_isPanic]; rfl

theorem C01_witness_label : labelNumberOld 4294967295 1 = .panic .add := by decide

theorem C01_rc4_panic_iff (keyLen : Nat) : (rc4FirstIndex keyLen).isPanic = true ↔ keyLen = 0 := by
  unfold rc4FirstIndex remU
  by_cases h : keyLen = 0 <;> simp [h]

theorem C01_witness_rc4 : rc4FirstIndex 0 = .panic .rem0 := by decide

/-- `/Rotate` composition after the repair (the source rotation is reduced modulo 360 first): for
every `/Rotate` value and each of the four angles the `i32` addition cannot overflow … -/
theorem C01_rotate_never_panics (rotate angle : Int) (ha : 0 ≤ angle ∧ angle ≤ 270) :
    (rotateCompose rotate angle).isPanic = false := by
  unfold rotateCompose addI
  dsimp only
  have h0 : 0 ≤ asI U32 rotate % 360 := Int.emod_nonneg _ (by decide)
  have h1 : asI U32 rotate % 360 < 360 := Int.emod_lt_of_pos _ (by decide)
  have : I32MIN ≤ asI U32 rotate % 360 + angle ∧ asI U32 rotate % 360 + angle ≤ I32MAX := by
    unfold I32MIN I32MAX; omega
  rw [if_pos this]; rfl

/-- … and the result is the same angle as the unreduced sum -/
theorem C01_rotate_value (rotate angle : Int) (ha : 0 ≤ angle ∧ angle ≤ 270) :
    rotateCompose rotate angle = .ok ((asI U32 rotate + angle) % 360) := by
  unfold rotateCompose addI
  dsimp only
  have h0 : 0 ≤ asI U32 rotate % 360 := Int.emod_nonneg _ (by decide)
  have h1 : asI U32 rotate % 360 < 360 := Int.emod_lt_of_pos _ (by decide)
  have : I32MIN ≤ asI U32 rotate % 360 + angle ∧ asI U32 rotate % 360 + angle ≤ I32MAX := by
    unfold I32MIN I32MAX; omega
  rw [if_pos this]
  show Outcome.ok ((asI U32 rotate % 360 + angle) % 360) = _
  rw [Int.emod_add_emod]

example : rotateCompose 2147483647 90 = .ok 217 := by decide

/-- regression (pre-repair `rotation + angle` before the reduction) -/
theorem C01_rotate_panic_iff (rotate angle : Int) :
    (rotateComposeOld rotate angle).isPanic = true ↔
      ¬ (I32MIN ≤ asI U32 rotate + angle ∧ asI U32 rotate + angle ≤ I32MAX) := by
  unfold rotateComposeOld addI
  dsimp only
  by_cases h : I32MIN ≤ asI U32 rotate + angle ∧ asI U32 rotate + angle ≤ I32MAX
  · rw [if_pos h]
    constructor
    · intro hp; cases hp
    · intro hn; exact absurd h hn
  · rw [if_neg h]
    exact ⟨fun _ => h, fun _ => rfl⟩

theorem C01_witness_rotate : rotateComposeOld 2147483647 90 = .panic .add := by decide

/-- object streams after the repair (`first.checked_add(offset)`): no list of offsets panics -/
theorem C01_objstm_offsets_never_panic (first : Int) : ∀ offs : List Int,
    (objStmOffsets first offs).isPanic = false
  | [] => rfl
  | o :: rest => by
    rw [objStmOffsets]
    apply not_isPanic_bind
    · split <;> rfl
    · intro a _
      apply not_isPanic_bind
      · exact C01_objstm_offsets_never_panic first rest
      · intro r _; rfl

example : (objStm 1 4294967295 [49, 48, 32, 49, 32, 116, 114, 117, 101]).isPanic = false := by decide

/-- regression (pre-repair object_stream.rs:95) — the first offset alone decides: `first + offset` in `u32` -/
theorem C01_objstm_first_panic_iff (first o : Int) (rest : List Int) :
    (addU U32 (asU U32 first) (asU U32 o)).isPanic = true →
      (objStmOffsetsOld first (o :: rest)).isPanic = true := by
  intro h
  rw [objStmOffsetsOld, isPanic_bind]; left; exact h

theorem C01_witness_objstm :
    (objStmOld 1 4294967295 [49, 48, 32, 49, 32, 116, 114, 117, 101]).isPanic = true := by decide

/-- text/cmap.rs:781 — a nine-byte code overflows the `usize` fold -/
theorem C01_witness_cmap_offset :
    calculateOffset [1, 0, 0, 0, 0, 0, 0, 0, 0] [0, 0, 0, 0, 0, 0, 0, 0, 0] = .panic .mul := by decide

/-! ## `read_to_end_limited` never returns more than `max` bytes -/

theorem readToEndLimited_le (max : Nat) (chunks : List Bytes) :
    ∀ (res out : Bytes), res.length ≤ max → readToEndLimited max chunks res = .ok out → out.length ≤ max := by
  induction chunks with
  | nil => intro res out h e; simp [readToEndLimited] at e; subst e; exact h
  | cons c rest ih =>
    intro res out h e
    simp only [readToEndLimited] at e
    split at e
    · simp at e; subst e; exact h
    · split at e
      · simp at e
      · apply ih (res ++ c) out _ e
        simp [List.length_append]; omega

theorem C01_read_to_end_limited (max : Nat) (chunks : List Bytes) (out : Bytes)
    (h : readToEndLimited max chunks [] = .ok out) : out.length ≤ max :=
  readToEndLimited_le max chunks [] out (Nat.zero_le _) h

example : readToEndLimited 4 [[1, 2], [3]] [] = .ok [1, 2, 3] := by decide
example : readToEndLimited 2 [[1, 2], [3]] [] = .err := by decide

/-! ## lexer (`Lexer::next_token`, lexer.rs) -/

/-- PROGRESS: on a non-empty input `next_token` consumes at least one byte, whatever it returns -/
theorem C01_lex_progress (o : LexOpts) (b : Nat) (rest : Bytes) :
    (nextToken o (b :: rest)).rest.length ≤ rest.length := by
  have := (nextToken_good o (b :: rest)).1
  simpa using this

/-- NO PANIC, NO HANG in one call: the result is a token or an error (in particular the `u16` octal
accumulator of `read_literal_string` and the integer parser cannot overflow) -/
theorem C01_lex_fine (o : LexOpts) (inp : Bytes) : (nextToken o inp).tok.fine = true :=
  (nextToken_good o inp).2.2

/-- the token loop terminates on every input: with fuel `length + 1` it is never the fuel that ends
it, and it never ends in a panic -/
theorem C01_lex_all_terminates (o : LexOpts) (inp : Bytes) :
    (lexAll o (inp.length + 1) inp [] 0).2.1.fine = true :=
  lexAll_fine o (inp.length + 1) inp [] 0 (Nat.lt_succ_self _)

example : (lexAll ⟨false, true⟩ 6 [40, 92, 55, 55, 55] [] 0).2.1 = .err := by decide
example : (lexAll ⟨true, true⟩ 6 [40, 92, 55, 55, 55] [] 0).1 = [.str [255]] := by decide

/-- FULL, after the repair (the `;` arm and the two lenient skips `continue` a loop): `next_token`
never calls itself — one activation on every input -/
theorem C01_lex_depth_const (o : LexOpts) (inp : Bytes) : (nextToken o inp).depth = 1 :=
  nextToken_depth o inp

theorem C01_lex_depth_partial (o : LexOpts) (inp : Bytes) : (nextToken o inp).depth ≤ inp.length + 1 :=
  (nextToken_good o inp).2.1

example : (nextToken ⟨false, false⟩ [59, 59, 59, 59, 49]).tok = .ok (.int 1) := by decide

/-! regression: the pre-repair lexer (`nextTokenOld`, lexer.rs:150-154 calling `next_token` again) -/

theorem nextTokenOld_semi (o : LexOpts) (rest : Bytes) :
    nextTokenOld o (59 :: rest) =
      ⟨(nextTokenOld o rest).tok, (nextTokenOld o rest).rest, (nextTokenOld o rest).depth + 1⟩ := by
  conv => lhs; unfold nextTokenOld
  simp [isWs, isDigit, isAlpha]

/-- pumping lemma: every leading `;` added one activation -/
theorem nextTokenOld_semis (o : LexOpts) (n : Nat) (rest : Bytes) :
    nextTokenOld o (List.replicate n 59 ++ rest) =
      ⟨(nextTokenOld o rest).tok, (nextTokenOld o rest).rest, (nextTokenOld o rest).depth + n⟩ := by
  induction n with
  | zero => simp
  | succ k ih =>
    rw [List.replicate_succ, List.cons_append, nextTokenOld_semi, ih]
    simp; omega

/-- the depth reached on `n` semicolons was `n + 1` … -/
theorem C01_lex_depth_semis (o : LexOpts) (n : Nat) : (nextTokenOld o (List.replicate n 59)).depth = n + 1 := by
  have := nextTokenOld_semis o n []
  simp only [List.append_nil] at this
  rw [this]
  simp [nextTokenOld]; omega

/-- … hence no constant bounded it -/
theorem C01_witness_lex_depth_unbounded (o : LexOpts) : ¬ ∃ K, ∀ bs, (nextTokenOld o bs).depth ≤ K := by
  intro ⟨K, h⟩
  have := h (List.replicate K 59)
  rw [C01_lex_depth_semis] at this
  omega

/-- the content-stream tokenizer after the repair (stray delimiters skipped in a loop): one activation -/
theorem C01_content_depth_const (bs : Bytes) : cSkipDepth bs = 1 := rfl

/-- regression: the same family in the pre-repair content-stream tokenizer (content.rs:510): `n`
semicolons, `n + 1` activations -/
theorem C01_witness_content_depth (n : Nat) : cSkipDepthOld (List.replicate n 59) = n + 1 := by
  induction n with
  | zero => rfl
  | succ k ih => rw [List.replicate_succ, cSkipDepthOld]; simp [ih]

/-! ## object parser (`PdfObject::parse_with_options`, objects.rs): nesting bounded by `MAX_OBJECT_NESTING` -/

/-- FULL, after the repair: the recursion depth of the object parser is bounded by a constant, on
every input (`[`, `<<`, comment chains, any mixture) -/
theorem C01_obj_depth_bounded (o : LexOpts) (inp : Bytes) :
    (parseTop o inp).depth ≤ 2 * MAX_OBJECT_NESTING + 2 :=
  parseTop_depth o inp

example : (parseTop defaultOpts [91, 91, 49, 93, 93]).depth = 3 := by decide +kernel
example : (parseTop defaultOpts [91, 91, 49, 93, 93]).val.fine = true := by decide +kernel
example : (parseTop defaultOpts (List.replicate 300 91)).val.fine = true ∧
    (parseTop defaultOpts (List.replicate 300 91)).depth = 257 := by decide +kernel
example : (parseTop strictOpts [37, 10, 37, 10, 37, 10, 49]).depth = 2 := by decide +kernel

/-! regression: the pre-repair parser (`parseTopOld`): `parse_from_token` → `parse_array` →
`parse_from_token` never consulted a depth counter -/

theorem nextTokenOld_lbracket (o : LexOpts) (rest : Bytes) :
    nextTokenOld o (91 :: rest) = ⟨.ok .arrStart, rest, 1⟩ := by
  conv => lhs; unfold nextTokenOld
  simp [isWs]

theorem nextOld_lbracket (o : LexOpts) (rest : Bytes) (ld : Nat) (ss : Bool) :
    PS.nextOld o ⟨91 :: rest, [], ld, ss⟩ = (.ok .arrStart, ⟨rest, [], max ld 1, ss⟩) := by
  simp [PS.nextOld, nextTokenOld_lbracket]

theorem nextOld_nil (o : LexOpts) (ld : Nat) (ss : Bool) :
    PS.nextOld o ⟨[], [], ld, ss⟩ = (.ok .eof, ⟨[], [], max ld 1, ss⟩) := by
  simp [PS.nextOld, nextTokenOld]

/-- pumping lemma: after an opening `[`, `n` further `[` nested `n + 2` activations of
`parse_from_token_with_options` (and the parse ended in an error at EOF) -/
theorem parse_brackets (o : LexOpts) : ∀ (n fuel ld : Nat) (ss : Bool), 2 * n + 3 ≤ fuel →
    (parseFromTokOld o fuel .arrStart ⟨List.replicate n 91, [], ld, ss⟩).val = .err ∧
    (parseFromTokOld o fuel .arrStart ⟨List.replicate n 91, [], ld, ss⟩).depth = n + 2
  | 0, fuel, ld, ss, h => by
    obtain ⟨f, rfl⟩ : ∃ f, fuel = f + 3 := ⟨fuel - 3, by omega⟩
    simp [parseFromTokOld, parseArrOld, nextOld_nil]
  | n + 1, fuel, ld, ss, h => by
    obtain ⟨f, rfl⟩ : ∃ f, fuel = f + 2 := ⟨fuel - 2, by omega⟩
    have ih := parse_brackets o n f (max ld 1) ss (by omega)
    rw [parseFromTokOld]
    simp only [List.replicate_succ]
    rw [parseArrOld]
    simp only [nextOld_lbracket]
    simp [ih.1, ih.2]

/-- `n + 1` opening brackets reached depth `n + 2` … -/
theorem C01_obj_depth_brackets (o : LexOpts) (n : Nat) :
    (parseTopOld o (List.replicate (n + 1) 91)).depth = n + 2 := by
  unfold parseTopOld
  simp only [List.replicate_succ, List.length_cons, List.length_replicate]
  rw [show 3 * (n + 1) + 8 = (3 * n + 10) + 1 by omega, parseObjOld]
  simp only [nextOld_lbracket]
  exact (parse_brackets o n (3 * n + 10) _ _ (by omega)).2

/-- … hence no constant bounded the recursion depth of the object parser -/
theorem C01_witness_obj_depth_unbounded (o : LexOpts) : ¬ ∃ K, ∀ bs, (parseTopOld o bs).depth ≤ K := by
  intro ⟨K, h⟩
  have := h (List.replicate (K + 1) 91)
  rw [C01_obj_depth_brackets] at this
  omega

/-! ## classic xref section (xref.rs `parse_traditional_xref_with_options`) -/

/-- FULL, after the repairs (EOF is an error, columns taken with `get`, `checked_add` on the object
number): on EVERY list of lines the subsection loop ends in a value or an error — it cannot hang (the
fuel `lines + 1` is never exhausted) and it cannot panic -/
theorem C01_xref_section_fine (lines : List Bytes) (keys : List Nat) :
    (sectionLoop (lines.length + 1) lines keys).fine = true :=
  sectionLoop_fine (lines.length + 1) lines keys (Nat.lt_succ_self _)

example : classicXref strictOpts [] = .err := by decide
example : classicXref strictOpts [[48, 32, 49], [48, 48, 48, 48, 48, 48, 48, 48, 48, 48, 32, 54, 53, 53, 51, 53, 32, 102, 32]] = .err := by
  decide
example : entryStandard [48, 48, 48, 48, 48, 48, 48, 48, 48, 255, 32, 48, 48, 48, 48, 48, 32, 110] = none := by decide
example : entryLoop 4294967295 2 [[49, 55, 32, 48, 32, 110], [49, 55, 32, 48, 32, 110]] 0 [] = .err := by decide

/-! regression: the pre-repair section parser -/

/-- at the end of the file the subsection loop read an empty line, `continue`d and read again -/
theorem C01_xref_eof_diverges (fuel : Nat) (keys : List Nat) : sectionLoopOld fuel [] keys = .diverge := by
  cases fuel <;> rfl

theorem C01_witness_xref_hang : classicXrefOld strictOpts [] = .diverge := by decide

theorem C01_witness_xref_hang_after_entries :
    classicXrefOld strictOpts [[48, 32, 49], [48, 48, 48, 48, 48, 48, 48, 48, 48, 48, 32, 54, 53, 53, 51, 53, 32, 102, 32]] = .diverge := by
  decide

/-- `&line[11..16]` on a lossy-decoded line: a non-UTF-8 byte before column 16 shifts the boundaries -/
theorem C01_witness_xref_boundary :
    entryStandardOld [48, 48, 48, 48, 48, 48, 48, 48, 48, 255, 32, 48, 48, 48, 48, 48, 32, 110] = .panic .boundary := by
  decide

/-- `first + i` in `u32` (subsection `4294967295 2`) -/
theorem C01_witness_xref_add :
    entryLoopOld 4294967295 2 [[49, 55, 32, 48, 32, 110], [49, 55, 32, 48, 32, 110]] 0 [] = .panic .add := by
  decide

/-- xref streams: the number of entries produced is bounded by the number of DATA BYTES, whatever
`/Index`, `/Size` and `/W` declare (a declared count of 2^32-1 allocates nothing by itself) -/
theorem C01_xrs_entries_bounded (w : List Int) (index : Option (List Int)) (size : Option Int)
    (data : Bytes) (es : List XEntry) (h : xrsEntries w index size data = .ok es) :
    es.length ≤ data.length := by
  unfold xrsEntries at h
  rw [bind_eq_ok] at h
  obtain ⟨widths, _, h⟩ := h
  rw [bind_eq_ok] at h
  obtain ⟨idx, _, h⟩ := h
  rw [bind_eq_ok] at h
  obtain ⟨entrySize, _, h⟩ := h
  by_cases h0 : (entrySize == 0) = true
  · rw [if_pos h0] at h; cases h
  · rw [if_neg h0] at h
    have hpos : 0 < entrySize := by
      have : entrySize ≠ 0 := by simpa using h0
      omega
    exact xrsOuter_bound data widths entrySize hpos idx 0 [] es h (by simp) (Nat.zero_le _)

example : (xrsEntries [1, 1, 1] (some [0, 4294967295]) none [1, 7, 0, 1, 9, 0]).isPanic = false := by decide

/-- FULL, after the repair (checked width sum, checked entry end, `checked_add` on the object
number): for every `/W`, `/Index`, `/Size` and data the conversion never panics -/
theorem C01_xrs_never_panics (w : List Int) (index : Option (List Int)) (size : Option Int) (data : Bytes) :
    (xrsEntries w index size data).isPanic = false :=
  xrsEntries_np w index size data

example : xrsEntries [1, 1, 1] (some [4294967295, 2]) (some 10) [1, 0, 0, 1, 0, 0] = .err := by decide
example : xrsEntries [-1, 1, 1] none (some 1) [1, 0, 0] = .err := by decide

/-- regression: xref stream `/Index [4294967295 2]`: `first_obj + i` in `u32` (pre-repair xref_stream.rs:183) -/
theorem C01_witness_xrs_add :
    xrsEntriesOld [1, 1, 1] (some [4294967295, 2]) (some 10) [1, 0, 0, 1, 0, 0] = .panic .add := by decide

/-! ## `/Prev` chain: visited set ⇒ termination, one visit per section -/

/-- the walk terminates on EVERY section graph (cycles, self-loops, dangling `/Prev`): with fuel
`sections + 1` it never runs out of fuel and never panics -/
theorem C01_prev_terminates (sections : List (Nat × Option Nat)) (start : Nat) :
    (prevChain sections start).fine = true :=
  (prevWalk_spec sections (sections.length + 1) (some start) []
    (by have := unvisited_le sections []; omega)
    (by have := unvisited_le sections []; simp; omega)).1

/-- …and visits each section at most once -/
theorem C01_prev_bounded (sections : List (Nat × Option Nat)) (start : Nat) (v : List Nat)
    (h : prevChain sections start = .ok v) : v.length ≤ sections.length :=
  (prevWalk_spec sections (sections.length + 1) (some start) []
    (by have := unvisited_le sections []; omega)
    (by have := unvisited_le sections []; simp; omega)).2 v h

example : prevChain [(0, some 1), (1, some 0)] 0 = .ok [0, 1] := by decide
example : prevChain [(0, some 0)] 0 = .ok [0] := by decide

/-! ## `flatten_page_tree`: visited set + explicit stack ⇒ termination; `MAX_PAGES` ⇒ bounded output -/

/-- the loop terminates on EVERY node graph (cyclic `/Kids`, shared kids, dangling references)
whenever the fuel exceeds the measure "stack height + kids of unvisited nodes", and the page list
never exceeds the cap -/
theorem C01_flatten_terminates (maxPages : Nat) (g : List (Nat × PNode)) (rootKids : List Nat) (fuel : Nat)
    (hf : rootKids.length + pend [] g < fuel) :
    ∃ s, flattenRun maxPages g fuel ⟨rootKids, [], []⟩ = some s ∧ s.pages.length ≤ maxPages :=
  flattenRun_spec maxPages g fuel ⟨rootKids, [], []⟩ (by simpa [mu] using hf) (by simp)

/-- each iteration strictly decreases the measure (the step-level statement) -/
theorem C01_flatten_step_decreases (maxPages : Nat) (g : List (Nat × PNode)) (s s' : FState)
    (h : flattenStep maxPages g s = some s') : mu g s' < mu g s :=
  flattenStep_decreases maxPages g s s' h

example : (flattenRun MAX_PAGES [(0, .pages [0, 1]), (1, .page)] 10 ⟨[0], [], []⟩).map (·.pages) =
    some [1] := by decide

/-! ## stream `/Length`: what is allocated before the bytes are known to exist -/

/-- FULL, after the repair (`Vec::with_capacity(n.min(64 * 1024))`, then `take(n).read_to_end`): the
up-front request is bounded by a constant whatever `/Length` declares -/
theorem C01_stream_alloc_bounded (len : Int) (n : Nat) (h : streamAllocRequest len = .ok n) :
    n ≤ READ_BYTES_RESERVE := by
  unfold streamAllocRequest at h
  split at h
  · cases h
  · simp only [Outcome.ok.injEq] at h
    omega

/-- … so reading a stream never aborts in the allocator when it can serve 64 KiB -/
theorem C01_stream_read_never_aborts (limit : Nat) (len : Int) (avail : Nat) (hl : READ_BYTES_RESERVE < limit) :
    (streamRead limit len avail).isPanic = false := by
  unfold streamRead
  cases h : streamAllocRequest len with
  | ok req =>
    have := C01_stream_alloc_bounded len req h
    simp only [Outcome.bind_ok]
    rw [if_neg (by omega)]
    split <;> rfl
  | err => rfl
  | panic k => unfold streamAllocRequest at h; split at h <;> cases h
  | diverge => unfold streamAllocRequest at h; split at h <;> cases h

example : streamRead (2 ^ 30) (2 ^ 40) 4 = .err := by decide

/-! regression: the pre-repair `read_bytes` (`vec![0u8; n]`): the request was the declared number -/

theorem C01_witness_stream_alloc_unbounded :
    ¬ ∃ B : Nat → Nat, ∀ (len : Int) (avail n : Nat), streamAllocRequestOld len = .ok n → n ≤ B avail := by
  intro ⟨B, h⟩
  have := h ((B 0 + 1 : Nat) : Int) 0 (B 0 + 1) (by
    unfold streamAllocRequestOld
    rw [if_neg (by omega)]
    simp)
  omega

theorem C01_witness_stream_alloc : streamReadOld (2 ^ 30) (2 ^ 40) 4 = .panic .alloc := by decide

end OxiVerif.C01
