import OxiVerif.Lemmas.C14
import OxiVerif.Model.C14Old
import OxiVerif.Model.C14Graph
import OxiVerif.Lemmas.C14Graph
set_option linter.unusedSimpArgs false
set_option linter.unusedVariables false
/-!
# C14 — RAG chunking is a faithful, budget-respecting partition

Property theorems only (helpers in `Lemmas/C14.lean`, model in `Model/C14.lean`, spec-side
definitions in `Model/C14Spec.lean`).  Every statement quantifies over ALL element lists, ALL
configurations (`max_tokens`, `merge_adjacent`, `propagate_headings`, merge policy) and ALL token
counters (`Counter.count : Str → Nat` arbitrary, `Counter.additive` the flag the counter declares
about itself); nothing is bounded.

* `chunk` (sequential): the property holds in full — `C14_seq_*`.
* `chunk_with_graph`: budget, token estimate, heading and "nothing lost, nothing duplicated" hold
  in full (`C14_graph_budget`, `C14_graph_no_loss`, … — the first two since the repairs of C14-F3
  and C14-F1); the IN-ORDER statement is false of the current code with stale headings
  (`C14_witness_graph_order`, finding C14-F2) and is proved under `NoStale`
  (`C14_graph_partition_partial`).
-/
namespace OxiVerif.C14

def md0 (id : Nat) (ph : Option Str) : Meta := ⟨id, 0, ph, [], none, false, false, false⟩
def cfg100 : Config := ⟨100, true, true, false⟩

/-- `[Title N, P(N), Title N]` -/
def witnessLatest : List Elem :=
  [⟨.title, .text ['N'], md0 1 none⟩,
   ⟨.paragraph, .text ['x'], md0 2 (some ['N'])⟩,
   ⟨.title, .text ['N'], md0 3 none⟩]

/-- `[Title H1, P(H1), P(no heading), P("Gone")]` -/
def witnessDropInput : List Elem :=
  [⟨.title, .text ['H', '1'], md0 1 (some ['H', '1'])⟩,
   ⟨.paragraph, .text ['o', 'n', 'e'], md0 2 (some ['H', '1'])⟩,
   ⟨.paragraph, .text ['t', 'w', 'o'], md0 3 none⟩,
   ⟨.paragraph, .text ['t', 'h', 'r', 'e', 'e'], md0 4 (some ['G', 'o', 'n', 'e'])⟩]

/-! ## `HybridChunker::chunk` — full statements -/

/-- **Partition.**  The chunks of `chunk` contain every element's content exactly once and in
order: unchanged, or (splittable oversized elements only) as a non-empty run of fragments with
the element's provenance whose concatenation is the element's text up to white space. -/
theorem C14_seq_partition (cfg : Config) (cnt : Counter) (els : List Elem) :
    Covers ((chunk cfg cnt els).flatMap (·.elements)) els := by
  unfold chunk
  rw [finish_elements]
  refine fold_inv cfg cnt (fun st pre => Covers st.emitted pre) ?_ ?_ els
  · exact Covers.nil
  · intro st pre e h
    obtain ⟨o, ho, hc⟩ := step_emitted cfg cnt st e
    rw [ho]
    exact Covers.append h hc

example : Covers [mkFragment ⟨.paragraph, .text ['a', '.', ' ', 'b'], ⟨1, 0, none, [], none, false, false, false⟩⟩ ['a', '.'],
                  mkFragment ⟨.paragraph, .text ['a', '.', ' ', 'b'], ⟨1, 0, none, [], none, false, false, false⟩⟩ ['b']]
                 [⟨.paragraph, .text ['a', '.', ' ', 'b'], ⟨1, 0, none, [], none, false, false, false⟩⟩] :=
  Covers.split _ [['a', '.'], ['b']] (by decide) (by decide) (by decide) Covers.nil

/-- **Provenance.**  Every element of every chunk — whole or fragment — carries the bounding box,
page, `parent_heading` and `heading_path` of an input element, and every input element is
represented (`SameProv`); so the pages / boxes / breadcrumbs reported for a chunk are those of the
elements its content came from. -/
theorem C14_seq_provenance (cfg : Config) (cnt : Counter) (els : List Elem) :
    (∀ c ∈ chunk cfg cnt els, ∀ x ∈ c.elements, ∃ e ∈ els, SameProv x e) ∧
    (∀ e ∈ els, ∃ c ∈ chunk cfg cnt els, ∃ x ∈ c.elements, SameProv x e) := by
  have h := (C14_seq_partition cfg cnt els).provenance
  refine ⟨fun c hc x hx => h.1 x (List.mem_flatMap.2 ⟨c, hc, hx⟩), fun e he => ?_⟩
  obtain ⟨x, hx, hp⟩ := h.2 e he
  obtain ⟨c, hc, hxc⟩ := List.mem_flatMap.1 hx
  exact ⟨c, hc, x, hxc, hp⟩

example : SameProv (mkFragment ⟨.paragraph, .text ['a'], ⟨7, 3, some ['H'], [['H']], none, true, true, false⟩⟩ ['a'])
    ⟨.paragraph, .text ['a'], ⟨7, 3, some ['H'], [['H']], none, true, true, false⟩⟩ := ⟨rfl, rfl, rfl, rfl⟩

/-- invariant of the buffer used by the budget theorem -/
def BufOK (cfg : Config) (cnt : Counter) (st : St) : Prop :=
  st.buffer ≠ [] →
    st.bufferTokens = cnt.count (textOf st.buffer) ∧ st.bufferTokens ≤ cfg.maxTokens ∧
    (cnt.additive = false → st.bufferText = textOf st.buffer)

def ChunkOK (cfg : Config) (cnt : Counter) (c : Chunk) : Prop :=
  c.oversized = false → cnt.count c.text ≤ cfg.maxTokens

theorem oversizedChunks_ok (cfg : Config) (cnt : Counter) (e : Elem) :
    ∀ c ∈ oversizedChunks cfg cnt e, ChunkOK cfg cnt c := by
  unfold oversizedChunks
  split
  · intro c hc
    obtain ⟨f, _, rfl⟩ := List.mem_map.1 hc
    intro hov
    simp only [mkChunk, decide_eq_false_iff_not, Nat.not_lt] at hov
    simpa [Chunk.text, mkChunk, textOf, joinWith, mkFragment, Elem.display] using hov
  · intro c hc
    have : c = mkChunk cnt [e] (elemHeading cfg e) true := by simpa using hc
    rw [this]; intro h; simp [mkChunk] at h

/-- **Budget.**  A chunk that `chunk` does not flag as oversized fits the budget, measured by the
active counter on the text the chunk emits.  The only hypothesis is that a counter which DECLARES
itself additive across the element separator is so; a counter that declares nothing is measured
on the joined text and needs no hypothesis at all. -/
theorem C14_seq_budget (cfg : Config) (cnt : Counter) (els : List Elem)
    (hadd : cnt.additive = true → AdditiveNl cnt.count) :
    ∀ c ∈ chunk cfg cnt els, c.oversized = false → cnt.count c.text ≤ cfg.maxTokens := by
  have hflush : ∀ st, BufOK cfg cnt st → st.buffer ≠ [] →
      ChunkOK cfg cnt (mkChunk cnt st.buffer st.bufferHeading false) := by
    intro st hb hne _
    obtain ⟨h1, h2, _⟩ := hb hne
    simp only [Chunk.text, mkChunk]; omega
  have key := fold_inv cfg cnt
    (fun st _ => (∀ c ∈ st.chunks, ChunkOK cfg cnt c) ∧ BufOK cfg cnt st) ?_ ?_ els
  · exact finish_forall (ChunkOK cfg cnt) cnt _ key.1 (hflush _ key.2)
  · exact ⟨by simp [St.init], by intro h; simp [St.init] at h⟩
  · intro st pre e ⟨hc, hb⟩
    refine ⟨step_chunks_forall (ChunkOK cfg cnt) cfg cnt st e hc (hflush st hb)
      (oversizedChunks_ok cfg cnt e), ?_⟩
    rcases step_cases cfg cnt st e with ⟨l, hl, _, _, hj, h⟩ | ⟨_, h⟩ | ⟨hle, h⟩
    · rw [h]
      have hne : st.buffer ≠ [] := by intro h0; simp [h0] at hl
      obtain ⟨h1, h2, h3⟩ := hb hne
      intro _
      have htx := textOf_snoc st.buffer e hne
      cases ha : cnt.additive with
      | true =>
        have hA := hadd ha (textOf st.buffer) e.display
        simp only [mergedSt, joinedTokens, ha, if_true] at hj ⊢
        refine ⟨?_, hj, by intro h; cases h⟩
        rw [htx, hA, h1]
      | false =>
        have hbt := h3 ha
        simp only [mergedSt, joinedTokens, ha] at hj ⊢
        simp only [Bool.false_eq_true, if_false] at hj ⊢
        refine ⟨?_, hj, fun _ => ?_⟩
        · rw [htx, hbt]
        · rw [htx, hbt]
    · rw [h]; intro hne; simp [oversizedSt, flushIfAny_buffer] at hne
    · rw [h]; intro _
      refine ⟨by simp [startSt, textOf_single], by simpa [startSt] using hle, ?_⟩
      intro ha; simp [startSt, ha, textOf_single]

example : AdditiveNl (fun s => s.length - s.length) := by intro a b; simp

/-- **Token estimate.**  Every chunk is stamped with the active counter's measure of the text it
emits. -/
theorem C14_seq_token_estimate (cfg : Config) (cnt : Counter) (els : List Elem) :
    ∀ c ∈ chunk cfg cnt els, c.tokenEstimate = cnt.count c.text := by
  have hover : ∀ e, ∀ c ∈ oversizedChunks cfg cnt e, c.tokenEstimate = cnt.count c.text := by
    intro e c hc
    unfold oversizedChunks at hc
    split at hc
    · obtain ⟨f, _, rfl⟩ := List.mem_map.1 hc; rfl
    · have : c = mkChunk cnt [e] (elemHeading cfg e) true := by simpa using hc
      rw [this]; rfl
  have key := fold_inv cfg cnt
    (fun st _ => ∀ c ∈ st.chunks, c.tokenEstimate = cnt.count c.text) (by simp [St.init]) ?_ els
  · exact finish_forall _ cnt _ key (fun _ => rfl)
  · intro st pre e hc
    exact step_chunks_forall _ cfg cnt st e hc (fun _ => rfl) (hover e)

/-- invariant of the buffer used by the heading theorem -/
def BufHead (cfg : Config) (st : St) : Prop :=
  ∀ f r, st.buffer = f :: r → st.bufferHeading = elemHeading cfg f

def HeadOK (cfg : Config) (c : Chunk) : Prop :=
  c.elements ≠ [] ∧ c.heading = seqHeading cfg c

/-- **Heading (sequential).**  Every chunk is non-empty and carries the `parent_heading` of its
first element (`none` when heading propagation is off). -/
theorem C14_seq_heading (cfg : Config) (cnt : Counter) (els : List Elem) :
    ∀ c ∈ chunk cfg cnt els, c.elements ≠ [] ∧ c.heading = seqHeading cfg c := by
  have hflush : ∀ st, BufHead cfg st → st.buffer ≠ [] →
      HeadOK cfg (mkChunk cnt st.buffer st.bufferHeading false) := by
    intro st hb hne
    refine ⟨hne, ?_⟩
    cases hbuf : st.buffer with
    | nil => exact absurd hbuf hne
    | cons f r => simp [mkChunk, seqHeading, hb f r hbuf]
  have hover : ∀ e, ∀ c ∈ oversizedChunks cfg cnt e, HeadOK cfg c := by
    intro e c hc
    unfold oversizedChunks at hc
    split at hc
    · obtain ⟨f, _, rfl⟩ := List.mem_map.1 hc
      simp [HeadOK, mkChunk, seqHeading, elemHeading, mkFragment]
    · have : c = mkChunk cnt [e] (elemHeading cfg e) true := by simpa using hc
      rw [this]; simp [HeadOK, mkChunk, seqHeading]
  have key := fold_inv cfg cnt
    (fun st _ => (∀ c ∈ st.chunks, HeadOK cfg c) ∧ BufHead cfg st) ?_ ?_ els
  · exact finish_forall (HeadOK cfg) cnt _ key.1 (hflush _ key.2)
  · exact ⟨by simp [St.init], by intro f r h; simp [St.init] at h⟩
  · intro st pre e ⟨hc, hb⟩
    refine ⟨step_chunks_forall (HeadOK cfg) cfg cnt st e hc (hflush st hb) (hover e), ?_⟩
    rcases step_cases cfg cnt st e with ⟨l, hl, _, _, _, h⟩ | ⟨_, h⟩ | ⟨_, h⟩
    · rw [h]; intro f r hfr
      cases hbuf : st.buffer with
      | nil => simp [hbuf] at hl
      | cons f' r' =>
        have : f = f' := by simp [mergedSt, hbuf] at hfr; exact hfr.1.symm
        rw [this]; simpa [mergedSt] using hb f' r' hbuf
    · rw [h]; intro f r hfr; simp [oversizedSt, flushIfAny_buffer] at hfr
    · rw [h]; intro f r hfr
      have : f = e := by simp [startSt] at hfr; exact hfr.1.symm
      rw [this]; simp [startSt]

example : seqHeading ⟨5, true, true, false⟩
    ⟨[⟨.paragraph, .text ['x'], ⟨1, 0, some ['H'], [], none, false, false, false⟩⟩], some ['H'], false, 1⟩
    = some ['H'] := by decide

/-- **Determinism.**  The chunkers are functions of (configuration, counter values, elements):
two calls with equal arguments — in particular with counters that agree as functions — return
equal chunks.  (The correspondence harness additionally calls the real code twice per request.) -/
theorem C14_deterministic (cfg : Config) (c1 c2 : Counter) (els : List Elem)
    (hc : ∀ s, c1.count s = c2.count s) (ha : c1.additive = c2.additive) :
    chunk cfg c1 els = chunk cfg c2 els ∧ chunkWithGraph cfg c1 els = chunkWithGraph cfg c2 els := by
  have : c1 = c2 := by
    cases c1; cases c2; simp at ha hc ⊢; exact ⟨funext hc, ha⟩
  rw [this]; exact ⟨rfl, rfl⟩

example : ∀ s, wordProxy.count s = (⟨wordCount, true⟩ : Counter).count s := fun _ => rfl

/-! ### the crate's default counter satisfies the hypothesis of the budget theorem -/

theorem wordCountAux_append_ws (a b : Str) (sep : Char) (hs : isWs sep = true) (w : Bool) :
    wordCountAux w (a ++ sep :: b) = wordCountAux w a + wordCountAux false b := by
  induction a generalizing w with
  | nil => simp [wordCountAux, hs]
  | cons c r ih =>
    simp only [List.cons_append, wordCountAux]
    split
    · exact ih false
    · rw [ih true]; omega

/-- `WordProxyCounter` (`split_whitespace().count()`) is additive across ANY single white-space
separator — the claim `is_additive_over_whitespace_join() == true` of the crate is correct. -/
theorem C14_wordproxy_additive (a b : Str) (sep : Char) (hs : isWs sep = true) :
    wordCount (a ++ [sep] ++ b) = wordCount a + wordCount b := by
  unfold wordCount
  simpa using wordCountAux_append_ws a b sep hs false

example : isWs '\n' = true ∧ isWs ' ' = true := by decide

/-- The budget holds unconditionally for the default counter. -/
theorem C14_seq_budget_wordproxy (cfg : Config) (els : List Elem) :
    ∀ c ∈ chunk cfg wordProxy els, c.oversized = false → wordCount c.text ≤ cfg.maxTokens :=
  C14_seq_budget cfg wordProxy els (fun _ a b => C14_wordproxy_additive a b '\n' (by decide))

/-! ## `HybridChunker::chunk_with_graph` -/

/- FULL (false of the current code — see `C14_witness_graph_order`):
   theorem C14_graph_partition (cfg cnt els) :
       Covers ((chunkWithGraph cfg cnt els).flatMap (·.elements)) els
   What holds for ALL inputs is `C14_graph_no_loss` (every element exactly once; order within a
   section and among the titles is input order, but a section's late children are emitted with the
   section), and the in-order statement under `NoStale` (`C14_graph_partition_partial`).
   The budget statement `C14_graph_budget` is full since the repair of C14-F3; nothing is dropped
   since the repair of C14-F1 (old witnesses: `C14_witness_graph_drops`, `C14_witness_graph_sum`,
   stated about the pre-repair definitions in `Model/C14Old.lean`).
-/

theorem processSection_covers (cfg : Config) (cnt : Counter) (s : Sec) :
    Covers ((processSection cfg cnt s).flatMap (·.elements)) s.elems := by
  unfold processSection
  simp only
  split
  · simpa [mkChunk] using Covers.refl s.elems
  · have := C14_seq_partition cfg cnt s.elems
    simpa [List.flatMap_map, Function.comp_def, mkChunk] using this

theorem sections_covers (cfg : Config) (cnt : Counter) (els : List Elem) :
    Covers (((sections els).flatMap (processSection cfg cnt)).flatMap (·.elements))
      ((sections els).flatMap Sec.elems) := by
  rw [List.flatMap_assoc]
  exact covers_flatMap _ _ _ (fun s _ => processSection_covers cfg cnt s)

/-- **Nothing is lost, nothing is duplicated (graph) — holds in full.**  For ALL inputs the chunks
of `chunk_with_graph` cover a rearrangement of the input that keeps the preamble in place and
gathers, after it, each title followed by the elements of its section: every element's content
appears exactly once. -/
theorem C14_graph_no_loss (cfg : Config) (cnt : Counter) (els : List Elem) :
    ∃ els', els'.Perm els ∧ els' = preamble els ++ (sections els).flatMap Sec.elems ∧
      Covers ((chunkWithGraph cfg cnt els).flatMap (·.elements)) els' := by
  refine ⟨_, ?_, rfl, ?_⟩
  · have h := (sections_perm els).append_left (preamble els)
    rwa [preamble_append_after] at h
  · unfold chunkWithGraph
    rw [List.flatMap_append]
    exact Covers.append (C14_seq_partition cfg cnt (preamble els)) (sections_covers cfg cnt els)

example : (sections witnessDropInput).flatMap Sec.elems = afterPreamble witnessDropInput := by decide

/-- **Provenance (graph)** — in full: as for the sequential chunker. -/
theorem C14_graph_provenance (cfg : Config) (cnt : Counter) (els : List Elem) :
    (∀ c ∈ chunkWithGraph cfg cnt els, ∀ x ∈ c.elements, ∃ e ∈ els, SameProv x e) ∧
    (∀ e ∈ els, ∃ c ∈ chunkWithGraph cfg cnt els, ∃ x ∈ c.elements, SameProv x e) := by
  obtain ⟨els', hperm, _, hcov⟩ := C14_graph_no_loss cfg cnt els
  have h := hcov.provenance
  refine ⟨fun c hc x hx => ?_, fun e he => ?_⟩
  · obtain ⟨e, he, hp⟩ := h.1 x (List.mem_flatMap.2 ⟨c, hc, hx⟩)
    exact ⟨e, hperm.mem_iff.1 he, hp⟩
  · obtain ⟨x, hx, hp⟩ := h.2 e (hperm.mem_iff.2 he)
    obtain ⟨c, hc, hxc⟩ := List.mem_flatMap.1 hx
    exact ⟨c, hc, x, hxc, hp⟩

/-- **Partition (graph), partial.**  When no non-title element names a title that is not the most
recent one (`NoStale`: it names the most recent title, or no earlier title, or nothing — in
particular the `WellSectioned` lists `partition()` produces), the graph chunker's chunks contain
every element's content exactly once and IN ORDER. -/
theorem C14_graph_partition_partial (cfg : Config) (cnt : Counter) (els : List Elem)
    (hw : NoStale els) :
    Covers ((chunkWithGraph cfg cnt els).flatMap (·.elements)) els := by
  unfold chunkWithGraph
  rw [List.flatMap_append]
  have h1 := C14_seq_partition cfg cnt (preamble els)
  have h2 := sections_covers cfg cnt els
  rw [sections_flatten els hw] at h2
  have := Covers.append h1 h2
  rwa [preamble_append_after] at this

/-- … in particular for well-sectioned input. -/
theorem C14_graph_partition_wellsectioned (cfg : Config) (cnt : Counter) (els : List Elem)
    (hw : WellSectioned els) :
    Covers ((chunkWithGraph cfg cnt els).flatMap (·.elements)) els :=
  C14_graph_partition_partial cfg cnt els (wellSec_none_noStale els hw)

example : WellSectioned
    [⟨.paragraph, .text ['p'], ⟨1, 0, none, [], none, false, false, false⟩⟩,
     ⟨.title, .text ['H'], ⟨2, 0, some ['H'], [], none, false, false, false⟩⟩,
     ⟨.paragraph, .text ['q'], ⟨3, 0, some ['H'], [], none, false, false, false⟩⟩] := by
  unfold WellSectioned; decide

example : NoStale witnessDropInput ∧ ¬ WellSectioned witnessDropInput := by
  unfold NoStale WellSectioned; decide

/-- **Budget (graph) — holds in full** (same hypothesis as the sequential chunker: a counter that
declares itself additive is additive across the element separator).  The whole-section chunk is
approved on the measure of the text it emits. -/
theorem C14_graph_budget (cfg : Config) (cnt : Counter) (els : List Elem)
    (hadd : cnt.additive = true → AdditiveNl cnt.count) :
    ∀ c ∈ chunkWithGraph cfg cnt els, c.oversized = false → cnt.count c.text ≤ cfg.maxTokens := by
  intro c hc
  unfold chunkWithGraph at hc
  rcases List.mem_append.1 hc with h | h
  · exact C14_seq_budget cfg cnt _ hadd c h
  · obtain ⟨s, _, hcs⟩ := List.mem_flatMap.1 h
    unfold processSection at hcs
    simp only at hcs
    split at hcs
    · rename_i hle
      have : c = mkChunk cnt s.elems (titleHeadingOf s.title) false := List.mem_singleton.1 hcs
      rw [this]; intro _
      simpa [Chunk.text, mkChunk] using hle
    · obtain ⟨c0, hc0, rfl⟩ := List.mem_map.1 hcs
      exact C14_seq_budget cfg cnt _ hadd c0 hc0

/-- non-vacuity: a counter that is NOT additive (and says so) satisfies the hypothesis -/
example : (⟨c3Count, false⟩ : Counter).additive = true → AdditiveNl c3Count := by intro h; cases h

/-- **Token estimate (graph)** — holds in full. -/
theorem C14_graph_token_estimate (cfg : Config) (cnt : Counter) (els : List Elem) :
    ∀ c ∈ chunkWithGraph cfg cnt els, c.tokenEstimate = cnt.count c.text := by
  intro c hc
  unfold chunkWithGraph at hc
  rcases List.mem_append.1 hc with h | h
  · exact C14_seq_token_estimate cfg cnt _ c h
  · obtain ⟨s, _, hcs⟩ := List.mem_flatMap.1 h
    unfold processSection at hcs
    simp only at hcs
    split at hcs
    · have : c = mkChunk cnt s.elems (titleHeadingOf s.title) false := List.mem_singleton.1 hcs
      rw [this]; rfl
    · obtain ⟨c0, hc0, rfl⟩ := List.mem_map.1 hcs
      exact C14_seq_token_estimate cfg cnt _ c0 hc0

/-- **Heading (graph)** — holds in full: a chunk comes either from the preamble (sequential rule)
or from the section of a title `t`, and then carries `t`'s heading (`t.parent_heading`, else
`t.text`) and is non-empty. -/
theorem C14_graph_heading (cfg : Config) (cnt : Counter) (els : List Elem) :
    ∀ c ∈ chunkWithGraph cfg cnt els,
      (c ∈ chunk cfg cnt (preamble els) ∧ c.elements ≠ [] ∧ c.heading = seqHeading cfg c) ∨
      (∃ s ∈ sections els, c ∈ processSection cfg cnt s ∧ c.elements ≠ [] ∧
        c.heading = titleHeading s.title) := by
  intro c hc
  unfold chunkWithGraph at hc
  rcases List.mem_append.1 hc with h | h
  · exact Or.inl ⟨h, C14_seq_heading cfg cnt _ c h⟩
  · obtain ⟨s, hs, hcs⟩ := List.mem_flatMap.1 h
    refine Or.inr ⟨s, hs, hcs, ?_⟩
    unfold processSection at hcs
    simp only at hcs
    split at hcs
    · have : c = mkChunk cnt s.elems (titleHeadingOf s.title) false := List.mem_singleton.1 hcs
      rw [this]; exact ⟨by simp [mkChunk, Sec.elems], rfl⟩
    · obtain ⟨c0, hc0, rfl⟩ := List.mem_map.1 hcs
      exact ⟨(C14_seq_heading cfg cnt _ c0 hc0).1, rfl⟩

/-! ### `ElementGraph::build`, literally (`Model/C14Graph.lean`) -/

/-- The incrementally filled `active_title_for_heading` answers "the most recent title so far
with this text": inserting the titles in order and looking a text up finds the LAST inserted
entry with that text. -/
theorem C14_active_map_most_recent (titles : List (Str × Nat)) (k : Str) :
    (titles.foldl (fun m p => TitleMap.insert m p.1 p.2) []).get k =
      (titles.reverse.find? fun p => decide (p.1 = k)).map (·.2) := by
  have : ∀ m : TitleMap, titles.foldl (fun m p => TitleMap.insert m p.1 p.2) m = titles.reverse ++ m := by
    induction titles with
    | nil => intro m; rfl
    | cons p r ih => intro m; simp [List.foldl_cons, ih, TitleMap.insert]
  rw [this []]; simp [TitleMap.get]

example : (TitleMap.insert (TitleMap.insert [] ['N'] 0) ['N'] 2).get ['N'] = some 2 := by decide

/-- **`ElementGraph::build`: parent links** (the literal two-map transcription).  Whenever the graph
gives element `i` the parent `t`, then `i` is a non-title element that names a heading text `h`,
`t < i` is a Title with exactly that text, and no title with that text lies between them — the
NEAREST PRECEDING title with the element's `parent_heading`, as the module documentation says.
(The seeded change "consult `latest_title_for_heading`" breaks `t < i`: `C14_witness_latest_map`.) -/
theorem C14_graph_build_parent (els : List Elem) (i t : Nat)
    (h : (Graph.build els).parentOf i = some t) :
    t < i ∧ ∃ e hd, els[i]? = some e ∧ e.isTitle = false ∧ e.md.parentHeading = some hd ∧
      TitleAt els t hd ∧ ∀ t', t < t' → t' < i → ¬ TitleAt els t' hd := by
  have inv0 : P2Inv els 0 (p2init els) := by
    refine ⟨fun h t hg => ?_, fun h _ t' ht' => by omega, fun i t hp => ?_⟩
    · simp [TitleMap.get, p2init] at hg
    · simp only [p2init] at hp
      rw [List.getElem?_replicate] at hp
      split at hp <;> simp at hp
  have inv := p2_fold els 0 els _ (fun j e hj => by simpa using hj) inv0
  have hp : ((indexedFrom 0 els).foldl buildPass2Step (p2init els)).parent[i]? = some (some t) := by
    rw [← build_parent_eq]
    simp only [Graph.parentOf] at h
    rw [List.getD_eq_getElem?_getD] at h
    cases hq : (Graph.build els).parent[i]? with
    | none => simp [hq] at h
    | some v => simp [hq] at h; rw [h]
  obtain ⟨_, h2, h3⟩ := inv.par i t hp
  exact ⟨h2, h3⟩

example : (Graph.build witnessLatest).parentOf 1 = some 0 ∧
    (Graph.buildLatest witnessLatest).parentOf 1 = some 2 := by decide


/-! ### kernel-checked witnesses -/

/-- `[Title A, Title B, P(A), P(B)]`: children are gathered per title, so the paragraph of `A`
is emitted before title `B` — input order is not preserved (C14-F2, open). -/
def witnessOrder : List Elem :=
  [⟨.title, .text ['A'], md0 1 none⟩,
   ⟨.title, .text ['B'], md0 2 none⟩,
   ⟨.paragraph, .text ['x'], md0 3 (some ['A'])⟩,
   ⟨.paragraph, .text ['y'], md0 4 (some ['B'])⟩]

theorem C14_witness_graph_order :
    ¬ Covers ((chunkWithGraph cfg100 wordProxy witnessOrder).flatMap (·.elements)) witnessOrder := by
  have h : (chunkWithGraph cfg100 wordProxy witnessOrder).flatMap (·.elements) =
      [⟨.title, .text ['A'], md0 1 none⟩, ⟨.paragraph, .text ['x'], md0 3 (some ['A'])⟩,
       ⟨.title, .text ['B'], md0 2 none⟩, ⟨.paragraph, .text ['y'], md0 4 (some ['B'])⟩] := by
    decide
  rw [h]
  intro hc
  obtain ⟨o1, ho1, hc1⟩ := Covers.cons_unsplittable (by decide) hc
  cases ho1
  obtain ⟨o2, ho2, _⟩ := Covers.cons_unsplittable (by decide) hc1
  cases ho2

/-- REGRESSION (C14-F1, repaired): before the repair `[Title H1, P(H1), P(no heading), P("Gone")]`
lost the two paragraphs that belong to no section; the repaired pass keeps them, in order. -/
theorem C14_witness_graph_drops :
    (chunkWithGraphOld cfg100 wordProxy witnessDropInput).flatMap (·.elements) = witnessDropInput.take 2 ∧
    ¬ Covers ((chunkWithGraphOld cfg100 wordProxy witnessDropInput).flatMap (·.elements)) witnessDropInput ∧
    (chunkWithGraph cfg100 wordProxy witnessDropInput).flatMap (·.elements) = witnessDropInput := by
  have h : (chunkWithGraphOld cfg100 wordProxy witnessDropInput).flatMap (·.elements) =
      witnessDropInput.take 2 := by decide
  refine ⟨h, fun hc => ?_, by decide⟩
  have := hc.length_le
  rw [h] at this
  simp [witnessDropInput] at this

/-- REGRESSION (C14-F3, repaired): `[Title "abc", P "xyz"]`, counter `⌈chars/3⌉` (declares itself
non-additive), budget 2: the SUM 1 + 1 ≤ 2 approved a chunk whose emitted text "abc\nxyz" costs 3;
the repaired approval measures the emitted text and splits the section. -/
def witnessSum : List Elem :=
  [⟨.title, .text ['a', 'b', 'c'], md0 1 none⟩,
   ⟨.paragraph, .text ['x', 'y', 'z'], md0 2 (some ['a', 'b', 'c'])⟩]

theorem C14_witness_graph_sum :
    (∃ c ∈ chunkWithGraphOld ⟨2, true, true, false⟩ ⟨c3Count, false⟩ witnessSum,
      c.oversized = false ∧ c3Count c.text = 3 ∧ c.tokenEstimate = 3) ∧
    (∀ c ∈ chunkWithGraph ⟨2, true, true, false⟩ ⟨c3Count, false⟩ witnessSum,
      c3Count c.text ≤ 2) := by
  decide

/-- REGRESSION (seeded): a second pass that consults `latest_title_for_heading` (the LAST title
with that text in the whole document) attaches `P("N")` of the first "N" section to the later
title "N": the paragraph is emitted after the second title. -/
theorem C14_witness_latest_map :
    (chunkWithGraphLit cfg100 wordProxy witnessLatest).flatMap (·.elements) = witnessLatest ∧
    (chunkWithGraphOn cfg100 wordProxy witnessLatest (Graph.buildLatest witnessLatest)).flatMap (·.elements)
      ≠ witnessLatest ∧
    chunkWithGraphLit cfg100 wordProxy witnessLatest = chunkWithGraph cfg100 wordProxy witnessLatest := by
  decide

/-- Observation about `chunk` (not a violation of the heading rule above): adjacent inline
elements merge whatever their `parent_heading`, so without a title between them a chunk can mix
two sections under the first one's heading.  `partition()` always emits the title in between. -/
theorem C14_witness_seq_mixed_sections :
    chunk cfg100 wordProxy
      [⟨.paragraph, .text ['o', 'n', 'e'], md0 1 (some ['H', '1'])⟩,
       ⟨.paragraph, .text ['t', 'w', 'o'], md0 2 (some ['H', '2'])⟩]
    = [⟨[⟨.paragraph, .text ['o', 'n', 'e'], md0 1 (some ['H', '1'])⟩,
         ⟨.paragraph, .text ['t', 'w', 'o'], md0 2 (some ['H', '2'])⟩], some ['H', '1'], false, 2⟩] := by
  decide

end OxiVerif.C14
