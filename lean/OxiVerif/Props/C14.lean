import OxiVerif.Lemmas.C14
set_option linter.unusedSimpArgs false
set_option linter.unusedVariables false
/-!
# C14 — RAG chunking is a faithful, budget-respecting partition

Property theorems only (helpers in `Lemmas/C14.lean`, model in `Model/C14.lean`, spec-side
definitions in `Model/C14Spec.lean`).  Every statement quantifies over ALL element lists, ALL
configurations (`max_tokens`, `merge_adjacent`, `propagate_headings`, merge policy) and ALL token
counters (`Counter.count : Str → Nat` arbitrary, `Counter.additive` the flag the counter declares
about itself); nothing is bounded.

* `chunk` (sequential): the property holds in full — `C14_seq_*`.
* `chunk_with_graph`: the full statement is FALSE of the current code (three kernel-checked
  witnesses `C14_witness_graph_*`, reproduced on the real code by `corpus/C14/*.req`); what holds
  is proved as `C14_graph_*_partial` under explicit hypotheses.
-/
namespace OxiVerif.C14

/-! ## `HybridChunker::chunk` — full statements -/

/-- **Partition.**  The chunks of `chunk` contain every element's content exactly once and in
order: unchanged, or (splittable oversized elements only) as a non-empty run of fragments with
the element's provenance whose concatenation is the element's text up to white space. -/
theorem C14_seq_partition (cfg : Config) (cnt : Counter) (els : List Elem) :
    Covers ((chunk cfg cnt els).flatMap (·.elements)) els := by
  unfold chunk
  rw [finish_elements]
  refine fold_inv cfg cnt (fun st pre => Covers st.emitted pre) ?_ ?_ els
  · exact Covers.nil
  · intro st pre e h
    obtain ⟨o, ho, hc⟩ := step_emitted cfg cnt st e
    rw [ho]
    exact Covers.append h hc

example : Covers [mkFragment ⟨.paragraph, .text ['a', '.', ' ', 'b'], ⟨1, 0, none, [], none, false, false, false⟩⟩ ['a', '.'],
                  mkFragment ⟨.paragraph, .text ['a', '.', ' ', 'b'], ⟨1, 0, none, [], none, false, false, false⟩⟩ ['b']]
                 [⟨.paragraph, .text ['a', '.', ' ', 'b'], ⟨1, 0, none, [], none, false, false, false⟩⟩] :=
  Covers.split _ [['a', '.'], ['b']] (by decide) (by decide) (by decide) Covers.nil

/-- invariant of the buffer used by the budget theorem -/
def BufOK (cfg : Config) (cnt : Counter) (st : St) : Prop :=
  st.buffer ≠ [] →
    st.bufferTokens = cnt.count (textOf st.buffer) ∧ st.bufferTokens ≤ cfg.maxTokens ∧
    (cnt.additive = false → st.bufferText = textOf st.buffer)

def ChunkOK (cfg : Config) (cnt : Counter) (c : Chunk) : Prop :=
  c.oversized = false → cnt.count c.text ≤ cfg.maxTokens

theorem oversizedChunks_ok (cfg : Config) (cnt : Counter) (e : Elem) :
    ∀ c ∈ oversizedChunks cfg cnt e, ChunkOK cfg cnt c := by
  unfold oversizedChunks
  split
  · intro c hc
    obtain ⟨f, _, rfl⟩ := List.mem_map.1 hc
    intro hov
    simp only [mkChunk, decide_eq_false_iff_not, Nat.not_lt] at hov
    simpa [Chunk.text, mkChunk, textOf, joinWith, mkFragment, Elem.display] using hov
  · intro c hc
    have : c = mkChunk cnt [e] (elemHeading cfg e) true := by simpa using hc
    rw [this]; intro h; simp [mkChunk] at h

/-- **Budget.**  A chunk that `chunk` does not flag as oversized fits the budget, measured by the
active counter on the text the chunk emits.  The only hypothesis is that a counter which DECLARES
itself additive across the element separator is so; a counter that declares nothing is measured
on the joined text and needs no hypothesis at all. -/
theorem C14_seq_budget (cfg : Config) (cnt : Counter) (els : List Elem)
    (hadd : cnt.additive = true → AdditiveNl cnt.count) :
    ∀ c ∈ chunk cfg cnt els, c.oversized = false → cnt.count c.text ≤ cfg.maxTokens := by
  have hflush : ∀ st, BufOK cfg cnt st → st.buffer ≠ [] →
      ChunkOK cfg cnt (mkChunk cnt st.buffer st.bufferHeading false) := by
    intro st hb hne _
    obtain ⟨h1, h2, _⟩ := hb hne
    simp only [Chunk.text, mkChunk]; omega
  have key := fold_inv cfg cnt
    (fun st _ => (∀ c ∈ st.chunks, ChunkOK cfg cnt c) ∧ BufOK cfg cnt st) ?_ ?_ els
  · exact finish_forall (ChunkOK cfg cnt) cnt _ key.1 (hflush _ key.2)
  · exact ⟨by simp [St.init], by intro h; simp [St.init] at h⟩
  · intro st pre e ⟨hc, hb⟩
    refine ⟨step_chunks_forall (ChunkOK cfg cnt) cfg cnt st e hc (hflush st hb)
      (oversizedChunks_ok cfg cnt e), ?_⟩
    rcases step_cases cfg cnt st e with ⟨l, hl, _, _, hj, h⟩ | ⟨_, h⟩ | ⟨hle, h⟩
    · rw [h]
      have hne : st.buffer ≠ [] := by intro h0; simp [h0] at hl
      obtain ⟨h1, h2, h3⟩ := hb hne
      intro _
      have htx := textOf_snoc st.buffer e hne
      cases ha : cnt.additive with
      | true =>
        have hA := hadd ha (textOf st.buffer) e.display
        simp only [mergedSt, joinedTokens, ha, if_true] at hj ⊢
        refine ⟨?_, hj, by intro h; cases h⟩
        rw [htx, hA, h1]
      | false =>
        have hbt := h3 ha
        simp only [mergedSt, joinedTokens, ha] at hj ⊢
        simp only [Bool.false_eq_true, if_false] at hj ⊢
        refine ⟨?_, hj, fun _ => ?_⟩
        · rw [htx, hbt]
        · rw [htx, hbt]
    · rw [h]; intro hne; simp [oversizedSt, flushIfAny_buffer] at hne
    · rw [h]; intro _
      refine ⟨by simp [startSt, textOf_single], by simpa [startSt] using hle, ?_⟩
      intro ha; simp [startSt, ha, textOf_single]

example : AdditiveNl (fun s => s.length - s.length) := by intro a b; simp

/-- **Token estimate.**  Every chunk is stamped with the active counter's measure of the text it
emits. -/
theorem C14_seq_token_estimate (cfg : Config) (cnt : Counter) (els : List Elem) :
    ∀ c ∈ chunk cfg cnt els, c.tokenEstimate = cnt.count c.text := by
  have hover : ∀ e, ∀ c ∈ oversizedChunks cfg cnt e, c.tokenEstimate = cnt.count c.text := by
    intro e c hc
    unfold oversizedChunks at hc
    split at hc
    · obtain ⟨f, _, rfl⟩ := List.mem_map.1 hc; rfl
    · have : c = mkChunk cnt [e] (elemHeading cfg e) true := by simpa using hc
      rw [this]; rfl
  have key := fold_inv cfg cnt
    (fun st _ => ∀ c ∈ st.chunks, c.tokenEstimate = cnt.count c.text) (by simp [St.init]) ?_ els
  · exact finish_forall _ cnt _ key (fun _ => rfl)
  · intro st pre e hc
    exact step_chunks_forall _ cfg cnt st e hc (fun _ => rfl) (hover e)

/-- invariant of the buffer used by the heading theorem -/
def BufHead (cfg : Config) (st : St) : Prop :=
  ∀ f r, st.buffer = f :: r → st.bufferHeading = elemHeading cfg f

def HeadOK (cfg : Config) (c : Chunk) : Prop :=
  c.elements ≠ [] ∧ c.heading = seqHeading cfg c

/-- **Heading (sequential).**  Every chunk is non-empty and carries the `parent_heading` of its
first element (`none` when heading propagation is off). -/
theorem C14_seq_heading (cfg : Config) (cnt : Counter) (els : List Elem) :
    ∀ c ∈ chunk cfg cnt els, c.elements ≠ [] ∧ c.heading = seqHeading cfg c := by
  have hflush : ∀ st, BufHead cfg st → st.buffer ≠ [] →
      HeadOK cfg (mkChunk cnt st.buffer st.bufferHeading false) := by
    intro st hb hne
    refine ⟨hne, ?_⟩
    cases hbuf : st.buffer with
    | nil => exact absurd hbuf hne
    | cons f r => simp [mkChunk, seqHeading, hb f r hbuf]
  have hover : ∀ e, ∀ c ∈ oversizedChunks cfg cnt e, HeadOK cfg c := by
    intro e c hc
    unfold oversizedChunks at hc
    split at hc
    · obtain ⟨f, _, rfl⟩ := List.mem_map.1 hc
      simp [HeadOK, mkChunk, seqHeading, elemHeading, mkFragment]
    · have : c = mkChunk cnt [e] (elemHeading cfg e) true := by simpa using hc
      rw [this]; simp [HeadOK, mkChunk, seqHeading]
  have key := fold_inv cfg cnt
    (fun st _ => (∀ c ∈ st.chunks, HeadOK cfg c) ∧ BufHead cfg st) ?_ ?_ els
  · exact finish_forall (HeadOK cfg) cnt _ key.1 (hflush _ key.2)
  · exact ⟨by simp [St.init], by intro f r h; simp [St.init] at h⟩
  · intro st pre e ⟨hc, hb⟩
    refine ⟨step_chunks_forall (HeadOK cfg) cfg cnt st e hc (hflush st hb) (hover e), ?_⟩
    rcases step_cases cfg cnt st e with ⟨l, hl, _, _, _, h⟩ | ⟨_, h⟩ | ⟨_, h⟩
    · rw [h]; intro f r hfr
      cases hbuf : st.buffer with
      | nil => simp [hbuf] at hl
      | cons f' r' =>
        have : f = f' := by simp [mergedSt, hbuf] at hfr; exact hfr.1.symm
        rw [this]; simpa [mergedSt] using hb f' r' hbuf
    · rw [h]; intro f r hfr; simp [oversizedSt, flushIfAny_buffer] at hfr
    · rw [h]; intro f r hfr
      have : f = e := by simp [startSt] at hfr; exact hfr.1.symm
      rw [this]; simp [startSt]

example : seqHeading ⟨5, true, true, false⟩
    ⟨[⟨.paragraph, .text ['x'], ⟨1, 0, some ['H'], [], none, false, false, false⟩⟩], some ['H'], false, 1⟩
    = some ['H'] := by decide

/-- **Determinism.**  The chunkers are functions of (configuration, counter values, elements):
two calls with equal arguments — in particular with counters that agree as functions — return
equal chunks.  (The correspondence harness additionally calls the real code twice per request.) -/
theorem C14_deterministic (cfg : Config) (c1 c2 : Counter) (els : List Elem)
    (hc : ∀ s, c1.count s = c2.count s) (ha : c1.additive = c2.additive) :
    chunk cfg c1 els = chunk cfg c2 els ∧ chunkWithGraph cfg c1 els = chunkWithGraph cfg c2 els := by
  have : c1 = c2 := by
    cases c1; cases c2; simp at ha hc ⊢; exact ⟨funext hc, ha⟩
  rw [this]; exact ⟨rfl, rfl⟩

example : ∀ s, wordProxy.count s = (⟨wordCount, true⟩ : Counter).count s := fun _ => rfl

/-! ### the crate's default counter satisfies the hypothesis of the budget theorem -/

theorem wordCountAux_append_ws (a b : Str) (sep : Char) (hs : isWs sep = true) (w : Bool) :
    wordCountAux w (a ++ sep :: b) = wordCountAux w a + wordCountAux false b := by
  induction a generalizing w with
  | nil => simp [wordCountAux, hs]
  | cons c r ih =>
    simp only [List.cons_append, wordCountAux]
    split
    · exact ih false
    · rw [ih true]; omega

/-- `WordProxyCounter` (`split_whitespace().count()`) is additive across ANY single white-space
separator — the claim `is_additive_over_whitespace_join() == true` of the crate is correct. -/
theorem C14_wordproxy_additive (a b : Str) (sep : Char) (hs : isWs sep = true) :
    wordCount (a ++ [sep] ++ b) = wordCount a + wordCount b := by
  unfold wordCount
  simpa using wordCountAux_append_ws a b sep hs false

example : isWs '\n' = true ∧ isWs ' ' = true := by decide

/-- The budget holds unconditionally for the default counter. -/
theorem C14_seq_budget_wordproxy (cfg : Config) (els : List Elem) :
    ∀ c ∈ chunk cfg wordProxy els, c.oversized = false → wordCount c.text ≤ cfg.maxTokens :=
  C14_seq_budget cfg wordProxy els (fun _ a b => C14_wordproxy_additive a b '\n' (by decide))

end OxiVerif.C14
