import OxiVerif.Lemmas.C05
import OxiVerif.Model.C05
set_option linter.unusedSimpArgs false
set_option linter.unusedVariables false
/-!
# C05 — encryption round-trips for every strength, configuration and password

Theorems about the model of the writer's encryptor, the reader's decryptor, the trailer and the
authentication of the dictionary the writer creates.  Hash functions are uninterpreted, RC4 is
concrete, AES entered through the hypothesis `AesOK`, now the theorem `aesOK` (every key schedule of the FIPS-197
transcription gives a mutually inverse pair of block functions — proved in `Lemmas/C23Aes.lean`).

The unchanged tree violates the full statement in three ways; each has its FULL statement in a
comment, a `_partial` theorem and a kernel-checked witness:
  F1  (repaired) `use_xref_streams`: the trailer dictionary had neither /Encrypt nor /ID
  F2  strings under the dictionary keys ID, O, U, P, Perms, Encrypt, Length, Filter, DecodeParms
      are written in clear but decrypted by the reader
  F3  (repaired) a stream without /Filter used to get `/Filter /Crypt`, which the reader cannot decode
"Any other password is refused" is not a theorem (it is a statement about hash collisions);
the exact acceptance condition is Algorithm 6 (`C23_unlock_user_is_alg6`).
-/
namespace OxiVerif.C05
open OxiVerif.Crypto OxiVerif.C23

/-! object trees -/
mutual
/-- no string anywhere below -/
def strFree : Obj → Bool
  | .str _ => false
  | .arr l => strFreeList l
  | .dict l => strFreeEntries l
  | _ => true
def strFreeList : List Obj → Bool
  | [] => true
  | o :: r => strFree o && strFreeList r
def strFreeEntries : List (String × Obj) → Bool
  | [] => true
  | (_, v) :: r => strFree v && strFreeEntries r
end

mutual
/-- no string sits (at any depth) under a dictionary key the writer's encryptor skips -/
def okObj : Obj → Bool
  | .arr l => okList l
  | .dict l => okEntries l
  | _ => true
def okList : List Obj → Bool
  | [] => true
  | o :: r => okObj o && okList r
def okEntries : List (String × Obj) → Bool
  | [] => true
  | (k, v) :: r => (if skipKey k then strFree v else okObj v) && okEntries r
end

mutual
theorem decrypt_strFree (dec : Bytes → Bytes) : ∀ o, strFree o = true → decryptObj dec o = o
  | .str _, h => by simp [strFree] at h
  | .arr l, h => by simp only [decryptObj]; rw [decList_strFree dec l (by simpa [strFree] using h)]
  | .dict l, h => by simp only [decryptObj]; rw [decEntries_strFree dec l (by simpa [strFree] using h)]
  | .null, _ => rfl
  | .bool _, _ => rfl
  | .num _, _ => rfl
  | .name _, _ => rfl
  | .ref _ _, _ => rfl
theorem decList_strFree (dec : Bytes → Bytes) : ∀ l, strFreeList l = true → decryptObj.decList dec l = l
  | [], _ => rfl
  | o :: r, h => by
    simp only [strFreeList, Bool.and_eq_true] at h
    simp only [decryptObj.decList, decrypt_strFree dec o h.1, decList_strFree dec r h.2]
theorem decEntries_strFree (dec : Bytes → Bytes) : ∀ l, strFreeEntries l = true → decryptObj.decEntries dec l = l
  | [], _ => rfl
  | (k, v) :: r, h => by
    simp only [strFreeEntries, Bool.and_eq_true] at h
    simp only [decryptObj.decEntries, decrypt_strFree dec v h.1, decEntries_strFree dec r h.2]
end

mutual
theorem obj_roundtrip (enc dec : Bytes → Bytes) (hc : ∀ b, dec (enc b) = b) :
    ∀ o, okObj o = true → decryptObj dec (encryptObj enc o) = o
  | .str b, _ => by simp [encryptObj, decryptObj, hc]
  | .arr l, h => by
    simp only [encryptObj, decryptObj]; rw [list_roundtrip enc dec hc l (by simpa [okObj] using h)]
  | .dict l, h => by
    simp only [encryptObj, decryptObj]; rw [entries_roundtrip enc dec hc l (by simpa [okObj] using h)]
  | .null, _ => rfl
  | .bool _, _ => rfl
  | .num _, _ => rfl
  | .name _, _ => rfl
  | .ref _ _, _ => rfl
theorem list_roundtrip (enc dec : Bytes → Bytes) (hc : ∀ b, dec (enc b) = b) :
    ∀ l, okList l = true → decryptObj.decList dec (encryptObj.encList enc l) = l
  | [], _ => rfl
  | o :: r, h => by
    simp only [okList, Bool.and_eq_true] at h
    simp only [encryptObj.encList, decryptObj.decList, obj_roundtrip enc dec hc o h.1,
      list_roundtrip enc dec hc r h.2]
theorem entries_roundtrip (enc dec : Bytes → Bytes) (hc : ∀ b, dec (enc b) = b) :
    ∀ l, okEntries l = true → decryptObj.decEntries dec (encryptObj.encEntries enc l) = l
  | [], _ => rfl
  | (k, v) :: r, h => by
    simp only [okEntries, Bool.and_eq_true] at h
    simp only [encryptObj.encEntries, decryptObj.decEntries, entries_roundtrip enc dec hc r h.2]
    by_cases hk : skipKey k = true
    · simp only [hk, if_true] at h ⊢
      rw [decrypt_strFree dec v h.1]
    · have hk' : skipKey k = false := by simpa using hk
      simp only [hk', Bool.false_eq_true, if_false] at h ⊢
      rw [obj_roundtrip enc dec hc v h.1]
end

/-! ## Object trees

FULL: ∀ enc dec o, (∀ b, dec (enc b) = b) → decryptObj dec (encryptObj enc o) = o
-/

/-- Every object tree in which no string sits under a skipped dictionary key is read back
exactly (structural induction; arrays and dictionaries nested to any depth). -/
theorem C05_object_roundtrip_partial (enc dec : Bytes → Bytes) (hc : ∀ b, dec (enc b) = b)
    (o : Obj) (h : okObj o = true) : decryptObj dec (encryptObj enc o) = o :=
  obj_roundtrip enc dec hc o h

example : okObj (.dict [("Title", .str [1, 2]), ("Kids", .arr [.dict [("T", .str [3])], .ref 4 0]),
    ("P", .ref 2 0)]) = true := by decide

/-- F2 witness: a string under `/ID` (e.g. a structure element identifier) comes back changed,
for a cipher pair that does round-trip. -/
theorem C05_witness_skipped_key :
    ∃ (enc dec : Bytes → Bytes), (∀ b, dec (enc b) = b) ∧
      decryptObj dec (encryptObj enc (.dict [("ID", .str [0x63])])) ≠ .dict [("ID", .str [0x63])] := by
  refine ⟨fun b => b.map (· ^^^ 1), fun b => b.map (· ^^^ 1), ?_, ?_⟩
  · intro b
    simp only [List.map_map]
    conv => rhs; rw [← List.map_id b]
    apply List.map_congr_left
    intro a _
    exact xor_cancel a 1
  · simp [encryptObj, encryptObj.encEntries, decryptObj, decryptObj.decEntries, skipKey]
    decide

/-! ## Streams -/

theorem removeKey_setKey (k : String) (v : Obj) : ∀ d, lookup k d = none → removeKey k (setKey k v d) = d
  | [], _ => by simp [setKey, removeKey]
  | (k', v') :: r, h => by
    simp only [lookup] at h
    by_cases hk : k = k'
    · simp [hk] at h
    · simp only [hk, if_false] at h
      simp [setKey, removeKey, hk, removeKey_setKey k v r h]

theorem lookup_setKey (k : String) (v : Obj) : ∀ d, lookup k (setKey k v d) = some v
  | [] => by simp [setKey, lookup]
  | (k', v') :: r => by
    by_cases hk : k = k'
    · simp [setKey, lookup, hk]
    · simp [setKey, lookup, hk, lookup_setKey k v r]

theorem setKey_setKey_back (k : String) (v w : Obj) : ∀ d, lookup k d = some w → setKey k w (setKey k v d) = d
  | [], h => by simp [lookup] at h
  | (k', v') :: r, h => by
    simp only [lookup] at h
    by_cases hk : k = k'
    · simp only [hk, if_true, Option.some.injEq] at h
      simp [setKey, hk, h]
    · simp only [hk, if_false] at h
      simp [setKey, hk, setKey_setKey_back k v w r h]

theorem filter_notCrypt (l : List Obj) (h : hasCrypt (some (.arr l)) = false) :
    l.filter notCryptName = l := by
  induction l with
  | nil => rfl
  | cons o r ih =>
    simp only [hasCrypt, List.any_cons, Bool.or_eq_false_iff] at h ih
    have ho : notCryptName o = true := by
      cases o <;> simp_all [notCryptName]
    simp [List.filter, ho, ih h.2]

/-- what `write_object` puts into the file for a stream that does not name the Crypt filter:
the dictionary as authored, the data encrypted -/
theorem writeStm_eq (enc : Bytes → Bytes) (em : Bool) (s : Stm)
    (hc : hasCrypt (lookup "Filter" s.dict) = false) (he : lookup "Filter" s.dict ≠ some (.arr []))
    (h : shouldEncryptStream em s = true) : writeStm enc em s = ⟨s.dict, enc s.data⟩ := by
  unfold writeStm encryptStm
  simp only [hc, Bool.false_eq_true, if_false, h, Bool.not_true]
  cases hf : lookup "Filter" s.dict with
  | none =>
    simp only [stripCrypt, lookup_setKey, if_true]
    rw [removeKey_setKey _ _ _ hf]
  | some f =>
    cases f with
    | name n =>
      have hn : ¬ n = "Crypt" := by simpa [hasCrypt, hf] using hc
      simp [stripCrypt, hf, hn]
    | arr l =>
      have hl : l ≠ [] := fun e => he (by rw [hf, e])
      have ha := filter_notCrypt l (by rw [hf] at hc; exact hc)
      simp only [stripCrypt, lookup_setKey, List.filter_append, ha]
      have : (List.filter notCryptName [Obj.name "Crypt"]) = [] := by simp [List.filter, notCryptName]
      rw [this, List.append_nil]
      have hne : l.isEmpty = false := by cases l <;> simp_all
      simp only [hne, Bool.false_eq_true, if_false]
      rw [setKey_setKey_back _ _ _ _ hf]
    | null => simp [stripCrypt, hf]
    | bool _ => simp [stripCrypt, hf]
    | num _ => simp [stripCrypt, hf]
    | str _ => simp [stripCrypt, hf]
    | dict _ => simp [stripCrypt, hf]
    | ref _ _ => simp [stripCrypt, hf]

/-- Every stream that does not itself name the Crypt filter (and whose dictionary has no /StmF
entry, no empty /Filter array) is read back exactly — dictionary and data — and stays as
decodable as it was: with or without /Filter, name or array. -/
theorem C05_stream_roundtrip (enc dec : Bytes → Bytes) (hcd : ∀ b, dec (enc b) = b)
    (em : Bool) (s : Stm) (hc : hasCrypt (lookup "Filter" s.dict) = false)
    (he : lookup "Filter" s.dict ≠ some (.arr [])) (hs : lookup "StmF" s.dict = none)
    (h : shouldEncryptStream em s = true) :
    decryptStm dec (writeStm enc em s) = s ∧ streamDecodable (writeStm enc em s) = streamDecodable s := by
  rw [writeStm_eq enc em s hc he h]
  simp [decryptStm, hs, hcd, streamDecodable]

example : shouldEncryptStream true (contentStream ⟨false, false, false⟩) = true ∧
    hasCrypt (lookup "Filter" (contentStream ⟨false, false, false⟩).dict) = false := by decide

/-- Regression statement (the writer before the repair, `readStmOld`): the content stream made
with `compress_streams = false` (no /Filter) went out with `/Filter /Crypt` and could not be
decoded by the reader. -/
theorem C05_witness_unfiltered_stream_old (enc dec : Bytes → Bytes) :
    readStmOld ⟨false, false, false⟩ enc dec true (contentStream ⟨false, false, false⟩) = none := by
  simp [readStmOld, contentStream, encryptStm, shouldEncryptStream, lookup, hasCrypt, setKey,
    detectEncryption, trailerKeys, decryptStm, streamDecodable, filterNames]

/-- … and now it reads back. -/
theorem C05_unfiltered_stream_reads_back (enc dec : Bytes → Bytes) (hcd : ∀ b, dec (enc b) = b) :
    readStm ⟨false, false, false⟩ enc dec true (contentStream ⟨false, false, false⟩) =
      some (contentStream ⟨false, false, false⟩) := by
  have h := C05_stream_roundtrip enc dec hcd true (contentStream ⟨false, false, false⟩) (by decide)
    (by simp [contentStream, lookup]) (by decide) (by decide)
  have hd : detectEncryption (trailerKeys ⟨false, false, false⟩ true) = true := by decide
  simp only [readStm, hd, if_true, h.1]
  simp [streamDecodable, contentStream, lookup, filterNames]

/-! ## The per-object ciphers (Algorithm 1 / 1.A) -/

/-- RC4 (V2): decrypting what was encrypted for the same object gives the data back. -/
theorem C05_rc4_object_cipher (key : Bytes) (num gen : Nat) (iv data : Bytes) :
    decryptData 1 key num gen (encryptData 1 key num gen iv data) = some data := by
  simp [decryptData, encryptData, rc4_involutive]

/-- AESV2 / AESV3: IV ‖ CBC(PKCS#7(data)) decrypts to the data, for every 16-byte IV. -/
theorem C05_aes_object_cipher (cfm : Nat) (hc : cfm = 2 ∨ cfm = 3) (key : Bytes) (num gen : Nat)
    (iv data : Bytes) (hiv : iv.length = 16)
    (hk : (cfm = 2 → key.length ≥ 11) ∧ (cfm = 3 → key.length = 32)) :
    decryptData cfm key num gen (encryptData cfm key num gen iv data) = some data :=
  aes_object_cipher aesOK cfm hc key num gen iv data hiv hk

example : decryptData 2 (List.replicate 16 7) 12 0 (encryptData 2 (List.replicate 16 7) 12 0 (List.replicate 16 1) [1, 2, 3]) = some [1, 2, 3] :=
  C05_aes_object_cipher 2 (Or.inl rfl) _ 12 0 _ _ (by simp) ⟨fun _ => by simp, fun h => by omega⟩

/-! ## Authentication of the dictionary the writer creates -/

/-- `DocumentEncryption::create_encryption_dict` for RC4-40 (R2, 5 bytes), RC4-128 (R3, 16) and
AES-128 (R4, 16, /AESV2), with the file identifier the writer draws -/
def writerDict (r : Nat) (upw opw : Bytes) (p : Nat) (id : Bytes) : EncDict :=
  let n := if r = 2 then 5 else 16
  let o := computeOwnerHash r n opw upw
  { r := r, v := if r = 2 then 1 else if r = 3 then 2 else 4,
    cfm := if r = 4 then some "AESV2" else none, em := none,
    o := o, u := computeUserHash r n upw o p (some id) true, p := p, id := some id, ue := none, oe := none }

/-- the key `get_encryption_key` hands to the encryptor -/
def writerKey (r : Nat) (upw opw : Bytes) (p : Nat) (id : Bytes) : Bytes :=
  let n := if r = 2 then 5 else 16
  computeEncryptionKey r n upw (computeOwnerHash r n opw upw) p (some id) true

/-- The user password unlocks the writer's own dictionary and yields exactly the key the
objects were encrypted with (R2, R3, R4; every password pair, permission word, identifier). -/
theorem C05_user_password_unlocks (r : Nat) (hr : r = 2 ∨ r = 3 ∨ r = 4) (upw opw : Bytes) (p : Nat) (id : Bytes) :
    unlockUser (writerDict r upw opw p id) upw = .key (writerKey r upw opw p id) := by
  rcases hr with h | h | h <;> subst h
  · rw [C23_unlock_user_is_alg6 _ upw id (Or.inl rfl) rfl]
    simp only [writerDict, writerKey, Option.getD_none, if_true]
    rw [C23_model_user_hash_is_alg45 2 5 (by omega), C23_model_key_is_alg2 2 5 (by omega),
      C23_alg6_accepts 2 5 upw _ p id true (Or.inr rfl)]
  · rw [C23_unlock_user_is_alg6 _ upw id (Or.inr (Or.inl rfl)) rfl]
    simp only [writerDict, writerKey, Option.getD_none, show ¬ (3:Nat) = 2 from by omega, if_false]
    rw [C23_model_user_hash_is_alg45 3 16 (by omega), C23_model_key_is_alg2 3 16 (by omega),
      C23_alg6_accepts 3 16 upw _ p id true (Or.inl (Nat.le_refl _))]
  · rw [C23_unlock_user_is_alg6 _ upw id (Or.inr (Or.inr rfl)) rfl]
    simp only [writerDict, writerKey, Option.getD_none, show ¬ (4:Nat) = 2 from by omega, if_false]
    rw [C23_model_user_hash_is_alg45 4 16 (by omega), C23_model_key_is_alg2 4 16 (by omega),
      C23_alg6_accepts 4 16 upw _ p id true (Or.inl (Nat.le_refl _))]

example : (writerDict 3 [0x75] [0x6F] 0xFFFFFFFC [1, 2, 3]).r = 3 := rfl

/-- On an R2–R4 dictionary whose /O is Algorithm 3 of (owner, user) — with the key length the
reader assumes — the reader's owner path does exactly what its user path does with the user
password (Algorithm 7 = Algorithm 6 after recovering the padded password). -/
theorem unlockOwner_eq_unlockUser (d : EncDict) (opw upw : Bytes) (hr : d.r = 2 ∨ d.r = 3 ∨ d.r = 4)
    (ho : d.o = alg3 d.r (if d.r = 2 then 5 else 16) opw upw) :
    unlockOwner d opw = unlockUser d upw := by
  have hlen : d.o.length = 32 := by rw [ho]; exact alg3_length _ _ _ _
  have hrec : alg7recover d.r (if d.r = 2 then 5 else 16) opw d.o = padPw upw := by
    rw [ho]; exact alg7recover_alg3 _ _ _ _
  unfold alg7recover ownerKey at hrec
  unfold unlockOwner unlockUser
  simp only [padPw] at hrec ⊢
  rcases hr with h | h | h
  · simp only [h, handlerOf, show ¬ (2:Nat) ≥ 5 from by omega, show ¬ (2:Nat) ≥ 3 from by omega, if_false, if_true,
      hlen, show ¬ (32:Nat) < 32 from by omega] at hrec ⊢
    simp only [hrec, computeUserHash, computeEncryptionKey, show ¬ (2:Nat) ≥ 5 from by omega, if_false, padPw, ne_eq, ite_not]
  · simp only [h, handlerOf, show ¬ (3:Nat) ≥ 5 from by omega, show (3:Nat) ≥ 3 from by omega, if_false, if_true,
      hlen, show ¬ (32:Nat) < 32 from by omega, show ¬ (3:Nat) = 2 from by omega, rc4Down20_eq] at hrec ⊢
    simp only [hrec, computeUserHash, computeEncryptionKey, show ¬ (3:Nat) ≥ 5 from by omega, if_false, padPw, ne_eq, ite_not]
  · by_cases hv : d.v ≥ 4 ∧ d.cfm = some "V2"
    · simp only [h, handlerOf, hv, and_self, if_true, show ¬ (4:Nat) ≥ 5 from by omega, show (4:Nat) ≥ 3 from by omega, if_false,
        hlen, show ¬ (32:Nat) < 32 from by omega, show ¬ (4:Nat) = 2 from by omega, rc4Down20_eq] at hrec ⊢
      simp only [hrec, computeUserHash, computeEncryptionKey, show ¬ (3:Nat) ≥ 5 from by omega, if_false, padPw, ne_eq, ite_not]
    · simp only [h, handlerOf, hv, if_true, show ¬ (4:Nat) ≥ 5 from by omega, show (4:Nat) ≥ 3 from by omega, if_false,
        hlen, show ¬ (32:Nat) < 32 from by omega, show ¬ (4:Nat) = 2 from by omega, rc4Down20_eq] at hrec ⊢
      simp only [hrec, computeUserHash, computeEncryptionKey, show ¬ (4:Nat) ≥ 5 from by omega, if_false, padPw, ne_eq, ite_not]

/-- The owner password unlocks the writer's dictionary as well, with the same key. -/
theorem C05_owner_password_unlocks (r : Nat) (hr : r = 2 ∨ r = 3 ∨ r = 4) (upw opw : Bytes) (p : Nat) (id : Bytes) :
    unlockOwner (writerDict r upw opw p id) opw = .key (writerKey r upw opw p id) := by
  rw [unlockOwner_eq_unlockUser _ opw upw (by simpa [writerDict] using hr) (by
    rcases hr with h | h | h <;> subst h <;> simp [writerDict, computeOwnerHash])]
  exact C05_user_password_unlocks r hr upw opw p id


/-! ## AES-256 (R5): the dictionary of `create_aes256_encryption_dict` -/

/-- U, O, UE, OE as the writer computes them from the drawn salts and the drawn file key -/
def writerDict5 (upw opw vsU ksU vsO ksO fileKey : Bytes) (p : Nat) (id : Bytes) : EncDict :=
  let u := sha256 (pw56 upw ++ vsU) ++ vsU ++ ksU
  let o := sha256 (pw56 opw ++ vsO ++ u) ++ vsO ++ ksO
  { r := 5, v := 5, cfm := some "AESV3", em := none, o := o, u := u, p := p, id := some id,
    ue := computeUE 5 upw u fileKey, oe := computeOE 5 opw o u fileKey }

/-- The user password unlocks the writer's AES-256 dictionary and recovers exactly the random
file key (for every password up to any length, all salts of 8 bytes, every 32-byte key). -/
theorem C05_user_password_unlocks_r5 (upw opw vsU ksU vsO ksO fileKey : Bytes) (p : Nat) (id : Bytes)
    (h1 : vsU.length = 8) (h2 : ksU.length = 8) (hk : fileKey.length = 32) :
    unlockUser (writerDict5 upw opw vsU ksU vsO ksO fileKey p id) upw = .key fileKey := by
  have hs : ∀ m, (sha256 m).length = 32 := sha256_length
  have hu : (sha256 (pw56 upw ++ vsU) ++ vsU ++ ksU).length = 48 := by simp [hs, h1, h2]
  have hv : vSalt (sha256 (pw56 upw ++ vsU) ++ vsU ++ ksU) = vsU := by
    simp only [vSalt, List.append_assoc]
    rw [List.drop_left' (hs _), List.take_left' h1]
  have hks : kSalt (sha256 (pw56 upw ++ vsU) ++ vsU ++ ksU) = ksU := by
    simp only [kSalt]
    rw [List.drop_left' (by simp [hs, h1]), List.take_of_length_le (by omega)]
  have ht : (sha256 (pw56 upw ++ vsU) ++ vsU ++ ksU).take 32 = sha256 (pw56 upw ++ vsU) := by
    simp only [List.append_assoc]; rw [List.take_left' (hs _)]
  obtain ⟨c, hc1, hc2, hc3⟩ := aesCbcRaw_roundtrip aesOK (sha256 (pw56 upw ++ ksU ++ [])) fileKey (hs _) (by omega)
  have htk : (sha256 (pw56 upw ++ ksU ++ [])).take 32 = sha256 (pw56 upw ++ ksU ++ []) := List.take_of_length_le (by rw [hs]; omega)
  simp only [unlockUser, writerDict5, handlerOf, show (5:Nat) ≥ 5 from by omega, if_true,
    validateUser56, entryPrefix, hu, show ¬ (48:Nat) < 48 from by omega, if_false, hashCode,
    List.take_of_length_le (Nat.le_of_eq hu), hv, hks, ht, computeUE, hk, htk, hc1, recoverUser56, hc3,
    List.append_nil, bind, Option.bind, pure, not_true_eq_false, or_self, ne_eq, decide_true] at hc1 hc2 htk ⊢
  have htv : (sha256 (pw56 upw ++ vsU)).take 32 = sha256 (pw56 upw ++ vsU) := List.take_of_length_le (by rw [hs]; omega)
  simp [hc1, hc2, htk, hc3, hk, htv]

/-! ## The trailer -/

/-- Whatever the writer configuration (classic table, cross-reference stream, object streams,
compression), the dictionary that plays the role of the trailer announces the encryption and
carries the file identifier the key was derived from. -/
theorem C05_trailer_announces_encryption (cfg : Cfg) :
    "Encrypt" ∈ trailerKeys cfg true ∧ "ID" ∈ trailerKeys cfg true ∧
      detectEncryption (trailerKeys cfg true) = true := by
  cases cfg with | mk x o c => cases x <;> simp [trailerKeys, detectEncryption]

example : detectEncryption (trailerKeys ⟨true, true, true⟩ true) = true := by decide

/-- Regression statement (the unrepaired `write_xref_stream`, `trailerKeysOld`): with
`use_xref_streams` neither key was written, whatever the other settings. -/
theorem C05_witness_xref_stream_trailer_old (o c : Bool) :
    ¬ ("Encrypt" ∈ trailerKeysOld ⟨true, o, c⟩ true) ∧ ¬ ("ID" ∈ trailerKeysOld ⟨true, o, c⟩ true) ∧
      detectEncryption (trailerKeysOld ⟨true, o, c⟩ true) = false := by
  simp [trailerKeysOld, detectEncryption]

/-! ## What the reader returns

FULL ("never silently ciphertext", "reads back exactly"):
  ∀ cfg o, readObj cfg enc dec o = o
-/

/-- every configuration: every object tree without strings under skipped keys reads back exactly
(the remaining hypothesis `okObj` is finding F2) -/
theorem C05_reads_back_partial (cfg : Cfg) (enc dec : Bytes → Bytes)
    (hc : ∀ b, dec (enc b) = b) (o : Obj) (ho : okObj o = true) : readObj cfg enc dec o = o := by
  simp only [readObj, (C05_trailer_announces_encryption cfg).2.2, if_true]
  exact obj_roundtrip enc dec hc o ho

/-- "never silently ciphertext": in every configuration the reader decrypts what the writer
encrypted (it never hands out `encryptObj enc x` as if it were content). -/
theorem C05_never_ciphertext (cfg : Cfg) (enc dec : Bytes → Bytes) (x : Obj) :
    readObj cfg enc dec x = decryptObj dec (encryptObj enc x) := by
  simp [readObj, (C05_trailer_announces_encryption cfg).2.2]

/-- Regression statement: with the unrepaired xref-stream trailer the reader handed out the
ciphertext of every string as if it were the content — without any password, without an error. -/
theorem C05_witness_ciphertext_returned_old (o c : Bool) (enc dec : Bytes → Bytes) (x : Obj) :
    readObjOld ⟨true, o, c⟩ enc dec x = encryptObj enc x := by
  simp [readObjOld, (C05_witness_xref_stream_trailer_old o c).2.2]

end OxiVerif.C05
