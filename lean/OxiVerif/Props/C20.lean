/-
C20 — writing the same document twice gives identical bytes: every emission site of the
order-oracle model (`Model/C20.lean`) is independent of the oracle.  Builder b0320; sites 5 and 6
repaired in /repo (fix 8d436ce0, fix b6546a33) and proved at full strength since.

/- FULL (DESIGN §7 C20):  ∀ π₁ π₂ (orders of every HashMap iteration), for every unencrypted
   configuration, writeDoc d cfg π₁ = writeDoc d cfg π₂.
   Proved site by site, for all inputs and all pairs of oracles.  Two sites WERE false of the
   code as found (the cross-reference stream dictionary and the /AP appearance-stream
   allocation were walked in HashMap order); the witnesses below are kept as statements about
   the pre-repair definitions (`…UnsortedO`), i.e. about the regression the check must catch. -/
Values of dictionaries are opaque serialised byte strings: the Dictionary arm serialises a value
AFTER the entries have been sorted and as a function of the value alone, so independence of the
flat lemma lifts to nested dictionaries by induction on depth (not formalised).
-/
import OxiVerif.Model.C20
import OxiVerif.Model.C20Rewrite
namespace OxiVerif.C20
open OxiVerif.C03 List

/-! ### the comparison used by `sort_by_key(|(k, _)| k.as_str())` is a total order on keys -/
theorem keyLe_total (a b : List Nat) : (keyLe a b || keyLe b a) = true := by
  induction a generalizing b with
  | nil => simp [keyLe]
  | cons x xs ih =>
    cases b with
    | nil => simp [keyLe]
    | cons y ys =>
      simp only [keyLe]
      by_cases h1 : x < y
      · simp [h1]
      · by_cases h2 : y < x
        · simp [h1, h2]
        · simp [h1, h2, ih ys]

theorem keyLe_trans (a b c : List Nat) (h1 : keyLe a b = true) (h2 : keyLe b c = true) : keyLe a c = true := by
  induction a generalizing b c with
  | nil => simp [keyLe]
  | cons x xs ih =>
    cases b with
    | nil => simp [keyLe] at h1
    | cons y ys =>
      cases c with
      | nil => simp [keyLe] at h2
      | cons w ws =>
        simp only [keyLe] at h1 h2 ⊢
        by_cases hxy : x < y
        · by_cases hyw : y < w
          · have : x < w := by omega
            simp [this]
          · by_cases hwy : w < y
            · simp [hyw, hwy] at h2
            · have : x < w := by omega
              simp [this]
        · by_cases hyx : y < x
          · simp [hxy, hyx] at h1
          · have hxy' : x = y := by omega
            subst hxy'
            simp only [hxy, if_false] at h1
            by_cases hyw : x < w
            · simp [hyw]
            · by_cases hwy : w < x
              · simp [hyw, hwy] at h2
              · simp only [hyw, hwy, if_false] at h2 ⊢
                exact ih ys ws h1 h2

theorem keyLe_antisymm (a b : List Nat) (h1 : keyLe a b = true) (h2 : keyLe b a = true) : a = b := by
  induction a generalizing b with
  | nil =>
    cases b with
    | nil => rfl
    | cons y ys => simp [keyLe] at h2
  | cons x xs ih =>
    cases b with
    | nil => simp [keyLe] at h1
    | cons y ys =>
      simp only [keyLe] at h1 h2
      by_cases hxy : x < y
      · have : ¬ y < x := by omega
        simp [hxy, this] at h2
      · by_cases hyx : y < x
        · simp [hxy, hyx] at h1
        · have : x = y := by omega
          subst this
          simp only [hxy, if_false] at h1 h2
          rw [ih ys h1 h2]

/-! ### sorting a duplicate-free collection forgets the iteration order -/
/-- keys pairwise distinct — what a `HashMap` guarantees -/
def NodupKeys {κ β} (l : List (κ × β)) : Prop := l.Pairwise (fun a b => a.1 ≠ b.1)

theorem NodupKeys.eq_of_key {κ β} {l : List (κ × β)} (h : NodupKeys l) {a b : κ × β}
    (ha : a ∈ l) (hb : b ∈ l) (hk : a.1 = b.1) : a = b := by
  induction l with
  | nil => simp at ha
  | cons x r ih =>
    rw [NodupKeys, List.pairwise_cons] at h
    simp only [List.mem_cons] at ha hb
    rcases ha with rfl | ha <;> rcases hb with rfl | hb
    · rfl
    · exact absurd hk (h.1 b hb)
    · exact absurd hk.symm (h.1 a ha)
    · exact ih h.2 ha hb

theorem sort_perm_eq {α} (le : α → α → Bool)
    (trans : ∀ a b c, le a b = true → le b c = true → le a c = true)
    (total : ∀ a b, (le a b || le b a) = true) {l₁ l₂ : List α} (h : l₁ ~ l₂)
    (anti : ∀ a b, a ∈ l₁ → b ∈ l₁ → le a b = true → le b a = true → a = b) :
    l₁.mergeSort le = l₂.mergeSort le := by
  apply Perm.eq_of_pairwise (le := fun a b => le a b = true)
  · intro a b ha hb
    have ha' : a ∈ l₁ := (mergeSort_perm l₁ le).mem_iff.mp ha
    have hb' : b ∈ l₁ := h.mem_iff.mpr ((mergeSort_perm l₂ le).mem_iff.mp hb)
    exact anti a b ha' hb'
  · exact pairwise_mergeSort trans total l₁
  · exact pairwise_mergeSort trans total l₂
  · exact (mergeSort_perm l₁ le).trans (h.trans (mergeSort_perm l₂ le).symm)

/-- CORE LEMMA: `l₁ ~ l₂ → NodupKeys l₁ → sortEntries l₁ = sortEntries l₂` -/
theorem sortEntries_perm {l₁ l₂ : List DictE} (h : l₁ ~ l₂) (hn : NodupKeys l₁) :
    sortEntries l₁ = sortEntries l₂ := by
  unfold sortEntries
  apply sort_perm_eq _ (fun a b c => keyLe_trans a.1 b.1 c.1) (fun a b => keyLe_total a.1 b.1) h
  intro a b ha hb h1 h2
  exact hn.eq_of_key ha hb (keyLe_antisymm _ _ h1 h2)

/-! ## 1. the Dictionary arm -/
/-- `write_object_value(Dictionary)`: whatever order the map iterates in, the bytes are the same -/
theorem C20_sorted_dict_emission (π₁ π₂ : Oracle DictE) (d : List DictE)
    (h₁ : π₁ d ~ d) (h₂ : π₂ d ~ d) (hn : NodupKeys d) :
    emitSortedDict π₁ d = emitSortedDict π₂ d := by
  unfold emitSortedDict
  rw [sortEntries_perm h₁ (hn.perm h₁.symm (fun h => h.symm)), sortEntries_perm h₂ (hn.perm h₂.symm (fun h => h.symm))]

example : emitSortedDict List.reverse [(kType, kXRefName), (kSize, [49])] =
    emitSortedDict id [(kType, kXRefName), (kSize, [49])] :=
  C20_sorted_dict_emission _ _ _ (List.reverse_perm _) (Perm.refl _)
    (by simp [NodupKeys, kType, kSize])

/-! ## 2. the Stream arm -/
theorem setKey_nodup (d : List DictE) (k v : List Nat) (hn : NodupKeys d) : NodupKeys (setKey d k v) := by
  unfold setKey NodupKeys
  rw [List.pairwise_cons]
  refine ⟨?_, hn.filter _⟩
  intro e he
  simp only [List.mem_filter, bne_iff_ne] at he
  exact fun h => he.2 h.symm

theorem C20_stream_arm (π₁ π₂ : Oracle DictE) (dict : List DictE) (data : List Nat)
    (h₁ : ∀ l, π₁ l ~ l) (h₂ : ∀ l, π₂ l ~ l) (hn : NodupKeys dict) :
    streamBodyO π₁ dict data = streamBodyO π₂ dict data := by
  unfold streamBodyO
  rw [C20_sorted_dict_emission π₁ π₂ _ (h₁ _) (h₂ _) (setKey_nodup _ _ _ hn)]

example : streamBodyO List.reverse [(kFilter, kFlate), (kLength, [48])] [1, 2] =
    streamBodyO id [(kFilter, kFlate), (kLength, [48])] [1, 2] :=
  C20_stream_arm _ _ _ _ (fun _ => List.reverse_perm _) (fun _ => Perm.refl _)
    (by simp [NodupKeys, kFilter, kLength])

/-! ## 3. object-stream packing -/
theorem dedupNewest_nodup {α} (l : List (Nat × α)) : NodupKeys (dedupNewest l) := by
  induction l with
  | nil => simp [dedupNewest, NodupKeys]
  | cons e r ih =>
    unfold dedupNewest NodupKeys
    rw [List.pairwise_cons]
    refine ⟨?_, ih.filter _⟩
    intro x hx
    simp only [List.mem_filter, bne_iff_ne] at hx
    exact fun h => hx.2 h.symm

theorem sortById_perm {α} {l₁ l₂ : List (Nat × α)} (h : l₁ ~ l₂) (hn : NodupKeys l₁) :
    l₁.mergeSort (fun a b => decide (a.1 ≤ b.1)) = l₂.mergeSort (fun a b => decide (a.1 ≤ b.1)) := by
  apply sort_perm_eq _ _ _ h
  · intro a b ha hb h1 h2
    simp only [decide_eq_true_eq] at h1 h2
    exact hn.eq_of_key ha hb (by omega)
  · intro a b c h1 h2
    simp only [decide_eq_true_eq] at h1 h2 ⊢
    omega
  · intro a b
    simp only [Bool.or_eq_true, decide_eq_true_eq]
    omega

/-- `flush_object_streams`: the streams (ids, members, member order) do not depend on the
iteration order of `buffered_objects` -/
theorem C20_objstm_packing (π₁ π₂ : Oracle (Nat × List Nat)) (b : List (Nat × List Nat))
    (h₁ : ∀ l, π₁ l ~ l) (h₂ : ∀ l, π₂ l ~ l) : packStreamsO π₁ b = packStreamsO π₂ b := by
  unfold packStreamsO
  have hn := dedupNewest_nodup b
  have e : (π₁ (dedupNewest b)).mergeSort (fun a b => decide (a.1 ≤ b.1)) =
      (π₂ (dedupNewest b)).mergeSort (fun a b => decide (a.1 ≤ b.1)) :=
    sortById_perm ((h₁ _).trans (h₂ _).symm) (hn.perm (h₁ _).symm (fun h => h.symm))
  simp only [e]

example : packStreamsO List.reverse [(7, [1]), (3, [2])] = packStreamsO id [(7, [1]), (3, [2])] :=
  C20_objstm_packing _ _ _ (fun _ => List.reverse_perm _) (fun _ => Perm.refl _)

/-! ## 4. classic cross-reference table and trailer -/
theorem maxIdO_perm (π₁ π₂ : Oracle (Nat × Nat)) (x : List (Nat × Nat))
    (h₁ : ∀ l, π₁ l ~ l) (h₂ : ∀ l, π₂ l ~ l) : maxIdO π₁ x = maxIdO π₂ x := by
  unfold maxIdO
  apply Perm.foldl_eq' ((h₁ _).trans (h₂ _).symm)
  intro a _ b _ z
  show max (max z a.1) b.1 = max (max z b.1) a.1
  omega

theorem lookupSorted_perm (π₁ π₂ : Oracle (Nat × Nat)) (x : List (Nat × Nat)) (n : Nat)
    (h₁ : ∀ l, π₁ l ~ l) (h₂ : ∀ l, π₂ l ~ l) : lookupSorted π₁ x n = lookupSorted π₂ x n := by
  unfold lookupSorted
  rw [sortById_perm ((h₁ _).trans (h₂ _).symm) ((dedupNewest_nodup x).perm (h₁ _).symm (fun h => h.symm))]

/-- `write_xref` + `write_trailer`: independent of the iteration order of `xref_positions`
(collected, sorted by number, searched by number; `/Size` from a max) -/
theorem C20_classic_xref_and_trailer (π₁ π₁' π₂ π₂' : Oracle (Nat × Nat)) (x : List (Nat × Nat))
    (root info pos : Nat) (h₁ : ∀ l, π₁ l ~ l) (h₁' : ∀ l, π₁' l ~ l) (h₂ : ∀ l, π₂ l ~ l) (h₂' : ∀ l, π₂' l ~ l) :
    classicTailO π₁ π₁' x root info pos = classicTailO π₂ π₂' x root info pos := by
  unfold classicTailO classicEntriesO
  rw [maxIdO_perm π₁ π₂ x h₁ h₂, maxIdO_perm π₁' π₂' x h₁' h₂']
  simp only [fun n => lookupSorted_perm π₁ π₂ x n h₁ h₂]

example : classicTailO List.reverse id [(2, 15), (1, 40)] 1 3 77 = classicTailO id List.reverse [(2, 15), (1, 40)] 1 3 77 :=
  C20_classic_xref_and_trailer _ _ _ _ _ _ _ _ (fun _ => List.reverse_perm _) (fun _ => Perm.refl _)
    (fun _ => Perm.refl _) (fun _ => List.reverse_perm _)

/-! ## 5. the cross-reference stream dictionary (repaired by 8d436ce0) -/
/-- the cross-reference stream dictionary is independent of the iteration order -/
theorem C20_xref_stream_dict (π₁ π₂ : Oracle DictE) (n root info : Nat) (w : Nat × Nat × Nat) (len : Nat)
    (h₁ : ∀ l, π₁ l ~ l) (h₂ : ∀ l, π₂ l ~ l) :
    xrefStreamDictO π₁ n root info w len = xrefStreamDictO π₂ n root info w len := by
  unfold xrefStreamDictO
  apply C20_sorted_dict_emission _ _ _ (h₁ _) (h₂ _)
  simp [NodupKeys, xrefStreamDict, kType, kSize, kRoot, kInfo, kW, kIndex, kFilter, kLength]

example : xrefStreamDictO List.reverse 5 1 2 (1, 2, 1) 30 = xrefStreamDictO id 5 1 2 (1, 2, 1) 30 :=
  C20_xref_stream_dict _ _ _ _ _ _ _ (fun _ => List.reverse_perm _) (fun _ => Perm.refl _)

/-- REGRESSION WITNESS: the site as it was before the repair (emitted as iterated) is NOT
deterministic: the identity order and the reversed order give different bytes (byte 4 is `T` of
`/Type` resp. `L` of `/Length`), for every document. -/
theorem C20_witness_xref_stream_dict_order (n root info : Nat) (w : Nat × Nat × Nat) (len : Nat) :
    xrefStreamDictUnsortedO id n root info w len ≠ xrefStreamDictUnsortedO List.reverse n root info w len := by
  intro h
  have := congrArg (fun l => l[4]?) h
  simp [xrefStreamDictUnsortedO, xrefStreamDict, emitDict, emitEntries, kType, kLength] at this

/-- …and `List.reverse` is a legitimate iteration order -/
example (l : List DictE) : List.reverse l ~ l := List.reverse_perm l

/-! ## 6. appearance-stream allocation (repaired by b6546a33) -/
/-- the object numbers given to the inline streams of an /AP (/N, /D) dictionary are independent
of the iteration order -/
theorem C20_ap_stream_allocation (π₁ π₂ : Oracle DictE) (next : Nat) (d : List DictE)
    (h₁ : π₁ d ~ d) (h₂ : π₂ d ~ d) (hn : NodupKeys d) :
    externalizeO π₁ next d = externalizeO π₂ next d := by
  unfold externalizeO
  rw [sortEntries_perm h₁ (hn.perm h₁.symm (fun h => h.symm)), sortEntries_perm h₂ (hn.perm h₂.symm (fun h => h.symm))]

example : externalizeO List.reverse 7 [(kType, [1]), (kSize, [2])] = externalizeO id 7 [(kType, [1]), (kSize, [2])] :=
  C20_ap_stream_allocation List.reverse id 7 _ (List.reverse_perm _) (Perm.refl _)
    (by simp [NodupKeys, kType, kSize])

/-- REGRESSION WITNESS: before the repair (`/Yes`, `/Off` of `create_checkbox_widget` walked in
HashMap order) the object numbers of the two streams depended on the iteration order — and with
them the positions of both stream objects and every later object number. -/
theorem C20_witness_ap_stream_allocation (next : Nat) (a b : List Nat) :
    externalizeUnsortedO id next [("Yes", a), ("Off", b)] = [("Yes", next), ("Off", next + 1)] ∧
    externalizeUnsortedO List.reverse next [("Yes", a), ("Off", b)] = [("Off", next), ("Yes", next + 1)] := by
  simp [externalizeUnsortedO, allocFrom]

/-! ## 7. the same `Document` value written twice (`Model/C20Rewrite.lean`)

/- FULL: ∀ hasMgr M W acro, (writeTwice hasMgr M W acro).1 = (writeTwice hasMgr M W acro).2.
   FALSE of the current code (known finding C20-F3): a document with FormManager fields AND widget
   annotations carrying /T, no AcroForm yet — the first serialisation creates `document.acro_form`
   only in `write_catalog`, AFTER `write_form_fields` looked for it, so the first file lists only
   the manager's fields and the second lists the widgets too (`C20_witness_rewrite`).
   Proved instead: stable in every other case (`C20_rewrite_stable_partial`). -/ -/

theorem appendNew_all_contained (f : List Nat) (M : List Nat) (h : ∀ r ∈ M, r ∈ f) : appendNew f M = f := by
  induction M generalizing f with
  | nil => rfl
  | cons r rest ih =>
    have hr : f.contains r = true := by simp [h r (by simp)]
    simp only [appendNew, hr, if_true]
    exact ih f (fun x hx => h x (by simp [hx]))

theorem appendNew_prefix (f M : List Nat) : f <+: appendNew f M := by
  induction M generalizing f with
  | nil => exact List.prefix_refl _
  | cons r rest ih =>
    simp only [appendNew]
    split
    · exact ih f
    · exact List.IsPrefix.trans (List.prefix_append f [r]) (ih _)

theorem appendNew_mem (f M : List Nat) : ∀ r ∈ M, r ∈ appendNew f M := by
  induction M generalizing f with
  | nil => intro r h; cases h
  | cons a rest ih =>
    intro r hr
    simp only [appendNew]
    rcases List.mem_cons.mp hr with rfl | hr
    · split
      · rename_i hc
        exact (appendNew_prefix f rest).subset (by simpa using hc)
      · exact (appendNew_prefix _ rest).subset (by simp)
    · exact ih _ r hr

theorem appendNew_idem (f M : List Nat) : appendNew (appendNew f M) M = appendNew f M :=
  appendNew_all_contained _ _ (appendNew_mem f M)

theorem appendNew_subset (f M : List Nat) : ∀ r ∈ appendNew f M, r ∈ f ∨ r ∈ M := by
  induction M generalizing f with
  | nil => intro r h; exact Or.inl h
  | cons a rest ih =>
    intro r hr
    simp only [appendNew] at hr
    split at hr
    · rcases ih f r hr with h | h
      · exact Or.inl h
      · exact Or.inr (by simp [h])
    · rcases ih _ r hr with h | h
      · rcases List.mem_append.mp h with h | h
        · exact Or.inl h
        · exact Or.inr (by simp at h; simp [h])
      · exact Or.inr (by simp [h])

/-- re-writing is stable unless (no AcroForm yet ∧ FormManager fields ∧ widget annotations with /T) -/
theorem C20_rewrite_stable_partial (hasMgr : Bool) (M W : List Nat) (acro : Option (List Nat))
    (h : acro ≠ none ∨ hasMgr = false ∨ W = []) :
    (writeTwice hasMgr M W acro).1 = (writeTwice hasMgr M W acro).2 := by
  unfold writeTwice writeFields
  cases hasMgr <;> cases acro <;> cases W <;> simp_all [appendNew_idem]

theorem C20_witness_rewrite (M W : List Nat) (w : Nat) (hw : w ∈ W) (hd : w ∉ M) :
    (writeTwice true M W none).1 ≠ (writeTwice true M W none).2 := by
  unfold writeTwice writeFields
  have hne : W.isEmpty = false := by cases W <;> simp_all
  simp only [hne, Option.getD, if_true]
  intro h
  have h' := Option.some.inj h
  have : w ∈ appendNew [] M := by
    rw [h']; exact (appendNew_prefix W M).subset hw
  rcases appendNew_subset [] M w this with h1 | h1
  · cases h1
  · exact hd h1

example : writeTwice true [4, 5] [12, 15, 18] none = (some [4, 5], some [12, 15, 18, 4, 5]) := by decide
example : (some [1] : Option (List Nat)) ≠ none ∨ true = false ∨ [7] = ([] : List Nat) := Or.inl (by simp)

end OxiVerif.C20
