/-
C20 — writing the same document twice gives identical bytes: every emission site of the
order-oracle model (`Model/C20.lean`) is independent of the oracle, except the dictionary of
the cross-reference stream.  Builder b0320.

/- FULL (DESIGN §7 C20):  ∀ π₁ π₂ (orders of every HashMap iteration), for every unencrypted
   configuration, writeDoc d cfg π₁ = writeDoc d cfg π₂.
   FALSE of the current code when `use_xref_streams`: `write_xref_stream` emits
   `for (key, value) in dict.iter()` as iterated (pdf_writer/mod.rs:4074) — witness
   `C20_witness_xref_stream_dict_order`: two orders, two different byte strings.
   Proved instead (`…_partial` = everything except that site): each site separately, for all
   inputs and all pairs of oracles. -/
Values of dictionaries are opaque serialised byte strings: the Dictionary arm serialises a value
AFTER the entries have been sorted and as a function of the value alone, so independence of the
flat lemma lifts to nested dictionaries by induction on depth (not formalised).
-/
import OxiVerif.Model.C20
namespace OxiVerif.C20
open OxiVerif.C03 List

/-! ### the comparison used by `sort_by_key(|(k, _)| k.as_str())` is a total order on keys -/
theorem keyLe_total (a b : List Nat) : (keyLe a b || keyLe b a) = true := by
  induction a generalizing b with
  | nil => simp [keyLe]
  | cons x xs ih =>
    cases b with
    | nil => simp [keyLe]
    | cons y ys =>
      simp only [keyLe]
      by_cases h1 : x < y
      · simp [h1]
      · by_cases h2 : y < x
        · simp [h1, h2]
        · simp [h1, h2, ih ys]

theorem keyLe_trans (a b c : List Nat) (h1 : keyLe a b = true) (h2 : keyLe b c = true) : keyLe a c = true := by
  induction a generalizing b c with
  | nil => simp [keyLe]
  | cons x xs ih =>
    cases b with
    | nil => simp [keyLe] at h1
    | cons y ys =>
      cases c with
      | nil => simp [keyLe] at h2
      | cons w ws =>
        simp only [keyLe] at h1 h2 ⊢
        by_cases hxy : x < y
        · by_cases hyw : y < w
          · have : x < w := by omega
            simp [this]
          · by_cases hwy : w < y
            · simp [hyw, hwy] at h2
            · have : x < w := by omega
              simp [this]
        · by_cases hyx : y < x
          · simp [hxy, hyx] at h1
          · have hxy' : x = y := by omega
            subst hxy'
            simp only [hxy, if_false] at h1
            by_cases hyw : x < w
            · simp [hyw]
            · by_cases hwy : w < x
              · simp [hyw, hwy] at h2
              · simp only [hyw, hwy, if_false] at h2 ⊢
                exact ih ys ws h1 h2

theorem keyLe_antisymm (a b : List Nat) (h1 : keyLe a b = true) (h2 : keyLe b a = true) : a = b := by
  induction a generalizing b with
  | nil =>
    cases b with
    | nil => rfl
    | cons y ys => simp [keyLe] at h2
  | cons x xs ih =>
    cases b with
    | nil => simp [keyLe] at h1
    | cons y ys =>
      simp only [keyLe] at h1 h2
      by_cases hxy : x < y
      · have : ¬ y < x := by omega
        simp [hxy, this] at h2
      · by_cases hyx : y < x
        · simp [hxy, hyx] at h1
        · have : x = y := by omega
          subst this
          simp only [hxy, if_false] at h1 h2
          rw [ih ys h1 h2]

/-! ### sorting a duplicate-free collection forgets the iteration order -/
/-- keys pairwise distinct — what a `HashMap` guarantees -/
def NodupKeys {κ β} (l : List (κ × β)) : Prop := l.Pairwise (fun a b => a.1 ≠ b.1)

theorem NodupKeys.eq_of_key {κ β} {l : List (κ × β)} (h : NodupKeys l) {a b : κ × β}
    (ha : a ∈ l) (hb : b ∈ l) (hk : a.1 = b.1) : a = b := by
  induction l with
  | nil => simp at ha
  | cons x r ih =>
    rw [NodupKeys, List.pairwise_cons] at h
    simp only [List.mem_cons] at ha hb
    rcases ha with rfl | ha <;> rcases hb with rfl | hb
    · rfl
    · exact absurd hk (h.1 b hb)
    · exact absurd hk.symm (h.1 a ha)
    · exact ih h.2 ha hb

theorem sort_perm_eq {α} (le : α → α → Bool)
    (trans : ∀ a b c, le a b = true → le b c = true → le a c = true)
    (total : ∀ a b, (le a b || le b a) = true) {l₁ l₂ : List α} (h : l₁ ~ l₂)
    (anti : ∀ a b, a ∈ l₁ → b ∈ l₁ → le a b = true → le b a = true → a = b) :
    l₁.mergeSort le = l₂.mergeSort le := by
  apply Perm.eq_of_pairwise (le := fun a b => le a b = true)
  · intro a b ha hb
    have ha' : a ∈ l₁ := (mergeSort_perm l₁ le).mem_iff.mp ha
    have hb' : b ∈ l₁ := h.mem_iff.mpr ((mergeSort_perm l₂ le).mem_iff.mp hb)
    exact anti a b ha' hb'
  · exact pairwise_mergeSort trans total l₁
  · exact pairwise_mergeSort trans total l₂
  · exact (mergeSort_perm l₁ le).trans (h.trans (mergeSort_perm l₂ le).symm)

/-- CORE LEMMA: `l₁ ~ l₂ → NodupKeys l₁ → sortEntries l₁ = sortEntries l₂` -/
theorem sortEntries_perm {l₁ l₂ : List DictE} (h : l₁ ~ l₂) (hn : NodupKeys l₁) :
    sortEntries l₁ = sortEntries l₂ := by
  unfold sortEntries
  apply sort_perm_eq _ (fun a b c => keyLe_trans a.1 b.1 c.1) (fun a b => keyLe_total a.1 b.1) h
  intro a b ha hb h1 h2
  exact hn.eq_of_key ha hb (keyLe_antisymm _ _ h1 h2)

/-! ## 1. the Dictionary arm -/
/-- `write_object_value(Dictionary)`: whatever order the map iterates in, the bytes are the same -/
theorem C20_sorted_dict_emission (π₁ π₂ : Oracle DictE) (d : List DictE)
    (h₁ : π₁ d ~ d) (h₂ : π₂ d ~ d) (hn : NodupKeys d) :
    emitSortedDict π₁ d = emitSortedDict π₂ d := by
  unfold emitSortedDict
  rw [sortEntries_perm h₁ (hn.perm h₁.symm (fun h => h.symm)), sortEntries_perm h₂ (hn.perm h₂.symm (fun h => h.symm))]

example : emitSortedDict List.reverse [(kType, kXRefName), (kSize, [49])] =
    emitSortedDict id [(kType, kXRefName), (kSize, [49])] :=
  C20_sorted_dict_emission _ _ _ (List.reverse_perm _) (Perm.refl _)
    (by simp [NodupKeys, kType, kSize])

/-! ## 2. the Stream arm -/
theorem setKey_nodup (d : List DictE) (k v : List Nat) (hn : NodupKeys d) : NodupKeys (setKey d k v) := by
  unfold setKey NodupKeys
  rw [List.pairwise_cons]
  refine ⟨?_, hn.filter _⟩
  intro e he
  simp only [List.mem_filter, bne_iff_ne] at he
  exact fun h => he.2 h.symm

theorem C20_stream_arm (π₁ π₂ : Oracle DictE) (dict : List DictE) (data : List Nat)
    (h₁ : ∀ l, π₁ l ~ l) (h₂ : ∀ l, π₂ l ~ l) (hn : NodupKeys dict) :
    streamBodyO π₁ dict data = streamBodyO π₂ dict data := by
  unfold streamBodyO
  rw [C20_sorted_dict_emission π₁ π₂ _ (h₁ _) (h₂ _) (setKey_nodup _ _ _ hn)]

example : streamBodyO List.reverse [(kFilter, kFlate), (kLength, [48])] [1, 2] =
    streamBodyO id [(kFilter, kFlate), (kLength, [48])] [1, 2] :=
  C20_stream_arm _ _ _ _ (fun _ => List.reverse_perm _) (fun _ => Perm.refl _)
    (by simp [NodupKeys, kFilter, kLength])

/-! ## 3. object-stream packing -/
theorem dedupNewest_nodup {α} (l : List (Nat × α)) : NodupKeys (dedupNewest l) := by
  induction l with
  | nil => simp [dedupNewest, NodupKeys]
  | cons e r ih =>
    unfold dedupNewest NodupKeys
    rw [List.pairwise_cons]
    refine ⟨?_, ih.filter _⟩
    intro x hx
    simp only [List.mem_filter, bne_iff_ne] at hx
    exact fun h => hx.2 h.symm

theorem sortById_perm {α} {l₁ l₂ : List (Nat × α)} (h : l₁ ~ l₂) (hn : NodupKeys l₁) :
    l₁.mergeSort (fun a b => decide (a.1 ≤ b.1)) = l₂.mergeSort (fun a b => decide (a.1 ≤ b.1)) := by
  apply sort_perm_eq _ _ _ h
  · intro a b ha hb h1 h2
    simp only [decide_eq_true_eq] at h1 h2
    exact hn.eq_of_key ha hb (by omega)
  · intro a b c h1 h2
    simp only [decide_eq_true_eq] at h1 h2 ⊢
    omega
  · intro a b
    simp only [Bool.or_eq_true, decide_eq_true_eq]
    omega

/-- `flush_object_streams`: the streams (ids, members, member order) do not depend on the
iteration order of `buffered_objects` -/
theorem C20_objstm_packing (π₁ π₂ : Oracle (Nat × List Nat)) (b : List (Nat × List Nat))
    (h₁ : ∀ l, π₁ l ~ l) (h₂ : ∀ l, π₂ l ~ l) : packStreamsO π₁ b = packStreamsO π₂ b := by
  unfold packStreamsO
  have hn := dedupNewest_nodup b
  have e : (π₁ (dedupNewest b)).mergeSort (fun a b => decide (a.1 ≤ b.1)) =
      (π₂ (dedupNewest b)).mergeSort (fun a b => decide (a.1 ≤ b.1)) :=
    sortById_perm ((h₁ _).trans (h₂ _).symm) (hn.perm (h₁ _).symm (fun h => h.symm))
  simp only [e]

example : packStreamsO List.reverse [(7, [1]), (3, [2])] = packStreamsO id [(7, [1]), (3, [2])] :=
  C20_objstm_packing _ _ _ (fun _ => List.reverse_perm _) (fun _ => Perm.refl _)

/-! ## 4. classic cross-reference table and trailer -/
theorem maxIdO_perm (π₁ π₂ : Oracle (Nat × Nat)) (x : List (Nat × Nat))
    (h₁ : ∀ l, π₁ l ~ l) (h₂ : ∀ l, π₂ l ~ l) : maxIdO π₁ x = maxIdO π₂ x := by
  unfold maxIdO
  apply Perm.foldl_eq' ((h₁ _).trans (h₂ _).symm)
  intro a _ b _ z
  show max (max z a.1) b.1 = max (max z b.1) a.1
  omega

theorem lookupSorted_perm (π₁ π₂ : Oracle (Nat × Nat)) (x : List (Nat × Nat)) (n : Nat)
    (h₁ : ∀ l, π₁ l ~ l) (h₂ : ∀ l, π₂ l ~ l) : lookupSorted π₁ x n = lookupSorted π₂ x n := by
  unfold lookupSorted
  rw [sortById_perm ((h₁ _).trans (h₂ _).symm) ((dedupNewest_nodup x).perm (h₁ _).symm (fun h => h.symm))]

/-- `write_xref` + `write_trailer`: independent of the iteration order of `xref_positions`
(collected, sorted by number, searched by number; `/Size` from a max) -/
theorem C20_classic_xref_and_trailer (π₁ π₁' π₂ π₂' : Oracle (Nat × Nat)) (x : List (Nat × Nat))
    (root info pos : Nat) (h₁ : ∀ l, π₁ l ~ l) (h₁' : ∀ l, π₁' l ~ l) (h₂ : ∀ l, π₂ l ~ l) (h₂' : ∀ l, π₂' l ~ l) :
    classicTailO π₁ π₁' x root info pos = classicTailO π₂ π₂' x root info pos := by
  unfold classicTailO classicEntriesO
  rw [maxIdO_perm π₁ π₂ x h₁ h₂, maxIdO_perm π₁' π₂' x h₁' h₂']
  simp only [fun n => lookupSorted_perm π₁ π₂ x n h₁ h₂]

example : classicTailO List.reverse id [(2, 15), (1, 40)] 1 3 77 = classicTailO id List.reverse [(2, 15), (1, 40)] 1 3 77 :=
  C20_classic_xref_and_trailer _ _ _ _ _ _ _ _ (fun _ => List.reverse_perm _) (fun _ => Perm.refl _)
    (fun _ => Perm.refl _) (fun _ => List.reverse_perm _)

/-! ## 5. the unsorted site -/
/-- WITNESS: `write_xref_stream` emits its dictionary in iteration order; the identity order and
the reversed order give different bytes (byte 4 is `T` of `/Type` resp. `L` of `/Length`), for
every document. -/
theorem C20_witness_xref_stream_dict_order (n root info : Nat) (w : Nat × Nat × Nat) (len : Nat) :
    xrefStreamDictO id n root info w len ≠ xrefStreamDictO List.reverse n root info w len := by
  intro h
  have := congrArg (fun l => l[4]?) h
  simp [xrefStreamDictO, xrefStreamDict, emitDict, emitEntries, kType, kLength] at this

/-- …and `List.reverse` is a legitimate iteration order -/
example (l : List DictE) : List.reverse l ~ l := List.reverse_perm l

/-- PARTIAL: with the one-line repair (sort before emitting, i.e. the Dictionary arm) the
cross-reference stream dictionary is deterministic too -/
theorem C20_xref_stream_dict_sorted_partial (π₁ π₂ : Oracle DictE) (n root info : Nat) (w : Nat × Nat × Nat) (len : Nat)
    (h₁ : ∀ l, π₁ l ~ l) (h₂ : ∀ l, π₂ l ~ l) :
    emitSortedDict π₁ (xrefStreamDict n root info w len) = emitSortedDict π₂ (xrefStreamDict n root info w len) := by
  apply C20_sorted_dict_emission _ _ _ (h₁ _) (h₂ _)
  simp [NodupKeys, xrefStreamDict, kType, kSize, kRoot, kInfo, kW, kIndex, kFilter, kLength]

end OxiVerif.C20
