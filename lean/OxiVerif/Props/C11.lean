import OxiVerif.Model.C11
import OxiVerif.Spec.C11
namespace OxiVerif.C11

theorem C11_clamp_none (s : List Nat) : clamp none s = s := rfl

end OxiVerif.C11
