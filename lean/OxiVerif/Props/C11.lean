import OxiVerif.Lemmas.C11Sim
/-!
# C11 — text extraction conserves every drawn character

Property theorems only (helpers: `Lemmas/C11.lean`, `Lemmas/C11Sim.lean`).

Objects (all in `Model/C11.lean`, a line-by-line mirror of `text/extraction.rs`):
* `events P ia cr`      — the operator loop of `process_operations` over a page program `P`
                          (page stream + form XObjects + fonts), geometry-free;
* `consume F mh lay max` — the flat accumulation (`append_bounded`, line groups), every geometric
                          decision a call to the oracle `F : FlatΩ`;
* `assemble Ω C o a fs` — the `layout_finalize` block of `extract_from_page`, every float comparison
                          a call to the oracles `Ω : Geo G`, `C : CutΩ`;
* `extract`             — their composition = `TextExtractor::extract_from_page`;
* `Spec.run P ia`       — reference semantics written from ISO 32000-1 (which characters a page shows).

Every theorem below quantifies over ALL oracles (`F`, `Ω`, `C`, `geom`), all option records and all
programs / fragment lists / event lists: there is no size or depth bound.
-/
namespace OxiVerif.C11
open List

variable {G : Type}

/-! ## 1. the assembly stage: nothing dropped, nothing duplicated, whatever the geometry says -/

/-- The fragment pipeline (`merge_close_fragments_in_layout_regions`, `sort_and_merge_fragments`
    with `detect_and_sort_columns`, `merge_close_fragments`, `merge_into_lines`,
    `merge_into_paragraphs`) keeps the multiset of non-white-space characters, for every option
    combination without hyphen merging and EVERY geometry oracle. -/
theorem C11_layout_conserves (Ω : Geo G) (o : Opts) (hmh : o.mh = false) (fs0 : List (Frag G)) :
    nonWs (chars (layoutFrags Ω o fs0)) ~ nonWs (chars fs0) :=
  layoutFrags_nonWs Ω o hmh fs0

/-- The stages that do not sort keep the SEQUENCE (order included). -/
theorem C11_layout_keeps_order (Ω : Geo G) (o : Opts) (hmh : o.mh = false) (hsp : o.sp = false)
    (hrp : o.rp = false) (fs0 : List (Frag G)) :
    nonWs (chars (layoutFrags Ω o fs0)) = nonWs (chars fs0) := by
  unfold layoutFrags
  simp only [hmh, hsp, hrp, hyWrap_off, Bool.false_and, Bool.false_eq_true, ↓reduceIte]
  generalize h1 : (if fs0.isEmpty = true then fs0 else mergeCloseRegions Ω fs0) = fs1
  have e1 : nonWs (chars fs1) = nonWs (chars fs0) := by
    rw [← h1]; split
    · rfl
    · exact mergeCloseRegions_nonWs Ω fs0
  split
  · rw [mergeClose_nonWs, e1]
  · exact e1

/-- `.fragments` under `preserve_layout`. -/
theorem C11_assemble_fragments_conserve (Ω : Geo G) (C : CutΩ) (o : Opts) (a : Acc)
    (fs0 : List (Frag G)) (hmh : o.mh = false) (hpl : o.pl = true) :
    nonWs (chars (assemble Ω C o a fs0).frags) ~ nonWs (chars fs0) := by
  unfold assemble
  simp only [hpl, Bool.not_true, Bool.and_false, Bool.false_and, Bool.false_eq_true, ↓reduceIte]
  exact layoutFrags_nonWs Ω o hmh fs0

/-- `.text` on every path except the XY-cut reading order: when the flat text and the raw
    fragments carry the same characters (which `C11_flat_conserves` + `C11_fragments_mirror_flat`
    establish for whatever the operator loop emits), the assembled text carries them too —
    for every geometry oracle, every switch combination without hyphen merging and budget. -/
theorem C11_assemble_text_conserves (Ω : Geo G) (C : CutΩ) (o : Opts) (a : Acc)
    (fs0 : List (Frag G)) (hmh : o.mh = false) (hmax : o.max = none)
    (hro : (o.ro && !o.pl && !o.rc) = false)
    (hcons : fs0 = [] ∨ nonWs (chars fs0) = nonWs a.text) :
    nonWs (assemble Ω C o a fs0).text ~ nonWs a.text := by
  have hl := layoutFrags_nonWs Ω o hmh fs0
  have hne : (layoutFrags Ω o fs0).isEmpty = false → nonWs (chars fs0) = nonWs a.text := by
    intro h
    rcases hcons with h0 | h0
    · subst h0; simp [layoutFrags_nil] at h
    · exact h0
  unfold assemble
  simp only [hmax, hro, clamp_none', hmh, Bool.false_eq_true, ↓reduceIte]
  cases he : (layoutFrags Ω o fs0).isEmpty
  · have hc := hne he
    cases hpl : o.pl <;> cases hrc : o.rc <;>
      simp only [Bool.not_false, Bool.not_true, Bool.and_true, Bool.and_false,
        Bool.false_eq_true, ↓reduceIte]
    · exact Perm.refl _
    · rw [reconstruct_nonWs, ← hc]
      exact Perm.trans (sortAndMerge_nonWs Ω _ _) hl
    · rw [reconstruct_nonWs, ← hc]; exact hl
    · rw [reconstruct_nonWs, ← hc]; exact hl
  · simp only [Bool.not_true, Bool.and_false, Bool.false_eq_true, ↓reduceIte]
    exact Perm.refl _

/-- The byte budget is respected on every path, whatever was accumulated. -/
theorem C11_budget_respected (Ω : Geo G) (C : CutΩ) (o : Opts) (a : Acc) (fs0 : List (Frag G))
    (m : Nat) (hmax : o.max = some m) : utf8Len (assemble Ω C o a fs0).text ≤ m := by
  unfold assemble
  simp only [hmax]
  exact clamp_len _ _

/-- With a budget the text is a prefix of the text without one (same accumulator). -/
theorem C11_budget_prefix (limit : Option Nat) (s : List Nat) : clamp limit s <+: s :=
  clamp_prefix limit s

/-- The XY-cut (`flat_reading_order::cut_recursive`) returns a permutation of the line groups
    whatever the cut oracle answers, at every recursion depth. -/
theorem C11_xycut_permutes (C : CutΩ) (fuel : Nat) (idx : List Nat) : cutRec C fuel idx ~ idx :=
  cutRec_perm C fuel idx

/-! ## 2. the flat accumulation -/

/-- `append_bounded` driven by any event list, with any geometry oracle, without hyphen fusion and
    without a budget: the flat text carries exactly the appended characters IN ORDER, the raw
    fragments carry exactly the fragment events' characters IN ORDER, nothing is truncated. -/
theorem C11_flat_conserves (F : FlatΩ) (lay : Bool) (evs : List Ev) :
    (consume F false lay none evs).truncated = false ∧
    nonWs (consume F false lay none evs).text = nonWs (appTexts evs) ∧
    nonWs (fragChars (consume F false lay none evs).frags)
      = (if lay then nonWs (fragTexts evs) else []) := by
  have h := consumeFrom_inv F lay 0 evs {} rfl
  simpa [consume, fragChars, nonWs] using h

/-- Whatever the operator loop emits, the characters pushed as fragments are exactly the characters
    appended to the flat text (same order) — for every program, nesting included. -/
theorem C11_fragments_mirror_flat (P : Prog) (ia : Bool) (cr : Nat) :
    fragTexts (events P ia cr).2 = appTexts (events P ia cr).2 :=
  events_mirror P ia cr

/-! ## 3. the operator loop against the reference semantics

/- FULL:
   ∀ P ia cr, (Spec.run P ia).ok = true →
     nonWs (appTexts (events P ia cr).2) = nonWs (Spec.run P ia).runs.reverse.flatten
   "whenever the reference semantics of ISO 32000-1 assigns the page a sequence of shown runs, the
   operator loop emits exactly those characters, in painting order".
   FALSE of the current code: `C11_witness_nested_actualtext`, `C11_witness_inherited_font_name`
   below (findings C11-F1, F3).  `C11_emission_partial` proves it for every program on which the
   reference run meets neither situation.  (C11-F2, the WinAnsi quotes, is repaired: the hypothesis
   that excluded codes 0x93/0x94 is gone; `C11_witness_winansi_quotes` is about the old table.) -/
-/

/-- The page is inside the property's domain (`ok`) and the reference run never (F1) opened an
    `/ActualText` scope inside another one,
    (F3) showed a non-empty string inside a form in the font inherited from the caller. -/
abbrev Clean (P : Prog) (ia : Bool) : Prop := good (Spec.run P ia) = true

/-- Conservation and order at emission: for EVERY page program (any operator list over
    `BT ET q Q Tf Tj TJ ' " Do BMC BDC EMC` + geometry-only operators, any nesting of forms up to
    the guard, any fonts of the two modelled classes), every `include_artifacts` and
    carriage-return policy: the characters the operator loop hands to the flat text are exactly the
    characters the reference semantics says the page shows — same multiplicity, same ORDER
    (within a run and across runs). -/
theorem C11_emission_partial (P : Prog) (ia : Bool) (cr : Nat) (h : Clean P ia) :
    nonWs (appTexts (events P ia cr).2) = nonWs (Spec.run P ia).runs.reverse.flatten :=
  events_sim P ia cr h

/-- the same for the fragment stream -/
theorem C11_emission_fragments_partial (P : Prog) (ia : Bool) (cr : Nat) (h : Clean P ia) :
    nonWs (fragTexts (events P ia cr).2) = nonWs (Spec.run P ia).runs.reverse.flatten := by
  rw [events_mirror]; exact events_sim P ia cr h

def W1 : Prog := { fonts := [.simple], streams := [{ fmap := [0], xmap := [], ops :=
  [.bt, .tf 0, .other, .bdc false (some [0x58]), .tj [0x61], .bdc false (some [0x59]), .tj [0x62],
   .emc, .tj [0x63], .emc, .et] }] }
def W2 : Prog := { fonts := [.simple], streams := [{ fmap := [0], xmap := [], ops :=
  [.bt, .tf 0, .other, .tj [0x93, 0x41, 0x94], .et] }] }
def W3 : Prog := { fonts := [.type0 0x41 26 [], .type0 0x391 26 []], streams := [
  { fmap := [0, 1], xmap := [1], ops := [.bt, .tf 0, .other, .tj [0, 1], .et, .doX 0] },
  { fmap := [1, 0], xmap := [], ops := [.bt, .other, .tj [0, 3], .et] }] }

/-- C11-F1 (corpus/C11/f1_nested_actualtext.req): `BDC(/ActualText X) a BDC(/ActualText Y) b EMC c EMC`
    — shown `X`, emitted `Yc`. -/
theorem C11_witness_nested_actualtext :
    (Spec.run W1 false).ok = true ∧
    nonWs (Spec.run W1 false).runs.reverse.flatten = [0x58] ∧
    nonWs (appTexts (events W1 false 0).2) = [0x59, 0x63] := by decide

/-- C11-F2, REPAIRED (corpus/C11/f2_winansi_quotes.req is now a regression case): `<93 41 94> Tj` in
    a WinAnsi font shows U+201C A U+201D; the table as it was before the repair (`winansiImplOld`)
    gave `"A"`, the current one agrees with Annex D on W2 (and on every code: `winansi_agree`). -/
theorem C11_witness_winansi_quotes :
    Clean W2 false ∧
    nonWs (Spec.run W2 false).runs.reverse.flatten = [0x201C, 0x41, 0x201D] ∧
    [0x93, 0x41, 0x94].map winansiImplOld = [0x22, 0x41, 0x22] ∧
    nonWs (appTexts (events W2 false 0).2) = [0x201C, 0x41, 0x201D] := by decide

/-- C11-F3 (corpus/C11/f3_inherited_font_name.req): the page selects /F0 (Latin) and paints a form
    whose own /F0 is a Greek font; the form shows `<0003>` without `Tf` — shown `A C`, emitted `A Γ`. -/
theorem C11_witness_inherited_font_name :
    (Spec.run W3 false).ok = true ∧
    nonWs (Spec.run W3 false).runs.reverse.flatten = [0x41, 0x43] ∧
    nonWs (appTexts (events W3 false 0).2) = [0x41, 0x393] := by decide

def W4 : Prog := { fonts := [.simple], streams := [{ fmap := [0], xmap := [], ops :=
  [.bt, .tf 0, .other, .tj [0x61, 0x62, 0x2D, 0x2D], .quote [], .quote [], .quote [0x63], .et] }] }

/-- C11-F4, REPAIRED (corpus/C11/f4_hyphen_chain.req is now a regression case), `merge_hyphenated`
    on (the default): `(ab--) Tj () ' () ' (c) '` — shown `ab--c`.  `append_bounded` as it was before
    the repair (`appendBoundedOld`) popped a hyphen for each of the two empty line-wrap appends
    (`ab--` → `ab-` → `ab`); the current one leaves the text alone and WHATEVER the geometry the
    page keeps both hyphens. -/
theorem C11_witness_hyphen_chain :
    Clean W4 false ∧
    nonWs (Spec.run W4 false).runs.reverse.flatten = [0x61, 0x62, 0x2D, 0x2D, 0x63] ∧
    appendBoundedOld [0x61, 0x62, 0x2D, 0x2D] (some NL) [] none true = some ([0x61, 0x62, 0x2D], none) ∧
    appendBoundedOld [0x61, 0x62, 0x2D] (some NL) [] none true = some ([0x61, 0x62], none) ∧
    ∀ F : FlatΩ, nonWs (consume F true false none (events W4 false 0).2).text
      = [0x61, 0x62, 0x2D, 0x2D, 0x63] := by
  refine ⟨by decide, by decide, by decide, by decide, ?_⟩
  intro F
  have e : (events W4 false 0).2 = [.app .tj [0x61, 0x62, 0x2D, 0x2D], .frag [0x61, 0x62, 0x2D, 0x2D],
      .app .nl [], .app .nl [], .app .nl [0x63], .frag [0x63]] := by decide
  rw [e]
  simp [consume, consumeFrom, consume1, sepFor, appendBounded, groupAfter, recordGroup,
    sepList, nonWs, isWs, HY, NL]

/-- an open witness refutes the FULL statement -/
theorem C11_full_statement_fails :
    ¬ (∀ P ia cr, (Spec.run P ia).ok = true →
        nonWs (appTexts (events P ia cr).2) = nonWs (Spec.run P ia).runs.reverse.flatten) := by
  intro h
  have := h W3 false 0 C11_witness_inherited_font_name.1
  rw [C11_witness_inherited_font_name.2.1, C11_witness_inherited_font_name.2.2] at this
  exact absurd this (by decide)

/-! ## 4. end to end: `extract_from_page` -/

/- FULL:
   ∀ P o F Ω C geom, (Spec.run P o.ia).ok →
     nonWs (extract P o F Ω C geom).text ~ nonWs (Spec.run P o.ia).runs.reverse.flatten
   Missing in `C11_extract_text_partial`: the two open defects above (`Clean`); `merge_hyphenated`
   (removes run-final hyphens by design) and `max_extracted_bytes` (keeps a prefix by design) — their
   exact effect is `C11_budget_respected` / `C11_budget_prefix` and the optional-hyphen pattern the
   run-time oracle checks; the XY-cut reading-order path is covered at the permutation level only
   (`C11_xycut_permutes`). -/

/-- `.text` of the whole extraction carries exactly the shown characters — every geometry oracle,
    every layout / sorting / column / paragraph / artifact / carriage-return option. -/
theorem C11_extract_text_partial (P : Prog) (o : Opts) (F : FlatΩ) (Ω : Geo G) (C : CutΩ)
    (geom : Nat → G) (hc : Clean P o.ia) (hmh : o.mh = false) (hmax : o.max = none)
    (hro : (o.ro && !o.pl && !o.rc) = false) :
    nonWs (extract P o F Ω C geom).text ~ nonWs (Spec.run P o.ia).runs.reverse.flatten := by
  unfold extract
  simp only [hmh, hmax]
  obtain ⟨_, h2, h3⟩ := C11_flat_conserves F (o.pl || o.rc) (events P o.ia o.cr).2
  have hev := events_sim P o.ia o.cr hc
  have hcons : (((consume F false (o.pl || o.rc) none (events P o.ia o.cr).2).frags.reverse.map
        fun x => ({ text := x.1, g := geom x.2 } : Frag G)) = [] ∨
      nonWs (chars ((consume F false (o.pl || o.rc) none (events P o.ia o.cr).2).frags.reverse.map
        fun x => ({ text := x.1, g := geom x.2 } : Frag G)))
        = nonWs (consume F false (o.pl || o.rc) none (events P o.ia o.cr).2).text) := by
    by_cases hl : (o.pl || o.rc) = true
    · right
      rw [chars_of_frags, h3, if_pos hl, h2, events_mirror]
    · left
      have e : (o.pl || o.rc) = false := by simpa using hl
      rw [e]
      have : (consume F false false none (events P o.ia o.cr).2).frags = [] :=
        consumeFrom_frags_nolay F false none _ 0 {}
      simp [this]
  have := C11_assemble_text_conserves Ω C o _ _ hmh hmax hro hcons
  refine Perm.trans this ?_
  rw [h2, hev]
  exact Perm.refl _

/-- `.fragments` under `preserve_layout` carry exactly the shown characters. -/
theorem C11_extract_fragments_partial (P : Prog) (o : Opts) (F : FlatΩ) (Ω : Geo G) (C : CutΩ)
    (geom : Nat → G) (hc : Clean P o.ia) (hmh : o.mh = false) (hmax : o.max = none)
    (hpl : o.pl = true) :
    nonWs (chars (extract P o F Ω C geom).frags) ~ nonWs (Spec.run P o.ia).runs.reverse.flatten := by
  unfold extract
  simp only [hmh, hmax]
  obtain ⟨_, _, h3⟩ := C11_flat_conserves F (o.pl || o.rc) (events P o.ia o.cr).2
  have := C11_assemble_fragments_conserve Ω C o
    (consume F false (o.pl || o.rc) none (events P o.ia o.cr).2)
    ((consume F false (o.pl || o.rc) none (events P o.ia o.cr).2).frags.reverse.map
        fun x => ({ text := x.1, g := geom x.2 } : Frag G)) hmh hpl
  refine Perm.trans this ?_
  rw [chars_of_frags, h3]
  simp only [hpl, Bool.true_or, ↓reduceIte]
  rw [events_mirror, events_sim P o.ia o.cr hc]
  exact Perm.refl _

/-- Where nothing sorts (`sort_by_position`, `reconstruct_paragraphs`, `reorder_columns`,
    reading order all off) the extraction keeps the painting ORDER as well. -/
theorem C11_extract_flat_order_partial (P : Prog) (o : Opts) (F : FlatΩ) (Ω : Geo G) (C : CutΩ)
    (geom : Nat → G) (hc : Clean P o.ia) (hmh : o.mh = false) (hmax : o.max = none)
    (hpl : o.pl = false) (hrc : o.rc = false) (hro : o.ro = false) :
    nonWs (extract P o F Ω C geom).text = nonWs (Spec.run P o.ia).runs.reverse.flatten := by
  unfold extract
  simp only [hmh, hmax, hpl, hrc, Bool.or_self]
  have hfr : (consume F false false none (events P o.ia o.cr).2).frags = [] :=
    consumeFrom_frags_nolay F false none _ 0 {}
  obtain ⟨_, h2, _⟩ := C11_flat_conserves F false (events P o.ia o.cr).2
  unfold assemble
  simp only [hfr, hpl, hrc, hro, hmax, clamp_none', List.reverse_nil, List.map_nil, layoutFrags_nil,
    Bool.false_and, Bool.false_eq_true, ↓reduceIte]
  rw [h2]; exact events_sim P o.ia o.cr hc

/-! ## 5. non-vacuity -/

/-- a clean page with a form, a `q … Q` font restore, a kerned `TJ`, an `/ActualText` scope and an
    artifact: the hypotheses of the `_partial` theorems are inhabited by a non-trivial program -/
def Ex : Prog := { fonts := [.simple, .type0 0x391 26 [(0x201, [0x66, 0x66, 0x69])]], streams := [
  { fmap := [0, 1], xmap := [1], ops :=
      [.bt, .tf 0, .other, .tj [0x48, 0x69], .q, .tf 1, .tjArr [.str [0, 1], .num, .str [2, 1]], .Q,
       .quote [0x21], .bdc false (some [0x4F, 0x4B]), .tj [0x78], .emc, .bmc true, .tj [0x7A], .emc,
       .et, .doX 0] },
  { fmap := [1], xmap := [], ops := [.bt, .tf 0, .other, .tj [0, 2], .et] }] }

example : Clean Ex false := by decide
example : nonWs (Spec.run Ex false).runs.reverse.flatten
    = [0x48, 0x69, 0x391, 0x66, 0x66, 0x69, 0x21, 0x4F, 0x4B, 0x392] := by decide
example : nonWs (appTexts (events Ex false 0).2) = nonWs (Spec.run Ex false).runs.reverse.flatten :=
  C11_emission_partial Ex false 0 (by decide)
-- the artifact is shown when `include_artifacts` is on
example : Clean Ex true ∧ nonWs (Spec.run Ex true).runs.reverse.flatten
    = [0x48, 0x69, 0x391, 0x66, 0x66, 0x69, 0x21, 0x4F, 0x4B, 0x7A, 0x392] := by decide

/-- option records for the examples (hyphen merging off, no budget unless given) -/
def exOpts (pl sp dc rp : Bool) (max : Option Nat := none) : Opts :=
  { pl := pl, sp := sp, dc := dc, mh := false, rp := rp, ia := false, rc := false, ro := false,
    cr := 0, max := max }

/-- the assembly really rewrites the fragments (merges, inserts spaces) and still conserves -/
example : (layoutFrags (sampleGeo true true) (exOpts true false false false)
      [⟨[0x61], 0⟩, ⟨[0x62], 5⟩, ⟨[0x63], 9⟩]).map (·.text) = [[0x61, 32, 0x62, 32, 0x63]] := by decide
example : nonWs (chars (layoutFrags (sampleGeo true true) (exOpts true true true true)
      [⟨[0x61], 9⟩, ⟨[0x62], 5⟩, ⟨[0x63], 0⟩])) ~ [0x61, 0x62, 0x63] :=
  C11_layout_conserves _ _ rfl _
example : C11_layout_keeps_order (sampleGeo false false) (exOpts true false false false) rfl rfl rfl
      [⟨[0x61], 9⟩, ⟨[0x62], 5⟩] = C11_layout_keeps_order _ _ rfl rfl rfl _ := rfl

/-- the flat accumulation really inserts separators and still conserves -/
example : (consume sampleFlat false false none [.app .tj [0x61], .app .tj [0x62], .kern true,
      .app .nl [0x63]]).text = [0x61, 32, 0x62, 32, 10, 0x63] := by decide
example : (consume sampleFlat false true none (events Ex false 0).2).truncated = false :=
  (C11_flat_conserves sampleFlat true _).1

/-- the budget really cuts -/
example : clamp (some 4) [0x61, 0x20AC, 0x62] = [0x61, 0x20AC] := by decide
example : utf8Len (assemble (sampleGeo false false) sampleCut (exOpts false false false false (some 4))
      { text := [0x61, 0x20AC, 0x62] } ([] : List (Frag Nat))).text ≤ 4 :=
  C11_budget_respected _ _ _ _ _ 4 rfl

/-- end to end on the example page, with a sorting, column-detecting, paragraph-building option set -/
example : nonWs (extract Ex (exOpts true true true true) sampleFlat (sampleGeo true false) sampleCut
      (fun i => i)).text ~ [0x48, 0x69, 0x391, 0x66, 0x66, 0x69, 0x21, 0x4F, 0x4B, 0x392] := by
  have h := C11_extract_text_partial Ex (exOpts true true true true) sampleFlat (sampleGeo true false)
    sampleCut (fun i => i) (by decide) rfl rfl rfl
  have e : nonWs (Spec.run Ex false).runs.reverse.flatten
      = [0x48, 0x69, 0x391, 0x66, 0x66, 0x69, 0x21, 0x4F, 0x4B, 0x392] := by decide
  exact e ▸ h

end OxiVerif.C11
