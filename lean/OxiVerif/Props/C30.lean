import OxiVerif.Lemmas.C30
set_option linter.unusedSimpArgs false
/-!
# C30 — page resource names chosen by the user cannot break the page

A user-chosen name `n` (the UTF-8 bytes of a Rust `String`) is emitted at two sites:
* **dictionary site** — as a key of a resource sub-dictionary of the page (`write_object_value`:
  `\n/` ++ name ++ ` ` ++ value) = `Model.ser`.  Since fix 16fac722 the name goes through
  `escape_pdf_name_bytes` (`Model.escapeName`: `#XX` for every byte outside `!`..`~`, for the
  delimiters and for `#`); before it was raw (`Model.serUnescaped`).
* **content site** — as an operand in the content stream (`serialize_ops`: `/` ++ n ++ ` Do\n`,
  `cs`, `CS`, `gs`, `ri`, `sh`, `/n size Tf`; `begin_marked_content`: `/n <</MCID k>> BDC`)
  = `opName`, `opTf`, `opBDC`: still RAW.
It is read back by (i) the library's object lexer `Lexer.readName` (dictionary keys), (ii) the
library's content tokenizer `CT.readName` (operands), (iii) an independent strict reader
`Spec.Syntax.readName` (ISO 32000-1 §7.3.5).

So: the dictionary half of the property is now proved for ALL names (byte level; `String` level
for ASCII names — the object lexer still turns bytes ≥ 0x80 into mojibake, witness below); the
content half is FALSE of the code: kept as `FULL`, proved on the decidable fragment `SafeName`
(`…_partial`, induction over the name, no length bound), refuted by kernel-checked witnesses, and
the specification of its repair (the same escaping at the content site) is proved for ALL names.
-/
namespace OxiVerif.C30
open OxiVerif.Spec.Syntax (Obj)
open OxiVerif.Model
open OxiVerif.Spec
open OxiVerif.C09

/-- the continuation ends a name inside a dictionary for the independent reader and the object lexer -/
def endsDict (d : List Nat) : Bool := specEnds d && libEnds d
/-- the continuation ends a name inside a content stream for the independent reader and the tokenizer -/
def endsContent (d : List Nat) : Bool := specEnds d && ctEnds d

/- FULL: for every byte string `n` that is valid UTF-8 (every Rust `String`), every object number
   `i ≤ 4 294 967 295` (every `u32`), generation `g ≤ 65535` and operator `kw ∈ {Do, cs, CS, sh, gs}`:
   (D) the resource dictionary `ser (.dict [(n, .ref i g)])` parses, by the independent reader and by
       the library's parser, to exactly `.dict [(n, .ref i g)]` (key = the user's name as a `String`);
   (C) the operator line `opName n kw` parses to exactly one operator `kw` whose operand is `n`:
       `CT.parseView (opName n kw) = some [(kw, n)]` and
       `Syntax.readContent (opName n kw) = some [.operand (.name n), .operator kw]`;
   hence key and operand are the SAME name, equal to the user's.
   (D) holds for all `n` under the independent reader (`C30_resource_dict_spec`) and for all ASCII `n`
   under the library (`C30_resource_dict_lib_partial`; false for non-ASCII: `C30_witness_non_ascii`).
   (C) is false: `C30_witness_*`; true on `SafeName` (`C30_name_operator_partial`); true for all `n`
   once `serialize_ops` escapes (`C30_escaped_name_operator`). -/

/-! ## the dictionary site (escaped since fix 16fac722) -/

/-- every name, whatever its bytes, written as a dictionary key / name value is read back byte for
    byte by the independent reader and by the library's object lexer -/
theorem C30_dict_key_all_names (n d : List Nat) (hb : NameBytes n = true) (hd : endsDict d = true) :
    Syntax.readName (escapeName n ++ d) = some (n, d) ∧ Lexer.readName (escapeName n ++ d) = .ok (n, d) := by
  simp [endsDict] at hd
  exact ⟨spec_readName_escName n d hb hd.1, lib_readName_escName n d hb hd.2⟩

def myImage : List Nat := [77, 121, 32, 73, 109, 97, 103, 101]   -- "My Image"

example : NameBytes (myImage ++ [35, 47, 40, 0, 195, 169]) = true ∧ endsDict [32, 54] = true ∧
    escapeName [65, 32, 35] = [65, 35, 50, 48, 35, 50, 51] := by decide

theorem latin1_ascii (n : List Nat) (h : NameAscii n = true) : ObjCanon.utf8OfLatin1 n = n := by
  unfold NameAscii at h
  induction n with
  | nil => rfl
  | cons x xs ih =>
    rw [allB_cons] at h
    have hx : x < 128 := by simpa using h.1
    simp [ObjCanon.utf8OfLatin1, hx, ih h.2]

/-- for ASCII names the `String` the object lexer builds (`byte as char`) is the user's `String` -/
theorem C30_dict_key_string_ascii (n : List Nat) (h : NameAscii n = true) : ObjCanon.utf8OfLatin1 n = n :=
  latin1_ascii n h

example : NameAscii myImage = true := by decide

/-- Non-ASCII names: the bytes come back, but the `String` built from them is mojibake — for `é`
    (written `/#C3#A9`) the library reads the resource key `Ã©` while the operand `/é` of the
    content stream is read as `é`: the library cannot resolve its own operand in its own
    resource dictionary (the independent reader has no such problem) -/
theorem C30_witness_non_ascii :
    escapeName [195, 169] = [35, 67, 51, 35, 65, 57] ∧
    Lexer.readName (escapeName [195, 169] ++ [32]) = .ok ([195, 169], [32]) ∧
    ObjCanon.utf8OfLatin1 [195, 169] = [195, 131, 194, 169] ∧
    CT.readName ([195, 169] ++ [32]) = .tok (.name [195, 169]) [32] ∧
    ObjCanon.utf8OfLatin1 [195, 169] ≠ [195, 169] := by
  refine ⟨by rfl, by rfl, by rfl, by rfl, by decide⟩

theorem ser_one_entry (n : List Nat) (v : Obj) (hv : sortDicts v = v) :
    ser (.dict [(n, v)]) = serRaw (.dict [(n, v)]) := by
  simp [ser, sortDicts, sortDictsKVs, sortKV, insertKV, hv]

/-- (D), independent reader, ALL names: the one-entry resource sub-dictionary `<<\n/n i g R\n>>`
    written by the serializer is read as exactly the key `n` ↦ the reference — nothing injected,
    nothing lost, whatever follows -/
theorem C30_resource_dict_spec (n rest : List Nat) (i g fuel : Nat) (hn : NameBytes n = true)
    (hf : 4 ≤ fuel) :
    Syntax.readObj fuel (ser (.dict [(n, .ref i g)]) ++ rest) = some (.dict [(n, .ref i g)], rest) := by
  rw [ser_one_entry n _ (by simp [sortDicts])]
  have hs : SafeSpec (.dict [(n, .ref i g)]) rest = true := by
    simp [SafeSpec, SafeSpecEntries, hn, serEntries, specEnds, Syntax.isRegular, Syntax.isWhite]
  have := spec_obj_roundtrip (.dict [(n, .ref i g)]) rest fuel hs (by simp [need, needKVs]; omega)
  simpa [readBack, readBackKVs] using this

example : NameBytes [120, 32, 54, 32, 48, 32, 82, 32, 47, 73, 110, 106, 0, 255] = true := by decide

/-- (D), the library's `PdfObject::parse`, all ASCII names (white space, delimiters, `#`, controls
    included) -/
theorem C30_resource_dict_lib_partial (n rest : List Nat) (i g fuel : Nat) (hn : NameAscii n = true)
    (hi : i ≤ 4294967295) (hg : g ≤ 65535) (hr : libDictFollowOk rest = true) (hf : 7 ≤ fuel) :
    ObjParser.parseObj fuel (ser (.dict [(n, .ref i g)]) ++ rest) = .ok (.dict [(n, .ref i g)], rest) := by
  rw [ser_one_entry n _ (by simp [sortDicts])]
  have hs : SafeLib (.dict [(n, .ref i g)]) rest = true := by
    simp [SafeLib, SafeLibEntries, hn, hi, hg, hr, serEntries, libEnds, Lexer.isBreak, Lexer.isAsciiWs]
  have := lib_parseObj_roundtrip (.dict [(n, .ref i g)]) rest fuel hs (by simp [needFT, needDict]; omega)
  simpa [readBack, readBackKVs] using this

example : NameAscii [65, 32, 35, 52, 50, 47, 40, 0] = true ∧ libDictFollowOk [10, 47, 84] = true ∧
    libDictFollowOk [10, 62, 62] = true := by
  refine ⟨by decide, by rfl, by rfl⟩

/-- what fix 16fac722 repaired (kept as a record; `serUnescaped` = the writer before the fix):
    `add_image("My Image", …)` gave `<<\n/My Image 6 0 R\n>>`, rejected by the library's own parser
    and by the independent reader -/
theorem C30_fixed_witness_space_dict :
    ObjParser.parse (serUnescaped (.dict [(myImage, .ref 6 0)]) ++ [10]) = .error .syntax ∧
    Syntax.read (serUnescaped (.dict [(myImage, .ref 6 0)]) ++ [10]) = none := by
  constructor <;> rfl

/-- … and a name could inject a whole extra key (`x 6 0 R /Inj`) -/
theorem C30_fixed_witness_injected_key :
    Syntax.read (serUnescaped (.dict [([120, 32, 54, 32, 48, 32, 82, 32, 47, 73, 110, 106], .ref 6 0)]))
      = some (.dict [([120], .ref 6 0), ([73, 110, 106], .ref 6 0)], []) := by rfl

/-! ## the content site (raw) -/

/-- For every safe name (regular characters, no `#`, ASCII — any length, the empty name included)
    the raw operand is read back as the user's name by the independent reader and by the content
    tokenizer — the same name the dictionary site yields (`C30_dict_key_all_names`). -/
theorem C30_raw_operand_roundtrip_partial (n d : List Nat) (hn : SafeName n = true) (hd : endsContent d = true) :
    Syntax.readName (n ++ d) = some (n, d) ∧ CT.readName (n ++ d) = .tok (.name n) d := by
  simp [endsContent] at hd
  exact ⟨spec_readName_raw n d (safe_specOk n hn) hd.1,
    ct_readName_raw n d (safe_reg n hn) (validUtf8_ascii n (safe_ascii n hn)) hd.2⟩

example : SafeName [73, 109, 49, 45, 95, 46, 43, 1, 127] = true ∧ SafeName [] = true ∧ endsContent [32, 68] = true := by decide

/-- the alphabet named in the plan (printable ASCII without delimiters and `#`) is inside `SafeName` -/
theorem C30_printable_names_safe (n : List Nat) (h : PrintableName n = true) : SafeName n = true :=
  printable_safe n h

example : PrintableName [77, 121, 73, 109, 97, 103, 101, 33, 126] = true := by decide

/-- the same for non-ASCII names made of regular bytes (valid UTF-8) -/
theorem C30_raw_operand_bytes_partial (n d : List Nat) (hn : RegName n = true) (hu : CT.validUtf8 n = true)
    (hd : endsContent d = true) :
    Syntax.readName (n ++ d) = some (n, d) ∧ CT.readName (n ++ d) = .tok (.name n) d := by
  simp [endsContent] at hd
  exact ⟨spec_readName_reg n d hn hd.1, ct_readName_raw n d hn hu hd.2⟩

example : RegName [195, 169, 226, 130, 172] = true ∧ CT.validUtf8 [195, 169, 226, 130, 172] = true := by decide

/-- where `validate_pdf_resource_name` is called (`add_form_xobject`, `add_color_space`,
    `add_pattern`, `add_shading`) an accepted name is non-empty and made of regular characters
    without `#`: `C30_raw_operand_bytes_partial` applies to its operands -/
theorem C30_validated_names_regular (n : List Nat) (h : validName n = true) : RegName n = true ∧ n ≠ [] := by
  simp [validName] at h
  refine ⟨allB_imp _ _ ?_ n h.2, by intro e; simp [e] at h⟩
  intro b hb
  simp [isForbidden] at hb
  simp [Syntax.isRegular, hb]

example : validName [195, 169, 1, 127] = true := by decide

/-- the operators `Do cs CS sh gs` -/
def nameKw (kw : List Nat) : Bool := kw == kDo || kw == kcs || kw == kCS || kw == ksh || kw == kgs

theorem tokenize_end (f : Nat) : CT.tokenize f [10] = ([], false) := by
  cases f <;> rfl

theorem tokenize_kw_tail (kw : List Nat) (f : Nat) (hk : nameKw kw = true) :
    CT.tokenize (f + 1) (32 :: (kw ++ [10])) = ([.operator kw], false) := by
  simp [nameKw] at hk
  rcases hk with (((rfl | rfl) | rfl) | rfl) | rfl
  · have h : CT.nextToken (32 :: (kDo ++ [10])) = .tok (.operator kDo) [10] := by rfl
    simp [CT.tokenize, h, tokenize_end]; decide
  · have h : CT.nextToken (32 :: (kcs ++ [10])) = .tok (.operator kcs) [10] := by rfl
    simp [CT.tokenize, h, tokenize_end]; decide
  · have h : CT.nextToken (32 :: (kCS ++ [10])) = .tok (.operator kCS) [10] := by rfl
    simp [CT.tokenize, h, tokenize_end]; decide
  · have h : CT.nextToken (32 :: (ksh ++ [10])) = .tok (.operator ksh) [10] := by rfl
    simp [CT.tokenize, h, tokenize_end]; decide
  · have h : CT.nextToken (32 :: (kgs ++ [10])) = .tok (.operator kgs) [10] := by rfl
    simp [CT.tokenize, h, tokenize_end]; decide

theorem tokenize_step_name (inp tail n : List Nat) (f : Nat)
    (h1 : CT.nextToken inp = .tok (.name n) tail) :
    CT.tokenize (f + 1) inp = (.name n :: (CT.tokenize f tail).1, (CT.tokenize f tail).2) := by
  simp only [CT.tokenize, h1]
  simp

/-- tokenising `/` body ` kw\n` when the body reads as the name `n` -/
theorem tokenize_name_kw (body n kw : List Nat) (f : Nat) (hk : nameKw kw = true)
    (h : CT.readName (body ++ 32 :: (kw ++ [10])) = .tok (.name n) (32 :: (kw ++ [10]))) :
    CT.tokenize (f + 2) (47 :: (body ++ 32 :: (kw ++ [10]))) = ([.name n, .operator kw], false) := by
  have h1 : CT.nextToken (47 :: (body ++ 32 :: (kw ++ [10]))) = .tok (.name n) (32 :: (kw ++ [10])) := by
    simp [CT.nextToken, CT.nextTok, CT.isWs, CT.isDigit, h]
  rw [show f + 2 = (f + 1) + 1 from rfl, tokenize_step_name _ _ n (f + 1) h1, tokenize_kw_tail kw f hk]

theorem parseView_name_kw (body n kw : List Nat) (hk : nameKw kw = true)
    (h : CT.readName (body ++ 32 :: (kw ++ [10])) = .tok (.name n) (32 :: (kw ++ [10]))) :
    CT.parseView (47 :: (body ++ 32 :: (kw ++ [10]))) = some [(kw, n)] := by
  have hl : (47 :: (body ++ 32 :: (kw ++ [10]))).length + 1 = (body.length + kw.length + 2) + 2 := by
    simp; omega
  unfold CT.parseView
  rw [hl, tokenize_name_kw body n kw _ hk h]
  simp [nameKw] at hk
  rcases hk with (((rfl | rfl) | rfl) | rfl) | rfl <;> rfl

theorem spec_content_tail (kw : List Nat) (f : Nat) (hk : nameKw kw = true) :
    Syntax.readContentAux (f + 2) (32 :: (kw ++ [10])) = some [.operator kw] := by
  simp [nameKw] at hk
  rcases hk with (((rfl | rfl) | rfl) | rfl) | rfl <;> rfl

theorem spec_content_step_name (body rest n : List Nat) (F : Nat)
    (h : Syntax.readName (body ++ rest) = some (n, rest)) :
    Syntax.readContentAux (F + 1) (47 :: (body ++ rest)) =
      (match Syntax.readContentAux F rest with
       | some ts => some (.operand (.name n) :: ts)
       | none => none) := by
  have h1 : Syntax.readCTok (47 :: (body ++ rest)) = some (some (.operand (.name n), rest)) := by
    simp [Syntax.readCTok, Syntax.skip, Syntax.isWhite, Syntax.readObj, h]
  simp only [Syntax.readContentAux, h1]
  cases Syntax.readContentAux F rest <;> rfl

theorem spec_content_name_kw (body n kw : List Nat) (hk : nameKw kw = true)
    (h : Syntax.readName (body ++ 32 :: (kw ++ [10])) = some (n, 32 :: (kw ++ [10]))) :
    Syntax.readContent (47 :: (body ++ 32 :: (kw ++ [10]))) = some [.operand (.name n), .operator kw] := by
  have hl : (47 :: (body ++ 32 :: (kw ++ [10]))).length + 1 = ((body.length + kw.length + 1) + 2) + 1 := by
    simp; omega
  unfold Syntax.readContent
  rw [hl, spec_content_step_name body _ n _ h, spec_content_tail kw _ hk]

theorem endsContent_space (r : List Nat) : endsContent (32 :: r) = true := by
  simp [endsContent, specEnds, ctEnds, Syntax.isRegular, Syntax.isWhite, CT.isNameBreak, CT.isWs]

/-- (C) on the safe fragment: `/n Do\n` (and `cs`, `CS`, `sh`, `gs`) written by `serialize_ops` is
    parsed by the library's `ContentParser` to exactly one operator with the operand `n`, and an
    ISO 32000-1 reader sees exactly the operand `/n` followed by the operator -/
theorem C30_name_operator_partial (n kw : List Nat) (hn : SafeName n = true) (hk : nameKw kw = true) :
    CT.parseView (opName n kw) = some [(kw, n)] ∧
    Syntax.readContent (opName n kw) = some [.operand (.name n), .operator kw] := by
  have h := C30_raw_operand_roundtrip_partial n (32 :: (kw ++ [10])) hn (endsContent_space _)
  exact ⟨parseView_name_kw n n kw hk h.2, spec_content_name_kw n n kw hk h.1⟩

example : nameKw kDo = true ∧ nameKw ksh = true ∧ opName [73, 109] kDo = [47, 73, 109, 32, 68, 111, 10] := by decide

/-! ## counter-witnesses (the content site as it is) -/

/-- `draw_image("My Image", …)` writes `/My Image Do`: the library's content parser finds no `Do`
    with a name operand at all (the operand stack holds `/My` when the unknown operator `Image`
    clears it); an ISO reader sees the name `My`, an operator `Image`, and a `Do` without operand -/
theorem C30_witness_space_content :
    CT.parseView (opName myImage kDo) = some [] ∧
    Syntax.readContent (opName myImage kDo) = some [.operand (.name [77, 121]), .operator [73, 109, 97, 103, 101], .operator kDo] := by
  constructor <;> rfl

/-- hence (C) fails for it -/
theorem C30_witness_space_content_ne :
    ¬ (CT.parseView (opName myImage kDo) = some [(kDo, myImage)]) := by
  rw [C30_witness_space_content.1]; decide

/-- the two sites now disagree: the resource key written for `My Image` resolves (both readers
    return the user's name), the operand that should select it does not -/
theorem C30_witness_key_resolves_operand_does_not :
    Syntax.read (ser (.dict [(myImage, .ref 6 0)])) = some (.dict [(myImage, .ref 6 0)], []) ∧
    ObjParser.parse (ser (.dict [(myImage, .ref 6 0)]) ++ [10]) = .ok (.dict [(myImage, .ref 6 0)], [10]) ∧
    Syntax.readName (myImage ++ [32, 68, 111, 10]) = some ([77, 121], [32, 73, 109, 97, 103, 101, 32, 68, 111, 10]) ∧
    CT.readName (myImage ++ [32, 68, 111, 10]) = .tok (.name [77, 121]) [32, 73, 109, 97, 103, 101, 32, 68, 111, 10] := by
  refine ⟨by rfl, by rfl, by rfl, by rfl⟩

/-- `A#42` as an operand is read back as `AB` by both content readers (the key stays `A#42`) -/
theorem C30_witness_hash :
    Syntax.readName ([65, 35, 52, 50] ++ [32]) = some ([65, 66], [32]) ∧
    CT.readName ([65, 35, 52, 50] ++ [32]) = .tok (.name [65, 66]) [32] ∧
    Syntax.readName (escapeName [65, 35, 52, 50] ++ [32]) = some ([65, 35, 52, 50], [32]) := by
  refine ⟨by rfl, by rfl, by rfl⟩

/-- `A#zz`: the independent reader rejects the operand, the content tokenizer fails (and silently
    drops the rest of the content stream) -/
theorem C30_witness_hash_invalid :
    Syntax.readName ([65, 35, 122, 122] ++ [32]) = none ∧
    CT.readName ([65, 35, 122, 122] ++ [32]) = .err ∧
    CT.parseView (opName [65, 35, 122, 122] kDo ++ opName [66] kDo) = some [] := by
  refine ⟨by rfl, by rfl, by rfl⟩

/-- `A/B`: read as the name `A` followed by the name `B` — `Do` paints `B` -/
theorem C30_witness_solidus :
    Syntax.readName ([65, 47, 66] ++ [32]) = some ([65], [47, 66, 32]) ∧
    CT.parseView (opName [65, 47, 66] kDo) = some [(kDo, [66])] := by
  refine ⟨by rfl, by rfl⟩

/-- `A(B`: the `(` opens a literal string that swallows the rest of the content stream -/
theorem C30_witness_paren :
    CT.parseView (opName [65, 40, 66] kDo) = some [] ∧
    Syntax.readContent (opName [65, 40, 66] kDo) = none := by
  refine ⟨by rfl, by rfl⟩

/-- NUL is white space for ISO 32000-1 but an ordinary name byte for the library's content
    tokenizer: the library reads its own content stream back, a conforming reader does not -/
theorem C30_witness_nul :
    Syntax.readName ([65, 0, 66] ++ [32]) = some ([65], [0, 66, 32]) ∧
    CT.readName ([65, 0, 66] ++ [32]) = .tok (.name [65, 0, 66]) [32] := by
  refine ⟨by rfl, by rfl⟩

/-! ## the repair's specification: the same `#XX` escaping at the content site -/

/-- With the escaping emitter EVERY name (every byte string that is valid UTF-8, i.e. every Rust
    `String`) used as an operand is read back as itself by the independent reader and by the
    library's content tokenizer (`decode_name` decodes the escapes) -/
theorem C30_escaped_operand_all_names (n d : List Nat) (hb : NameBytes n = true)
    (hu : CT.validUtf8 n = true) (hd : endsContent d = true) :
    Syntax.readName (escapeName n ++ d) = some (n, d) ∧
    CT.readName (escapeName n ++ d) = .tok (.name n) d := by
  simp [endsContent] at hd
  exact ⟨spec_readName_escName n d hb hd.1, ct_readName_esc n d hb hu hd.2⟩

example : NameBytes (myImage ++ [35, 47, 40, 0, 195, 169]) = true ∧
    CT.validUtf8 (myImage ++ [35, 47, 40, 0, 195, 169]) = true := by decide

/-- the escaped emission leaves printable names without delimiters / `#` as they are (no change
    for files that are right today) -/
theorem C30_escape_identity_on_printable (n : List Nat) (h : PrintableName n = true) : escapeName n = n := by
  induction n with
  | nil => rfl
  | cons x xs ih =>
    unfold PrintableName at h ih
    rw [allB_cons] at h
    have h1 := h.1
    simp [Syntax.isDelim] at h1
    have : nameRegular x = true := by
      simp [nameRegular]
      omega
    simp [escapeName, this, ih h.2]

/-- (C) for ALL names with the repaired emitter: `/` escaped-name ` Do\n` parses to exactly one
    operator with the user's name — the name the dictionary site yields -/
theorem C30_escaped_name_operator (n kw : List Nat) (hb : NameBytes n = true)
    (hu : CT.validUtf8 n = true) (hk : nameKw kw = true) :
    CT.parseView (opNameEscaped n kw) = some [(kw, n)] ∧
    Syntax.readContent (opNameEscaped n kw) = some [.operand (.name n), .operator kw] := by
  have h := C30_escaped_operand_all_names n (32 :: (kw ++ [10])) hb hu (endsContent_space _)
  exact ⟨parseView_name_kw (escapeName n) n kw hk h.2, spec_content_name_kw (escapeName n) n kw hk h.1⟩

example : opNameEscaped myImage kDo = [47, 77, 121, 35, 50, 48, 73, 109, 97, 103, 101, 32, 68, 111, 10] := by decide

end OxiVerif.C30
