import OxiVerif.Lemmas.C30
set_option linter.unusedSimpArgs false
/-!
# C30 — page resource names chosen by the user cannot break the page

A user-chosen name `n` (the UTF-8 bytes of a Rust `String`) is emitted at two sites, through the
same escaper `escape_pdf_name_bytes` (`Model.escapeName`: `#XX` for every byte outside `!`..`~`,
for the delimiters and for `#`):
* **dictionary site** — as a key of a resource sub-dictionary of the page (`write_object_value`:
  `\n/` ++ esc(name) ++ ` ` ++ value) = `Model.ser`; escaped since fix 16fac722, raw before
  (`Model.serUnescaped`);
* **content site** — as an operand in the content stream (`serialize_ops`: `write_name_operand` +
  ` Do\n`, `cs`, `CS`, `gs`, `ri`, `sh`, ` size Tf`; `begin_marked_content`: `escape_tag`)
  = `opName`, `opTf`, `opBDC`; escaped since the repair of C30-F1/F2, raw before
  (`opNameOld`, `opTfOld`, `opBDCOld`).
It is read back by (i) the library's object lexer `Lexer.readName` (dictionary keys), (ii) the
library's content tokenizer `CT.readName` (operands), (iii) an independent strict reader
`Spec.Syntax.readName` (ISO 32000-1 §7.3.5).

The property is proved for ALL names at both sites at the byte level (every valid-UTF-8 byte string,
no length bound, induction over the name): key and operand lex back to the same name, the user's;
the surrounding one-entry dictionary / operator line parses to exactly the authored structure.
One part stays partial: the `String` the library's OBJECT LEXER builds from the key bytes
(`byte as char`) equals the user's only for ASCII names (`C30_witness_non_ascii`, finding C30-F3).
The statements about the `…Old` / `serUnescaped` emitters are the regressions the check must catch.
-/
namespace OxiVerif.C30
open OxiVerif.Spec.Syntax (Obj)
open OxiVerif.Model
open OxiVerif.Spec
open OxiVerif.C09

/-- the continuation ends a name inside a dictionary for the independent reader and the object lexer -/
def endsDict (d : List Nat) : Bool := specEnds d && libEnds d
/-- the continuation ends a name inside a content stream for the independent reader and the tokenizer -/
def endsContent (d : List Nat) : Bool := specEnds d && ctEnds d

/- FULL: for every byte string `n` that is valid UTF-8 (every Rust `String`), every object number
   `i ≤ 4 294 967 295` (every `u32`), generation `g ≤ 65535` and operator `kw ∈ {Do, cs, CS, sh, gs}`:
   (D) the resource dictionary `ser (.dict [(n, .ref i g)])` parses, by the independent reader and by
       the library's parser, to exactly `.dict [(n, .ref i g)]` (key = the user's name as a `String`);
   (C) the operator line `opName n kw` parses to exactly one operator `kw` whose operand is `n`:
       `CT.parseView (opName n kw) = some [(kw, n)]` and
       `Syntax.readContent (opName n kw) = some [.operand (.name n), .operator kw]`;
   hence key and operand are the SAME name, equal to the user's.
   (C) is proved in full (`C30_name_operator`, `C30_key_and_operand_same_name`).
   (D) is proved in full for the independent reader (`C30_resource_dict_spec`) and at the byte level
   for the library (`C30_dict_key_all_names`); at the `String` level for all ASCII `n`
   (`C30_resource_dict_lib_partial`) — false for non-ASCII `n`: `C30_witness_non_ascii`. -/

/-! ## the dictionary site (escaped since fix 16fac722) -/

/-- every name, whatever its bytes, written as a dictionary key / name value is read back byte for
    byte by the independent reader and by the library's object lexer -/
theorem C30_dict_key_all_names (n d : List Nat) (hb : NameBytes n = true) (hd : endsDict d = true) :
    Syntax.readName (escapeName n ++ d) = some (n, d) ∧ Lexer.readName (escapeName n ++ d) = .ok (n, d) := by
  simp [endsDict] at hd
  exact ⟨spec_readName_escName n d hb hd.1, lib_readName_escName n d hb hd.2⟩

def myImage : List Nat := [77, 121, 32, 73, 109, 97, 103, 101]   -- "My Image"

example : NameBytes (myImage ++ [35, 47, 40, 0, 195, 169]) = true ∧ endsDict [32, 54] = true ∧
    escapeName [65, 32, 35] = [65, 35, 50, 48, 35, 50, 51] := by decide

theorem latin1_ascii (n : List Nat) (h : NameAscii n = true) : ObjCanon.utf8OfLatin1 n = n := by
  unfold NameAscii at h
  induction n with
  | nil => rfl
  | cons x xs ih =>
    rw [allB_cons] at h
    have hx : x < 128 := by simpa using h.1
    simp [ObjCanon.utf8OfLatin1, hx, ih h.2]

/-- for ASCII names the `String` the object lexer builds (`byte as char`) is the user's `String` -/
theorem C30_dict_key_string_ascii (n : List Nat) (h : NameAscii n = true) : ObjCanon.utf8OfLatin1 n = n :=
  latin1_ascii n h

example : NameAscii myImage = true := by decide

/-- Non-ASCII names: the bytes come back, but the `String` built from them is mojibake — for `é`
    (written `/#C3#A9`) the library reads the resource key `Ã©` while the operand `/é` of the
    content stream is read as `é`: the library cannot resolve its own operand in its own
    resource dictionary (the independent reader has no such problem) -/
theorem C30_witness_non_ascii :
    escapeName [195, 169] = [35, 67, 51, 35, 65, 57] ∧
    Lexer.readName (escapeName [195, 169] ++ [32]) = .ok ([195, 169], [32]) ∧
    ObjCanon.utf8OfLatin1 [195, 169] = [195, 131, 194, 169] ∧
    CT.readName ([195, 169] ++ [32]) = .tok (.name [195, 169]) [32] ∧
    ObjCanon.utf8OfLatin1 [195, 169] ≠ [195, 169] := by
  refine ⟨by rfl, by rfl, by rfl, by rfl, by decide⟩

theorem ser_one_entry (n : List Nat) (v : Obj) (hv : sortDicts v = v) :
    ser (.dict [(n, v)]) = serRaw (.dict [(n, v)]) := by
  simp [ser, sortDicts, sortDictsKVs, sortKV, insertKV, hv]

/-- (D), independent reader, ALL names: the one-entry resource sub-dictionary `<<\n/n i g R\n>>`
    written by the serializer is read as exactly the key `n` ↦ the reference — nothing injected,
    nothing lost, whatever follows -/
theorem C30_resource_dict_spec (n rest : List Nat) (i g fuel : Nat) (hn : NameBytes n = true)
    (hf : 4 ≤ fuel) :
    Syntax.readObj fuel (ser (.dict [(n, .ref i g)]) ++ rest) = some (.dict [(n, .ref i g)], rest) := by
  rw [ser_one_entry n _ (by simp [sortDicts])]
  have hs : SafeSpec (.dict [(n, .ref i g)]) rest = true := by
    simp [SafeSpec, SafeSpecEntries, hn, serEntries, specEnds, Syntax.isRegular, Syntax.isWhite]
  have := spec_obj_roundtrip (.dict [(n, .ref i g)]) rest fuel hs (by simp [need, needKVs]; omega)
  simpa [readBack, readBackKVs] using this

example : NameBytes [120, 32, 54, 32, 48, 32, 82, 32, 47, 73, 110, 106, 0, 255] = true := by decide

/-- (D), the library's `PdfObject::parse`, all ASCII names (white space, delimiters, `#`, controls
    included) -/
theorem C30_resource_dict_lib_partial (n rest : List Nat) (i g fuel : Nat) (hn : NameAscii n = true)
    (hi : i ≤ 4294967295) (hg : g ≤ 65535) (hr : libDictFollowOk rest = true) (hf : 7 ≤ fuel) :
    ObjParser.parseObj fuel (ser (.dict [(n, .ref i g)]) ++ rest) = .ok (.dict [(n, .ref i g)], rest) := by
  rw [ser_one_entry n _ (by simp [sortDicts])]
  have hs : SafeLib (.dict [(n, .ref i g)]) rest = true := by
    simp [SafeLib, SafeLibEntries, hn, hi, hg, hr, serEntries, libEnds, Lexer.isBreak, Lexer.isAsciiWs]
  have := lib_parseObj_roundtrip (.dict [(n, .ref i g)]) rest fuel hs (by simp [needFT, needDict]; omega)
  simpa [readBack, readBackKVs] using this

example : NameAscii [65, 32, 35, 52, 50, 47, 40, 0] = true ∧ libDictFollowOk [10, 47, 84] = true ∧
    libDictFollowOk [10, 62, 62] = true := by
  refine ⟨by decide, by rfl, by rfl⟩

/-- what fix 16fac722 repaired (kept as a record; `serUnescaped` = the writer before the fix):
    `add_image("My Image", …)` gave `<<\n/My Image 6 0 R\n>>`, rejected by the library's own parser
    and by the independent reader -/
theorem C30_fixed_witness_space_dict :
    ObjParser.parse (serUnescaped (.dict [(myImage, .ref 6 0)]) ++ [10]) = .error .syntax ∧
    Syntax.read (serUnescaped (.dict [(myImage, .ref 6 0)]) ++ [10]) = none := by
  constructor <;> rfl

/-- … and a name could inject a whole extra key (`x 6 0 R /Inj`) -/
theorem C30_fixed_witness_injected_key :
    Syntax.read (serUnescaped (.dict [([120, 32, 54, 32, 48, 32, 82, 32, 47, 73, 110, 106], .ref 6 0)]))
      = some (.dict [([120], .ref 6 0), ([73, 110, 106], .ref 6 0)], []) := by rfl

/-! ## the content site (escaped since the repair of C30-F1/F2) -/

/-- EVERY name (every byte string that is valid UTF-8, i.e. every Rust `String`) written as an
    operand is read back as itself by the independent reader and by the library's content
    tokenizer (`decode_name` decodes the escapes) -/
theorem C30_operand_all_names (n d : List Nat) (hb : NameBytes n = true)
    (hu : CT.validUtf8 n = true) (hd : endsContent d = true) :
    Syntax.readName (escapeName n ++ d) = some (n, d) ∧
    CT.readName (escapeName n ++ d) = .tok (.name n) d := by
  simp [endsContent] at hd
  exact ⟨spec_readName_escName n d hb hd.1, ct_readName_esc n d hb hu hd.2⟩

example : NameBytes (myImage ++ [35, 47, 40, 0, 195, 169]) = true ∧
    CT.validUtf8 (myImage ++ [35, 47, 40, 0, 195, 169]) = true ∧ endsContent [32, 68] = true := by decide

/-- the key written in the resources dictionary and the operand written in the content stream lex
    back to the SAME name, the user's: for the independent reader at both sites, for the library's
    object lexer (bytes) at the dictionary site and its content tokenizer at the content site -/
theorem C30_key_and_operand_same_name (n d1 d2 : List Nat) (hb : NameBytes n = true)
    (hu : CT.validUtf8 n = true) (h1 : endsDict d1 = true) (h2 : endsContent d2 = true) :
    Syntax.readName (escapeName n ++ d1) = some (n, d1) ∧
    Lexer.readName (escapeName n ++ d1) = .ok (n, d1) ∧
    Syntax.readName (escapeName n ++ d2) = some (n, d2) ∧
    CT.readName (escapeName n ++ d2) = .tok (.name n) d2 :=
  ⟨(C30_dict_key_all_names n d1 hb h1).1, (C30_dict_key_all_names n d1 hb h1).2,
   (C30_operand_all_names n d2 hb hu h2).1, (C30_operand_all_names n d2 hb hu h2).2⟩

example : endsDict [32, 54, 32, 48, 32, 82] = true ∧ endsContent [32, 49, 50, 32, 84, 102, 10] = true := by decide

/-- where `validate_pdf_resource_name` is called (`add_form_xobject`, `add_color_space`,
    `add_pattern`, `add_shading`) an accepted name is non-empty and made of regular characters
    without `#`: `C30_raw_operand_bytes_partial` applies to its operands -/
theorem C30_validated_names_regular (n : List Nat) (h : validName n = true) : RegName n = true ∧ n ≠ [] := by
  simp [validName] at h
  refine ⟨allB_imp _ _ ?_ n h.2, by intro e; simp [e] at h⟩
  intro b hb
  simp [isForbidden] at hb
  simp [Syntax.isRegular, hb]

example : validName [195, 169, 1, 127] = true := by decide

/-- the operators `Do cs CS sh gs` -/
def nameKw (kw : List Nat) : Bool := kw == kDo || kw == kcs || kw == kCS || kw == ksh || kw == kgs

theorem tokenize_end (f : Nat) : CT.tokenize f [10] = ([], false) := by
  cases f <;> rfl

theorem tokenize_kw_tail (kw : List Nat) (f : Nat) (hk : nameKw kw = true) :
    CT.tokenize (f + 1) (32 :: (kw ++ [10])) = ([.operator kw], false) := by
  simp [nameKw] at hk
  rcases hk with (((rfl | rfl) | rfl) | rfl) | rfl
  · have h : CT.nextToken (32 :: (kDo ++ [10])) = .tok (.operator kDo) [10] := by rfl
    simp [CT.tokenize, h, tokenize_end]; decide
  · have h : CT.nextToken (32 :: (kcs ++ [10])) = .tok (.operator kcs) [10] := by rfl
    simp [CT.tokenize, h, tokenize_end]; decide
  · have h : CT.nextToken (32 :: (kCS ++ [10])) = .tok (.operator kCS) [10] := by rfl
    simp [CT.tokenize, h, tokenize_end]; decide
  · have h : CT.nextToken (32 :: (ksh ++ [10])) = .tok (.operator ksh) [10] := by rfl
    simp [CT.tokenize, h, tokenize_end]; decide
  · have h : CT.nextToken (32 :: (kgs ++ [10])) = .tok (.operator kgs) [10] := by rfl
    simp [CT.tokenize, h, tokenize_end]; decide

theorem tokenize_step_name (inp tail n : List Nat) (f : Nat)
    (h1 : CT.nextToken inp = .tok (.name n) tail) :
    CT.tokenize (f + 1) inp = (.name n :: (CT.tokenize f tail).1, (CT.tokenize f tail).2) := by
  simp only [CT.tokenize, h1]
  simp

/-- tokenising `/` body ` kw\n` when the body reads as the name `n` -/
theorem tokenize_name_kw (body n kw : List Nat) (f : Nat) (hk : nameKw kw = true)
    (h : CT.readName (body ++ 32 :: (kw ++ [10])) = .tok (.name n) (32 :: (kw ++ [10]))) :
    CT.tokenize (f + 2) (47 :: (body ++ 32 :: (kw ++ [10]))) = ([.name n, .operator kw], false) := by
  have h1 : CT.nextToken (47 :: (body ++ 32 :: (kw ++ [10]))) = .tok (.name n) (32 :: (kw ++ [10])) := by
    simp [CT.nextToken, CT.nextTok, CT.isWs, CT.isDigit, h]
  rw [show f + 2 = (f + 1) + 1 from rfl, tokenize_step_name _ _ n (f + 1) h1, tokenize_kw_tail kw f hk]

theorem parseView_name_kw (body n kw : List Nat) (hk : nameKw kw = true)
    (h : CT.readName (body ++ 32 :: (kw ++ [10])) = .tok (.name n) (32 :: (kw ++ [10]))) :
    CT.parseView (47 :: (body ++ 32 :: (kw ++ [10]))) = some [(kw, n)] := by
  have hl : (47 :: (body ++ 32 :: (kw ++ [10]))).length + 1 = (body.length + kw.length + 2) + 2 := by
    simp; omega
  unfold CT.parseView
  rw [hl, tokenize_name_kw body n kw _ hk h]
  simp [nameKw] at hk
  rcases hk with (((rfl | rfl) | rfl) | rfl) | rfl <;> rfl

theorem spec_content_tail (kw : List Nat) (f : Nat) (hk : nameKw kw = true) :
    Syntax.readContentAux (f + 2) (32 :: (kw ++ [10])) = some [.operator kw] := by
  simp [nameKw] at hk
  rcases hk with (((rfl | rfl) | rfl) | rfl) | rfl <;> rfl

theorem spec_content_step_name (body rest n : List Nat) (F : Nat)
    (h : Syntax.readName (body ++ rest) = some (n, rest)) :
    Syntax.readContentAux (F + 1) (47 :: (body ++ rest)) =
      (match Syntax.readContentAux F rest with
       | some ts => some (.operand (.name n) :: ts)
       | none => none) := by
  have h1 : Syntax.readCTok (47 :: (body ++ rest)) = some (some (.operand (.name n), rest)) := by
    simp [Syntax.readCTok, Syntax.skip, Syntax.isWhite, Syntax.readObj, h]
  simp only [Syntax.readContentAux, h1]
  cases Syntax.readContentAux F rest <;> rfl

theorem spec_content_name_kw (body n kw : List Nat) (hk : nameKw kw = true)
    (h : Syntax.readName (body ++ 32 :: (kw ++ [10])) = some (n, 32 :: (kw ++ [10]))) :
    Syntax.readContent (47 :: (body ++ 32 :: (kw ++ [10]))) = some [.operand (.name n), .operator kw] := by
  have hl : (47 :: (body ++ 32 :: (kw ++ [10]))).length + 1 = ((body.length + kw.length + 1) + 2) + 1 := by
    simp; omega
  unfold Syntax.readContent
  rw [hl, spec_content_step_name body _ n _ h, spec_content_tail kw _ hk]

theorem endsContent_space (r : List Nat) : endsContent (32 :: r) = true := by
  simp [endsContent, specEnds, ctEnds, Syntax.isRegular, Syntax.isWhite, CT.isNameBreak, CT.isWs]

/-- (C) for ALL names: `/esc(n) Do\n` (and `cs`, `CS`, `sh`, `gs`) written by `serialize_ops` is
    parsed by the library's `ContentParser` to exactly one operator with the operand `n`, and an
    ISO 32000-1 reader sees exactly the operand `/n` followed by the operator — no token of the
    name leaks into the stream -/
theorem C30_name_operator (n kw : List Nat) (hb : NameBytes n = true)
    (hu : CT.validUtf8 n = true) (hk : nameKw kw = true) :
    CT.parseView (opName n kw) = some [(kw, n)] ∧
    Syntax.readContent (opName n kw) = some [.operand (.name n), .operator kw] := by
  have h := C30_operand_all_names n (32 :: (kw ++ [10])) hb hu (endsContent_space _)
  exact ⟨parseView_name_kw (escapeName n) n kw hk h.2, spec_content_name_kw (escapeName n) n kw hk h.1⟩

example : nameKw kDo = true ∧ nameKw ksh = true ∧
    opName myImage kDo = [47, 77, 121, 35, 50, 48, 73, 109, 97, 103, 101, 32, 68, 111, 10] := by decide

/-- the names that broke the old emitter are fine now -/
theorem C30_my_image_operator :
    CT.parseView (opName myImage kDo) = some [(kDo, myImage)] ∧
    CT.parseView (opName [65, 35, 52, 50] kDo) = some [(kDo, [65, 35, 52, 50])] ∧
    Syntax.readContent (opName [65, 47, 66] ksh) = some [.operand (.name [65, 47, 66]), .operator ksh] :=
  ⟨(C30_name_operator myImage kDo (by decide) (by decide) (by decide)).1,
   (C30_name_operator [65, 35, 52, 50] kDo (by decide) (by decide) (by decide)).1,
   (C30_name_operator [65, 47, 66] ksh (by decide) (by decide) (by decide)).2⟩

/-- the escaped emission leaves printable names without delimiters / `#` as they are (no change
    for files that are right today) -/
theorem C30_escape_identity_on_printable (n : List Nat) (h : PrintableName n = true) : escapeName n = n := by
  induction n with
  | nil => rfl
  | cons x xs ih =>
    unfold PrintableName at h ih
    rw [allB_cons] at h
    have h1 := h.1
    simp [Syntax.isDelim] at h1
    have : nameRegular x = true := by
      simp [nameRegular]
      omega
    simp [escapeName, this, ih h.2]


/-! ### font selection: `/esc(n) size Tf` -/

/-- the tail ` 12 Tf\n` of a font-selection line -/
def tfTail : List Nat := [32, 49, 50, 32, 84, 102, 10]

theorem tokenize_tf_tail (f : Nat) :
    CT.tokenize (f + 2) tfTail = ([.integer 12, .operator kTf], false) := by
  have h1 : CT.nextToken tfTail = .tok (.integer 12) [32, 84, 102, 10] := by rfl
  have h2 : CT.nextToken [32, 84, 102, 10] = .tok (.operator kTf) [10] := by rfl
  show CT.tokenize (f + 1 + 1) _ = _
  simp only [CT.tokenize, h1]
  simp [h2, tokenize_end]
  decide

theorem spec_content_tf_tail (f : Nat) :
    Syntax.readContentAux (f + 3) tfTail = some [.operand (.int 12), .operator kTf] := by rfl

/-- `/esc(n) 12 Tf\n` for ALL names: exactly one `Tf` with the font name `n` -/
theorem C30_tf_operator (n : List Nat) (hb : NameBytes n = true) (hu : CT.validUtf8 n = true) :
    CT.parseView (opTf n [49, 50]) = some [(kTf, n)] ∧
    Syntax.readContent (opTf n [49, 50]) = some [.operand (.name n), .operand (.int 12), .operator kTf] := by
  have h := C30_operand_all_names n tfTail hb hu (by decide)
  have e : opTf n [49, 50] = 47 :: (escapeName n ++ tfTail) := by simp [opTf, tfTail]
  rw [e]
  constructor
  · have h1 : CT.nextToken (47 :: (escapeName n ++ tfTail)) = .tok (.name n) tfTail := by
      simp [CT.nextToken, CT.nextTok, CT.isWs, CT.isDigit, h.2]
    have hl : (47 :: (escapeName n ++ tfTail)).length + 1 = ((escapeName n).length + 6 + 2) + 1 := by
      simp [tfTail]
    unfold CT.parseView
    rw [hl, tokenize_step_name _ _ n _ h1, tokenize_tf_tail]
    rfl
  · have hl : (47 :: (escapeName n ++ tfTail)).length + 1 = ((escapeName n).length + 5 + 3) + 1 := by
      simp [tfTail]
    unfold Syntax.readContent
    rw [hl, spec_content_step_name (escapeName n) _ n _ h.1, spec_content_tf_tail]

example : opTf myImage [49, 50] = [47, 77, 121, 35, 50, 48, 73, 109, 97, 103, 101, 32, 49, 50, 32, 84, 102, 10] := by decide

/-! ## the content site before its repair (`opNameOld`: raw operands) — regression statements -/

/-- raw operands were right only on the safe fragment (regular characters, no `#`, ASCII) … -/
theorem C30_old_raw_operand_roundtrip (n d : List Nat) (hn : SafeName n = true) (hd : endsContent d = true) :
    Syntax.readName (n ++ d) = some (n, d) ∧ CT.readName (n ++ d) = .tok (.name n) d := by
  simp [endsContent] at hd
  exact ⟨spec_readName_raw n d (safe_specOk n hn) hd.1,
    ct_readName_raw n d (safe_reg n hn) (validUtf8_ascii n (safe_ascii n hn)) hd.2⟩

example : SafeName [73, 109, 49, 45, 95, 46, 43, 1, 127] = true ∧ SafeName [] = true := by decide

theorem C30_printable_names_safe (n : List Nat) (h : PrintableName n = true) : SafeName n = true :=
  printable_safe n h

example : PrintableName [77, 121, 73, 109, 97, 103, 101, 33, 126] = true := by decide

/-- … and on regular non-ASCII bytes -/
theorem C30_old_raw_operand_bytes (n d : List Nat) (hn : RegName n = true) (hu : CT.validUtf8 n = true)
    (hd : endsContent d = true) :
    Syntax.readName (n ++ d) = some (n, d) ∧ CT.readName (n ++ d) = .tok (.name n) d := by
  simp [endsContent] at hd
  exact ⟨spec_readName_reg n d hn hd.1, ct_readName_raw n d hn hu hd.2⟩

example : RegName [195, 169, 226, 130, 172] = true ∧ CT.validUtf8 [195, 169, 226, 130, 172] = true := by decide

theorem C30_old_name_operator_safe (n kw : List Nat) (hn : SafeName n = true) (hk : nameKw kw = true) :
    CT.parseView (opNameOld n kw) = some [(kw, n)] ∧
    Syntax.readContent (opNameOld n kw) = some [.operand (.name n), .operator kw] := by
  have h := C30_old_raw_operand_roundtrip n (32 :: (kw ++ [10])) hn (endsContent_space _)
  exact ⟨parseView_name_kw n n kw hk h.2, spec_content_name_kw n n kw hk h.1⟩

example : opNameOld [73, 109] kDo = [47, 73, 109, 32, 68, 111, 10] := by decide

/-- `draw_image("My Image", …)` wrote `/My Image Do`: the library's content parser found no `Do`
    with a name operand at all; an ISO reader saw the name `My`, an operator `Image`, a bare `Do` -/
theorem C30_old_witness_space_content :
    CT.parseView (opNameOld myImage kDo) = some [] ∧
    Syntax.readContent (opNameOld myImage kDo) = some [.operand (.name [77, 121]), .operator [73, 109, 97, 103, 101], .operator kDo] := by
  constructor <;> rfl

theorem C30_old_witness_space_content_ne :
    ¬ (CT.parseView (opNameOld myImage kDo) = some [(kDo, myImage)]) := by
  rw [C30_old_witness_space_content.1]; decide

/-- between the two repairs the sites disagreed: the key for `My Image` resolved, the raw operand
    did not -/
theorem C30_old_witness_key_resolves_operand_does_not :
    Syntax.read (ser (.dict [(myImage, .ref 6 0)])) = some (.dict [(myImage, .ref 6 0)], []) ∧
    ObjParser.parse (ser (.dict [(myImage, .ref 6 0)]) ++ [10]) = .ok (.dict [(myImage, .ref 6 0)], [10]) ∧
    Syntax.readName (myImage ++ [32, 68, 111, 10]) = some ([77, 121], [32, 73, 109, 97, 103, 101, 32, 68, 111, 10]) ∧
    CT.readName (myImage ++ [32, 68, 111, 10]) = .tok (.name [77, 121]) [32, 73, 109, 97, 103, 101, 32, 68, 111, 10] := by
  refine ⟨by rfl, by rfl, by rfl, by rfl⟩

/-- raw `A#42` was read back as `AB` by both content readers -/
theorem C30_old_witness_hash :
    Syntax.readName ([65, 35, 52, 50] ++ [32]) = some ([65, 66], [32]) ∧
    CT.readName ([65, 35, 52, 50] ++ [32]) = .tok (.name [65, 66]) [32] := by
  refine ⟨by rfl, by rfl⟩

/-- raw `A#zz`: rejected by the independent reader; the content tokenizer failed and silently
    dropped the rest of the content stream -/
theorem C30_old_witness_hash_invalid :
    Syntax.readName ([65, 35, 122, 122] ++ [32]) = none ∧
    CT.readName ([65, 35, 122, 122] ++ [32]) = .err ∧
    CT.parseView (opNameOld [65, 35, 122, 122] kDo ++ opNameOld [66] kDo) = some [] := by
  refine ⟨by rfl, by rfl, by rfl⟩

/-- raw `A/B`: the name `A` followed by the name `B` — `Do` painted `B` -/
theorem C30_old_witness_solidus :
    Syntax.readName ([65, 47, 66] ++ [32]) = some ([65], [47, 66, 32]) ∧
    CT.parseView (opNameOld [65, 47, 66] kDo) = some [(kDo, [66])] := by
  refine ⟨by rfl, by rfl⟩

/-- raw `A(B`: the `(` opened a literal string that swallowed the rest of the content stream -/
theorem C30_old_witness_paren :
    CT.parseView (opNameOld [65, 40, 66] kDo) = some [] ∧
    Syntax.readContent (opNameOld [65, 40, 66] kDo) = none := by
  refine ⟨by rfl, by rfl⟩

/-- raw NUL: white space for ISO 32000-1, an ordinary name byte for the library's tokenizer -/
theorem C30_old_witness_nul :
    Syntax.readName ([65, 0, 66] ++ [32]) = some ([65], [0, 66, 32]) ∧
    CT.readName ([65, 0, 66] ++ [32]) = .tok (.name [65, 0, 66]) [32] := by
  refine ⟨by rfl, by rfl⟩

end OxiVerif.C30
