import OxiVerif.Model.C17
import OxiVerif.Props.C04
set_option linter.unusedSimpArgs false
/-!
# C17 — incremental updates are append-only and take effect

Statements about the model of `IncrementalUpdate::finish` (text-note editor) and of the assembly
part of `fill_many_impl` (form filler), for every base file, every list of replaced objects with
arbitrary bodies, every history length.  "Takes effect" is stated with C04's specification
`newest` (ISO 32000-1 §7.5.6): the appended section decides for exactly the numbers it lists.

/- FULL (as the property states it, for the library's own reader too):
     ∀ history, ∀ edited field f, (library reader on the final file).value f = last value written
   The cross-reference half of it holds since /repo f090b1d9 (C04-F1 repaired) for every base,
   also those that keep their fields in object streams: `C17_edit_visible_to_library_reader`,
   `C17_history_visible_to_library_reader` below (the old merge is refuted by
   `C17_witness_edit_invisible_old`).  The VALUE half is still false for values outside the
   PDFDocEncoding identity range (the form filler stores /V as raw UTF-8, which is not a PDF text
   string): known finding C17-F2, demonstrated on the real code by the correspondence run. -/
-/
namespace OxiVerif.C17
open OxiVerif

/-- **Append-only**: the text-note writer's output starts with the base, byte for byte. -/
theorem C17_finish_append_only (base : Bytes) (prev rn rg size : Nat) (repl : List Obj) (id : Bytes) :
    (finish base prev rn rg size repl id).take base.length = base := by
  simp [finish]

/-- **Append-only**: the form filler's output starts with the base, byte for byte. -/
theorem C17_fill_append_only (base : Bytes) (prev rn rg size : Nat) (objs : List Obj) (id : Bytes) :
    (fill base prev rn rg size objs id).take base.length = base := by
  simp [fill]

example : (fill [37, 80, 68, 70] 9 1 0 8 [⟨5, 0, [60, 60, 62, 62]⟩] []).take 4 = [37, 80, 68, 70] := by
  decide

/-- The recorded cross-reference entries are exactly the written objects, in writing order. -/
theorem C17_layout_entries (start : Nat) (objs : List Obj) :
    (layout start objs).2.map (fun c => (c.num, c.gen)) = objs.map (fun o => (o.num, o.gen)) := by
  induction objs generalizing start with
  | nil => simp [layout]
  | cons o r ih => simp [layout, ih]

theorem layout_length (start : Nat) (objs : List Obj) :
    (layout start objs).1.length = (objs.map fun o => (writeIndirect o.num o.gen o.body).length).sum := by
  induction objs generalizing start with
  | nil => simp [layout]
  | cons o r ih => simp [layout, ih]

/-- **Every entry points at the first byte of its `N G obj` header**: in any file that consists of
    `pre` (the base, plus the optional EOL), the laid-out objects and anything after them, the
    bytes at a recorded offset start with that object's header. -/
theorem C17_offsets_point_at_headers (objs : List Obj) (pre post : Bytes) :
    ∀ c ∈ (layout pre.length objs).2,
      ∃ t, (pre ++ (layout pre.length objs).1 ++ post).drop c.off = objHeader c.num c.gen ++ t := by
  induction objs generalizing pre with
  | nil => simp [layout]
  | cons o r ih =>
    intro c hc
    simp only [layout, List.mem_cons] at hc
    rcases hc with rfl | hc
    · refine ⟨o.body ++ ascii "\nendobj\n" ++ (layout (pre.length + (writeIndirect o.num o.gen o.body).length) r).1 ++ post, ?_⟩
      simp [layout, writeIndirect, List.append_assoc]
    · have h := ih (pre ++ writeIndirect o.num o.gen o.body) c (by simpa [List.length_append] using hc)
      obtain ⟨t, ht⟩ := h
      refine ⟨t, ?_⟩
      simp only [layout, List.length_append] at ht ⊢
      simpa [List.append_assoc] using ht

example : ∃ t, ([1, 2, 3] ++ (layout 3 [⟨7, 0, [65]⟩, ⟨9, 1, [66]⟩]).1 ++ [0]).drop 20 = objHeader 9 1 ++ t :=
  C17_offsets_point_at_headers [⟨7, 0, [65]⟩, ⟨9, 1, [66]⟩] [1, 2, 3] [0] ⟨9, 1, 20⟩ (by decide)

/-- **The subsections cover exactly the changed entries**, in order, nothing added or lost. -/
theorem C17_subsections_cover (cs : List Changed) :
    (groupRuns cs).flatMap (·.2) = cs := by
  induction cs with
  | nil => simp [groupRuns]
  | cons c r ih =>
    simp only [groupRuns]
    cases hg : groupRuns r with
    | nil =>
      rw [hg] at ih
      simp at ih
      simp [← ih]
    | cons g more =>
      obtain ⟨s, es⟩ := g
      rw [hg] at ih
      by_cases h : s = c.num + 1
      · simp only [h, if_true, List.flatMap_cons] at ih ⊢
        simp [← ih]
      · simp only [h, if_false, List.flatMap_cons] at ih ⊢
        simp [← ih]

/-- **Each subsection is contiguous**: it is headed by its first number, is not empty, and its
    k-th entry is number `start + k`. -/
theorem C17_subsections_contiguous (cs : List Changed) :
    ∀ g ∈ groupRuns cs, g.2 ≠ [] ∧ g.2.map (·.num) = List.range' g.1 g.2.length := by
  induction cs with
  | nil => simp [groupRuns]
  | cons c r ih =>
    intro g hg
    simp only [groupRuns] at hg
    cases hr : groupRuns r with
    | nil =>
      rw [hr] at hg
      simp only [List.mem_cons, List.not_mem_nil, or_false] at hg
      subst hg
      simp [List.range']
    | cons g0 more =>
      obtain ⟨s, es⟩ := g0
      rw [hr] at hg ih
      have ih0 := ih (s, es) (List.mem_cons_self ..)
      by_cases h : s = c.num + 1
      · simp only [h, if_true, List.mem_cons] at hg
        rcases hg with rfl | hg
        · refine ⟨by simp, ?_⟩
          simp only [List.map_cons, List.length_cons, List.range'_succ]
          rw [ih0.2, h]
        · exact ih g (List.mem_cons_of_mem _ hg)
      · simp only [h, if_false, List.mem_cons] at hg
        rcases hg with rfl | rfl | hg
        · simp [List.range']
        · exact ih0
        · exact ih g (List.mem_cons_of_mem _ (hg))

example : groupRuns [⟨5, 0, 100⟩, ⟨6, 0, 140⟩, ⟨9, 0, 200⟩] =
    [(5, [⟨5, 0, 100⟩, ⟨6, 0, 140⟩]), (9, [⟨9, 0, 200⟩])] := by decide

/-- sorting (the xref of the form filler, the objects of `finish`) only permutes -/
theorem insertBy_perm {α} (key : α → Nat) (x : α) (l : List α) : (insertBy key x l).Perm (x :: l) := by
  induction l with
  | nil => simp [insertBy]
  | cons y r ih =>
    simp only [insertBy]
    split
    · exact List.Perm.refl _
    · exact (List.Perm.cons y ih).trans (List.Perm.swap x y r)

theorem foldl_insertBy_perm {α} (key : α → Nat) (xs acc : List α) :
    (xs.foldl (fun acc x => insertBy key x acc) acc).Perm (xs.reverse ++ acc) := by
  induction xs generalizing acc with
  | nil => simp
  | cons x r ih =>
    simp only [List.foldl_cons, List.reverse_cons, List.append_assoc]
    refine (ih _).trans ?_
    exact List.Perm.append_left _ (insertBy_perm key x acc)

/-- **Sorting loses and invents nothing**: the sorted list is a permutation of the input. -/
theorem C17_sort_perm {α} (key : α → Nat) (xs : List α) : (sortBy key xs).Perm xs := by
  unfold sortBy
  have := foldl_insertBy_perm key xs []
  simp only [List.append_nil] at this
  exact this.trans (List.reverse_perm xs)

theorem insertBy_sorted {α} (key : α → Nat) (x : α) (l : List α)
    (h : l.Pairwise (fun a b => key a ≤ key b)) :
    (insertBy key x l).Pairwise (fun a b => key a ≤ key b) := by
  induction l with
  | nil => simp [insertBy]
  | cons y r ih =>
    simp only [insertBy]
    rw [List.pairwise_cons] at h
    split
    · rename_i hlt
      refine List.pairwise_cons.2 ⟨?_, List.pairwise_cons.2 h⟩
      intro a ha
      rcases List.mem_cons.1 ha with rfl | ha
      · omega
      · have := h.1 a ha; omega
    · rename_i hge
      refine List.pairwise_cons.2 ⟨?_, ih h.2⟩
      intro a ha
      have hp := (insertBy_perm key x r).mem_iff.1 ha
      rcases List.mem_cons.1 hp with rfl | ha'
      · omega
      · exact h.1 a ha'

/-- **… and sorts**: the xref numbers of the form filler's section are ascending. -/
theorem C17_sort_sorted {α} (key : α → Nat) (xs : List α) :
    (sortBy key xs).Pairwise (fun a b => key a ≤ key b) := by
  unfold sortBy
  suffices ∀ acc : List α, acc.Pairwise (fun a b => key a ≤ key b) →
      (xs.foldl (fun acc x => insertBy key x acc) acc).Pairwise (fun a b => key a ≤ key b) from
    this [] List.Pairwise.nil
  induction xs with
  | nil => intro acc h; simpa using h
  | cons x r ih => intro acc h; exact ih _ (insertBy_sorted key x acc h)

example : sortBy (·.num) [⟨7, 0, 1⟩, ⟨5, 0, 2⟩, ⟨6, 0, 3⟩] = ([⟨5, 0, 2⟩, ⟨6, 0, 3⟩, ⟨7, 0, 1⟩] : List Changed) := by
  decide

/-! ### the edit takes effect (spec-level reader = C04's `newest`) -/

/-- the appended cross-reference section as C04 sees it -/
def sectionOf (cs : List Changed) : C04.Sect := cs.map fun c => (c.num, C04.Ent.inuse c.off c.gen)

theorem lastOf_sectionOf_none (cs : List Changed) (n : Nat) (h : ∀ c ∈ cs, c.num ≠ n) :
    C04.lastOf (sectionOf cs) n = none := by
  induction cs with
  | nil => rfl
  | cons c r ih =>
    have hr := ih (fun c hc => h c (List.mem_cons_of_mem _ hc))
    have hc := h c (List.mem_cons_self ..)
    simp only [sectionOf, List.map_cons, C04.lastOf] at hr ⊢
    simp [hr, hc]

theorem lastOf_sectionOf_mem (cs : List Changed) (c : Changed) (hc : c ∈ cs)
    (hd : (cs.map (·.num)).Nodup) :
    C04.lastOf (sectionOf cs) c.num = some (C04.Ent.inuse c.off c.gen) := by
  induction cs with
  | nil => cases hc
  | cons d r ih =>
    simp only [List.map_cons, List.nodup_cons] at hd
    simp only [sectionOf, List.map_cons, C04.lastOf]
    rcases List.mem_cons.1 hc with rfl | hm
    · have : C04.lastOf (sectionOf r) c.num = none :=
        lastOf_sectionOf_none r c.num (fun e he heq => hd.1 (heq ▸ List.mem_map_of_mem he))
      simp only [sectionOf] at this
      simp [this]
    · have := ih hm hd.2
      simp only [sectionOf] at this
      simp [this]

/-- **Takes effect, one edit.**  For a spec-level reader, after appending the section of an edit
    whose object numbers are distinct (`replace` refuses a second rewrite of a number):
    a rewritten number resolves to the new object's offset, every other number resolves exactly
    as it did before. -/
theorem C17_edit_takes_effect (cs : List Changed) (chain : List C04.Sect) (n : Nat)
    (hd : (cs.map (·.num)).Nodup) :
    (∀ c ∈ cs, c.num = n → C04.newest (sectionOf cs :: chain) n = some (C04.Ent.inuse c.off c.gen)) ∧
    ((∀ c ∈ cs, c.num ≠ n) → C04.newest (sectionOf cs :: chain) n = C04.newest chain n) := by
  constructor
  · intro c hc hn
    subst hn
    simp [C04.newest, lastOf_sectionOf_mem cs c hc hd]
  · intro h
    simp [C04.newest, lastOf_sectionOf_none cs n h]

example : C04.newest (sectionOf [⟨5, 0, 900⟩] :: [[(5, C04.Ent.inuse 100 0), (4, C04.Ent.inuse 50 0)]]) 5
    = some (C04.Ent.inuse 900 0) := by decide

/-- a history of edits appended one after the other (head = first edit) -/
def applyEdits (chain : List C04.Sect) : List (List Changed) → List C04.Sect
  | [] => chain
  | e :: rest => applyEdits (sectionOf e :: chain) rest

/-- the newest entry a history of edits gives number `n` (none: no edit touched it) -/
def lastEdit (n : Nat) : List (List Changed) → Option C04.Ent
  | [] => none
  | e :: rest =>
    match lastEdit n rest with
    | some x => some x
    | none => C04.lastOf (sectionOf e) n

/-- **Takes effect, any history.**  After K edits (K arbitrary) a spec-level reader resolves a
    number to the entry written by the LAST edit that rewrote it, and a number no edit rewrote
    exactly as in the base. -/
theorem C17_history_takes_effect (chain : List C04.Sect) (edits : List (List Changed)) (n : Nat) :
    C04.newest (applyEdits chain edits) n =
      match lastEdit n edits with
      | some e => some e
      | none => C04.newest chain n := by
  induction edits generalizing chain with
  | nil => simp [applyEdits, lastEdit]
  | cons e rest ih =>
    simp only [applyEdits, lastEdit]
    rw [ih]
    cases lastEdit n rest with
    | some x => rfl
    | none =>
      simp only [C04.newest]
      cases C04.lastOf (sectionOf e) n <;> rfl

example : C04.newest (applyEdits [[(5, C04.Ent.inuse 100 0), (4, C04.Ent.inuse 50 0)]]
    [[⟨5, 0, 900⟩], [⟨4, 0, 1000⟩], [⟨5, 0, 1100⟩]]) 5 = some (C04.Ent.inuse 1100 0) := by decide


/-! ### the edit takes effect for the LIBRARY's reader (C04's model of its merged table) -/

theorem listedOnce_sectionOf (cs : List Changed) (hd : (cs.map (·.num)).Nodup) (n : Nat) :
    C04.ListedOnce (sectionOf cs) n := by
  apply C04.listedOnce_of_nodup
  simpa [sectionOf, List.map_map, Function.comp_def] using hd

/-- **Takes effect for the library's reader, one edit.**  `C04.merge` is the table
    `parse_with_incremental_updates_options` builds and `.lookup` what `load_object_from_disk`
    dispatches on.  Over ANY earlier history of valid sections — classic or stream, the rewritten
    object stored in an object stream by the base or not — a rewritten number resolves to the new
    object's offset and every other number resolves exactly as before. -/
theorem C17_edit_visible_to_library_reader (cs : List Changed) (chain : List C04.Sect) (n : Nat)
    (hd : (cs.map (·.num)).Nodup) (hv : ∀ s ∈ chain, C04.ListedOnce s n) :
    (∀ c ∈ cs, c.num = n →
      (C04.merge (sectionOf cs :: chain)).lookup n = some (C04.Ent.inuse c.off c.gen)) ∧
    ((∀ c ∈ cs, c.num ≠ n) →
      (C04.merge (sectionOf cs :: chain)).lookup n = (C04.merge chain).lookup n) := by
  have hall : ∀ s ∈ sectionOf cs :: chain, C04.ListedOnce s n := by
    intro s hs
    rcases List.mem_cons.1 hs with rfl | h
    · exact listedOnce_sectionOf cs hd n
    · exact hv s h
  have h := C17_edit_takes_effect cs chain n hd
  rw [C04.C04_newest_wins _ _ hall, C04.C04_newest_wins _ _ hv]
  exact h

-- the base keeps field object 5 in object stream 7; the edit rewrites 5 as a plain object
example : (C04.merge (sectionOf [⟨5, 0, 900⟩] ::
    [[(5, C04.Ent.comp 7 0), (7, C04.Ent.inuse 1 0), (4, C04.Ent.inuse 50 0)]])).lookup 5
    = some (C04.Ent.inuse 900 0) := by decide

/-- the same base and edit under the merge BEFORE the repair: the reader kept dispatching to the
    compressed copy, the edit was invisible (the regression C17-F1) -/
theorem C17_witness_edit_invisible_old :
    (C04.mergeOld (sectionOf [⟨5, 0, 900⟩] ::
      [[(5, C04.Ent.comp 7 0), (7, C04.Ent.inuse 1 0), (4, C04.Ent.inuse 50 0)]])).lookup 5
      = some (C04.Ent.comp 7 0) := by decide

theorem applyEdits_valid (chain : List C04.Sect) (edits : List (List Changed)) (n : Nat)
    (hv : ∀ s ∈ chain, C04.ListedOnce s n) (hd : ∀ e ∈ edits, (e.map (·.num)).Nodup) :
    ∀ s ∈ applyEdits chain edits, C04.ListedOnce s n := by
  induction edits generalizing chain with
  | nil => simpa [applyEdits] using hv
  | cons e rest ih =>
    simp only [applyEdits]
    apply ih
    · intro s hs
      rcases List.mem_cons.1 hs with rfl | h
      · exact listedOnce_sectionOf e (hd e (List.mem_cons_self ..)) n
      · exact hv s h
    · exact fun e' he' => hd e' (List.mem_cons_of_mem _ he')

/-- **Takes effect for the library's reader, any history.**  After K edits (K arbitrary) over any
    base history of valid sections, the library's reader dispatches a number to the entry written
    by the LAST edit that rewrote it, and a number no edit rewrote exactly as in the base. -/
theorem C17_history_visible_to_library_reader (chain : List C04.Sect) (edits : List (List Changed))
    (n : Nat) (hv : ∀ s ∈ chain, C04.ListedOnce s n) (hd : ∀ e ∈ edits, (e.map (·.num)).Nodup) :
    (C04.merge (applyEdits chain edits)).lookup n =
      match lastEdit n edits with
      | some e => some e
      | none => (C04.merge chain).lookup n := by
  rw [C04.C04_newest_wins _ _ (applyEdits_valid chain edits n hv hd), C04.C04_newest_wins _ _ hv]
  exact C17_history_takes_effect chain edits n

example : (C04.merge (applyEdits [[(5, C04.Ent.comp 7 0), (7, C04.Ent.inuse 1 0), (4, C04.Ent.comp 7 1)]]
    [[⟨5, 0, 900⟩], [⟨4, 0, 1000⟩], [⟨5, 0, 1100⟩]])).lookup 5 = some (C04.Ent.inuse 1100 0) := by decide

/-- **Page paths (finding C17-F3).**  The numbers the PdfWriter page paths allocate for the objects
    they append all lie BELOW the /Size of any base that has a catalog, a page tree and a page:
    the appended section redefines base objects instead of adding fresh ones. -/
theorem C17_witness_page_step_collides (baseSize : Nat) (h : 4 ≤ baseSize) :
    ∀ id ∈ pageStepFirstIds 1, id < baseSize := by
  intro id hid
  simp only [pageStepFirstIds, List.mem_cons, List.not_mem_nil, or_false] at hid
  omega

example : pageStepFirstIds 1 = [1, 2, 3] := by decide

/-- `/Size` stays above every number the section lists when fresh numbers are allocated from
    the previous `/Size` upwards without gaps (what `allocate_id` / `next_id` do). -/
theorem C17_size_not_shrinking (prevSize : Nat) (objs : List Obj) : prevSize ≤ newSize prevSize objs := by
  simp [newSize]

end OxiVerif.C17
